import CxVerif.Proofs.GlueDigest
namespace Cx.Props.C09.GlueTieDigest
open Cx Cx.Impl.Digest Cx.Extracted.GlueDigest Cx.Proofs.GlueDigest

/-! ## src/digest.rs — the provided methods of `trait Digest`, for EVERY implementation `D : DigestModel δ` -/

/-- `output_bytes` = `(output_bits() + 7) / 8` -/
theorem Digest.output_bytes_src_eq_model {δ : Type} (D : DigestModel δ) (self : δ) :
    Digest.output_bytes_src D self = D.output_bytes self := rfl

/-- `input_str(s)` = `input(s.as_bytes())` -/
theorem Digest.input_str_src_eq_model {δ : Type} (D : DigestModel δ) (self : δ) (input : Bytes) :
    Digest.input_str_src D self input = D.input self input := by
  unfold Digest.input_str_src
  cases D.input self input <;> rfl

/-- `result_str()`: `result` into a buffer of `(output_bits() + 7) / 8` zero bytes, then two lowercase hex digits per byte,
    high nibble first; the table look-ups never panic -/
theorem Digest.result_str_src_eq_model {δ : Type} (D : DigestModel δ) (self : δ) :
    Digest.result_str_src D self = (D.result self (D.output_bytes self)).map (fun p => (p.1, hexAscii p.2)) := by
  unfold Digest.result_str_src DigestModel.output_bytes
  have hz : (zeros ((D.output_bits self + 7) / 8)).length = (D.output_bits self + 7) / 8 := by simp [zeros]
  simp only [hz]
  cases D.result self ((D.output_bits self + 7) / 8) with
  | none => rfl
  | some p => simp [result_str_loop]

/-- the bytes `result_str` returns are the hex codec the line protocol uses (Util/Bytes.lean `Hex.encodeChars`) -/
theorem Digest.result_str_is_hex (d : Bytes) :
    (hexAscii d).map (fun b => Char.ofNat b.toNat) = Hex.encodeChars d := hexAscii_chars d

/-! ## src/sha1.rs, src/sha2.rs, src/sha3.rs, src/ripemd160.rs — the 16 wrappers `{ ctx, computed }` -/

/-! #### `Sha1` -/
theorem Sha1.new_src_eq_model : Legacy.Sha1.new_src = Impl.Digest.Legacy.new sha1Ctx := rfl
theorem Sha1.reset_src_eq_model (self : Legacy _) : Legacy.Sha1.reset_src self = Impl.Digest.Legacy.reset sha1Ctx self := rfl
theorem Sha1.input_src_eq_model (self : Legacy _) (msg : Bytes) :
    Legacy.Sha1.input_src self msg = Impl.Digest.Legacy.input sha1Ctx self msg := by
  unfold Legacy.Sha1.input_src Legacy.input
  cases self.computed <;> cases h : Impl.Sha1.Context.update_mut self.ctx msg <;> simp [h, sha1Ctx]
theorem Sha1.result_src_eq_model (self : Legacy _) (slice : Bytes) :
    Legacy.Sha1.result_src self slice = Impl.Digest.Legacy.result sha1Ctx self slice.length := by
  rw [← legacy_result]
  unfold Legacy.Sha1.result_src
  cases self.computed <;> cases h : Impl.Sha1.Context.finalize_reset self.ctx <;> simp [h, sha1Ctx]
theorem Sha1.output_bits_src_eq_model (self : Legacy _) :
    Legacy.Sha1.output_bits_src self = Impl.Digest.Legacy.output_bits sha1Ctx self := by
  unfold Legacy.Sha1.output_bits_src Legacy.output_bits; decide
theorem Sha1.block_size_src_eq_model (self : Legacy _) :
    Legacy.Sha1.block_size_src self = Impl.Digest.Legacy.block_size sha1Ctx self := by
  unfold Legacy.Sha1.block_size_src Legacy.block_size; decide

/-! #### `Sha512` -/
theorem Sha512.new_src_eq_model : Legacy.Sha512.new_src = Impl.Digest.Legacy.new sha512Ctx := rfl
theorem Sha512.reset_src_eq_model (self : Legacy _) : Legacy.Sha512.reset_src self = Impl.Digest.Legacy.reset sha512Ctx self := rfl
theorem Sha512.input_src_eq_model (self : Legacy _) (msg : Bytes) :
    Legacy.Sha512.input_src self msg = Impl.Digest.Legacy.input sha512Ctx self msg := by
  unfold Legacy.Sha512.input_src Legacy.input
  cases self.computed <;> cases h : Impl.Sha2.Ctx512.update_mut self.ctx msg <;> simp [h, sha512Ctx, sha2Ctx512]
theorem Sha512.result_src_eq_model (self : Legacy _) (slice : Bytes) :
    Legacy.Sha512.result_src self slice = Impl.Digest.Legacy.result sha512Ctx self slice.length := by
  rw [← legacy_result]
  unfold Legacy.Sha512.result_src
  cases self.computed <;> cases h : Impl.Sha2.Ctx512.finalize_reset Impl.Sha2.Sha512 self.ctx <;> simp [h, sha512Ctx, sha2Ctx512]
theorem Sha512.output_bits_src_eq_model (self : Legacy _) :
    Legacy.Sha512.output_bits_src self = Impl.Digest.Legacy.output_bits sha512Ctx self := by
  unfold Legacy.Sha512.output_bits_src Legacy.output_bits; decide
theorem Sha512.block_size_src_eq_model (self : Legacy _) :
    Legacy.Sha512.block_size_src self = Impl.Digest.Legacy.block_size sha512Ctx self := by
  unfold Legacy.Sha512.block_size_src Legacy.block_size; decide

/-! #### `Sha384` -/
theorem Sha384.new_src_eq_model : Legacy.Sha384.new_src = Impl.Digest.Legacy.new sha384Ctx := rfl
theorem Sha384.reset_src_eq_model (self : Legacy _) : Legacy.Sha384.reset_src self = Impl.Digest.Legacy.reset sha384Ctx self := rfl
theorem Sha384.input_src_eq_model (self : Legacy _) (msg : Bytes) :
    Legacy.Sha384.input_src self msg = Impl.Digest.Legacy.input sha384Ctx self msg := by
  unfold Legacy.Sha384.input_src Legacy.input
  cases self.computed <;> cases h : Impl.Sha2.Ctx512.update_mut self.ctx msg <;> simp [h, sha384Ctx, sha2Ctx512]
theorem Sha384.result_src_eq_model (self : Legacy _) (slice : Bytes) :
    Legacy.Sha384.result_src self slice = Impl.Digest.Legacy.result sha384Ctx self slice.length := by
  rw [← legacy_result]
  unfold Legacy.Sha384.result_src
  cases self.computed <;> cases h : Impl.Sha2.Ctx512.finalize_reset Impl.Sha2.Sha384 self.ctx <;> simp [h, sha384Ctx, sha2Ctx512]
theorem Sha384.output_bits_src_eq_model (self : Legacy _) :
    Legacy.Sha384.output_bits_src self = Impl.Digest.Legacy.output_bits sha384Ctx self := by
  unfold Legacy.Sha384.output_bits_src Legacy.output_bits; decide
theorem Sha384.block_size_src_eq_model (self : Legacy _) :
    Legacy.Sha384.block_size_src self = Impl.Digest.Legacy.block_size sha384Ctx self := by
  unfold Legacy.Sha384.block_size_src Legacy.block_size; decide

/-! #### `Sha512Trunc256` -/
theorem Sha512Trunc256.new_src_eq_model : Legacy.Sha512Trunc256.new_src = Impl.Digest.Legacy.new sha512_256Ctx := rfl
theorem Sha512Trunc256.reset_src_eq_model (self : Legacy _) : Legacy.Sha512Trunc256.reset_src self = Impl.Digest.Legacy.reset sha512_256Ctx self := rfl
theorem Sha512Trunc256.input_src_eq_model (self : Legacy _) (msg : Bytes) :
    Legacy.Sha512Trunc256.input_src self msg = Impl.Digest.Legacy.input sha512_256Ctx self msg := by
  unfold Legacy.Sha512Trunc256.input_src Legacy.input
  cases self.computed <;> cases h : Impl.Sha2.Ctx512.update_mut self.ctx msg <;> simp [h, sha512_256Ctx, sha2Ctx512]
theorem Sha512Trunc256.result_src_eq_model (self : Legacy _) (slice : Bytes) :
    Legacy.Sha512Trunc256.result_src self slice = Impl.Digest.Legacy.result sha512_256Ctx self slice.length := by
  rw [← legacy_result]
  unfold Legacy.Sha512Trunc256.result_src
  cases self.computed <;> cases h : Impl.Sha2.Ctx512.finalize_reset Impl.Sha2.Sha512Trunc256 self.ctx <;> simp [h, sha512_256Ctx, sha2Ctx512]
theorem Sha512Trunc256.output_bits_src_eq_model (self : Legacy _) :
    Legacy.Sha512Trunc256.output_bits_src self = Impl.Digest.Legacy.output_bits sha512_256Ctx self := by
  unfold Legacy.Sha512Trunc256.output_bits_src Legacy.output_bits; decide
theorem Sha512Trunc256.block_size_src_eq_model (self : Legacy _) :
    Legacy.Sha512Trunc256.block_size_src self = Impl.Digest.Legacy.block_size sha512_256Ctx self := by
  unfold Legacy.Sha512Trunc256.block_size_src Legacy.block_size; decide

/-! #### `Sha512Trunc224` -/
theorem Sha512Trunc224.new_src_eq_model : Legacy.Sha512Trunc224.new_src = Impl.Digest.Legacy.new sha512_224Ctx := rfl
theorem Sha512Trunc224.reset_src_eq_model (self : Legacy _) : Legacy.Sha512Trunc224.reset_src self = Impl.Digest.Legacy.reset sha512_224Ctx self := rfl
theorem Sha512Trunc224.input_src_eq_model (self : Legacy _) (msg : Bytes) :
    Legacy.Sha512Trunc224.input_src self msg = Impl.Digest.Legacy.input sha512_224Ctx self msg := by
  unfold Legacy.Sha512Trunc224.input_src Legacy.input
  cases self.computed <;> cases h : Impl.Sha2.Ctx512.update_mut self.ctx msg <;> simp [h, sha512_224Ctx, sha2Ctx512]
theorem Sha512Trunc224.result_src_eq_model (self : Legacy _) (slice : Bytes) :
    Legacy.Sha512Trunc224.result_src self slice = Impl.Digest.Legacy.result sha512_224Ctx self slice.length := by
  rw [← legacy_result]
  unfold Legacy.Sha512Trunc224.result_src
  cases self.computed <;> cases h : Impl.Sha2.Ctx512.finalize_reset Impl.Sha2.Sha512Trunc224 self.ctx <;> simp [h, sha512_224Ctx, sha2Ctx512]
theorem Sha512Trunc224.output_bits_src_eq_model (self : Legacy _) :
    Legacy.Sha512Trunc224.output_bits_src self = Impl.Digest.Legacy.output_bits sha512_224Ctx self := by
  unfold Legacy.Sha512Trunc224.output_bits_src Legacy.output_bits; decide
theorem Sha512Trunc224.block_size_src_eq_model (self : Legacy _) :
    Legacy.Sha512Trunc224.block_size_src self = Impl.Digest.Legacy.block_size sha512_224Ctx self := by
  unfold Legacy.Sha512Trunc224.block_size_src Legacy.block_size; decide

/-! #### `Sha256` -/
theorem Sha256.new_src_eq_model : Legacy.Sha256.new_src = Impl.Digest.Legacy.new sha256Ctx := rfl
theorem Sha256.reset_src_eq_model (self : Legacy _) : Legacy.Sha256.reset_src self = Impl.Digest.Legacy.reset sha256Ctx self := rfl
theorem Sha256.input_src_eq_model (self : Legacy _) (msg : Bytes) :
    Legacy.Sha256.input_src self msg = Impl.Digest.Legacy.input sha256Ctx self msg := by
  unfold Legacy.Sha256.input_src Legacy.input
  cases self.computed <;> cases h : Impl.Sha2.Ctx256.update_mut self.ctx msg <;> simp [h, sha256Ctx, sha2Ctx256]
theorem Sha256.result_src_eq_model (self : Legacy _) (slice : Bytes) :
    Legacy.Sha256.result_src self slice = Impl.Digest.Legacy.result sha256Ctx self slice.length := by
  rw [← legacy_result]
  unfold Legacy.Sha256.result_src
  cases self.computed <;> cases h : Impl.Sha2.Ctx256.finalize_reset Impl.Sha2.Sha256 self.ctx <;> simp [h, sha256Ctx, sha2Ctx256]
theorem Sha256.output_bits_src_eq_model (self : Legacy _) :
    Legacy.Sha256.output_bits_src self = Impl.Digest.Legacy.output_bits sha256Ctx self := by
  unfold Legacy.Sha256.output_bits_src Legacy.output_bits; decide
theorem Sha256.block_size_src_eq_model (self : Legacy _) :
    Legacy.Sha256.block_size_src self = Impl.Digest.Legacy.block_size sha256Ctx self := by
  unfold Legacy.Sha256.block_size_src Legacy.block_size; decide

/-! #### `Sha224` -/
theorem Sha224.new_src_eq_model : Legacy.Sha224.new_src = Impl.Digest.Legacy.new sha224Ctx := rfl
theorem Sha224.reset_src_eq_model (self : Legacy _) : Legacy.Sha224.reset_src self = Impl.Digest.Legacy.reset sha224Ctx self := rfl
theorem Sha224.input_src_eq_model (self : Legacy _) (msg : Bytes) :
    Legacy.Sha224.input_src self msg = Impl.Digest.Legacy.input sha224Ctx self msg := by
  unfold Legacy.Sha224.input_src Legacy.input
  cases self.computed <;> cases h : Impl.Sha2.Ctx256.update_mut self.ctx msg <;> simp [h, sha224Ctx, sha2Ctx256]
theorem Sha224.result_src_eq_model (self : Legacy _) (slice : Bytes) :
    Legacy.Sha224.result_src self slice = Impl.Digest.Legacy.result sha224Ctx self slice.length := by
  rw [← legacy_result]
  unfold Legacy.Sha224.result_src
  cases self.computed <;> cases h : Impl.Sha2.Ctx256.finalize_reset Impl.Sha2.Sha224 self.ctx <;> simp [h, sha224Ctx, sha2Ctx256]
theorem Sha224.output_bits_src_eq_model (self : Legacy _) :
    Legacy.Sha224.output_bits_src self = Impl.Digest.Legacy.output_bits sha224Ctx self := by
  unfold Legacy.Sha224.output_bits_src Legacy.output_bits; decide
theorem Sha224.block_size_src_eq_model (self : Legacy _) :
    Legacy.Sha224.block_size_src self = Impl.Digest.Legacy.block_size sha224Ctx self := by
  unfold Legacy.Sha224.block_size_src Legacy.block_size; decide

/-! #### `Sha3_512` -/
theorem Sha3_512.new_src_eq_model : Legacy.Sha3_512.new_src = Impl.Digest.Legacy.new sha3_512Ctx := rfl
theorem Sha3_512.reset_src_eq_model (self : Legacy _) : Legacy.Sha3_512.reset_src self = Impl.Digest.Legacy.reset sha3_512Ctx self := rfl
theorem Sha3_512.input_src_eq_model (self : Legacy _) (msg : Bytes) :
    Legacy.Sha3_512.input_src self msg = Impl.Digest.Legacy.input sha3_512Ctx self msg := by
  unfold Legacy.Sha3_512.input_src Legacy.input
  cases self.computed <;> cases h : Impl.Sha3.Context.update_mut 64 self.ctx msg <;> simp [h, sha3_512Ctx, sha3Ctx]
theorem Sha3_512.result_src_eq_model (self : Legacy _) (slice : Bytes) :
    Legacy.Sha3_512.result_src self slice = Impl.Digest.Legacy.result sha3_512Ctx self slice.length := by
  rw [← legacy_result]
  unfold Legacy.Sha3_512.result_src
  cases self.computed <;> cases h : Impl.Sha3.Context.finalize_reset 64 2 self.ctx <;> simp [h, sha3_512Ctx, sha3Ctx]
theorem Sha3_512.output_bits_src_eq_model (self : Legacy _) :
    Legacy.Sha3_512.output_bits_src self = Impl.Digest.Legacy.output_bits sha3_512Ctx self := by
  unfold Legacy.Sha3_512.output_bits_src Legacy.output_bits; decide
theorem Sha3_512.block_size_src_eq_model (self : Legacy _) :
    Legacy.Sha3_512.block_size_src self = Impl.Digest.Legacy.block_size sha3_512Ctx self := by
  unfold Legacy.Sha3_512.block_size_src Legacy.block_size; decide

/-! #### `Sha3_384` -/
theorem Sha3_384.new_src_eq_model : Legacy.Sha3_384.new_src = Impl.Digest.Legacy.new sha3_384Ctx := rfl
theorem Sha3_384.reset_src_eq_model (self : Legacy _) : Legacy.Sha3_384.reset_src self = Impl.Digest.Legacy.reset sha3_384Ctx self := rfl
theorem Sha3_384.input_src_eq_model (self : Legacy _) (msg : Bytes) :
    Legacy.Sha3_384.input_src self msg = Impl.Digest.Legacy.input sha3_384Ctx self msg := by
  unfold Legacy.Sha3_384.input_src Legacy.input
  cases self.computed <;> cases h : Impl.Sha3.Context.update_mut 48 self.ctx msg <;> simp [h, sha3_384Ctx, sha3Ctx]
theorem Sha3_384.result_src_eq_model (self : Legacy _) (slice : Bytes) :
    Legacy.Sha3_384.result_src self slice = Impl.Digest.Legacy.result sha3_384Ctx self slice.length := by
  rw [← legacy_result]
  unfold Legacy.Sha3_384.result_src
  cases self.computed <;> cases h : Impl.Sha3.Context.finalize_reset 48 2 self.ctx <;> simp [h, sha3_384Ctx, sha3Ctx]
theorem Sha3_384.output_bits_src_eq_model (self : Legacy _) :
    Legacy.Sha3_384.output_bits_src self = Impl.Digest.Legacy.output_bits sha3_384Ctx self := by
  unfold Legacy.Sha3_384.output_bits_src Legacy.output_bits; decide
theorem Sha3_384.block_size_src_eq_model (self : Legacy _) :
    Legacy.Sha3_384.block_size_src self = Impl.Digest.Legacy.block_size sha3_384Ctx self := by
  unfold Legacy.Sha3_384.block_size_src Legacy.block_size; decide

/-! #### `Sha3_256` -/
theorem Sha3_256.new_src_eq_model : Legacy.Sha3_256.new_src = Impl.Digest.Legacy.new sha3_256Ctx := rfl
theorem Sha3_256.reset_src_eq_model (self : Legacy _) : Legacy.Sha3_256.reset_src self = Impl.Digest.Legacy.reset sha3_256Ctx self := rfl
theorem Sha3_256.input_src_eq_model (self : Legacy _) (msg : Bytes) :
    Legacy.Sha3_256.input_src self msg = Impl.Digest.Legacy.input sha3_256Ctx self msg := by
  unfold Legacy.Sha3_256.input_src Legacy.input
  cases self.computed <;> cases h : Impl.Sha3.Context.update_mut 32 self.ctx msg <;> simp [h, sha3_256Ctx, sha3Ctx]
theorem Sha3_256.result_src_eq_model (self : Legacy _) (slice : Bytes) :
    Legacy.Sha3_256.result_src self slice = Impl.Digest.Legacy.result sha3_256Ctx self slice.length := by
  rw [← legacy_result]
  unfold Legacy.Sha3_256.result_src
  cases self.computed <;> cases h : Impl.Sha3.Context.finalize_reset 32 2 self.ctx <;> simp [h, sha3_256Ctx, sha3Ctx]
theorem Sha3_256.output_bits_src_eq_model (self : Legacy _) :
    Legacy.Sha3_256.output_bits_src self = Impl.Digest.Legacy.output_bits sha3_256Ctx self := by
  unfold Legacy.Sha3_256.output_bits_src Legacy.output_bits; decide
theorem Sha3_256.block_size_src_eq_model (self : Legacy _) :
    Legacy.Sha3_256.block_size_src self = Impl.Digest.Legacy.block_size sha3_256Ctx self := by
  unfold Legacy.Sha3_256.block_size_src Legacy.block_size; decide

/-! #### `Sha3_224` -/
theorem Sha3_224.new_src_eq_model : Legacy.Sha3_224.new_src = Impl.Digest.Legacy.new sha3_224Ctx := rfl
theorem Sha3_224.reset_src_eq_model (self : Legacy _) : Legacy.Sha3_224.reset_src self = Impl.Digest.Legacy.reset sha3_224Ctx self := rfl
theorem Sha3_224.input_src_eq_model (self : Legacy _) (msg : Bytes) :
    Legacy.Sha3_224.input_src self msg = Impl.Digest.Legacy.input sha3_224Ctx self msg := by
  unfold Legacy.Sha3_224.input_src Legacy.input
  cases self.computed <;> cases h : Impl.Sha3.Context.update_mut 28 self.ctx msg <;> simp [h, sha3_224Ctx, sha3Ctx]
theorem Sha3_224.result_src_eq_model (self : Legacy _) (slice : Bytes) :
    Legacy.Sha3_224.result_src self slice = Impl.Digest.Legacy.result sha3_224Ctx self slice.length := by
  rw [← legacy_result]
  unfold Legacy.Sha3_224.result_src
  cases self.computed <;> cases h : Impl.Sha3.Context.finalize_reset 28 2 self.ctx <;> simp [h, sha3_224Ctx, sha3Ctx]
theorem Sha3_224.output_bits_src_eq_model (self : Legacy _) :
    Legacy.Sha3_224.output_bits_src self = Impl.Digest.Legacy.output_bits sha3_224Ctx self := by
  unfold Legacy.Sha3_224.output_bits_src Legacy.output_bits; decide
theorem Sha3_224.block_size_src_eq_model (self : Legacy _) :
    Legacy.Sha3_224.block_size_src self = Impl.Digest.Legacy.block_size sha3_224Ctx self := by
  unfold Legacy.Sha3_224.block_size_src Legacy.block_size; decide

/-! #### `Keccak512` -/
theorem Keccak512.new_src_eq_model : Legacy.Keccak512.new_src = Impl.Digest.Legacy.new keccak512Ctx := rfl
theorem Keccak512.reset_src_eq_model (self : Legacy _) : Legacy.Keccak512.reset_src self = Impl.Digest.Legacy.reset keccak512Ctx self := rfl
theorem Keccak512.input_src_eq_model (self : Legacy _) (msg : Bytes) :
    Legacy.Keccak512.input_src self msg = Impl.Digest.Legacy.input keccak512Ctx self msg := by
  unfold Legacy.Keccak512.input_src Legacy.input
  cases self.computed <;> cases h : Impl.Sha3.Context.update_mut 64 self.ctx msg <;> simp [h, keccak512Ctx, sha3Ctx]
theorem Keccak512.result_src_eq_model (self : Legacy _) (slice : Bytes) :
    Legacy.Keccak512.result_src self slice = Impl.Digest.Legacy.result keccak512Ctx self slice.length := by
  rw [← legacy_result]
  unfold Legacy.Keccak512.result_src
  cases self.computed <;> cases h : Impl.Sha3.Context.finalize_reset 64 0 self.ctx <;> simp [h, keccak512Ctx, sha3Ctx]
theorem Keccak512.output_bits_src_eq_model (self : Legacy _) :
    Legacy.Keccak512.output_bits_src self = Impl.Digest.Legacy.output_bits keccak512Ctx self := by
  unfold Legacy.Keccak512.output_bits_src Legacy.output_bits; decide
theorem Keccak512.block_size_src_eq_model (self : Legacy _) :
    Legacy.Keccak512.block_size_src self = Impl.Digest.Legacy.block_size keccak512Ctx self := by
  unfold Legacy.Keccak512.block_size_src Legacy.block_size; decide

/-! #### `Keccak384` -/
theorem Keccak384.new_src_eq_model : Legacy.Keccak384.new_src = Impl.Digest.Legacy.new keccak384Ctx := rfl
theorem Keccak384.reset_src_eq_model (self : Legacy _) : Legacy.Keccak384.reset_src self = Impl.Digest.Legacy.reset keccak384Ctx self := rfl
theorem Keccak384.input_src_eq_model (self : Legacy _) (msg : Bytes) :
    Legacy.Keccak384.input_src self msg = Impl.Digest.Legacy.input keccak384Ctx self msg := by
  unfold Legacy.Keccak384.input_src Legacy.input
  cases self.computed <;> cases h : Impl.Sha3.Context.update_mut 48 self.ctx msg <;> simp [h, keccak384Ctx, sha3Ctx]
theorem Keccak384.result_src_eq_model (self : Legacy _) (slice : Bytes) :
    Legacy.Keccak384.result_src self slice = Impl.Digest.Legacy.result keccak384Ctx self slice.length := by
  rw [← legacy_result]
  unfold Legacy.Keccak384.result_src
  cases self.computed <;> cases h : Impl.Sha3.Context.finalize_reset 48 0 self.ctx <;> simp [h, keccak384Ctx, sha3Ctx]
theorem Keccak384.output_bits_src_eq_model (self : Legacy _) :
    Legacy.Keccak384.output_bits_src self = Impl.Digest.Legacy.output_bits keccak384Ctx self := by
  unfold Legacy.Keccak384.output_bits_src Legacy.output_bits; decide
theorem Keccak384.block_size_src_eq_model (self : Legacy _) :
    Legacy.Keccak384.block_size_src self = Impl.Digest.Legacy.block_size keccak384Ctx self := by
  unfold Legacy.Keccak384.block_size_src Legacy.block_size; decide

/-! #### `Keccak256` -/
theorem Keccak256.new_src_eq_model : Legacy.Keccak256.new_src = Impl.Digest.Legacy.new keccak256Ctx := rfl
theorem Keccak256.reset_src_eq_model (self : Legacy _) : Legacy.Keccak256.reset_src self = Impl.Digest.Legacy.reset keccak256Ctx self := rfl
theorem Keccak256.input_src_eq_model (self : Legacy _) (msg : Bytes) :
    Legacy.Keccak256.input_src self msg = Impl.Digest.Legacy.input keccak256Ctx self msg := by
  unfold Legacy.Keccak256.input_src Legacy.input
  cases self.computed <;> cases h : Impl.Sha3.Context.update_mut 32 self.ctx msg <;> simp [h, keccak256Ctx, sha3Ctx]
theorem Keccak256.result_src_eq_model (self : Legacy _) (slice : Bytes) :
    Legacy.Keccak256.result_src self slice = Impl.Digest.Legacy.result keccak256Ctx self slice.length := by
  rw [← legacy_result]
  unfold Legacy.Keccak256.result_src
  cases self.computed <;> cases h : Impl.Sha3.Context.finalize_reset 32 0 self.ctx <;> simp [h, keccak256Ctx, sha3Ctx]
theorem Keccak256.output_bits_src_eq_model (self : Legacy _) :
    Legacy.Keccak256.output_bits_src self = Impl.Digest.Legacy.output_bits keccak256Ctx self := by
  unfold Legacy.Keccak256.output_bits_src Legacy.output_bits; decide
theorem Keccak256.block_size_src_eq_model (self : Legacy _) :
    Legacy.Keccak256.block_size_src self = Impl.Digest.Legacy.block_size keccak256Ctx self := by
  unfold Legacy.Keccak256.block_size_src Legacy.block_size; decide

/-! #### `Keccak224` -/
theorem Keccak224.new_src_eq_model : Legacy.Keccak224.new_src = Impl.Digest.Legacy.new keccak224Ctx := rfl
theorem Keccak224.reset_src_eq_model (self : Legacy _) : Legacy.Keccak224.reset_src self = Impl.Digest.Legacy.reset keccak224Ctx self := rfl
theorem Keccak224.input_src_eq_model (self : Legacy _) (msg : Bytes) :
    Legacy.Keccak224.input_src self msg = Impl.Digest.Legacy.input keccak224Ctx self msg := by
  unfold Legacy.Keccak224.input_src Legacy.input
  cases self.computed <;> cases h : Impl.Sha3.Context.update_mut 28 self.ctx msg <;> simp [h, keccak224Ctx, sha3Ctx]
theorem Keccak224.result_src_eq_model (self : Legacy _) (slice : Bytes) :
    Legacy.Keccak224.result_src self slice = Impl.Digest.Legacy.result keccak224Ctx self slice.length := by
  rw [← legacy_result]
  unfold Legacy.Keccak224.result_src
  cases self.computed <;> cases h : Impl.Sha3.Context.finalize_reset 28 0 self.ctx <;> simp [h, keccak224Ctx, sha3Ctx]
theorem Keccak224.output_bits_src_eq_model (self : Legacy _) :
    Legacy.Keccak224.output_bits_src self = Impl.Digest.Legacy.output_bits keccak224Ctx self := by
  unfold Legacy.Keccak224.output_bits_src Legacy.output_bits; decide
theorem Keccak224.block_size_src_eq_model (self : Legacy _) :
    Legacy.Keccak224.block_size_src self = Impl.Digest.Legacy.block_size keccak224Ctx self := by
  unfold Legacy.Keccak224.block_size_src Legacy.block_size; decide

/-! #### `Ripemd160` -/
theorem Ripemd160.new_src_eq_model : Legacy.Ripemd160.new_src = Impl.Digest.Legacy.new ripemd160Ctx := rfl
theorem Ripemd160.reset_src_eq_model (self : Legacy _) : Legacy.Ripemd160.reset_src self = Impl.Digest.Legacy.reset ripemd160Ctx self := rfl
theorem Ripemd160.input_src_eq_model (self : Legacy _) (msg : Bytes) :
    Legacy.Ripemd160.input_src self msg = Impl.Digest.Legacy.input ripemd160Ctx self msg := by
  unfold Legacy.Ripemd160.input_src Legacy.input
  cases self.computed <;> cases h : Impl.Ripemd160.Context.update_mut self.ctx msg <;> simp [h, ripemd160Ctx]
theorem Ripemd160.result_src_eq_model (self : Legacy _) (slice : Bytes) :
    Legacy.Ripemd160.result_src self slice = Impl.Digest.Legacy.result ripemd160Ctx self slice.length := by
  rw [← legacy_result]
  unfold Legacy.Ripemd160.result_src
  cases self.computed <;> cases h : Impl.Ripemd160.Context.finalize_reset self.ctx <;> simp [h, ripemd160Ctx]
theorem Ripemd160.output_bits_src_eq_model (self : Legacy _) :
    Legacy.Ripemd160.output_bits_src self = Impl.Digest.Legacy.output_bits ripemd160Ctx self := by
  unfold Legacy.Ripemd160.output_bits_src Legacy.output_bits; decide
theorem Ripemd160.block_size_src_eq_model (self : Legacy _) :
    Legacy.Ripemd160.block_size_src self = Impl.Digest.Legacy.block_size ripemd160Ctx self := by
  unfold Legacy.Ripemd160.block_size_src Legacy.block_size; decide
end Cx.Props.C09.GlueTieDigest
