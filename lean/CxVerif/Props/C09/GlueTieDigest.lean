/-
  Props.C09.GlueTieDigest — the translator tie for the STATEFUL GLUE of the legacy `Digest` objects and of the hash contexts.

  `Extracted/GlueDigest.lean` is regenerated on every run by tools/ktx_glue_digest.py (specs: tools/kernels/glue_digest.py) from
      src/digest.rs             `Digest::output_bytes`, `input_str`, `result_str` (provided methods, for EVERY implementation)
      src/sha1.rs, sha2.rs, sha3.rs, ripemd160.rs   the 16 wrappers `{ ctx, computed }` — the `digest!` macros are expanded, one
                                Lean def per invocation and function: new / reset / input / result / output_bits / block_size
      src/blake2b.rs, blake2s.rs   `Blake2b` / `Blake2s`: new, new_keyed, update, finalize, reset, reset_with_key, the static
                                one-shot, `impl Digest`, `impl Mac`
      src/hashing/sha1.rs       digest_block, digest_blocks, mk_result, Context::{new, update_mut, update, reset, finalize,
                                finalize_reset}, Sha1::new
      src/hashing/ripemd160.rs  process_msg_blocks, Context::{new, update_mut, update, reset, finalize_reset, finalize},
                                Ripemd160::new
      src/hashing/sha2/mod.rs   the six `digest!` invocations: $ctxname::{new, update_mut, update, reset, finalize,
                                finalize_reset}, $name::new (above the model's Engine256 / Engine512)
      src/hashing/mod.rs        the 20 one-shot functions
  — a statement-by-statement translation.  The theorems below, re-checked by the kernel on every build, say that the hand
  models of Impl/Digest.lean, Impl/Sha1.lean, Impl/Ripemd160.lean, Impl/Sha2.lean (about which C01, C02, C08, C09, C10, C20
  are proved) compute exactly what the source says NOW, for ALL states (satisfying the stated invariant) and ALL inputs of every
  length.  A semantic change of the glue (a flag, an assertion, a reset that forgets a field, a size taken from the wrong
  constant, a shift of the length field, a chunk size, a key that is not retained) changes the generated definition and breaks
  one of these proofs even when no sampled input reaches it.

  How each function is tied
    * `rfl` where the translator emits the model's shape (constructors, `reset`, the reported sizes — the sizes are evaluated
      from the `impl` blocks of src/hashing by the translator and compared with the re-extracted table of Impl/Digest.lean);
    * by case analysis on the results of the callees where source and model are the same tree of `match`es;
    * by induction for the two `for b in x.chunks(64)` loops and the hex loop of `result_str`;
    * through an ABSTRACTION for the legacy BLAKE2 objects: the Rust struct keeps `key: [u8; N]` and `keylen`, the model keeps
      `key[..keylen]` — `B2b.abs` / `B2s.abs`, under the invariant `B2b.Inv` / `B2s.Inv` (`key.length = N ∧ keylen ≤ N`,
      established by the constructors and preserved by every method: the `*_src_inv` theorems);
    * out-parameters: `result(&mut out)`-style functions take and return the whole slice, the models take its LENGTH and return
      the new contents (they overwrite all of it or panic); `mk_result` writes all of `rs: &mut [u8; 20]` (hypothesis
      `rs.length = 20`, a typing fact; its two callers pass `[0; 20]`);
    * `result_str`: the `String` is its UTF-8 bytes; `hexAscii` is proved to be the hex codec of Util/Bytes.lean.
  What the generated functions CALL but this file does not tie (the model's functions, tied by the other translators):
  `FixedBuffer` (Props/C01/GlueTieMd.lean), Engine256/512 (ibid.), the SHA-3 / Keccak contexts and the BLAKE2 contexts
  (Props/C02/GlueTieSponge.lean), the compression cores `digest_block_u32` / `process_msg_block` (Props/C01/KernelTie*.lean),
  `MacResult::new_from_owned` (Props/C05/GlueTieMac.lean).  Byte counters: `processed_bytes += len` is the wrapping operation
  of the models (release semantics; the overflow-checked build is C20's business, Props/C20/HashLen.lean).
  The last section composes the ties of the one-shot functions with the C01 theorems: source = standard.
-/
import CxVerif.Proofs.GlueDigest
import CxVerif.Props.C01.Sha1
import CxVerif.Props.C01.Ripemd160
import CxVerif.Props.C01.Sha2
import CxVerif.Props.C01.Sha3
import CxVerif.Props.C01.Blake2
namespace Cx.Props.C09.GlueTieDigest
open Cx Cx.Impl.Digest Cx.Extracted.GlueDigest Cx.Proofs.GlueDigest

/-! ## src/digest.rs — the provided methods of `trait Digest`, for EVERY implementation `D : DigestModel δ` -/

/-- `output_bytes` = `(output_bits() + 7) / 8` -/
theorem Digest.output_bytes_src_eq_model {δ : Type} (D : DigestModel δ) (self : δ) :
    Digest.output_bytes_src D self = D.output_bytes self := rfl

/-- `input_str(s)` = `input(s.as_bytes())` -/
theorem Digest.input_str_src_eq_model {δ : Type} (D : DigestModel δ) (self : δ) (input : Bytes) :
    Digest.input_str_src D self input = D.input self input := by
  unfold Digest.input_str_src
  cases D.input self input <;> rfl

/-- `result_str()`: `result` into a buffer of `(output_bits() + 7) / 8` zero bytes, then two lowercase hex digits per byte,
    high nibble first; the table look-ups never panic -/
theorem Digest.result_str_src_eq_model {δ : Type} (D : DigestModel δ) (self : δ) :
    Digest.result_str_src D self = (D.result self (D.output_bytes self)).map (fun p => (p.1, hexAscii p.2)) := by
  unfold Digest.result_str_src DigestModel.output_bytes
  have hz : (zeros ((D.output_bits self + 7) / 8)).length = (D.output_bits self + 7) / 8 := by simp [zeros]
  simp only [hz]
  cases D.result self ((D.output_bits self + 7) / 8) with
  | none => rfl
  | some p => simp [result_str_loop]

/-- the bytes `result_str` returns are the hex codec the line protocol uses (Util/Bytes.lean `Hex.encodeChars`) -/
theorem Digest.result_str_is_hex (d : Bytes) :
    (hexAscii d).map (fun b => Char.ofNat b.toNat) = Hex.encodeChars d := hexAscii_chars d

/-! ## src/sha1.rs, src/sha2.rs, src/sha3.rs, src/ripemd160.rs — the 16 wrappers `{ ctx, computed }` -/

/-! #### `Sha1` -/
theorem Sha1.new_src_eq_model : Legacy.Sha1.new_src = Impl.Digest.Legacy.new sha1Ctx := rfl
theorem Sha1.reset_src_eq_model (self : Legacy _) : Legacy.Sha1.reset_src self = Impl.Digest.Legacy.reset sha1Ctx self := rfl
theorem Sha1.input_src_eq_model (self : Legacy _) (msg : Bytes) :
    Legacy.Sha1.input_src self msg = Impl.Digest.Legacy.input sha1Ctx self msg := by
  unfold Legacy.Sha1.input_src Legacy.input
  cases self.computed <;> cases h : Impl.Sha1.Context.update_mut self.ctx msg <;> simp [h, sha1Ctx]
theorem Sha1.result_src_eq_model (self : Legacy _) (slice : Bytes) :
    Legacy.Sha1.result_src self slice = Impl.Digest.Legacy.result sha1Ctx self slice.length := by
  rw [← legacy_result]
  unfold Legacy.Sha1.result_src
  cases self.computed <;> cases h : Impl.Sha1.Context.finalize_reset self.ctx <;> simp [h, sha1Ctx]
theorem Sha1.output_bits_src_eq_model (self : Legacy _) :
    Legacy.Sha1.output_bits_src self = Impl.Digest.Legacy.output_bits sha1Ctx self := by
  unfold Legacy.Sha1.output_bits_src Legacy.output_bits; decide
theorem Sha1.block_size_src_eq_model (self : Legacy _) :
    Legacy.Sha1.block_size_src self = Impl.Digest.Legacy.block_size sha1Ctx self := by
  unfold Legacy.Sha1.block_size_src Legacy.block_size; decide

/-! #### `Sha512` -/
theorem Sha512.new_src_eq_model : Legacy.Sha512.new_src = Impl.Digest.Legacy.new sha512Ctx := rfl
theorem Sha512.reset_src_eq_model (self : Legacy _) : Legacy.Sha512.reset_src self = Impl.Digest.Legacy.reset sha512Ctx self := rfl
theorem Sha512.input_src_eq_model (self : Legacy _) (msg : Bytes) :
    Legacy.Sha512.input_src self msg = Impl.Digest.Legacy.input sha512Ctx self msg := by
  unfold Legacy.Sha512.input_src Legacy.input
  cases self.computed <;> cases h : Impl.Sha2.Ctx512.update_mut self.ctx msg <;> simp [h, sha512Ctx, sha2Ctx512]
theorem Sha512.result_src_eq_model (self : Legacy _) (slice : Bytes) :
    Legacy.Sha512.result_src self slice = Impl.Digest.Legacy.result sha512Ctx self slice.length := by
  rw [← legacy_result]
  unfold Legacy.Sha512.result_src
  cases self.computed <;> cases h : Impl.Sha2.Ctx512.finalize_reset Impl.Sha2.Sha512 self.ctx <;> simp [h, sha512Ctx, sha2Ctx512]
theorem Sha512.output_bits_src_eq_model (self : Legacy _) :
    Legacy.Sha512.output_bits_src self = Impl.Digest.Legacy.output_bits sha512Ctx self := by
  unfold Legacy.Sha512.output_bits_src Legacy.output_bits; decide
theorem Sha512.block_size_src_eq_model (self : Legacy _) :
    Legacy.Sha512.block_size_src self = Impl.Digest.Legacy.block_size sha512Ctx self := by
  unfold Legacy.Sha512.block_size_src Legacy.block_size; decide

/-! #### `Sha384` -/
theorem Sha384.new_src_eq_model : Legacy.Sha384.new_src = Impl.Digest.Legacy.new sha384Ctx := rfl
theorem Sha384.reset_src_eq_model (self : Legacy _) : Legacy.Sha384.reset_src self = Impl.Digest.Legacy.reset sha384Ctx self := rfl
theorem Sha384.input_src_eq_model (self : Legacy _) (msg : Bytes) :
    Legacy.Sha384.input_src self msg = Impl.Digest.Legacy.input sha384Ctx self msg := by
  unfold Legacy.Sha384.input_src Legacy.input
  cases self.computed <;> cases h : Impl.Sha2.Ctx512.update_mut self.ctx msg <;> simp [h, sha384Ctx, sha2Ctx512]
theorem Sha384.result_src_eq_model (self : Legacy _) (slice : Bytes) :
    Legacy.Sha384.result_src self slice = Impl.Digest.Legacy.result sha384Ctx self slice.length := by
  rw [← legacy_result]
  unfold Legacy.Sha384.result_src
  cases self.computed <;> cases h : Impl.Sha2.Ctx512.finalize_reset Impl.Sha2.Sha384 self.ctx <;> simp [h, sha384Ctx, sha2Ctx512]
theorem Sha384.output_bits_src_eq_model (self : Legacy _) :
    Legacy.Sha384.output_bits_src self = Impl.Digest.Legacy.output_bits sha384Ctx self := by
  unfold Legacy.Sha384.output_bits_src Legacy.output_bits; decide
theorem Sha384.block_size_src_eq_model (self : Legacy _) :
    Legacy.Sha384.block_size_src self = Impl.Digest.Legacy.block_size sha384Ctx self := by
  unfold Legacy.Sha384.block_size_src Legacy.block_size; decide

/-! #### `Sha512Trunc256` -/
theorem Sha512Trunc256.new_src_eq_model : Legacy.Sha512Trunc256.new_src = Impl.Digest.Legacy.new sha512_256Ctx := rfl
theorem Sha512Trunc256.reset_src_eq_model (self : Legacy _) : Legacy.Sha512Trunc256.reset_src self = Impl.Digest.Legacy.reset sha512_256Ctx self := rfl
theorem Sha512Trunc256.input_src_eq_model (self : Legacy _) (msg : Bytes) :
    Legacy.Sha512Trunc256.input_src self msg = Impl.Digest.Legacy.input sha512_256Ctx self msg := by
  unfold Legacy.Sha512Trunc256.input_src Legacy.input
  cases self.computed <;> cases h : Impl.Sha2.Ctx512.update_mut self.ctx msg <;> simp [h, sha512_256Ctx, sha2Ctx512]
theorem Sha512Trunc256.result_src_eq_model (self : Legacy _) (slice : Bytes) :
    Legacy.Sha512Trunc256.result_src self slice = Impl.Digest.Legacy.result sha512_256Ctx self slice.length := by
  rw [← legacy_result]
  unfold Legacy.Sha512Trunc256.result_src
  cases self.computed <;> cases h : Impl.Sha2.Ctx512.finalize_reset Impl.Sha2.Sha512Trunc256 self.ctx <;> simp [h, sha512_256Ctx, sha2Ctx512]
theorem Sha512Trunc256.output_bits_src_eq_model (self : Legacy _) :
    Legacy.Sha512Trunc256.output_bits_src self = Impl.Digest.Legacy.output_bits sha512_256Ctx self := by
  unfold Legacy.Sha512Trunc256.output_bits_src Legacy.output_bits; decide
theorem Sha512Trunc256.block_size_src_eq_model (self : Legacy _) :
    Legacy.Sha512Trunc256.block_size_src self = Impl.Digest.Legacy.block_size sha512_256Ctx self := by
  unfold Legacy.Sha512Trunc256.block_size_src Legacy.block_size; decide

/-! #### `Sha512Trunc224` -/
theorem Sha512Trunc224.new_src_eq_model : Legacy.Sha512Trunc224.new_src = Impl.Digest.Legacy.new sha512_224Ctx := rfl
theorem Sha512Trunc224.reset_src_eq_model (self : Legacy _) : Legacy.Sha512Trunc224.reset_src self = Impl.Digest.Legacy.reset sha512_224Ctx self := rfl
theorem Sha512Trunc224.input_src_eq_model (self : Legacy _) (msg : Bytes) :
    Legacy.Sha512Trunc224.input_src self msg = Impl.Digest.Legacy.input sha512_224Ctx self msg := by
  unfold Legacy.Sha512Trunc224.input_src Legacy.input
  cases self.computed <;> cases h : Impl.Sha2.Ctx512.update_mut self.ctx msg <;> simp [h, sha512_224Ctx, sha2Ctx512]
theorem Sha512Trunc224.result_src_eq_model (self : Legacy _) (slice : Bytes) :
    Legacy.Sha512Trunc224.result_src self slice = Impl.Digest.Legacy.result sha512_224Ctx self slice.length := by
  rw [← legacy_result]
  unfold Legacy.Sha512Trunc224.result_src
  cases self.computed <;> cases h : Impl.Sha2.Ctx512.finalize_reset Impl.Sha2.Sha512Trunc224 self.ctx <;> simp [h, sha512_224Ctx, sha2Ctx512]
theorem Sha512Trunc224.output_bits_src_eq_model (self : Legacy _) :
    Legacy.Sha512Trunc224.output_bits_src self = Impl.Digest.Legacy.output_bits sha512_224Ctx self := by
  unfold Legacy.Sha512Trunc224.output_bits_src Legacy.output_bits; decide
theorem Sha512Trunc224.block_size_src_eq_model (self : Legacy _) :
    Legacy.Sha512Trunc224.block_size_src self = Impl.Digest.Legacy.block_size sha512_224Ctx self := by
  unfold Legacy.Sha512Trunc224.block_size_src Legacy.block_size; decide

/-! #### `Sha256` -/
theorem Sha256.new_src_eq_model : Legacy.Sha256.new_src = Impl.Digest.Legacy.new sha256Ctx := rfl
theorem Sha256.reset_src_eq_model (self : Legacy _) : Legacy.Sha256.reset_src self = Impl.Digest.Legacy.reset sha256Ctx self := rfl
theorem Sha256.input_src_eq_model (self : Legacy _) (msg : Bytes) :
    Legacy.Sha256.input_src self msg = Impl.Digest.Legacy.input sha256Ctx self msg := by
  unfold Legacy.Sha256.input_src Legacy.input
  cases self.computed <;> cases h : Impl.Sha2.Ctx256.update_mut self.ctx msg <;> simp [h, sha256Ctx, sha2Ctx256]
theorem Sha256.result_src_eq_model (self : Legacy _) (slice : Bytes) :
    Legacy.Sha256.result_src self slice = Impl.Digest.Legacy.result sha256Ctx self slice.length := by
  rw [← legacy_result]
  unfold Legacy.Sha256.result_src
  cases self.computed <;> cases h : Impl.Sha2.Ctx256.finalize_reset Impl.Sha2.Sha256 self.ctx <;> simp [h, sha256Ctx, sha2Ctx256]
theorem Sha256.output_bits_src_eq_model (self : Legacy _) :
    Legacy.Sha256.output_bits_src self = Impl.Digest.Legacy.output_bits sha256Ctx self := by
  unfold Legacy.Sha256.output_bits_src Legacy.output_bits; decide
theorem Sha256.block_size_src_eq_model (self : Legacy _) :
    Legacy.Sha256.block_size_src self = Impl.Digest.Legacy.block_size sha256Ctx self := by
  unfold Legacy.Sha256.block_size_src Legacy.block_size; decide

/-! #### `Sha224` -/
theorem Sha224.new_src_eq_model : Legacy.Sha224.new_src = Impl.Digest.Legacy.new sha224Ctx := rfl
theorem Sha224.reset_src_eq_model (self : Legacy _) : Legacy.Sha224.reset_src self = Impl.Digest.Legacy.reset sha224Ctx self := rfl
theorem Sha224.input_src_eq_model (self : Legacy _) (msg : Bytes) :
    Legacy.Sha224.input_src self msg = Impl.Digest.Legacy.input sha224Ctx self msg := by
  unfold Legacy.Sha224.input_src Legacy.input
  cases self.computed <;> cases h : Impl.Sha2.Ctx256.update_mut self.ctx msg <;> simp [h, sha224Ctx, sha2Ctx256]
theorem Sha224.result_src_eq_model (self : Legacy _) (slice : Bytes) :
    Legacy.Sha224.result_src self slice = Impl.Digest.Legacy.result sha224Ctx self slice.length := by
  rw [← legacy_result]
  unfold Legacy.Sha224.result_src
  cases self.computed <;> cases h : Impl.Sha2.Ctx256.finalize_reset Impl.Sha2.Sha224 self.ctx <;> simp [h, sha224Ctx, sha2Ctx256]
theorem Sha224.output_bits_src_eq_model (self : Legacy _) :
    Legacy.Sha224.output_bits_src self = Impl.Digest.Legacy.output_bits sha224Ctx self := by
  unfold Legacy.Sha224.output_bits_src Legacy.output_bits; decide
theorem Sha224.block_size_src_eq_model (self : Legacy _) :
    Legacy.Sha224.block_size_src self = Impl.Digest.Legacy.block_size sha224Ctx self := by
  unfold Legacy.Sha224.block_size_src Legacy.block_size; decide

/-! #### `Sha3_512` -/
theorem Sha3_512.new_src_eq_model : Legacy.Sha3_512.new_src = Impl.Digest.Legacy.new sha3_512Ctx := rfl
theorem Sha3_512.reset_src_eq_model (self : Legacy _) : Legacy.Sha3_512.reset_src self = Impl.Digest.Legacy.reset sha3_512Ctx self := rfl
theorem Sha3_512.input_src_eq_model (self : Legacy _) (msg : Bytes) :
    Legacy.Sha3_512.input_src self msg = Impl.Digest.Legacy.input sha3_512Ctx self msg := by
  unfold Legacy.Sha3_512.input_src Legacy.input
  cases self.computed <;> cases h : Impl.Sha3.Context.update_mut 64 self.ctx msg <;> simp [h, sha3_512Ctx, sha3Ctx]
theorem Sha3_512.result_src_eq_model (self : Legacy _) (slice : Bytes) :
    Legacy.Sha3_512.result_src self slice = Impl.Digest.Legacy.result sha3_512Ctx self slice.length := by
  rw [← legacy_result]
  unfold Legacy.Sha3_512.result_src
  cases self.computed <;> cases h : Impl.Sha3.Context.finalize_reset 64 2 self.ctx <;> simp [h, sha3_512Ctx, sha3Ctx]
theorem Sha3_512.output_bits_src_eq_model (self : Legacy _) :
    Legacy.Sha3_512.output_bits_src self = Impl.Digest.Legacy.output_bits sha3_512Ctx self := by
  unfold Legacy.Sha3_512.output_bits_src Legacy.output_bits; decide
theorem Sha3_512.block_size_src_eq_model (self : Legacy _) :
    Legacy.Sha3_512.block_size_src self = Impl.Digest.Legacy.block_size sha3_512Ctx self := by
  unfold Legacy.Sha3_512.block_size_src Legacy.block_size; decide

/-! #### `Sha3_384` -/
theorem Sha3_384.new_src_eq_model : Legacy.Sha3_384.new_src = Impl.Digest.Legacy.new sha3_384Ctx := rfl
theorem Sha3_384.reset_src_eq_model (self : Legacy _) : Legacy.Sha3_384.reset_src self = Impl.Digest.Legacy.reset sha3_384Ctx self := rfl
theorem Sha3_384.input_src_eq_model (self : Legacy _) (msg : Bytes) :
    Legacy.Sha3_384.input_src self msg = Impl.Digest.Legacy.input sha3_384Ctx self msg := by
  unfold Legacy.Sha3_384.input_src Legacy.input
  cases self.computed <;> cases h : Impl.Sha3.Context.update_mut 48 self.ctx msg <;> simp [h, sha3_384Ctx, sha3Ctx]
theorem Sha3_384.result_src_eq_model (self : Legacy _) (slice : Bytes) :
    Legacy.Sha3_384.result_src self slice = Impl.Digest.Legacy.result sha3_384Ctx self slice.length := by
  rw [← legacy_result]
  unfold Legacy.Sha3_384.result_src
  cases self.computed <;> cases h : Impl.Sha3.Context.finalize_reset 48 2 self.ctx <;> simp [h, sha3_384Ctx, sha3Ctx]
theorem Sha3_384.output_bits_src_eq_model (self : Legacy _) :
    Legacy.Sha3_384.output_bits_src self = Impl.Digest.Legacy.output_bits sha3_384Ctx self := by
  unfold Legacy.Sha3_384.output_bits_src Legacy.output_bits; decide
theorem Sha3_384.block_size_src_eq_model (self : Legacy _) :
    Legacy.Sha3_384.block_size_src self = Impl.Digest.Legacy.block_size sha3_384Ctx self := by
  unfold Legacy.Sha3_384.block_size_src Legacy.block_size; decide

/-! #### `Sha3_256` -/
theorem Sha3_256.new_src_eq_model : Legacy.Sha3_256.new_src = Impl.Digest.Legacy.new sha3_256Ctx := rfl
theorem Sha3_256.reset_src_eq_model (self : Legacy _) : Legacy.Sha3_256.reset_src self = Impl.Digest.Legacy.reset sha3_256Ctx self := rfl
theorem Sha3_256.input_src_eq_model (self : Legacy _) (msg : Bytes) :
    Legacy.Sha3_256.input_src self msg = Impl.Digest.Legacy.input sha3_256Ctx self msg := by
  unfold Legacy.Sha3_256.input_src Legacy.input
  cases self.computed <;> cases h : Impl.Sha3.Context.update_mut 32 self.ctx msg <;> simp [h, sha3_256Ctx, sha3Ctx]
theorem Sha3_256.result_src_eq_model (self : Legacy _) (slice : Bytes) :
    Legacy.Sha3_256.result_src self slice = Impl.Digest.Legacy.result sha3_256Ctx self slice.length := by
  rw [← legacy_result]
  unfold Legacy.Sha3_256.result_src
  cases self.computed <;> cases h : Impl.Sha3.Context.finalize_reset 32 2 self.ctx <;> simp [h, sha3_256Ctx, sha3Ctx]
theorem Sha3_256.output_bits_src_eq_model (self : Legacy _) :
    Legacy.Sha3_256.output_bits_src self = Impl.Digest.Legacy.output_bits sha3_256Ctx self := by
  unfold Legacy.Sha3_256.output_bits_src Legacy.output_bits; decide
theorem Sha3_256.block_size_src_eq_model (self : Legacy _) :
    Legacy.Sha3_256.block_size_src self = Impl.Digest.Legacy.block_size sha3_256Ctx self := by
  unfold Legacy.Sha3_256.block_size_src Legacy.block_size; decide

/-! #### `Sha3_224` -/
theorem Sha3_224.new_src_eq_model : Legacy.Sha3_224.new_src = Impl.Digest.Legacy.new sha3_224Ctx := rfl
theorem Sha3_224.reset_src_eq_model (self : Legacy _) : Legacy.Sha3_224.reset_src self = Impl.Digest.Legacy.reset sha3_224Ctx self := rfl
theorem Sha3_224.input_src_eq_model (self : Legacy _) (msg : Bytes) :
    Legacy.Sha3_224.input_src self msg = Impl.Digest.Legacy.input sha3_224Ctx self msg := by
  unfold Legacy.Sha3_224.input_src Legacy.input
  cases self.computed <;> cases h : Impl.Sha3.Context.update_mut 28 self.ctx msg <;> simp [h, sha3_224Ctx, sha3Ctx]
theorem Sha3_224.result_src_eq_model (self : Legacy _) (slice : Bytes) :
    Legacy.Sha3_224.result_src self slice = Impl.Digest.Legacy.result sha3_224Ctx self slice.length := by
  rw [← legacy_result]
  unfold Legacy.Sha3_224.result_src
  cases self.computed <;> cases h : Impl.Sha3.Context.finalize_reset 28 2 self.ctx <;> simp [h, sha3_224Ctx, sha3Ctx]
theorem Sha3_224.output_bits_src_eq_model (self : Legacy _) :
    Legacy.Sha3_224.output_bits_src self = Impl.Digest.Legacy.output_bits sha3_224Ctx self := by
  unfold Legacy.Sha3_224.output_bits_src Legacy.output_bits; decide
theorem Sha3_224.block_size_src_eq_model (self : Legacy _) :
    Legacy.Sha3_224.block_size_src self = Impl.Digest.Legacy.block_size sha3_224Ctx self := by
  unfold Legacy.Sha3_224.block_size_src Legacy.block_size; decide

/-! #### `Keccak512` -/
theorem Keccak512.new_src_eq_model : Legacy.Keccak512.new_src = Impl.Digest.Legacy.new keccak512Ctx := rfl
theorem Keccak512.reset_src_eq_model (self : Legacy _) : Legacy.Keccak512.reset_src self = Impl.Digest.Legacy.reset keccak512Ctx self := rfl
theorem Keccak512.input_src_eq_model (self : Legacy _) (msg : Bytes) :
    Legacy.Keccak512.input_src self msg = Impl.Digest.Legacy.input keccak512Ctx self msg := by
  unfold Legacy.Keccak512.input_src Legacy.input
  cases self.computed <;> cases h : Impl.Sha3.Context.update_mut 64 self.ctx msg <;> simp [h, keccak512Ctx, sha3Ctx]
theorem Keccak512.result_src_eq_model (self : Legacy _) (slice : Bytes) :
    Legacy.Keccak512.result_src self slice = Impl.Digest.Legacy.result keccak512Ctx self slice.length := by
  rw [← legacy_result]
  unfold Legacy.Keccak512.result_src
  cases self.computed <;> cases h : Impl.Sha3.Context.finalize_reset 64 0 self.ctx <;> simp [h, keccak512Ctx, sha3Ctx]
theorem Keccak512.output_bits_src_eq_model (self : Legacy _) :
    Legacy.Keccak512.output_bits_src self = Impl.Digest.Legacy.output_bits keccak512Ctx self := by
  unfold Legacy.Keccak512.output_bits_src Legacy.output_bits; decide
theorem Keccak512.block_size_src_eq_model (self : Legacy _) :
    Legacy.Keccak512.block_size_src self = Impl.Digest.Legacy.block_size keccak512Ctx self := by
  unfold Legacy.Keccak512.block_size_src Legacy.block_size; decide

/-! #### `Keccak384` -/
theorem Keccak384.new_src_eq_model : Legacy.Keccak384.new_src = Impl.Digest.Legacy.new keccak384Ctx := rfl
theorem Keccak384.reset_src_eq_model (self : Legacy _) : Legacy.Keccak384.reset_src self = Impl.Digest.Legacy.reset keccak384Ctx self := rfl
theorem Keccak384.input_src_eq_model (self : Legacy _) (msg : Bytes) :
    Legacy.Keccak384.input_src self msg = Impl.Digest.Legacy.input keccak384Ctx self msg := by
  unfold Legacy.Keccak384.input_src Legacy.input
  cases self.computed <;> cases h : Impl.Sha3.Context.update_mut 48 self.ctx msg <;> simp [h, keccak384Ctx, sha3Ctx]
theorem Keccak384.result_src_eq_model (self : Legacy _) (slice : Bytes) :
    Legacy.Keccak384.result_src self slice = Impl.Digest.Legacy.result keccak384Ctx self slice.length := by
  rw [← legacy_result]
  unfold Legacy.Keccak384.result_src
  cases self.computed <;> cases h : Impl.Sha3.Context.finalize_reset 48 0 self.ctx <;> simp [h, keccak384Ctx, sha3Ctx]
theorem Keccak384.output_bits_src_eq_model (self : Legacy _) :
    Legacy.Keccak384.output_bits_src self = Impl.Digest.Legacy.output_bits keccak384Ctx self := by
  unfold Legacy.Keccak384.output_bits_src Legacy.output_bits; decide
theorem Keccak384.block_size_src_eq_model (self : Legacy _) :
    Legacy.Keccak384.block_size_src self = Impl.Digest.Legacy.block_size keccak384Ctx self := by
  unfold Legacy.Keccak384.block_size_src Legacy.block_size; decide

/-! #### `Keccak256` -/
theorem Keccak256.new_src_eq_model : Legacy.Keccak256.new_src = Impl.Digest.Legacy.new keccak256Ctx := rfl
theorem Keccak256.reset_src_eq_model (self : Legacy _) : Legacy.Keccak256.reset_src self = Impl.Digest.Legacy.reset keccak256Ctx self := rfl
theorem Keccak256.input_src_eq_model (self : Legacy _) (msg : Bytes) :
    Legacy.Keccak256.input_src self msg = Impl.Digest.Legacy.input keccak256Ctx self msg := by
  unfold Legacy.Keccak256.input_src Legacy.input
  cases self.computed <;> cases h : Impl.Sha3.Context.update_mut 32 self.ctx msg <;> simp [h, keccak256Ctx, sha3Ctx]
theorem Keccak256.result_src_eq_model (self : Legacy _) (slice : Bytes) :
    Legacy.Keccak256.result_src self slice = Impl.Digest.Legacy.result keccak256Ctx self slice.length := by
  rw [← legacy_result]
  unfold Legacy.Keccak256.result_src
  cases self.computed <;> cases h : Impl.Sha3.Context.finalize_reset 32 0 self.ctx <;> simp [h, keccak256Ctx, sha3Ctx]
theorem Keccak256.output_bits_src_eq_model (self : Legacy _) :
    Legacy.Keccak256.output_bits_src self = Impl.Digest.Legacy.output_bits keccak256Ctx self := by
  unfold Legacy.Keccak256.output_bits_src Legacy.output_bits; decide
theorem Keccak256.block_size_src_eq_model (self : Legacy _) :
    Legacy.Keccak256.block_size_src self = Impl.Digest.Legacy.block_size keccak256Ctx self := by
  unfold Legacy.Keccak256.block_size_src Legacy.block_size; decide

/-! #### `Keccak224` -/
theorem Keccak224.new_src_eq_model : Legacy.Keccak224.new_src = Impl.Digest.Legacy.new keccak224Ctx := rfl
theorem Keccak224.reset_src_eq_model (self : Legacy _) : Legacy.Keccak224.reset_src self = Impl.Digest.Legacy.reset keccak224Ctx self := rfl
theorem Keccak224.input_src_eq_model (self : Legacy _) (msg : Bytes) :
    Legacy.Keccak224.input_src self msg = Impl.Digest.Legacy.input keccak224Ctx self msg := by
  unfold Legacy.Keccak224.input_src Legacy.input
  cases self.computed <;> cases h : Impl.Sha3.Context.update_mut 28 self.ctx msg <;> simp [h, keccak224Ctx, sha3Ctx]
theorem Keccak224.result_src_eq_model (self : Legacy _) (slice : Bytes) :
    Legacy.Keccak224.result_src self slice = Impl.Digest.Legacy.result keccak224Ctx self slice.length := by
  rw [← legacy_result]
  unfold Legacy.Keccak224.result_src
  cases self.computed <;> cases h : Impl.Sha3.Context.finalize_reset 28 0 self.ctx <;> simp [h, keccak224Ctx, sha3Ctx]
theorem Keccak224.output_bits_src_eq_model (self : Legacy _) :
    Legacy.Keccak224.output_bits_src self = Impl.Digest.Legacy.output_bits keccak224Ctx self := by
  unfold Legacy.Keccak224.output_bits_src Legacy.output_bits; decide
theorem Keccak224.block_size_src_eq_model (self : Legacy _) :
    Legacy.Keccak224.block_size_src self = Impl.Digest.Legacy.block_size keccak224Ctx self := by
  unfold Legacy.Keccak224.block_size_src Legacy.block_size; decide

/-! #### `Ripemd160` -/
theorem Ripemd160.new_src_eq_model : Legacy.Ripemd160.new_src = Impl.Digest.Legacy.new ripemd160Ctx := rfl
theorem Ripemd160.reset_src_eq_model (self : Legacy _) : Legacy.Ripemd160.reset_src self = Impl.Digest.Legacy.reset ripemd160Ctx self := rfl
theorem Ripemd160.input_src_eq_model (self : Legacy _) (msg : Bytes) :
    Legacy.Ripemd160.input_src self msg = Impl.Digest.Legacy.input ripemd160Ctx self msg := by
  unfold Legacy.Ripemd160.input_src Legacy.input
  cases self.computed <;> cases h : Impl.Ripemd160.Context.update_mut self.ctx msg <;> simp [h, ripemd160Ctx]
theorem Ripemd160.result_src_eq_model (self : Legacy _) (slice : Bytes) :
    Legacy.Ripemd160.result_src self slice = Impl.Digest.Legacy.result ripemd160Ctx self slice.length := by
  rw [← legacy_result]
  unfold Legacy.Ripemd160.result_src
  cases self.computed <;> cases h : Impl.Ripemd160.Context.finalize_reset self.ctx <;> simp [h, ripemd160Ctx]
theorem Ripemd160.output_bits_src_eq_model (self : Legacy _) :
    Legacy.Ripemd160.output_bits_src self = Impl.Digest.Legacy.output_bits ripemd160Ctx self := by
  unfold Legacy.Ripemd160.output_bits_src Legacy.output_bits; decide
theorem Ripemd160.block_size_src_eq_model (self : Legacy _) :
    Legacy.Ripemd160.block_size_src self = Impl.Digest.Legacy.block_size ripemd160Ctx self := by
  unfold Legacy.Ripemd160.block_size_src Legacy.block_size; decide
/-! ## src/blake2b.rs, src/blake2s.rs — the legacy BLAKE2 objects -/

/-! ### `Blake2b` (src/blake2b.rs) -/

/-- `Blake2b::new(outlen)`: the context, `computed = false`, an all-zero key array, `keylen = 0` -/
theorem Blake2b.new_src_eq_model (outlen : Nat) :
    (Blake2b.new_src outlen).map B2b.abs = Impl.Digest.Blake2.new Impl.Blake2.b outlen := B2b.new_src_eq outlen
theorem Blake2b.new_src_inv (outlen : Nat) (s : Blake2b.Obj) (h : Blake2b.new_src outlen = some s) : B2b.Inv s :=
  B2b.new_src_inv outlen s h

/-- `Blake2b::new_keyed(outlen, key)`: `assert!(key.len() <= 64)`, the keyed context, the key stored at the front of a zeroed
    array (a copy that cannot fail once the context accepted the key), `keylen` -/
theorem Blake2b.new_keyed_src_eq_model (outlen : Nat) (key : Bytes) :
    (Blake2b.new_keyed_src outlen key).map B2b.abs = Impl.Digest.Blake2.new_keyed Impl.Blake2.b bKeyAssert outlen key :=
  B2b.new_keyed_src_eq outlen key
theorem Blake2b.new_keyed_src_inv (outlen : Nat) (key : Bytes) (s : Blake2b.Obj)
    (h : Blake2b.new_keyed_src outlen key = some s) : B2b.Inv s := B2b.new_keyed_src_inv outlen key s h

/-- `update`: `assert!(!self.computed)`, `ctx.update_mut` -/
theorem Blake2b.update_src_eq_model (s : Blake2b.Obj) (input : Bytes) :
    (Blake2b.update_src s input).map B2b.abs = Impl.Digest.Blake2.update Impl.Blake2.b (B2b.abs s) input :=
  B2b.update_src_eq s input
theorem Blake2b.update_src_inv (s s' : Blake2b.Obj) (input : Bytes) (hi : B2b.Inv s)
    (h : Blake2b.update_src s input = some s') : B2b.Inv s' := B2b.update_src_inv s s' input hi h

/-- `finalize(slice)`: `assert!(!self.computed)`, `ctx.finalize_reset_at(slice)`, `computed = true` -/
theorem Blake2b.finalize_src_eq_model (s : Blake2b.Obj) (slice : Bytes) :
    (Blake2b.finalize_src s slice).map (fun p => (B2b.abs p.1, p.2))
      = Impl.Digest.Blake2.finalize Impl.Blake2.b (B2b.abs s) slice.length := B2b.finalize_src_eq s slice
theorem Blake2b.finalize_src_inv (s s' : Blake2b.Obj) (slice out : Bytes) (hi : B2b.Inv s)
    (h : Blake2b.finalize_src s slice = some (s', out)) : B2b.Inv s' := B2b.finalize_src_inv s s' slice out hi h

/-- `reset()`: a keyed object (`keylen > 0`) is re-keyed with the RETAINED key `key[..keylen]`, an unkeyed one is reset;
    `computed = false` in both branches — the model of the tree as it is (`codeVariant = .repaired`) -/
theorem Blake2b.reset_src_eq_model (s : Blake2b.Obj) (hi : B2b.Inv s) :
    (Blake2b.reset_src s).map B2b.abs = Impl.Digest.Blake2.reset codeVariant Impl.Blake2.b (B2b.abs s) :=
  B2b.reset_src_eq s hi
theorem Blake2b.reset_src_inv (s s' : Blake2b.Obj) (hi : B2b.Inv s) (h : Blake2b.reset_src s = some s') : B2b.Inv s' :=
  B2b.reset_src_inv s s' hi h

/-- `reset_with_key(key)`: `ctx.reset_with_key` (which refuses over-long keys, so the copy below cannot fail), the key array
    zeroed and re-filled, `keylen`, `computed = false` -/
theorem Blake2b.reset_with_key_src_eq_model (s : Blake2b.Obj) (key : Bytes) :
    (Blake2b.reset_with_key_src s key).map B2b.abs = Impl.Digest.Blake2.reset_with_key Impl.Blake2.b (B2b.abs s) key :=
  B2b.reset_with_key_src_eq s key
theorem Blake2b.reset_with_key_src_inv (s s' : Blake2b.Obj) (key : Bytes)
    (h : Blake2b.reset_with_key_src s key = some s') : B2b.Inv s' := B2b.reset_with_key_src_inv s s' key h

/-- the static one-shot `Blake2b::blake2b(out, input, key)`: keyed iff `!key.is_empty()`; the new contents of `out` -/
theorem Blake2b.blake2b_src_eq_model (out input key : Bytes) :
    Blake2b.blake2b_src out input key = Impl.Digest.Blake2.oneShot Impl.Blake2.b bKeyAssert out.length input key :=
  B2b.blake2b_src_eq out input key

/-- `impl Digest for Blake2b` = the dictionary `blake2bDigest codeVariant` on the abstraction -/
theorem Blake2b.Digest.input_src_eq_model (s : Blake2b.Obj) (msg : Bytes) :
    (Blake2b.Digest.input_src s msg).map B2b.abs = (blake2bDigest codeVariant).input (B2b.abs s) msg :=
  B2b.digest_input_src_eq s msg
theorem Blake2b.Digest.reset_src_eq_model (s : Blake2b.Obj) (hi : B2b.Inv s) :
    (Blake2b.Digest.reset_src s).map B2b.abs = (blake2bDigest codeVariant).reset (B2b.abs s) := B2b.digest_reset_src_eq s hi
theorem Blake2b.Digest.result_src_eq_model (s : Blake2b.Obj) (out : Bytes) :
    (Blake2b.Digest.result_src s out).map (fun p => (B2b.abs p.1, p.2))
      = (blake2bDigest codeVariant).result (B2b.abs s) out.length := B2b.digest_result_src_eq s out
theorem Blake2b.Digest.output_bits_src_eq_model (s : Blake2b.Obj) :
    Blake2b.Digest.output_bits_src s = (blake2bDigest codeVariant).output_bits (B2b.abs s) := rfl
theorem Blake2b.Digest.block_size_src_eq_model (s : Blake2b.Obj) :
    Blake2b.Digest.block_size_src s = (blake2bDigest codeVariant).block_size (B2b.abs s) := rfl

/-- `impl Mac for Blake2b` = the dictionary `blake2bMac codeVariant` on the abstraction; `result()` returns a `MacResult`
    whose `code` is the model's byte string -/
theorem Blake2b.Mac.input_src_eq_model (s : Blake2b.Obj) (data : Bytes) :
    (Blake2b.Mac.input_src s data).map B2b.abs = (blake2bMac codeVariant).input (B2b.abs s) data := B2b.mac_input_src_eq s data
theorem Blake2b.Mac.reset_src_eq_model (s : Blake2b.Obj) (hi : B2b.Inv s) :
    (Blake2b.Mac.reset_src s).map B2b.abs = (blake2bMac codeVariant).reset (B2b.abs s) := B2b.mac_reset_src_eq s hi
theorem Blake2b.Mac.raw_result_src_eq_model (s : Blake2b.Obj) (output : Bytes) :
    (Blake2b.Mac.raw_result_src s output).map (fun p => (B2b.abs p.1, p.2))
      = (blake2bMac codeVariant).raw_result (B2b.abs s) output.length := B2b.mac_raw_result_src_eq s output
theorem Blake2b.Mac.result_src_eq_model (s : Blake2b.Obj) :
    (Blake2b.Mac.result_src s).map (fun p => (B2b.abs p.1, p.2.code)) = (blake2bMac codeVariant).result (B2b.abs s) :=
  B2b.mac_result_src_eq s
theorem Blake2b.Mac.output_bytes_src_eq_model (s : Blake2b.Obj) :
    Blake2b.Mac.output_bytes_src s = (blake2bMac codeVariant).output_bytes (B2b.abs s) := rfl

/-- the invariant is inhabited by a keyed object that went through an input (hypothesis check, a test) -/
example : ∀ s s', Blake2b.new_keyed_src 32 [1, 2, 3] = some s → Blake2b.update_src s [7] = some s' → B2b.Inv s' :=
  fun s s' h1 h2 => B2b.update_src_inv s s' [7] (B2b.new_keyed_src_inv 32 [1, 2, 3] s h1) h2
example : ((Blake2b.new_keyed_src 32 [1, 2, 3]).bind (fun s => Blake2b.update_src s [7])).isSome = true := by decide +kernel

/-! ### `Blake2s` (src/blake2s.rs) -/

/-- `Blake2s::new(outlen)`: the context, `computed = false`, an all-zero key array (`[u8; 32]`), `keylen = 0` -/
theorem Blake2s.new_src_eq_model (outlen : Nat) :
    (Blake2s.new_src outlen).map B2s.abs = Impl.Digest.Blake2.new Impl.Blake2.s outlen := B2s.new_src_eq outlen
theorem Blake2s.new_src_inv (outlen : Nat) (s : Blake2s.Obj) (h : Blake2s.new_src outlen = some s) : B2s.Inv s :=
  B2s.new_src_inv outlen s h

/-- `Blake2s::new_keyed(outlen, key)`: `assert!(key.len() <= 64)`, the keyed context, the key stored at the front of a zeroed
    array (a copy that cannot fail once the context accepted the key), `keylen` -/
theorem Blake2s.new_keyed_src_eq_model (outlen : Nat) (key : Bytes) :
    (Blake2s.new_keyed_src outlen key).map B2s.abs = Impl.Digest.Blake2.new_keyed Impl.Blake2.s sKeyAssert outlen key :=
  B2s.new_keyed_src_eq outlen key
theorem Blake2s.new_keyed_src_inv (outlen : Nat) (key : Bytes) (s : Blake2s.Obj)
    (h : Blake2s.new_keyed_src outlen key = some s) : B2s.Inv s := B2s.new_keyed_src_inv outlen key s h

/-- `update`: `assert!(!self.computed)`, `ctx.update_mut` -/
theorem Blake2s.update_src_eq_model (s : Blake2s.Obj) (input : Bytes) :
    (Blake2s.update_src s input).map B2s.abs = Impl.Digest.Blake2.update Impl.Blake2.s (B2s.abs s) input :=
  B2s.update_src_eq s input
theorem Blake2s.update_src_inv (s s' : Blake2s.Obj) (input : Bytes) (hi : B2s.Inv s)
    (h : Blake2s.update_src s input = some s') : B2s.Inv s' := B2s.update_src_inv s s' input hi h

/-- `finalize(slice)`: `assert!(!self.computed)`, `ctx.finalize_reset_at(slice)`, `computed = true` -/
theorem Blake2s.finalize_src_eq_model (s : Blake2s.Obj) (slice : Bytes) :
    (Blake2s.finalize_src s slice).map (fun p => (B2s.abs p.1, p.2))
      = Impl.Digest.Blake2.finalize Impl.Blake2.s (B2s.abs s) slice.length := B2s.finalize_src_eq s slice
theorem Blake2s.finalize_src_inv (s s' : Blake2s.Obj) (slice out : Bytes) (hi : B2s.Inv s)
    (h : Blake2s.finalize_src s slice = some (s', out)) : B2s.Inv s' := B2s.finalize_src_inv s s' slice out hi h

/-- `reset()`: a keyed object (`keylen > 0`) is re-keyed with the RETAINED key `key[..keylen]`, an unkeyed one is reset;
    `computed = false` in both branches — the model of the tree as it is (`codeVariant = .repaired`) -/
theorem Blake2s.reset_src_eq_model (s : Blake2s.Obj) (hi : B2s.Inv s) :
    (Blake2s.reset_src s).map B2s.abs = Impl.Digest.Blake2.reset codeVariant Impl.Blake2.s (B2s.abs s) :=
  B2s.reset_src_eq s hi
theorem Blake2s.reset_src_inv (s s' : Blake2s.Obj) (hi : B2s.Inv s) (h : Blake2s.reset_src s = some s') : B2s.Inv s' :=
  B2s.reset_src_inv s s' hi h

/-- `reset_with_key(key)`: `ctx.reset_with_key` (which refuses over-long keys, so the copy below cannot fail), the key array
    zeroed and re-filled, `keylen`, `computed = false` -/
theorem Blake2s.reset_with_key_src_eq_model (s : Blake2s.Obj) (key : Bytes) :
    (Blake2s.reset_with_key_src s key).map B2s.abs = Impl.Digest.Blake2.reset_with_key Impl.Blake2.s (B2s.abs s) key :=
  B2s.reset_with_key_src_eq s key
theorem Blake2s.reset_with_key_src_inv (s s' : Blake2s.Obj) (key : Bytes)
    (h : Blake2s.reset_with_key_src s key = some s') : B2s.Inv s' := B2s.reset_with_key_src_inv s s' key h

/-- the static one-shot `Blake2s::blake2s(out, input, key)`: keyed iff `!key.is_empty()`; the new contents of `out` -/
theorem Blake2s.blake2s_src_eq_model (out input key : Bytes) :
    Blake2s.blake2s_src out input key = Impl.Digest.Blake2.oneShot Impl.Blake2.s sKeyAssert out.length input key :=
  B2s.blake2s_src_eq out input key

/-- `impl Digest for Blake2s` = the dictionary `blake2sDigest codeVariant` on the abstraction -/
theorem Blake2s.Digest.input_src_eq_model (s : Blake2s.Obj) (msg : Bytes) :
    (Blake2s.Digest.input_src s msg).map B2s.abs = (blake2sDigest codeVariant).input (B2s.abs s) msg :=
  B2s.digest_input_src_eq s msg
theorem Blake2s.Digest.reset_src_eq_model (s : Blake2s.Obj) (hi : B2s.Inv s) :
    (Blake2s.Digest.reset_src s).map B2s.abs = (blake2sDigest codeVariant).reset (B2s.abs s) := B2s.digest_reset_src_eq s hi
theorem Blake2s.Digest.result_src_eq_model (s : Blake2s.Obj) (out : Bytes) :
    (Blake2s.Digest.result_src s out).map (fun p => (B2s.abs p.1, p.2))
      = (blake2sDigest codeVariant).result (B2s.abs s) out.length := B2s.digest_result_src_eq s out
theorem Blake2s.Digest.output_bits_src_eq_model (s : Blake2s.Obj) :
    Blake2s.Digest.output_bits_src s = (blake2sDigest codeVariant).output_bits (B2s.abs s) := rfl
theorem Blake2s.Digest.block_size_src_eq_model (s : Blake2s.Obj) :
    Blake2s.Digest.block_size_src s = (blake2sDigest codeVariant).block_size (B2s.abs s) := rfl

/-- `impl Mac for Blake2s` = the dictionary `blake2sMac codeVariant` on the abstraction; `result()` returns a `MacResult`
    whose `code` is the model's byte string -/
theorem Blake2s.Mac.input_src_eq_model (s : Blake2s.Obj) (data : Bytes) :
    (Blake2s.Mac.input_src s data).map B2s.abs = (blake2sMac codeVariant).input (B2s.abs s) data := B2s.mac_input_src_eq s data
theorem Blake2s.Mac.reset_src_eq_model (s : Blake2s.Obj) (hi : B2s.Inv s) :
    (Blake2s.Mac.reset_src s).map B2s.abs = (blake2sMac codeVariant).reset (B2s.abs s) := B2s.mac_reset_src_eq s hi
theorem Blake2s.Mac.raw_result_src_eq_model (s : Blake2s.Obj) (output : Bytes) :
    (Blake2s.Mac.raw_result_src s output).map (fun p => (B2s.abs p.1, p.2))
      = (blake2sMac codeVariant).raw_result (B2s.abs s) output.length := B2s.mac_raw_result_src_eq s output
theorem Blake2s.Mac.result_src_eq_model (s : Blake2s.Obj) :
    (Blake2s.Mac.result_src s).map (fun p => (B2s.abs p.1, p.2.code)) = (blake2sMac codeVariant).result (B2s.abs s) :=
  B2s.mac_result_src_eq s
theorem Blake2s.Mac.output_bytes_src_eq_model (s : Blake2s.Obj) :
    Blake2s.Mac.output_bytes_src s = (blake2sMac codeVariant).output_bytes (B2s.abs s) := rfl

/-- the invariant is inhabited by a keyed object that went through an input (hypothesis check, a test) -/
example : ∀ s s', Blake2s.new_keyed_src 16 [1, 2, 3] = some s → Blake2s.update_src s [7] = some s' → B2s.Inv s' :=
  fun s s' h1 h2 => B2s.update_src_inv s s' [7] (B2s.new_keyed_src_inv 16 [1, 2, 3] s h1) h2
example : ((Blake2s.new_keyed_src 16 [1, 2, 3]).bind (fun s => Blake2s.update_src s [7])).isSome = true := by decide +kernel

/-! ## src/hashing/sha1.rs — `digest_block(s)`, `mk_result`, `Context` -/

/-- `digest_block`: `assert_eq!(block.len(), 64)`, sixteen big-endian words, the compression core (KernelTieSha1) -/
theorem HSha1.digest_block_src_eq_model (state : Spec.Sha1.Hash) (block : Bytes) :
    HSha1.digest_block_src state block = Impl.Sha1.digest_block state block := HS1.digest_block_src_eq state block
/-- `digest_blocks`: the `for b in block.chunks(64)` loop, for every number of chunks -/
theorem HSha1.digest_blocks_loop_src_eq_model (l : List Bytes) (state : Spec.Sha1.Hash) :
    HSha1.digest_blocks_loop1_src l state = Impl.Sha1.digest_blocks_go state l := HS1.digest_blocks_loop_eq l state
theorem HSha1.digest_blocks_src_eq_model (state : Spec.Sha1.Hash) (block : Bytes) :
    HSha1.digest_blocks_src state block = Impl.Sha1.digest_blocks state block := HS1.digest_blocks_src_eq state block
/-- `mk_result(st, rs)`: `standard_padding(8, …)` with the closure on `st.h`, the length field
    `(processed_bytes << 3).to_be_bytes()` through `next::<8>()`, the last block, the five big-endian words stored at
    0, 4, 8, 12, 16 — they overwrite all of `rs: &mut [u8; 20]` (`hr` is that typing fact) -/
theorem HSha1.mk_result_src_eq_model (st : Impl.Sha1.Context) (rs : Bytes) (hr : rs.length = 20) :
    HSha1.mk_result_src st rs = Impl.Sha1.Context.mk_result st := HS1.mk_result_src_eq st rs hr
example : (zeros 20).length = 20 := by decide
theorem HSha1.Context.new_src_eq_model : HSha1.Context.new_src = Impl.Sha1.Context.new := rfl
/-- `update_mut`: the byte counter (`+=`, wrapping as in the model), then `buffer.input` with the closure on `self.h` -/
theorem HSha1.Context.update_mut_src_eq_model (self : Impl.Sha1.Context) (input : Bytes) :
    HSha1.Context.update_mut_src self input = Impl.Sha1.Context.update_mut self input := HS1.update_mut_src_eq self input
theorem HSha1.Context.update_src_eq_model (self : Impl.Sha1.Context) (input : Bytes) :
    HSha1.Context.update_src self input = Impl.Sha1.Context.update self input := HS1.update_src_eq self input
/-- `reset`: counter, state words AND buffer index -/
theorem HSha1.Context.reset_src_eq_model (self : Impl.Sha1.Context) :
    HSha1.Context.reset_src self = Impl.Sha1.Context.reset self := rfl
theorem HSha1.Context.finalize_src_eq_model (self : Impl.Sha1.Context) :
    HSha1.Context.finalize_src self = Impl.Sha1.Context.finalize self := HS1.finalize_src_eq self
/-- `finalize_reset`: `mk_result` then `reset` (which also clears the byte counter) -/
theorem HSha1.Context.finalize_reset_src_eq_model (self : Impl.Sha1.Context) :
    HSha1.Context.finalize_reset_src self = Impl.Sha1.Context.finalize_reset self := HS1.finalize_reset_src_eq self
theorem HSha1.Sha1.new_src_eq_model : HSha1.Sha1.new_src = Impl.Sha1.Context.new := rfl

/-! ## src/hashing/ripemd160.rs — `process_msg_blocks`, `Context` -/

theorem HRipemd160.process_msg_blocks_loop_src_eq_model (l : List Bytes) (h : Spec.Ripemd160.Hash) :
    HRipemd160.process_msg_blocks_loop1_src l h = Impl.Ripemd160.process_msg_blocks_go h l := HRmd.blocks_loop_eq l h
theorem HRipemd160.process_msg_blocks_src_eq_model (data : Bytes) (h : Spec.Ripemd160.Hash) :
    HRipemd160.process_msg_blocks_src data h = Impl.Ripemd160.process_msg_blocks data h := HRmd.process_msg_blocks_src_eq data h
theorem HRipemd160.Context.new_src_eq_model : HRipemd160.Context.new_src = Impl.Ripemd160.Context.new := rfl
theorem HRipemd160.Context.update_mut_src_eq_model (self : Impl.Ripemd160.Context) (msg : Bytes) :
    HRipemd160.Context.update_mut_src self msg = Impl.Ripemd160.Context.update_mut self msg := HRmd.update_mut_src_eq self msg
theorem HRipemd160.Context.update_src_eq_model (self : Impl.Ripemd160.Context) (input : Bytes) :
    HRipemd160.Context.update_src self input = Impl.Ripemd160.Context.update self input := HRmd.update_src_eq self input
theorem HRipemd160.Context.reset_src_eq_model (self : Impl.Ripemd160.Context) :
    HRipemd160.Context.reset_src self = Impl.Ripemd160.Context.reset self := rfl
/-- `finalize_reset`: padding, the bit length as TWO little-endian u32 written through `next::<4>()`:
    low word `(processed_bytes << 3) as u32`, high word `(processed_bytes >> 29) as u32` (the carry of the `<< 3` into the high
    word), the last block, five little-endian output words, `reset` -/
theorem HRipemd160.Context.finalize_reset_src_eq_model (self : Impl.Ripemd160.Context) :
    HRipemd160.Context.finalize_reset_src self = Impl.Ripemd160.Context.finalize_reset self := HRmd.finalize_reset_src_eq self
theorem HRipemd160.Context.finalize_src_eq_model (self : Impl.Ripemd160.Context) :
    HRipemd160.Context.finalize_src self = Impl.Ripemd160.Context.finalize self := HRmd.finalize_src_eq self
theorem HRipemd160.Ripemd160.new_src_eq_model : HRipemd160.Ripemd160.new_src = Impl.Ripemd160.Context.new := rfl

/-! ## src/hashing/sha2/mod.rs — the six `digest!` invocations above `Engine256` / `Engine512` -/

/-! #### `digest!(512 Sha512, Context512, …)` -/
theorem HSha2.Context512.new_src_eq_model : HSha2.Context512.new_src = Impl.Sha2.Ctx512.new Impl.Sha2.Sha512 := rfl
theorem HSha2.Context512.update_mut_src_eq_model (self : Impl.Sha2.Ctx512) (input : Bytes) :
    HSha2.Context512.update_mut_src self input = Impl.Sha2.Ctx512.update_mut self input := HS2.Context512.update_mut_src_eq self input
theorem HSha2.Context512.update_src_eq_model (self : Impl.Sha2.Ctx512) (input : Bytes) :
    HSha2.Context512.update_src self input = Impl.Sha2.Ctx512.update self input := HS2.Context512.update_src_eq self input
theorem HSha2.Context512.reset_src_eq_model (self : Impl.Sha2.Ctx512) : HSha2.Context512.reset_src self = Impl.Sha2.Ctx512.reset Impl.Sha2.Sha512 self := rfl
theorem HSha2.Context512.finalize_src_eq_model (self : Impl.Sha2.Ctx512) :
    HSha2.Context512.finalize_src self = Impl.Sha2.Ctx512.finalize Impl.Sha2.Sha512 self := HS2.Context512.finalize_src_eq self
theorem HSha2.Context512.finalize_reset_src_eq_model (self : Impl.Sha2.Ctx512) :
    HSha2.Context512.finalize_reset_src self = Impl.Sha2.Ctx512.finalize_reset Impl.Sha2.Sha512 self := HS2.Context512.finalize_reset_src_eq self
theorem HSha2.Sha512.new_src_eq_model : HSha2.Sha512.new_src = Impl.Sha2.Ctx512.new Impl.Sha2.Sha512 := rfl

/-! #### `digest!(512 Sha384, Context384, …)` -/
theorem HSha2.Context384.new_src_eq_model : HSha2.Context384.new_src = Impl.Sha2.Ctx512.new Impl.Sha2.Sha384 := rfl
theorem HSha2.Context384.update_mut_src_eq_model (self : Impl.Sha2.Ctx512) (input : Bytes) :
    HSha2.Context384.update_mut_src self input = Impl.Sha2.Ctx512.update_mut self input := HS2.Context384.update_mut_src_eq self input
theorem HSha2.Context384.update_src_eq_model (self : Impl.Sha2.Ctx512) (input : Bytes) :
    HSha2.Context384.update_src self input = Impl.Sha2.Ctx512.update self input := HS2.Context384.update_src_eq self input
theorem HSha2.Context384.reset_src_eq_model (self : Impl.Sha2.Ctx512) : HSha2.Context384.reset_src self = Impl.Sha2.Ctx512.reset Impl.Sha2.Sha384 self := rfl
theorem HSha2.Context384.finalize_src_eq_model (self : Impl.Sha2.Ctx512) :
    HSha2.Context384.finalize_src self = Impl.Sha2.Ctx512.finalize Impl.Sha2.Sha384 self := HS2.Context384.finalize_src_eq self
theorem HSha2.Context384.finalize_reset_src_eq_model (self : Impl.Sha2.Ctx512) :
    HSha2.Context384.finalize_reset_src self = Impl.Sha2.Ctx512.finalize_reset Impl.Sha2.Sha384 self := HS2.Context384.finalize_reset_src_eq self
theorem HSha2.Sha384.new_src_eq_model : HSha2.Sha384.new_src = Impl.Sha2.Ctx512.new Impl.Sha2.Sha384 := rfl

/-! #### `digest!(512 Sha512Trunc256, Context512_256, …)` -/
theorem HSha2.Context512_256.new_src_eq_model : HSha2.Context512_256.new_src = Impl.Sha2.Ctx512.new Impl.Sha2.Sha512Trunc256 := rfl
theorem HSha2.Context512_256.update_mut_src_eq_model (self : Impl.Sha2.Ctx512) (input : Bytes) :
    HSha2.Context512_256.update_mut_src self input = Impl.Sha2.Ctx512.update_mut self input := HS2.Context512_256.update_mut_src_eq self input
theorem HSha2.Context512_256.update_src_eq_model (self : Impl.Sha2.Ctx512) (input : Bytes) :
    HSha2.Context512_256.update_src self input = Impl.Sha2.Ctx512.update self input := HS2.Context512_256.update_src_eq self input
theorem HSha2.Context512_256.reset_src_eq_model (self : Impl.Sha2.Ctx512) : HSha2.Context512_256.reset_src self = Impl.Sha2.Ctx512.reset Impl.Sha2.Sha512Trunc256 self := rfl
theorem HSha2.Context512_256.finalize_src_eq_model (self : Impl.Sha2.Ctx512) :
    HSha2.Context512_256.finalize_src self = Impl.Sha2.Ctx512.finalize Impl.Sha2.Sha512Trunc256 self := HS2.Context512_256.finalize_src_eq self
theorem HSha2.Context512_256.finalize_reset_src_eq_model (self : Impl.Sha2.Ctx512) :
    HSha2.Context512_256.finalize_reset_src self = Impl.Sha2.Ctx512.finalize_reset Impl.Sha2.Sha512Trunc256 self := HS2.Context512_256.finalize_reset_src_eq self
theorem HSha2.Sha512Trunc256.new_src_eq_model : HSha2.Sha512Trunc256.new_src = Impl.Sha2.Ctx512.new Impl.Sha2.Sha512Trunc256 := rfl

/-! #### `digest!(512 Sha512Trunc224, Context512_224, …)` -/
theorem HSha2.Context512_224.new_src_eq_model : HSha2.Context512_224.new_src = Impl.Sha2.Ctx512.new Impl.Sha2.Sha512Trunc224 := rfl
theorem HSha2.Context512_224.update_mut_src_eq_model (self : Impl.Sha2.Ctx512) (input : Bytes) :
    HSha2.Context512_224.update_mut_src self input = Impl.Sha2.Ctx512.update_mut self input := HS2.Context512_224.update_mut_src_eq self input
theorem HSha2.Context512_224.update_src_eq_model (self : Impl.Sha2.Ctx512) (input : Bytes) :
    HSha2.Context512_224.update_src self input = Impl.Sha2.Ctx512.update self input := HS2.Context512_224.update_src_eq self input
theorem HSha2.Context512_224.reset_src_eq_model (self : Impl.Sha2.Ctx512) : HSha2.Context512_224.reset_src self = Impl.Sha2.Ctx512.reset Impl.Sha2.Sha512Trunc224 self := rfl
theorem HSha2.Context512_224.finalize_src_eq_model (self : Impl.Sha2.Ctx512) :
    HSha2.Context512_224.finalize_src self = Impl.Sha2.Ctx512.finalize Impl.Sha2.Sha512Trunc224 self := HS2.Context512_224.finalize_src_eq self
theorem HSha2.Context512_224.finalize_reset_src_eq_model (self : Impl.Sha2.Ctx512) :
    HSha2.Context512_224.finalize_reset_src self = Impl.Sha2.Ctx512.finalize_reset Impl.Sha2.Sha512Trunc224 self := HS2.Context512_224.finalize_reset_src_eq self
theorem HSha2.Sha512Trunc224.new_src_eq_model : HSha2.Sha512Trunc224.new_src = Impl.Sha2.Ctx512.new Impl.Sha2.Sha512Trunc224 := rfl

/-! #### `digest!(256 Sha256, Context256, …)` -/
theorem HSha2.Context256.new_src_eq_model : HSha2.Context256.new_src = Impl.Sha2.Ctx256.new Impl.Sha2.Sha256 := rfl
theorem HSha2.Context256.update_mut_src_eq_model (self : Impl.Sha2.Ctx256) (input : Bytes) :
    HSha2.Context256.update_mut_src self input = Impl.Sha2.Ctx256.update_mut self input := HS2.Context256.update_mut_src_eq self input
theorem HSha2.Context256.update_src_eq_model (self : Impl.Sha2.Ctx256) (input : Bytes) :
    HSha2.Context256.update_src self input = Impl.Sha2.Ctx256.update self input := HS2.Context256.update_src_eq self input
theorem HSha2.Context256.reset_src_eq_model (self : Impl.Sha2.Ctx256) : HSha2.Context256.reset_src self = Impl.Sha2.Ctx256.reset Impl.Sha2.Sha256 self := rfl
theorem HSha2.Context256.finalize_src_eq_model (self : Impl.Sha2.Ctx256) :
    HSha2.Context256.finalize_src self = Impl.Sha2.Ctx256.finalize Impl.Sha2.Sha256 self := HS2.Context256.finalize_src_eq self
theorem HSha2.Context256.finalize_reset_src_eq_model (self : Impl.Sha2.Ctx256) :
    HSha2.Context256.finalize_reset_src self = Impl.Sha2.Ctx256.finalize_reset Impl.Sha2.Sha256 self := HS2.Context256.finalize_reset_src_eq self
theorem HSha2.Sha256.new_src_eq_model : HSha2.Sha256.new_src = Impl.Sha2.Ctx256.new Impl.Sha2.Sha256 := rfl

/-! #### `digest!(256 Sha224, Context224, …)` -/
theorem HSha2.Context224.new_src_eq_model : HSha2.Context224.new_src = Impl.Sha2.Ctx256.new Impl.Sha2.Sha224 := rfl
theorem HSha2.Context224.update_mut_src_eq_model (self : Impl.Sha2.Ctx256) (input : Bytes) :
    HSha2.Context224.update_mut_src self input = Impl.Sha2.Ctx256.update_mut self input := HS2.Context224.update_mut_src_eq self input
theorem HSha2.Context224.update_src_eq_model (self : Impl.Sha2.Ctx256) (input : Bytes) :
    HSha2.Context224.update_src self input = Impl.Sha2.Ctx256.update self input := HS2.Context224.update_src_eq self input
theorem HSha2.Context224.reset_src_eq_model (self : Impl.Sha2.Ctx256) : HSha2.Context224.reset_src self = Impl.Sha2.Ctx256.reset Impl.Sha2.Sha224 self := rfl
theorem HSha2.Context224.finalize_src_eq_model (self : Impl.Sha2.Ctx256) :
    HSha2.Context224.finalize_src self = Impl.Sha2.Ctx256.finalize Impl.Sha2.Sha224 self := HS2.Context224.finalize_src_eq self
theorem HSha2.Context224.finalize_reset_src_eq_model (self : Impl.Sha2.Ctx256) :
    HSha2.Context224.finalize_reset_src self = Impl.Sha2.Ctx256.finalize_reset Impl.Sha2.Sha224 self := HS2.Context224.finalize_reset_src_eq self
theorem HSha2.Sha224.new_src_eq_model : HSha2.Sha224.new_src = Impl.Sha2.Ctx256.new Impl.Sha2.Sha224 := rfl

/-! ## src/hashing/mod.rs — the one-shot functions `X::new().update(input).finalize()` -/

theorem Hashing.sha1_src_eq_model (input : Bytes) : Hashing.sha1_src input = Impl.Sha1.sha1 input := HS1.oneshot_eq input
theorem Hashing.ripemd160_src_eq_model (input : Bytes) : Hashing.ripemd160_src input = Impl.Ripemd160.ripemd160 input :=
  HRmd.oneshot_eq input
theorem Hashing.sha224_src_eq_model (input : Bytes) : Hashing.sha224_src input = Impl.Sha2.sha224? input := HS2.sha224_oneshot input
theorem Hashing.sha256_src_eq_model (input : Bytes) : Hashing.sha256_src input = Impl.Sha2.sha256? input := HS2.sha256_oneshot input
theorem Hashing.sha384_src_eq_model (input : Bytes) : Hashing.sha384_src input = Impl.Sha2.sha384? input := HS2.sha384_oneshot input
theorem Hashing.sha512_src_eq_model (input : Bytes) : Hashing.sha512_src input = Impl.Sha2.sha512? input := HS2.sha512_oneshot input
theorem Hashing.sha3_224_src_eq_model (input : Bytes) : Hashing.sha3_224_src input = Impl.Sha3.sha3_224 input := HOne.sha3_224_oneshot input
theorem Hashing.sha3_256_src_eq_model (input : Bytes) : Hashing.sha3_256_src input = Impl.Sha3.sha3_256 input := HOne.sha3_256_oneshot input
theorem Hashing.sha3_384_src_eq_model (input : Bytes) : Hashing.sha3_384_src input = Impl.Sha3.sha3_384 input := HOne.sha3_384_oneshot input
theorem Hashing.sha3_512_src_eq_model (input : Bytes) : Hashing.sha3_512_src input = Impl.Sha3.sha3_512 input := HOne.sha3_512_oneshot input
theorem Hashing.keccak224_src_eq_model (input : Bytes) : Hashing.keccak224_src input = Impl.Sha3.keccak224 input := HOne.keccak224_oneshot input
theorem Hashing.keccak256_src_eq_model (input : Bytes) : Hashing.keccak256_src input = Impl.Sha3.keccak256 input := HOne.keccak256_oneshot input
theorem Hashing.keccak384_src_eq_model (input : Bytes) : Hashing.keccak384_src input = Impl.Sha3.keccak384 input := HOne.keccak384_oneshot input
theorem Hashing.keccak512_src_eq_model (input : Bytes) : Hashing.keccak512_src input = Impl.Sha3.keccak512 input := HOne.keccak512_oneshot input
theorem Hashing.blake2b_224_src_eq_model (input : Bytes) :
    Hashing.blake2b_224_src input = Impl.Blake2.hashing_blake2 Impl.Blake2.b Impl.Digest.blakeProfile 224 input :=
  HOne.blake2b_224_oneshot input
theorem Hashing.blake2b_256_src_eq_model (input : Bytes) :
    Hashing.blake2b_256_src input = Impl.Blake2.hashing_blake2 Impl.Blake2.b Impl.Digest.blakeProfile 256 input :=
  HOne.blake2b_256_oneshot input
theorem Hashing.blake2b_384_src_eq_model (input : Bytes) :
    Hashing.blake2b_384_src input = Impl.Blake2.hashing_blake2 Impl.Blake2.b Impl.Digest.blakeProfile 384 input :=
  HOne.blake2b_384_oneshot input
theorem Hashing.blake2b_512_src_eq_model (input : Bytes) :
    Hashing.blake2b_512_src input = Impl.Blake2.hashing_blake2 Impl.Blake2.b Impl.Digest.blakeProfile 512 input :=
  HOne.blake2b_512_oneshot input
theorem Hashing.blake2s_224_src_eq_model (input : Bytes) :
    Hashing.blake2s_224_src input = Impl.Blake2.hashing_blake2 Impl.Blake2.s Impl.Digest.blakeProfile 224 input :=
  HOne.blake2s_224_oneshot input
theorem Hashing.blake2s_256_src_eq_model (input : Bytes) :
    Hashing.blake2s_256_src input = Impl.Blake2.hashing_blake2 Impl.Blake2.s Impl.Digest.blakeProfile 256 input :=
  HOne.blake2s_256_oneshot input

/-! ## End to end: what the SOURCE of the one-shot functions computes is the standard function

  `Hashing.<f>_src` is generated from src/hashing/mod.rs and calls the functions generated from src/hashing/sha1.rs,
  ripemd160.rs, sha2/mod.rs (resp. the model contexts of SHA-3 / Keccak / BLAKE2, tied by the sponge / BLAKE2 glue ties); the tie
  theorems above and the C01 theorems of the hand models compose (the only hypotheses are the standards' own length domains). -/

theorem Hashing.sha1_src_is_fips (input : Bytes) (h : input.length < 2 ^ 61) :
    Hashing.sha1_src input = some (Spec.Sha1.sha1 input) := by
  rw [Hashing.sha1_src_eq_model]; exact Cx.Props.C01.Sha1.sha1_is_fips input h
theorem Hashing.ripemd160_src_is_paper (input : Bytes) (h : input.length < 2 ^ 61) :
    Hashing.ripemd160_src input = some (Spec.Ripemd160.ripemd160 input) := by
  rw [Hashing.ripemd160_src_eq_model]; exact Cx.Props.C01.Ripemd160.ripemd160_is_paper input h
theorem Hashing.sha224_src_is_fips (input : Bytes) (h : input.length < 2 ^ 61) :
    Hashing.sha224_src input = some (Spec.Sha2.sha224 input) := by
  rw [Hashing.sha224_src_eq_model]; exact Cx.Props.C01.Sha2.sha224_eq_spec input h
theorem Hashing.sha256_src_is_fips (input : Bytes) (h : input.length < 2 ^ 61) :
    Hashing.sha256_src input = some (Spec.Sha2.sha256 input) := by
  rw [Hashing.sha256_src_eq_model]; exact Cx.Props.C01.Sha2.sha256_eq_spec input h
theorem Hashing.sha384_src_is_fips (input : Bytes) (h : input.length < 2 ^ 125) :
    Hashing.sha384_src input = some (Spec.Sha2.sha384 input) := by
  rw [Hashing.sha384_src_eq_model]; exact Cx.Props.C01.Sha2.sha384_eq_spec input h
theorem Hashing.sha512_src_is_fips (input : Bytes) (h : input.length < 2 ^ 125) :
    Hashing.sha512_src input = some (Spec.Sha2.sha512 input) := by
  rw [Hashing.sha512_src_eq_model]; exact Cx.Props.C01.Sha2.sha512_eq_spec input h
theorem Hashing.sha3_224_src_is_fips (input : Bytes) : Hashing.sha3_224_src input = some (Spec.Keccak.sha3_224 input) := by
  rw [Hashing.sha3_224_src_eq_model]; exact Cx.Props.C01.sha3_224_eq_spec input
theorem Hashing.sha3_256_src_is_fips (input : Bytes) : Hashing.sha3_256_src input = some (Spec.Keccak.sha3_256 input) := by
  rw [Hashing.sha3_256_src_eq_model]; exact Cx.Props.C01.sha3_256_eq_spec input
theorem Hashing.sha3_384_src_is_fips (input : Bytes) : Hashing.sha3_384_src input = some (Spec.Keccak.sha3_384 input) := by
  rw [Hashing.sha3_384_src_eq_model]; exact Cx.Props.C01.sha3_384_eq_spec input
theorem Hashing.sha3_512_src_is_fips (input : Bytes) : Hashing.sha3_512_src input = some (Spec.Keccak.sha3_512 input) := by
  rw [Hashing.sha3_512_src_eq_model]; exact Cx.Props.C01.sha3_512_eq_spec input
theorem Hashing.keccak224_src_is_fips (input : Bytes) : Hashing.keccak224_src input = some (Spec.Keccak.keccak224 input) := by
  rw [Hashing.keccak224_src_eq_model]; exact Cx.Props.C01.keccak224_eq_spec input
theorem Hashing.keccak256_src_is_fips (input : Bytes) : Hashing.keccak256_src input = some (Spec.Keccak.keccak256 input) := by
  rw [Hashing.keccak256_src_eq_model]; exact Cx.Props.C01.keccak256_eq_spec input
theorem Hashing.keccak384_src_is_fips (input : Bytes) : Hashing.keccak384_src input = some (Spec.Keccak.keccak384 input) := by
  rw [Hashing.keccak384_src_eq_model]; exact Cx.Props.C01.keccak384_eq_spec input
theorem Hashing.keccak512_src_is_fips (input : Bytes) : Hashing.keccak512_src input = some (Spec.Keccak.keccak512 input) := by
  rw [Hashing.keccak512_src_eq_model]; exact Cx.Props.C01.keccak512_eq_spec input
theorem Hashing.blake2b_224_src_is_rfc (input : Bytes) :
    Hashing.blake2b_224_src input = some (Spec.Blake2.blake2b 28 [] input) := by
  rw [Hashing.blake2b_224_src_eq_model]; exact Cx.Props.C01.hashing_blake2b_fixed 224 (by decide) input
theorem Hashing.blake2b_256_src_is_rfc (input : Bytes) :
    Hashing.blake2b_256_src input = some (Spec.Blake2.blake2b 32 [] input) := by
  rw [Hashing.blake2b_256_src_eq_model]; exact Cx.Props.C01.hashing_blake2b_fixed 256 (by decide) input
theorem Hashing.blake2b_384_src_is_rfc (input : Bytes) :
    Hashing.blake2b_384_src input = some (Spec.Blake2.blake2b 48 [] input) := by
  rw [Hashing.blake2b_384_src_eq_model]; exact Cx.Props.C01.hashing_blake2b_fixed 384 (by decide) input
theorem Hashing.blake2b_512_src_is_rfc (input : Bytes) :
    Hashing.blake2b_512_src input = some (Spec.Blake2.blake2b 64 [] input) := by
  rw [Hashing.blake2b_512_src_eq_model]; exact Cx.Props.C01.hashing_blake2b_fixed 512 (by decide) input
theorem Hashing.blake2s_224_src_is_rfc (input : Bytes) :
    Hashing.blake2s_224_src input = some (Spec.Blake2.blake2s 28 [] input) := by
  rw [Hashing.blake2s_224_src_eq_model]; exact Cx.Props.C01.hashing_blake2s_fixed 224 (by decide) input
theorem Hashing.blake2s_256_src_is_rfc (input : Bytes) :
    Hashing.blake2s_256_src input = some (Spec.Blake2.blake2s 32 [] input) := by
  rw [Hashing.blake2s_256_src_eq_model]; exact Cx.Props.C01.hashing_blake2s_fixed 256 (by decide) input
example : ([] : Bytes).length < 2 ^ 61 := by decide

end Cx.Props.C09.GlueTieDigest
