/-
  Props.C09.Poly1305 — C09 (Poly1305 part): "MAC objects: reset rekeys, results never silently change".

  The abstract object is (key, bytes since the last reset, finished?) — `Proofs.Poly1305.Abs`/`absStep`/`absRun`.
  The code is `Impl.Poly1305.stepOp`/`runOps` over the operations {input, result, raw_result(n), reset}
  (`clone` is the identity on the model's immutable states: a clone is the same value).
  Main theorems are about `.repaired` = the code as it is in /repo now (`codeVariant`); the witness theorems at the
  end document defect (c) of the code as first found (`.original`).
-/
import CxVerif.Proofs.Poly1305Object
namespace Cx.Props.C09
open Cx Cx.Impl.Poly1305 Cx.Proofs.Poly1305

/-- the variant the theorems of this file speak about is the one the driver runs against /repo -/
theorem codeVariant_is_repaired : codeVariant = .repaired := rfl

/-- **bisimulation, one step**: if the context `st` represents the abstract object `a`, then on every operation
    either both refuse with the same panic kind, or both succeed, emit the same bytes, and the successors are
    again related. -/
theorem poly1305_step_bisim (key : Bytes) (st : State) (a : Abs) (op : Op) (h : Sim key st a) :
    match absStep key a op with
    | .error e => stepOp .repaired st op = .error e
    | .ok (a', out) => ∃ st', stepOp .repaired st op = .ok (st', out) ∧ Sim key st' a' :=
  step_sim key st a op h

/-- **C09 for Poly1305**: on EVERY history of {input, result, raw_result, reset} applied to a fresh context, for
    EVERY key, the emitted values and the first panic (if any) are exactly those of the abstract object: every
    emitted value is `MAC(key, bytes since the last reset)`; nothing else is ever emitted. -/
theorem poly1305_history_refines (key : Bytes) (ops : List Op) :
    runOps .repaired (new key) ops = absRun key ⟨[], false⟩ ops :=
  run_sim key ops (new key) ⟨[], false⟩ (new_sim key)

/-- the same from any reachable state (non-vacuity of `Sim`: `new_sim`, and every successor by `poly1305_step_bisim`) -/
theorem poly1305_history_refines_from (key : Bytes) (st : State) (a : Abs) (ops : List Op) (h : Sim key st a) :
    runOps .repaired st ops = absRun key a ops :=
  run_sim key ops st a h

example (key : Bytes) : Sim key (new key) ⟨[], false⟩ := new_sim key

/-- a second result without reset returns the same bytes (whatever the message length, incl. multiples of 16) -/
theorem second_result_same (key : Bytes) (msg : Bytes) :
    runOps .repaired (new key) [.input msg, .result, .result, .rawResult 16]
      = ([Spec.Poly1305.mac key msg, Spec.Poly1305.mac key msg, Spec.Poly1305.mac key msg], none) := by
  rw [poly1305_history_refines]; simp [absRun, absStep]

/-- input after a result is refused by the code's `assert!(!self.finalized)` -/
theorem input_after_result_panics (key : Bytes) (msg more : Bytes) :
    runOps .repaired (new key) [.input msg, .result, .input more]
      = ([Spec.Poly1305.mac key msg], some .assertion) := by
  rw [poly1305_history_refines]; simp [absRun, absStep]

/-- `reset` ≈ fresh context with the same key -/
theorem reset_is_fresh (key : Bytes) (junk : List Op) (msg : Bytes)
    (hj : (absRun key ⟨[], false⟩ junk).2 = none) :
    ∃ outs, runOps .repaired (new key) (junk ++ [.reset, .input msg, .result])
      = (outs ++ [Spec.Poly1305.mac key msg], none) := by
  rw [poly1305_history_refines]
  exact absRun_reset_fresh key msg junk _ hj

example : (absRun [] ⟨[], false⟩ [.input [1, 2, 3], .result, .result]).2 = none := by decide

/-! ## Witness: the code as first found (`.original`) violates the property at `len % 16 = 0` (defect c) -/

def wKey : Bytes := [0x85, 0xd6, 0xbe, 0x78, 0x57, 0x55, 0x6d, 0x33, 0x7f, 0x44, 0x52, 0xfe, 0x42, 0xd5, 0x06, 0xa8,
  0x01, 0x03, 0x80, 0x8a, 0xfb, 0x0d, 0xb2, 0xfd, 0x4a, 0xbf, 0xf6, 0xaf, 0x41, 0x49, 0xf5, 0x1b]
def wMsg : Bytes := "Cryptographic For".toUTF8.toList.take 16

/-- WITNESS (case line `poly.hist 85d6…f51b i43727970746f6772617068696320466f;R;R`): with a 16-byte message the original
    `finish` does not set `finalized`; the second `result` re-runs `finish` on the tag words and returns DIFFERENT
    bytes — the first is the RFC tag, the second is not. -/
theorem original_second_result_differs :
    ∃ t1 t2, runOps .original (new wKey) [.input wMsg, .result, .result] = ([t1, t2], none) ∧
      t1 = Spec.Poly1305.mac wKey wMsg ∧ t2 ≠ t1 := by
  refine ⟨[0xfd, 0x86, 0x1c, 0x71, 0x84, 0xf9, 0x8f, 0x45, 0xdc, 0x6d, 0x5b, 0x4d, 0xc6, 0xc0, 0x81, 0xe4],
          [0xfe, 0x89, 0x9c, 0x0b, 0xe2, 0x4d, 0x88, 0xdc, 0x01, 0x15, 0x2d, 0x20, 0x62, 0xf9, 0x81, 0xe4], ?_, ?_, ?_⟩
  · decide +kernel
  · decide +kernel
  · decide

/-- WITNESS: even the empty message shows it (0 is a multiple of 16): `R;R` -/
theorem original_empty_second_result_differs :
    ∃ t1 t2, runOps .original (new wKey) [.result, .result] = ([t1, t2], none) ∧ t2 ≠ t1 := by
  refine ⟨[0x01, 0x03, 0x80, 0x8a, 0xfb, 0x0d, 0xb2, 0xfd, 0x4a, 0xbf, 0xf6, 0xaf, 0x41, 0x49, 0xf5, 0x1b],
          [0x02, 0x06, 0x00, 0x01, 0x34, 0xd6, 0x48, 0xf6, 0xb6, 0xfe, 0x51, 0x02, 0x3f, 0x50, 0xf5, 0x1b], ?_, ?_⟩
  · decide +kernel
  · decide

/-- WITNESS: `input` after `result` is NOT refused by the original code when the length is a multiple of 16
    (the abstract object demands `.error .assertion`); the stray byte is accepted and the next `result` then dies with a
    u32 overflow in the checked build (or returns garbage in a wrapping build). -/
theorem original_input_after_result_not_refused :
    runOps .original (new wKey) [.input wMsg, .result, .input [0], .result]
      = ([Spec.Poly1305.mac wKey wMsg], some .overflow) ∧
    absRun wKey ⟨[], false⟩ [.input wMsg, .result, .input [0], .result]
      = ([Spec.Poly1305.mac wKey wMsg], some .assertion) := by
  constructor <;> decide +kernel

/-- the repaired code on the same histories -/
example : runOps .repaired (new wKey) [.input wMsg, .result, .result]
    = ([Spec.Poly1305.mac wKey wMsg, Spec.Poly1305.mac wKey wMsg], none) := by decide +kernel

end Cx.Props.C09
