/-
  Props.C15.Scalar64 — C15, scalar part, 64-bit backend (/repo/src/curve25519/scalar/scalar64.rs):
  "scalar wide reduction returns the value modulo the group order L and the canonical decoder accepts
  exactly the values below L", plus the arithmetic the Ed25519 layer uses (mul / add / muladd mod L),
  the byte codecs and the digit decompositions `bits` / `nibbles`.

  Every statement is about the code-shaped model `Cx.Impl.Scalar64` (one def per Rust fn, machine
  truncations explicit, checked `+` as `Option`); `… = some …` therefore includes "no overflow panic".
  `Scalar.val s = Σ l_i·2^(56 i)`; `Inv s` = four limbs < 2^56 and top limb < 2^32 — exactly the limb
  vectors reachable through the public constructors (`from_bytes`, `from_bytes_canonical`,
  `reduce_from_wide_bytes`, ZERO, ONE) and closed under mul / muladd (theorems below).
  Helper lemmas: Proofs/Scalar64{Basic,Barrett,Mul,Bytes,Digits,Slide}.lean.

  Also proved: the contract of `Scalar::slide` (Σ r_i 2^i = a, non-zero digits odd, |r_i| ≤ 15, no i8
  overflow) for every a < 2^255 (Proofs/Scalar64Slide.lean).
-/
import CxVerif.Proofs.Scalar64Mul
import CxVerif.Proofs.Scalar64Bytes
import CxVerif.Proofs.Scalar64Digits
import CxVerif.Proofs.Scalar64Slide
namespace Cx.Props.C15.Scalar64
open Cx Cx.Impl.Scalar64 Cx.Proofs.Scalar64
open Cx.Spec.ScalarL (L)
set_option exponentiation.threshold 600

/-! ## constants extracted from the source -/

/-- `const M` denotes the group order -/
theorem M_is_L : M.val = L := M_val
/-- `const MU` is the Barrett constant ⌊2^512 / L⌋ -/
theorem MU_is_barrett_constant : MU.val = 2^512 / L := by decide
theorem masks : MASK16 = 2^16 - 1 ∧ MASK40 = 2^40 - 1 ∧ MASK56 = 2^56 - 1 := by decide
theorem ZERO_ONE : ZERO.val = 0 ∧ ONE.val = 1 ∧ Inv ZERO ∧ Inv ONE := by decide
/-- the byte strings `L`, `LM1`, `LP1` of the crate's own test are L, L−1, L+1 -/
theorem test_constants :
    leNat (Extracted.Scalar64.TEST_L.map UInt8.ofNat) = L ∧
    leNat (Extracted.Scalar64.TEST_LM1.map UInt8.ofNat) = L - 1 ∧
    leNat (Extracted.Scalar64.TEST_LP1.map UInt8.ofNat) = L + 1 := by decide

/-! ## byte codecs -/

/-- `from_bytes` reads its 32 bytes as a little-endian integer (ALL 32-byte strings) and yields the invariant -/
theorem from_bytes_correct (b : Vector UInt8 32) :
    (from_bytes b).val = Spec.ScalarL.decode b.toList ∧ Inv (from_bytes b) := from_bytes_spec b

/-- `to_bytes` is the 32-byte little-endian encoding of the value, for every scalar inside the invariant
    (in particular every reduced scalar) -/
theorem to_bytes_correct (s : Scalar) (h : Inv s) : to_bytes s = Spec.ScalarL.encode s.val := to_bytes_spec s h
example : Inv ⟨2^56 - 1, 0, 5, 2^56 - 1, 2^32 - 1⟩ := by decide

theorem to_bytes_length (s : Scalar) (h : Inv s) : (to_bytes s).length = 32 := by
  rw [to_bytes_correct s h]; unfold Spec.ScalarL.encode
  have : ∀ n v, (natToLE n v).length = n := by
    intro n; induction n with
    | zero => intro v; rfl
    | succ n ih => intro v; simp [natToLE, ih]
  exact this 32 _

/-- serialisation round trip, all 32-byte strings (the crate tests 100 values below 2^252) -/
theorem to_bytes_from_bytes (b : Vector UInt8 32) : to_bytes (from_bytes b) = b.toList :=
  Proofs.Scalar64.to_bytes_from_bytes b

/-- two scalars inside the invariant with the same value are the same limb vector (`==` is value equality) -/
theorem val_injective (s t : Scalar) (hs : Inv s) (ht : Inv t) (h : s.val = t.val) : s = t := by
  obtain ⟨a0, a1, a2, a3, a4⟩ := hs
  obtain ⟨b0, b1, b2, b3, b4⟩ := ht
  cases s; cases t
  simp only [Scalar.val] at h
  simp only [Scalar.mk.injEq]
  simp only [] at a0 a1 a2 a3 a4 b0 b1 b2 b3 b4
  omega

/-! ## the canonical decoder accepts exactly the values below L -/

/-- `lt_order` is `< L` (borrow chain ⇔ comparison), never panics -/
theorem lt_order_correct (v : Scalar) (h : Inv v) : lt_order v = some (decide (v.val < L)) := by
  obtain ⟨h0, h1, h2, h3, h4⟩ := h
  exact lt_order_spec v h0 h1 h2 h3 (by omega)

/-- `from_bytes_canonical b` never panics and is `Some(from_bytes b)` exactly when `le(b) < L`, for ALL 32-byte b -/
theorem from_bytes_canonical_correct (b : Vector UInt8 32) :
    from_bytes_canonical b = some (if Spec.ScalarL.decode b.toList < L then some (from_bytes b) else none) :=
  from_bytes_canonical_spec b

/-- the same through byte strings and the Spec's decoder: accept ⇔ `isCanonical`, and the accepted scalar
    re-encodes to the input -/
theorem canonical_decoder_matches_spec (b : Vector UInt8 32) :
    (from_bytes_canonical b).map (·.map to_bytes)
      = some ((Spec.ScalarL.decodeCanonical b.toList).map Spec.ScalarL.encode) := by
  rw [from_bytes_canonical_correct]
  have hl : b.toList.length = 32 := by simp
  unfold Spec.ScalarL.decodeCanonical Spec.ScalarL.isCanonical
  by_cases h : Spec.ScalarL.decode b.toList < L
  · obtain ⟨hv, hi⟩ := from_bytes_correct b
    simp [h, hl, to_bytes_correct _ hi, hv]
  · simp [h, hl]

/-! ## wide reduction -/

/-- `reduce256` = one conditional subtraction of L (limbs < 2^56, top limb < 2^63), never panics -/
theorem reduce256_correct (r : Scalar) (h0 : r.l0 < 2^56) (h1 : r.l1 < 2^56) (h2 : r.l2 < 2^56) (h3 : r.l3 < 2^56)
    (h4 : r.l4 < 2^63) :
    ∃ o, reduce256 r = some o ∧ o.val = (if r.val < L then r.val else r.val - L) ∧
      o.l0 < 2^56 ∧ o.l1 < 2^56 ∧ o.l2 < 2^56 ∧ o.l3 < 2^56 ∧ o.l4 ≤ r.l4 := reduce256_spec r h0 h1 h2 h3 h4
example : (⟨2^56 - 1, 2^56 - 1, 2^56 - 1, 2^56 - 1, 2^63 - 1⟩ : Scalar).l4 < 2^63 := by decide

/-- Barrett step: for every x < 2^512 split as q1 = x >> 248, r1 = x mod 2^264 (limbs in range) the result is
    x mod L, fully reduced, no overflow. (Inside: q3 ≤ ⌊x/L⌋ ≤ q3 + 1 — `barrett_est`.) -/
theorem barrett_reduce256_correct (q1 r1 : Scalar) (x : Nat) (hx : x < 2^512)
    (hq0 : q1.l0 < 2^56) (hq1 : q1.l1 < 2^56) (hq2 : q1.l2 < 2^56) (hq3 : q1.l3 < 2^56) (hq4 : q1.l4 < 2^56)
    (hr0 : r1.l0 < 2^56) (hr1 : r1.l1 < 2^56) (hr2 : r1.l2 < 2^56) (hr3 : r1.l3 < 2^56) (hr4 : r1.l4 < 2^40)
    (hq : q1.val = x / 2^248) (hr : r1.val = x % 2^264) :
    ∃ o, barrett_reduce256 q1 r1 = some o ∧ o.val = x % L ∧ Inv o :=
  barrett_spec q1 r1 x hx hq0 hq1 hq2 hq3 hq4 hr0 hr1 hr2 hr3 hr4 hq hr
-- non-vacuity: x = 2^512 − 1
example : (2^512 - 1 : Nat) < 2^512 ∧
    (⟨2^56-1, 2^56-1, 2^56-1, 2^56-1, 2^40-1⟩ : Scalar).val = (2^512 - 1) / 2^248 ∧
    (⟨2^56-1, 2^56-1, 2^56-1, 2^56-1, 2^40-1⟩ : Scalar).val = (2^512 - 1) % 2^264 := by decide

/-- **wide reduction**: for EVERY 64-byte string s, `reduce_from_wide_bytes s` does not panic and returns the
    scalar with value `le(s) mod L`, fully reduced -/
theorem reduce_from_wide_bytes_correct (s : Vector UInt8 64) :
    ∃ o, reduce_from_wide_bytes s = some o ∧ o.val = Spec.ScalarL.decode s.toList % L ∧ Inv o :=
  reduce_from_wide_bytes_spec s

/-- the same, observed through `to_bytes` and compared with the Spec function -/
theorem reduce_wide_bytes_matches_spec (s : Vector UInt8 64) :
    (reduce_from_wide_bytes s).map to_bytes = some (Spec.ScalarL.reduceWide s.toList) := by
  obtain ⟨o, ho, hv, hi⟩ := reduce_from_wide_bytes_correct s
  rw [ho]; simp only [Option.map_some]
  rw [to_bytes_correct o hi, hv]; rfl

/-- the output of wide reduction is always accepted by the canonical decoder -/
theorem reduce_then_canonical (s : Vector UInt8 64) :
    ∃ o, reduce_from_wide_bytes s = some o ∧ lt_order o = some true := by
  obtain ⟨o, ho, hv, hi⟩ := reduce_from_wide_bytes_correct s
  refine ⟨o, ho, ?_⟩
  rw [lt_order_correct o hi]
  have : o.val < L := by rw [hv]; exact Nat.mod_lt _ (by decide)
  simp [this]

/-! ## mul, add, muladd modulo L -/

/-- `mul x y = x·y mod L`, reduced, no overflow, for ALL scalars inside the invariant (values up to 2^256 − 1) -/
theorem mul_correct (x y : Scalar) (hx : Inv x) (hy : Inv y) :
    ∃ o, mul x y = some o ∧ o.val = Spec.ScalarL.mul x.val y.val ∧ Inv o := mul_spec x y hx hy

/-- `add`: limb-wise sum and ONE conditional subtraction of L -/
theorem add_correct (x y : Scalar) (hx : Inv x) (hy : Inv y) :
    ∃ o, add x y = some o ∧ o.val = (if x.val + y.val < L then x.val + y.val else x.val + y.val - L) := by
  obtain ⟨hx0, hx1, hx2, hx3, hx4⟩ := hx
  obtain ⟨hy0, hy1, hy2, hy3, hy4⟩ := hy
  obtain ⟨o, ho, v, _⟩ := add_spec x y hx0 hx1 hx2 hx3 (by omega) hy0 hy1 hy2 hy3 (by omega)
  exact ⟨o, ho, v⟩

/-- hence `add x y = (x + y) mod L`, reduced, whenever `x + y < 2L` (in particular for reduced operands) -/
theorem add_mod_L (x y : Scalar) (hx : Inv x) (hy : Inv y) (h : x.val + y.val < 2 * L) :
    ∃ o, add x y = some o ∧ o.val = Spec.ScalarL.add x.val y.val ∧ Inv o := add_mod x y hx hy h
example : Inv (⟨5, 0, 0, 0, 0⟩ : Scalar) ∧ (⟨5, 0, 0, 0, 0⟩ : Scalar).val + (⟨5, 0, 0, 0, 0⟩ : Scalar).val < 2 * L := by decide

/-- outside that range `add` is NOT the sum mod L (the result is only one subtraction away from the sum):
    documented behaviour of the private helper, witness 2L + 2L -/
example : ∃ x y, Inv x ∧ Inv y ∧ (add x y).map Scalar.val ≠ some (Spec.ScalarL.add x.val y.val) :=
  ⟨from_bytes (Vector.ofFn fun i => if i.val = 31 then 0x20 else 0), from_bytes (Vector.ofFn fun i => if i.val = 31 then 0x20 else 0),
    by decide⟩

/-- `muladd a b c = (a·b + c) mod L`, reduced, no overflow, for ALL 256-bit a, b and reduced c
    (how Ed25519 signing uses it: c = r mod L) -/
theorem muladd_correct (a b c : Scalar) (ha : Inv a) (hb : Inv b) (hc : Inv c) (hcL : c.val < L) :
    ∃ o, muladd a b c = some o ∧ o.val = Spec.ScalarL.muladd a.val b.val c.val ∧ Inv o :=
  muladd_spec a b c ha hb hc hcL

/-- byte-level form used by the Ed25519 layer: S = (h·a + r) mod L on 32-byte strings -/
theorem muladd_bytes (a b c : Vector UInt8 32) (hc : Spec.ScalarL.decode c.toList < L) :
    (muladd (from_bytes a) (from_bytes b) (from_bytes c)).map to_bytes
      = some (Spec.ScalarL.encode (Spec.ScalarL.muladd (Spec.ScalarL.decode a.toList) (Spec.ScalarL.decode b.toList)
          (Spec.ScalarL.decode c.toList))) := by
  obtain ⟨va, ia⟩ := from_bytes_correct a
  obtain ⟨vb, ib⟩ := from_bytes_correct b
  obtain ⟨vc, ic⟩ := from_bytes_correct c
  obtain ⟨o, ho, hv, hi⟩ := muladd_correct _ _ _ ia ib ic (by rw [vc]; exact hc)
  rw [ho]; simp only [Option.map_some]
  rw [to_bytes_correct o hi, hv, va, vb, vc]

/-! ## programs over the public operators stay inside the invariant -/

/-- scalars constructible from the public API (`ZERO`, `ONE`, `from_bytes`, `from_bytes_canonical`,
    `reduce_from_wide_bytes`) and the crate-internal `muladd` with a reduced addend (its use in signing) -/
inductive Pub : Scalar → Prop
  | zero : Pub ZERO
  | one : Pub ONE
  | fromBytes (b : Vector UInt8 32) : Pub (from_bytes b)
  | canonical (b : Vector UInt8 32) (s : Scalar) : from_bytes_canonical b = some (some s) → Pub s
  | reduce (w : Vector UInt8 64) (o : Scalar) : reduce_from_wide_bytes w = some o → Pub o
  | muladd (a b c o : Scalar) : Pub a → Pub b → Pub c → c.val < L → Impl.Scalar64.muladd a b c = some o → Pub o

/-- every such scalar satisfies the limb invariant (so all theorems above apply to it, `to_bytes` is its
    canonical 32-byte encoding and `==` on it is equality of values) -/
theorem pub_inv (s : Scalar) (h : Pub s) : Inv s := by
  induction h with
  | zero => exact ZERO_ONE.2.2.1
  | one => exact ZERO_ONE.2.2.2
  | fromBytes b => exact (from_bytes_correct b).2
  | canonical b s h =>
    rw [from_bytes_canonical_correct] at h
    split at h
    · simp only [Option.some.injEq] at h; subst h; exact (from_bytes_correct b).2
    · simp at h
  | reduce w o h =>
    obtain ⟨o', ho', _, hi⟩ := reduce_from_wide_bytes_correct w
    rw [h] at ho'; simp only [Option.some.injEq] at ho'; subst ho'; exact hi
  | muladd a b c o _ _ _ hc h iha ihb ihc =>
    obtain ⟨o', ho', _, hi⟩ := muladd_correct a b c iha ihb ihc hc
    rw [h] at ho'; simp only [Option.some.injEq] at ho'; subst ho'; exact hi

/-- and on such operands `muladd` (reduced addend) and `mul` never panic -/
theorem pub_no_panic (a b c : Scalar) (ha : Pub a) (hb : Pub b) (hc : Pub c) (hcL : c.val < L) :
    (Impl.Scalar64.muladd a b c).isSome ∧ (Impl.Scalar64.mul a b).isSome ∧ (Impl.Scalar64.add a b).isSome := by
  obtain ⟨o, ho, _⟩ := muladd_correct a b c (pub_inv a ha) (pub_inv b hb) (pub_inv c hc) hcL
  obtain ⟨m, hm, _⟩ := mul_correct a b (pub_inv a ha) (pub_inv b hb)
  obtain ⟨d, hd, _⟩ := add_correct a b (pub_inv a ha) (pub_inv b hb)
  simp [ho, hm, hd]

/-! ## digit decompositions -/

/-- `nibbles` = the 64 radix-16 digits of the value: Σ e_i·16^i = a, 0 ≤ e_i ≤ 15 -/
theorem nibbles_correct (s : Scalar) (h : Inv s) :
    (nibbles s).toList = (Spec.ScalarL.radix16 s.val).map Int.ofNat ∧
    Spec.ScalarL.evalDigits 16 (nibbles s).toList = (s.val : Int) ∧
    ∀ e ∈ (nibbles s).toList, 0 ≤ e ∧ e ≤ 15 := by
  have e := nibbles_eq_radix16 s h
  refine ⟨e, ?_, ?_⟩
  · rw [e]; unfold Spec.ScalarL.radix16
    rw [evalDigits_digits, Nat.mod_eq_of_lt (by have := h.val_lt; omega)]
  · intro d hd
    rw [e] at hd
    obtain ⟨n, hn, rfl⟩ := List.mem_map.mp hd
    have hn16 : n < 16 := by
      unfold Spec.ScalarL.radix16 at hn
      obtain ⟨i, hi, rfl⟩ := List.getElem_of_mem hn
      rw [digits_getElem]; exact Nat.mod_lt _ (by decide)
    constructor
    · exact Int.natCast_nonneg n
    · show ((n : Nat) : Int) ≤ 15
      omega

/-- `bits` = the 256 binary digits of the value -/
theorem bits_correct (s : Scalar) (h : Inv s) :
    (bits s).toList = (Spec.ScalarL.bitsLE s.val).map Int.ofNat ∧
    Spec.ScalarL.evalDigits 2 (bits s).toList = (s.val : Int) := by
  have e := bits_eq_bitsLE s h
  refine ⟨e, ?_⟩
  rw [e]; unfold Spec.ScalarL.bitsLE
  rw [evalDigits_digits, Nat.mod_eq_of_lt h.val_lt]

/-! ## `slide` (scalar/mod.rs) — the sliding-window recoding used by `double_scalarmult_vartime` -/

/-- for every scalar inside the invariant with value below 2^255 (the documented operand range) `slide`
    has no `i8` overflow, Σ r_i·2^i = a, and every digit is 0 or odd with |r_i| ≤ 15 -/
theorem slide_correct (s : Scalar) (h : Inv s) (ha : s.val < 2 ^ 255) :
    ∃ r, slide s = some r ∧ Spec.ScalarL.evalDigits 2 r.toList = (s.val : Int) ∧
      (∀ d ∈ r.toList, d = 0 ∨ (d % 2 = 1 ∧ -15 ≤ d ∧ d ≤ 15)) ∧
      Spec.ScalarL.isSlideOf s.val r.toList = true := by
  obtain ⟨r, hr, hv, hd⟩ := Slide.slide_spec s h ha
  obtain ⟨r', hr', hc⟩ := Slide.slide_isSlideOf s h ha
  rw [hr] at hr'; simp only [Option.some.injEq] at hr'; subst hr'
  exact ⟨r, hr, hv, hd, hc⟩
example : Inv (from_bytes (Vector.ofFn fun i => if i.val = 31 then 0x7f else 0xff)) ∧
    (from_bytes (Vector.ofFn fun i => if i.val = 31 then 0x7f else 0xff)).val < 2 ^ 255 := by decide

/-- the bound is needed: for a = 2^256 − 1 the carry runs off the end of the array and the digits denote a − 2^256
    (outside the documented range, so not a defect; kernel-evaluated witness) -/
example : ((slide (from_bytes (Vector.ofFn fun _ => 0xff))).map fun r =>
    Spec.ScalarL.evalDigits 2 r.toList) = some (-1) := by decide +kernel

end Cx.Props.C15.Scalar64
