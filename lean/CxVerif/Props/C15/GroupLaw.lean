/-
  Props.C15.GroupLaw — C15, the mathematical foundation of the Edwards group layer: the affine addition law of
  RFC 8032 §5.1.4 on edwards25519 (Spec/Edwards.lean: `Nat` coordinates modulo p = 2^255 − 19,
  −x² + y² = 1 + d·x²·y²) IS a group law on the curve points.  PROVED here, for ALL curve points:

    * `edwards_closed`     P, Q on the curve  →  P + Q on the curve
    * `edwards_assoc`      P, Q, R on the curve  →  (P + Q) + R = P + (Q + R)
    * `edwards_group_law`  the structure `EdwardsGroupLaw` that the C13/C14/C15 theorems take as hypothesis `G`

  The only remaining hypothesis is `[Fact (Nat.Prime p)]` (primality of 2^255 − 19; an instance argument, so it
  composes with `Proofs/Prime25519.lean`).  Together with commutativity, neutral element, inverses and
  completeness (Proofs/EdwardsSpec.lean) the curve points form a commutative group and `Spec.Edwards.smul`
  (the RFC's double-and-add loop) is its scalar multiplication: `edwards_smul_closed`, `edwards_smul_add`,
  `edwards_smul_mul`.

  Proof (Proofs/EdwardsGroupLaw.lean, Proofs/EdwardsAssoc.lean): completeness gives that no denominator
  vanishes on curve points; with denominators cleared, closure and both coordinates of associativity are
  polynomial identities modulo the curve equations, closed by `linear_combination` with explicit cofactors
  (computed by tools/ed_assoc_cofactors.py, re-checked by Lean's `ring1`).
-/
import CxVerif.Proofs.EdwardsGroupLaw
namespace Cx.Props.C15
open Cx Cx.Spec Cx.Proofs.EdSpec
open Cx.Spec.Field25519 (p)
open Cx.Spec.Edwards (Point add smul zero B)

/-- the curve is closed under the affine addition law -/
theorem edwards_closed [Fact (Nat.Prime p)] (P Q : Point) (hP : OnCurve P) (hQ : OnCurve Q) :
    OnCurve (add P Q) :=
  Proofs.EdGroup.add_onCurve P Q hP hQ

/-- the affine addition law is associative on curve points -/
theorem edwards_assoc [Fact (Nat.Prime p)] (P Q R : Point) (hP : OnCurve P) (hQ : OnCurve Q) (hR : OnCurve R) :
    add (add P Q) R = add P (add Q R) :=
  Proofs.EdGroup.add_assoc' P Q R hP hQ hR

/-- the group-law hypothesis of the Ed25519 theorems (C13, C14, C15) holds -/
theorem edwards_group_law [Fact (Nat.Prime p)] : EdwardsGroupLaw := Proofs.EdGroup.edwardsGroupLaw

/-- scalar multiples of curve points are curve points -/
theorem edwards_smul_closed [Fact (Nat.Prime p)] (n : Nat) (P : Point) (hP : OnCurve P) : OnCurve (smul n P) :=
  smul_onCurve edwards_group_law n P hP

/-- `[m + n]P = [m]P + [n]P` for the RFC's double-and-add `smul` -/
theorem edwards_smul_add [Fact (Nat.Prime p)] (m n : Nat) (P : Point) (hP : OnCurve P) :
    smul (m + n) P = add (smul m P) (smul n P) := by
  let _ := curveGroup edwards_group_law
  have h : ∀ (k : Nat) (Q : CurvePoint), smul k Q.1 = (k • Q : CurvePoint).1 :=
    fun k Q => smul_eq_nsmul edwards_group_law k Q
  have e := congrArg Subtype.val (add_nsmul (show CurvePoint from ⟨P, hP⟩) m n)
  rw [val_add edwards_group_law, ← h, ← h, ← h] at e
  exact e

/-- `[m · n]P = [m]([n]P)` -/
theorem edwards_smul_mul [Fact (Nat.Prime p)] (m n : Nat) (P : Point) (hP : OnCurve P) :
    smul (m * n) P = smul m (smul n P) := by
  let _ := curveGroup edwards_group_law
  have h : ∀ (k : Nat) (Q : CurvePoint), smul k Q.1 = (k • Q : CurvePoint).1 :=
    fun k Q => smul_eq_nsmul edwards_group_law k Q
  have e := congrArg Subtype.val (mul_nsmul (show CurvePoint from ⟨P, hP⟩) n m)
  rw [← h, ← h, ← h, Nat.mul_comm] at e
  exact e

/-! ### non-vacuity: concrete curve points -/

/-- the neutral element is a curve point -/
example : OnCurve zero := zero_onCurve
set_option maxRecDepth 100000 in
/-- the RFC's base point is a curve point -/
example : OnCurve B := by unfold OnCurve; decide +kernel
set_option maxRecDepth 100000 in
/-- TEST (kernel-evaluated sample, not the theorem): associativity on `B, [2]B, [3]B` -/
example : add (add B (smul 2 B)) (smul 3 B) = add B (add (smul 2 B) (smul 3 B)) := by decide +kernel

end Cx.Props.C15
