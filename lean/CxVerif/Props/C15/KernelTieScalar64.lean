/-
  Props.C15.KernelTieScalar64 — the translator tie for the 64-bit scalar kernels (arithmetic modulo L).
  `Extracted/KernelsScalar64.lean` is regenerated from /repo/src/curve25519/scalar/scalar64.rs on every run by
  tools/kernel_translate.py.  The theorems say that the hand models of `Impl/Scalar64.lean` (about which
  Props/C15/Scalar64.lean proves Barrett reduction = mod L, the canonical decoder, add/mul/muladd) are exactly that
  code for ALL limb values: a dropped borrow, a skipped limb, a wrong mask or shift in the source breaks a proof
  obligation even when no sampled input reaches it (the rare-borrow bugs here have probability 2^-28 … 2^-44).
-/
import CxVerif.Extracted.KernelsScalar64
namespace Cx.Props.C15.KernelTieScalar
open Cx Cx.Impl.Scalar64 Cx.Extracted.KernelsScalar64

theorem lt_order_src_eq_model (v : Scalar) : lt_order_src v = lt_order v := by
  rfl
theorem reduce256_src_eq_model (r : Scalar) : reduce256_src r = reduce256 r := by
  rfl
theorem barrett_reduce256_src_eq_model (q1 r1 : Scalar) : barrett_reduce256_src q1 r1 = barrett_reduce256 q1 r1 := by
  rfl
theorem add_src_eq_model (x y : Scalar) : add_src x y = add x y := by
  rfl
theorem mul_src_eq_model (x y : Scalar) : mul_src x y = mul x y := by
  rfl

end Cx.Props.C15.KernelTieScalar
