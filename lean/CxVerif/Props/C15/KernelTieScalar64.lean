/-
  Props.C15.KernelTieScalar64 — the translator tie for the 64-bit scalar kernels (arithmetic modulo L).
  `Extracted/KernelsScalar64.lean` is regenerated from /repo/src/curve25519/scalar/scalar64.rs on every run by
  tools/kernel_translate.py.  The theorems say that the hand models of `Impl/Scalar64.lean` (about which
  Props/C15/Scalar64.lean proves Barrett reduction = mod L, the canonical decoder, add/mul/muladd) are exactly that
  code for ALL limb values: a dropped borrow, a skipped limb, a wrong mask or shift in the source breaks a proof
  obligation even when no sampled input reaches it (the rare-borrow bugs here have probability 2^-28 … 2^-44).
-/
import CxVerif.Extracted.KernelsScalar64
namespace Cx.Props.C15.KernelTieScalar
open Cx Cx.Impl.Scalar64 Cx.Extracted.KernelsScalar64

/-! the three leaf helpers every other kernel calls (`CALLS` of tools/kernels/scalar64.py binds the call sites to the hand
  models `lt`/`mul128`/`shr128`; these theorems tie those hand models to the helpers' own source text). The generated
  `mul128_src` carries the u128 overflow check of `a as u128 * b as u128`: it can never fire for u64 operands. -/
theorem lt_src_eq_model (a b : Nat) : lt_src a b = some (lt a b) := by
  rfl
theorem shr128_src_eq_model (value shift : Nat) : shr128_src value shift = some (shr128 value shift) := by
  rfl
theorem mul128_src_eq_model (a b : Nat) (ha : a < 2 ^ 64) (hb : b < 2 ^ 64) : mul128_src a b = some (mul128 a b) := by
  have h : a * b < 2 ^ 128 := by
    calc a * b < 2 ^ 64 * 2 ^ 64 := Nat.mul_lt_mul'' ha hb
      _ = 2 ^ 128 := by decide
  simp [mul128_src, mul128, ck128, h]
/-- the hand model of `lt` is the borrow bit, 1 iff a < b, for operands below 2^63 (the limbs are 56-bit; for full u64
  operands it is NOT: `lt_not_borrow_full_range`) -/
theorem lt_spec (a b : Nat) (ha : a < 2 ^ 63) (hb : b < 2 ^ 63) : lt a b = if a < b then 1 else 0 := by
  unfold lt shr64 wsub64
  rw [Nat.shiftRight_eq_div_pow]
  split <;> omega
theorem lt_not_borrow_full_range : lt (2 ^ 64 - 1) 0 = 1 := by decide
example : lt_src 3 5 = some 1 ∧ lt_src 5 3 = some 0 ∧ shr128_src (2 ^ 100 + 2 ^ 70) 8 = some (2 ^ 62) ∧
    mul128_src (2 ^ 64 - 1) (2 ^ 64 - 1) = some ((2 ^ 64 - 1) * (2 ^ 64 - 1)) := by decide

theorem lt_order_src_eq_model (v : Scalar) : lt_order_src v = lt_order v := by
  rfl
theorem reduce256_src_eq_model (r : Scalar) : reduce256_src r = reduce256 r := by
  rfl
theorem barrett_reduce256_src_eq_model (q1 r1 : Scalar) : barrett_reduce256_src q1 r1 = barrett_reduce256 q1 r1 := by
  rfl
theorem add_src_eq_model (x y : Scalar) : add_src x y = add x y := by
  rfl
theorem mul_src_eq_model (x y : Scalar) : mul_src x y = mul x y := by
  rfl

end Cx.Props.C15.KernelTieScalar
