/-
  Props.C15.Final — the group-level statements of C15 with NO remaining hypothesis: primality of 2^255 − 19
  (Proofs/Prime25519.lean) and the Edwards group law (Proofs/EdwardsGroupLaw.lean) are theorems and are plugged into the
  `_partial` theorems of Props/C15/Ge.lean.
-/
import CxVerif.Props.C15.Prime
import CxVerif.Props.C15.GroupLaw
namespace Cx.Props.C15
open Cx Cx.Spec Cx.Impl.Ge Cx.Proofs.EdSpec Cx.Proofs.GeRefine
open Cx.Spec.Edwards (B smul Point)
open Cx.Proofs.EdGroup (edwardsGroupLaw)

/-- **the Edwards group law** (closure + associativity of the affine addition on the points of edwards25519):
    formerly the explicit hypothesis `G : EdwardsGroupLaw` of C13 / C14 / C15, now a theorem without hypotheses -/
theorem edwards_group_law_unconditional : EdwardsGroupLaw := edwardsGroupLaw

/-- **C15 (fixed-base scalar multiplication)**: for every scalar inside the limb invariant (every `Scalar::from_bytes`
    result) with value `a < 2^255`, `scalarmult_base` returns (no panic) a representation of `[a]B` and its `to_bytes`
    is `encode([a]B)` -/
theorem scalarmult_base_is_smul_B (s : Impl.Scalar64.Scalar) (hs : Proofs.Scalar64.Inv s) (ha : s.val < 2 ^ 255) :
    ∃ h, Ge.scalarmult_base s = some h ∧ GeOk h (smul s.val B) ∧
      h.to_bytes = some (Edwards.encode (smul s.val B)) :=
  scalarmult_base_is_smul_B_partial edwardsGroupLaw s hs ha

/-- `Spec.Edwards.smul` (double-and-add) IS the scalar multiplication of the commutative group of curve points -/
theorem spec_smul_is_group_smul (n : Nat) (P : CurvePoint) :
    smul n P.1 = (letI := curveGroup edwardsGroupLaw; (n • P : CurvePoint)).1 :=
  spec_smul_is_group_smul_partial edwardsGroupLaw n P

/-- scalar multiples of curve points are curve points; `smul` is additive and multiplicative in the scalar -/
theorem smul_closed (n : Nat) (P : Point) (hP : OnCurve P) : OnCurve (smul n P) := edwards_smul_closed n P hP

end Cx.Props.C15
