/-
  Props.C15.Ge — C15, group part: the Edwards group layer of /repo/src/curve25519/ge.rs (model Impl/Ge.lean over the
  limb model Impl/Fe64.lean) against Spec/Edwards.lean (affine twisted Edwards law over Nat mod p).

  Hypotheses used, always explicit:
    `[Fact (Nat.Prime p)]`      primality of 2^255 − 19 (needed as soon as something is divided; the representation
                                predicates live in the field ZMod p, so the hypothesis appears as an instance argument)
    `G  : EdwardsGroupLaw`      closure + associativity of the affine addition on curve points (true, not proved
                                here; commutativity, neutral element, inverses, completeness ARE proved)
  Theorems that need `G` carry the suffix `_partial`.  (`NibblesOf s a` — `Scalar::nibbles` of `s` are the radix-16
  digits of `a < 2^255` — is a theorem: Proofs/Ed25519Inst.lean, from unit scalar64's `nibbles_eq_radix16`.)

  Representation predicates (Proofs/GeRefine.lean): `GeOk g P` = all limbs of `g` are `Tight` (< 2^51 + 2^17) and
  `(X:Y:Z:T)` read modulo p represents the affine point `P` (X = xZ, Y = yZ, T = xyZ, Z ≠ 0); likewise
  `P1P1Ok`, `PartialOk`, `CachedOk`, `PrecompOk`.
-/
import CxVerif.Proofs.GeComb
import CxVerif.Proofs.GeBytes
import CxVerif.Proofs.Ed25519Inst
namespace Cx.Props.C15
set_option maxRecDepth 10000
open Cx Cx.Spec Cx.Impl.Ge Cx.Proofs.EdSpec Cx.Proofs.GeRefine
open Cx.Spec.Field25519 (p)
open Cx.Spec.Edwards (B smul)

/-! ### (a) TABLE THEOREM — all 256 + 8 entries, kernel-decided on the tables re-extracted from fe64/precomp.rs -/

/-- every `GE_BASE[i][j]` (i < 32, j < 8) exists, has limbs < 2^51 and is `(y+x, y−x, 2dxy)` of `[(j+1)·256^i]B` -/
theorem GE_BASE_is_the_multiples_of_B (i j : Nat) (hi : i < 32) (hj : j < 8) :
    ∃ row e, GE_BASE[i]? = some row ∧ row[j]? = some e ∧ Proofs.Ge.precompBnd e = true ∧
      Proofs.Ge.precompVals e = Edwards.precomp (smul ((j + 1) * 256 ^ i) B) :=
  Proofs.Ge.GE_BASE_entry i j hi hj

/-- every `BI[k]` (k < 8) is `(y+x, y−x, 2dxy)` of `[2k+1]B` -/
theorem BI_is_the_odd_multiples_of_B (k : Nat) (hk : k < 8) :
    ∃ e, BI[k]? = some e ∧ Proofs.Ge.precompBnd e = true ∧
      Proofs.Ge.precompVals e = Edwards.precomp (smul (2 * k + 1) B) :=
  Proofs.Ge.BI_entry k hk

/-- the base point of the Spec is the RFC's: on the curve, even x recovered from y = 4/5, encoding 5866…66 -/
theorem base_point_is_rfc8032 : Edwards.onCurve B = true ∧ Edwards.recoverX Edwards.By false = some Edwards.Bx ∧
    Edwards.Bx % 2 = 0 ∧
    Edwards.encode B = natToLE 32 0x6666666666666666666666666666666666666666666666666666666666666658 :=
  ⟨Proofs.Ge.B_spec.1, Proofs.Ge.B_spec.2.1, Proofs.Ge.B_spec.2.2.1, Proofs.Ge.B_spec.2.2.2.2⟩

/-! ### (b) the formulas are the affine law (no overflow, limbs stay Tight) — needs only primality -/

section formulas
variable [hp : Fact (Nat.Prime p)]

theorem add_cached_is_affine_add (g : Ge) (c : GeCached) (P Q : Edwards.Point) (hg : GeOk g P) (hc : CachedOk c Q)
    (hP : OnCurve P) (hQ : OnCurve Q) : ∃ r, g.add_cached c = some r ∧ P1P1Ok r (Edwards.add P Q) :=
  add_cached_ok g c P Q hg hc hP hQ

theorem sub_cached_is_affine_sub (g : Ge) (c : GeCached) (P Q : Edwards.Point) (hg : GeOk g P) (hc : CachedOk c Q)
    (hP : OnCurve P) (hQ : OnCurve Q) : ∃ r, g.sub_cached c = some r ∧ P1P1Ok r (Edwards.sub P Q) :=
  sub_cached_ok g c P Q hg hc hP hQ

theorem add_precomp_is_affine_add (g : Ge) (c : GePrecomp) (P Q : Edwards.Point) (hg : GeOk g P)
    (hc : PrecompOk c Q) (hP : OnCurve P) (hQ : OnCurve Q) :
    ∃ r, g.add_precomp c = some r ∧ P1P1Ok r (Edwards.add P Q) :=
  add_precomp_ok g c P Q hg hc hP hQ

theorem sub_precomp_is_affine_sub (g : Ge) (c : GePrecomp) (P Q : Edwards.Point) (hg : GeOk g P)
    (hc : PrecompOk c Q) (hP : OnCurve P) (hQ : OnCurve Q) :
    ∃ r, g.sub_precomp c = some r ∧ P1P1Ok r (Edwards.sub P Q) :=
  sub_precomp_ok g c P Q hg hc hP hQ

theorem double_is_affine_double (g : Ge) (P : Edwards.Point) (hg : GeOk g P) (hP : OnCurve P) :
    ∃ r, g.double_p1p1 = some r ∧ P1P1Ok r (Edwards.double P) :=
  ge_double_p1p1_ok g P hg hP

theorem partial_double_is_affine_double (g : GePartial) (P : Edwards.Point) (hg : PartialOk g P) (hP : OnCurve P) :
    ∃ r, g.double_p1p1 = some r ∧ P1P1Ok r (Edwards.double P) :=
  partial_double_p1p1_ok g P hg hP

theorem to_full_keeps_the_point (r : GeP1P1) (P : Edwards.Point) (h : P1P1Ok r P) :
    ∃ g, r.to_full = some g ∧ GeOk g P := to_full_ok r P h

theorem to_partial_keeps_the_point (r : GeP1P1) (P : Edwards.Point) (h : P1P1Ok r P) :
    ∃ g, r.to_partial = some g ∧ PartialOk g P := to_partial_ok r P h

theorem to_cached_keeps_the_point (g : Ge) (P : Edwards.Point) (h : GeOk g P) :
    ∃ c, g.to_cached = some c ∧ CachedOk c P := to_cached_ok g P h

theorem negate_is_affine_neg (g : Ge) (P : Edwards.Point) (h : GeOk g P) :
    ∃ r, g.negate = some r ∧ GeOk r (Edwards.neg P) := negate_ok g P h

/-- the addition law is complete on the curve: no exceptional pairs (d is a non-square, −1 a square) -/
theorem addition_law_is_complete (P Q : Edwards.Point) (hP : OnCurve P) (hQ : OnCurve Q) :
    Field25519.add 1 (Field25519.mul Edwards.d (Field25519.mul (Field25519.mul P.x Q.x) (Field25519.mul P.y Q.y))) ≠ 0 ∧
    Field25519.sub 1 (Field25519.mul Edwards.d (Field25519.mul (Field25519.mul P.x Q.x) (Field25519.mul P.y Q.y))) ≠ 0 := by
  obtain ⟨h1, h2⟩ := denoms P Q hP hQ
  constructor
  · intro h
    apply h1
    have := congrArg (fun n : Nat => (n : Proofs.EdField.Fp)) h
    simp only [Proofs.EdField.cast_add, Proofs.EdField.cast_mul, Nat.cast_one, Nat.cast_zero] at this
    unfold dF; linear_combination this
  · intro h
    apply h2
    have := congrArg (fun n : Nat => (n : Proofs.EdField.Fp)) h
    simp only [Proofs.EdField.cast_sub, Proofs.EdField.cast_mul, Nat.cast_one, Nat.cast_zero] at this
    unfold dF; linear_combination this

/-- proved parts of the group law: commutativity, neutral element, inverse -/
theorem add_comm_zero_neg (P Q : Edwards.Point) (hP : OnCurve P) :
    Edwards.add P Q = Edwards.add Q P ∧ Edwards.add P Edwards.zero = P ∧ Edwards.add P (Edwards.neg P) = Edwards.zero :=
  ⟨add_comm' P Q, add_zero' P hP, add_neg' P hP⟩

/-- `to_bytes` is the RFC 8032 §5.1.2 encoding of the represented point -/
theorem to_bytes_is_encode (g : Ge) (P : Edwards.Point) (hg : GeOk g P) (hx : P.x < p) (hy : P.y < p) :
    g.to_bytes = some (Edwards.encode P) := Proofs.GeBytes.ge_to_bytes_ok g P hg hx hy

theorem partial_to_bytes_is_encode (g : GePartial) (P : Edwards.Point) (hg : PartialOk g P) (hx : P.x < p)
    (hy : P.y < p) : g.to_bytes = some (Edwards.encode P) :=
  Proofs.GeBytes.partial_to_bytes_ok g P hg hx hy

end formulas

/-! ### (c) recodings -/

/-- signed radix-16 recoding inside `scalarmult_base`: for 64 nibbles in [0,15] with top nibble ≤ 7 (a < 2^255)
    no `i8` overflow, 64 digits in [−8, 8], same value Σ e_i·16^i -/
theorem recode_is_signed_radix16 (es : List Int) (hlen : es.length = 64) (hes : ∀ e ∈ es, 0 ≤ e ∧ e ≤ 15)
    (htop : ∀ t, es[63]? = some t → t ≤ 7) :
    ∃ r, recode es = some r ∧ r.length = 64 ∧ (∀ e ∈ r, -8 ≤ e ∧ e ≤ 8) ∧
      ScalarL.evalDigits 16 r = ScalarL.evalDigits 16 es :=
  Proofs.GeRecode.recode_spec es hlen hes htop

/-- `GePrecomp::select(pos, b)` for −8 ≤ b ≤ 8 is the identity (b = 0), the table entry for |b| (b > 0), or its
    negation (b < 0) — through the masked-set theorems of C18 -/
theorem select_is_signed_table_entry [hp : Fact (Nat.Prime p)] (pos : Nat) (b : Int) (hb : -8 ≤ b ∧ b ≤ 8)
    (e0 e1 e2 e3 e4 e5 e6 e7 : GePrecomp) (hrow : GE_BASE[pos]? = some [e0, e1, e2, e3, e4, e5, e6, e7])
    (Q : Nat → Edwards.Point)
    (h0 : PrecompOk e0 (Q 0)) (h1 : PrecompOk e1 (Q 1)) (h2 : PrecompOk e2 (Q 2)) (h3 : PrecompOk e3 (Q 3))
    (h4 : PrecompOk e4 (Q 4)) (h5 : PrecompOk e5 (Q 5)) (h6 : PrecompOk e6 (Q 6)) (h7 : PrecompOk e7 (Q 7)) :
    ∃ t, GePrecomp.select pos b = some t ∧
      PrecompOk t (if b < 0 then Edwards.neg (Proofs.GeSelect.pointOf Q b.natAbs)
        else Proofs.GeSelect.pointOf Q b.natAbs) :=
  Proofs.GeSelect.select_ok pos b hb e0 e1 e2 e3 e4 e5 e6 e7 hrow Q h0 h1 h2 h3 h4 h5 h6 h7

/-! ### (d) fixed-base scalar multiplication -/

/-- FULL STATEMENT (not proved): for every scalar `s` with value `a < 2^255`,
    `scalarmult_base(s).to_bytes() = encode([a]B)` — unconditionally.
    PROVED: the same under the hypotheses `Nat.Prime p` and `EdwardsGroupLaw` (closure + associativity of the affine
    law), for every scalar inside unit scalar64's limb invariant `Inv` (every `Scalar::from_bytes` result) with value
    below 2^255.  No panic, output Tight. -/
theorem scalarmult_base_is_smul_B_partial [hp : Fact (Nat.Prime p)] (G : EdwardsGroupLaw)
    (s : Impl.Scalar64.Scalar) (hs : Proofs.Scalar64.Inv s) (ha : s.val < 2 ^ 255) :
    ∃ h, Ge.scalarmult_base s = some h ∧ GeOk h (smul s.val B) ∧
      h.to_bytes = some (Edwards.encode (smul s.val B)) := by
  have : Proofs.GeComb.GroupLawFact := ⟨G⟩
  obtain ⟨h, e, ok⟩ := Proofs.GeComb.scalarmult_base_ok s s.val (Proofs.Ed25519Inst.nibblesOf s hs ha)
  have hc : OnCurve (smul s.val B) := smul_onCurve G s.val B Proofs.Ge.B_spec.1
  obtain ⟨hx, hy, _⟩ := (onCurve_iff _).1 hc
  exact ⟨h, e, ok, Proofs.GeBytes.ge_to_bytes_ok h _ ok hx hy⟩

/-- under the group-law hypothesis `Spec.Edwards.smul` (double-and-add) is the scalar multiplication of the group
    of curve points; in particular it is additive and multiplicative in the scalar -/
theorem spec_smul_is_group_smul_partial [hp : Fact (Nat.Prime p)] (G : EdwardsGroupLaw) (n : Nat) (P : CurvePoint) :
    smul n P.1 = (letI := curveGroup G; (n • P : CurvePoint)).1 :=
  smul_eq_nsmul G n P

/-! ### non-vacuity of the hypotheses -/

/-- the representation predicate is inhabited: `Ge::ZERO` represents the neutral element -/
example [Fact (Nat.Prime p)] : GeOk Ge.ZERO Edwards.zero := ZERO_ok
/-- the base point is a curve point -/
example : OnCurve B := Proofs.Ge.B_spec.1
set_option maxRecDepth 100000 in
/-- a concrete scalar satisfying `NibblesOf`: limbs of 2^252 + 0x1234567 -/
example : Proofs.GeComb.NibblesOf ⟨0x1234567, 0, 0, 0, 2 ^ 28⟩ (2 ^ 252 + 0x1234567) := by
  unfold Proofs.GeComb.NibblesOf; decide +kernel
/-- a recoding input satisfying the hypotheses of `recode_is_signed_radix16` (all nibbles 15, top nibble 7) -/
example : (List.replicate 63 (15 : Int) ++ [7]).length = 64 ∧ (∀ e ∈ List.replicate 63 (15 : Int) ++ [7], 0 ≤ e ∧ e ≤ 15) := by
  decide

end Cx.Props.C15
