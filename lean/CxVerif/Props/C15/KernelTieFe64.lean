/-
  Props.C15.KernelTieFe64 — the translator tie for the 64-bit field kernels.
  `Extracted/KernelsFe64.lean` is regenerated from /repo/src/curve25519/fe/fe64/mod.rs on every run by
  tools/kernel_translate.py (statement-by-statement translation, checked `+ - *` as binds in `Option`).
  The theorems say that the hand-written models of `Impl/Fe64.lean` — about which the Fe64 refinement library
  (Props/C15/Fe64.lean) and everything built on it (X25519, Ed25519) is proved — are exactly that code, for ALL
  limb values: a changed carry, mask, shift, bias constant or product index in the source breaks a proof
  obligation even when no sampled input reaches it.
-/
import CxVerif.Extracted.KernelsFe64
namespace Cx.Props.C15.KernelTie
open Cx Cx.Impl.Fe64 Cx.Extracted.KernelsFe64

theorem add_src_eq_model (f g : Fe) : add_src f g = add f g := by
  rfl
theorem sub_src_eq_model (f g : Fe) : sub_src f g = sub f g := by
  rfl
theorem neg_src_eq_model (g : Fe) : neg_src g = neg g := by
  rfl
theorem mul_src_eq_model (f g : Fe) : mul_src f g = mul f g := by
  rfl
theorem mul_small_src_eq_model (f : Fe) (S0 : Nat) : mul_small_src f S0 = mul_small f S0 := by
  rfl
theorem square_src_eq_model (f : Fe) : square_src f = square f := by
  rfl
/-- one iteration of the loop of `square_repeatdly` (the source repeats the statements of `square`) -/
theorem square_repeatdly_body_src_eq_model (f : Fe) : square_repeatdly_body_src f = square f := by
  rfl
theorem carry_full_src_eq_model (t : Fe) : carry_full_src t = carry_full t := by
  rfl
theorem carry_final_src_eq_model (t : Fe) : carry_final_src t = carry_final t := by
  rfl
theorem to_packed_src_eq_model (f : Fe) : to_packed_src f = to_packed f := by
  rfl

end Cx.Props.C15.KernelTie
