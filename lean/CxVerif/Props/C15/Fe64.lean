/-
  Props.C15.Fe64 — field part of C15 for the 64-bit backend: through the public API of
  `cryptoxide::curve25519::Fe`, every operator computes the corresponding operation modulo 2^255 − 19,
  with canonical little-endian output for every input encoding, for ALL field-expression programs.
  (On this backend every public operator carries its result, so NO operand discipline is needed: the
  invariant `Pub` — limbs < 2^52 + 2^18 — is closed under every composition; the property's discipline
  "at most one unreduced add/sub feeding a multiply" is the fe32 requirement.)
  Also: no u64/u128 overflow anywhere (every `run` below answers `some`), C20 overflow part.
  Only property theorems (+ the tiny program syntax); helpers in Proofs/Fe64*.lean.
-/
import CxVerif.Proofs.Fe64Chain
import CxVerif.Proofs.Fe64Pred
import CxVerif.Proofs.Fe64FromBytes
import CxVerif.Proofs.Field25519Prime
namespace Cx.Props.C15
open Cx Cx.Spec Cx.Impl.Fe64 Cx.Proofs.Fe64
open Cx.Spec.Field25519 (p)

/-! ## constants re-extracted from the source (table obligations) -/

/-- the bias of Sub/Neg is exactly `4p`, limb-wise `(2^53 − 76, 2^53 − 4, …)`; `MASK = 2^51 − 1` -/
theorem extracted_bias : val ⟨FOUR_P0, FOUR_P1234, FOUR_P1234, FOUR_P1234, FOUR_P1234⟩ = 4 * p ∧
    FOUR_P0 = 2^53 - 76 ∧ FOUR_P1234 = 2^53 - 4 ∧ MASK = 2^51 - 1 := by decide
/-- `Fe::ZERO`, `Fe::ONE` -/
theorem extracted_ZERO_ONE : eval Fe.ZERO = 0 ∧ eval Fe.ONE = 1 ∧ Bnd (2^51) Fe.ZERO ∧ Bnd (2^51) Fe.ONE := by
  decide
/-- `Fe::D = −121665/121666`, `Fe::D2 = 2d`, `Fe::SQRTM1 = 2^((p−1)/4)` (Spec formulas, kernel-evaluated),
    limbs carried -/
theorem extracted_D : Bnd (2^51) Fe.D ∧ eval Fe.D = Field25519.edwardsD := D_spec
theorem extracted_D2 : Bnd (2^51) Fe.D2 ∧ eval Fe.D2 = Field25519.edwardsD2 := D2_spec
theorem extracted_SQRTM1 : Bnd (2^51) Fe.SQRTM1 ∧ eval Fe.SQRTM1 = Field25519.sqrtM1 := SQRTM1_spec
/-- `SQRTM1² = −1` and `d·121666 = −121665` in GF(p): the formulas define what they should -/
theorem sqrtM1_squared : Field25519.sq Field25519.sqrtM1 = p - 1 := by decide +kernel
theorem edwardsD_defining : Field25519.mul Field25519.edwardsD 121666 = Field25519.neg 121665 := by
  decide +kernel

/-! ## single operators: no overflow, output invariant, value mod p (all Loose / SubOk inputs) -/

theorem add_correct (f g : Fe) (hf : Loose f) (hg : Loose g) :
    ∃ h, add f g = some h ∧ Tight h ∧ eval h = Field25519.add (eval f) (eval g) := add_spec f g hf hg
theorem sub_correct (f g : Fe) (hf : Loose f) (hg : SubOk g) :
    ∃ h, sub f g = some h ∧ Tight h ∧ eval h = Field25519.sub (eval f) (eval g) := sub_spec f g hf hg
theorem neg_correct (g : Fe) (hg : SubOk g) :
    ∃ h, neg g = some h ∧ Tight h ∧ eval h = Field25519.neg (eval g) := neg_spec g hg
theorem mul_correct (f g : Fe) (hf : Loose f) (hg : Loose g) :
    ∃ h, mul f g = some h ∧ Tight h ∧ eval h = Field25519.mul (eval f) (eval g) := mul_spec f g hf hg
theorem square_correct (f : Fe) (hf : Loose f) :
    ∃ h, square f = some h ∧ Tight h ∧ eval h = Field25519.sq (eval f) := square_spec f hf
theorem square_repeatdly_correct (f : Fe) (n : Nat) (hf : Loose f) :
    ∃ h, square_repeatdly f n = some h ∧ (0 < n → Tight h) ∧ (n = 0 → h = f) ∧
      eval h = Field25519.pow (eval f) (2^n) := by
  obtain ⟨h, e, t, z, v⟩ := square_repeatdly_spec n f hf
  exact ⟨h, e, t, z, by rw [v, Cx.Proofs.Field25519.pow_eq]⟩
theorem square_and_double_correct (f : Fe) (hf : Loose f) :
    ∃ h, square_and_double f = some h ∧ Pub h ∧ eval h = Field25519.mul 2 (Field25519.sq (eval f)) :=
  square_and_double_spec f hf
theorem mul_small_correct (f : Fe) (s : Nat) (hf : Loose f) (hs : s < 2^32) :
    ∃ h, mul_small f s = some h ∧ Tight h ∧ eval h = Field25519.mul (eval f) s := mul_small_spec f s hf hs
/-- `invert z = z^(p−2)` (exponent identity of the addition chain; `0 ↦ 0`) -/
theorem invert_correct (z : Fe) (hz : Loose z) :
    ∃ h, invert z = some h ∧ Tight h ∧ eval h = Field25519.inv (eval z) := invert_spec z hz
/-- `invert` really inverts — this needs primality of `p`, an explicit hypothesis (not proved here) -/
theorem invert_is_inverse_of_prime (hp : Nat.Prime p) (z : Fe) (hz : Loose z) (hnz : eval z ≠ 0) :
    ∃ h, invert z = some h ∧ Tight h ∧ Field25519.mul (eval z) (eval h) = 1 := by
  obtain ⟨h, e, t, v⟩ := invert_spec z hz
  refine ⟨h, e, t, ?_⟩
  rw [v]
  exact Cx.Proofs.Field25519.mul_inv_of_prime hp (eval z) (by rw [eval_mod]; exact hnz)
/-- `pow25523 z = z^((p−5)/8)` -/
theorem pow25523_correct (z : Fe) (hz : Loose z) :
    ∃ h, pow25523 z = some h ∧ Tight h ∧ eval h = Field25519.pow25523 (eval z) := pow25523_spec z hz
/-- `(p−5)/8 = 2^252 − 3`, `p − 2 = 2^255 − 21`: the exponents the chains realise -/
theorem chain_exponents : (p - 5) / 8 = 2^252 - 3 ∧ p - 2 = 2^255 - 21 := by decide

/-- `from_bytes`: little-endian value with bit 255 ignored, carried limbs; accepts every 32-byte string -/
theorem from_bytes_correct (b : Bytes) (h : b.length = 32) :
    Bnd (2^51) (from_bytes b h) ∧ val (from_bytes b h) = leNat b % 2^255 ∧
      eval (from_bytes b h) = Field25519.decode b :=
  ⟨(from_bytes_spec b h).1, (from_bytes_spec b h).2, from_bytes_eval b h⟩

/-- `to_bytes` is the canonical encoding (32 bytes, value `< p`, top bit 0) for EVERY Loose input -/
theorem to_bytes_canonical (f : Fe) (hf : Loose f) :
    ∃ b, to_bytes f = some b ∧ b = Field25519.encode (eval f) ∧ b.length = 32 ∧ leNat b = eval f := by
  refine ⟨_, to_bytes_spec f hf, rfl, natToLE_length 32 _, ?_⟩
  unfold Field25519.encode
  rw [leNat_natToLE, eval_mod, Nat.mod_eq_of_lt (Nat.lt_trans (eval_lt f) p_lt_256_32)]

theorem is_nonzero_correct (f : Fe) (hf : Loose f) : is_nonzero f = some (decide (eval f ≠ 0)) := by
  rw [is_nonzero_spec f hf]; unfold Field25519.isNonzero; rw [eval_mod]
  by_cases h : eval f = 0 <;> simp [h]
theorem is_negative_correct (f : Fe) (hf : Loose f) : is_negative f = some (decide (eval f % 2 = 1)) := by
  rw [is_negative_spec f hf]; unfold Field25519.isNegative; rw [eval_mod]
  by_cases h : eval f % 2 = 1 <;> simp [h]
/-- `==` (constant-time comparison of the canonical encodings) is equality in GF(p) -/
theorem eq_correct (f g : Fe) (hf : Loose f) (hg : Loose g) : eq f g = some (decide (eval f = eval g)) :=
  eq_spec f g hf hg

/-- masked swap / set are the conditional swap / assignment (on limb vectors that are machine words) -/
theorem maybe_swap_with_correct (f g : Fe) (hf : Bnd (2^64) f) (hg : Bnd (2^64) g) (c : Bool) :
    maybe_swap_with f g (Cx.Props.C18.Choice.ofBool c) = if c then (g, f) else (f, g) :=
  maybe_swap_with_spec f g hf hg c
theorem maybe_set_correct (f g : Fe) (hf : Bnd (2^64) f) (hg : Bnd (2^64) g) (c : Bool) :
    maybe_set f g (Cx.Props.C18.Choice.ofBool c) = if c then g else f := maybe_set_spec f g hf hg c

/-! ## all field-expression programs over the public API -/

/-- programs built from the public operators of `Fe` -/
inductive Expr where
  | lit (b : Bytes) (h : b.length = 32)
  | zero | one | sqrtm1 | d | d2
  | add (a b : Expr) | sub (a b : Expr) | mul (a b : Expr) | neg (a : Expr)
  | square (a : Expr) | squareRep (a : Expr) (n : Nat) | squareDouble (a : Expr)
  | invert (a : Expr) | pow25523 (a : Expr)

/-- the program run on the code model (`none` = a panic somewhere) -/
def Expr.run : Expr → Option Fe
  | .lit b h => some (from_bytes b h)
  | .zero => some Fe.ZERO | .one => some Fe.ONE | .sqrtm1 => some Fe.SQRTM1 | .d => some Fe.D | .d2 => some Fe.D2
  | .add a b => a.run.bind fun x => b.run.bind fun y => Impl.Fe64.add x y
  | .sub a b => a.run.bind fun x => b.run.bind fun y => Impl.Fe64.sub x y
  | .mul a b => a.run.bind fun x => b.run.bind fun y => Impl.Fe64.mul x y
  | .neg a => a.run.bind Impl.Fe64.neg
  | .square a => a.run.bind Impl.Fe64.square
  | .squareRep a n => a.run.bind fun x => Impl.Fe64.square_repeatdly x n
  | .squareDouble a => a.run.bind Impl.Fe64.square_and_double
  | .invert a => a.run.bind Impl.Fe64.invert
  | .pow25523 a => a.run.bind Impl.Fe64.pow25523

/-- the program's value in GF(2^255 − 19) -/
def Expr.den : Expr → Nat
  | .lit b _ => Field25519.decode b
  | .zero => 0 | .one => 1 | .sqrtm1 => Field25519.sqrtM1 | .d => Field25519.edwardsD | .d2 => Field25519.edwardsD2
  | .add a b => Field25519.add a.den b.den
  | .sub a b => Field25519.sub a.den b.den
  | .mul a b => Field25519.mul a.den b.den
  | .neg a => Field25519.neg a.den
  | .square a => Field25519.sq a.den
  | .squareRep a n => Field25519.pow a.den (2^n)
  | .squareDouble a => Field25519.mul 2 (Field25519.sq a.den)
  | .invert a => Field25519.inv a.den
  | .pow25523 a => Field25519.pow25523 a.den

/-- **Every program** over the public operators runs without overflow, keeps the limb invariant `Pub`
    and computes its value in GF(p). -/
theorem program_correct (e : Expr) : ∃ f, e.run = some f ∧ Pub f ∧ eval f = e.den := by
  induction e with
  | lit b h => exact ⟨_, rfl, (bnd51_tight (from_bytes_spec b h).1).pub, from_bytes_eval b h⟩
  | zero => exact ⟨_, rfl, (bnd51_tight ZERO_spec.1).pub, ZERO_spec.2⟩
  | one => exact ⟨_, rfl, (bnd51_tight ONE_spec.1).pub, ONE_spec.2⟩
  | sqrtm1 => exact ⟨_, rfl, (bnd51_tight SQRTM1_spec.1).pub, SQRTM1_spec.2⟩
  | d => exact ⟨_, rfl, (bnd51_tight D_spec.1).pub, D_spec.2⟩
  | d2 => exact ⟨_, rfl, (bnd51_tight D2_spec.1).pub, D2_spec.2⟩
  | add a b iha ihb =>
    obtain ⟨x, hx, px, vx⟩ := iha; obtain ⟨y, hy, py, vy⟩ := ihb
    obtain ⟨h, e, t, v⟩ := add_spec x y px.loose py.loose
    exact ⟨h, by rw [Expr.run, hx, Option.bind_some, hy, Option.bind_some, e], t.pub, by rw [v, vx, vy]; rfl⟩
  | sub a b iha ihb =>
    obtain ⟨x, hx, px, vx⟩ := iha; obtain ⟨y, hy, py, vy⟩ := ihb
    obtain ⟨h, e, t, v⟩ := sub_spec x y px.loose py.subOk
    exact ⟨h, by rw [Expr.run, hx, Option.bind_some, hy, Option.bind_some, e], t.pub, by rw [v, vx, vy]; rfl⟩
  | mul a b iha ihb =>
    obtain ⟨x, hx, px, vx⟩ := iha; obtain ⟨y, hy, py, vy⟩ := ihb
    obtain ⟨h, e, t, v⟩ := mul_spec x y px.loose py.loose
    exact ⟨h, by rw [Expr.run, hx, Option.bind_some, hy, Option.bind_some, e], t.pub, by rw [v, vx, vy]; rfl⟩
  | neg a iha =>
    obtain ⟨x, hx, px, vx⟩ := iha
    obtain ⟨h, e, t, v⟩ := neg_spec x px.subOk
    exact ⟨h, by rw [Expr.run, hx, Option.bind_some, e], t.pub, by rw [v, vx]; rfl⟩
  | square a iha =>
    obtain ⟨x, hx, px, vx⟩ := iha
    obtain ⟨h, e, t, v⟩ := square_spec x px.loose
    exact ⟨h, by rw [Expr.run, hx, Option.bind_some, e], t.pub, by rw [v, vx]; rfl⟩
  | squareRep a n iha =>
    obtain ⟨x, hx, px, vx⟩ := iha
    obtain ⟨h, e, t, z, v⟩ := square_repeatdly_spec n x px.loose
    refine ⟨h, by rw [Expr.run, hx, Option.bind_some, e], ?_, ?_⟩
    · by_cases hn : n = 0
      · rw [z hn]; exact px
      · exact (t (by omega)).pub
    · rw [v, vx]; simp only [Expr.den]; rw [Cx.Proofs.Field25519.pow_eq]
  | squareDouble a iha =>
    obtain ⟨x, hx, px, vx⟩ := iha
    obtain ⟨h, e, t, v⟩ := square_and_double_spec x px.loose
    exact ⟨h, by rw [Expr.run, hx, Option.bind_some, e], t, by rw [v, vx]; rfl⟩
  | invert a iha =>
    obtain ⟨x, hx, px, vx⟩ := iha
    obtain ⟨h, e, t, v⟩ := invert_spec x px.loose
    exact ⟨h, by rw [Expr.run, hx, Option.bind_some, e], t.pub, by rw [v, vx]; rfl⟩
  | pow25523 a iha =>
    obtain ⟨x, hx, px, vx⟩ := iha
    obtain ⟨h, e, t, v⟩ := pow25523_spec x px.loose
    exact ⟨h, by rw [Expr.run, hx, Option.bind_some, e], t.pub, by rw [v, vx]; rfl⟩

/-- what a user observes of a program: `to_bytes`, `is_nonzero`, `is_negative`, and `==` of two programs
    — the canonical encoding / predicates of the program's value mod p, never a panic -/
theorem program_observations (e : Expr) :
    ∃ f, e.run = some f ∧ to_bytes f = some (Field25519.encode e.den) ∧
      is_nonzero f = some (Field25519.isNonzero e.den) ∧ is_negative f = some (Field25519.isNegative e.den) := by
  obtain ⟨f, hf, pf, vf⟩ := program_correct e
  exact ⟨f, hf, by rw [to_bytes_spec f pf.loose, vf], by rw [is_nonzero_spec f pf.loose, vf],
    by rw [is_negative_spec f pf.loose, vf]⟩

theorem program_eq (e1 e2 : Expr) :
    ∃ f g, e1.run = some f ∧ e2.run = some g ∧ eq f g = some (decide (e1.den = e2.den)) := by
  obtain ⟨f, hf, pf, vf⟩ := program_correct e1
  obtain ⟨g, hg, pg, vg⟩ := program_correct e2
  exact ⟨f, g, hf, hg, by rw [eq_spec f g pf.loose pg.loose, vf, vg]⟩

/-- the denotation is a reduced residue, so `e1.den = e2.den` is equality in GF(p) -/
theorem den_lt (e : Expr) : e.den < p := by
  obtain ⟨f, _, _, vf⟩ := program_correct e
  rw [← vf]; exact eval_lt f

/-! ## non-vacuity: concrete inputs meet the hypotheses -/

/-- `eval z ≠ 0` of `invert_is_inverse_of_prime` is met e.g. by `Fe::D` -/
example : Loose Fe.D ∧ eval Fe.D ≠ 0 := by decide

example : Loose ⟨2^54 - 1, 2^54 - 1, 2^54 - 1, 2^54 - 1, 2^54 - 1⟩ := by decide
example : SubOk ⟨2^53 - 76, 2^53 - 76, 2^53 - 76, 2^53 - 76, 2^53 - 76⟩ := by decide
example : Pub ⟨2^52 + 2^18 - 1, 0, 2^52, 1, 2^51⟩ := by decide
/-- the subtrahend bound of `Sub` is sharp: one more in limb 0 underflows (`none` = debug-build panic) -/
example : sub Fe.ZERO ⟨2^53 - 75, 0, 0, 0, 0⟩ = none := by decide
/-- the Loose bound of `Mul` is essentially sharp: limbs 2^55 overflow the u64 product `c * 19` -/
example : mul ⟨2^55, 2^55, 2^55, 2^55, 2^55⟩ ⟨2^55, 2^55, 2^55, 2^55, 2^55⟩ = none := by decide

end Cx.Props.C15
