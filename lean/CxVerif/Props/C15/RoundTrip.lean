/-
  Props.C15.RoundTrip — C15, the point-encoding ROUND TRIP (RFC 8032 §5.1.2 / §5.1.3), with NO hypothesis beyond
  "the point lies on the curve": primality of 2^255 − 19 is a theorem (Proofs/Prime25519.lean, instance).

  Soundness of decoding (an accepted string yields a curve point; `Ge::from_bytes` refines `Spec.Edwards.decode`) is
  Props/C14/Final.lean `from_bytes_is_decode`.  Here: COMPLETENESS.
    * `decode_encode`, `decodeStrict_encode`   every curve point is recovered from its encoding, by the lenient decoder
                                               the crate implements and by the strict RFC decoder;
    * `encode_injective_on_curve`              the encoding is injective on curve points;
    * `recoverX_complete`                      the square-root step (p ≡ 5 mod 8) finds the abscissa of every curve point;
    * `from_bytes_to_bytes`                    model: `Ge::to_bytes` then `Ge::from_bytes` never panics/refuses and returns
                                               a representation of the same point;
    * `to_bytes_from_bytes`                    model: `Ge::from_bytes` then `Ge::to_bytes` returns the canonical encoding
                                               of the decoded point (the input itself iff the input was canonical:
                                               `to_bytes_from_bytes_canonical`).
  Proofs: Proofs/EdRoundTrip.lean.
-/
import CxVerif.Proofs.EdRoundTrip
import CxVerif.Proofs.Prime25519
namespace Cx.Props.C15
open Cx Cx.Spec Cx.Impl.Ge Cx.Proofs.EdSpec Cx.Proofs.GeRefine
open Cx.Spec.Edwards (Point)

/-- **C15 (round trip, Spec)**: the lenient §5.1.3 decoder implemented by the crate recovers every curve point from its
    §5.1.2 encoding -/
theorem decode_encode (P : Point) (hP : OnCurve P) : Edwards.decode (Edwards.encode P) = some P :=
  Proofs.EdRoundTrip.decode_encode P hP

/-- the strict RFC 8032 §5.1.3 decoder likewise (`encode P` has `y < p` and, for `x = 0`, sign bit 0) -/
theorem decodeStrict_encode (P : Point) (hP : OnCurve P) : Edwards.decodeStrict (Edwards.encode P) = some P :=
  Proofs.EdRoundTrip.decodeStrict_encode P hP

/-- the encoding is injective on curve points -/
theorem encode_injective_on_curve (P Q : Point) (hP : OnCurve P) (hQ : OnCurve Q)
    (h : Edwards.encode P = Edwards.encode Q) : P = Q :=
  Proofs.EdRoundTrip.encode_injective_on_curve P Q hP hQ h

/-- the square-root step of §5.1.3 (candidate `u v³ (u v⁷)^((p−5)/8)`, correction by √−1, parity selection) returns the
    abscissa of every curve point, given its ordinate and the parity of the abscissa -/
theorem recoverX_complete (P : Point) (hP : OnCurve P) : Edwards.recoverX P.y (P.x % 2 == 1) = some P.x :=
  Proofs.EdRoundTrip.recoverX_complete P hP

/-- **C15 (round trip, model)**: for every representation `g` of a curve point `P` inside the limb invariant,
    `g.to_bytes()` succeeds with `encode P`, and `Ge::from_bytes` of these bytes succeeds (no panic, no refusal) with a
    representation of the same point -/
theorem from_bytes_to_bytes (g : Ge) (P : Point) (h : GeOk g P) (hP : OnCurve P) :
    ∃ b g', g.to_bytes = some b ∧ Ge.from_bytes b = some (some g') ∧ GeOk g' P := by
  obtain ⟨b, g', e1, _, e2, ok⟩ := Proofs.EdRoundTrip.from_bytes_to_bytes g P h hP
  exact ⟨b, g', e1, e2, ok⟩

/-- the bytes in between are the §5.1.2 encoding -/
theorem from_bytes_to_bytes_encode (g : Ge) (P : Point) (h : GeOk g P) (hP : OnCurve P) :
    g.to_bytes = some (Edwards.encode P) ∧ ∃ g', Ge.from_bytes (Edwards.encode P) = some (some g') ∧ GeOk g' P := by
  obtain ⟨b, g', e1, eb, e2, ok⟩ := Proofs.EdRoundTrip.from_bytes_to_bytes g P h hP
  subst eb
  exact ⟨e1, g', e2, ok⟩

/-- the converse direction: a 32-byte string accepted by `Ge::from_bytes` denotes a curve point `P` (its Spec decoding) and
    `to_bytes` of the result is the canonical encoding of `P` -/
theorem to_bytes_from_bytes (s : Bytes) (hs : s.length = 32) (g : Ge) (h : Ge.from_bytes s = some (some g)) :
    ∃ P, Edwards.decode s = some P ∧ OnCurve P ∧ GeOk g P ∧ g.to_bytes = some (Edwards.encode P) :=
  Proofs.EdRoundTrip.to_bytes_from_bytes s hs g h

/-- … and re-encoding is idempotent: decoding the re-encoded bytes gives the same point again -/
theorem to_bytes_from_bytes_stable (s : Bytes) (hs : s.length = 32) (g : Ge) (h : Ge.from_bytes s = some (some g)) :
    ∃ b g', g.to_bytes = some b ∧ Ge.from_bytes b = some (some g') ∧ g'.to_bytes = some b := by
  obtain ⟨P, _, hP, ok, e⟩ := to_bytes_from_bytes s hs g h
  obtain ⟨e1, g', e2, ok'⟩ := from_bytes_to_bytes_encode g P ok hP
  obtain ⟨hx, hy, _⟩ := (onCurve_iff P).1 hP
  exact ⟨_, g', e, e2, Proofs.GeBytes.ge_to_bytes_ok g' P ok' hx hy⟩

/-- for a CANONICAL input (an encoding of a curve point) `from_bytes` then `to_bytes` is the identity -/
theorem to_bytes_from_bytes_canonical (P : Point) (hP : OnCurve P) :
    ∃ g, Ge.from_bytes (Edwards.encode P) = some (some g) ∧ g.to_bytes = some (Edwards.encode P) := by
  obtain ⟨_, g', e, ok⟩ :=
    Proofs.EdRoundTrip.from_bytes_of_decode _ (Proofs.Ed25519Sign.encode_length P) P (decode_encode P hP)
  obtain ⟨hx, hy, _⟩ := (onCurve_iff P).1 hP
  exact ⟨g', e, Proofs.GeBytes.ge_to_bytes_ok g' P ok hx hy⟩

/-! ### non-vacuity -/

/-- the base point and the neutral element meet the hypothesis -/
example : OnCurve Edwards.B ∧ OnCurve Edwards.zero := ⟨Proofs.Ge.B_spec.1, zero_onCurve⟩

set_option maxRecDepth 100000 in
/-- TEST (kernel-evaluated sample, not the theorem): the round trip on the base point -/
example : Edwards.decode (Edwards.encode Edwards.B) = some Edwards.B := by decide +kernel

set_option maxRecDepth 100000 in
/-- TEST: a non-canonical string (y = p, i.e. y ≡ 0; x = √−1 …) is accepted by the lenient decoder and is NOT a fixed
    point of decode-then-encode — which is why `to_bytes_from_bytes` speaks of the canonical re-encoding -/
example : (Edwards.decode (natToLE 32 Field25519.p)).map Edwards.encode = some (zeros 32) ∧
    natToLE 32 Field25519.p ≠ zeros 32 := by decide +kernel

end Cx.Props.C15
