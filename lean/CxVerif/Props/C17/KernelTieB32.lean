/-
  Props.C17.KernelTieB32 — the translator tie for the 32-bit curve backend (src/curve25519/fe/fe32/mod.rs and
  src/curve25519/scalar/scalar32.rs).  `Extracted/KernelsFe32.lean` / `Extracted/KernelsScalar32.lean` are regenerated
  from the CURRENT Rust sources on every run by tools/ktx_misc.py ("int" backend; kernel specs tools/kernels/fe32.py,
  scalar32.py): every checked `+ - *` of the Rust code on `i32`/`i64` is a bind (`add32 … mul64`, `sum64` for a
  left-to-right sum) in the Option monad, `<<` / `as i32` / `as u8` the wrap it is, `>>` floor division — translated
  statement by statement.  The theorems say that the hand-written models `Impl.Fe32.*` / `Impl.Scalar32.*` (about which
  the C17 refinement and no-overflow theorems are proved) compute exactly what the source says now, for ALL limb
  values, INCLUDING where an overflow-checked build panics (`none`): a changed carry, shift, mask, product index or
  constant in the source breaks a proof obligation even if no sampled input reaches it.
  Proof method: walk both straight-line programs in lock step from the head, unfolding the model's helpers (`carryR`,
  `mac`, …) as they come up (`bind_walk [helpers]`, Proofs/BindWalk.lean).
  NOT tied: `scalar32::muladd` (sc_muladd, ~800 checked operations): the translation exists, the lock-step proof exceeds
  the kernel's recursion depth; `square_repeatdly`, `is_nonzero`, `is_negative`, `ct_eq`, `maybe_swap_with`, `maybe_set`
  (compositions of tied kernels) and `load_3i`/`load_4i` (fe/load.rs; the model's loads are used as they are).
-/
import CxVerif.Extracted.KernelsFe32
import CxVerif.Extracted.KernelsScalar32
import CxVerif.Impl.Fe32
import CxVerif.Impl.Scalar32
import CxVerif.Proofs.BindWalk
namespace Cx.Props.C17.KernelTie
set_option linter.unusedSimpArgs false

namespace Fe32
open Cx Cx.Impl.Fe32 Cx.Extracted.KernelsFe32

theorem add_src_eq_model (f g : Fe) : add_src f g = add f g := rfl
theorem sub_src_eq_model (f g : Fe) : sub_src f g = sub f g := rfl
theorem neg_src_eq_model (f : Fe) : neg_src f = neg f := rfl
theorem negate_mut_src_eq_model (f : Fe) : negate_mut_src f = negate_mut f := rfl

set_option maxRecDepth 100000 in
theorem mul_src_eq_model (f g : Fe) : mul_src f g = mul f g := by
  unfold mul_src mul mul_cols carry_mul
  bind_walk [carryR, carryR19]

set_option maxRecDepth 100000 in
theorem square_src_eq_model (f : Fe) : square_src f = square f := by
  unfold square_src square sq_cols carry_mul
  bind_walk [carryR, carryR19]

set_option maxRecDepth 100000 in
theorem square_and_double_src_eq_model (f : Fe) : square_and_double_src f = square_and_double f := by
  unfold square_and_double_src square_and_double sq_cols carry_mul
  bind_walk [carryR, carryR19]

set_option maxRecDepth 100000 in
theorem mul_small_src_eq_model (f : Fe) (S0 : Nat) : mul_small_src f S0 = mul_small f S0 := by
  unfold mul_small_src mul_small carry_par
  bind_walk [carryR, carryR19]

set_option maxRecDepth 100000 in
theorem from_bytes_src_eq_model (b : Bytes) (h : b.length = 32) : from_bytes_src b h = from_bytes b h := by
  unfold from_bytes_src from_bytes carry_par
  bind_walk [carryR, carryR19]

set_option maxRecDepth 100000 in
theorem to_bytes_src_eq_model (f : Fe) : to_bytes_src f = to_bytes f := by
  unfold to_bytes_src to_bytes to_bytes_limbs
  bind_walk [carryF32, qstep]

end Fe32

namespace Scalar32
open Cx Cx.Impl.Scalar32 Cx.Extracted.KernelsScalar32
open Cx.Impl.Fe32 (ck64 add64 sub64 mul64 shl64 shr u8of u8or)

set_option maxRecDepth 100000 in
/-- sc_reduce: the 24 loads, the reduction of the 24 limbs by L (`mac`/`msc` steps, rounded and floor carries), the pack -/
theorem reduce_from_wide_bytes_src_eq_model (s : Vector UInt8 64) :
    reduce_from_wide_bytes_src s = reduce_from_wide_bytes s := by
  unfold reduce_from_wide_bytes_src reduce_from_wide_bytes
  bind_walk [reduce_limbs, mac, msc, carryR, carryF]

end Scalar32
end Cx.Props.C17.KernelTie
