/-
  Props.C17.B32 — C17: the 32-bit curve backends (fe32 = ref10 ten signed 26/25-bit limbs, scalar32 = ref10 bytes /
  21-bit limbs) are observationally equivalent to the 64-bit backends.  Every statement is about the code-shaped
  models `Cx.Impl.Fe32` / `Cx.Impl.Scalar32` (every i32/i64 `+ - *` checked: `= some …` includes "no overflow panic
  in a checked build") and, for the equivalence, the 64-bit models `Cx.Impl.Fe64` / `Cx.Impl.Scalar64` whose
  refinement theorems are in Props/C15.

  Vocabulary (Proofs/Fe32Basic.lean): `val f` = Σ l_i·2^⌈25.5 i⌉ (an `Int`: limbs are signed), `eval f` = its residue
  in [0, p); `W k f` = even limbs within ±k·2^25, odd limbs within ±k·(2^24 + 2^20).  `W 1` is what every carrying
  operator returns, `W 3` (⊂ the ref10 operand bound 1.65·2^26 / 1.65·2^25) what Mul / square accept — i.e. sums and
  differences of up to three reduced elements, the "operand discipline" of the property — and `W 6` what `to_bytes`,
  `is_nonzero`, `is_negative`, `==` accept.

  PROVED here for ALL inputs inside those bounds: (a) canonical scalar check ⇔ le(s) < L, equal acceptance sets of
  both backends; (b) to_bytes canonical, predicates = mod-p predicates; (c) from_bytes; (d) add/sub/neg/mul/square/
  square_and_double/mul_small/square_repeatdly/invert/pow25523 with NO i32/i64 overflow; (e) the 264 table entries
  and 5 constants denote the same residues in both backends; (g) program-level observational equivalence.
  (f) scalar32 `reduce_from_wide_bytes` / `muladd` (ref10 sc_reduce / sc_muladd) = value mod L: stated here as the named
  propositions `Sc32ReduceSpec` / `Sc32MuladdSpec` with `…_partial` corollaries; both propositions are PROVED in
  Props/C17/Sc32.lean (no i64 overflow in any multiply-accumulate or carry, value preserved mod L, result in [0, L),
  packing), which also gives the unconditional `wide_reduction_equivalent` / `muladd_equivalent`.  `bits` / `nibbles` are proved here.
-/
import CxVerif.Proofs.Fe32Tables
import CxVerif.Proofs.Fe32Arith
import CxVerif.Proofs.Fe32Chain
import CxVerif.Proofs.Fe32Pred
import CxVerif.Proofs.Fe32FromBytes
import CxVerif.Proofs.Scalar32Canon
import CxVerif.Proofs.Scalar32Digits
import CxVerif.Props.C15.Fe64
import CxVerif.Props.C15.Scalar64
namespace Cx.Props.C17
open Cx Cx.Spec Cx.Impl.Fe32 Cx.Proofs.Fe32
open Cx.Spec.Field25519 (p)

/-! ## (e) constants and tables of the two backends -/

/-- `Fe::ZERO ONE SQRTM1 D D2` of fe32 (ten signed limbs, re-extracted) are reduced and denote 0, 1, √−1, d, 2d -/
theorem fe32_constants :
    (W 1 Fe.ZERO ∧ eval Fe.ZERO = 0) ∧ (W 1 Fe.ONE ∧ eval Fe.ONE = 1) ∧
    (W 1 Fe.SQRTM1 ∧ eval Fe.SQRTM1 = Field25519.sqrtM1) ∧ (W 1 Fe.D ∧ eval Fe.D = Field25519.edwardsD) ∧
    (W 1 Fe.D2 ∧ eval Fe.D2 = Field25519.edwardsD2) := ⟨ZERO_spec, ONE_spec, SQRTM1_spec, D_spec, D2_spec⟩

/-- the constants of the two backends are equal modulo p -/
theorem constants_equal_across_backends :
    eval Fe.ZERO = Proofs.Fe64.eval Impl.Fe64.Fe.ZERO ∧ eval Fe.ONE = Proofs.Fe64.eval Impl.Fe64.Fe.ONE ∧
    eval Fe.SQRTM1 = Proofs.Fe64.eval Impl.Fe64.Fe.SQRTM1 ∧ eval Fe.D = Proofs.Fe64.eval Impl.Fe64.Fe.D ∧
    eval Fe.D2 = Proofs.Fe64.eval Impl.Fe64.Fe.D2 := consts_agree

/-- TABLE EQUIVALENCE: every `GE_BASE[i][j]` (i < 32, j < 8) of fe32/precomp.rs and of fe64/precomp.rs exists and
    both denote the same `(y+x, y−x, 2dxy)` modulo p; the 32-bit limbs are reduced (all 256 entries, kernel-decided) -/
theorem GE_BASE_tables_agree (i j : Nat) (hi : i < 32) (hj : j < 8) :
    ∃ a b, GE_BASE32[i]?.bind (·[j]?) = some a ∧ Impl.Ge.GE_BASE[i]?.bind (·[j]?) = some b ∧
      a.red = true ∧ a.vals = Proofs.Ge.precompVals b := GE_BASE_agree i j hi hj

theorem BI_tables_agree (k : Nat) (hk : k < 8) :
    ∃ a b, BI32[k]? = some a ∧ Impl.Ge.BI[k]? = some b ∧ a.red = true ∧ a.vals = Proofs.Ge.precompVals b :=
  BI_agree k hk

/-- hence the 32-bit tables are the stated multiples of the base point (with the C15 table theorem) -/
theorem GE_BASE32_is_the_multiples_of_B (i j : Nat) (hi : i < 32) (hj : j < 8) :
    ∃ a, GE_BASE32[i]?.bind (·[j]?) = some a ∧ a.red = true ∧
      a.vals = Edwards.precomp (Edwards.smul ((j + 1) * 256 ^ i) Edwards.B) := GE_BASE32_entry i j hi hj

theorem BI32_is_the_odd_multiples_of_B (k : Nat) (hk : k < 8) :
    ∃ a, BI32[k]? = some a ∧ a.red = true ∧ a.vals = Edwards.precomp (Edwards.smul (2 * k + 1) Edwards.B) :=
  BI32_entry k hk

/-! ## (a) canonical scalars -/

/-- the constant inside `from_bytes_canonical` (re-extracted) is L in little-endian order -/
theorem scalar32_L_is_group_order : leNat Impl.Scalar32.L = ScalarL.L ∧ Impl.Scalar32.L.length = 32 :=
  ⟨Proofs.Scalar32.L_value, Proofs.Scalar32.L_length⟩

/-- `check_s_lt_l s` answers TRUE exactly when `L ≤ le(s)` (the Rust name is misleading), for ALL 32-byte s -/
theorem check_s_lt_l_correct (s : Vector UInt8 32) :
    Impl.Scalar32.check_s_lt_l s = decide (ScalarL.L ≤ leNat s.toList) := Proofs.Scalar32.check_s_lt_l_spec s

/-- scalar32 `from_bytes_canonical` accepts EXACTLY `le(b) < L`, returning the bytes unchanged — all 32-byte b -/
theorem from_bytes_canonical_correct (b : Vector UInt8 32) :
    Impl.Scalar32.from_bytes_canonical b
      = if ScalarL.decode b.toList < ScalarL.L then some (Impl.Scalar32.from_bytes b) else none :=
  Proofs.Scalar32.from_bytes_canonical_spec b

/-- it agrees with the Spec decoder -/
theorem canonical_decoder_matches_spec (b : Vector UInt8 32) :
    (Impl.Scalar32.from_bytes_canonical b).map Impl.Scalar32.to_bytes
      = (ScalarL.decodeCanonical b.toList).map ScalarL.encode := by
  rw [from_bytes_canonical_correct]
  have hl : b.toList.length = 32 := by simp
  unfold ScalarL.decodeCanonical ScalarL.isCanonical
  by_cases h : ScalarL.decode b.toList < ScalarL.L
  · have := Proofs.Scalar64.natToLE_leNat b.toList
    simp only [hl] at this
    have hd : decide (ScalarL.decode b.toList < ScalarL.L) = true := decide_eq_true h
    rw [if_pos h]
    simp only [hl, beq_self_eq_true, Bool.true_and, hd, if_true, Option.map_some]
    unfold Impl.Scalar32.to_bytes Impl.Scalar32.from_bytes ScalarL.encode ScalarL.decode
    rw [this]
  · have hd : decide (ScalarL.decode b.toList < ScalarL.L) = false := decide_eq_false h
    rw [if_neg h]
    simp only [hl, beq_self_eq_true, Bool.true_and, hd, Bool.false_eq_true, if_false, Option.map_none]

/-- EQUAL ACCEPTANCE SETS: the 64-bit `lt_order` decoder and the 32-bit `check_s_lt_l` decoder accept the same
    strings and hand back the same bytes — for ALL 32-byte b (C15 `from_bytes_canonical_correct` + the above) -/
theorem canonical_decoders_equivalent (b : Vector UInt8 32) :
    (Impl.Scalar64.from_bytes_canonical b).map (·.map Impl.Scalar64.to_bytes)
      = some ((Impl.Scalar32.from_bytes_canonical b).map Impl.Scalar32.to_bytes) := by
  rw [Cx.Props.C15.Scalar64.canonical_decoder_matches_spec, canonical_decoder_matches_spec]

/-- WITNESS of the repaired defect (g): with the constant written big-endian the same loop decided
    `le(s) < 0xedd3f5…0010` (≈ 2^255.9), so it accepted L itself, L + 1, 2L, … -/
theorem original_constant_accepted_L :
    ∃ b : Vector UInt8 32, ScalarL.decode b.toList = ScalarL.L ∧
      Impl.Scalar32.from_bytes_canonical_old b = some b ∧ Impl.Scalar32.from_bytes_canonical b = none := by
  refine ⟨(Impl.Scalar32.toArr 32 Impl.Scalar32.L).getD (Vector.replicate 32 0), by decide, ?_, ?_⟩
  · rw [Proofs.Scalar32.old_constant_spec, Proofs.Scalar32.old_constant_value]
    rfl
  · rw [from_bytes_canonical_correct]; decide

/-- `Scalar::nibbles` / `Scalar::bits` of scalar32 are the 64 radix-16 / 256 binary digits of `le(s)` — all scalars -/
theorem nibbles_correct (s : Impl.Scalar32.Scalar) :
    Impl.Scalar32.nibbles s = (ScalarL.radix16 (leNat s.toList)).map Int.ofNat := Proofs.Scalar32.nibbles_spec s
theorem bits_correct (s : Impl.Scalar32.Scalar) :
    Impl.Scalar32.bits s = (ScalarL.bitsLE (leNat s.toList)).map Int.ofNat := Proofs.Scalar32.bits_spec s

/-- hence both backends hand the same digit strings to the scalar-multiplication loops, for every 32-byte scalar -/
theorem digits_equivalent (b : Vector UInt8 32) :
    Impl.Scalar32.nibbles (Impl.Scalar32.from_bytes b) = (Impl.Scalar64.nibbles (Impl.Scalar64.from_bytes b)).toList ∧
    Impl.Scalar32.bits (Impl.Scalar32.from_bytes b) = (Impl.Scalar64.bits (Impl.Scalar64.from_bytes b)).toList := by
  obtain ⟨hv, hi⟩ := Cx.Props.C15.Scalar64.from_bytes_correct b
  constructor
  · rw [(Cx.Props.C15.Scalar64.nibbles_correct _ hi).1, hv, nibbles_correct]; rfl
  · rw [(Cx.Props.C15.Scalar64.bits_correct _ hi).1, hv, bits_correct]; rfl

/-! ## (f) wide reduction and muladd — NOT proved for the 32-bit backend (ref10 sc_reduce / sc_muladd) -/

/-- the UNPROVED ingredient, as a named proposition: the 32-bit `reduce_from_wide_bytes` (ref10 `sc_reduce`, 24 limbs
    of 21 bits, ~130 checked multiply-accumulates and ~70 carries) returns `le(s) mod L` for every 64-byte string.
    Evidence: the correspondence run only (every 21-bit limb at its carry thresholds, k·L ± δ, L·2^k ± δ, random). -/
def Sc32ReduceSpec : Prop := ∀ s : Vector UInt8 64,
  (Impl.Scalar32.reduce_from_wide_bytes s).map Impl.Scalar32.to_bytes = some (ScalarL.reduceWide s.toList)

/-- the UNPROVED ingredient for `muladd` (ref10 `sc_muladd`): `(a·b + c) mod L` for all 32-byte a, b and reduced c -/
def Sc32MuladdSpec : Prop := ∀ a b c : Vector UInt8 32, ScalarL.decode c.toList < ScalarL.L →
  (Impl.Scalar32.muladd a b c).map Impl.Scalar32.to_bytes
    = some (ScalarL.encode (ScalarL.muladd (ScalarL.decode a.toList) (ScalarL.decode b.toList) (ScalarL.decode c.toList)))

/-- FULL STATEMENT (not proved): `∀ s, (Scalar64.reduce_from_wide_bytes s).map to_bytes = (Scalar32.reduce_from_wide_bytes s).map to_bytes`.
    PROVED: the same under the explicit hypothesis `Sc32ReduceSpec` (the 64-bit side is the C15 theorem). -/
theorem wide_reduction_equivalent_partial (h32 : Sc32ReduceSpec) (s : Vector UInt8 64) :
    (Impl.Scalar64.reduce_from_wide_bytes s).map Impl.Scalar64.to_bytes
      = (Impl.Scalar32.reduce_from_wide_bytes s).map Impl.Scalar32.to_bytes := by
  rw [h32 s, Cx.Props.C15.Scalar64.reduce_wide_bytes_matches_spec]

/-- FULL STATEMENT (not proved): both `muladd` agree on all 32-byte a, b and reduced c.
    PROVED under `Sc32MuladdSpec`. (For c ≥ L the backends legitimately differ — one conditional subtraction vs full
    reduction — and nothing public reaches `muladd` with such a c.) -/
theorem muladd_equivalent_partial (h32 : Sc32MuladdSpec) (a b c : Vector UInt8 32)
    (hc : ScalarL.decode c.toList < ScalarL.L) :
    (Impl.Scalar64.muladd (Impl.Scalar64.from_bytes a) (Impl.Scalar64.from_bytes b) (Impl.Scalar64.from_bytes c)).map
        Impl.Scalar64.to_bytes
      = (Impl.Scalar32.muladd a b c).map Impl.Scalar32.to_bytes := by
  rw [h32 a b c hc, Cx.Props.C15.Scalar64.muladd_bytes a b c hc]

/-- the folding constants of sc_reduce / sc_muladd: `2^252 ≡ 666643 + 470296·2^21 + 654183·2^42 − 997805·2^63
    + 136657·2^84 − 683901·2^105 (mod L)` — in fact the right-hand side IS `2^252 − L` (labelled fact about the
    literals of the model; it is what makes each `s_i += s_{i+12}·c` step value-preserving modulo L) -/
theorem sc_fold_constants :
    (666643 + 470296 * 2^21 + 654183 * 2^42 - 997805 * 2^63 + 136657 * 2^84 - 683901 * 2^105 : Int)
      = 2^252 - (ScalarL.L : Int) := by decide

/-- tests (kernel-evaluated samples, NOT the theorem): the model reduces 2^512 − 1, L·2^259 − 1 and computes
    (2^256−1)² + (L−1) mod L -/
example : (Impl.Scalar32.reduce_from_wide_bytes (Vector.replicate 64 0xff)).map Impl.Scalar32.to_bytes
    = some (ScalarL.reduceWide (List.replicate 64 0xff)) := by decide +kernel

/-! ## (d) field operators of fe32: no overflow, bounds, value -/

theorem add_correct (f g : Fe) (a b : Int) (hf : W a f) (hg : W b g) (hab : a + b ≤ 63) :
    ∃ h, add f g = some h ∧ W (a + b) h ∧ val h = val f + val g ∧ eval h = Field25519.add (eval f) (eval g) :=
  add_spec f g a b hf hg hab
theorem sub_correct (f g : Fe) (a b : Int) (hf : W a f) (hg : W b g) (hab : a + b ≤ 63) :
    ∃ h, sub f g = some h ∧ W (a + b) h ∧ val h = val f - val g ∧ eval h = Field25519.sub (eval f) (eval g) :=
  sub_spec f g a b hf hg hab
theorem neg_correct (f : Fe) (a : Int) (hf : W a f) (ha : a ≤ 63) :
    ∃ h, neg f = some h ∧ W a h ∧ val h = -val f ∧ eval h = Field25519.neg (eval f) := neg_spec f a hf ha
/-- **Mul** (100 products, 12 carries): operands of weight ≤ 3 ⟹ no i32/i64 overflow, reduced result, product mod p -/
theorem mul_correct (f g : Fe) (hf : W 3 f) (hg : W 3 g) :
    ∃ h, mul f g = some h ∧ W 1 h ∧ eval h = Field25519.mul (eval f) (eval g) := mul_spec f g hf hg
theorem square_correct (f : Fe) (hf : W 3 f) :
    ∃ h, square f = some h ∧ W 1 h ∧ eval h = Field25519.sq (eval f) := square_spec f hf
theorem square_and_double_correct (f : Fe) (hf : W 3 f) :
    ∃ h, square_and_double f = some h ∧ W 1 h ∧ eval h = Field25519.mul 2 (Field25519.sq (eval f)) :=
  square_and_double_spec f hf
/-- `mul_small::<S0>` for `S0 ≤ 2^18` (the crate uses 121666) -/
theorem mul_small_correct (f : Fe) (s : Nat) (hf : W 3 f) (hs : s ≤ 2^18) :
    ∃ h, mul_small f s = some h ∧ W 1 h ∧ eval h = Field25519.mul (eval f) s := mul_small_spec f s hf hs
/-- `square_repeatdly(n)`: `z^(2^n)`; for `n = 0` the argument itself (after fix k) -/
theorem square_repeatdly_correct (f : Fe) (n : Nat) (hf : W 3 f) :
    ∃ h, square_repeatdly f n = some h ∧ (0 < n → W 1 h) ∧ (n = 0 → h = f) ∧
      eval h = Field25519.pow (eval f) (2^n) := by
  obtain ⟨h, e, t, z, v⟩ := square_repeatdly_spec n f hf
  exact ⟨h, e, t, z, by rw [v, Cx.Proofs.Field25519.pow_eq]⟩
theorem invert_correct (z : Fe) (hz : W 3 z) :
    ∃ h, invert z = some h ∧ W 1 h ∧ eval h = Field25519.inv (eval z) := invert_spec z hz
theorem pow25523_correct (z : Fe) (hz : W 3 z) :
    ∃ h, pow25523 z = some h ∧ W 1 h ∧ eval h = Field25519.pow25523 (eval z) := pow25523_spec z hz

/-! ## (c) from_bytes, (b) to_bytes and the predicates -/

/-- `from_bytes`: EVERY 32-byte string decodes without overflow to reduced limbs denoting `le(b) mod 2^255` (mod p) -/
theorem from_bytes_correct (b : Bytes) (h : b.length = 32) :
    ∃ r, from_bytes b h = some r ∧ W 1 r ∧ val r % (p : Int) = ((leNat b % 2^255 : Nat) : Int) % (p : Int) ∧
      eval r = Field25519.decode b := from_bytes_spec b h

/-- **to_bytes is canonical** (the ref10 q-estimate): for EVERY limb vector of weight ≤ 6 the 32 bytes are the
    little-endian encoding of `val mod p` — 32 bytes, value < p, independent of the representation -/
theorem to_bytes_canonical (f : Fe) (hf : W 6 f) :
    ∃ b, to_bytes f = some b ∧ b = Field25519.encode (eval f) ∧ b.length = 32 ∧ leNat b = eval f := by
  refine ⟨_, to_bytes_spec f hf, rfl, Proofs.Fe64.natToLE_length 32 _, ?_⟩
  unfold Field25519.encode
  rw [Proofs.Fe64.leNat_natToLE, eval_mod, Nat.mod_eq_of_lt (Nat.lt_trans (eval_lt f) Proofs.Fe64.p_lt_256_32)]

/-- the estimate inside `to_bytes` is exact: `q = ⌊val / p⌋` (nested floors + rounding term 2^24) -/
theorem to_bytes_quotient_estimate (V h9 low : Int) (hlow : V = 2^230 * h9 + low) (hl : -2^240 ≤ low ∧ low ≤ 2^240)
    (hh9 : -2^27 ≤ h9 ∧ h9 ≤ 2^27) :
    (2^255 - 19) * ((V + (19 * h9 + 2^24) / 2^25) / 2^255) ≤ V ∧
      V < (2^255 - 19) * ((V + (19 * h9 + 2^24) / 2^25) / 2^255) + (2^255 - 19) :=
  qest V h9 low _ _ hlow hl hh9 rfl rfl

theorem is_nonzero_correct (f : Fe) (hf : W 6 f) : is_nonzero f = some (decide (eval f ≠ 0)) := by
  rw [is_nonzero_spec f hf]; unfold Field25519.isNonzero; rw [eval_mod]
  by_cases h : eval f = 0 <;> simp [h]
theorem is_negative_correct (f : Fe) (hf : W 6 f) : is_negative f = some (decide (eval f % 2 = 1)) := by
  rw [is_negative_spec f hf]; unfold Field25519.isNegative; rw [eval_mod]
  by_cases h : eval f % 2 = 1 <;> simp [h]
/-- `==` (after fix h) is equality in GF(p), for every pair of representations -/
theorem eq_correct (f g : Fe) (hf : W 6 f) (hg : W 6 g) : eq f g = some (decide (eval f = eval g)) :=
  eq_spec f g hf hg
/-- WITNESS of the repaired defect (h): limb-wise `==` distinguished two reduced representations of 2^25 -/
theorem original_eq_compared_limbs :
    ∃ f g, W 1 f ∧ W 1 g ∧ eval f = eval g ∧ eqOld f g = false ∧ eq f g = some true :=
  original_eq_not_value_equality

theorem maybe_swap_with_correct (f g : Fe) (hf : I32 f) (hg : I32 g) (c : Bool) :
    maybe_swap_with f g (Cx.Props.C18.Choice.ofBool c) = if c then (g, f) else (f, g) :=
  maybe_swap_with_spec f g hf hg c
theorem maybe_set_correct (f g : Fe) (hf : I32 f) (hg : I32 g) (c : Bool) :
    maybe_set f g (Cx.Props.C18.Choice.ofBool c) = if c then g else f := maybe_set_spec f g hf hg c

/-! ## (g) observational equivalence of the two field backends, program by program -/

open Cx.Props.C15 (Expr)

/-- the program run on the 32-bit code model (`none` = a panic somewhere) -/
def run32 : Expr → Option Fe
  | .lit b h => from_bytes b h
  | .zero => some Fe.ZERO | .one => some Fe.ONE | .sqrtm1 => some Fe.SQRTM1 | .d => some Fe.D | .d2 => some Fe.D2
  | .add a b => (run32 a).bind fun x => (run32 b).bind fun y => Impl.Fe32.add x y
  | .sub a b => (run32 a).bind fun x => (run32 b).bind fun y => Impl.Fe32.sub x y
  | .mul a b => (run32 a).bind fun x => (run32 b).bind fun y => Impl.Fe32.mul x y
  | .neg a => (run32 a).bind Impl.Fe32.neg
  | .square a => (run32 a).bind Impl.Fe32.square
  | .squareRep a n => (run32 a).bind fun x => Impl.Fe32.square_repeatdly x n
  | .squareDouble a => (run32 a).bind Impl.Fe32.square_and_double
  | .invert a => (run32 a).bind Impl.Fe32.invert
  | .pow25523 a => (run32 a).bind Impl.Fe32.pow25523

/-- weight of a program's result: decoded values, constants and outputs of carrying operators weigh 1,
    add / sub add the weights (fe32 add/sub/neg do not carry) -/
def wt : Expr → Nat
  | .lit _ _ => 1
  | .zero => 1 | .one => 1 | .sqrtm1 => 1 | .d => 1 | .d2 => 1
  | .add a b => wt a + wt b
  | .sub a b => wt a + wt b
  | .neg a => wt a
  | .squareRep a n => if n = 0 then wt a else 1
  | .mul _ _ => 1 | .square _ => 1 | .squareDouble _ => 1 | .invert _ => 1 | .pow25523 _ => 1

/-- the operand discipline of the 32-bit backend (the ref10 preconditions): a multiplication, squaring,
    `square_repeatdly`, `invert`, `pow25523` takes operands of weight ≤ 3; sums stay below weight 64 -/
def Disc : Expr → Prop
  | .lit _ _ => True
  | .zero => True | .one => True | .sqrtm1 => True | .d => True | .d2 => True
  | .add a b => Disc a ∧ Disc b ∧ wt a + wt b ≤ 63
  | .sub a b => Disc a ∧ Disc b ∧ wt a + wt b ≤ 63
  | .neg a => Disc a ∧ wt a ≤ 63
  | .mul a b => Disc a ∧ Disc b ∧ wt a ≤ 3 ∧ wt b ≤ 3
  | .square a => Disc a ∧ wt a ≤ 3
  | .squareRep a _ => Disc a ∧ wt a ≤ 3
  | .squareDouble a => Disc a ∧ wt a ≤ 3
  | .invert a => Disc a ∧ wt a ≤ 3
  | .pow25523 a => Disc a ∧ wt a ≤ 3

theorem W_mono_nat {a b : Nat} {f : Fe} (h : a ≤ b) (hf : W (a : Int) f) : W (b : Int) f :=
  W.mono (by exact_mod_cast h) hf

/-- **Every disciplined program** runs on the 32-bit model without i32/i64 overflow, its result has the computed
    weight and denotes the program's value in GF(p) — the same denotation `Expr.den` as for the 64-bit model -/
theorem program32_correct (e : Expr) (hd : Disc e) : ∃ f, run32 e = some f ∧ W (wt e : Int) f ∧ eval f = e.den := by
  induction e with
  | lit b h => obtain ⟨r, er, hr, _, ev⟩ := from_bytes_spec b h; exact ⟨r, er, hr, ev⟩
  | zero => exact ⟨_, rfl, ZERO_spec.1, ZERO_spec.2⟩
  | one => exact ⟨_, rfl, ONE_spec.1, ONE_spec.2⟩
  | sqrtm1 => exact ⟨_, rfl, SQRTM1_spec.1, SQRTM1_spec.2⟩
  | d => exact ⟨_, rfl, D_spec.1, D_spec.2⟩
  | d2 => exact ⟨_, rfl, D2_spec.1, D2_spec.2⟩
  | add a b iha ihb =>
    obtain ⟨da, db, hw⟩ := hd
    obtain ⟨x, hx, px, vx⟩ := iha da; obtain ⟨y, hy, py, vy⟩ := ihb db
    obtain ⟨h, e, t, _, v⟩ := add_spec x y _ _ px py (by exact_mod_cast hw)
    exact ⟨h, by rw [run32, hx, Option.bind_some, hy, Option.bind_some, e], by simpa [wt] using t, by rw [v, vx, vy]; rfl⟩
  | sub a b iha ihb =>
    obtain ⟨da, db, hw⟩ := hd
    obtain ⟨x, hx, px, vx⟩ := iha da; obtain ⟨y, hy, py, vy⟩ := ihb db
    obtain ⟨h, e, t, _, v⟩ := sub_spec x y _ _ px py (by exact_mod_cast hw)
    exact ⟨h, by rw [run32, hx, Option.bind_some, hy, Option.bind_some, e], by simpa [wt] using t, by rw [v, vx, vy]; rfl⟩
  | mul a b iha ihb =>
    obtain ⟨da, db, wa, wb⟩ := hd
    obtain ⟨x, hx, px, vx⟩ := iha da; obtain ⟨y, hy, py, vy⟩ := ihb db
    obtain ⟨h, e, t, v⟩ := mul_spec x y (W_mono_nat wa px) (W_mono_nat wb py)
    exact ⟨h, by rw [run32, hx, Option.bind_some, hy, Option.bind_some, e], t, by rw [v, vx, vy]; rfl⟩
  | neg a iha =>
    obtain ⟨da, wa⟩ := hd
    obtain ⟨x, hx, px, vx⟩ := iha da
    obtain ⟨h, e, t, _, v⟩ := neg_spec x _ px (by exact_mod_cast wa)
    exact ⟨h, by rw [run32, hx, Option.bind_some, e], t, by rw [v, vx]; rfl⟩
  | square a iha =>
    obtain ⟨da, wa⟩ := hd
    obtain ⟨x, hx, px, vx⟩ := iha da
    obtain ⟨h, e, t, v⟩ := square_spec x (W_mono_nat wa px)
    exact ⟨h, by rw [run32, hx, Option.bind_some, e], t, by rw [v, vx]; rfl⟩
  | squareRep a n iha =>
    obtain ⟨da, wa⟩ := hd
    obtain ⟨x, hx, px, vx⟩ := iha da
    obtain ⟨h, e, t, z, v⟩ := square_repeatdly_spec n x (W_mono_nat wa px)
    refine ⟨h, by rw [run32, hx, Option.bind_some, e], ?_, ?_⟩
    · by_cases hn : n = 0
      · rw [z hn]; simpa [wt, hn] using px
      · simpa [wt, hn] using t (by omega)
    · rw [v, vx]; simp only [Expr.den]; rw [Cx.Proofs.Field25519.pow_eq]
  | squareDouble a iha =>
    obtain ⟨da, wa⟩ := hd
    obtain ⟨x, hx, px, vx⟩ := iha da
    obtain ⟨h, e, t, v⟩ := square_and_double_spec x (W_mono_nat wa px)
    exact ⟨h, by rw [run32, hx, Option.bind_some, e], t, by rw [v, vx]; rfl⟩
  | invert a iha =>
    obtain ⟨da, wa⟩ := hd
    obtain ⟨x, hx, px, vx⟩ := iha da
    obtain ⟨h, e, t, v⟩ := invert_spec x (W_mono_nat wa px)
    exact ⟨h, by rw [run32, hx, Option.bind_some, e], t, by rw [v, vx]; rfl⟩
  | pow25523 a iha =>
    obtain ⟨da, wa⟩ := hd
    obtain ⟨x, hx, px, vx⟩ := iha da
    obtain ⟨h, e, t, v⟩ := pow25523_spec x (W_mono_nat wa px)
    exact ⟨h, by rw [run32, hx, Option.bind_some, e], t, by rw [v, vx]; rfl⟩

/-- **OBSERVATIONAL EQUIVALENCE, field layer**: for every disciplined program of result weight ≤ 6, what a user
    observes of the 32-bit backend (`to_bytes`, `is_nonzero`, `is_negative`) is exactly what the 64-bit backend
    shows for the same program — both never panic and both equal the Spec's answer -/
theorem field_backends_equivalent (e : Expr) (hd : Disc e) (hw : wt e ≤ 6) :
    ∃ f32 f64, run32 e = some f32 ∧ e.run = some f64 ∧
      to_bytes f32 = Impl.Fe64.to_bytes f64 ∧ to_bytes f32 = some (Field25519.encode e.den) ∧
      is_nonzero f32 = Impl.Fe64.is_nonzero f64 ∧ is_negative f32 = Impl.Fe64.is_negative f64 := by
  obtain ⟨f32, h32, w32, v32⟩ := program32_correct e hd
  obtain ⟨f64, h64, tb, nz, ng⟩ := Cx.Props.C15.program_observations e
  have w6 : W 6 f32 := W_mono_nat hw w32
  refine ⟨f32, f64, h32, h64, ?_, ?_, ?_, ?_⟩
  · rw [tb, to_bytes_spec f32 w6, v32]
  · rw [to_bytes_spec f32 w6, v32]
  · rw [nz, is_nonzero_spec f32 w6, v32]
  · rw [ng, is_negative_spec f32 w6, v32]

/-- … and `==` of two disciplined programs gives the same verdict in both backends: equality of the values mod p -/
theorem field_equality_equivalent (e1 e2 : Expr) (hd1 : Disc e1) (hd2 : Disc e2) (hw1 : wt e1 ≤ 6) (hw2 : wt e2 ≤ 6) :
    ∃ f32 g32 f64 g64, run32 e1 = some f32 ∧ run32 e2 = some g32 ∧ e1.run = some f64 ∧ e2.run = some g64 ∧
      eq f32 g32 = Impl.Fe64.eq f64 g64 ∧ eq f32 g32 = some (decide (e1.den = e2.den)) := by
  obtain ⟨f32, hf, wf, vf⟩ := program32_correct e1 hd1
  obtain ⟨g32, hg, wg, vg⟩ := program32_correct e2 hd2
  obtain ⟨f64, g64, hf64, hg64, he⟩ := Cx.Props.C15.program_eq e1 e2
  have := eq_spec f32 g32 (W_mono_nat hw1 wf) (W_mono_nat hw2 wg)
  rw [vf, vg] at this
  exact ⟨f32, g32, f64, g64, hf, hg, hf64, hg64, by rw [this, he], this⟩

/-! ## non-vacuity -/

/-- `W 3` contains sums of three reduced elements at their extreme limbs, and is inside the ref10 bound 1.65·2^26/2^25 -/
example : W 3 ⟨3 * 2^25, -(3 * (2^24 + 2^20)), 3 * 2^25, 3 * (2^24 + 2^20), -(3 * 2^25), 0, 1, -1, 3 * 2^25, 3 * (2^24 + 2^20)⟩ ∧
    (3 * 2^25 : Int) ≤ 165 * 2^26 / 100 ∧ (3 * (2^24 + 2^20) : Int) ≤ 165 * 2^25 / 100 := by decide
example : W 6 ⟨6 * 2^25, 6 * (2^24 + 2^20), 0, 0, 0, 0, 0, 0, 0, -(6 * (2^24 + 2^20))⟩ := by decide
/-- the weight bound of `Mul` is not far from sharp: at weight 5 the precomputation `19 * g2` overflows i32
    (`none` = panic of the overflow-checked build) -/
example : mul ⟨0, 0, 0, 0, 0, 0, 0, 0, 0, 0⟩ ⟨0, 0, 5 * 2^25, 0, 0, 0, 0, 0, 0, 0⟩ = none := by decide
/-- a disciplined program of weight 3: (a + b − c)·(a + a + a) with a, b, c decoded from bytes -/
example (a b c : Bytes) (ha : a.length = 32) (hb : b.length = 32) (hc : c.length = 32) :
    Disc (.mul (.sub (.add (.lit a ha) (.lit b hb)) (.lit c hc)) (.add (.add (.lit a ha) (.lit a ha)) (.lit a ha))) := by
  simp [Disc, wt]
/-- the hypotheses of `to_bytes_quotient_estimate` are met by the largest weight-6 element -/
example : (2^230 * (6 * (2^24 + 2^20)) + 2^239 : Int) = 2^230 * (6 * (2^24 + 2^20)) + 2^239 ∧
    (-2^240 : Int) ≤ 2^239 ∧ (6 * (2^24 + 2^20) : Int) ≤ 2^27 := by decide

end Cx.Props.C17
