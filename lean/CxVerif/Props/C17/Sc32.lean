/-
  Props.C17.Sc32 — C17 (f): the 32-bit scalar backend's wide reduction (ref10 `sc_reduce`) and multiply-add (ref10
  `sc_muladd`), PROVED for all inputs; discharges the hypotheses `Sc32ReduceSpec` / `Sc32MuladdSpec` of
  Props/C17/B32.lean, so the cross-backend equivalences of wide reduction and muladd are unconditional.

  What is proved about `Impl.Scalar32.reduce_from_wide_bytes` (every i64 `+ - *` of the model is a checked operation):
  for EVERY 64-byte string (1) none of the ~130 multiply-accumulates and ~70 carries overflows i64, (2) the limb value
  is preserved modulo L through every fold (2^252 ≡ −δ, literals 666643 470296 654183 −997805 136657 −683901) and
  exactly through every carry, (3) after the last fold the value is in [0, L) — the final steps of ref10 bring a value
  in (−2^252, 2^252) to [0, 2^252) or add L exactly once — and (4) the 32 output bytes are its little-endian encoding.
  The same four facts for `Impl.Scalar32.muladd` on ANY three 32-byte strings (144 checked products, 23 checked column
  sums, two extra carry rounds, then the same reduction tail): the result is `(le a · le b + le c) mod L`; the
  hypothesis `le c < L` of `Sc32MuladdSpec` is not needed by the 32-bit code (`sc32_muladd_all`).
  Helper lemmas: Proofs/Scalar32MuladdA (GENERATED), Scalar32Muladd, and Proofs/Scalar32ReduceA (single statements), Scalar32ReduceB (GENERATED stage lemmas with the interval
  bounds computed by tools/sc32_bounds.py), Scalar32ReduceC (GENERATED: loads, pack), Scalar32Reduce (composition).
-/
import CxVerif.Props.C17.B32
import CxVerif.Proofs.Scalar32Reduce
import CxVerif.Proofs.Scalar32Muladd
namespace Cx.Props.C17
open Cx Cx.Spec

/-- **ref10 sc_reduce, 32-bit backend**: `reduce_from_wide_bytes s` never panics (no i64 overflow in a checked build) and
    returns the canonical 32-byte encoding of `le(s) mod L`, for EVERY 64-byte string `s` -/
theorem sc32_reduce_spec : Sc32ReduceSpec := fun s => Cx.Proofs.Scalar32.reduce_from_wide_bytes_spec s

/-- the limb-level statement behind it (inputs: ANY 24 limbs within the entry bounds of the shared reduction tail):
    no overflow, result fully carried, value in [0, L) and congruent to the 24-limb value modulo L -/
theorem sc32_reduce_limbs (s0 s1 s2 s3 s4 s5 s6 s7 s8 s9 s10 s11 s12 s13 s14 s15 s16 s17 s18 s19 s20 s21 s22 s23 : Int)
    (hb : ∀ x ∈ [s0, s1, s2, s3, s4, s5, s6, s7, s8, s9, s10, s11, s12, s13, s14, s15, s16, s17, s18, s19, s20, s21, s22], 0 ≤ x ∧ x < 2^21)
    (h23 : 0 ≤ s23 ∧ s23 < 2^29) :
    ∃ (t : Impl.Scalar32.S12) (q : Int),
      Impl.Scalar32.reduce_limbs s0 s1 s2 s3 s4 s5 s6 s7 s8 s9 s10 s11 s12 s13 s14 s15 s16 s17 s18 s19 s20 s21 s22 s23 = some t ∧
      Cx.Proofs.Scalar32.Digits12 t ∧
      Cx.Proofs.Scalar32.val12 t = Cx.Proofs.Scalar32.lin24 s0 s1 s2 s3 s4 s5 s6 s7 s8 s9 s10 s11 s12 s13 s14 s15 s16 s17 s18 s19 s20 s21 s22 s23
        - (ScalarL.L : Int) * q ∧
      0 ≤ Cx.Proofs.Scalar32.val12 t ∧ Cx.Proofs.Scalar32.val12 t < (ScalarL.L : Int) := by
  simp only [List.mem_cons, List.mem_nil_iff, or_false, forall_eq_or_imp, forall_eq] at hb
  rw [← Cx.Proofs.Scalar32.LI_eq]
  obtain ⟨t, q, h1, h2, h3, h4⟩ := Cx.Proofs.Scalar32.reduce_limbs_spec s0 s1 s2 s3 s4 s5 s6 s7 s8 s9 s10 s11 s12 s13 s14 s15 s16 s17 s18 s19 s20 s21 s22 s23 (by omega)
  exact ⟨t, q, h1, h2, h3, h4.1, h4.2⟩

/-- WIDE REDUCTION EQUIVALENCE (unconditional): both backends return the same bytes for every 64-byte string -/
theorem wide_reduction_equivalent (s : Vector UInt8 64) :
    (Impl.Scalar64.reduce_from_wide_bytes s).map Impl.Scalar64.to_bytes
      = (Impl.Scalar32.reduce_from_wide_bytes s).map Impl.Scalar32.to_bytes :=
  wide_reduction_equivalent_partial sc32_reduce_spec s

/-- non-vacuity / regression test (kernel-evaluated sample, NOT the theorem): the witness that exercises the
    "add L once" branch of the final steps, `s = L − 1` (value −1 after the rounded carries) -/
example : (Impl.Scalar32.reduce_from_wide_bytes
    (Vector.ofFn fun i : Fin 64 => (natToLE 64 (ScalarL.L - 1)).getD i.val 0)).map Impl.Scalar32.to_bytes
    = some (ScalarL.encode (ScalarL.L - 1)) := by decide +kernel

/-- **ref10 sc_muladd, 32-bit backend**, full strength: for ALL 32-byte strings a, b, c (c need not be reduced)
    `muladd a b c` never panics and returns the canonical encoding of `(le a · le b + le c) mod L` -/
theorem sc32_muladd_all (a b c : Vector UInt8 32) :
    (Impl.Scalar32.muladd a b c).map Impl.Scalar32.to_bytes
      = some (ScalarL.encode (ScalarL.muladd (ScalarL.decode a.toList) (ScalarL.decode b.toList) (ScalarL.decode c.toList))) :=
  Cx.Proofs.Scalar32.muladd_spec a b c

theorem sc32_muladd_spec : Sc32MuladdSpec := fun a b c _ => sc32_muladd_all a b c

/-- the limb-level statement: operand limbs of any three 32-byte strings (eleven 21-bit digits, top digit < 2^25):
    no overflow, result fully carried, in [0, L), congruent to a·b + c modulo L -/
theorem sc32_muladd_limbs (a b c : Fin 12 → Int)
    (ha : ∀ i, 0 ≤ a i ∧ a i < (if i.val < 11 then 2^21 else 2^25))
    (hb : ∀ i, 0 ≤ b i ∧ b i < (if i.val < 11 then 2^21 else 2^25))
    (hc : ∀ i, 0 ≤ c i ∧ c i < (if i.val < 11 then 2^21 else 2^25)) :
    ∃ (t : Impl.Scalar32.S12) (q : Int),
      Impl.Scalar32.muladd_limbs (a 0) (a 1) (a 2) (a 3) (a 4) (a 5) (a 6) (a 7) (a 8) (a 9) (a 10) (a 11)
        (b 0) (b 1) (b 2) (b 3) (b 4) (b 5) (b 6) (b 7) (b 8) (b 9) (b 10) (b 11)
        (c 0) (c 1) (c 2) (c 3) (c 4) (c 5) (c 6) (c 7) (c 8) (c 9) (c 10) (c 11) = some t ∧
      Cx.Proofs.Scalar32.Digits12 t ∧
      Cx.Proofs.Scalar32.val12 t =
        Cx.Proofs.Scalar32.lin12 (a 0) (a 1) (a 2) (a 3) (a 4) (a 5) (a 6) (a 7) (a 8) (a 9) (a 10) (a 11)
          * Cx.Proofs.Scalar32.lin12 (b 0) (b 1) (b 2) (b 3) (b 4) (b 5) (b 6) (b 7) (b 8) (b 9) (b 10) (b 11)
          + Cx.Proofs.Scalar32.lin12 (c 0) (c 1) (c 2) (c 3) (c 4) (c 5) (c 6) (c 7) (c 8) (c 9) (c 10) (c 11)
          - (ScalarL.L : Int) * q ∧
      0 ≤ Cx.Proofs.Scalar32.val12 t ∧ Cx.Proofs.Scalar32.val12 t < (ScalarL.L : Int) := by
  rw [← Cx.Proofs.Scalar32.LI_eq]
  have h (f : Fin 12 → Int) (hf : ∀ i, 0 ≤ f i ∧ f i < (if i.val < 11 then 2^21 else 2^25)) :
      (0 ≤ f 0 ∧ f 0 < 2^21) ∧ (0 ≤ f 1 ∧ f 1 < 2^21) ∧ (0 ≤ f 2 ∧ f 2 < 2^21) ∧ (0 ≤ f 3 ∧ f 3 < 2^21) ∧
      (0 ≤ f 4 ∧ f 4 < 2^21) ∧ (0 ≤ f 5 ∧ f 5 < 2^21) ∧ (0 ≤ f 6 ∧ f 6 < 2^21) ∧ (0 ≤ f 7 ∧ f 7 < 2^21) ∧
      (0 ≤ f 8 ∧ f 8 < 2^21) ∧ (0 ≤ f 9 ∧ f 9 < 2^21) ∧ (0 ≤ f 10 ∧ f 10 < 2^21) ∧ (0 ≤ f 11 ∧ f 11 < 2^25) :=
    ⟨hf 0, hf 1, hf 2, hf 3, hf 4, hf 5, hf 6, hf 7, hf 8, hf 9, hf 10, hf 11⟩
  obtain ⟨t, q, h1, h2, h3, h4⟩ := Cx.Proofs.Scalar32.muladd_limbs_spec _ _ _ _ _ _ _ _ _ _ _ _ _ _ _ _ _ _ _ _ _ _ _ _
    _ _ _ _ _ _ _ _ _ _ _ _ (h a ha) (h b hb) (h c hc)
  exact ⟨t, q, h1, h2, h3, h4.1, h4.2⟩

/-- MULADD EQUIVALENCE (unconditional in the 32-bit ingredient): both backends return the same bytes for all 32-byte
    a, b and reduced c (for c ≥ L the 64-bit backend is outside its contract, see B32.lean) -/
theorem muladd_equivalent (a b c : Vector UInt8 32) (hc : ScalarL.decode c.toList < ScalarL.L) :
    (Impl.Scalar64.muladd (Impl.Scalar64.from_bytes a) (Impl.Scalar64.from_bytes b) (Impl.Scalar64.from_bytes c)).map
        Impl.Scalar64.to_bytes
      = (Impl.Scalar32.muladd a b c).map Impl.Scalar32.to_bytes :=
  muladd_equivalent_partial sc32_muladd_spec a b c hc

/-- the hypothesis of `muladd_equivalent` is satisfiable (c = L − 1), and a kernel-evaluated sample of the model
    (a test, NOT the theorem): (2^256−1)·(2^256−1) + (2^256−1) with an unreduced c -/
example : ScalarL.decode (Vector.ofFn fun i : Fin 32 => (natToLE 32 (ScalarL.L - 1)).getD i.val 0).toList < ScalarL.L := by
  decide +kernel
example : (Impl.Scalar32.muladd (Vector.replicate 32 0xff) (Vector.replicate 32 0xff) (Vector.replicate 32 0xff)).map
      Impl.Scalar32.to_bytes
    = some (ScalarL.encode (((2^256 - 1) * (2^256 - 1) + (2^256 - 1)) % ScalarL.L)) := by decide +kernel

end Cx.Props.C17
