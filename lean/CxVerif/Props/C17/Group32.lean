/-
  Props.C17.Group32 — C17 ABOVE the field/scalar layer: the GROUP and PROTOCOL code of the crate (`curve25519/ge.rs`,
  the X25519 ladder of `curve25519/mod.rs`, `ed25519.rs`) is backend-generic Rust; compiled with
  `--features force-32bits` (or for `target_arch = "arm"`) it runs on `Fe = fe32::Fe`, `Scalar = scalar32::Scalar`.
  Models: Impl/Ge32.lean, Impl/X25519_32.lean, Impl/Ed25519_32.lean — the SAME model text as the 64-bit
  Impl/Ge.lean, Impl/X25519.lean, Impl/Ed25519.lean with the 32-bit field/scalar operations (every i32/i64 `+ - *`
  checked: `= some …` includes "no overflow panic in an overflow-checked build").

  What is proved, for ALL inputs (only the length/domain guards of the 64-bit theorems of C12–C15 remain; primality of
  2^255 − 19 and the Edwards group law are THEOREMS: Proofs/Prime25519.lean, Proofs/EdwardsGroupLaw.lean):
    (A) `curve25519` / `curve25519_base` of the 32-bit build = RFC 7748 X25519;
    (B) `keypair`, `signature`, `signature_extended`, `extended_to_public`, `exchange` of the 32-bit build = RFC 8032 /
        the Spec functions;
    (C) `verify` of the 32-bit build = `some (Spec.Ed25519.verify …)`: never panics, same verdict as the Spec;
    (D) every group operation of ge.rs on the 32-bit limb model represents the Spec point operation and stays inside
        the ref10 BOUND DISCIPLINE (Proofs/Ge32Refine.lean: operands of `Mul`/`square` of weight ≤ 3 — sums/differences
        of at most three carried values —, of `to_bytes`/predicates of weight ≤ 6; representation predicates
        `GeOk`/`PartialOk` weight 1, `P1P1Ok` ≤ 3, `CachedOk` 2/1, `PrecompOk` 1);
    (E) BACKEND EQUIVALENCE as corollaries of "both equal the same Spec": `x25519_backends_agree`,
        `ed25519_keypair_backends_agree`, `ed25519_signature_backends_agree`, `ed25519_verify_backends_agree`,
        `ed25519_exchange_backends_agree`, `group_ops_backends_agree` — identical byte strings / verdicts.
  Helpers: Proofs/Ge32Refine, Ge32Select, Ge32Comb, Ge32Bytes, Ge32Decode, Ge32Dsm, X25519_32Ladder, Ed25519_32Sign,
  Ed25519_32Verify, Ge32Agree.
-/
import CxVerif.Proofs.Ge32Agree
import CxVerif.Proofs.Prime25519
import CxVerif.Proofs.EdwardsGroupLaw
import CxVerif.Props.C12.X25519
import CxVerif.Props.C13.Final
import CxVerif.Props.C14.Final
import CxVerif.Props.C14.Honest
import CxVerif.Proofs.EdRoundTrip
namespace Cx.Props.C17
open Cx Cx.Spec Cx.Proofs.EdSpec
open Cx.Proofs.EdGroup (edwardsGroupLaw)
open Cx.Spec.Field25519 (p)
open Cx.Spec.ScalarL (L)
open Cx.Proofs.Ge32Agree (binopSpec unopSpec dsmSpec)

set_option maxRecDepth 10000

/-- the group law (a theorem: Proofs/EdwardsGroupLaw.lean) in the form the helper developments look it up -/
local instance groupLawFact32 : Proofs.GeComb.GroupLawFact := ⟨edwardsGroupLaw⟩

/-! ## (A) X25519 on the 32-bit field backend -/

/-- **X25519, 32-bit backend.**  For all 32-byte `n`, `u`: `curve25519(n, u)` compiled against fe32 does not overflow
    (`some`) and returns exactly `X25519(n, u)` of RFC 7748 (clamping, masking of bit 255 of `u`, non-canonical `u`,
    255 ladder steps with masked swaps on `[i32; 10]`, final swap, inversion, canonical encoding) -/
theorem curve25519_32 (n u : Bytes) (hn : n.length = 32) (hu : u.length = 32) :
    Impl.X25519_32.curve25519 n u hn hu = some (X25519.x25519 n u) :=
  Proofs.X25519_32.curve25519_eq n u hn hu

/-- the fixed-base function of the 32-bit build is X25519(n, 9) -/
theorem curve25519_base_32 (n : Bytes) (hn : n.length = 32) :
    Impl.X25519_32.curve25519_base n hn = some (X25519.x25519Base n) :=
  Proofs.X25519_32.curve25519_base_eq n hn

/-- the wrapper API of x25519.rs on the 32-bit build -/
theorem dh_32 (n u : Bytes) (hn : n.length = 32) (hu : u.length = 32) :
    Impl.X25519_32.dh n u hn hu = some (X25519.x25519 n u) := curve25519_32 n u hn hu
theorem base_32 (n : Bytes) (hn : n.length = 32) :
    Impl.X25519_32.base n hn = some (X25519.x25519Base n) := curve25519_base_32 n hn

/-- one ladder iteration on the 32-bit backend: registers of weight 1 in, no i32/i64 overflow in the 18 field
    operations, registers of weight 1 out, RFC 7748 values (the bound discipline of the ladder) -/
theorem ladder_step_32 (z5k : Impl.X25519_32.Z5) (x1v : Nat) (hz5 : Proofs.X25519_32.Z5Ok z5k x1v)
    (x2 z2 x3 z3 : Impl.Fe32.Fe) (hx2 : Proofs.Fe32.W 1 x2) (hz2 : Proofs.Fe32.W 1 z2) (hx3 : Proofs.Fe32.W 1 x3)
    (hz3 : Proofs.Fe32.W 1 z3) :
    ∃ x4 z4 x5 z5, Impl.X25519_32.ladderArith 121666 z5k x2 z2 x3 z3 = some (x4, z4, x5, z5) ∧
      Proofs.Fe32.W 1 x4 ∧ Proofs.Fe32.W 1 z4 ∧ Proofs.Fe32.W 1 x5 ∧ Proofs.Fe32.W 1 z5 ∧
      (Proofs.Fe32.eval x4, Proofs.Fe32.eval z4, Proofs.Fe32.eval x5, Proofs.Fe32.eval z5)
        = Proofs.X25519.specArith x1v (Proofs.Fe32.eval x2) (Proofs.Fe32.eval z2) (Proofs.Fe32.eval x3)
            (Proofs.Fe32.eval z3) :=
  Proofs.X25519_32.ladderArith_spec z5k x1v hz5 x2 z2 x3 z3 hx2 hz2 hx3 hz3

/-! ## (B) Ed25519 key generation, signing, exchange on the 32-bit backends -/

/-- **keypair, 32-bit backends**: `keypair seed = (seed ‖ ENC([s]B), ENC([s]B))`, every 32-byte seed -/
theorem keypair_32 (seed : Bytes) (hs : seed.length = 32) :
    Impl.Ed25519_32.keypair seed = some (Spec.Ed25519.keypair seed) :=
  Proofs.Ed25519_32Sign.keypair_eq seed hs

/-- **signature, 32-bit backends**: `signature(M, keypair(seed).0)` = `R ‖ S` of RFC 8032 §5.1.6 -/
theorem signature_32 (seed msg : Bytes) (hs : seed.length = 32) (hm : msg.length < 2 ^ 124) :
    Impl.Ed25519_32.signature msg (Spec.Ed25519.keypair seed).1 = some (Spec.Ed25519.sign seed msg) :=
  Proofs.Ed25519_32Sign.signature_eq msg seed (Spec.Ed25519.publicKey seed) hs
    (Proofs.Ed25519Sign.encode_length _) hm

/-- `signature` hashes the public half it is given (it does not recompute it) -/
theorem signature_with_any_public_half_32 (seed pk msg : Bytes) (hs : seed.length = 32) (hpk : pk.length = 32)
    (hm : msg.length < 2 ^ 124) :
    Impl.Ed25519_32.signature msg (seed ++ pk) = some (Spec.Ed25519.signWith (Spec.Ed25519.secretScalar seed)
      (Spec.Ed25519.noncePrefix seed) pk msg) :=
  Proofs.Ed25519_32Sign.signature_eq msg seed pk hs hpk hm

/-- `keypair` then `signature`, as the user runs them -/
theorem keypair_then_signature_32 (seed msg : Bytes) (hs : seed.length = 32) (hm : msg.length < 2 ^ 124) :
    (Impl.Ed25519_32.keypair seed).bind (fun kp => Impl.Ed25519_32.signature msg kp.1)
      = some (Spec.Ed25519.sign seed msg) := by
  rw [keypair_32 seed hs, Option.bind_some]
  exact signature_32 seed msg hs hm

/-- **extended_to_public, 32-bit backends** (scalar half below 2^255: the documented range) -/
theorem extended_to_public_32 (ext : Bytes) (hl : ext.length = 64) (hlt : leNat (ext.take 32) < 2 ^ 255) :
    Impl.Ed25519_32.extended_to_public ext = some (Spec.Ed25519.extendedToPublic ext) :=
  Proofs.Ed25519_32Sign.extended_to_public_eq ext hl hlt

/-- **signature_extended, 32-bit backends** -/
theorem signature_extended_32 (msg ext : Bytes) (hl : ext.length = 64) (hlt : leNat (ext.take 32) < 2 ^ 255)
    (hm : msg.length < 2 ^ 124) :
    Impl.Ed25519_32.signature_extended msg ext = some (Spec.Ed25519.signExtended ext msg) :=
  Proofs.Ed25519_32Sign.signature_extended_eq msg ext hl hlt hm

/-- **exchange, 32-bit backends**: X25519(pruned hashed secret, (1+y)/(1−y)), every 32-byte key and seed -/
theorem exchange_32 (pk seed : Bytes) (hpk : pk.length = 32) (hs : seed.length = 32) :
    Impl.Ed25519_32.exchange pk seed = some (Spec.Ed25519.exchange pk seed) :=
  Proofs.Ed25519_32Verify.exchange_eq pk seed hpk hs

/-! ## (C) verification on the 32-bit backends -/

/-- **verify, 32-bit backends**: never panics and computes the Spec predicate (cofactorless equation, canonical S,
    decodable non-zero key), for every message below 2^124 bytes -/
theorem verify_32 (msg pk sig : Bytes) (hpk : pk.length = 32) (hsig : sig.length = 64) (hm : msg.length < 2 ^ 124) :
    Impl.Ed25519_32.verify msg pk sig = some (Spec.Ed25519.verify msg pk sig) :=
  Proofs.Ed25519_32Verify.verify_eq msg pk sig hpk hsig hm

/-- honest signatures of the 32-bit build are accepted by the 64-bit build and vice versa is `ed25519_verify_backends_agree`
    below; here: the 32-bit verdict is `true` exactly on the Spec's acceptance set -/
theorem verify_32_accepts_iff (msg pk sig : Bytes) (hpk : pk.length = 32) (hsig : sig.length = 64)
    (hm : msg.length < 2 ^ 124) :
    Impl.Ed25519_32.verify msg pk sig = some true ↔ Spec.Ed25519.verify msg pk sig = true := by
  rw [verify_32 msg pk sig hpk hsig hm]; simp

/-! ## (D) the group operations of ge.rs on the 32-bit limb model -/

section groupops
open Cx.Impl.Ge32 Cx.Proofs.Ge32Refine

/-- `&Ge + &GeCached` represents the affine sum — no overflow, P1P1 result of weight ≤ 3 -/
theorem add_cached_32 (g : Ge) (c : GeCached) (P Q : Edwards.Point) (hg : GeOk g P) (hc : CachedOk c Q)
    (hP : OnCurve P) (hQ : OnCurve Q) : ∃ r, g.add_cached c = some r ∧ P1P1Ok r (Edwards.add P Q) :=
  add_cached_ok g c P Q hg hc hP hQ

theorem sub_cached_32 (g : Ge) (c : GeCached) (P Q : Edwards.Point) (hg : GeOk g P) (hc : CachedOk c Q)
    (hP : OnCurve P) (hQ : OnCurve Q) : ∃ r, g.sub_cached c = some r ∧ P1P1Ok r (Edwards.sub P Q) :=
  sub_cached_ok g c P Q hg hc hP hQ

theorem add_precomp_32 (g : Ge) (c : GePrecomp) (P Q : Edwards.Point) (hg : GeOk g P) (hc : PrecompOk c Q)
    (hP : OnCurve P) (hQ : OnCurve Q) : ∃ r, g.add_precomp c = some r ∧ P1P1Ok r (Edwards.add P Q) :=
  add_precomp_ok g c P Q hg hc hP hQ

theorem sub_precomp_32 (g : Ge) (c : GePrecomp) (P Q : Edwards.Point) (hg : GeOk g P) (hc : PrecompOk c Q)
    (hP : OnCurve P) (hQ : OnCurve Q) : ∃ r, g.sub_precomp c = some r ∧ P1P1Ok r (Edwards.sub P Q) :=
  sub_precomp_ok g c P Q hg hc hP hQ

/-- doubling (`Ge::double_p1p1` and `GePartial::double_p1p1`) represents `2P` -/
theorem double_32 (g : Ge) (P : Edwards.Point) (hg : GeOk g P) (hP : OnCurve P) :
    ∃ r, g.double_p1p1 = some r ∧ P1P1Ok r (Edwards.double P) := ge_double_p1p1_ok g P hg hP

theorem partial_double_32 (g : GePartial) (P : Edwards.Point) (hg : PartialOk g P) (hP : OnCurve P) :
    ∃ r, g.double_p1p1 = some r ∧ P1P1Ok r (Edwards.double P) := partial_double_p1p1_ok g P hg hP

/-- the representation changes keep the point and return to weight 1 -/
theorem to_full_32 (r : GeP1P1) (P : Edwards.Point) (h : P1P1Ok r P) : ∃ g, r.to_full = some g ∧ GeOk g P :=
  to_full_ok r P h
theorem to_partial_32 (r : GeP1P1) (P : Edwards.Point) (h : P1P1Ok r P) :
    ∃ g, r.to_partial = some g ∧ PartialOk g P := to_partial_ok r P h
theorem to_cached_32 (g : Ge) (P : Edwards.Point) (h : GeOk g P) : ∃ c, g.to_cached = some c ∧ CachedOk c P :=
  to_cached_ok g P h

/-- `Ge::negate` represents `−P` -/
theorem negate_32 (g : Ge) (P : Edwards.Point) (h : GeOk g P) : ∃ r, g.negate = some r ∧ GeOk r (Edwards.neg P) :=
  negate_ok g P h

/-- `GePrecomp::select(pos, b)` (masked lookup on `[i32; 10]` entries, conditional negation) for −8 ≤ b ≤ 8 is the
    identity, the table entry for |b| or its negation -/
theorem select_32 (pos : Nat) (b : Int) (hb : -8 ≤ b ∧ b ≤ 8) (e0 e1 e2 e3 e4 e5 e6 e7 : GePrecomp)
    (hrow : GE_BASE[pos]? = some [e0, e1, e2, e3, e4, e5, e6, e7]) (Q : Nat → Edwards.Point)
    (h0 : PrecompOk e0 (Q 0)) (h1 : PrecompOk e1 (Q 1)) (h2 : PrecompOk e2 (Q 2)) (h3 : PrecompOk e3 (Q 3))
    (h4 : PrecompOk e4 (Q 4)) (h5 : PrecompOk e5 (Q 5)) (h6 : PrecompOk e6 (Q 6)) (h7 : PrecompOk e7 (Q 7)) :
    ∃ t, GePrecomp.select pos b = some t ∧
      PrecompOk t (if b < 0 then Edwards.neg (Proofs.GeSelect.pointOf Q b.natAbs)
        else Proofs.GeSelect.pointOf Q b.natAbs) :=
  Proofs.Ge32Select.select_ok pos b hb e0 e1 e2 e3 e4 e5 e6 e7 hrow Q h0 h1 h2 h3 h4 h5 h6 h7

/-- the tables of fe32/precomp.rs as the group layer reads them: row `j` of GE_BASE has eight weight-1 entries
    representing `[(k+1)·256^j]B`; `BI[k]` represents `[2k+1]B` -/
theorem GE_BASE_row_32 (j : Nat) (hj : j < 32) :
    ∃ e0 e1 e2 e3 e4 e5 e6 e7, GE_BASE[j]? = some [e0, e1, e2, e3, e4, e5, e6, e7] ∧
      ∀ k (e : GePrecomp), [e0, e1, e2, e3, e4, e5, e6, e7][k]? = some e →
        PrecompOk e (Edwards.smul ((k + 1) * 256 ^ j) Edwards.B) := Proofs.Ge32Comb.row_ok j hj

theorem BI_entry_32 (k : Nat) (hk : k < 8) :
    ∃ e, BI[k]? = some e ∧ PrecompOk e (Edwards.smul (2 * k + 1) Edwards.B) := Proofs.Ge32Comb.BI_entry k hk

/-- `Ge::to_bytes` / `GePartial::to_bytes` are the RFC 8032 §5.1.2 encoding of the represented point -/
theorem to_bytes_32 (g : Ge) (P : Edwards.Point) (hg : GeOk g P) (hx : P.x < p) (hy : P.y < p) :
    g.to_bytes = some (Edwards.encode P) := Proofs.Ge32Bytes.ge_to_bytes_ok g P hg hx hy

theorem partial_to_bytes_32 (g : GePartial) (P : Edwards.Point) (hg : PartialOk g P) (hx : P.x < p) (hy : P.y < p) :
    g.to_bytes = some (Edwards.encode P) := Proofs.Ge32Bytes.partial_to_bytes_ok g P hg hx hy

/-- `Ge::from_bytes` refines `Spec.Edwards.decode` (lenient §5.1.3): never panics, rejects exactly the non-points,
    otherwise a weight-1 representation of the decoded curve point -/
theorem from_bytes_32 (s : Bytes) (hs : s.length = 32) :
    match Edwards.decode s with
    | none => Ge.from_bytes s = some none
    | some P => OnCurve P ∧ ∃ g, Ge.from_bytes s = some (some g) ∧ GeOk g P :=
  Proofs.Ge32Decode.from_bytes_refines_decode s hs

/-- round trip on the 32-bit backend: `to_bytes` then `from_bytes` never panics / refuses and returns a weight-1
    representation of the same curve point -/
theorem from_bytes_to_bytes_32 (g : Ge) (P : Edwards.Point) (h : GeOk g P) (hP : OnCurve P) :
    ∃ b g', g.to_bytes = some b ∧ Ge.from_bytes b = some (some g') ∧ GeOk g' P := by
  obtain ⟨hx, hy, _⟩ := (onCurve_iff P).1 hP
  obtain ⟨_, g', e, ok⟩ := Proofs.Ge32Decode.from_bytes_of_decode (Edwards.encode P)
    (Proofs.Ed25519Sign.encode_length P) P (Proofs.EdRoundTrip.decode_encode P hP)
  exact ⟨_, g', Proofs.Ge32Bytes.ge_to_bytes_ok g P h hx hy, e, ok⟩

/-- **fixed-base scalar multiplication, 32-bit backends**: for every scalar (any 32 bytes) with value `a < 2^255`,
    `scalarmult_base` returns (no panic) a representation of `[a]B` and its `to_bytes` is `encode([a]B)` -/
theorem scalarmult_base_32 (s : Impl.Scalar32.Scalar) (ha : leNat s.toList < 2 ^ 255) :
    ∃ h, Ge.scalarmult_base s = some h ∧ GeOk h (Edwards.smul (leNat s.toList) Edwards.B) ∧
      h.to_bytes = some (Edwards.encode (Edwards.smul (leNat s.toList) Edwards.B)) :=
  Proofs.Ed25519_32Sign.base_mul_scalar s ha

/-- **double-scalar multiplication, 32-bit backends**: `double_scalarmult_vartime(a, A, b)` represents `[a]A + [b]B` for
    scalars below 2^255 (sliding-window recoding of both, odd-multiples tables, window loop) -/
theorem double_scalarmult_32 (a b : Impl.Scalar32.Scalar) (g : Ge) (A : Edwards.Point)
    (hav : leNat a.toList < 2 ^ 255) (hbv : leNat b.toList < 2 ^ 255) (hg : GeOk g A) (hA : OnCurve A) :
    ∃ r, GePartial.double_scalarmult_vartime a g b = some r ∧
      PartialOk r (Edwards.add (Edwards.smul (leNat a.toList) A) (Edwards.smul (leNat b.toList) Edwards.B)) :=
  Proofs.Ge32Dsm.dsm_ok a b g A hav hbv hg hA

/-- `Scalar::slide` on the bits of a 32-bit-backend scalar: no `i8` overflow, value preserved, digits 0 or odd, |d| ≤ 15 -/
theorem slide_32 (s : Impl.Scalar32.Scalar) (ha : leNat s.toList < 2 ^ 255) :
    ∃ r, slide s = some r ∧ ScalarL.evalDigits 2 r.toList = (leNat s.toList : Int) ∧
      ∀ d ∈ r.toList, Proofs.Scalar64.Slide.Dig d := Proofs.Ge32Dsm.slide_spec s ha

end groupops

/-! ## (E) backend equivalence: the two builds return identical bytes / verdicts -/

/-- **X25519**: both builds return the same 32 bytes for every scalar and every u-coordinate -/
theorem x25519_backends_agree (n u : Bytes) (hn : n.length = 32) (hu : u.length = 32) :
    Impl.X25519_32.curve25519 n u hn hu = Impl.X25519.curve25519 n u hn hu ∧
    Impl.X25519_32.curve25519_base n hn = Impl.X25519.curve25519_base n hn := by
  rw [curve25519_32, curve25519_base_32, C12.curve25519_eq_x25519, C12.curve25519_base_eq_x25519]
  exact ⟨rfl, rfl⟩

/-- **Ed25519 key generation**: same keypair and public key from every seed; same public key from every extended secret
    in the documented range -/
theorem ed25519_keypair_backends_agree (seed : Bytes) (hs : seed.length = 32) :
    Impl.Ed25519_32.keypair seed = Impl.Ed25519.keypair seed := by
  rw [keypair_32 seed hs, C13.keypair_is_rfc8032 seed hs]

theorem ed25519_extended_to_public_backends_agree (ext : Bytes) (hl : ext.length = 64)
    (hlt : leNat (ext.take 32) < 2 ^ 255) :
    Impl.Ed25519_32.extended_to_public ext = Impl.Ed25519.extended_to_public ext := by
  rw [extended_to_public_32 ext hl hlt, C13.extended_to_public_is_spec ext hl hlt]

/-- **Ed25519 signing**: same 64 signature bytes for every seed, every public half handed in and every message;
    same for `signature_extended` -/
theorem ed25519_signature_backends_agree (seed pk msg : Bytes) (hs : seed.length = 32) (hpk : pk.length = 32)
    (hm : msg.length < 2 ^ 124) :
    Impl.Ed25519_32.signature msg (seed ++ pk) = Impl.Ed25519.signature msg (seed ++ pk) := by
  rw [signature_with_any_public_half_32 seed pk msg hs hpk hm,
    C13.signature_with_any_public_half seed pk msg hs hpk hm]

/-- the same for an arbitrary 64-byte keypair array (as the Rust signature `keypair: &[u8; 64]` reads) -/
theorem ed25519_signature_backends_agree_kp (kp msg : Bytes) (hk : kp.length = 64) (hm : msg.length < 2 ^ 124) :
    Impl.Ed25519_32.signature msg kp = Impl.Ed25519.signature msg kp := by
  have h := ed25519_signature_backends_agree (kp.take 32) (kp.drop 32) msg (by simp [hk]) (by simp [hk]) hm
  rwa [List.take_append_drop] at h

theorem ed25519_signature_extended_backends_agree (msg ext : Bytes) (hl : ext.length = 64)
    (hlt : leNat (ext.take 32) < 2 ^ 255) (hm : msg.length < 2 ^ 124) :
    Impl.Ed25519_32.signature_extended msg ext = Impl.Ed25519.signature_extended msg ext := by
  rw [signature_extended_32 msg ext hl hlt hm, C13.signature_extended_is_spec msg ext hl hlt hm]

/-- **Ed25519 verification**: same verdict (and no panic in either build) for every message, key and signature -/
theorem ed25519_verify_backends_agree (msg pk sig : Bytes) (hpk : pk.length = 32) (hsig : sig.length = 64)
    (hm : msg.length < 2 ^ 124) :
    Impl.Ed25519_32.verify msg pk sig = Impl.Ed25519.verify msg pk sig := by
  rw [verify_32 msg pk sig hpk hsig hm, C14.verify_is_spec_predicate msg pk sig hpk hsig hm]

/-- **interoperability**: what one build signs, the other build accepts (and itself accepts) — key generation and signing
    on the 32-bit build, verification on the 64-bit build, and the other way round; all four combinations answer `true` -/
theorem signatures_interoperate (seed msg : Bytes) (hs : seed.length = 32) (hm : msg.length < 2 ^ 124) :
    ((Impl.Ed25519_32.keypair seed).bind fun k => (Impl.Ed25519_32.signature msg k.1).bind fun sig =>
        Impl.Ed25519.verify msg k.2 sig) = some true ∧
    ((Impl.Ed25519.keypair seed).bind fun k => (Impl.Ed25519.signature msg k.1).bind fun sig =>
        Impl.Ed25519_32.verify msg k.2 sig) = some true ∧
    ((Impl.Ed25519_32.keypair seed).bind fun k => (Impl.Ed25519_32.signature msg k.1).bind fun sig =>
        Impl.Ed25519_32.verify msg k.2 sig) = some true := by
  have hpk : (Spec.Ed25519.publicKey seed).length = 32 := Proofs.Ed25519Sign.encode_length _
  have hsig : (Spec.Ed25519.sign seed msg).length = 64 := Proofs.Ed25519Honest.signWith_length _ _ _ _
  have h32 : Impl.Ed25519_32.verify msg (Spec.Ed25519.publicKey seed) (Spec.Ed25519.sign seed msg) = some true := by
    rw [verify_32 msg _ _ hpk hsig hm, C14.spec_verify_sign]
  refine ⟨?_, ?_, ?_⟩
  · rw [keypair_32 seed hs, Option.bind_some, signature_32 seed msg hs hm, Option.bind_some]
    exact C14.honest_signature_verifies seed msg hs hm
  · rw [C13.keypair_is_rfc8032 seed hs, Option.bind_some, C13.signature_is_rfc8032 seed msg hs hm, Option.bind_some]
    exact h32
  · rw [keypair_32 seed hs, Option.bind_some, signature_32 seed msg hs hm, Option.bind_some]
    exact h32

/-- **exchange**: same shared secret -/
theorem ed25519_exchange_backends_agree (pk seed : Bytes) (hpk : pk.length = 32) (hs : seed.length = 32) :
    Impl.Ed25519_32.exchange pk seed = Impl.Ed25519.exchange pk seed := by
  rw [exchange_32 pk seed hpk hs, C13.exchange_is_x25519_of_mapped_key pk seed hpk hs]

/-- the byte-level programs over the group API (Proofs/Ge32Agree.lean: same text for both backends) are the Spec
    functions — 32-bit side -/
theorem group_programs_32 (s t a b : Bytes) (hs : s.length = 32) (ht : t.length = 32) (ha : a.length = 32)
    (hb : b.length = 32) (hav : leNat a < 2 ^ 255) (hbv : leNat b < 2 ^ 255) (f : Bool) :
    Proofs.Ge32Agree.B32.binop f s t = some (binopSpec f s t) ∧
    Proofs.Ge32Agree.B32.unop f s = some (unopSpec f s) ∧
    Proofs.Ge32Agree.B32.recode s = some ((Edwards.decode s).map Edwards.encode) ∧
    Proofs.Ge32Agree.B32.smulBase a = some (Edwards.encode (Edwards.smul (leNat a) Edwards.B)) ∧
    Proofs.Ge32Agree.B32.dsm a s b = some (dsmSpec a s b) :=
  ⟨Proofs.Ge32Agree.B32.binop_eq f s t hs ht, Proofs.Ge32Agree.B32.unop_eq f s hs,
    Proofs.Ge32Agree.B32.recode_eq s hs, Proofs.Ge32Agree.B32.smulBase_eq a ha hav,
    Proofs.Ge32Agree.B32.dsm_eq a s b ha hs hb hav hbv⟩

/-- **every group operation**: decode–operate–encode through the API of ge.rs gives identical bytes (identical
    refusals, no panic) in both builds, for ALL 32-byte point strings `s`, `t` and all scalars `a`, `b` below 2^255:
    addition and subtraction (`to_cached`, `Add/Sub<&GeCached>`, `to_full`), doubling, negation, decoding followed by
    encoding, fixed-base scalar multiplication, double-scalar multiplication -/
theorem group_ops_backends_agree (s t a b : Bytes) (hs : s.length = 32) (ht : t.length = 32) (ha : a.length = 32)
    (hb : b.length = 32) (hav : leNat a < 2 ^ 255) (hbv : leNat b < 2 ^ 255) (f : Bool) :
    Proofs.Ge32Agree.B32.binop f s t = Proofs.Ge32Agree.B64.binop f s t ∧
    Proofs.Ge32Agree.B32.unop f s = Proofs.Ge32Agree.B64.unop f s ∧
    Proofs.Ge32Agree.B32.recode s = Proofs.Ge32Agree.B64.recode s ∧
    Proofs.Ge32Agree.B32.smulBase a = Proofs.Ge32Agree.B64.smulBase a ∧
    Proofs.Ge32Agree.B32.dsm a s b = Proofs.Ge32Agree.B64.dsm a s b := by
  rw [Proofs.Ge32Agree.B32.binop_eq f s t hs ht, Proofs.Ge32Agree.B64.binop_eq f s t hs ht,
    Proofs.Ge32Agree.B32.unop_eq f s hs, Proofs.Ge32Agree.B64.unop_eq f s hs,
    Proofs.Ge32Agree.B32.recode_eq s hs, Proofs.Ge32Agree.B64.recode_eq s hs,
    Proofs.Ge32Agree.B32.smulBase_eq a ha hav, Proofs.Ge32Agree.B64.smulBase_eq a ha hav,
    Proofs.Ge32Agree.B32.dsm_eq a s b ha hs hb hav hbv, Proofs.Ge32Agree.B64.dsm_eq a s b ha hs hb hav hbv]
  exact ⟨rfl, rfl, rfl, rfl, rfl⟩

/-- representation-level form: whatever representations the two builds hold of the same curve points, the encoded sum,
    difference, double and negation coincide -/
theorem group_formulas_backends_agree (g32 : Impl.Ge32.Ge) (c32 : Impl.Ge32.GeCached) (g64 : Impl.Ge.Ge)
    (c64 : Impl.Ge.GeCached) (P Q : Edwards.Point) (hP : OnCurve P) (hQ : OnCurve Q)
    (h32 : Proofs.Ge32Refine.GeOk g32 P) (k32 : Proofs.Ge32Refine.CachedOk c32 Q)
    (h64 : Proofs.GeRefine.GeOk g64 P) (k64 : Proofs.GeRefine.CachedOk c64 Q) :
    ((g32.add_cached c32).bind (·.to_full)).bind (·.to_bytes) = ((g64.add_cached c64).bind (·.to_full)).bind (·.to_bytes) ∧
    ((g32.sub_cached c32).bind (·.to_full)).bind (·.to_bytes) = ((g64.sub_cached c64).bind (·.to_full)).bind (·.to_bytes) ∧
    g32.double.bind (·.to_bytes) = g64.double.bind (·.to_bytes) ∧
    g32.negate.bind (·.to_bytes) = g64.negate.bind (·.to_bytes) ∧
    g32.to_bytes = g64.to_bytes := by
  obtain ⟨hx, hy, _⟩ := (onCurve_iff P).1 hP
  obtain ⟨a1, e1, o1⟩ := Proofs.Ge32Refine.add_cached_ok g32 c32 P Q h32 k32 hP hQ
  obtain ⟨f1, e1', p1⟩ := Proofs.Ge32Refine.to_full_ok a1 _ o1
  obtain ⟨a2, e2, o2⟩ := Proofs.GeRefine.add_cached_ok g64 c64 P Q h64 k64 hP hQ
  obtain ⟨f2, e2', p2⟩ := Proofs.GeRefine.to_full_ok a2 _ o2
  obtain ⟨s1, e3, o3⟩ := Proofs.Ge32Refine.sub_cached_ok g32 c32 P Q h32 k32 hP hQ
  obtain ⟨f3, e3', p3⟩ := Proofs.Ge32Refine.to_full_ok s1 _ o3
  obtain ⟨s2, e4, o4⟩ := Proofs.GeRefine.sub_cached_ok g64 c64 P Q h64 k64 hP hQ
  obtain ⟨f4, e4', p4⟩ := Proofs.GeRefine.to_full_ok s2 _ o4
  obtain ⟨d1, e5, o5⟩ := Proofs.Ge32Refine.ge_double_p1p1_ok g32 P h32 hP
  obtain ⟨f5, e5', p5⟩ := Proofs.Ge32Refine.to_full_ok d1 _ o5
  obtain ⟨d2, e6, o6⟩ := Proofs.GeRefine.ge_double_p1p1_ok g64 P h64 hP
  obtain ⟨f6, e6', p6⟩ := Proofs.GeRefine.to_full_ok d2 _ o6
  obtain ⟨n1, e7, p7⟩ := Proofs.Ge32Refine.negate_ok g32 P h32
  obtain ⟨n2, e8, p8⟩ := Proofs.GeRefine.negate_ok g64 P h64
  have hd1 : g32.double = some f5 := by simp only [Impl.Ge32.Ge.double]; rw [e5, Proofs.Fe32.some_bind]; exact e5'
  have hd2 : g64.double = some f6 := by simp only [Impl.Ge.Ge.double]; rw [e6, Proofs.Fe64.some_bind]; exact e6'
  have hnx : (Edwards.neg P).x < p := Proofs.EdField.neg_lt _
  have hny : (Edwards.neg P).y < p := Nat.mod_lt _ Proofs.EdField.p_pos
  rw [e1, e2, e3, e4, hd1, hd2, e7, e8]
  simp only [Option.bind_some]
  rw [e1', e2', e3', e4']
  simp only [Option.bind_some]
  rw [Proofs.Ge32Bytes.ge_to_bytes_ok f1 _ p1 (add_x_lt P Q) (add_y_lt P Q),
    Proofs.GeBytes.ge_to_bytes_ok f2 _ p2 (add_x_lt P Q) (add_y_lt P Q),
    Proofs.Ge32Bytes.ge_to_bytes_ok f3 _ p3 (add_x_lt P _) (add_y_lt P _),
    Proofs.GeBytes.ge_to_bytes_ok f4 _ p4 (add_x_lt P _) (add_y_lt P _),
    Proofs.Ge32Bytes.ge_to_bytes_ok f5 _ p5 (add_x_lt P P) (add_y_lt P P),
    Proofs.GeBytes.ge_to_bytes_ok f6 _ p6 (add_x_lt P P) (add_y_lt P P),
    Proofs.Ge32Bytes.ge_to_bytes_ok n1 _ p7 hnx hny, Proofs.GeBytes.ge_to_bytes_ok n2 _ p8 hnx hny,
    Proofs.Ge32Bytes.ge_to_bytes_ok g32 P h32 hx hy, Proofs.GeBytes.ge_to_bytes_ok g64 P h64 hx hy]
  exact ⟨rfl, rfl, rfl, rfl, rfl⟩

/-! ## non-vacuity of the hypotheses, and kernel-evaluated samples of the 32-bit models (tests, NOT the theorems) -/

/-- lengths: a 32-byte seed / key / scalar, a 64-byte signature / extended secret, a 300-byte message -/
example : (List.replicate 32 (7 : UInt8)).length = 32 ∧ (List.replicate 64 (1 : UInt8)).length = 64 ∧
    (List.replicate 300 (1 : UInt8)).length < 2 ^ 124 := by decide

/-- an extended secret / a scalar below 2^255 (top byte 0x7f) -/
example : leNat ((List.replicate 31 (0xff : UInt8) ++ [0x7f] ++ List.replicate 32 (3 : UInt8)).take 32) < 2 ^ 255 := by
  decide +kernel

/-- the representation predicates are inhabited: `Ge::ZERO` of the 32-bit backend represents the neutral element, which
    is on the curve, as is the base point -/
example : Proofs.Ge32Refine.GeOk Impl.Ge32.Ge.ZERO Edwards.zero ∧ OnCurve Edwards.zero ∧ OnCurve Edwards.B :=
  ⟨Proofs.Ge32Refine.ZERO_ok, zero_onCurve, Proofs.Ge.B_spec.1⟩

/-- cached / precomputed representations exist: `to_cached` of `Ge::ZERO`, the first table entry -/
example : ∃ c, Impl.Ge32.Ge.ZERO.to_cached = some c ∧ Proofs.Ge32Refine.CachedOk c Edwards.zero :=
  Proofs.Ge32Refine.to_cached_ok _ _ Proofs.Ge32Refine.ZERO_ok
example : ∃ e, Impl.Ge32.BI[0]? = some e ∧ Proofs.Ge32Refine.PrecompOk e (Edwards.smul (2 * 0 + 1) Edwards.B) :=
  Proofs.Ge32Comb.BI_entry 0 (by decide)

/-- the hypothesis of `ladder_step_32` is satisfiable: `z5 = t2.mul_small::<9>()` with `x1 = 9` -/
example : Proofs.X25519_32.Z5Ok (.small 9) 9 := ⟨by decide, rfl⟩

/-- hypotheses of `select_32`: digits in [−8, 8] -/
example : (-8 : Int) ≤ -3 ∧ (-3 : Int) ≤ 8 := by decide

end Cx.Props.C17
