/-
  Props.C17.GlueTieCurve32 — the translator tie for the CURVE LAYER of the build with `feature = "force-32bits"`
  (`Fe = fe32::Fe`, `Scalar = scalar32::Scalar`), above the fe32 / scalar32 kernels.
  `Extracted/GlueCurve32.lean` is regenerated from the CURRENT /repo/src (curve25519/ge.rs, ed25519.rs, curve25519/mod.rs,
  x25519.rs, fe/mod.rs, scalar/mod.rs — the same backend-generic files as Props/C15/GlueTieCurve.lean) on every run by
  tools/ktx_glue_curve.py with the specs of tools/kernels/glue_curve32.py: the cfg table of the 32-bit build, callees = the
  functions of Impl.Fe32 / Impl.Scalar32 (themselves tied by Props/C17/KernelTieB32.lean and Props/C20/GlueTieRest.lean).
  For every translated function `f` the theorem `f_src_eq_model` says that the hand-written model of Impl/Ge32.lean,
  Impl/X25519_32.lean, Impl/Ed25519_32.lean — about which Props/C17/Group32.lean proves equality with the Spec — IS that
  code, for ALL arguments (every representation, every digit, every byte string of every length): a changed operand, sign,
  table index, loop bound, carry, bit position or order of refusals in the source changes the generated definition and
  breaks a proof obligation here (and in Props/C15/GlueTieCurve.lean) even when no sampled input reaches it.
  `fe_backend_cfg` / `scalar_backend_cfg` pin which backend module the generic names denote under that cfg table.
  `rfl` where the translator emits exactly the model's shape; proved (case analysis / induction) where the shapes differ.
  Independent of the 64-bit tie: neither Extracted/GlueCurve.lean nor Proofs/GlueCurve.lean is imported.
-/
import CxVerif.Proofs.GlueCurve32
namespace Cx.Props.C17.GlueTieCurve32
open Cx Cx.Impl Cx.Impl.Fe32 Cx.Impl.Ge32 Cx.Extracted.GlueCurve32 Cx.Proofs.GlueCurve32
open Cx.Impl.Ge (setSign bnegativeOf babsOf recodeLoop recode topIndex)

/-! ## the cfg table: under `feature = "force-32bits"` fe/mod.rs re-exports `fe32`, scalar/mod.rs re-exports `scalar32` -/

theorem fe_backend_cfg : fe_backend_cfg_src = "fe32" := by rfl
theorem scalar_backend_cfg : scalar_backend_cfg_src = "scalar32" := by rfl

/-! ## (c) ge.rs — representations and formulas -/

theorem GeAffine.to_bytes_src_eq_model (s : GeAffine) : GeAffine.to_bytes_src s = GeAffine.to_bytes s := by rfl
/-- the decompression of RFC 8032 5.1.3 (incl. both refusals and the sign adjustment), for every byte string -/
theorem GeAffine.from_bytes_src_eq_model (s : Bytes) : GeAffine.from_bytes_src s = GeAffine.from_bytes s := by
  unfold GeAffine.from_bytes_src GeAffine.from_bytes
  by_cases h : s.length = 32
  · rw [if_pos h, dif_pos h]
    have hy : fromBytes s = from_bytes s h := by simp only [fromBytes, dif_pos h]
    rw [hy]
    refine bind_congr fun y => ?_
    refine bind_congr fun y2 => ?_
    refine bind_congr fun u => ?_
    refine bind_congr fun yd => ?_
    refine bind_congr fun v => ?_
    refine bind_congr fun vv => ?_
    refine bind_congr fun v3 => ?_
    refine bind_congr fun v3v3 => ?_
    refine bind_congr fun v7 => ?_
    refine bind_congr fun uv7 => ?_
    refine bind_congr fun pw => ?_
    refine bind_congr fun pv => ?_
    refine bind_congr fun x => ?_
    refine bind_congr fun xx => ?_
    refine bind_congr fun vxx => ?_
    refine bind_congr fun check => ?_
    refine bind_congr fun b => ?_
    cases b
    · rw [if_neg (by decide), if_neg (by decide)]
      dsimp only
      exact GeAffine.from_bytes_k1 s h _ x
    · rw [if_pos rfl, if_pos rfl]
      refine bind_congr fun check2 => ?_
      refine bind_congr fun b2 => ?_
      cases b2
      · rw [if_neg (by decide), if_neg (by decide)]
        refine bind_congr fun x' => ?_
        dsimp only
        exact GeAffine.from_bytes_k1 s h _ x'
      · rw [if_pos rfl, if_pos rfl]
  · rw [if_neg h, dif_neg h]
theorem GeP1P1.to_partial_src_eq_model (s : GeP1P1) : GeP1P1.to_partial_src s = GeP1P1.to_partial s := by rfl
theorem GeP1P1.to_full_src_eq_model (s : GeP1P1) : GeP1P1.to_full_src s = GeP1P1.to_full s := by rfl
theorem GePartial.ZERO_src_eq_model : GePartial.ZERO_src = GePartial.ZERO := by rfl
theorem GePartial.to_bytes_src_eq_model (s : GePartial) : GePartial.to_bytes_src s = GePartial.to_bytes s := by rfl
theorem GePartial.double_p1p1_src_eq_model (s : GePartial) : GePartial.double_p1p1_src s = GePartial.double_p1p1 s := by rfl
theorem GePartial.double_src_eq_model (s : GePartial) : GePartial.double_src s = GePartial.double s := by rfl
theorem GePartial.double_full_src_eq_model (s : GePartial) : GePartial.double_full_src s = GePartial.double_full s := by rfl
theorem Ge.ZERO_src_eq_model : Ge.ZERO_src = Ge.ZERO := by rfl
theorem Ge.from_affine_src_eq_model (a : GeAffine) : Ge.from_affine_src a = Ge.from_affine a := by rfl
theorem Ge.to_affine_src_eq_model (s : Ge) : Ge.to_affine_src s = Ge.to_affine s := by rfl
theorem Ge.from_bytes_src_eq_model (s : Bytes) : Ge.from_bytes_src s = Ge.from_bytes s := by
  unfold Ge.from_bytes_src Ge.from_bytes
  by_cases h : s.length = 32
  · simp only [h, if_true]
    cases GeAffine.from_bytes s with
    | none => rfl
    | some o => cases o with
      | none => rfl
      | some a => cases hh : Ge.from_affine a <;> simp [hh]
  · have : GeAffine.from_bytes s = none := by simp [GeAffine.from_bytes, h]
    simp [h, this]
theorem Ge.negate_src_eq_model (s : Ge) : Ge.negate_src s = Ge.negate s := by rfl
theorem Ge.to_partial_src_eq_model (s : Ge) : Ge.to_partial_src s = Ge.to_partial s := by rfl
theorem Ge.to_cached_src_eq_model (s : Ge) : Ge.to_cached_src s = Ge.to_cached s := by rfl
theorem Ge.double_p1p1_src_eq_model (s : Ge) : Ge.double_p1p1_src s = Ge.double_p1p1 s := by rfl
theorem Ge.double_src_eq_model (s : Ge) : Ge.double_src s = Ge.double s := by rfl
theorem Ge.double_partial_src_eq_model (s : Ge) : Ge.double_partial_src s = Ge.double_partial s := by rfl
theorem Ge.to_bytes_src_eq_model (s : Ge) : Ge.to_bytes_src s = Ge.to_bytes s := by rfl
theorem Ge.add_cached_src_eq_model (s : Ge) (r : GeCached) : Ge.add_cached_src s r = Ge.add_cached s r := by rfl
theorem Ge.add_precomp_src_eq_model (s : Ge) (r : GePrecomp) : Ge.add_precomp_src s r = Ge.add_precomp s r := by rfl
theorem Ge.sub_cached_src_eq_model (s : Ge) (r : GeCached) : Ge.sub_cached_src s r = Ge.sub_cached s r := by rfl
theorem Ge.sub_precomp_src_eq_model (s : Ge) (r : GePrecomp) : Ge.sub_precomp_src s r = Ge.sub_precomp s r := by rfl
/-- the by-value operator impls forward to the by-reference ones -/
theorem Ge.sub_cached_val_src_eq_model (s : Ge) (r : GeCached) : Ge.sub_cached_val_src s r = Ge.sub_cached s r := by rfl
theorem Ge.sub_precomp_val_src_eq_model (s : Ge) (r : GePrecomp) : Ge.sub_precomp_val_src s r = Ge.sub_precomp s r := by rfl
theorem GePrecomp.ZERO_src_eq_model : GePrecomp.ZERO_src = GePrecomp.ZERO := by rfl
theorem GePrecomp.maybe_set_src_eq_model (s o : GePrecomp) (c : CT.Choice) :
    GePrecomp.maybe_set_src s o c = GePrecomp.maybe_set s o c := by rfl
/-- the masked table lookup: sign and absolute value by `i8`/`u8` bit tricks, the eight masked sets in source order, the
    conditional negation; every table row `pos` (also out of range: both panic), every `i8` value `b` (outside −8..8: the
    `debug_assert!`) -/
theorem GePrecomp.select_src_eq_model (pos : Nat) (b : Int) : GePrecomp.select_src pos b = GePrecomp.select pos b := by
  -- the generated guard carries the `debug_assert!` marker (`Glue.debugAssert`, not definitionally its argument): it is removed
  -- by `select_src_unmarked`, whose proof fails when the source says `assert!` instead (audit 3, F3)
  by_cases h : -8 ≤ b ∧ b ≤ 8
  · exact GePrecomp.select_in pos b h
  · have h1 : ¬ (b ≥ (-8 : Int) ∧ b ≤ (8 : Int)) := h
    have h2 : b < -8 ∨ b > 8 := by omega
    rw [GePrecomp.select_src_unmarked]
    simp only [GePrecomp.select, h1, h2, if_false, if_true]

/-! ## (c) ge.rs — the loops -/

section geloops
open Cx.Impl.Scalar64 (ckI8)

/-- `Ge::scalarmult_base`: the nibbles, the signed recoding (carry loop over `es[0..63]`, the last carry into `es[63]`), the comb
    loop over the odd digits, four doublings, the comb loop over the even digits — for every scalar -/
theorem Ge.scalarmult_base_src_eq_model (a : Scalar32.Scalar) : Ge.scalarmult_base_src a = Ge.scalarmult_base a := by
  unfold Ge.scalarmult_base_src Ge.scalarmult_base recode
  generalize hn : Scalar32.nibbles a = nib
  have hl : nib.length = 64 := by rw [← hn]; exact Scalar.nibbles_length a
  simp only [Ge.scalarmult_base_loop1, Ge.scalarmult_base_loop2, Ge.scalarmult_base_loop3, bind_assoc]
  cases hr : recodeLoop (nib.take 63) 0 with
  | none => rw [none_bind', none_bind']
  | some p =>
    obtain ⟨lo, carry⟩ := p
    have hlo : lo.length = 63 := by
      rw [recodeLoop_length _ _ _ _ hr]; simp only [List.length_take]; omega
    have h63 : nib[63]? = some (nib[63]'(by omega)) := List.getElem?_eq_getElem (by omega)
    have hd : nib.drop 63 = [nib[63]'(by omega)] := by
      rw [List.drop_eq_getElem_cons (by omega), List.drop_of_length_le (by omega)]
    have e1 : (lo ++ nib.drop 63)[63]? = some (nib[63]'(by omega)) := by
      rw [hd, List.getElem?_append_right (by omega), hlo]; rfl
    simp only [some_bind', e1, h63]
    cases Scalar64.ckI8 (nib[63] + carry) with
    | none => rw [none_bind', none_bind']
    | some top =>
      have e2 : (lo ++ nib.drop 63).set 63 top = lo ++ [top] := by
        rw [hd, List.set_append_right _ _ (by omega), hlo]; rfl
      simp only [some_bind', e2, Option.pure_def]

/-- `GePartial::double_scalarmult_vartime`: both slide recodings, the table of odd multiples, the search for the top non-zero
    index from 255 down, the window loop down to index 0 (the fuel `i + 1` of both `loop`s is adequate: the model has none) -/
theorem GePartial.double_scalarmult_vartime_src_eq_model (a : Scalar32.Scalar) (A : Ge) (b : Scalar32.Scalar) :
    GePartial.double_scalarmult_vartime_src a A b = GePartial.double_scalarmult_vartime a A b := by
  unfold GePartial.double_scalarmult_vartime_src GePartial.double_scalarmult_vartime nextOdd
  generalize Ge32.slide a = sa
  generalize Ge32.slide b = sb
  cases sa with
  | none => rfl
  | some va =>
    cases sb with
    | none => rfl
    | some vb =>
      have hl := GePartial.dsm_loop2 va.toList vb.toList
      simp only [Option.map_some, some_bind', bind_assoc]
      repeat (refine bind_congr fun _ => ?_)
      rename_i a1 _ a2 _ _ a3 _ _ a5 _ _ a7 _ _ a9 _ _ a11 _ _ a13 _ _ a15
      exact hl [a1, a3, a5, a7, a9, a11, a13, a15] GePartial.ZERO (by simp) (by simp) 255 (by omega)

end geloops

/-! ## (e) ed25519.rs — key generation, signing, verification (order of refusals, all-zero key test, hash composition), exchange -/

theorem Ed25519.clamp_scalar_src_eq_model (s : Bytes) : Ed25519.clamp_scalar_src s = Ed25519.clamp_scalar s := by
  unfold Ed25519.clamp_scalar_src Ed25519.clamp_scalar
  by_cases h : s.length < 32
  · rw [if_pos h]
    cases h0 : s[0]? with
    | none => rfl
    | some a =>
      have : (s.set 0 (a &&& (248 : UInt8)))[31]? = none := by
        rw [List.getElem?_eq_none]; simp only [List.length_set]; omega
      simp only [Option.bind_eq_bind, Option.bind_some, this, Option.bind_none]
  · rw [if_neg h]
    have h0 : s[0]? = some (s[0]'(by omega)) := List.getElem?_eq_getElem (by omega)
    rw [h0]
    simp only [Option.bind_eq_bind, Option.bind_some]
    have l1 : (s.set 0 (s[0] &&& (248 : UInt8))).length = s.length := List.length_set
    have h1 : (s.set 0 (s[0] &&& (248 : UInt8)))[31]? = some ((s.set 0 (s[0] &&& (248 : UInt8)))[31]'(by omega)) :=
      List.getElem?_eq_getElem (by omega)
    rw [h1]
    simp only [Option.bind_some]
    rw [modify_of_getElem? s 0 _ _ h0, modify_of_getElem? _ 31 _ _ h1]
    generalize hs2 : ((s.set 0 (s[0] &&& 248)).set 31 ((s.set 0 (s[0] &&& 248))[31] &&& 63)) = s2
    have l2 : s2.length = s.length := by rw [← hs2]; simp only [List.length_set]
    have h2 : s2[31]? = some (s2[31]'(by omega)) := List.getElem?_eq_getElem (by omega)
    rw [h2, modify_of_getElem? s2 31 _ _ h2]
    rfl
theorem Ed25519.extended_secret_src_eq_model (pk : Bytes) : Ed25519.extended_secret_src pk = Ed25519.extended_secret pk := by
  unfold Ed25519.extended_secret_src Ed25519.extended_secret
  by_cases h : pk.length = 32
  · rw [if_pos h, if_pos h]; simp only [Ed25519.sha512_1, bind_assoc]
  · rw [if_neg h, if_neg h]
theorem Ed25519.keypair_private_src_eq_model (k : Bytes) : Ed25519.keypair_private_src k = Ed25519.keypair_private k := by rfl
theorem Ed25519.keypair_public_src_eq_model (k : Bytes) : Ed25519.keypair_public_src k = Ed25519.keypair_public k := by
  unfold Ed25519.keypair_public_src Ed25519.keypair_public
  by_cases h : k.length = 64
  · rw [if_pos h, if_pos h, List.take_of_length_le (by simp only [List.length_drop]; omega)]; rfl
  · rw [if_neg h, if_neg h]
theorem Ed25519.extended_scalar_src_eq_model (k : Bytes) : Ed25519.extended_scalar_src k = Ed25519_32.extended_scalar k := by rfl
theorem Ed25519.extended_scalar_bytes_src_eq_model (k : Bytes) : Ed25519.extended_scalar_bytes_src k = Ed25519.extended_scalar_bytes k := by rfl
theorem Ed25519.extended_to_public_src_eq_model (k : Bytes) : Ed25519.extended_to_public_src k = Ed25519_32.extended_to_public k := by
  unfold Ed25519.extended_to_public_src Ed25519_32.extended_to_public
  by_cases h : k.length = 64
  · rw [if_pos h]
  · rw [if_neg h]
    have : Ed25519_32.extended_scalar k = none := by unfold Ed25519_32.extended_scalar; rw [if_neg h]
    rw [this]; rfl
theorem Ed25519.keypair_src_eq_model (k : Bytes) : Ed25519.keypair_src k = Ed25519_32.keypair k := by
  unfold Ed25519.keypair_src Ed25519_32.keypair
  by_cases h : k.length = 32
  · rw [if_pos h]
  · rw [if_neg h]
    have : Ed25519.extended_secret k = none := by unfold Ed25519.extended_secret; rw [if_neg h]
    rw [this]; rfl
theorem Ed25519.signature_nonce_src_eq_model (e m : Bytes) : Ed25519.signature_nonce_src e m = Ed25519_32.signature_nonce e m := by
  unfold Ed25519.signature_nonce_src Ed25519_32.signature_nonce
  by_cases h : e.length = 64
  · rw [if_pos h, if_pos h]; simp only [Ed25519.sha512_2, Ed25519_32.reduceWide, bind_assoc]
  · rw [if_neg h, if_neg h]

theorem Ed25519.signature_src_eq_model (m k : Bytes) : Ed25519.signature_src m k = Ed25519_32.signature m k := by
  unfold Ed25519.signature_src Ed25519_32.signature
  by_cases h : k.length = 64
  · rw [if_pos h]
    refine bind_congr fun private_key => ?_
    refine bind_congr fun public_key => ?_
    refine bind_congr fun az => ?_
    refine bind_congr fun nonce => ?_
    exact Ed25519_32.signature_tail_src m public_key az nonce
  · rw [if_neg h]
    have : Ed25519.keypair_private k = none := by unfold Ed25519.keypair_private; rw [if_neg h]
    rw [this]; rfl
theorem Ed25519.signature_extended_src_eq_model (m k : Bytes) : Ed25519.signature_extended_src m k = Ed25519_32.signature_extended m k := by
  unfold Ed25519.signature_extended_src Ed25519_32.signature_extended
  by_cases h : k.length = 64
  · rw [if_pos h]
    refine bind_congr fun public_key => ?_
    refine bind_congr fun nonce => ?_
    exact Ed25519_32.signature_tail_src m public_key k nonce
  · rw [if_neg h]
    have : Ed25519_32.extended_to_public k = none := by
      unfold Ed25519_32.extended_to_public Ed25519_32.extended_scalar; rw [if_neg h]; rfl
    rw [this]; rfl
theorem Ed25519.verify_src_eq_model (m pk sg : Bytes) : Ed25519.verify_src m pk sg = Ed25519_32.verify m pk sg := by
  unfold Ed25519.verify_src Ed25519_32.verify
  by_cases h : pk.length = 32 ∧ sg.length = 64
  · rw [if_pos h, if_pos h]
    refine bind_congr fun o => ?_
    cases o with
    | none => rfl
    | some g =>
      refine bind_congr fun a => ?_
      refine bind_congr fun o2 => ?_
      cases o2 with
      | none => rfl
      | some s =>
        simp only [Ed25519.verify_loop1, Ed25519.sha512_3, Ed25519_32.reduceWide, bind_assoc]
  · rw [if_neg h, if_neg h]
theorem Ed25519.edwards_to_montgomery_x_src_eq_model (y : Fe) : Ed25519.edwards_to_montgomery_x_src y = Ed25519_32.edwards_to_montgomery_x y := by rfl
theorem Ed25519.exchange_src_eq_model (pk sk : Bytes) : Ed25519.exchange_src pk sk = Ed25519_32.exchange pk sk := by
  unfold Ed25519.exchange_src Ed25519_32.exchange
  by_cases h : pk.length = 32 ∧ sk.length = 32
  · rw [if_pos h]; rfl
  · rw [if_neg h]
    by_cases h1 : pk.length = 32
    · have h2 : ¬ sk.length = 32 := fun h2 => h ⟨h1, h2⟩
      have : Ed25519.extended_secret sk = none := by unfold Ed25519.extended_secret; rw [if_neg h2]
      rw [this]
      cases Fe32.fromBytes pk with
      | none => rfl
      | some y =>
        rw [some_bind']
        cases Ed25519_32.edwards_to_montgomery_x y <;> rfl
    · have : Fe32.fromBytes pk = none := by unfold Fe32.fromBytes; rw [dif_neg h1]
      rw [this]; rfl

/-! ## (d) curve25519/mod.rs, x25519.rs — clamping, the 255-step ladder with masked swaps, the final inversion -/

section ladder
open Cx.Impl.X25519 (A24P1 A24P1_BASE NINE clampE)
open Cx.Impl.X25519_32 (ladderLoop Z5 ladderMain)

/-- `curve25519(n, p)` for all byte strings (`curve25519M` = the model `X25519_32.curve25519` with the length facts of the
    `[u8; 32]` parameter types supplied; another length is not expressible in Rust: `none`) -/
theorem curve25519_src_eq_model (n p : Bytes) : curve25519_src n p = curve25519M n p := by
  unfold curve25519_src curve25519M
  by_cases h : n.length = 32 ∧ p.length = 32
  · rw [if_pos h, dif_pos h]
    have hy : fromBytes p = from_bytes p h.2 := by simp only [fromBytes, dif_pos h.2]
    have he : (clampE n).length = 32 := by rw [X25519.clampE_length]; exact h.1
    unfold X25519_32.curve25519
    rw [hy]
    dsimp only
    refine bind_congr fun x1 => ?_
    · unfold ladderMain
      show (curve25519_loop1_src (clampE n) x1 255 Fe.ONE Fe.ZERO x1 Fe.ONE (CT.u64_ct_zero 1) >>= _) = _
      rw [curve25519_loop1 (clampE n) he x1 255 (by omega)]
      dsimp only
      generalize ladderLoop (clampE n) _ A24P1 (Z5.mulX1 x1) 255 _ ⟨Fe.ONE, Fe.ZERO, x1, Fe.ONE, CT.u64_ct_zero 1⟩ = L
      cases L with
      | none => rfl
      | some s =>
        -- kept syntactic (no closing `rfl` over the field operations: defeq must not evaluate fe32's masked swap)
        rw [Option.map_some, some_bind']
        unfold Ladder.toTuple
        dsimp only
        rw [some_bind']
  · rw [if_neg h, dif_neg h]

theorem curve25519_base_src_eq_model (n : Bytes) : curve25519_base_src n = curve25519_baseM n := by
  unfold curve25519_base_src curve25519_baseM
  by_cases h : n.length = 32
  · rw [if_pos h, dif_pos h]
    have hy : fromBytes X25519.BASE = from_bytes X25519.BASE X25519.BASE_length := by
      simp only [fromBytes, dif_pos X25519.BASE_length]
    have he : (clampE n).length = 32 := by rw [X25519.clampE_length]; exact h
    unfold X25519_32.curve25519_base
    rw [hy]
    dsimp only
    refine bind_congr fun x1 => ?_
    · unfold ladderMain
      show (curve25519_base_loop1_src (clampE n) 255 Fe.ONE Fe.ZERO x1 Fe.ONE (CT.u64_ct_zero 1) >>= _) = _
      rw [curve25519_base_loop1 (clampE n) he 255 (by omega)]
      dsimp only
      generalize ladderLoop (clampE n) _ A24P1_BASE (Z5.small NINE) 255 _ ⟨Fe.ONE, Fe.ZERO, x1, Fe.ONE, CT.u64_ct_zero 1⟩ = L
      cases L with
      | none => rfl
      | some s =>
        -- kept syntactic (no closing `rfl` over the field operations: defeq must not evaluate fe32's masked swap)
        rw [Option.map_some, some_bind']
        unfold Ladder.toTuple
        dsimp only
        rw [some_bind']
  · rw [if_neg h, dif_neg h]

/-- `x25519::dh` / `x25519::base`: the newtypes over `[u8; 32]` are erased -/
theorem X25519.dh_src_eq_model (n p : Bytes) :
    X25519.dh_src n p = if h : n.length = 32 ∧ p.length = 32 then Impl.X25519_32.dh n p h.1 h.2 else none := by
  unfold X25519.dh_src curve25519M Impl.X25519_32.dh
  by_cases h : n.length = 32 ∧ p.length = 32
  · rw [if_pos h]
  · rw [if_neg h, dif_neg h]
theorem X25519.base_src_eq_model (x : Bytes) :
    X25519.base_src x = if h : x.length = 32 then Impl.X25519_32.base x h else none := by
  unfold X25519.base_src curve25519_baseM Impl.X25519_32.base
  by_cases h : x.length = 32
  · rw [if_pos h]
  · rw [if_neg h, dif_neg h]

end ladder

/-! ## (a) Fe — the backend-generic addition chains of fe/mod.rs on the fe32 operations -/

theorem Fe.pow25523_src_eq_model (z : Fe) : Fe.pow25523_src z = Fe32.pow25523 z := by
  unfold Fe.pow25523_src Fe32.pow25523 chain250
  simp only [bind_assoc, pure_bind]
theorem Fe.invert_src_eq_model (z : Fe) : Fe.invert_src z = Fe32.invert z := by
  unfold Fe.invert_src Fe32.invert chain250
  simp only [bind_assoc, pure_bind]

/-! ## (b) Scalar — the backend-generic recoding of scalar/mod.rs on `scalar32::bits` -/

/-- `Scalar::slide`: the three nested loops (window growth, borrow propagation with `break`) on the `[i8; 256]` that
    `scalar32::Scalar::bits` returns, every `i8` operation checked — for every scalar; the result is the model's `Vector` as a list -/
theorem Scalar.slide_src_eq_model (s : Scalar32.Scalar) : Scalar.slide_src s = (Ge32.slide s).map Vector.toList := by
  unfold Scalar.slide_src Ge32.slide
  exact Scalar.slide_loop1 256 0 (bitsArr s) (by omega)

end Cx.Props.C17.GlueTieCurve32
