/-
  Props.C18 (KernelTie) — the translator tie for src/constant_time.rs.
  `Extracted/KernelsCT.lean` is regenerated from /repo/src/constant_time.rs on every run by tools/ktx_misc.py
  (kernel specs: tools/kernels/ct.py): every `fn` of the `Choice` / `CtZero` / `CtEqual` / `CtLesser` / `CtGreater`
  impls for `u64`, `u8`, arrays and slices, the trait defaults `ct_le` / `ct_ge`, and the four masked swap / set
  helpers, translated statement by statement.  The theorems below, re-checked by the kernel on every build, say that
  the hand-written model `Impl.ConstantTime` (about which the C18 theorems are proved) computes exactly what the
  source says now, for ALL inputs: a changed constant, operand order, shift or mask in the source breaks a proof
  obligation even if no sampled input reaches it.
-/
import CxVerif.Extracted.KernelsCT
import CxVerif.Impl.ConstantTime
namespace Cx.Props.C18
open Cx Cx.Impl.CT Cx.Extracted.KernelsCT

/-! ### `Choice` -/
theorem is_true_src_eq_model (c : Choice) : is_true_src c = c.isTrue := rfl
theorem is_false_src_eq_model (c : Choice) : is_false_src c = c.isFalse := rfl
theorem negate_src_eq_model (c : Choice) : negate_src c = c.negate := rfl
theorem bitand_src_eq_model (a b : Choice) : bitand_src a b = a.and b := rfl
theorem bitor_src_eq_model (a b : Choice) : bitor_src a b = a.or b := rfl
theorem bitxor_src_eq_model (a b : Choice) : bitxor_src a b = a.xor b := rfl

/-! ### `u64` / `u8` formulas -/
theorem u64_ct_zero_src_eq_model (x : UInt64) : u64_ct_zero_src x = u64_ct_zero x := rfl
theorem u64_ct_nonzero_src_eq_model (x : UInt64) : u64_ct_nonzero_src x = u64_ct_nonzero x := rfl
theorem u64_ct_eq_src_eq_model (a b : UInt64) : u64_ct_eq_src a b = u64_ct_eq a b := rfl
theorem u64_ct_ne_src_eq_model (a b : UInt64) : u64_ct_ne_src a b = u64_ct_ne a b := rfl
theorem u8_ct_zero_src_eq_model (x : UInt8) : u8_ct_zero_src x = u8_ct_zero x := rfl
theorem u8_ct_nonzero_src_eq_model (x : UInt8) : u8_ct_nonzero_src x = u8_ct_nonzero x := rfl
theorem u8_ct_eq_src_eq_model (a b : UInt8) : u8_ct_eq_src a b = u8_ct_eq a b := rfl
theorem u8_ct_ne_src_eq_model (a b : UInt8) : u8_ct_ne_src a b = u8_ct_ne a b := rfl
theorem u64_ct_lt_src_eq_model (a b : UInt64) : u64_ct_lt_src a b = u64_ct_lt a b := rfl
theorem u64_ct_gt_src_eq_model (a b : UInt64) : u64_ct_gt_src a b = u64_ct_gt a b := rfl
/-- the trait defaults as the source has them NOW (after the repair of defect j) are the negated strict comparisons -/
theorem u64_ct_le_src_eq_model (a b : UInt64) : u64_ct_le_src a b = u64_ct_le a b := rfl
theorem u64_ct_ge_src_eq_model (a b : UInt64) : u64_ct_ge_src a b = u64_ct_ge a b := rfl

/-! ### OR-accumulation loops over arrays / slices -/
theorem bytes_ct_zero_src_eq_model (l : List UInt8) : bytes_ct_zero_src l = bytes_ct_zero l := rfl
theorem bytes_ct_nonzero_src_eq_model (l : List UInt8) : bytes_ct_nonzero_src l = bytes_ct_nonzero l := rfl
theorem words_ct_zero_src_eq_model (l : List UInt64) : words_ct_zero_src l = words_ct_zero l := rfl
theorem words_ct_nonzero_src_eq_model (l : List UInt64) : words_ct_nonzero_src l = words_ct_nonzero l := rfl
theorem slice_words_ct_zero_src_eq_model (l : List UInt64) : slice_words_ct_zero_src l = words_ct_zero l := rfl
theorem slice_words_ct_nonzero_src_eq_model (l : List UInt64) : slice_words_ct_nonzero_src l = words_ct_nonzero l := rfl
theorem array_u8_ct_eq_src_eq_model (a b : List UInt8) : array_u8_ct_eq_src a b = array_u8_ct_eq a b := rfl
theorem array_u8_ct_ne_src_eq_model (a b : List UInt8) : array_u8_ct_ne_src a b = array_u8_ct_ne a b := rfl
theorem array_u64_ct_eq_src_eq_model (a b : List UInt64) : array_u64_ct_eq_src a b = array_u64_ct_eq a b := rfl
theorem array_u64_ct_ne_src_eq_model (a b : List UInt64) : array_u64_ct_ne_src a b = array_u64_ct_ne a b := rfl
theorem slice_u8_ct_eq_src_eq_model (a b : List UInt8) : slice_u8_ct_eq_src a b = slice_u8_ct_eq a b := rfl
theorem slice_u64_ct_eq_src_eq_model (a b : List UInt64) : slice_u64_ct_eq_src a b = slice_u64_ct_eq a b := rfl

/-! ### big-endian `<` on byte arrays (`impl CtLesser for &[u8; N]`)
The translator writes every cast as the wrap it is (`(x1 >> 8) as i8` = two's-complement truncation to 8 bits); the
model `borrowStep` omits that truncation.  They agree for ALL bytes `x y borrow` because `x1 >> 8 ∈ {-2, -1, 0}`. -/
private theorem wrap_i8_id (v : Int) (h1 : -128 ≤ v) (h2 : v < 128) : (v + 2 ^ 7) % 2 ^ 8 - 2 ^ 7 = v := by omega

theorem array_u8_ct_lt_src_eq_model (a b : List UInt8) : array_u8_ct_lt_src a b = array_u8_ct_lt a b := by
  unfold array_u8_ct_lt_src array_u8_ct_lt
  have step : ∀ (bo : UInt8) (p : UInt8 × UInt8),
      (let x1 := ((p.1.toNat : Int) - (bo.toNat : Int)) - (p.2.toNat : Int)
       let x2 := ((x1 / 2 ^ 8) + 2 ^ 7) % 2 ^ 8 - 2 ^ 7
       UInt8.ofNat (((0 : Int) - x2) % 2 ^ 8).toNat) = borrowStep bo p.1 p.2 := by
    intro bo p
    have hx := p.1.toNat_lt; have hy := p.2.toNat_lt; have hb := bo.toNat_lt
    simp only [borrowStep, borrowX1]
    rw [wrap_i8_id _ (by omega) (by omega)]
    rfl
  simp only [step]
  rfl

/-! ### masked swap / set -/
theorem ct_array64_maybe_swap_with_src_eq_model (a b : List UInt64) (swap : Choice) :
    ct_array64_maybe_swap_with_src a b swap = ct_array64_maybe_swap_with a b swap := rfl
theorem ct_array32_maybe_swap_with_src_eq_model (a b : List UInt32) (swap : Choice) :
    ct_array32_maybe_swap_with_src a b swap = ct_array32_maybe_swap_with a b swap := rfl
theorem ct_array64_maybe_set_src_eq_model (a b : List UInt64) (swap : Choice) :
    ct_array64_maybe_set_src a b swap = ct_array64_maybe_set a b swap := rfl
theorem ct_array32_maybe_set_src_eq_model (a b : List UInt32) (swap : Choice) :
    ct_array32_maybe_set_src a b swap = ct_array32_maybe_set a b swap := rfl

end Cx.Props.C18
