/-
  Props.C13.Ed25519 — C13: Ed25519 key generation and signing of /repo/src/ed25519.rs (model Impl/Ed25519.lean,
  built on the models of SHA-512, Scalar, Fe, Ge) equal RFC 8032 §5.1.5 / §5.1.6 (Spec/Ed25519.lean), for EVERY
  32-byte seed and EVERY message shorter than 2^124 bytes (SHA-512's own domain guard, with room for the prefixes).

  Explicit hypotheses (never axioms):
    `[Fact (Nat.Prime p)]`  primality of 2^255 − 19
    `G : EdwardsGroupLaw`   closure + associativity of the affine Edwards addition (needed to show comb = [a]B)
  (The scalar layer enters through `ScalarFacts`, which is a THEOREM: Proofs/Ed25519Inst.lean instantiates it from
  unit scalar64's from_bytes/reduce_from_wide_bytes/muladd/to_bytes/nibbles theorems.)
  Every theorem that uses `G` is named `_partial`; `exchange` needs neither hypothesis and is unconditional.
-/
import CxVerif.Proofs.Ed25519Exchange
import CxVerif.Proofs.Ed25519Inst
namespace Cx.Props.C13
open Cx Cx.Spec Cx.Impl.Ed25519 Cx.Proofs.EdSpec Cx.Proofs.Ed25519Sign
open Cx.Spec.Field25519 (p)

set_option maxRecDepth 10000

section partials
variable [hp : Fact (Nat.Prime p)] (G : EdwardsGroupLaw)
include G

local notation "SF" => Proofs.Ed25519Inst.scalarFacts

/-- FULL STATEMENT: `keypair seed = (seed ‖ ENC([s]B), ENC([s]B))` with `s` the pruned SHA-512 half (§5.1.5).
    PROVED under `Nat.Prime p` and `EdwardsGroupLaw`. -/
theorem keypair_is_rfc8032_partial (seed : Bytes) (hs : seed.length = 32) :
    keypair seed = some (Spec.Ed25519.keypair seed) :=
  haveI : Proofs.GeComb.GroupLawFact := ⟨G⟩; keypair_eq SF seed hs

/-- FULL STATEMENT: `signature(M, keypair(seed).0) = R ‖ S` of §5.1.6 for every seed and message.
    PROVED under the same two hypotheses. -/
theorem signature_is_rfc8032_partial (seed msg : Bytes) (hs : seed.length = 32) (hm : msg.length < 2 ^ 124) :
    signature msg (Spec.Ed25519.keypair seed).1 = some (Spec.Ed25519.sign seed msg) :=
  haveI : Proofs.GeComb.GroupLawFact := ⟨G⟩
  signature_eq SF msg seed (Spec.Ed25519.publicKey seed) hs (encode_length _) hm

/-- the two steps as the user runs them: `keypair` then `signature` -/
theorem keypair_then_signature_partial (seed msg : Bytes) (hs : seed.length = 32) (hm : msg.length < 2 ^ 124) :
    (keypair seed).bind (fun kp => signature msg kp.1) = some (Spec.Ed25519.sign seed msg) := by
  rw [keypair_is_rfc8032_partial G seed hs, Option.bind_some]
  exact signature_is_rfc8032_partial G seed msg hs hm

/-- `signature` takes the public half of the keypair as given (it is hashed, not recomputed) -/
theorem signature_with_any_public_half_partial (seed pk msg : Bytes) (hs : seed.length = 32) (hpk : pk.length = 32)
    (hm : msg.length < 2 ^ 124) :
    signature msg (seed ++ pk) = some (Spec.Ed25519.signWith (Spec.Ed25519.secretScalar seed)
      (Spec.Ed25519.noncePrefix seed) pk msg) :=
  haveI : Proofs.GeComb.GroupLawFact := ⟨G⟩; signature_eq SF msg seed pk hs hpk hm

/-- `extended_to_public` for an extended secret whose scalar half is below 2^255 (the documented range) -/
theorem extended_to_public_is_spec_partial (ext : Bytes) (hl : ext.length = 64) (hlt : leNat (ext.take 32) < 2 ^ 255) :
    extended_to_public ext = some (Spec.Ed25519.extendedToPublic ext) :=
  haveI : Proofs.GeComb.GroupLawFact := ⟨G⟩; extended_to_public_eq SF ext hl hlt

/-- `signature_extended` for an extended secret whose scalar half is below 2^255 -/
theorem signature_extended_is_spec_partial (msg ext : Bytes) (hl : ext.length = 64)
    (hlt : leNat (ext.take 32) < 2 ^ 255) (hm : msg.length < 2 ^ 124) :
    signature_extended msg ext = some (Spec.Ed25519.signExtended ext msg) :=
  haveI : Proofs.GeComb.GroupLawFact := ⟨G⟩; signature_extended_eq SF msg ext hl hlt hm

/-- signing with the extended secret of a seed gives the signature of the seed:
    `signature_extended(M, extended_secret(seed)) = signature(M, keypair(seed).0)` -/
theorem signature_extended_of_expanded_seed_partial (seed msg : Bytes) (hs : seed.length = 32)
    (hm : msg.length < 2 ^ 124) :
    (extended_secret seed).bind (fun ext => signature_extended msg ext)
      = signature msg (Spec.Ed25519.keypair seed).1 := by
  rw [extended_secret_eq seed hs, Option.bind_some, signature_is_rfc8032_partial G seed msg hs hm]
  have hlt : leNat ((Spec.Ed25519.expandSeed seed).take 32) < 2 ^ 255 := by
    rw [expandSeed_take]; exact clamp_lt _ (by unfold Spec.Ed25519.H; simp [sha512_length])
  rw [signature_extended_is_spec_partial G msg _ (expandSeed_length seed) hlt hm]
  unfold Spec.Ed25519.signExtended Spec.Ed25519.sign Spec.Ed25519.extendedToPublic Spec.Ed25519.publicKey
    Spec.Ed25519.secretScalar Spec.Ed25519.noncePrefix
  rw [expandSeed_take, expandSeed_drop]

/-- the public key of the extended secret of a seed is the seed's public key -/
theorem extended_to_public_of_expanded_seed_partial (seed : Bytes) (hs : seed.length = 32) :
    (extended_secret seed).bind extended_to_public = some (Spec.Ed25519.publicKey seed) := by
  have hlt : leNat ((Spec.Ed25519.expandSeed seed).take 32) < 2 ^ 255 := by
    rw [expandSeed_take]; exact clamp_lt _ (by unfold Spec.Ed25519.H; simp [sha512_length])
  rw [extended_secret_eq seed hs, Option.bind_some,
    extended_to_public_is_spec_partial G _ (expandSeed_length seed) hlt]
  unfold Spec.Ed25519.extendedToPublic Spec.Ed25519.publicKey Spec.Ed25519.secretScalar
  rw [expandSeed_take]

end partials

/-! ### unconditional parts -/

/-- the secret expansion: SHA-512, low half pruned (§5.1.5 steps 1–2), for every 32-byte seed -/
theorem extended_secret_is_pruned_hash (seed : Bytes) (hs : seed.length = 32) :
    extended_secret seed = some (Spec.Ed25519.expandSeed seed) := extended_secret_eq seed hs

/-- `exchange(pk, seed)` = X25519(pruned hashed secret, (1+y)/(1−y)) for EVERY 32-byte `pk` (any y, also
    non-canonical, y = 1 where 1/(1−y) is taken as 0) and every 32-byte seed — no hypotheses -/
theorem exchange_is_x25519_of_mapped_key (pk seed : Bytes) (hpk : pk.length = 32) (hs : seed.length = 32) :
    exchange pk seed = some (Spec.Ed25519.exchange pk seed) :=
  Proofs.Ed25519Exchange.exchange_eq pk seed hpk hs

/-- the pruned scalar is in the documented range of `scalarmult_base` -/
theorem pruned_scalar_lt_2_255 (h : Bytes) (hl : h.length = 32) : leNat (Spec.Ed25519.clamp h) < 2 ^ 255 :=
  clamp_lt h hl

/-! ### non-vacuity -/
example : (List.replicate 32 (7 : UInt8)).length = 32 ∧ (List.replicate 300 (1 : UInt8)).length < 2 ^ 124 := by decide

end Cx.Props.C13
