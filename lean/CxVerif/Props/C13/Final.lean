/-
  Props.C13.Final — C13 with NO remaining hypothesis: Ed25519 key generation and signing of the code-shaped model equal
  RFC 8032, for every seed and every message below 2^124 bytes.

  The `_partial` theorems of Props/C13/Ed25519.lean take `[Fact (Nat.Prime p)]` and `G : EdwardsGroupLaw` as explicit
  hypotheses.  Both are now THEOREMS of this development:
    * `Cx.Proofs.Prime25519.prime_p`   — 2^255 − 19 is prime (Pratt certificate, Lucas test, kernel-evaluated `powMod`);
    * `Cx.Proofs.EdGroup.edwardsGroupLaw` — the curve is closed under the affine addition law and the law is associative
      (polynomial identities with explicit cofactors, checked by `linear_combination`; completeness from d non-square).
  Here they are plugged in.  Nothing else is assumed (`#print axioms`: propext, Classical.choice, Quot.sound).
-/
import CxVerif.Props.C13.Ed25519
import CxVerif.Proofs.Prime25519
import CxVerif.Proofs.EdwardsGroupLaw
namespace Cx.Props.C13
open Cx Cx.Spec Cx.Impl.Ed25519
open Cx.Proofs.EdGroup (edwardsGroupLaw)

set_option maxRecDepth 10000

/-- **C13 (keypair)**: `keypair seed = (seed ‖ ENC([s]B), ENC([s]B))`, s = pruned SHA-512 half, every 32-byte seed -/
theorem keypair_is_rfc8032 (seed : Bytes) (hs : seed.length = 32) :
    keypair seed = some (Spec.Ed25519.keypair seed) :=
  keypair_is_rfc8032_partial edwardsGroupLaw seed hs

/-- **C13 (signature)**: `signature(M, keypair(seed).0)` = `R ‖ S` of RFC 8032 §5.1.6, every seed, every message -/
theorem signature_is_rfc8032 (seed msg : Bytes) (hs : seed.length = 32) (hm : msg.length < 2 ^ 124) :
    signature msg (Spec.Ed25519.keypair seed).1 = some (Spec.Ed25519.sign seed msg) :=
  signature_is_rfc8032_partial edwardsGroupLaw seed msg hs hm

/-- `keypair` then `signature`, as the user runs them -/
theorem keypair_then_signature (seed msg : Bytes) (hs : seed.length = 32) (hm : msg.length < 2 ^ 124) :
    (keypair seed).bind (fun kp => signature msg kp.1) = some (Spec.Ed25519.sign seed msg) :=
  keypair_then_signature_partial edwardsGroupLaw seed msg hs hm

/-- `signature` hashes the public half it is given (it does not recompute it) -/
theorem signature_with_any_public_half (seed pk msg : Bytes) (hs : seed.length = 32) (hpk : pk.length = 32)
    (hm : msg.length < 2 ^ 124) :
    signature msg (seed ++ pk) = some (Spec.Ed25519.signWith (Spec.Ed25519.secretScalar seed)
      (Spec.Ed25519.noncePrefix seed) pk msg) :=
  signature_with_any_public_half_partial edwardsGroupLaw seed pk msg hs hpk hm

/-- `extended_to_public` for an extended secret whose scalar half is below 2^255 (the documented range) -/
theorem extended_to_public_is_spec (ext : Bytes) (hl : ext.length = 64) (hlt : leNat (ext.take 32) < 2 ^ 255) :
    extended_to_public ext = some (Spec.Ed25519.extendedToPublic ext) :=
  extended_to_public_is_spec_partial edwardsGroupLaw ext hl hlt

/-- `signature_extended` for an extended secret whose scalar half is below 2^255 -/
theorem signature_extended_is_spec (msg ext : Bytes) (hl : ext.length = 64)
    (hlt : leNat (ext.take 32) < 2 ^ 255) (hm : msg.length < 2 ^ 124) :
    signature_extended msg ext = some (Spec.Ed25519.signExtended ext msg) :=
  signature_extended_is_spec_partial edwardsGroupLaw msg ext hl hlt hm

/-- **C13 (extended = seed)**: signing with the extended secret of a seed gives the signature of the seed -/
theorem signature_extended_of_expanded_seed (seed msg : Bytes) (hs : seed.length = 32) (hm : msg.length < 2 ^ 124) :
    (extended_secret seed).bind (fun ext => signature_extended msg ext)
      = signature msg (Spec.Ed25519.keypair seed).1 :=
  signature_extended_of_expanded_seed_partial edwardsGroupLaw seed msg hs hm

/-- the public key of the extended secret of a seed is the seed's public key -/
theorem extended_to_public_of_expanded_seed (seed : Bytes) (hs : seed.length = 32) :
    (extended_secret seed).bind extended_to_public = some (Spec.Ed25519.publicKey seed) :=
  extended_to_public_of_expanded_seed_partial edwardsGroupLaw seed hs

/-- non-vacuity: a concrete seed and message meet the hypotheses -/
example : (List.replicate 32 (7 : UInt8)).length = 32 ∧ (List.replicate 300 (1 : UInt8)).length < 2 ^ 124 := by decide

end Cx.Props.C13
