/-
  Props.C06.Aead — ChaCha20-Poly1305 (src/chacha20poly1305.rs, model Impl.Aead) equals RFC 8439 §2.8 (Spec.Aead);
  decrypt inverts encrypt; one-shot = streamed for EVERY partition of the AAD and of the data, in place or buffer to
  buffer.  Only property theorems; helpers are in Proofs.Aead*.

  Sections 1-5 are stated for every engine `E`, every round count `R`, every key and nonce for which the two lower
  layers are available as the hypotheses
      D : CipherDeps E R key nonce At     (C04: `ChaCha<R>` context refines the absolute keystream position;
                                           holds for key.length ∈ {16, 32}, nonce.length = 12, R ∈ {8, 12, 20})
      M : MacDeps                         (C05: Poly1305 model = RFC 8439 §2.5 for every chunking)
  (see Proofs.Aead for their exact content and the upstream theorems that discharge them), and for all AAD / data
  lengths below 2^64 (the RFC's own limit; `aad_len`/`data_len` are u64 and `+=` is overflow-checked).

  Section 6 ("closed over the stream unit") restates the headline theorems with `D` DISCHARGED by the delivered C03/C04
  theorems: for both engine models (`S : EngineSim E α`, instances `referenceSim` and `sse2Sim`), key lengths 16 and 32,
  12-byte nonces, R ∈ {8, 12, 20} (`Spec.Aead.Valid`), and `M` discharged by the poly1305 unit's C05 theorem
  (`Cx.Proofs.Aead.macDeps`): those theorems have NO hypothesis beyond the domain guards.
-/
import CxVerif.Proofs.AeadOneShot
import CxVerif.Proofs.AeadDeps
namespace Cx.Props.C06.Aead
open Cx Cx.Impl Cx.Impl.Aead Cx.Proofs.Aead
set_option linter.unusedSimpArgs false
set_option linter.unusedVariables false

variable {σ : Type}
variable {E : ChaCha.Engine σ} {R : Nat} {key nonce : Bytes} {At : StreamCtx.Ctx σ → Nat → Prop}

/-! ## the one-time key is keystream block 0 [0,32); data is encrypted from block 1 -/

/-- `Context::new` keys Poly1305 with the first 32 bytes of the ChaCha block with counter 0 (RFC 8439 §2.6) and
    leaves the cipher at absolute keystream position 64 = start of block 1; both counters are 0 -/
theorem new_otk_block0_data_block1 (D : CipherDeps E R key nonce At) :
    ∃ c, Context.new E R key nonce = .ok c ∧
      c.mac = Poly1305.new ((Spec.ChaCha.block R key nonce 0).take 32) ∧
      At c.cipher 64 ∧ c.aad_len = 0 ∧ c.data_len = 0 := by
  obtain ⟨c, h1, h2, h3⟩ := new_inv D
  exact ⟨c, h1, h2, h3.cipher, h3.aad_len, h3.data_len⟩

/-! ## the MAC input, for ANY history of calls -/

/-- For every history of `add_data` / `to_encryption` / `to_decryption` / `encrypt` / `encrypt_mut` / `decrypt` /
    `decrypt_mut` calls that the API allows (abstract machine `absRun`: `a.aad` = concatenation of the `add_data`
    arguments, `a.ct` = concatenation of the ciphertext pieces), the model runs without panic, emits what the
    abstract machine emits, its Poly1305 object has absorbed exactly `aad ‖ pad16(aad) ‖ ct`, and `finalize_raw`
    completes this to `mac_data = aad ‖ pad16 ‖ ct ‖ pad16 ‖ le64|aad| ‖ le64|ct|` and returns its Poly1305 tag
    under the one-time key. -/
theorem mac_input_any_history (D : CipherDeps E R key nonce At) (M : MacDeps) (ops : List Op) (a : AbsSt)
    (outs : List Out) (h : absRun R key nonce ⟨.aad, [], []⟩ ops = some (a, outs))
    (hph : a.phase = .enc ∨ a.phase = .dec) (hb : a.aad.length < 2 ^ 64 ∧ a.ct.length < 2 ^ 64) :
    ∃ c st, Context.new E R key nonce = .ok c ∧ run E R (.aad, c) ops = .ok (st, outs) ∧
      MacAbs (Spec.Aead.polyKeyGen R key nonce) st.2.mac (a.aad ++ Spec.Aead.pad16 a.aad ++ a.ct) ∧
      st.2.aad_len = a.aad.length ∧ st.2.data_len = a.ct.length ∧
      ∃ c', finalize_raw st.2 =
        .ok (c', Spec.Poly1305.mac (Spec.Aead.polyKeyGen R key nonce) (Spec.Aead.macData a.aad a.ct)) := by
  obtain ⟨c, hnew, hrel⟩ := new_rel D
  obtain ⟨st, hr, hrel'⟩ := run_refines D M ops (.aad, c) _ a outs hrel h hb
  obtain ⟨_, hinv⟩ := hrel'
  have hinv' : CtxInv R key nonce At st.2 (a.aad ++ Spec.Aead.pad16 a.aad ++ a.ct) a.aad.length a.ct.length := by
    rcases hph with hp | hp <;> (rw [hp] at hinv; exact hinv)
  exact ⟨c, st, hnew, hr, hinv'.mac, hinv'.aad_len, hinv'.data_len, finalize_raw_inv D M st.2 a.aad a.ct hinv'⟩

/-- `pad16` adds no byte at multiples of 16 and otherwise fills up to the next multiple -/
theorem pad16_spec (x : Bytes) :
    (x.length % 16 = 0 → Spec.Aead.pad16 x = []) ∧ (x ++ Spec.Aead.pad16 x).length % 16 = 0 ∧
    (Spec.Aead.pad16 x).length < 16 ∧ ∀ b ∈ Spec.Aead.pad16 x, b = 0 := by
  refine ⟨fun h => by simp [Spec.Aead.pad16, h, zeros], padded_length x, by rw [pad16_length]; omega, ?_⟩
  intro b hb
  simp only [Spec.Aead.pad16, zeros, List.mem_replicate] at hb
  exact hb.2

/-! ## streamed = Spec, for every partition -/

/-- **streamed encryption = RFC 8439**: for ANY lists of AAD pieces and data pieces (each piece buffer-to-buffer or
    in place, empty pieces and empty lists included) the calls emit the RFC ciphertext of the whole plaintext, cut at
    the call boundaries, and then the RFC tag of the whole (AAD, ciphertext). -/
theorem streamed_encrypt_eq_spec (D : CipherDeps E R key nonce At) (M : MacDeps) (as : List Bytes)
    (ps : List (Bytes × Bool)) (hA : as.flatten.length < 2 ^ 64) (hP : (ps.map (·.1)).flatten.length < 2 ^ 64) :
    runNew E R key nonce (encProg as ps) =
      .ok ((cutAt (ps.map (·.1.length)) (Spec.Aead.encrypt R key nonce as.flatten (ps.map (·.1)).flatten).1).map Out.bytes
           ++ [.bytes (Spec.Aead.encrypt R key nonce as.flatten (ps.map (·.1)).flatten).2]) := by
  have habs : absRun R key nonce ⟨.aad, [], []⟩ (encProg as ps) =
      some (⟨.done, as.flatten, Spec.Aead.cipher R key nonce (ps.map (·.1)).flatten⟩,
        dataOuts R key nonce 64 (ps.map (·.1)) ++
          [.bytes (Spec.Aead.tag R key nonce as.flatten (Spec.Aead.cipher R key nonce (ps.map (·.1)).flatten))]) := by
    unfold encProg
    rw [absRun_addData]
    simp only [List.nil_append, List.singleton_append, absRun, absStep]
    rw [absRun_enc]
    simp [Spec.Aead.cipher]
  have := runNew_refines D M _ _ _ habs
    ⟨hA, by simp only [Spec.Aead.cipher, Spec.ChaCha.encrypt, encrypt_length]; exact hP⟩
  rw [this, dataOuts_eq_cut]
  simp [Spec.Aead.encrypt, Spec.Aead.cipher, List.map_map, Function.comp_def]

/-- **streamed decryption**: for ANY partition the calls emit the decryption of the whole ciphertext cut at the call
    boundaries, and the verdict is `true` exactly when the expected tag is the RFC tag of the whole
    (AAD, ciphertext). -/
theorem streamed_decrypt_eq_spec (D : CipherDeps E R key nonce At) (M : MacDeps) (as : List Bytes)
    (ps : List (Bytes × Bool)) (t : Bytes) (ht : t.length = 16)
    (hA : as.flatten.length < 2 ^ 64) (hP : (ps.map (·.1)).flatten.length < 2 ^ 64) :
    runNew E R key nonce (decProg as ps t) =
      .ok ((cutAt (ps.map (·.1.length)) (Spec.Aead.cipher R key nonce (ps.map (·.1)).flatten)).map Out.bytes
           ++ [.verdict (decide (t = Spec.Aead.tag R key nonce as.flatten (ps.map (·.1)).flatten))]) := by
  have habs : absRun R key nonce ⟨.aad, [], []⟩ (decProg as ps t) =
      some (⟨.done, as.flatten, (ps.map (·.1)).flatten⟩,
        dataOuts R key nonce 64 (ps.map (·.1)) ++
          [.verdict (decide (t = Spec.Aead.tag R key nonce as.flatten (ps.map (·.1)).flatten))]) := by
    unfold decProg
    rw [absRun_addData]
    simp only [List.nil_append, List.singleton_append, absRun, absStep]
    rw [absRun_dec _ _ _ _ _ ht]
    simp
  have := runNew_refines D M _ _ _ habs ⟨hA, hP⟩
  rw [this, dataOuts_eq_cut]
  simp [Spec.Aead.cipher, List.map_map, Function.comp_def]

/-! ## one-shot = Spec -/

/-- **one-shot encryption = RFC 8439** (`ChaChaPoly1305::new(key, nonce, aad).encrypt(pt, out, tag)`) -/
theorem oneshot_encrypt_eq_spec (D : CipherDeps E R key nonce At) (M : MacDeps) (aad pt : Bytes)
    (hA : aad.length < 2 ^ 64) (hP : pt.length < 2 ^ 64) :
    ∃ o o', ChaChaPoly1305.new E R key nonce aad = .ok o ∧
      ChaChaPoly1305.encrypt E R o pt pt.length 16 =
        .ok (o', (Spec.Aead.encrypt R key nonce aad pt).1, (Spec.Aead.encrypt R key nonce aad pt).2) ∧
      o'.finished = true := by
  obtain ⟨o, hnew, hfin, hinv⟩ := oneshot_new D M aad hA
  exact ⟨o, _, hnew, oneshot_encrypt D M o aad pt hfin hinv hP, rfl⟩

/-- **one-shot decryption**: the output buffer receives ct ⊕ keystream (whatever the verdict) and the verdict is
    `true` exactly when the tag is the RFC tag — i.e. `(output, verdict)` agree with `Spec.Aead.decrypt` -/
theorem oneshot_decrypt_eq_spec (D : CipherDeps E R key nonce At) (M : MacDeps) (aad ct tag : Bytes)
    (hA : aad.length < 2 ^ 64) (hC : ct.length < 2 ^ 64) (ht : tag.length = 16) :
    ∃ o o' out v, ChaChaPoly1305.new E R key nonce aad = .ok o ∧
      ChaChaPoly1305.decrypt E R o ct ct.length tag = .ok (o', out, v) ∧ o'.finished = true ∧
      (if v then some out else none) = Spec.Aead.decrypt R key nonce aad ct tag := by
  obtain ⟨o, hnew, hfin, hinv⟩ := oneshot_new D M aad hA
  refine ⟨o, _, _, _, hnew, oneshot_decrypt D M o aad ct tag hfin hinv hC ht, rfl, ?_⟩
  unfold Spec.Aead.decrypt
  by_cases h : tag = Spec.Aead.tag R key nonce aad ct <;> simp [h]

/-- **one-shot = streamed**: whatever the partition of the same AAD and plaintext, the incremental interface emits
    the one-shot ciphertext cut at the call boundaries and the one-shot tag -/
theorem oneshot_eq_streamed (D : CipherDeps E R key nonce At) (M : MacDeps) (as : List Bytes)
    (ps : List (Bytes × Bool)) (hA : as.flatten.length < 2 ^ 64) (hP : (ps.map (·.1)).flatten.length < 2 ^ 64) :
    ∃ o o' ct tag, ChaChaPoly1305.new E R key nonce as.flatten = .ok o ∧
      ChaChaPoly1305.encrypt E R o (ps.map (·.1)).flatten (ps.map (·.1)).flatten.length 16 = .ok (o', ct, tag) ∧
      runNew E R key nonce (encProg as ps) = .ok ((cutAt (ps.map (·.1.length)) ct).map Out.bytes ++ [.bytes tag]) := by
  obtain ⟨o, o', h1, h2, _⟩ := oneshot_encrypt_eq_spec D M as.flatten (ps.map (·.1)).flatten hA hP
  exact ⟨o, o', _, _, h1, h2, streamed_encrypt_eq_spec D M as ps hA hP⟩

/-- nothing is lost by cutting: the emitted pieces concatenate to the whole ciphertext -/
theorem streamed_pieces_concat (R : Nat) (key nonce aad : Bytes) (ps : List (Bytes × Bool)) :
    (cutAt (ps.map (·.1.length)) (Spec.Aead.encrypt R key nonce aad (ps.map (·.1)).flatten).1).flatten =
      (Spec.Aead.encrypt R key nonce aad (ps.map (·.1)).flatten).1 := by
  apply cutAt_flatten
  simp only [Spec.Aead.encrypt, Spec.Aead.cipher, Spec.ChaCha.encrypt, encrypt_length, List.length_flatten,
    List.map_map, Function.comp_def]

/-! ## decrypt inverts encrypt -/

/-- on the Spec: `decrypt (encrypt pt) = pt` -/
theorem spec_roundtrip (R : Nat) (key nonce aad pt : Bytes) :
    Spec.Aead.decrypt R key nonce aad (Spec.Aead.encrypt R key nonce aad pt).1
      (Spec.Aead.encrypt R key nonce aad pt).2 = some pt := by
  simp [Spec.Aead.decrypt, Spec.Aead.encrypt, Spec.Aead.cipher, Spec.ChaCha.encrypt, encrypt_invol]

/-- **one-shot round trip**: a fresh object with the same parameters decrypts what `encrypt` produced to the
    plaintext and reports success -/
theorem oneshot_roundtrip (D : CipherDeps E R key nonce At) (M : MacDeps) (aad pt : Bytes)
    (hA : aad.length < 2 ^ 64) (hP : pt.length < 2 ^ 64) :
    ∃ o o1 ct tag o2, ChaChaPoly1305.new E R key nonce aad = .ok o ∧
      ChaChaPoly1305.encrypt E R o pt pt.length 16 = .ok (o1, ct, tag) ∧
      ChaChaPoly1305.decrypt E R o ct ct.length tag = .ok (o2, pt, true) := by
  obtain ⟨o, hnew, hfin, hinv⟩ := oneshot_new D M aad hA
  have hlen : (Spec.Aead.cipher R key nonce pt).length = pt.length := by
    simp [Spec.Aead.cipher, Spec.ChaCha.encrypt, encrypt_length]
  have hd := oneshot_decrypt D M o aad (Spec.Aead.cipher R key nonce pt)
    (Spec.Aead.tag R key nonce aad (Spec.Aead.cipher R key nonce pt)) hfin hinv (by rw [hlen]; exact hP)
    (tag_length _ _ _ _ _)
  have hinvol : Spec.Aead.cipher R key nonce (Spec.Aead.cipher R key nonce pt) = pt := by
    simp [Spec.Aead.cipher, Spec.ChaCha.encrypt, encrypt_invol]
  rw [hinvol] at hd
  simp only [decide_true] at hd
  exact ⟨o, _, _, _, _, hnew, oneshot_encrypt D M o aad pt hfin hinv hP, hd⟩

/-- **streamed round trip**: decrypting the RFC ciphertext of `P`, cut in ANY way (independent of how it was cut
    when encrypting), with the RFC tag, emits `P` cut at those boundaries and the verdict `true` -/
theorem streamed_roundtrip (D : CipherDeps E R key nonce At) (M : MacDeps) (as : List Bytes) (pt : Bytes)
    (cs : List (Bytes × Bool)) (hcs : (cs.map (·.1)).flatten = (Spec.Aead.encrypt R key nonce as.flatten pt).1)
    (hA : as.flatten.length < 2 ^ 64) (hP : pt.length < 2 ^ 64) :
    runNew E R key nonce (decProg as cs (Spec.Aead.encrypt R key nonce as.flatten pt).2) =
      .ok ((cutAt (cs.map (·.1.length)) pt).map Out.bytes ++ [.verdict true]) := by
  have hlen : (Spec.Aead.cipher R key nonce pt).length = pt.length := by
    simp [Spec.Aead.cipher, Spec.ChaCha.encrypt, encrypt_length]
  have hcs' : (cs.map (·.1)).flatten = Spec.Aead.cipher R key nonce pt := hcs
  have := streamed_decrypt_eq_spec D M as cs (Spec.Aead.encrypt R key nonce as.flatten pt).2
    (tag_length _ _ _ _ _) hA (by rw [hcs', hlen]; exact hP)
  rw [this, hcs']
  have hinvol : Spec.Aead.cipher R key nonce (Spec.Aead.cipher R key nonce pt) = pt := by
    simp [Spec.Aead.cipher, Spec.ChaCha.encrypt, encrypt_invol]
  simp [hinvol, Spec.Aead.encrypt]

/-! ## 6. closed over the stream unit: NO hypotheses beyond the domain guards -/

section closed
open Cx.Proofs.ChaCha
variable {α : σ → W16}

/-- one-time key = block 0 [0,32), cipher at position 64, for both key lengths and R ∈ {8,12,20} -/
theorem aead_new (S : EngineSim E α) (hk : Spec.ChaCha.validKey key) (hn : nonce.length = 12)
    (hR : Spec.ChaCha.validRounds R) :
    ∃ At, CipherDeps E R key nonce At ∧ ∃ c, Context.new E R key nonce = .ok c ∧
      c.mac = Poly1305.new ((Spec.ChaCha.block R key nonce 0).take 32) ∧
      At c.cipher 64 ∧ c.aad_len = 0 ∧ c.data_len = 0 :=
  with_cipher S hk hn hR fun At D => ⟨At, D, new_otk_block0_data_block1 D⟩

/-- **C06, streamed encryption = RFC 8439 for every partition** -/
theorem aead_streamed_encrypt (S : EngineSim E α) (as : List Bytes) (ps : List (Bytes × Bool))
    (hv : Spec.Aead.Valid R key nonce as.flatten (ps.map (·.1)).flatten) :
    runNew E R key nonce (encProg as ps) =
      .ok ((cutAt (ps.map (·.1.length)) (Spec.Aead.encrypt R key nonce as.flatten (ps.map (·.1)).flatten).1).map Out.bytes
           ++ [.bytes (Spec.Aead.encrypt R key nonce as.flatten (ps.map (·.1)).flatten).2]) :=
  with_cipher S hv.2.1 hv.2.2.1 hv.1 fun _ D => streamed_encrypt_eq_spec D macDeps as ps hv.2.2.2.1 hv.2.2.2.2

/-- **C06, streamed decryption for every partition** -/
theorem aead_streamed_decrypt (S : EngineSim E α) (as : List Bytes) (ps : List (Bytes × Bool))
    (t : Bytes) (ht : t.length = 16) (hv : Spec.Aead.Valid R key nonce as.flatten (ps.map (·.1)).flatten) :
    runNew E R key nonce (decProg as ps t) =
      .ok ((cutAt (ps.map (·.1.length)) (Spec.Aead.cipher R key nonce (ps.map (·.1)).flatten)).map Out.bytes
           ++ [.verdict (decide (t = Spec.Aead.tag R key nonce as.flatten (ps.map (·.1)).flatten))]) :=
  with_cipher S hv.2.1 hv.2.2.1 hv.1 fun _ D => streamed_decrypt_eq_spec D macDeps as ps t ht hv.2.2.2.1 hv.2.2.2.2

/-- **C06, one-shot encryption = RFC 8439** -/
theorem aead_oneshot_encrypt (S : EngineSim E α) (aad pt : Bytes)
    (hv : Spec.Aead.Valid R key nonce aad pt) :
    ∃ o o', ChaChaPoly1305.new E R key nonce aad = .ok o ∧
      ChaChaPoly1305.encrypt E R o pt pt.length 16 =
        .ok (o', (Spec.Aead.encrypt R key nonce aad pt).1, (Spec.Aead.encrypt R key nonce aad pt).2) ∧
      o'.finished = true :=
  with_cipher S hv.2.1 hv.2.2.1 hv.1 fun _ D => oneshot_encrypt_eq_spec D macDeps aad pt hv.2.2.2.1 hv.2.2.2.2

/-- **C06, one-shot decryption = RFC 8439** -/
theorem aead_oneshot_decrypt (S : EngineSim E α) (aad ct tag : Bytes) (ht : tag.length = 16)
    (hv : Spec.Aead.Valid R key nonce aad ct) :
    ∃ o o' out v, ChaChaPoly1305.new E R key nonce aad = .ok o ∧
      ChaChaPoly1305.decrypt E R o ct ct.length tag = .ok (o', out, v) ∧ o'.finished = true ∧
      (if v then some out else none) = Spec.Aead.decrypt R key nonce aad ct tag :=
  with_cipher S hv.2.1 hv.2.2.1 hv.1 fun _ D => oneshot_decrypt_eq_spec D macDeps aad ct tag hv.2.2.2.1 hv.2.2.2.2 ht

/-- **C06, one-shot = streamed** -/
theorem aead_oneshot_eq_streamed (S : EngineSim E α) (as : List Bytes) (ps : List (Bytes × Bool))
    (hv : Spec.Aead.Valid R key nonce as.flatten (ps.map (·.1)).flatten) :
    ∃ o o' ct tag, ChaChaPoly1305.new E R key nonce as.flatten = .ok o ∧
      ChaChaPoly1305.encrypt E R o (ps.map (·.1)).flatten (ps.map (·.1)).flatten.length 16 = .ok (o', ct, tag) ∧
      runNew E R key nonce (encProg as ps) = .ok ((cutAt (ps.map (·.1.length)) ct).map Out.bytes ++ [.bytes tag]) :=
  with_cipher S hv.2.1 hv.2.2.1 hv.1 fun _ D => oneshot_eq_streamed D macDeps as ps hv.2.2.2.1 hv.2.2.2.2

/-- **C06, decrypt (encrypt …) = (pt, true)**, one-shot -/
theorem aead_oneshot_roundtrip (S : EngineSim E α) (aad pt : Bytes)
    (hv : Spec.Aead.Valid R key nonce aad pt) :
    ∃ o o1 ct tag o2, ChaChaPoly1305.new E R key nonce aad = .ok o ∧
      ChaChaPoly1305.encrypt E R o pt pt.length 16 = .ok (o1, ct, tag) ∧
      ChaChaPoly1305.decrypt E R o ct ct.length tag = .ok (o2, pt, true) :=
  with_cipher S hv.2.1 hv.2.2.1 hv.1 fun _ D => oneshot_roundtrip D macDeps aad pt hv.2.2.2.1 hv.2.2.2.2

/-- **C06, decrypt (encrypt …) = (pt, true)**, streamed, any two independent partitions -/
theorem aead_streamed_roundtrip (S : EngineSim E α) (as : List Bytes) (pt : Bytes)
    (cs : List (Bytes × Bool)) (hcs : (cs.map (·.1)).flatten = (Spec.Aead.encrypt R key nonce as.flatten pt).1)
    (hv : Spec.Aead.Valid R key nonce as.flatten pt) :
    runNew E R key nonce (decProg as cs (Spec.Aead.encrypt R key nonce as.flatten pt).2) =
      .ok ((cutAt (cs.map (·.1.length)) pt).map Out.bytes ++ [.verdict true]) :=
  with_cipher S hv.2.1 hv.2.2.1 hv.1 fun _ D => streamed_roundtrip D macDeps as pt cs hcs hv.2.2.2.1 hv.2.2.2.2

/-- the MAC input for any history, closed -/
theorem aead_mac_input_any_history (S : EngineSim E α) (hk : Spec.ChaCha.validKey key)
    (hn : nonce.length = 12) (hR : Spec.ChaCha.validRounds R) (ops : List Op) (a : AbsSt)
    (outs : List Out) (h : absRun R key nonce ⟨.aad, [], []⟩ ops = some (a, outs))
    (hph : a.phase = .enc ∨ a.phase = .dec) (hb : a.aad.length < 2 ^ 64 ∧ a.ct.length < 2 ^ 64) :
    ∃ c st, Context.new E R key nonce = .ok c ∧ run E R (.aad, c) ops = .ok (st, outs) ∧
      MacAbs (Spec.Aead.polyKeyGen R key nonce) st.2.mac (a.aad ++ Spec.Aead.pad16 a.aad ++ a.ct) ∧
      st.2.aad_len = a.aad.length ∧ st.2.data_len = a.ct.length ∧
      ∃ c', finalize_raw st.2 =
        .ok (c', Spec.Poly1305.mac (Spec.Aead.polyKeyGen R key nonce) (Spec.Aead.macData a.aad a.ct)) :=
  with_cipher S hk hn hR fun _ D => mac_input_any_history D macDeps ops a outs h hph hb

end closed

/-! ## non-vacuity and tests (labelled as tests: kernel evaluation on the RFC 8439 §2.8.2 vector) -/

section tests
def tKey : Bytes := (List.range 32).map (fun i => UInt8.ofNat (0x80 + i))
def tNonce : Bytes := [0x07, 0, 0, 0, 0x40, 0x41, 0x42, 0x43, 0x44, 0x45, 0x46, 0x47]
def tAad : Bytes := [0x50, 0x51, 0x52, 0x53, 0xc0, 0xc1, 0xc2, 0xc3, 0xc4, 0xc5, 0xc6, 0xc7]
def tPt : Bytes :=
  "Ladies and Gentlemen of the class of '99: If I could offer you only one tip for the future, sunscreen would be it.".toList.map
    (fun c => UInt8.ofNat c.toNat)
def tTag : Bytes := [0x1a, 0xe1, 0x0b, 0x59, 0x4f, 0x09, 0xe2, 0x6a, 0x7e, 0x90, 0x2e, 0xcb, 0xd0, 0x60, 0x06, 0x91]
def okEq (r : Except String (List Out)) (e : List Out) : Bool :=
  match r with
  | .ok outs => decide (outs = e)
  | .error _ => false

/-- the hypotheses are satisfiable: both engine models, a valid RFC input (key 32), a 16-byte key -/
example : Cx.Proofs.ChaCha.EngineSim ChaCha.sse2Engine Cx.Proofs.ChaCha.toRef := Cx.Proofs.ChaCha.sse2Sim
example : Cx.Proofs.ChaCha.EngineSim ChaCha.referenceEngine id := Cx.Proofs.ChaCha.referenceSim
example : Spec.Aead.Valid 20 tKey tNonce tAad tPt := by decide +kernel
example : Spec.Aead.Valid 8 (tKey.take 16) tNonce [] [] := by decide +kernel
set_option maxRecDepth 100000 in
/-- an instance of what `MacDeps.mac_eq` asserts (two chunks, the second one partial) -/
example : (match Poly1305.mac Poly1305.codeVariant tKey [tPt.take 37, tPt.drop 37] with
    | .ok t => decide (t = Spec.Poly1305.mac tKey tPt) | .error _ => false) = true := by decide +kernel
/-- a history that `absRun` allows, ending in the encryption phase (hypotheses of `mac_input_any_history`) -/
example : ∃ a outs, absRun 20 tKey tNonce ⟨.aad, [], []⟩ [.addData [1, 2], .toEnc, .encryptMut [3]] = some (a, outs) ∧
    a.phase = .enc ∧ a.aad = [1, 2] ∧ a.ct.length = 1 := ⟨_, _, rfl, rfl, rfl, by simp [encrypt_length, Spec.ChaCha.encrypt]⟩

set_option maxRecDepth 100000 in
/-- TEST: the Spec reproduces the RFC 8439 §2.8.2 tag (and ciphertext prefix d3 1a 8d 34) -/
example : (Spec.Aead.encryptFast 20 tKey tNonce tAad tPt).2 = tTag
    ∧ (Spec.Aead.encryptFast 20 tKey tNonce tAad tPt).1.take 4 = [0xd3, 0x1a, 0x8d, 0x34] := by decide +kernel
set_option maxRecDepth 100000 in
/-- TEST: the model, streamed over a 5+7 / 70+44 partition (buffer-to-buffer then in place), emits the Spec
    ciphertext cut at 70 and the RFC tag -/
example : okEq (runNew ChaCha.sse2Engine 20 tKey tNonce
      (encProg [tAad.take 5, tAad.drop 5] [(tPt.take 70, false), (tPt.drop 70, true)]))
    [.bytes ((Spec.Aead.encryptFast 20 tKey tNonce tAad tPt).1.take 70),
     .bytes ((Spec.Aead.encryptFast 20 tKey tNonce tAad tPt).1.drop 70), .bytes tTag] = true := by decide +kernel
end tests

end Cx.Props.C06.Aead
