/-
  Proofs.GeDsm — `GePartial::double_scalarmult_vartime(a, A, b)` (ge.rs) represents `[a]A + [b]B`:
  both scalars are recoded by `Scalar::slide` (contract proved in Proofs/Scalar64Slide.lean: Σ r_i·2^i = a, every
  non-zero digit odd, |r_i| ≤ 15), the table `ai[k] = [2k+1]A` is built by `A2 = 2A, ai[k+1] = A2 + ai[k]`, `BI[k] =
  [2k+1]B` is the extracted table (Proofs/GeTables.lean), and the loop from the top non-zero index down to 0 doubles
  and adds/subtracts the selected odd multiples.  Loop invariant: after the iterations for indices `n-1 … 0` started
  from an accumulator representing `R`, the accumulator represents `2^n·R + Σ_{j<n} 2^j·(a_j·A + b_j·B)`.
  Needs `Nat.Prime p` and the group-law hypothesis (to rearrange multiples) — exactly like `scalarmult_base_ok`.
  This discharges the interface `DsmFact` of Proofs/Ed25519Verify.lean.
-/
import CxVerif.Proofs.Ed25519Verify
import CxVerif.Proofs.Scalar64Slide
namespace Cx.Proofs.GeDsm
open Cx Cx.Spec Cx.Impl.Fe64 Cx.Impl.Ge Cx.Proofs.EdField Cx.Proofs.EdSpec Cx.Proofs.GeRefine Cx.Proofs.GeComb
  Cx.Proofs.Ed25519Sign Cx.Proofs.Ed25519Verify
open Cx.Proofs.Fe64 (some_bind pure_eq_some)
open Cx.Impl.Scalar64 (Scalar ckI8)
open Cx.Proofs.Scalar64.Slide (Dig)
open Cx.Spec.ScalarL (evalDigits)
open Cx.Spec.Field25519 (p)

set_option maxRecDepth 10000

/-! ### digit lists -/

theorem evalDigits_split (l : List Int) : ∀ n : Nat,
    evalDigits 2 l = evalDigits 2 (l.take n) + 2 ^ n * evalDigits 2 (l.drop n) := by
  induction l with
  | nil => intro n; simp [evalDigits]
  | cons d ds ih =>
    intro n
    cases n with
    | zero => simp [evalDigits]
    | succ n =>
      simp only [List.take_succ_cons, List.drop_succ_cons, evalDigits]
      rw [ih n, pow_succ]; push_cast; ring

theorem evalDigits_zeros (l : List Int) (h : ∀ d ∈ l, d = 0) : evalDigits 2 l = 0 := by
  induction l with
  | nil => rfl
  | cons d ds ih =>
    simp only [evalDigits]
    rw [h d (List.mem_cons_self), ih (fun e he => h e (List.mem_cons_of_mem _ he))]; simp

theorem evalDigits_take_succ (l : List Int) : ∀ (n : Nat) (d : Int), l[n]? = some d →
    evalDigits 2 (l.take (n + 1)) = evalDigits 2 (l.take n) + 2 ^ n * d := by
  induction l with
  | nil => intro n d h; simp at h
  | cons e es ih =>
    intro n d h
    cases n with
    | zero =>
      simp only [List.getElem?_cons_zero, Option.some.injEq] at h
      subst h; simp [evalDigits]
    | succ n =>
      simp only [List.getElem?_cons_succ] at h
      simp only [List.take_succ_cons, evalDigits]
      rw [ih n d h, pow_succ]; push_cast; ring

/-- digits above the top index are zero: the prefix already denotes the whole value -/
theorem evalDigits_take_top (l : List Int) (n : Nat) (h : ∀ j, n ≤ j → j < l.length → l[j]? = some 0) :
    evalDigits 2 (l.take n) = evalDigits 2 l := by
  rw [evalDigits_split l n, evalDigits_zeros (l.drop n), mul_zero, add_zero]
  intro d hd
  obtain ⟨j, hj, rfl⟩ := List.getElem_of_mem hd
  have hj' : n + j < l.length := by simp at hj; omega
  have := h (n + j) (by omega) hj'
  rw [List.getElem?_eq_getElem hj'] at this
  simp only [List.getElem_drop]
  exact Option.some.inj this

/-! ### the indices selected by a sliding-window digit -/

theorem dig_pos (d : Int) (hd : Dig d) (h : d > 0) :
    ∃ k : Nat, k < 8 ∧ (Int.tdiv d 2).toNat = k ∧ d = ((2 * k + 1 : Nat) : Int) := by
  rcases hd with h0 | ⟨h1, h2, h3⟩
  · omega
  · refine ⟨(d / 2).toNat, by omega, ?_, by omega⟩
    rw [Int.tdiv_eq_ediv_of_nonneg (by omega)]

theorem dig_neg (d : Int) (hd : Dig d) (h : d < 0) :
    ∃ k : Nat, k < 8 ∧ ckI8 (-d) = some (-d) ∧ (Int.tdiv (-d) 2).toNat = k ∧ d = -((2 * k + 1 : Nat) : Int) := by
  rcases hd with h0 | ⟨h1, h2, h3⟩
  · omega
  · refine ⟨((-d) / 2).toNat, by omega, ?_, ?_, by omega⟩
    · exact Proofs.Scalar64.Slide.ckI8_some _ (by omega) (by omega)
    · rw [Int.tdiv_eq_ediv_of_nonneg (by omega)]

/-! ### the first loop: the top non-zero index -/

theorem topIndex_none (al bl : List Int) : ∀ n, topIndex al bl n = none →
    ∀ j, j < n → al[j]? = some 0 ∧ bl[j]? = some 0 := by
  intro n
  induction n with
  | zero => intro _ j hj; omega
  | succ n ih =>
    intro h j hj
    simp only [topIndex] at h
    by_cases hc : (al[n]? != some 0 || bl[n]? != some 0) = true
    · rw [if_pos hc] at h; cases h
    · rw [if_neg hc] at h
      by_cases hjn : j = n
      · subst hjn
        simp only [Bool.or_eq_true, bne_iff_ne, ne_eq, not_or, not_not] at hc
        exact hc
      · exact ih h j (by omega)

theorem topIndex_some (al bl : List Int) : ∀ n i, topIndex al bl n = some i →
    i < n ∧ ∀ j, i < j → j < n → al[j]? = some 0 ∧ bl[j]? = some 0 := by
  intro n
  induction n with
  | zero => intro i h; simp [topIndex] at h
  | succ n ih =>
    intro i h
    simp only [topIndex] at h
    by_cases hc : (al[n]? != some 0 || bl[n]? != some 0) = true
    · rw [if_pos hc] at h
      have : n = i := Option.some.inj h
      subst this
      exact ⟨by omega, fun j h1 h2 => by omega⟩
    · rw [if_neg hc] at h
      obtain ⟨h1, h2⟩ := ih i h
      refine ⟨by omega, fun j hj1 hj2 => ?_⟩
      by_cases hjn : j = n
      · subst hjn
        simp only [Bool.or_eq_true, bne_iff_ne, ne_eq, not_or, not_not] at hc
        exact hc
      · exact h2 j hj1 (by omega)

section loop
variable [hp : Fact (Nat.Prime p)] [hG : GroupLawFact]

/-- `ai[k]` is a cached representation of `[2k+1]A` -/
def TableA (ai : List GeCached) (Ac : CurvePoint) : Prop :=
  ∀ k, k < 8 → ∃ c, ai[k]? = some c ∧ CachedOk c (((2 * k + 1 : Nat) • Ac)).1

/-- `BI[k]` is a precomputed representation of `[2k+1]B` (table theorem of Proofs/GeTables.lean) -/
theorem BI_table (k : Nat) (hk : k < 8) : ∃ c, BI[k]? = some c ∧ PrecompOk c (((2 * k + 1 : Nat) • Bc)).1 := by
  obtain ⟨e, he, hb, hv⟩ := Proofs.Ge.BI_entry k hk
  refine ⟨e, he, ?_⟩
  rw [cval_nsmul]
  exact precompOk_of_table e _ hb hv

theorem sub_eq (P Q : CurvePoint) : Edwards.sub P.1 Q.1 = (P - Q).1 := by
  rw [sub_eq_add_neg, cval_add, cval_neg]; rfl

/-- the `aslide` part of one loop pass -/
theorem phaseA_ok (ai : List GeCached) (Ac : CurvePoint) (hT : TableA ai Ac) (t : GeP1P1) (R : CurvePoint)
    (ht : P1P1Ok t R.1) (d : Int) (hd : Dig d) :
    (0 < d → ∃ k c f t', k < 8 ∧ (Int.tdiv d 2).toNat = k ∧ ai[k]? = some c ∧ t.to_full = some f ∧
        f.add_cached c = some t' ∧ P1P1Ok t' (R + d • Ac).1) ∧
    (d < 0 → ∃ k c f t', k < 8 ∧ ckI8 (-d) = some (-d) ∧ (Int.tdiv (-d) 2).toNat = k ∧ ai[k]? = some c ∧
        t.to_full = some f ∧ f.sub_cached c = some t' ∧ P1P1Ok t' (R + d • Ac).1) := by
  obtain ⟨f, ef, fok⟩ := to_full_ok t _ ht
  constructor
  · intro h
    obtain ⟨k, hk, hidx, hdk⟩ := dig_pos d hd h
    obtain ⟨c, hc, cok⟩ := hT k hk
    obtain ⟨t', et', ok'⟩ := add_cached_ok f c _ _ fok cok R.2 (((2 * k + 1 : Nat) • Ac)).2
    refine ⟨k, c, f, t', hk, hidx, hc, ef, et', ?_⟩
    rw [← cval_add] at ok'
    rw [hdk, natCast_zsmul]; exact ok'
  · intro h
    obtain ⟨k, hk, hck, hidx, hdk⟩ := dig_neg d hd h
    obtain ⟨c, hc, cok⟩ := hT k hk
    obtain ⟨t', et', ok'⟩ := sub_cached_ok f c _ _ fok cok R.2 (((2 * k + 1 : Nat) • Ac)).2
    refine ⟨k, c, f, t', hk, hck, hidx, hc, ef, et', ?_⟩
    rw [sub_eq] at ok'
    rw [hdk, neg_smul, natCast_zsmul, ← sub_eq_add_neg]; exact ok'

/-- the `bslide` part of one loop pass -/
theorem phaseB_ok (t : GeP1P1) (R : CurvePoint) (ht : P1P1Ok t R.1) (d : Int) (hd : Dig d) :
    (0 < d → ∃ k c f t', k < 8 ∧ (Int.tdiv d 2).toNat = k ∧ BI[k]? = some c ∧ t.to_full = some f ∧
        f.add_precomp c = some t' ∧ P1P1Ok t' (R + d • Bc).1) ∧
    (d < 0 → ∃ k c f t', k < 8 ∧ ckI8 (-d) = some (-d) ∧ (Int.tdiv (-d) 2).toNat = k ∧ BI[k]? = some c ∧
        t.to_full = some f ∧ f.sub_precomp c = some t' ∧ P1P1Ok t' (R + d • Bc).1) := by
  obtain ⟨f, ef, fok⟩ := to_full_ok t _ ht
  constructor
  · intro h
    obtain ⟨k, hk, hidx, hdk⟩ := dig_pos d hd h
    obtain ⟨c, hc, cok⟩ := BI_table k hk
    obtain ⟨t', et', ok'⟩ := add_precomp_ok f c _ _ fok cok R.2 (((2 * k + 1 : Nat) • Bc)).2
    refine ⟨k, c, f, t', hk, hidx, hc, ef, et', ?_⟩
    rw [← cval_add] at ok'
    rw [hdk, natCast_zsmul]; exact ok'
  · intro h
    obtain ⟨k, hk, hck, hidx, hdk⟩ := dig_neg d hd h
    obtain ⟨c, hc, cok⟩ := BI_table k hk
    obtain ⟨t', et', ok'⟩ := sub_precomp_ok f c _ _ fok cok R.2 (((2 * k + 1 : Nat) • Bc)).2
    refine ⟨k, c, f, t', hk, hck, hidx, hc, ef, et', ?_⟩
    rw [sub_eq] at ok'
    rw [hdk, neg_smul, natCast_zsmul, ← sub_eq_add_neg]; exact ok'

/-- the tail of `dsmStep` (the `bslide` part and `to_partial`) -/
theorem tailB_ok (bl : List Int) (i : Nat) (db : Int) (hb : bl[i]? = some db) (hdb : Dig db)
    (t1 : GeP1P1) (R1 : CurvePoint) (ht : P1P1Ok t1 R1.1) :
    ∃ r', (do
        let bd ← bl[i]?
        if bd > 0 then do
          let c ← BI[(Int.tdiv bd 2).toNat]?
          let f ← t1.to_full
          let t ← f.add_precomp c
          t.to_partial
        else if bd < 0 then do
          let nd ← ckI8 (-bd)
          let c ← BI[(Int.tdiv nd 2).toNat]?
          let f ← t1.to_full
          let t ← f.sub_precomp c
          t.to_partial
        else do
          let t ← pure t1
          t.to_partial) = some r' ∧ PartialOk r' (R1 + db • Bc).1 := by
  obtain ⟨hpos, hneg⟩ := phaseB_ok t1 R1 ht db hdb
  rw [hb, some_bind]
  by_cases h1 : db > 0
  · obtain ⟨k, c, f, t', hk, hidx, hc, ef, et', ok'⟩ := hpos h1
    obtain ⟨r', er', rok⟩ := to_partial_ok t' _ ok'
    rw [if_pos h1, hidx, hc, some_bind, ef, some_bind, et', some_bind]
    exact ⟨r', er', rok⟩
  · rw [if_neg h1]
    by_cases h2 : db < 0
    · obtain ⟨k, c, f, t', hk, hck, hidx, hc, ef, et', ok'⟩ := hneg h2
      obtain ⟨r', er', rok⟩ := to_partial_ok t' _ ok'
      rw [if_pos h2, hck, some_bind, hidx, hc, some_bind, ef, some_bind, et', some_bind]
      exact ⟨r', er', rok⟩
    · have h0 : db = 0 := by omega
      obtain ⟨r', er', rok⟩ := to_partial_ok t1 _ ht
      rw [if_neg h2, pure_eq_some, some_bind]
      refine ⟨r', er', ?_⟩
      rw [h0, zero_smul, add_zero]; exact rok

/-- one pass of the second loop: `r ↦ 2r + a_i·A + b_i·B` -/
theorem dsmStep_ok (ai : List GeCached) (Ac : CurvePoint) (hT : TableA ai Ac) (al bl : List Int) (i : Nat)
    (da db : Int) (ha : al[i]? = some da) (hb : bl[i]? = some db) (hda : Dig da) (hdb : Dig db)
    (r : GePartial) (R : CurvePoint) (hr : PartialOk r R.1) :
    ∃ r', dsmStep ai al bl r i = some r' ∧ PartialOk r' (R + R + da • Ac + db • Bc).1 := by
  obtain ⟨t, et, tok⟩ := partial_double_p1p1_ok r _ hr R.2
  rw [double_eq] at tok
  obtain ⟨hpos, hneg⟩ := phaseA_ok ai Ac hT t (R + R) tok da hda
  simp only [dsmStep]
  rw [et, some_bind, ha, some_bind]
  by_cases h1 : da > 0
  · obtain ⟨k, c, f, t', hk, hidx, hc, ef, et', ok'⟩ := hpos h1
    rw [if_pos h1, hidx, hc, some_bind, ef, some_bind, et', some_bind]
    exact tailB_ok bl i db hb hdb t' _ ok'
  · rw [if_neg h1]
    by_cases h2 : da < 0
    · obtain ⟨k, c, f, t', hk, hck, hidx, hc, ef, et', ok'⟩ := hneg h2
      rw [if_pos h2, hck, some_bind, hidx, hc, some_bind, ef, some_bind, et', some_bind]
      exact tailB_ok bl i db hb hdb t' _ ok'
    · have h0 : da = 0 := by omega
      rw [if_neg h2, pure_eq_some, some_bind]
      have := tailB_ok bl i db hb hdb t (R + R) tok
      rw [h0, zero_smul, add_zero]
      exact this

/-- the second loop over the indices `n-1, …, 0` -/
theorem dsmLoop_ok (ai : List GeCached) (Ac : CurvePoint) (hT : TableA ai Ac) (al bl : List Int)
    (hal : ∀ j, j < 256 → ∃ d, al[j]? = some d ∧ Dig d) (hbl : ∀ j, j < 256 → ∃ d, bl[j]? = some d ∧ Dig d) :
    ∀ (n : Nat) (r : GePartial) (R : CurvePoint), n ≤ 256 → PartialOk r R.1 →
      ∃ r', dsmLoop ai al bl n r = some r' ∧
        PartialOk r' ((2 ^ n : Nat) • R + (evalDigits 2 (al.take n) • Ac + evalDigits 2 (bl.take n) • Bc)).1 := by
  intro n
  induction n with
  | zero =>
    intro r R _ hr
    refine ⟨r, rfl, ?_⟩
    simp only [List.take_zero, evalDigits, zero_smul, add_zero, pow_zero, one_smul]
    exact hr
  | succ n ih =>
    intro r R hn hr
    obtain ⟨da, ha, hda⟩ := hal n (by omega)
    obtain ⟨db, hb, hdb⟩ := hbl n (by omega)
    obtain ⟨r1, e1, ok1⟩ := dsmStep_ok ai Ac hT al bl n da db ha hb hda hdb r R hr
    obtain ⟨r', e', ok'⟩ := ih r1 _ (by omega) ok1
    refine ⟨r', ?_, ?_⟩
    · simp only [dsmLoop]
      rw [e1, some_bind]; exact e'
    · rw [evalDigits_take_succ al n da ha, evalDigits_take_succ bl n db hb]
      have : (2 ^ n : Nat) • (R + R + da • Ac + db • Bc) +
          (evalDigits 2 (al.take n) • Ac + evalDigits 2 (bl.take n) • Bc)
          = (2 ^ (n + 1) : Nat) • R + ((evalDigits 2 (al.take n) + 2 ^ n * da) • Ac +
            (evalDigits 2 (bl.take n) + 2 ^ n * db) • Bc) := by
        rw [pow_succ]
        simp only [← natCast_zsmul]
        push_cast
        module
      rw [← this]; exact ok'

/-- `a_{m+2} = (&a2 + &a_m).to_full().to_cached()` -/
theorem nextOdd_ok (a2 : Ge) (ak : GeCached) (Ac : CurvePoint) (m : Nat) (h2 : GeOk a2 ((2 : Nat) • Ac).1)
    (hk : CachedOk ak ((m : Nat) • Ac).1) :
    ∃ c, nextOdd a2 ak = some c ∧ CachedOk c ((m + 2 : Nat) • Ac).1 := by
  obtain ⟨s, es, sok⟩ := add_cached_ok a2 ak _ _ h2 hk ((2 : Nat) • Ac).2 ((m : Nat) • Ac).2
  obtain ⟨f, ef, fok⟩ := to_full_ok s _ sok
  obtain ⟨c, ec, cok⟩ := to_cached_ok f _ fok
  refine ⟨c, ?_, ?_⟩
  · simp only [nextOdd]
    rw [es, some_bind, ef, some_bind]; exact ec
  · rw [← cval_add, ← add_nsmul, Nat.add_comm] at cok
    exact cok

/-- **`double_scalarmult_vartime(a, A, b)` represents `[a]A + [b]B`** -/
theorem dsm_ok (a b : Scalar) (g : Ge) (A : Edwards.Point) (ha : SInv a) (hb : SInv b) (hav : a.val < 2 ^ 255)
    (hbv : b.val < 2 ^ 255) (hg : GeOk g A) (hA : OnCurve A) :
    ∃ r, GePartial.double_scalarmult_vartime a g b = some r ∧
      PartialOk r (Edwards.add (Edwards.smul a.val A) (Edwards.smul b.val Edwards.B)) := by
  let Ac : CurvePoint := ⟨A, hA⟩
  have hAc : Ac.1 = A := rfl
  obtain ⟨ra, era, hva, hda⟩ := Proofs.Scalar64.Slide.slide_spec a ha hav
  obtain ⟨rb, erb, hvb, hdb⟩ := Proofs.Scalar64.Slide.slide_spec b hb hbv
  -- the target point, in the group
  have htarget : Edwards.add (Edwards.smul a.val A) (Edwards.smul b.val Edwards.B)
      = (evalDigits 2 ra.toList • Ac + evalDigits 2 rb.toList • Bc).1 := by
    rw [hva, hvb, natCast_zsmul, natCast_zsmul, cval_add, cval_nsmul, cval_nsmul]; rfl
  rw [htarget]
  -- the table of odd multiples of A
  obtain ⟨a1, e1, ok1⟩ := to_cached_ok g A hg
  obtain ⟨d2, ed2, okd2⟩ := ge_double_p1p1_ok g A hg hA
  obtain ⟨a2, e2, ok2⟩ := to_full_ok d2 _ okd2
  have ok1' : CachedOk a1 ((1 : Nat) • Ac).1 := by rw [one_nsmul]; exact ok1
  have ok2' : GeOk a2 ((2 : Nat) • Ac).1 := by rw [two_nsmul]; exact ok2
  obtain ⟨a3, e3, ok3⟩ := nextOdd_ok a2 a1 Ac 1 ok2' ok1'
  obtain ⟨a5, e5, ok5⟩ := nextOdd_ok a2 a3 Ac 3 ok2' ok3
  obtain ⟨a7, e7, ok7⟩ := nextOdd_ok a2 a5 Ac 5 ok2' ok5
  obtain ⟨a9, e9, ok9⟩ := nextOdd_ok a2 a7 Ac 7 ok2' ok7
  obtain ⟨a11, e11, ok11⟩ := nextOdd_ok a2 a9 Ac 9 ok2' ok9
  obtain ⟨a13, e13, ok13⟩ := nextOdd_ok a2 a11 Ac 11 ok2' ok11
  obtain ⟨a15, e15, ok15⟩ := nextOdd_ok a2 a13 Ac 13 ok2' ok13
  have hT : TableA [a1, a3, a5, a7, a9, a11, a13, a15] Ac := by
    intro k hk
    match k, hk with
    | 0, _ => exact ⟨a1, rfl, ok1'⟩
    | 1, _ => exact ⟨a3, rfl, ok3⟩
    | 2, _ => exact ⟨a5, rfl, ok5⟩
    | 3, _ => exact ⟨a7, rfl, ok7⟩
    | 4, _ => exact ⟨a9, rfl, ok9⟩
    | 5, _ => exact ⟨a11, rfl, ok11⟩
    | 6, _ => exact ⟨a13, rfl, ok13⟩
    | 7, _ => exact ⟨a15, rfl, ok15⟩
    | k + 8, h => omega
  -- the digits
  have hdig : ∀ (rv : Vector Int 256), (∀ d ∈ rv.toList, Dig d) → ∀ j, j < 256 → ∃ d, rv.toList[j]? = some d ∧ Dig d := by
    intro rv hd j hj
    have hl : j < rv.toList.length := by simpa using hj
    exact ⟨rv.toList[j], List.getElem?_eq_getElem hl, hd _ (List.getElem_mem hl)⟩
  simp only [GePartial.double_scalarmult_vartime]
  rw [era, some_bind, erb, some_bind, e1, some_bind, ed2, some_bind, e2, some_bind, e3, some_bind, e5, some_bind,
    e7, some_bind, e9, some_bind, e11, some_bind, e13, some_bind, e15, some_bind]
  cases ht : topIndex ra.toList rb.toList 256 with
  | none =>
    refine ⟨GePartial.ZERO, rfl, ?_⟩
    have hz := topIndex_none _ _ 256 ht
    have za : evalDigits 2 ra.toList = 0 := by
      rw [← evalDigits_take_top ra.toList 0 (fun j _ hj => (hz j (by simpa using hj)).1)]; rfl
    have zb : evalDigits 2 rb.toList = 0 := by
      rw [← evalDigits_take_top rb.toList 0 (fun j _ hj => (hz j (by simpa using hj)).2)]; rfl
    rw [za, zb, zero_smul, zero_smul, add_zero, cval_zero]
    exact partial_ZERO_ok
  | some i =>
    obtain ⟨hi, hz⟩ := topIndex_some _ _ 256 i ht
    obtain ⟨r', er', ok'⟩ := dsmLoop_ok _ Ac hT ra.toList rb.toList (hdig ra hda) (hdig rb hdb) (i + 1)
      GePartial.ZERO 0 (by omega) (by rw [cval_zero]; exact partial_ZERO_ok)
    refine ⟨r', er', ?_⟩
    rw [evalDigits_take_top ra.toList (i + 1) (fun j h1 hj => (hz j (by omega) (by simpa using hj)).1),
      evalDigits_take_top rb.toList (i + 1) (fun j h1 hj => (hz j (by omega) (by simpa using hj)).2),
      smul_zero, zero_add] at ok'
    exact ok'

end loop

/-- the interface `DsmFact` of the `verify` theorem, under primality and the group law -/
theorem dsmFact [Fact (Nat.Prime p)] (G : EdwardsGroupLaw) : DsmFact := by
  have : GroupLawFact := ⟨G⟩
  intro a b g A ha hb hav hbv hg hA
  exact dsm_ok a b g A ha hb hav hbv hg hA

end Cx.Proofs.GeDsm
