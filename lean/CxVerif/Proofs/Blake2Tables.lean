/-
  Proofs.Blake2Tables — the table obligations of the blake2 unit: the constants extracted from
  /repo/src/hashing/blake2/common.rs against RFC 7693 (Spec.Blake2).
-/
import CxVerif.Spec.Blake2
import CxVerif.Impl.Blake2
namespace Cx.Proofs.Blake2
open Cx Cx.Spec.Blake2

/-- `isqrt` really is the integer square root on the 16 arguments the IV formula uses -/
theorem isqrt_spec_iv : ∀ w ∈ [32, 64], ∀ p ∈ primes8,
    isqrt (p * 2 ^ (2 * w)) * isqrt (p * 2 ^ (2 * w)) ≤ p * 2 ^ (2 * w) ∧
    p * 2 ^ (2 * w) < (isqrt (p * 2 ^ (2 * w)) + 1) * (isqrt (p * 2 ^ (2 * w)) + 1) := by decide +kernel

theorem iv_b_formula : Extracted.Blake2.B_IV = (List.range 8).map (ivNat 64) := by decide +kernel
theorem iv_s_formula : Extracted.Blake2.S_IV = (List.range 8).map (ivNat 32) := by decide +kernel
/-- BLAKE2s IV = high halves of the BLAKE2b IV (SHA-256 vs SHA-512 initial values) -/
theorem iv_s_high_half : Extracted.Blake2.S_IV = Extracted.Blake2.B_IV.map (· / 2 ^ 32) := by decide

theorem sigma_len : Extracted.Blake2.SIGMA.length = 12 := by decide
theorem sigma_rows_perm : ∀ row ∈ Extracted.Blake2.SIGMA, row.length = 16 ∧ ∀ k < 16, k ∈ row := by decide
theorem sigma_rows_eq_spec : ∀ r < 12, Impl.Blake2.sigmaRow r = Spec.Blake2.SIGMA.getD (r % 10) [] := by decide
theorem sigma_rows_10_11 : Impl.Blake2.sigmaRow 10 = Impl.Blake2.sigmaRow 0 ∧ Impl.Blake2.sigmaRow 11 = Impl.Blake2.sigmaRow 1 := by decide
theorem spec_sigma_rows_perm : ∀ row ∈ Spec.Blake2.SIGMA, row.length = 16 ∧ ∀ k < 16, k ∈ row := by decide

theorem consts_b : [Extracted.Blake2.B_BLOCK_BYTES, Extracted.Blake2.B_ROUNDS, Extracted.Blake2.B_R1, Extracted.Blake2.B_R2,
    Extracted.Blake2.B_R3, Extracted.Blake2.B_R4, Extracted.Blake2.B_MAX_OUTLEN, Extracted.Blake2.B_MAX_KEYLEN]
    = [128, 12, 32, 24, 16, 63, 64, 64] := by decide
theorem consts_s : [Extracted.Blake2.S_BLOCK_BYTES, Extracted.Blake2.S_ROUNDS, Extracted.Blake2.S_R1, Extracted.Blake2.S_R2,
    Extracted.Blake2.S_R3, Extracted.Blake2.S_R4, Extracted.Blake2.S_MAX_OUTLEN, Extracted.Blake2.S_MAX_KEYLEN]
    = [64, 10, 16, 12, 8, 7, 32, 32] := by decide

theorem iv_b_entries : ∀ i : Fin 8, Extracted.Blake2.B_IV.getD i.val 0 = ivNat 64 i.val := by decide +kernel
theorem iv_s_entries : ∀ i : Fin 8, Extracted.Blake2.S_IV.getD i.val 0 = ivNat 32 i.val := by decide +kernel

/-- the code's parameter sets are the RFC's -/
theorem impl_b_eq_spec_b : Impl.Blake2.b = Spec.Blake2.b := by
  have h : (Vector.ofFn fun i : Fin 8 => UInt64.ofNat (Extracted.Blake2.B_IV.getD i.val 0)) = ivB := by
    unfold ivB; congr; funext i; rw [iv_b_entries]
  simp only [Impl.Blake2.b, Spec.Blake2.b, h]
  rfl
theorem impl_s_eq_spec_s : Impl.Blake2.s = Spec.Blake2.s := by
  have h : (Vector.ofFn fun i : Fin 8 => UInt32.ofNat (Extracted.Blake2.S_IV.getD i.val 0)) = ivS := by
    unfold ivS; congr; funext i; rw [iv_s_entries]
  simp only [Impl.Blake2.s, Spec.Blake2.s, h]
  rfl

/-- the unrolled rounds of `compressbody!` with the 12-row table = `SIGMA[i mod 10]`, `i < r` -/
theorem rows_b : Impl.Blake2.compressRows Spec.Blake2.b = Spec.Blake2.rows Spec.Blake2.b.rounds := by decide
theorem rows_s : Impl.Blake2.compressRows Spec.Blake2.s = Spec.Blake2.rows Spec.Blake2.s.rounds := by decide

end Cx.Proofs.Blake2
