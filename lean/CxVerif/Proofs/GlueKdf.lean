/-
  Proofs.GlueKdf — helper lemmas for the translator tie of the KDF glue (Props/C10/GlueTieKdf.lean):
  `Extracted/GlueKdf.lean` (regenerated from src/hkdf.rs, src/pbkdf2.rs, src/scrypt.rs by tools/ktx_glue_kdf.py) against the
  hand models of Impl/Kdf.lean.  Loops: induction over the chunk list / the count.  Core Lean only.
-/
import CxVerif.Extracted.GlueKdf
import CxVerif.Proofs.KdfHkdf
namespace Cx.Proofs.GlueKdf
open Cx Cx.Impl.Digest Cx.Impl.Hmac Cx.Impl.Kdf Cx.Extracted.GlueKdf
open Cx.Proofs.KdfHkdf (chunkLens_zero chunkLens_small chunkLens_step)

/-! ### `chunks` (the model of `slice::chunks` / `chunks_mut`) -/

theorem chunksAux_lengths (n : Nat) (hn : 0 < n) : ∀ (fuel : Nat) (bs : Bytes), bs.length ≤ fuel →
    (chunksAux n fuel bs).map List.length = chunkLens n bs.length := by
  intro fuel
  induction fuel with
  | zero =>
    intro bs h
    have : bs = [] := List.eq_nil_of_length_eq_zero (Nat.le_zero.mp h)
    subst this; simp [chunksAux, chunkLens_zero]
  | succ fuel ih =>
    intro bs h
    simp only [chunksAux]
    by_cases he : bs = []
    · subst he; simp [chunkLens_zero]
    · have hpos : 0 < bs.length := List.length_pos_iff.mpr he
      simp only [List.isEmpty_iff, he, if_false, List.map_cons, List.length_take]
      by_cases hlt : bs.length < n
      · rw [chunkLens_small n bs.length hpos hlt, Nat.min_eq_right (Nat.le_of_lt hlt)]
        have : bs.drop n = [] := List.drop_eq_nil_of_le (Nat.le_of_lt hlt)
        rw [ih (bs.drop n) (by simp; omega), this]; simp [chunkLens_zero]
      · have hge : n ≤ bs.length := Nat.le_of_not_lt hlt
        rw [chunkLens_step n bs.length hn hge, Nat.min_eq_left hge, ih (bs.drop n) (by simp; omega)]
        simp

theorem chunks_lengths (n : Nat) (hn : 0 < n) (bs : Bytes) : (chunks n bs).map List.length = chunkLens n bs.length :=
  chunksAux_lengths n hn _ bs (Nat.le_refl _)

/-! ### checked arithmetic helper of the generated file -/

theorem checkedAdd_some (bits a b : Nat) (h : a + b < 2 ^ bits) : checkedAdd bits a b = some (a + b) := by
  simp [checkedAdd, h]

theorem checkedAdd_none (bits a b : Nat) (h : ¬ a + b < 2 ^ bits) : checkedAdd bits a b = none := by
  simp [checkedAdd, h]

/-! ### `zipMut2` = the model's `xor_into` -/

theorem zipMut2_xor : ∀ (block scratch : Bytes), zipMut2 (fun o i => o ^^^ i) block scratch = xor_into block scratch := by
  intro block
  induction block with
  | nil => intro s; cases s <;> simp [zipMut2, xor_into]
  | cons o dst ih =>
    intro s
    cases s with
    | nil => simp [zipMut2, xor_into]
    | cons i src =>
      have := ih src
      simp only [xor_into] at this ⊢
      simp [zipMut2, this]

/-! ### src/hkdf.rs -/

section hkdf
variable {δ : Type} (D : DigestModel δ)

theorem hkdf_expand_loop1_eq (info : Bytes) : ∀ (cs : List Bytes) (mac : Hmac δ) (t : Bytes) (n : Nat) (acc : Bytes),
    (hkdf_expand_loop1_src D info cs mac t n acc).map (·.2.2.2) = hkdf_expand_loop D info (cs.map List.length) mac t n acc := by
  intro cs
  induction cs with
  | nil => intro mac t n acc; rfl
  | cons chunk rest ih =>
    intro mac t n acc
    simp only [hkdf_expand_loop1_src, List.map_cons, hkdf_expand_loop]
    by_cases hn : n + 1 ≤ 255
    · rw [checkedAdd_some 8 n 1 (by omega)]
      simp only [hn, not_true_eq_false, if_false]
      cases h1 : (if n + 1 ≠ 1 then Hmac.input D mac t else some mac) with
      | none => rfl
      | some mac1 =>
        simp only []
        cases h2 : Hmac.input D mac1 info with
        | none => rfl
        | some mac2 =>
          simp only []
          cases h3 : Hmac.input D mac2 [UInt8.ofNat (n + 1)] with
          | none => rfl
          | some mac3 =>
            simp only []
            cases h4 : Hmac.raw_result D mac3 t.length with
            | none => rfl
            | some r =>
              obtain ⟨mac4, t'⟩ := r
              simp only []
              cases h5 : Hmac.reset D mac4 with
              | none => rfl
              | some mac5 =>
                simp only [Nat.le_refl, not_true_eq_false, if_false]
                by_cases hl : chunk.length ≤ t'.length
                · simp only [hl, not_true_eq_false, if_false, List.drop_length, List.append_nil]
                  exact ih mac5 t' (n + 1) _
                · simp [hl]
    · rw [checkedAdd_none 8 n 1 (by omega)]
      simp [hn]

theorem hkdf_expand_src_eq (digest : δ) (prk info okm : Bytes) :
    hkdf_expand_src D digest prk info okm = hkdf_expand D digest prk info okm.length := by
  simp only [hkdf_expand_src, hkdf_expand]
  cases D.reset digest with
  | none => rfl
  | some digest =>
    simp only []
    -- assert!(prk.len() >= digest.output_bytes());
    by_cases hp : prk.length ≥ D.output_bytes digest
    · simp only [hp, not_true_eq_false, if_false]
      cases Hmac.new D digest prk with
      | none => rfl
      | some mac =>
        simp only []
        by_cases hos : Hmac.output_bytes D mac = 0
        · simp [hos]
        · simp only [ne_eq, hos, not_false_eq_true, not_true_eq_false, if_false]
          rw [← chunks_lengths _ (Nat.pos_of_ne_zero hos), ← hkdf_expand_loop1_eq]
          cases hkdf_expand_loop1_src D info (chunks (Hmac.output_bytes D mac) okm) mac (zeros (Hmac.output_bytes D mac)) 0 [] with
          | none => rfl
          | some r => obtain ⟨a, b, c, d⟩ := r; rfl
    · simp only [hp, not_false_eq_true, if_true]

end hkdf
/-! ### src/pbkdf2.rs -/

section pbkdf2
variable {μ : Type} (M : MacModel μ)

theorem calculate_block_loop1_eq : ∀ (k : Nat) (mac : μ) (scratch block : Bytes),
    calculate_block_loop1_src M k mac scratch block = calculate_block_loop M k mac scratch block := by
  intro k
  induction k with
  | zero => intro mac scratch block; rfl
  | succ k ih =>
    intro mac scratch block
    simp only [calculate_block_loop1_src, calculate_block_loop]
    cases M.input mac scratch with
    | none => rfl
    | some mac1 =>
      simp only []
      cases M.raw_result mac1 scratch.length with
      | none => rfl
      | some r =>
        obtain ⟨mac2, scratch'⟩ := r
        simp only []
        cases M.reset mac2 with
        | none => rfl
        | some mac3 => simp only [zipMut2_xor]; exact ih _ _ _

theorem calculate_block_src_eq (mac : μ) (salt : Bytes) (c idx : Nat) (scratch block : Bytes) :
    calculate_block_src M mac salt c idx scratch block = calculate_block M mac salt c idx scratch block.length := by
  simp only [calculate_block_src, calculate_block]
  cases M.input mac salt with
  | none => rfl
  | some mac1 =>
    simp only []
    cases M.input mac1 (natToBE 4 idx) with
    | none => rfl
    | some mac2 =>
      simp only []
      cases M.raw_result mac2 block.length with
      | none => rfl
      | some r =>
        obtain ⟨mac3, block'⟩ := r
        simp only []
        cases M.reset mac3 with
        | none => rfl
        | some mac4 =>
          simp only [zipMut2_xor, calculate_block_loop1_eq]
          rfl

theorem pbkdf2_loop1_eq (salt : Bytes) (c os : Nat) : ∀ (cs : List Bytes) (mac : μ) (scratch : Bytes) (idx : Nat) (acc : Bytes),
    (pbkdf2_loop1_src M salt c os cs mac scratch idx acc).map (fun r => (r.1, r.2.2.2))
      = pbkdf2_loop M salt c os (cs.map List.length) mac scratch idx acc := by
  intro cs
  induction cs with
  | nil => intro mac scratch idx acc; rfl
  | cons chunk rest ih =>
    intro mac scratch idx acc
    simp only [pbkdf2_loop1_src, List.map_cons, pbkdf2_loop]
    by_cases hi : idx + 1 < 2 ^ 32
    · rw [checkedAdd_some 32 idx 1 hi]
      simp only [hi, not_true_eq_false, if_false, calculate_block_src_eq]
      by_cases hc : chunk.length = os
      · subst hc
        simp only [if_true]
        cases calculate_block M mac salt c (idx + 1) scratch chunk.length with
        | none => rfl
        | some r => obtain ⟨mac1, scratch1, chunk1⟩ := r; exact ih _ _ _ _
      · simp only [hc, if_false]
        have hz : (zeros os).length = os := by simp [zeros]
        rw [hz]
        cases calculate_block M mac salt c (idx + 1) scratch os with
        | none => rfl
        | some r =>
          obtain ⟨mac1, scratch1, tmp⟩ := r
          simp only [Nat.le_refl, not_true_eq_false, if_false]
          by_cases hl : chunk.length ≤ tmp.length
          · simp only [hl, not_true_eq_false, if_false, List.drop_length, List.append_nil]
            exact ih _ _ _ _
          · simp [hl]
    · rw [checkedAdd_none 32 idx 1 hi]
      simp [hi]

theorem pbkdf2_src_eq (mac : μ) (salt : Bytes) (c : Nat) (output : Bytes) :
    pbkdf2_src M mac salt c output = pbkdf2 M mac salt c output.length := by
  simp only [pbkdf2_src, pbkdf2]
  by_cases hc : c > 0
  · simp only [hc, not_true_eq_false, if_false]
    by_cases hos : M.output_bytes mac = 0
    · simp [hos]
    · simp only [ne_eq, hos, not_false_eq_true, not_true_eq_false, if_false]
      rw [← chunks_lengths _ (Nat.pos_of_ne_zero hos), ← pbkdf2_loop1_eq]
      cases pbkdf2_loop1_src M salt c (M.output_bytes mac) (chunks (M.output_bytes mac) output) mac (zeros (M.output_bytes mac)) 0 [] with
      | none => rfl
      | some r => obtain ⟨a, b, c, d⟩ := r; rfl
  · simp [hc]

end pbkdf2
end Cx.Proofs.GlueKdf
