/-
  Proofs.Scalar64Barrett — `barrett_reduce256 q1 r1` returns `x mod L`, fully reduced, without overflow, for
  every 512-bit `x` with `q1 = x >> 248`, `r1 = x mod 2^264` (limbs within their bounds).
  Structure: the checked operations are peeled one by one (`peel` + `ck128_bind`), every column of the
  two schoolbook products is replaced by variables with its *linear* characterisation (`low_col`,
  `split_col40`), and the remaining facts are linear integer arithmetic with literal coefficients (MU and L
  are numerals), discharged by `omega`:
    * `barrett_est`: the quotient estimate q3 = ⌊⌊x/2^248⌋·μ / 2^264⌋ computed WITHOUT columns 0..2 satisfies
      q3·L ≤ x < q3·L + 2·L   (so the second conditional subtraction is never needed; the code does two),
    * r2 = q3·L mod 2^264, out = (r1 − r2) mod 2^264 = x − q3·L, then two `reduce256`.
-/
import CxVerif.Proofs.Scalar64Basic
import Lean
namespace Cx.Proofs.Scalar64
open Cx Cx.Impl.Scalar64
set_option exponentiation.threshold 600

theorem and_mask (x k : Nat) : x &&& (2^k - 1) = x % 2^k := Nat.and_two_pow_sub_one_eq_mod x k

/-- a column `d` of a schoolbook product: carry `f = d >> 56`, kept limb `m = (d as u64) & MASK56` -/
theorem low_col (d : Nat) (hd : d < 2^120) :
    ∃ f m, shr128 d 56 = f ∧ (asU64 d &&& MASK56) = m ∧ d = f * 2^56 + m ∧ m < 2^56 ∧ f < 2^64 := by
  refine ⟨_, _, rfl, rfl, ?_⟩
  unfold shr128 asU64
  rw [MASK56_eq, and_mask, Nat.shiftRight_eq_div_pow]
  omega

/-- a column split at bit 40: `f = d >> 56`, `u` = bits 40..55, `v·2^16` = the low 40 bits moved up by 16 -/
theorem split_col40 (d : Nat) (hd : d < 2^120) :
    ∃ f u v, shr128 d 56 = f ∧ (shr64 (asU64 d) 40 &&& MASK16) = u ∧ (shl64 (asU64 d) 16 &&& MASK56) = v * 2^16 ∧
      d = f * 2^56 + u * 2^40 + v ∧ u < 2^16 ∧ v < 2^40 ∧ f < 2^64 := by
  refine ⟨d / 2^56, (d / 2^40) % 2^16, d % 2^40, ?_, ?_, ?_, ?_⟩
  · unfold shr128; rw [Nat.shiftRight_eq_div_pow]; omega
  · unfold shr64 asU64; rw [MASK16_eq, and_mask, Nat.shiftRight_eq_div_pow]; omega
  · unfold shl64 asU64; rw [MASK56_eq, and_mask, Nat.shiftLeft_eq]; omega
  · omega

theorem or_add (u v k : Nat) (hu : u < 2^k) : u ||| (v * 2^k) = u + v * 2^k := by
  rw [Nat.or_comm, Nat.mul_comm, ← Nat.two_pow_add_eq_or_of_lt hu, Nat.add_comm]

theorem barrett_est (x q1v q3v T low : Nat) (hx : x < 2^512) (hq1 : q1v = x / 2^248)
    (hT : q1v * 1852673427797059126777135760139006525645217721299241702126143248052143860224795 = T * 2^168 + low)
    (hlow : low < 2^230) (hq3 : q3v = T / 2^96) :
    q3v * (2 ^ 252 + 27742317777372353535851937790883648493) ≤ x ∧ x < q3v * (2 ^ 252 + 27742317777372353535851937790883648493) + 2 * (2 ^ 252 + 27742317777372353535851937790883648493) := by
  omega

open Lean Elab Tactic Meta in
/-- `peel c hc`: find the first (outermost) `ck128 X` / `ck64 X` of the goal and generalize `X` to a new
    variable `c` with `hc : X = c` -/
elab "peel " c:ident hc:ident : tactic => do
  let g ← getMainGoal
  let tgt ← instantiateMVars (← g.getType)
  let isCk (e : Expr) : Bool := e.isAppOfArity ``Cx.Impl.Scalar64.ck128 1 || e.isAppOfArity ``Cx.Impl.Scalar64.ck64 1
  let some e := tgt.find? isCk | throwError "peel: no checked operation found"
  let X := e.getArg! 0
  let (_, g') ← g.generalize #[{ expr := X, xName? := some c.getId, hName? := some hc.getId }]
  replaceMainGoal [g']

theorem MU_val : MU.val = 1852673427797059126777135760139006525645217721299241702126143248052143860224795 := by decide

theorem low40 (d : Nat) : ∃ h m, (asU64 d &&& MASK40) = m ∧ d = h * 2^40 + m ∧ m < 2^40 := by
  refine ⟨d / 2^40, _, rfl, ?_⟩
  unfold asU64; rw [MASK40_eq, and_mask]; omega

theorem shl64_small (a k : Nat) (h : a * 2^k < 2^64) : shl64 a k = a * 2^k := by
  unfold shl64; rw [Nat.shiftLeft_eq, Nat.mod_eq_of_lt h]

theorem bind_some_of {α β} {a : Option α} {f : α → Option β} {x y} (h1 : a = some x) (h2 : f x = some y) : (a >>= f) = some y := by
  subst h1; exact h2

theorem final_red (tv q3v x w1 w2 : Nat) (htv : tv + q3v * Spec.ScalarL.L = x)
    (est : x < q3v * Spec.ScalarL.L + 2 * Spec.ScalarL.L)
    (v1 : w1 = if tv < Spec.ScalarL.L then tv else tv - Spec.ScalarL.L)
    (v2 : w2 = if w1 < Spec.ScalarL.L then w1 else w1 - Spec.ScalarL.L) :
    w2 = x % Spec.ScalarL.L ∧ w2 < Spec.ScalarL.L := by
  unfold Spec.ScalarL.L at *
  by_cases h1 : tv < 2 ^ 252 + 27742317777372353535851937790883648493 <;>
  by_cases h2 : w1 < 2 ^ 252 + 27742317777372353535851937790883648493 <;>
  simp only [h1, h2, if_true, if_false] at v1 v2 <;> omega

/-- hides a fact from `omega` until it is needed -/
def Hide (p : Prop) : Prop := p
theorem Hide.out {p : Prop} (h : Hide p) : p := h

theorem barrett_spec (q1 r1 : Scalar) (x : Nat) (hx : x < 2^512)
    (hq0 : q1.l0 < 2^56) (hq1 : q1.l1 < 2^56) (hq2 : q1.l2 < 2^56) (hq3 : q1.l3 < 2^56) (hq4 : q1.l4 < 2^56)
    (hr0 : r1.l0 < 2^56) (hr1 : r1.l1 < 2^56) (hr2 : r1.l2 < 2^56) (hr3 : r1.l3 < 2^56) (hr4 : r1.l4 < 2^40)
    (hq : q1.val = x / 2^248) (hr : r1.val = x % 2^264) :
    ∃ o, barrett_reduce256 q1 r1 = some o ∧ o.val = x % Spec.ScalarL.L ∧ Inv o := by
  replace hq : Hide _ := hq
  replace hr : Hide _ := hr
  replace hx : Hide _ := hx
  unfold barrett_reduce256
  simp only [mul128, MU_l0, MU_l1, MU_l2, MU_l3, MU_l4, M_l0, M_l1, M_l2, M_l3, M_l4]
  -- phase 1: q3 = (mu*q1) >> 264, columns 3..8
  peel c3 hc3; rw [ck128_bind c3 (by omega)]
  obtain ⟨f3, m3, e1, -, d3, hm3, hf3⟩ := low_col c3 (by omega)
  simp only [e1]; clear e1
  replace hc3 : Hide _ := hc3; replace d3 : Hide _ := d3
  peel c4 hc4; rw [ck128_bind c4 (by omega)]
  obtain ⟨f4, u4, v4, e1, e2, -, d4, hu4, hv4, hf4⟩ := split_col40 c4 (by omega)
  simp only [e1, e2]; clear e1 e2
  replace hc4 : Hide _ := hc4; replace d4 : Hide _ := d4
  peel c5 hc5; rw [ck128_bind c5 (by omega)]
  obtain ⟨f5, u5, v5, e1, e2, e3, d5, hu5, hv5, hf5⟩ := split_col40 c5 (by omega)
  simp only [e1, e2, e3]; clear e1 e2 e3
  replace hc5 : Hide _ := hc5; replace d5 : Hide _ := d5
  peel c6 hc6; rw [ck128_bind c6 (by omega)]
  obtain ⟨f6, u6, v6, e1, e2, e3, d6, hu6, hv6, hf6⟩ := split_col40 c6 (by omega)
  simp only [e1, e2, e3]; clear e1 e2 e3
  replace hc6 : Hide _ := hc6; replace d6 : Hide _ := d6
  peel c7 hc7; rw [ck128_bind c7 (by omega)]
  obtain ⟨f7, u7, v7, e1, e2, e3, d7, hu7, hv7, hf7⟩ := split_col40 c7 (by omega)
  simp only [e1, e2, e3]; clear e1 e2 e3
  replace hc7 : Hide _ := hc7; replace d7 : Hide _ := d7
  peel c8 hc8; rw [ck128_bind c8 (by omega)]
  obtain ⟨f8, u8, v8, e1, e2, e3, d8, hu8, hv8, hf8⟩ := split_col40 c8 (by omega)
  simp only [e1, e2, e3]; clear e1 e2 e3
  have hf8' : f8 < 2^37 := by omega
  replace hc8 : Hide _ := hc8; replace d8 : Hide _ := d8
  rw [shl64_small f8 16 (by omega)]
  rw [or_add u4 v5 16 hu4, or_add u5 v6 16 hu5, or_add u6 v7 16 hu6, or_add u7 v8 16 hu7, or_add u8 f8 16 hu8]
  -- q3 limbs
  generalize hq30 : u4 + v5 * 2^16 = q30
  generalize hq31 : u5 + v6 * 2^16 = q31
  generalize hq32 : u6 + v7 * 2^16 = q32
  generalize hq33 : u7 + v8 * 2^16 = q33
  generalize hq34 : u8 + f8 * 2^16 = q34
  have bq30 : q30 < 2^56 := by omega
  have bq31 : q31 < 2^56 := by omega
  have bq32 : q32 < 2^56 := by omega
  have bq33 : q33 < 2^56 := by omega
  have bq34 : q34 < 2^56 := by omega
  replace hq30 : Hide _ := hq30; replace hq31 : Hide _ := hq31; replace hq32 : Hide _ := hq32
  replace hq33 : Hide _ := hq33; replace hq34 : Hide _ := hq34
  clear hu4 hf4 hu5 hv5 hf5 hu6 hv6 hf6 hu7 hv7 hf7 hu8 hv8 hf8 hf8' hf3
  -- phase 2: r2 = (q3 * m) mod 2^264
  generalize he0 : 5175514460705773 * q30 = e0
  obtain ⟨g0, r20, e1, e2, k0, hr20, hg0⟩ := low_col e0 (by omega)
  simp only [e1, e2]; clear e1 e2
  replace he0 : Hide _ := he0; replace k0 : Hide _ := k0
  peel e1 he1; rw [ck128_bind e1 (by omega)]
  obtain ⟨g1, r21, e1, e2, k1, hr21, hg1⟩ := low_col e1 (by omega)
  simp only [e1, e2]; clear e1 e2
  replace he1 : Hide _ := he1; replace k1 : Hide _ := k1
  peel e2 he2; rw [ck128_bind e2 (by omega)]
  obtain ⟨g2, r22, e1, e2, k2, hr22, hg2⟩ := low_col e2 (by omega)
  simp only [e1, e2]; clear e1 e2
  replace he2 : Hide _ := he2; replace k2 : Hide _ := k2
  peel e3 he3; rw [ck128_bind e3 (by omega)]
  obtain ⟨g3, r23, e1, e2, k3, hr23, hg3⟩ := low_col e3 (by omega)
  simp only [e1, e2]; clear e1 e2
  replace he3 : Hide _ := he3; replace k3 : Hide _ := k3
  peel e4 he4; rw [ck128_bind e4 (by omega)]
  obtain ⟨g4, r24, e1, k4, hr24⟩ := low40 e4
  simp only [e1]; clear e1
  replace he4 : Hide _ := he4; replace k4 : Hide _ := k4
  clear hg0 hg1 hg2 hg3 bq30 bq31 bq32 bq33 bq34
  -- phase 3: out = (r1 - r2) mod 2^264
  rw [Nat.zero_add, ck64_bind r20 (by omega)]
  obtain ⟨b0, t0, e1, e2, s0⟩ := sub_step r1.l0 r20 56 (by omega) (by omega) (by omega)
  simp only [e1, e2]; clear e1 e2
  rw [ck64_bind _ (by omega)]
  obtain ⟨b1, t1, e1, e2, s1⟩ := sub_step r1.l1 (b0 + r21) 56 (by omega) (by omega) (by omega)
  simp only [e1, e2]; clear e1 e2
  rw [ck64_bind _ (by omega)]
  obtain ⟨b2, t2, e1, e2, s2⟩ := sub_step r1.l2 (b1 + r22) 56 (by omega) (by omega) (by omega)
  simp only [e1, e2]; clear e1 e2
  rw [ck64_bind _ (by omega)]
  obtain ⟨b3, t3, e1, e2, s3⟩ := sub_step r1.l3 (b2 + r23) 56 (by omega) (by omega) (by omega)
  simp only [e1, e2]; clear e1 e2
  rw [ck64_bind _ (by omega)]
  obtain ⟨b4, t4, e1, e2, s4⟩ := sub_step r1.l4 (b3 + r24) 40 (by omega) (by omega) (by omega)
  simp only [e1, e2]; clear e1 e2
  -- arithmetic
  have hT : q1.val * 1852673427797059126777135760139006525645217721299241702126143248052143860224795 = ((44162584779952923 * q1.l3 + 72057594037927935 * q1.l0 + 9390964836247533 * q1.l2 + 72057594036560134 * q1.l1) + (44162584779952923 * q1.l4 + 68719476735 * q1.l0 + 72057594037927935 * q1.l1 + 9390964836247533 * q1.l3 + 72057594036560134 * q1.l2) * 2^56 + (68719476735 * q1.l1 + 9390964836247533 * q1.l4 + 72057594036560134 * q1.l3 + 72057594037927935 * q1.l2) * 2^112 + (68719476735 * q1.l2 + 72057594036560134 * q1.l4 + 72057594037927935 * q1.l3) * 2^168 + (68719476735 * q1.l3 + 72057594037927935 * q1.l4) * 2^224 + (68719476735 * q1.l4) * 2^280) * 2^168 + (44162584779952923 * q1.l0 + (44162584779952923 * q1.l1 + 9390964836247533 * q1.l0) * 2^56 + (44162584779952923 * q1.l2 + 9390964836247533 * q1.l1 + 72057594036560134 * q1.l0) * 2^112) := by
    clear s0 s1 s2 s3 s4; unfold Scalar.val; omega
  have hlow : 44162584779952923 * q1.l0 + (44162584779952923 * q1.l1 + 9390964836247533 * q1.l0) * 2^56 + (44162584779952923 * q1.l2 + 9390964836247533 * q1.l1 + 72057594036560134 * q1.l0) * 2^112 < 2^230 := by clear s0 s1 s2 s3 s4; omega
  have hq3v : (q30 + q31 * 2^56 + q32 * 2^112 + q33 * 2^168 + q34 * 2^224) = ((44162584779952923 * q1.l3 + 72057594037927935 * q1.l0 + 9390964836247533 * q1.l2 + 72057594036560134 * q1.l1) + (44162584779952923 * q1.l4 + 68719476735 * q1.l0 + 72057594037927935 * q1.l1 + 9390964836247533 * q1.l3 + 72057594036560134 * q1.l2) * 2^56 + (68719476735 * q1.l1 + 9390964836247533 * q1.l4 + 72057594036560134 * q1.l3 + 72057594037927935 * q1.l2) * 2^112 + (68719476735 * q1.l2 + 72057594036560134 * q1.l4 + 72057594037927935 * q1.l3) * 2^168 + (68719476735 * q1.l3 + 72057594037927935 * q1.l4) * 2^224 + (68719476735 * q1.l4) * 2^280) / 2^96 := by
    clear s0 s1 s2 s3 s4 hT hlow
    have := hc3.out; have := hc4.out; have := hc5.out; have := hc6.out; have := hc7.out; have := hc8.out
    have := d3.out; have := d4.out; have := d5.out; have := d6.out; have := d7.out; have := d8.out
    have := hq30.out; have := hq31.out; have := hq32.out; have := hq33.out; have := hq34.out
    omega
  have est := barrett_est x q1.val (q30 + q31 * 2^56 + q32 * 2^112 + q33 * 2^168 + q34 * 2^224) ((44162584779952923 * q1.l3 + 72057594037927935 * q1.l0 + 9390964836247533 * q1.l2 + 72057594036560134 * q1.l1) + (44162584779952923 * q1.l4 + 68719476735 * q1.l0 + 72057594037927935 * q1.l1 + 9390964836247533 * q1.l3 + 72057594036560134 * q1.l2) * 2^56 + (68719476735 * q1.l1 + 9390964836247533 * q1.l4 + 72057594036560134 * q1.l3 + 72057594037927935 * q1.l2) * 2^112 + (68719476735 * q1.l2 + 72057594036560134 * q1.l4 + 72057594037927935 * q1.l3) * 2^168 + (68719476735 * q1.l3 + 72057594037927935 * q1.l4) * 2^224 + (68719476735 * q1.l4) * 2^280) (44162584779952923 * q1.l0 + (44162584779952923 * q1.l1 + 9390964836247533 * q1.l0) * 2^56 + (44162584779952923 * q1.l2 + 9390964836247533 * q1.l1 + 72057594036560134 * q1.l0) * 2^112) hx.out hq.out hT hlow hq3v
  have hr2 : (q30 + q31 * 2^56 + q32 * 2^112 + q33 * 2^168 + q34 * 2^224) * (2 ^ 252 + 27742317777372353535851937790883648493) = (r20 + r21 * 2^56 + r22 * 2^112 + r23 * 2^168 + r24 * 2^224) + 2^264 * (g4 + 2^16 * ((70332060721272408 * q34 + 5342 * q33 + 268435456 * q31) + (5342 * q34 + 268435456 * q32) * 2^56 + (268435456 * q33) * 2^112 + (268435456 * q34) * 2^168)) := by
    clear s0 s1 s2 s3 s4 hT hlow hq3v est
    have := he0.out; have := he1.out; have := he2.out; have := he3.out; have := he4.out
    have := k0.out; have := k1.out; have := k2.out; have := k3.out; have := k4.out
    omega
  have hsub : (t0 + t1 * 2^56 + t2 * 2^112 + t3 * 2^168 + t4 * 2^224) + (r20 + r21 * 2^56 + r22 * 2^112 + r23 * 2^168 + r24 * 2^224) = r1.val + b4 * 2^264 ∧ b4 ≤ 1 ∧ t0 < 2^56 ∧ t1 < 2^56 ∧ t2 < 2^56 ∧ t3 < 2^56 ∧ t4 < 2^40 := by
    clear hT hlow hq3v est hr2; unfold Scalar.val; omega
  have htv : (t0 + t1 * 2^56 + t2 * 2^112 + t3 * 2^168 + t4 * 2^224) + (q30 + q31 * 2^56 + q32 * 2^112 + q33 * 2^168 + q34 * 2^224) * (2 ^ 252 + 27742317777372353535851937790883648493) = x := by
    clear s0 s1 s2 s3 s4 hT hlow hq3v
    have := hr.out; have := hx.out
    have htvb : (t0 + t1 * 2^56 + t2 * 2^112 + t3 * 2^168 + t4 * 2^224) < 2^264 := by omega
    generalize (g4 + 2^16 * ((70332060721272408 * q34 + 5342 * q33 + 268435456 * q31) + (5342 * q34 + 268435456 * q32) * 2^56 + (268435456 * q33) * 2^112 + (268435456 * q34) * 2^168)) = KK at hr2
    generalize (q30 + q31 * 2^56 + q32 * 2^112 + q33 * 2^168 + q34 * 2^224) = q3v at *
    generalize (r20 + r21 * 2^56 + r22 * 2^112 + r23 * 2^168 + r24 * 2^224) = r2v at *
    generalize (t0 + t1 * 2^56 + t2 * 2^112 + t3 * 2^168 + t4 * 2^224) = tv at *
    omega
  obtain ⟨hsub1, hb4, bt0, bt1, bt2, bt3, bt4⟩ := hsub
  obtain ⟨o1, ho1, v1, a0, a1, a2, a3, a4⟩ := reduce256_spec ⟨t0, t1, t2, t3, t4⟩ bt0 bt1 bt2 bt3 (Nat.lt_of_lt_of_le bt4 (by decide))
  simp only [] at a4
  obtain ⟨o2, ho2, v2, z0, z1, z2, z3, z4⟩ := reduce256_spec o1 a0 a1 a2 a3 (Nat.lt_of_le_of_lt a4 (Nat.lt_of_lt_of_le bt4 (by decide)))
  simp only [Scalar.val] at v1 v2
  have fin := final_red _ _ _ _ _ htv est.2 v1 v2
  refine ⟨o2, bind_some_of ho1 ho2, ?_, ?_⟩
  · unfold Scalar.val; exact fin.1
  · have := fin.2
    clear s0 s1 s2 s3 s4 hT hlow hq3v hr2 hsub1 htv est v1 v2 fin
    unfold Inv; unfold Spec.ScalarL.L at this
    omega
end Cx.Proofs.Scalar64
