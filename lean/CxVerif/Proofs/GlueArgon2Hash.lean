/-
  Proofs.GlueArgon2Hash — helper lemmas for the translator tie of src/kdf/argon2.rs (Props/C11/GlueTieArgon2.lean): the
  BLAKE2b-based functions `H0::new`, `hprime`, `hprime_block_init` of Extracted/GlueArgon2.lean against Impl/Argon2.lean.
  The source-level functions write into the caller's buffer; the models start from a zero buffer: every byte is overwritten
  (`*_loop_congr`: the part of the buffer below `pos` determines the result; the last write ends at the end of the buffer).
  Core Lean only.
-/
import CxVerif.Extracted.GlueArgon2
import CxVerif.Proofs.Argon2Hash
namespace Cx.Proofs.GlueArgon2
open Cx Cx.Impl.Argon2 Cx.Extracted.GlueArgon2
open Cx.Impl.Blake2 (Context ContextDyn setSlice)
open Cx.Proofs.Argon2 (step64 H_length dyn_new dyn_update dyn_finalize_at)

/-! ### `H0::new` -/

theorem H0_new_src_eq (params : Params) (password salt key aad : Bytes) (tag_length : Nat) :
    H0.new_src params password salt key aad tag_length = H0.new params password salt key aad tag_length := by
  unfold H0.new_src H0.new
  cases Context.new Impl.Blake2.b 512 with
  | none => rfl
  | some c0 =>
    dsimp only [H0.upd]
    cases Context.update Impl.Blake2.b .wrapping c0 (natToLE 4 params.parallelism) with
    | none => rfl
    | some c1 =>
      dsimp only [H0.upd]
      cases Context.update Impl.Blake2.b .wrapping c1 (natToLE 4 tag_length) with
      | none => rfl
      | some c2 =>
        dsimp only [H0.upd]
        cases Context.update Impl.Blake2.b .wrapping c2 (natToLE 4 params.memory_kb) with
        | none => rfl
        | some c3 =>
          dsimp only [H0.upd]
          cases Context.update Impl.Blake2.b .wrapping c3 (natToLE 4 params.iterations) with
          | none => rfl
          | some c4 =>
            dsimp only [H0.upd]
            cases Context.update Impl.Blake2.b .wrapping c4 (natToLE 4 params.version) with
            | none => rfl
            | some c5 =>
              dsimp only [H0.upd]
              cases Context.update Impl.Blake2.b .wrapping c5 (natToLE 4 params.hash_type.toNat) with
              | none => rfl
              | some c6 =>
                dsimp only [H0.upd]
                cases Context.update Impl.Blake2.b .wrapping c6 (natToLE 4 (password.length % 2 ^ 32)) with
                | none => rfl
                | some c7 =>
                  dsimp only [H0.upd]
                  cases Context.update Impl.Blake2.b .wrapping c7 password with
                  | none => rfl
                  | some c8 =>
                    dsimp only [H0.upd]
                    cases Context.update Impl.Blake2.b .wrapping c8 (natToLE 4 (salt.length % 2 ^ 32)) with
                    | none => rfl
                    | some c9 =>
                      dsimp only [H0.upd]
                      cases Context.update Impl.Blake2.b .wrapping c9 salt with
                      | none => rfl
                      | some c10 =>
                        dsimp only [H0.upd]
                        cases Context.update Impl.Blake2.b .wrapping c10 (natToLE 4 (key.length % 2 ^ 32)) with
                        | none => rfl
                        | some c11 =>
                          dsimp only [H0.upd]
                          cases Context.update Impl.Blake2.b .wrapping c11 key with
                          | none => rfl
                          | some c12 =>
                            dsimp only [H0.upd]
                            cases Context.update Impl.Blake2.b .wrapping c12 (natToLE 4 (aad.length % 2 ^ 32)) with
                            | none => rfl
                            | some c13 =>
                              dsimp only [H0.upd]
                              cases Context.update Impl.Blake2.b .wrapping c13 aad with
                              | none => rfl
                              | some c14 =>
                                rfl

/-! ### output lengths of the BLAKE2b call chains (the contexts are deterministic) -/

theorem ctx512_chain_length (v last : Bytes) (c c' : Context UInt64) (h0 : Context.new Impl.Blake2.b 512 = some c)
    (h1 : Context.update Impl.Blake2.b .wrapping c v = some c')
    (h2 : Context.finalize_at Impl.Blake2.b .wrapping 512 c' 64 = some last) : last.length = 64 := by
  obtain ⟨c0, c1, e0, e1, e2⟩ := step64 v
  rw [h0] at e0; cases e0
  rw [h1] at e1; cases e1
  rw [h2] at e2; cases e2
  exact H_length 64 (by decide) v

theorem dyn_chain_length (n : Nat) (v last : Bytes) (c c' : ContextDyn UInt64) (h0 : ContextDyn.new Impl.Blake2.b n = some c)
    (h1 : c.update Impl.Blake2.b .wrapping v = some c') (h2 : c'.finalize_at Impl.Blake2.b .wrapping n = some last) :
    last.length = n := by
  by_cases hn : 0 < n ∧ n ≤ 64
  · obtain ⟨c0, e0, eo, er⟩ := dyn_new n hn
    rw [h0] at e0; cases e0
    obtain ⟨c1, e1, eo1, er1⟩ := dyn_update n c [] v er
    rw [h1] at e1; cases e1
    have := dyn_finalize_at n hn.2 c' _ (by rw [eo1, eo]) er1
    rw [h2] at this; cases this
    exact H_length n hn.2 _
  · have : ContextDyn.new Impl.Blake2.b n = none := by
      unfold ContextDyn.new
      rw [if_pos (by
        have : (Impl.Blake2.b).maxOut = 64 := rfl
        rw [this]; exact hn)]
    rw [this] at h0; cases h0

/-! ### writing 32 bytes at `pos` -/

theorem write32_length (o v : Bytes) (pos : Nat) (h1 : pos + 32 ≤ o.length) (h2 : 32 ≤ v.length) :
    (o.take pos ++ v.take 32 ++ o.drop (pos + 32)).length = o.length := by
  simp only [List.length_append, List.length_take, List.length_drop]; omega

theorem write32_take (o v : Bytes) (pos : Nat) (h1 : pos + 32 ≤ o.length) (h2 : 32 ≤ v.length) :
    (o.take pos ++ v.take 32 ++ o.drop (pos + 32)).take (pos + 32) = o.take pos ++ v.take 32 := by
  rw [List.take_append_of_le_length (by simp only [List.length_append, List.length_take]; omega)]
  exact List.take_of_length_le (by simp only [List.length_append, List.length_take]; omega)

theorem write32_setSlice (o v : Bytes) (pos : Nat) (h2 : 32 ≤ v.length) :
    o.take pos ++ v.take 32 ++ o.drop (pos + 32) = setSlice o pos (v.take 32) := by
  simp only [setSlice, List.length_take, Nat.min_eq_left h2]

/-! ### `hprime_block_init` -/

/-- the `for _ in 0..29` loop = the model's loop (state components permuted) on a 1024-byte buffer -/
theorem hprime_block_init_loop1_eq : ∀ (cnt : Nat) (output : Bytes) (pos : Nat) (v : Bytes), output.length = 1024 →
    (hprime_block_init_loop1_src cnt output pos v).map (fun r => (r.1, r.2.2, r.2.1)) = hprime_block_init_loop cnt output v pos := by
  intro cnt
  induction cnt with
  | zero => intro output pos v _; rfl
  | succ cnt ih =>
    intro output pos v hl
    simp only [hprime_block_init_loop1_src, hprime_block_init_loop]
    cases Context.new Impl.Blake2.b 512 with
    | none => rfl
    | some c =>
      dsimp only
      cases Context.update Impl.Blake2.b .wrapping c v with
      | none => rfl
      | some c' =>
        dsimp only
        cases Context.finalize_at Impl.Blake2.b .wrapping 512 c' v.length with
        | none => rfl
        | some v' =>
          dsimp only
          rw [hl]
          by_cases h1 : pos + 32 ≤ 1024
          · by_cases h2 : 32 ≤ v'.length
            · simp only [h1, h2, and_self, not_true_eq_false, if_false]
              rw [← write32_setSlice _ _ _ h2]
              exact ih _ _ _ (by rw [write32_length _ _ _ (by omega) h2, hl])
            · simp [h1, h2]
          · simp [h1]

/-- what the loop does to `pos` and to the buffer length -/
theorem hprime_block_init_loop1_pos : ∀ (cnt : Nat) (o : Bytes) (pos : Nat) (v o' : Bytes) (p' : Nat) (v' : Bytes), o.length = 1024 →
    hprime_block_init_loop1_src cnt o pos v = some (o', p', v') → p' = pos + 32 * cnt ∧ o'.length = 1024 := by
  intro cnt
  induction cnt with
  | zero => intro o pos v o' p' v' hl h; simp only [hprime_block_init_loop1_src] at h; cases h; exact ⟨rfl, hl⟩
  | succ cnt ih =>
    intro o pos v o' p' v' hl h
    simp only [hprime_block_init_loop1_src] at h
    split at h
    · cases h
    · split at h
      · cases h
      · split at h
        · cases h
        · split at h
          · cases h
          · split at h
            · cases h
            · rename_i h1 h2
              have h1 := Decidable.not_not.mp h1
              have h2 := Decidable.not_not.mp h2
              obtain ⟨e1, e2⟩ := ih _ _ _ _ _ _ (by rw [write32_length _ _ _ (by omega) h2, hl]) h
              exact ⟨by omega, e2⟩

/-- the bytes below `pos` (and the length) determine what the loop computes below the final `pos` -/
theorem hprime_block_init_loop1_congr : ∀ (cnt : Nat) (o1 o2 : Bytes) (pos : Nat) (v : Bytes), o1.length = 1024 → o2.length = 1024 →
    o1.take pos = o2.take pos →
    (hprime_block_init_loop1_src cnt o1 pos v).map (fun r => (r.1.take r.2.1, r.2.1, r.2.2))
      = (hprime_block_init_loop1_src cnt o2 pos v).map (fun r => (r.1.take r.2.1, r.2.1, r.2.2)) := by
  intro cnt
  induction cnt with
  | zero => intro o1 o2 pos v _ _ ht; simp only [hprime_block_init_loop1_src, Option.map_some, ht]
  | succ cnt ih =>
    intro o1 o2 pos v hl1 hl2 ht
    simp only [hprime_block_init_loop1_src]
    cases Context.new Impl.Blake2.b 512 with
    | none => rfl
    | some c =>
      dsimp only
      cases Context.update Impl.Blake2.b .wrapping c v with
      | none => rfl
      | some c' =>
        dsimp only
        cases Context.finalize_at Impl.Blake2.b .wrapping 512 c' v.length with
        | none => rfl
        | some v' =>
          dsimp only
          by_cases h1 : pos + 32 ≤ 1024
          · by_cases h2 : 32 ≤ v'.length
            · simp only [h1, h2, not_true_eq_false, if_false]
              apply ih
              · rw [write32_length _ _ _ (by omega) h2, hl1]
              · rw [write32_length _ _ _ (by omega) h2, hl2]
              · rw [write32_take _ _ _ (by omega) h2, write32_take _ _ _ (by omega) h2, ht]
            · simp [h1, h2]
          · simp [h1]

theorem length_zeros (n : Nat) : (zeros n).length = n := by simp [zeros]

/-- `hprime_block_init` for EVERY 1024-byte output buffer: its previous contents do not matter -/
theorem hprime_block_init_src_eq (output h0 : Bytes) (col lane : Nat) (hl : output.length = 1024) :
    hprime_block_init_src output h0 col lane = hprime_block_init h0 col lane := by
  unfold hprime_block_init_src hprime_block_init
  cases hn : Context.new Impl.Blake2.b 512 with
  | none => rfl
  | some c0 =>
    dsimp only
    cases Context.update Impl.Blake2.b .wrapping c0 (natToLE 4 1024) with
    | none => rfl
    | some c1 =>
      dsimp only
      cases Context.update Impl.Blake2.b .wrapping c1 h0 with
      | none => rfl
      | some c2 =>
        dsimp only
        cases Context.update Impl.Blake2.b .wrapping c2 (natToLE 4 col) with
        | none => rfl
        | some c3 =>
          dsimp only
          cases Context.update Impl.Blake2.b .wrapping c3 (natToLE 4 lane) with
          | none => rfl
          | some c4 =>
            dsimp only
            cases Context.finalize Impl.Blake2.b .wrapping 512 c4 with
            | none => rfl
            | some v0 =>
              dsimp only
              by_cases h2 : 32 ≤ v0.length
              · simp only [h2, not_true_eq_false, if_false]
                -- the two start buffers: the caller's and the model's zero buffer
                have e1 : v0.take 32 ++ output.drop 32 = output.take 0 ++ v0.take 32 ++ output.drop (0 + 32) := by simp
                have eM : setSlice (zeros 1024) 0 (v0.take 32) = (zeros 1024).take 0 ++ v0.take 32 ++ (zeros 1024).drop (0 + 32) :=
                  (write32_setSlice _ _ _ h2).symm
                have l1 : (v0.take 32 ++ output.drop 32).length = 1024 := by
                  rw [e1, write32_length _ _ _ (by omega) h2, hl]
                have lM : (setSlice (zeros 1024) 0 (v0.take 32)).length = 1024 := by
                  rw [eM, write32_length _ _ _ (by rw [length_zeros]; omega) h2, length_zeros]
                have ht : (v0.take 32 ++ output.drop 32).take 32 = (setSlice (zeros 1024) 0 (v0.take 32)).take 32 := by
                  rw [e1, eM, write32_take _ _ _ (by omega) h2, write32_take _ _ _ (by rw [length_zeros]; omega) h2]
                  simp
                have hc := hprime_block_init_loop1_congr 29 _ _ 32 v0 l1 lM ht
                rw [← hprime_block_init_loop1_eq 29 _ 32 v0 lM]
                cases hs : hprime_block_init_loop1_src 29 (v0.take 32 ++ output.drop 32) 32 v0 with
                | none =>
                  rw [hs] at hc
                  cases hm : hprime_block_init_loop1_src 29 (setSlice (zeros 1024) 0 (v0.take 32)) 32 v0 with
                  | none => rfl
                  | some r => rw [hm] at hc; cases hc
                | some r1 =>
                  obtain ⟨o1, p1, v1⟩ := r1
                  rw [hs] at hc
                  cases hm : hprime_block_init_loop1_src 29 (setSlice (zeros 1024) 0 (v0.take 32)) 32 v0 with
                  | none => rw [hm] at hc; cases hc
                  | some rM =>
                    obtain ⟨oM, pM, vM⟩ := rM
                    rw [hm] at hc
                    simp only [Option.map_some, Option.some.injEq, Prod.mk.injEq] at hc
                    obtain ⟨ht', hp', hv'⟩ := hc
                    subst hp'; subst hv'
                    obtain ⟨hp, lo1⟩ := hprime_block_init_loop1_pos 29 _ _ _ _ _ _ l1 hs
                    obtain ⟨_, loM⟩ := hprime_block_init_loop1_pos 29 _ _ _ _ _ _ lM hm
                    dsimp only [Option.map_some]
                    cases hu : Context.update Impl.Blake2.b .wrapping c0 v1 with
                    | none => rfl
                    | some c6 =>
                      dsimp only
                      rw [loM]
                      have hp960 : p1 = 960 := by omega
                      subst hp960
                      simp only [show (960 + 64 ≤ 1024) = True from by simp, not_true_eq_false, if_false]
                      cases hf : Context.finalize_at Impl.Blake2.b .wrapping 512 c6 64 with
                      | none => rfl
                      | some last =>
                        have hll := ctx512_chain_length v1 last c0 c6 hn hu hf
                        dsimp only
                        simp only [setSlice, hll, ht']
                        rw [List.drop_eq_nil_of_le (by rw [lo1]; decide), List.drop_eq_nil_of_le (by rw [loM]; decide)]
              · simp [h2]

/-! ### `hprime` -/

theorem subU_32 (bytes : Nat) (h : bytes > 64) : subU bytes 32 = some (bytes - 32) := by
  simp only [subU]; rw [if_pos (by omega)]

/-- the `while bytes > 64` loop = the model's loop (state components permuted), for every buffer.  The generated loop FAILS when its
    fuel runs out (audit 3, F11), the model's loop stops silently; they agree whenever the fuel bounds the iterations (`bytes ≤ fuel`:
    every iteration takes 32 off `bytes`) — the generated call passes `bytes + 1`: one unit pays for the last, false, test -/
theorem hprime_loop1_eq : ∀ (fuel : Nat) (output : Bytes) (bytes pos : Nat) (v : Bytes), bytes ≤ fuel →
    (hprime_loop1_src (fuel + 1) output bytes pos v).map (fun r => (r.1, r.2.2.2, r.2.1, r.2.2.1)) = hprime_loop fuel output v bytes pos := by
  intro fuel
  induction fuel with
  | zero =>
    intro output bytes pos v hf
    have hb : ¬ bytes > 64 := by omega
    simp only [hprime_loop1_src, hprime_loop, hb, if_false]; rfl
  | succ fuel ih =>
    intro output bytes pos v hf
    unfold hprime_loop1_src hprime_loop
    by_cases hb : bytes > 64
    · simp only [hb, if_true]
      cases Context.new Impl.Blake2.b 512 with
      | none => rfl
      | some c =>
        dsimp only
        cases Context.update Impl.Blake2.b .wrapping c v with
        | none => rfl
        | some c' =>
          dsimp only
          cases Context.finalize_at Impl.Blake2.b .wrapping 512 c' v.length with
          | none => rfl
          | some v' =>
            dsimp only
            by_cases h1 : pos + 32 ≤ output.length
            · by_cases h2 : 32 ≤ v'.length
              · simp only [h1, h2, and_self, not_true_eq_false, if_false, subU_32 bytes hb]
                rw [← write32_setSlice _ _ _ h2]
                exact ih _ (bytes - 32) _ _ (by omega)
              · simp [h1, h2]
            · simp [h1]
    · simp only [hb, if_false]; rfl

theorem hprime_loop1_inv : ∀ (fuel : Nat) (o : Bytes) (bytes pos : Nat) (v o' : Bytes) (b' p' : Nat) (v' : Bytes),
    hprime_loop1_src fuel o bytes pos v = some (o', b', p', v') → p' + b' = pos + bytes ∧ o'.length = o.length := by
  intro fuel
  induction fuel with
  | zero => intro o bytes pos v o' b' p' v' h; simp [hprime_loop1_src] at h
  | succ fuel ih =>
    intro o bytes pos v o' b' p' v' h
    simp only [hprime_loop1_src] at h
    split at h
    · rename_i hb
      split at h
      · cases h
      · split at h
        · cases h
        · split at h
          · cases h
          · split at h
            · cases h
            · split at h
              · cases h
              · rename_i h1 h2
                have h1 := Decidable.not_not.mp h1
                have h2 := Decidable.not_not.mp h2
                rw [subU_32 bytes hb] at h
                dsimp only at h
                obtain ⟨e1, e2⟩ := ih _ _ _ _ _ _ _ _ h
                exact ⟨by omega, by rw [e2, write32_length _ _ _ h1 h2]⟩
    · cases h; exact ⟨rfl, rfl⟩

theorem hprime_loop1_congr : ∀ (fuel : Nat) (o1 o2 : Bytes) (bytes pos : Nat) (v : Bytes), o1.length = o2.length →
    o1.take pos = o2.take pos →
    (hprime_loop1_src fuel o1 bytes pos v).map (fun r => (r.1.take r.2.2.1, r.2.1, r.2.2.1, r.2.2.2))
      = (hprime_loop1_src fuel o2 bytes pos v).map (fun r => (r.1.take r.2.2.1, r.2.1, r.2.2.1, r.2.2.2)) := by
  intro fuel
  induction fuel with
  | zero => intro o1 o2 bytes pos v _ ht; simp only [hprime_loop1_src, Option.map_none]
  | succ fuel ih =>
    intro o1 o2 bytes pos v hl ht
    simp only [hprime_loop1_src]
    by_cases hb : bytes > 64
    · simp only [hb, if_true]
      cases Context.new Impl.Blake2.b 512 with
      | none => rfl
      | some c =>
        dsimp only
        cases Context.update Impl.Blake2.b .wrapping c v with
        | none => rfl
        | some c' =>
          dsimp only
          cases Context.finalize_at Impl.Blake2.b .wrapping 512 c' v.length with
          | none => rfl
          | some v' =>
            dsimp only
            rw [← hl]
            by_cases h1 : pos + 32 ≤ o1.length
            · by_cases h2 : 32 ≤ v'.length
              · simp only [h1, h2, not_true_eq_false, if_false, subU_32 bytes hb]
                apply ih
                · rw [write32_length _ _ _ h1 h2, write32_length _ _ _ (by omega) h2, hl]
                · rw [write32_take _ _ _ h1 h2, write32_take _ _ _ (by omega) h2, ht]
              · simp [h1, h2]
            · simp [h1]
    · simp only [hb, if_false, Option.map_some, ht]

/-- `hprime` for EVERY output buffer (any length, any previous contents) -/
theorem hprime_src_eq (output input : Bytes) : hprime_src output input = hprime output.length input := by
  unfold hprime_src hprime
  by_cases h64 : output.length ≤ 64
  · simp only [h64, if_true]; rfl
  · simp only [h64, if_false]
    have hlen : 64 < output.length := by omega
    cases Context.new Impl.Blake2.b 512 with
    | none => rfl
    | some c0 =>
      dsimp only
      cases Context.update Impl.Blake2.b .wrapping c0 (natToLE 4 (output.length % 2 ^ 32)) with
      | none => rfl
      | some c1 =>
        dsimp only
        cases Context.update Impl.Blake2.b .wrapping c1 input with
        | none => rfl
        | some c2 =>
          dsimp only
          cases Context.finalize Impl.Blake2.b .wrapping 512 c2 with
          | none => rfl
          | some v0 =>
            dsimp only
            have hz : (zeros output.length).length = output.length := length_zeros _
            by_cases h2 : 32 ≤ v0.length
            · have h32 : 32 ≤ output.length := by omega
              have hs32 : subU output.length 32 = some (output.length - 32) := by simp only [subU]; rw [if_pos h32]
              simp only [h2, h32, hz, and_self, not_true_eq_false, if_false, hs32]
              have e1 : v0.take 32 ++ output.drop 32 = output.take 0 ++ v0.take 32 ++ output.drop (0 + 32) := by simp
              have eM : setSlice (zeros output.length) 0 (v0.take 32)
                  = (zeros output.length).take 0 ++ v0.take 32 ++ (zeros output.length).drop (0 + 32) :=
                (write32_setSlice _ _ _ h2).symm
              have l1 : (v0.take 32 ++ output.drop 32).length = output.length := by
                rw [e1, write32_length _ _ _ (by omega) h2]
              have lM : (setSlice (zeros output.length) 0 (v0.take 32)).length = output.length := by
                rw [eM, write32_length _ _ _ (by rw [hz]; omega) h2, hz]
              have ht : (v0.take 32 ++ output.drop 32).take 32 = (setSlice (zeros output.length) 0 (v0.take 32)).take 32 := by
                rw [e1, eM, write32_take _ _ _ (by omega) h2, write32_take _ _ _ (by rw [hz]; omega) h2]
                simp
              have hc := hprime_loop1_congr (output.length - 32 + 1) _ _ (output.length - 32) 32 v0 (l1.trans lM.symm) ht
              rw [← hprime_loop1_eq _ _ _ _ _ (Nat.le_refl _)]
              cases hs : hprime_loop1_src (output.length - 32 + 1) (v0.take 32 ++ output.drop 32) (output.length - 32) 32 v0 with
              | none =>
                rw [hs] at hc
                cases hm : hprime_loop1_src (output.length - 32 + 1) (setSlice (zeros output.length) 0 (v0.take 32))
                    (output.length - 32) 32 v0 with
                | none => rfl
                | some r => rw [hm] at hc; cases hc
              | some r1 =>
                obtain ⟨o1, b1, p1, v1⟩ := r1
                rw [hs] at hc
                cases hm : hprime_loop1_src (output.length - 32 + 1) (setSlice (zeros output.length) 0 (v0.take 32))
                    (output.length - 32) 32 v0 with
                | none => rw [hm] at hc; cases hc
                | some rM =>
                  obtain ⟨oM, bM, pM, vM⟩ := rM
                  rw [hm] at hc
                  simp only [Option.map_some, Option.some.injEq, Prod.mk.injEq] at hc
                  obtain ⟨ht', hb', hp', hv'⟩ := hc
                  subst hb'; subst hp'; subst hv'
                  obtain ⟨hpb, lo1⟩ := hprime_loop1_inv _ _ _ _ _ _ _ _ _ hs
                  obtain ⟨_, loM⟩ := hprime_loop1_inv _ _ _ _ _ _ _ _ _ hm
                  rw [l1] at lo1
                  rw [lM] at loM
                  have hsum : p1 + b1 = output.length := by omega
                  dsimp only [Option.map_some]
                  cases hn : ContextDyn.new Impl.Blake2.b b1 with
                  | none => rfl
                  | some d0 =>
                    dsimp only
                    cases hu : ContextDyn.update Impl.Blake2.b .wrapping d0 v1 with
                    | none => rfl
                    | some d1 =>
                      dsimp only
                      rw [lo1, loM]
                      simp only [show (p1 + b1 ≤ output.length) = True from by simp [hsum], not_true_eq_false, if_false]
                      cases hf : ContextDyn.finalize_at Impl.Blake2.b .wrapping d1 b1 with
                      | none => rfl
                      | some last =>
                        have hll := dyn_chain_length b1 v1 last d0 d1 hn hu hf
                        dsimp only
                        simp only [setSlice, hll, ht']
                        rw [List.drop_eq_nil_of_le (by rw [lo1, hsum]; exact Nat.le_refl _),
                          List.drop_eq_nil_of_le (by rw [loM, hsum]; exact Nat.le_refl _)]
            · simp [h2]

end Cx.Proofs.GlueArgon2
