/-
  Proofs.LeakModelHashAead — (n) the ChaCha20-Poly1305 AEAD: erasure and non-interference of the instrumented incremental
  context (`add_data`, `to_encryption` / `to_decryption`, `encrypt(_mut)`, `decrypt(_mut)`, `finalize`) and of the
  one-shot object, on top of the ChaCha results (Proofs/LeakModelSym.lean) and the Poly1305 results
  (Proofs/LeakModelPoly.lean, Proofs/Poly1305Stream.lean).

  `NIE m m' R`: two runs in the writer monad with `Except` values have the same trace, fail together (with the same
  message) and otherwise end in `R`-related values.  Two AEAD contexts are indistinguishable (`LowA`) when the cipher
  contexts are (`LowEq`: position in the keystream block, public part of the engine state), the MAC objects have absorbed
  messages of the same length modulo 16 (`leftover`; each is in the `Absorbing` state of C05, under ANY key) and the two
  length counters agree.  Keys, nonces, keystream, plaintext, AAD bytes and the accumulator are not compared.
-/
import CxVerif.Impl.LeakModelHash
import CxVerif.Proofs.LeakModelPoly
import CxVerif.Proofs.LeakModelSym
import CxVerif.Proofs.Poly1305Stream
set_option linter.unusedSimpArgs false
set_option linter.unusedVariables false
namespace Cx.Proofs.LeakModel
open Cx Cx.Impl Cx.Impl.LeakModel Cx.Impl.StreamCtx Cx.Impl.Aead Cx.Impl.LeakModel.AeadL
open Cx.Proofs.Poly1305 (Absorbing)

/-! ### the relational judgment -/

/-- both fail with the same message, or both succeed with related values -/
def ExRel {α : Type} (R : α → α → Prop) : Except String α → Except String α → Prop
  | .error e, .error e' => e = e'
  | .ok a, .ok a' => R a a'
  | _, _ => False

theorem ExRel.error {α : Type} {R : α → α → Prop} (e : String) : ExRel R (.error e) (.error e) := rfl
theorem ExRel.ok {α : Type} {R : α → α → Prop} {a a' : α} (h : R a a') : ExRel R (.ok a) (.ok a') := h

theorem ExRel.elim {α : Type} {R : α → α → Prop} {x x' : Except String α} (h : ExRel R x x') :
    (∃ e, x = .error e ∧ x' = .error e) ∨ (∃ a a', x = .ok a ∧ x' = .ok a' ∧ R a a') := by
  cases x with
  | error e =>
    cases x' with
    | error e' => left; exact ⟨e, rfl, by rw [show e = e' from h]⟩
    | ok a' => exact absurd h (by simp [ExRel])
  | ok a =>
    cases x' with
    | error e' => exact absurd h (by simp [ExRel])
    | ok a' => right; exact ⟨a, a', rfl, rfl, h⟩

structure NIE {α : Type} (m m' : LeakM (Except String α)) (R : α → α → Prop) : Prop where
  tr : m.tr = m'.tr
  res : ExRel R m.val m'.val

theorem NIE.pure_ok {α : Type} {R : α → α → Prop} {a a' : α} (h : R a a') :
    NIE (pure (.ok a) : LeakM (Except String α)) (pure (.ok a')) R := ⟨rfl, .ok h⟩

theorem NIE.pure_error {α : Type} {R : α → α → Prop} (e : String) :
    NIE (pure (.error e) : LeakM (Except String α)) (pure (.error e)) R := ⟨rfl, .error e⟩

theorem NIE.bindE {α β : Type} {R : α → α → Prop} {S : β → β → Prop} {m m' : LeakM (Except String α)}
    {k k' : α → LeakM (Except String β)} (h : NIE m m' R) (hk : ∀ a a', R a a' → NIE (k a) (k' a') S) :
    NIE (bindE m k) (bindE m' k') S := by
  obtain ⟨ht, hr⟩ := h
  unfold AeadL.bindE
  rcases hr.elim with ⟨e, hv, hv'⟩ | ⟨a, a', hv, hv', hr⟩
  · exact ⟨by simp only [bind_tr, hv, hv', ht, pure_tr], by simp only [bind_val, hv, hv']; exact .error e⟩
  · have := hk a a' hr
    exact ⟨by simp only [bind_tr, hv, hv', ht, this.tr], by simp only [bind_val, hv, hv']; exact this.res⟩

theorem NIE.emit {α : Type} {R : α → α → Prop} (e : Event) {m m' : LeakM (Except String α)} (h : NIE m m' R) :
    NIE (emit e >>= fun _ => m) (emit e >>= fun _ => m') R :=
  ⟨by simp only [bind_tr, emit_tr, emit_val, h.tr], by simp only [bind_val, emit_val]; exact h.res⟩

theorem NIE.ite {α : Type} {R : α → α → Prop} {c : Prop} [Decidable c] {t e t' e' : LeakM (Except String α)}
    (ht : NIE t t' R) (he : NIE e e' R) : NIE (if c then t else e) (if c then t' else e') R := by
  by_cases h : c
  · rw [if_pos h, if_pos h]; exact ht
  · rw [if_neg h, if_neg h]; exact he

theorem NIE.mono {α : Type} {R S : α → α → Prop} {m m' : LeakM (Except String α)} (h : NIE m m' R)
    (hrs : ∀ a a', R a a' → S a a') : NIE m m' S :=
  ⟨h.tr, by
    rcases h.res.elim with ⟨e, hv, hv'⟩ | ⟨a, a', hv, hv', hr⟩
    · rw [hv, hv']; exact .error e
    · rw [hv, hv']; exact .ok (hrs _ _ hr)⟩

/-! ### erasure steps -/

theorem bindE_val_cases {α β : Type} {m : LeakM (Except String α)} {k : α → LeakM (Except String β)}
    {x : Except String α} {r : Except String β} (hm : m.val = x)
    (he : ∀ e, x = .error e → r = .error e) (hk : ∀ a, x = .ok a → (k a).val = r) : (bindE m k).val = r := by
  unfold AeadL.bindE
  cases hx : x with
  | error e => simp only [bind_val, hm, hx, pure_val]; exact (he e hx).symm
  | ok a => simp only [bind_val, hm, hx]; exact hk a hx

/-- one step of an erasure proof in the `Except` writer monad: `hm` is the erasure lemma of the call -/
syntax "ex_bind" term : tactic
macro_rules
  | `(tactic| ex_bind $hm) =>
    `(tactic| (refine bindE_val_cases $hm (fun e he => by rw [he]) (fun a ha => ?_); rw [ha]; try simp only []))

/-- … when the plain model destructures a pair -/
syntax "ex_bind2" term : tactic
macro_rules
  | `(tactic| ex_bind2 $hm) =>
    `(tactic| (refine bindE_val_cases $hm (fun e he => by rw [he]) (fun a ha => ?_); rw [ha]; obtain ⟨_, _⟩ := a;
               try simp only []))

theorem liftPL_val {α : Type} (m : LeakM (Except Poly1305.Panic α)) : (liftPL m).val = liftP m.val := rfl
theorem liftPL_tr {α : Type} (m : LeakM (Except Poly1305.Panic α)) : (liftPL m).tr = m.tr := by
  unfold liftPL; simp only [bind_tr, pure_tr, List.append_nil]

/-! ### the cipher: results of `process_mut` / `process` on indistinguishable contexts -/
section Cipher
variable {σ : Type} {g : BlockGen σ} {G : BlockGenL σ}

theorem update_low (L : BlockGenLeak g G) (c c' : Ctx σ) (h : LowEq L c c') : LowEq L (update g c) (update g c') := by
  have := (updateL_ni L c c' h).2
  rw [updateL_val L, updateL_val L] at this
  exact this

/-- context and output after `process_mut` -/
def LowCO (L : BlockGenLeak g G) (r r' : Ctx σ × Bytes) : Prop := LowEq L r.1 r'.1 ∧ r.2.length = r'.2.length

theorem process_mut_low (L : BlockGenLeak g G) (n : Nat) :
    ∀ (c c' : Ctx σ) (data data' : Bytes), data.length ≤ n → data.length = data'.length → LowEq L c c' →
      ExRel (LowCO L) (process_mut g c data) (process_mut g c' data') := by
  induction n with
  | zero =>
    intro c c' data data' h hl hlow
    have : data = [] := List.eq_nil_of_length_eq_zero (by omega)
    subst this
    have : data' = [] := List.eq_nil_of_length_eq_zero (by rw [← hl]; rfl)
    subst this
    unfold process_mut
    exact .ok ⟨hlow, rfl⟩
  | succ n ih =>
    intro c c' data data' h hl hlow
    cases data with
    | nil =>
      have : data' = [] := List.eq_nil_of_length_eq_zero (by rw [← hl]; rfl)
      subst this
      unfold process_mut
      exact .ok ⟨hlow, rfl⟩
    | cons d ds =>
      cases data' with
      | nil => simp at hl
      | cons d' ds' =>
        have hds : ds.length = ds'.length := by simpa using hl
        unfold process_mut
        have hup : LowEq L (if c.offset = 64 then update g c else c) (if c'.offset = 64 then update g c' else c') := by
          rw [hlow.1]
          split
          · exact update_low L c c' hlow
          · exact hlow
        generalize (if c.offset = 64 then update g c else c) = c1 at hup
        generalize (if c'.offset = 64 then update g c' else c') = c1' at hup
        obtain ⟨o1, o2, o3⟩ := hup
        simp only []
        by_cases hlt : c1.offset < 64
        · have hlt' : c1'.offset < 64 := o1 ▸ hlt
          rw [dif_pos hlt, dif_pos hlt']
          have hx : ExRel (fun o o' : Bytes => o.length = o'.length)
              (xor_keystream_mut (List.take (min (64 - c1.offset) (ds.length + 1)) (d :: ds)) (List.drop c1.offset c1.output))
              (xor_keystream_mut (List.take (min (64 - c1'.offset) (ds'.length + 1)) (d' :: ds')) (List.drop c1'.offset c1'.output)) := by
            unfold xor_keystream_mut
            have e1 : (List.take (min (64 - c1.offset) (ds.length + 1)) (d :: ds)).length =
                (List.take (min (64 - c1'.offset) (ds'.length + 1)) (d' :: ds')).length := by
              simp only [List.length_take, List.length_cons, o1, hds]
            have e2 : (List.drop c1.offset c1.output).length = (List.drop c1'.offset c1'.output).length := by
              simp only [List.length_drop, o1, o2]
            rw [e1, e2]
            split
            · refine .ok ?_
              simp only [List.length_zipWith, e1, e2]
            · exact .error _
          rcases hx.elim with ⟨e, hv, hv'⟩ | ⟨o, o', hv, hv', hxo⟩
          · rw [hv, hv']; exact .error e
          · rw [hv, hv']
            simp only []
            have key := ih { c1 with offset := c1.offset + min (64 - c1.offset) (ds.length + 1) }
              { c1' with offset := c1'.offset + min (64 - c1'.offset) (ds'.length + 1) }
              (List.drop (min (64 - c1.offset) (ds.length + 1)) (d :: ds))
              (List.drop (min (64 - c1'.offset) (ds'.length + 1)) (d' :: ds'))
              (by simp only [List.length_drop, List.length_cons] at h ⊢; omega)
              (by simp only [List.length_drop, List.length_cons, o1, hds])
              ⟨by simp only [o1, hds], o2, o3⟩
            rcases key.elim with ⟨e, kv, kv'⟩ | ⟨r, r', kv, kv', hk⟩
            · rw [kv, kv']; exact .error e
            · rw [kv, kv']
              refine .ok ⟨hk.1, ?_⟩
              simp only [List.length_append, hxo, hk.2]
        · have hlt' : ¬ c1'.offset < 64 := o1 ▸ hlt
          rw [dif_neg hlt, dif_neg hlt']
          exact .error _

theorem process_mutL_nie (L : BlockGenLeak g G) (c c' : Ctx σ) (data data' : Bytes) (hl : data.length = data'.length)
    (hlow : LowEq L c c') : NIE (process_mutL G c data) (process_mutL G c' data') (LowCO L) :=
  ⟨process_mutL_ni L _ c c' data data' (Nat.le_refl _) hl hlow, by
    rw [process_mutL_val L _ c data (Nat.le_refl _), process_mutL_val L _ c' data' (Nat.le_refl _)]
    exact process_mut_low L _ c c' data data' (Nat.le_refl _) hl hlow⟩

theorem processL_nie (L : BlockGenLeak g G) (c c' : Ctx σ) (input input' : Bytes) (n : Nat)
    (hl : input.length = input'.length) (hlow : LowEq L c c') :
    NIE (processL G c input n) (processL G c' input' n) (LowCO L) :=
  ⟨processL_ni L c c' input input' n hl hlow, by
    rw [processL_val L, processL_val L]
    unfold process
    rw [hl]
    split
    · exact process_mut_low L _ c c' input input' (Nat.le_refl _) hl hlow
    · exact .error _⟩

end Cipher

/-! ### the MAC object -/

open Cx.Impl.Poly1305 in
/-- two MAC objects are indistinguishable: each is absorbing (C05) under some key, same number of buffered bytes -/
def LowM (s s' : Poly1305.State) : Prop :=
  (∃ key msg, Absorbing key s msg) ∧ (∃ key msg, Absorbing key s' msg) ∧ s.leftover = s'.leftover

theorem tagBytes_length (h : Poly1305.L5) : (Poly1305.tagBytes h).length = 16 := by
  simp only [Poly1305.tagBytes, List.length_append, natToLE_len'']

theorem poly_inputL_nie (s s' : Poly1305.State) (d d' : Bytes) (h : LowM s s') (hd : d.length = d'.length) :
    NIE (liftPL (inputL s d)) (liftPL (inputL s' d')) LowM := by
  obtain ⟨⟨key, msg, ha⟩, ⟨key', msg', ha'⟩, hl⟩ := h
  obtain ⟨s1, e1, a1⟩ := Cx.Proofs.Poly1305.input_spec key s msg d ha
  obtain ⟨s2, e2, a2⟩ := Cx.Proofs.Poly1305.input_spec key' s' msg' d' ha'
  obtain ⟨t1, l1, _, _⟩ := inputL_tr _ _ _ e1
  obtain ⟨t2, l2, _, _⟩ := inputL_tr _ _ _ e2
  refine ⟨by rw [liftPL_tr, liftPL_tr, t1, t2, hl, hd], ?_⟩
  rw [liftPL_val, liftPL_val, inputL_val, inputL_val, e1, e2]
  exact .ok ⟨⟨key, _, a1⟩, ⟨key', _, a2⟩, by rw [l1, l2, hl, hd]⟩

theorem poly_raw_resultL_nie (s s' : Poly1305.State) (h : LowM s s') :
    NIE (liftPL (raw_resultL Poly1305.codeVariant s 16)) (liftPL (raw_resultL Poly1305.codeVariant s' 16))
      (fun r r' => r.2.length = 16 ∧ r'.2.length = 16) := by
  obtain ⟨⟨key, msg, ha⟩, ⟨key', msg', ha'⟩, hl⟩ := h
  obtain ⟨s1, e1, _⟩ := Cx.Proofs.Poly1305.finish_spec Poly1305.codeVariant key s msg ha
  obtain ⟨s2, e2, _⟩ := Cx.Proofs.Poly1305.finish_spec Poly1305.codeVariant key' s' msg' ha'
  have f1 : s.finalized = false := ha.2.2.1
  have f2 : s'.finalized = false := ha'.2.2.1
  have t1 := finishL_tr _ _ _ e1
  have t2 := finishL_tr _ _ _ e2
  refine ⟨?_, ?_⟩
  · rw [liftPL_tr, liftPL_tr]
    unfold raw_resultL
    simp only [bind_tr, bind_val, emit_tr, emit_val, f1, f2, show ¬ (16 < 16) from by omega, ↓reduceIte, Bool.not_false,
      finishL_val, e1, e2, t1, t2, pure_tr, hl]
  · rw [liftPL_val, liftPL_val, raw_resultL_val, raw_resultL_val]
    unfold Poly1305.raw_result
    simp only [f1, f2, show ¬ (16 < 16) from by omega, ↓reduceIte, Bool.not_false, e1, e2]
    exact .ok ⟨tagBytes_length _, tagBytes_length _⟩

/-! ### the AEAD context -/
section Aead
variable {σ : Type} {g : BlockGen σ} {G : BlockGenL σ}

theorem pad16L_val (mac : Poly1305.State) (len : Nat) : (pad16L mac len).val = pad16 mac len := by
  unfold pad16L pad16
  by_cases h : len % 16 ≠ 0
  · simp only [bind_val, emit_val, if_pos h, liftPL_val, inputL_val]
  · simp only [bind_val, emit_val, if_neg h, pure_val]

theorem add_encryptedL_val (c : Context σ) (enc : Bytes) : (add_encryptedL c enc).val = Context.add_encrypted c enc := by
  unfold add_encryptedL Context.add_encrypted
  ex_bind ((liftPL_val _).trans (congrArg liftP (inputL_val _ _)))
  rfl

theorem add_dataL_val (c : Context σ) (aad : Bytes) : (add_dataL c aad).val = Context.add_data c aad := by
  unfold add_dataL Context.add_data
  cases addU64 c.aad_len aad.length with
  | error e => rfl
  | ok n =>
    simp only []
    ex_bind ((liftPL_val _).trans (congrArg liftP (inputL_val _ _)))
    rfl

theorem to_encryptionL_val (c : Context σ) : (to_encryptionL c).val = Context.to_encryption c := by
  unfold to_encryptionL Context.to_encryption
  ex_bind (pad16L_val _ _)
  rfl

theorem to_decryptionL_val (c : Context σ) : (to_decryptionL c).val = Context.to_decryption c := by
  unfold to_decryptionL Context.to_decryption
  ex_bind (pad16L_val _ _)
  rfl

theorem finalize_rawL_val (c : Context σ) : (finalize_rawL c).val = finalize_raw c := by
  unfold finalize_rawL finalize_raw
  ex_bind (pad16L_val _ _)
  ex_bind ((liftPL_val _).trans (congrArg liftP (inputL_val _ _)))
  ex_bind2 ((liftPL_val _).trans (congrArg liftP (raw_resultL_val _ _ _)))
  rfl

theorem encrypt_mutL_val (E : ChaCha.Engine σ) (R : Nat) (L : BlockGenLeak (ChaCha.ChaCha.gen E R) G) (c : Context σ)
    (buf : Bytes) : (encrypt_mutL G c buf).val = ContextEncryption.encrypt_mut E R c buf := by
  unfold encrypt_mutL ContextEncryption.encrypt_mut ChaCha.ChaCha.process_mut
  ex_bind2 (process_mutL_val L _ _ _ (Nat.le_refl _))
  ex_bind (add_encryptedL_val _ _)
  rfl

theorem encryptL_val (E : ChaCha.Engine σ) (R : Nat) (L : BlockGenLeak (ChaCha.ChaCha.gen E R) G) (c : Context σ)
    (input : Bytes) (n : Nat) : (encryptL G c input n).val = ContextEncryption.encrypt E R c input n := by
  unfold encryptL ContextEncryption.encrypt ChaCha.ChaCha.process
  by_cases h : input.length ≠ n
  · simp only [bind_val, emit_val, if_pos h, pure_val]
  · simp only [bind_val, emit_val, if_neg h]
    ex_bind2 (processL_val L _ _ _)
    ex_bind (add_encryptedL_val _ _)
    rfl

theorem enc_finalizeL_val (c : Context σ) : (enc_finalizeL c).val = ContextEncryption.finalize c := by
  unfold enc_finalizeL ContextEncryption.finalize
  ex_bind2 (finalize_rawL_val _)
  rfl

theorem decrypt_mutL_val (E : ChaCha.Engine σ) (R : Nat) (L : BlockGenLeak (ChaCha.ChaCha.gen E R) G) (c : Context σ)
    (buf : Bytes) : (decrypt_mutL G c buf).val = ContextDecryption.decrypt_mut E R c buf := by
  unfold decrypt_mutL ContextDecryption.decrypt_mut ChaCha.ChaCha.process_mut
  ex_bind (add_encryptedL_val _ _)
  ex_bind2 (process_mutL_val L _ _ _ (Nat.le_refl _))
  rfl

theorem decryptL_val (E : ChaCha.Engine σ) (R : Nat) (L : BlockGenLeak (ChaCha.ChaCha.gen E R) G) (c : Context σ)
    (input : Bytes) (n : Nat) : (decryptL G c input n).val = ContextDecryption.decrypt E R c input n := by
  unfold decryptL ContextDecryption.decrypt ChaCha.ChaCha.process
  by_cases h : input.length ≠ n
  · simp only [bind_val, emit_val, if_pos h, pure_val]
  · simp only [bind_val, emit_val, if_neg h]
    ex_bind (add_encryptedL_val _ _)
    ex_bind2 (processL_val L _ _ _)
    rfl

theorem dec_finalizeL_val (c : Context σ) (tag : Bytes) : (dec_finalizeL c tag).val = ContextDecryption.finalize c tag := by
  unfold dec_finalizeL ContextDecryption.finalize
  by_cases h : tag.length ≠ 16
  · rw [if_pos h, if_pos h]; rfl
  · rw [if_neg h, if_neg h]
    ex_bind2 (finalize_rawL_val _)
    simp only [bind_val, pure_val, tagEqL_val, Tag.eq]

theorem newL_val (E : ChaCha.Engine σ) (R : Nat) (L : BlockGenLeak (ChaCha.ChaCha.gen E R) G) (key nonce : Bytes) :
    (newL E R G key nonce).val = Context.new E R key nonce := by
  unfold newL Context.new ChaCha.ChaCha.process
  by_cases h : nonce.length ≠ 12
  · rw [if_pos h, if_pos h]; rfl
  · rw [if_neg h, if_neg h]
    by_cases h2 : ¬ (key.length = 16 ∨ key.length = 32)
    · simp only [bind_val, emit_val, if_pos h2, pure_val]
    · simp only [bind_val, emit_val, if_neg h2]
      cases ChaCha.ChaCha.new E R key nonce with
      | error e => rfl
      | ok cipher =>
        simp only []
        ex_bind2 (processL_val L _ _ _)
        rfl

theorem oneShotNewL_val (E : ChaCha.Engine σ) (R : Nat) (L : BlockGenLeak (ChaCha.ChaCha.gen E R) G) (key nonce aad : Bytes) :
    (oneShotNewL E R G key nonce aad).val = ChaChaPoly1305.new E R key nonce aad := by
  unfold oneShotNewL ChaChaPoly1305.new
  ex_bind (newL_val E R L _ _)
  ex_bind (add_dataL_val _ _)
  rfl

theorem oneShotEncryptL_val (E : ChaCha.Engine σ) (R : Nat) (L : BlockGenLeak (ChaCha.ChaCha.gen E R) G)
    (o : ChaChaPoly1305 σ) (input : Bytes) (n t : Nat) :
    (oneShotEncryptL G o input n t).val = ChaChaPoly1305.encrypt E R o input n t := by
  unfold oneShotEncryptL ChaChaPoly1305.encrypt
  by_cases h : input.length ≠ n
  · simp only [bind_val, emit_val, if_pos h, pure_val]
  · by_cases h2 : o.finished = true
    · simp only [bind_val, emit_val, if_neg h, if_pos h2, pure_val]
    · by_cases h3 : t ≠ 16
      · simp only [bind_val, emit_val, if_neg h, if_neg h2, if_pos h3, pure_val]
      · simp only [bind_val, emit_val, if_neg h, if_neg h2, if_neg h3]
        ex_bind (to_encryptionL_val _)
        ex_bind2 (encryptL_val E R L _ _ _)
        ex_bind (enc_finalizeL_val _)
        rfl

theorem oneShotDecryptL_val (E : ChaCha.Engine σ) (R : Nat) (L : BlockGenLeak (ChaCha.ChaCha.gen E R) G)
    (o : ChaChaPoly1305 σ) (input : Bytes) (n : Nat) (tag : Bytes) :
    (oneShotDecryptL G o input n tag).val = ChaChaPoly1305.decrypt E R o input n tag := by
  unfold oneShotDecryptL ChaChaPoly1305.decrypt
  by_cases h : tag.length ≠ 16
  · simp only [bind_val, emit_val, if_pos h, pure_val]
  · by_cases h2 : input.length ≠ n
    · simp only [bind_val, emit_val, if_neg h, if_pos h2, pure_val]
    · by_cases h3 : o.finished = true
      · simp only [bind_val, emit_val, if_neg h, if_neg h2, if_pos h3, pure_val]
      · simp only [bind_val, emit_val, if_neg h, if_neg h2, if_neg h3]
        ex_bind (to_decryptionL_val _)
        ex_bind2 (decryptL_val E R L _ _ _)
        ex_bind (dec_finalizeL_val _ _)
        rfl

end Aead

/-! ### non-interference of the AEAD context -/
section AeadNI
variable {σ : Type} {g : BlockGen σ} {G : BlockGenL σ}

/-- two AEAD contexts are indistinguishable -/
structure LowA (L : BlockGenLeak g G) (c c' : Context σ) : Prop where
  cipher : LowEq L c.cipher c'.cipher
  mac : LowM c.mac c'.mac
  aad : c.aad_len = c'.aad_len
  data : c.data_len = c'.data_len

theorem pad16L_nie (s s' : Poly1305.State) (len : Nat) (h : LowM s s') : NIE (pad16L s len) (pad16L s' len) LowM := by
  unfold pad16L
  refine NIE.emit _ (NIE.ite (NIE.emit _ (poly_inputL_nie s s' _ _ h rfl)) (NIE.pure_ok h))

theorem add_encryptedL_nie (L : BlockGenLeak g G) (c c' : Context σ) (e e' : Bytes) (hc : LowA L c c')
    (he : e.length = e'.length) : NIE (add_encryptedL c e) (add_encryptedL c' e') (LowA L) := by
  unfold add_encryptedL
  refine NIE.bindE (poly_inputL_nie _ _ e e' hc.mac he) (fun m m' hm => ?_)
  rw [← hc.data, ← he]
  cases addU64 c.data_len e.length with
  | error x => exact NIE.pure_error x
  | ok n => exact NIE.pure_ok ⟨hc.cipher, hm, hc.aad, rfl⟩

theorem add_dataL_nie (L : BlockGenLeak g G) (c c' : Context σ) (a a' : Bytes) (hc : LowA L c c')
    (ha : a.length = a'.length) : NIE (add_dataL c a) (add_dataL c' a') (LowA L) := by
  unfold add_dataL
  rw [← hc.aad, ← ha]
  cases addU64 c.aad_len a.length with
  | error x => exact NIE.pure_error x
  | ok n =>
    simp only []
    exact NIE.bindE (poly_inputL_nie _ _ a a' hc.mac ha) (fun m m' hm => NIE.pure_ok ⟨hc.cipher, hm, rfl, hc.data⟩)

theorem to_encryptionL_nie (L : BlockGenLeak g G) (c c' : Context σ) (hc : LowA L c c') :
    NIE (to_encryptionL c) (to_encryptionL c') (LowA L) := by
  unfold to_encryptionL
  rw [← hc.aad]
  exact NIE.bindE (pad16L_nie _ _ _ hc.mac) (fun m m' hm => NIE.pure_ok ⟨hc.cipher, hm, rfl, hc.data⟩)

theorem to_decryptionL_nie (L : BlockGenLeak g G) (c c' : Context σ) (hc : LowA L c c') :
    NIE (to_decryptionL c) (to_decryptionL c') (LowA L) := by
  unfold to_decryptionL
  rw [← hc.aad]
  exact NIE.bindE (pad16L_nie _ _ _ hc.mac) (fun m m' hm => NIE.pure_ok ⟨hc.cipher, hm, rfl, hc.data⟩)

theorem finalize_rawL_nie (L : BlockGenLeak g G) (c c' : Context σ) (hc : LowA L c c') :
    NIE (finalize_rawL c) (finalize_rawL c') (fun r r' => r.2.length = 16 ∧ r'.2.length = 16) := by
  unfold finalize_rawL
  rw [← hc.data, ← hc.aad]
  refine NIE.bindE (pad16L_nie _ _ _ hc.mac) (fun m m' hm => ?_)
  refine NIE.bindE (poly_inputL_nie m m' _ _ hm rfl) (fun m2 m2' hm2 => ?_)
  exact NIE.bindE (poly_raw_resultL_nie m2 m2' hm2) (fun r r' hr => NIE.pure_ok hr)

/-- context and output after an encryption / decryption call -/
def LowAO (L : BlockGenLeak g G) (r r' : Context σ × Bytes) : Prop := LowA L r.1 r'.1 ∧ r.2.length = r'.2.length

theorem encrypt_mutL_nie (L : BlockGenLeak g G) (c c' : Context σ) (b b' : Bytes) (hc : LowA L c c')
    (hb : b.length = b'.length) : NIE (encrypt_mutL G c b) (encrypt_mutL G c' b') (LowAO L) := by
  unfold encrypt_mutL
  refine NIE.bindE (process_mutL_nie L _ _ b b' hb hc.cipher) (fun r r' hr => ?_)
  refine NIE.bindE (add_encryptedL_nie L _ _ r.2 r'.2 ⟨hr.1, hc.mac, hc.aad, hc.data⟩ hr.2) (fun d d' hd => ?_)
  exact NIE.pure_ok ⟨hd, hr.2⟩

theorem encryptL_nie (L : BlockGenLeak g G) (c c' : Context σ) (i i' : Bytes) (n : Nat) (hc : LowA L c c')
    (hi : i.length = i'.length) : NIE (encryptL G c i n) (encryptL G c' i' n) (LowAO L) := by
  unfold encryptL
  rw [← hi]
  refine NIE.emit _ (NIE.ite (NIE.pure_error _) ?_)
  refine NIE.bindE (processL_nie L _ _ i i' n hi hc.cipher) (fun r r' hr => ?_)
  refine NIE.bindE (add_encryptedL_nie L _ _ r.2 r'.2 ⟨hr.1, hc.mac, hc.aad, hc.data⟩ hr.2) (fun d d' hd => ?_)
  exact NIE.pure_ok ⟨hd, hr.2⟩

theorem decrypt_mutL_nie (L : BlockGenLeak g G) (c c' : Context σ) (b b' : Bytes) (hc : LowA L c c')
    (hb : b.length = b'.length) : NIE (decrypt_mutL G c b) (decrypt_mutL G c' b') (LowAO L) := by
  unfold decrypt_mutL
  refine NIE.bindE (add_encryptedL_nie L c c' b b' hc hb) (fun d d' hd => ?_)
  refine NIE.bindE (process_mutL_nie L _ _ b b' hb hd.cipher) (fun r r' hr => ?_)
  exact NIE.pure_ok ⟨⟨hr.1, hd.mac, hd.aad, hd.data⟩, hr.2⟩

theorem decryptL_nie (L : BlockGenLeak g G) (c c' : Context σ) (i i' : Bytes) (n : Nat) (hc : LowA L c c')
    (hi : i.length = i'.length) : NIE (decryptL G c i n) (decryptL G c' i' n) (LowAO L) := by
  unfold decryptL
  rw [← hi]
  refine NIE.emit _ (NIE.ite (NIE.pure_error _) ?_)
  refine NIE.bindE (add_encryptedL_nie L c c' i i' hc hi) (fun d d' hd => ?_)
  refine NIE.bindE (processL_nie L _ _ i i' n hi hd.cipher) (fun r r' hr => ?_)
  exact NIE.pure_ok ⟨⟨hr.1, hd.mac, hd.aad, hd.data⟩, hr.2⟩

theorem enc_finalizeL_nie (L : BlockGenLeak g G) (c c' : Context σ) (hc : LowA L c c') :
    NIE (enc_finalizeL c) (enc_finalizeL c') (fun t t' => t.length = 16 ∧ t'.length = 16) := by
  unfold enc_finalizeL
  exact NIE.bindE (finalize_rawL_nie L c c' hc) (fun r r' hr => NIE.pure_ok hr)

/-- `ContextDecryption::finalize`: the trace is the same whatever the computed tag and the expected tag are — the
    comparison is constant time; the VERDICT (the result of the call) is of course not related -/
theorem dec_finalizeL_nie (L : BlockGenLeak g G) (c c' : Context σ) (t t' : Bytes) (hc : LowA L c c')
    (ht : t.length = t'.length) : NIE (dec_finalizeL c t) (dec_finalizeL c' t') (fun _ _ => True) := by
  unfold dec_finalizeL
  rw [← ht]
  refine NIE.ite (NIE.pure_error _) ?_
  refine NIE.bindE (finalize_rawL_nie L c c' hc) (fun r r' hr => ?_)
  exact ⟨by simp only [bind_tr, pure_tr, tagEqL_tr, hr.1, hr.2, ht, List.append_nil],
         by simp only [bind_val, pure_val]; exact .ok trivial⟩

/-- `Context::new` under two keys of the same length (and any two nonces): same trace, indistinguishable contexts.
    (`hc`, `hc'`: the key setup succeeds, i.e. the lengths are admissible; `hp`: the fresh engine states have the same
    public part — `rfl` for the IETF ChaCha engines, whose public part is trivial) -/
theorem newL_nie (E : ChaCha.Engine σ) (R : Nat) (L : BlockGenLeak (ChaCha.ChaCha.gen E R) G)
    (key key' nonce nonce' : Bytes) (s s' : σ) (hk : key.length = key'.length) (hn : nonce.length = nonce'.length)
    (hc : ChaCha.ChaCha.new E R key nonce = .ok (StreamCtx.mk s))
    (hc' : ChaCha.ChaCha.new E R key' nonce' = .ok (StreamCtx.mk s')) (hp : L.pub s = L.pub s') :
    NIE (newL E R G key nonce) (newL E R G key' nonce') (LowA L) := by
  unfold newL
  rw [← hn, ← hk, hc, hc']
  refine NIE.ite (NIE.pure_error _) (NIE.emit _ (NIE.ite (NIE.pure_error _) ?_))
  simp only []
  refine NIE.bindE (processL_nie L _ _ (zeros 64) (zeros 64) 64 rfl (mk_lowEq_unit L s s' hp)) (fun r r' hr => ?_)
  refine NIE.pure_ok ⟨hr.1, ⟨⟨_, _, Cx.Proofs.Poly1305.new_absorbing _⟩, ⟨_, _, Cx.Proofs.Poly1305.new_absorbing _⟩, rfl⟩, rfl, rfl⟩

/-- the one-shot object -/
def LowOne (L : BlockGenLeak g G) (o o' : ChaChaPoly1305 σ) : Prop := o.finished = o'.finished ∧ LowA L o.context o'.context

theorem oneShotNewL_nie (E : ChaCha.Engine σ) (R : Nat) (L : BlockGenLeak (ChaCha.ChaCha.gen E R) G)
    (key key' nonce nonce' aad aad' : Bytes) (s s' : σ) (hk : key.length = key'.length)
    (hn : nonce.length = nonce'.length) (ha : aad.length = aad'.length)
    (hc : ChaCha.ChaCha.new E R key nonce = .ok (StreamCtx.mk s))
    (hc' : ChaCha.ChaCha.new E R key' nonce' = .ok (StreamCtx.mk s')) (hp : L.pub s = L.pub s') :
    NIE (oneShotNewL E R G key nonce aad) (oneShotNewL E R G key' nonce' aad') (LowOne L) := by
  unfold oneShotNewL
  refine NIE.bindE (newL_nie E R L key key' nonce nonce' s s' hk hn hc hc' hp) (fun c c' hcc => ?_)
  exact NIE.bindE (add_dataL_nie L c c' aad aad' hcc ha) (fun d d' hd => NIE.pure_ok ⟨rfl, hd⟩)

theorem oneShotEncryptL_nie (L : BlockGenLeak g G) (o o' : ChaChaPoly1305 σ) (i i' : Bytes) (n t : Nat)
    (ho : LowOne L o o') (hi : i.length = i'.length) :
    NIE (oneShotEncryptL G o i n t) (oneShotEncryptL G o' i' n t)
      (fun r r' => LowOne L r.1 r'.1 ∧ r.2.1.length = r'.2.1.length ∧ r.2.2.length = r'.2.2.length) := by
  unfold oneShotEncryptL
  rw [← hi, ← ho.1]
  refine NIE.emit _ (NIE.ite (NIE.pure_error _) (NIE.emit _ (NIE.ite (NIE.pure_error _)
    (NIE.emit _ (NIE.ite (NIE.pure_error _) ?_)))))
  refine NIE.bindE (to_encryptionL_nie L _ _ ho.2) (fun c c' hc => ?_)
  refine NIE.bindE (encryptL_nie L c c' i i' n hc hi) (fun r r' hr => ?_)
  refine NIE.bindE (enc_finalizeL_nie L _ _ hr.1) (fun tg tg' htg => ?_)
  exact NIE.pure_ok ⟨⟨rfl, ho.2⟩, hr.2, by rw [htg.1, htg.2]⟩

theorem oneShotDecryptL_nie (L : BlockGenLeak g G) (o o' : ChaChaPoly1305 σ) (i i' : Bytes) (n : Nat) (t t' : Bytes)
    (ho : LowOne L o o') (hi : i.length = i'.length) (ht : t.length = t'.length) :
    NIE (oneShotDecryptL G o i n t) (oneShotDecryptL G o' i' n t')
      (fun r r' => LowOne L r.1 r'.1 ∧ r.2.1.length = r'.2.1.length) := by
  unfold oneShotDecryptL
  rw [← hi, ← ho.1, ← ht]
  refine NIE.emit _ (NIE.ite (NIE.pure_error _) (NIE.emit _ (NIE.ite (NIE.pure_error _)
    (NIE.emit _ (NIE.ite (NIE.pure_error _) ?_)))))
  refine NIE.bindE (to_decryptionL_nie L _ _ ho.2) (fun c c' hc => ?_)
  refine NIE.bindE (decryptL_nie L c c' i i' n hc hi) (fun r r' hr => ?_)
  refine NIE.bindE (dec_finalizeL_nie L _ _ t t' hr.1 ht) (fun v v' _ => ?_)
  exact NIE.pure_ok ⟨⟨rfl, ho.2⟩, hr.2⟩

end AeadNI

/-! ### from successful runs to indistinguishable objects -/

theorem NIE.rel_of_ok {α : Type} {R : α → α → Prop} {m m' : LeakM (Except String α)} {a a' : α} (h : NIE m m' R)
    (hv : m.val = .ok a) (hv' : m'.val = .ok a') : R a a' := by
  rcases h.res.elim with ⟨e, h1, h2⟩ | ⟨b, b', h1, h2, hr⟩
  · rw [hv] at h1; cases h1
  · rw [hv] at h1; rw [hv'] at h2; cases h1; cases h2; exact hr

/-- the two runs fail together -/
theorem NIE.isOk_eq {α : Type} {R : α → α → Prop} {m m' : LeakM (Except String α)} (h : NIE m m' R) :
    m.val.isOk = m'.val.isOk := by
  rcases h.res.elim with ⟨e, h1, h2⟩ | ⟨b, b', h1, h2, hr⟩
  · rw [h1, h2]
  · rw [h1, h2]; rfl

theorem context_new_ok {σ : Type} (E : ChaCha.Engine σ) (R : Nat) (key nonce : Bytes) (c : Context σ)
    (h : Context.new E R key nonce = .ok c) : ∃ s, ChaCha.ChaCha.new E R key nonce = .ok (StreamCtx.mk s) := by
  unfold Context.new at h
  split at h
  · cases h
  · split at h
    · cases h
    · cases hn : ChaCha.ChaCha.new E R key nonce with
      | error e => rw [hn] at h; cases h
      | ok cipher =>
        obtain ⟨s, rfl⟩ := chacha_new_ok E R key nonce cipher hn
        exact ⟨s, rfl⟩

theorem oneShot_new_ok {σ : Type} (E : ChaCha.Engine σ) (R : Nat) (key nonce aad : Bytes) (o : ChaChaPoly1305 σ)
    (h : ChaChaPoly1305.new E R key nonce aad = .ok o) : ∃ s, ChaCha.ChaCha.new E R key nonce = .ok (StreamCtx.mk s) := by
  unfold ChaChaPoly1305.new at h
  cases hc : Context.new E R key nonce with
  | error e => rw [hc] at h; cases h
  | ok c => exact context_new_ok E R key nonce c hc

end Cx.Proofs.LeakModel
