/-
  Proofs.GlueSimdShaAvx — the AVX instance (`__m256i` = eight lanes, src/hashing/sha2/impl256/avx.rs, generated namespace
  Sha256Avx) of the generic development of Proofs/GlueSimdSha.lean; same structure as its section `Sse41I`.
  Core Lean only.
-/
import CxVerif.Proofs.GlueSimdSha
namespace Cx.Proofs.GlueSimdSha.AvxI
open Cx Cx.Intrinsics Cx.Impl Cx.Impl.Simd Cx.Impl.SimdSha256 Cx.Impl.Sha2 Cx.Spec.Sha2 Cx.Proofs.SimdSha256 Cx.Proofs.GlueSimdSha
open Cx.Extracted.GlueSimd Cx.Proofs.Keccak Cx.Proofs.SimdBits Cx.Proofs.GlueSimdSha.Sse41I
open Sha256Avx

/-- the register algebra of `__m256i` lanes: the intrinsics themselves -/
def A8 : RegAlg M256i := ⟨⟨_mm256_srli_epi32, _mm256_slli_epi32, _mm256_add_epi32, _mm256_xor_si256, _mm256_or_si256⟩, _mm256_set1_epi32⟩

def map256 (f : UInt32 → UInt32) (v : M256i) : M256i := ⟨v.lo.map f, v.hi.map f⟩

theorem xor256_assoc (a b c : M256i) : _mm256_xor_si256 (_mm256_xor_si256 a b) c = _mm256_xor_si256 a (_mm256_xor_si256 b c) := by
  simp [_mm256_xor_si256, M256i.lanewise2, xor128_assoc]

theorem sigma0_avx (v : M256i) : sigma0 A8 Avx.cfg v = some (sigma0_src v) := by
  rw [good_avx.sig0]
  unfold sigma0_src
  show some (_mm256_xor_si256 (_mm256_xor_si256 (_mm256_xor_si256 (_mm256_xor_si256 _ _) _) _) _) = _
  simp only [xor256_assoc]
  rfl

theorem sigma1_avx (v : M256i) : sigma1 A8 Avx.cfg v = some (sigma1_src v) := by
  rw [good_avx.sig1]
  unfold sigma1_src
  show some (_mm256_xor_si256 (_mm256_xor_si256 (_mm256_xor_si256 (_mm256_xor_si256 _ _) _) _) _) = _
  simp only [xor256_assoc]
  rfl

theorem K32_avx : Sha256Avx.K32 = Impl256.K32 := by decide

theorem stepOk_avx : StepOk A8 Avx.cfg sigma0_src sigma1_src Sha256Avx.K32 SCHEDULE_ROUND_INC_src SCHEDULE_ROUND_src where
  hK := K32_avx
  h0 := sigma0_avx
  h1 := sigma1_avx
  inc := by
    intro sched i w1 w2 w3 w4 kk hk hi
    simp only [SCHEDULE_ROUND_INC_src, SCHEDULE_ROUND_src, Glue.index, Glue.set_index, K32_avx, hk, if_pos hi]
    rfl
  rnd := by
    intro sched i w1 w2 w3 w4 kk hk hi
    simp only [SCHEDULE_ROUND_src, Glue.index, Glue.set_index, K32_avx, hk, if_pos hi]
    rfl

theorem loop0_avx (st : St18 M256i) : message_schedule_8ways_loop1_src 0 st
    = if (toSched st).i < Avx.cfg.loopBound then .error "DIVERGE" else .ok st := by
  obtain ⟨sched, w0, w1, w2, w3, w4, w5, w6, w7, w8, w9, w10, w11, w12, w13, w14, w15, i⟩ := st
  rfl

theorem loopS_avx (fuel : Nat) (st : St18 M256i) : message_schedule_8ways_loop1_src (fuel + 1) st
    = if (toSched st).i < Avx.cfg.loopBound then
        bodyK SCHEDULE_ROUND_INC_src (toSched st) Avx.cfg.loopBody (fun s => back s (message_schedule_8ways_loop1_src fuel))
      else .ok st := by
  obtain ⟨sched, w0, w1, w2, w3, w4, w5, w6, w7, w8, w9, w10, w11, w12, w13, w14, w15, i⟩ := st
  kernel_rfl

theorem prog_avx (sched : List M256i) (msg : Bytes) : message_schedule_8ways_src sched msg
    = loadK gather_src msg Avx.cfg.msgOffsets [] (fun ws =>
        schedK A8 Sha256Avx.K32 SCHEDULE_ROUND_INC_src SCHEDULE_ROUND_src message_schedule_8ways_loop1_src Avx.cfg.loopBound
          Avx.cfg.tail sched (ws.map fun w => _mm256_shuffle_epi8 w (_mm256_set_epi8 28 29 30 31 24 25 26 27 20 21 22 23 16 17 18 19 12 13 14 15 8 9 10 11 4 5 6 7 0 1 2 3))) := by
  kernel_rfl

theorem shuffle_bswap256 (w : M256i) :
    _mm256_shuffle_epi8 w (_mm256_set_epi8 28 29 30 31 24 25 26 27 20 21 22 23 16 17 18 19 12 13 14 15 8 9 10 11 4 5 6 7 0 1 2 3) = map256 bswap32 w := by
  obtain ⟨⟨a0, a1, a2, a3⟩, ⟨b0, b1, b2, b3⟩⟩ := w
  rfl

theorem sigma0_lanes8 (v : M256i) : sigma0_src v = map256 smallSigma0_256 v := by
  obtain ⟨⟨a0, a1, a2, a3⟩, ⟨b0, b1, b2, b3⟩⟩ := v
  simp only [sigma0_src, _mm256_xor_si256, _mm256_srli_epi32, _mm256_slli_epi32, M256i.lanewise, M256i.lanewise2, map256,
    _mm_xor_si128, _mm_srli_epi32, _mm_slli_epi32, M128i.map, M128i.zipWith, ← s0_eq, ← sigma0_shifts, UInt32.xor_assoc]
  rfl

theorem sigma1_lanes8 (v : M256i) : sigma1_src v = map256 smallSigma1_256 v := by
  obtain ⟨⟨a0, a1, a2, a3⟩, ⟨b0, b1, b2, b3⟩⟩ := v
  simp only [sigma1_src, _mm256_xor_si256, _mm256_srli_epi32, _mm256_slli_epi32, M256i.lanewise, M256i.lanewise2, map256,
    _mm_xor_si128, _mm_srli_epi32, _mm_slli_epi32, M128i.map, M128i.zipWith, ← s1_eq, ← sigma1_shifts, UInt32.xor_assoc]
  rfl

theorem gather_ok8 (msg : Bytes) (off : Nat) (h : off + 452 ≤ msg.length) :
    Sha256Avx.gather_src msg off = .ok ⟨⟨ld32 msg off, ld32 msg (off + 64), ld32 msg (off + 128), ld32 msg (off + 192)⟩,
      ⟨ld32 msg (off + 256), ld32 msg (off + 320), ld32 msg (off + 384), ld32 msg (off + 448)⟩⟩ := by
  unfold Sha256Avx.gather_src read_i32
  rw [if_pos (by omega), if_pos (by omega), if_pos (by omega), if_pos (by omega), if_pos (by omega), if_pos (by omega),
    if_pos (by omega), if_pos (by omega)]
  rfl

/-- register value `t` of the eight-block batch: lane `j` = FIPS `W_t` of block `j` -/
def valM8 (msg : Bytes) (t : Nat) : M256i :=
  ⟨⟨Wf (blk msg 0) t, Wf (blk msg 1) t, Wf (blk msg 2) t, Wf (blk msg 3) t⟩,
   ⟨Wf (blk msg 4) t, Wf (blk msg 5) t, Wf (blk msg 6) t, Wf (blk msg 7) t⟩⟩

def gatherV8 (msg : Bytes) (t : Nat) : M256i :=
  ⟨⟨ld32 msg (4 * t), ld32 msg (4 * t + 64), ld32 msg (4 * t + 128), ld32 msg (4 * t + 192)⟩,
   ⟨ld32 msg (4 * t + 256), ld32 msg (4 * t + 320), ld32 msg (4 * t + 384), ld32 msg (4 * t + 448)⟩⟩

theorem gatherV8_bswap (msg : Bytes) (t : Nat) (ht : t < 16) (hm : 512 ≤ msg.length) :
    map256 bswap32 (gatherV8 msg t) = valM8 msg t := by
  simp only [gatherV8, map256, M128i.map, valM8]
  have e0 := bswap_ld32 msg 0 t ht (by omega)
  have e1 := bswap_ld32 msg 1 t ht (by omega)
  have e2 := bswap_ld32 msg 2 t ht (by omega)
  have e3 := bswap_ld32 msg 3 t ht (by omega)
  have e4 := bswap_ld32 msg 4 t ht (by omega)
  have e5 := bswap_ld32 msg 5 t ht (by omega)
  have e6 := bswap_ld32 msg 6 t ht (by omega)
  have e7 := bswap_ld32 msg 7 t ht (by omega)
  simp only [Nat.mul_zero, Nat.add_zero, Nat.mul_one, Nat.reduceMul] at e0 e1 e2 e3 e4 e5 e6 e7
  rw [e0, e1, e2, e3, e4, e5, e6, e7]

theorem hrec_avx (msg : Bytes) (t : Nat) :
    A8.sh.add (A8.sh.add (valM8 msg t) (valM8 msg (t + 9)))
      (A8.sh.add (sigma0_src (valM8 msg (t + 1))) (sigma1_src (valM8 msg (t + 14)))) = valM8 msg (t + 16) := by
  rw [sigma0_lanes8, sigma1_lanes8]
  show _mm256_add_epi32 (_mm256_add_epi32 _ _) (_mm256_add_epi32 _ _) = _
  simp only [valM8, _mm256_add_epi32, M256i.lanewise2, _mm_add_epi32, M128i.zipWith, M128i.map, map256]
  rw [Wf_ge (blk msg 0), Wf_ge (blk msg 1), Wf_ge (blk msg 2), Wf_ge (blk msg 3), Wf_ge (blk msg 4), Wf_ge (blk msg 5),
    Wf_ge (blk msg 6), Wf_ge (blk msg 7)]
  congr 2 <;> ac_rfl

/-- the sixteen gathers + byte swaps on a message holding a whole batch -/
theorem loads_avx {R : Type} (msg : Bytes) (hm : 512 ≤ msg.length) (k : List M256i → Except String R) :
    loadK Sha256Avx.gather_src msg Avx.cfg.msgOffsets [] (fun ws =>
        k (ws.map fun w => _mm256_shuffle_epi8 w (_mm256_set_epi8 28 29 30 31 24 25 26 27 20 21 22 23 16 17 18 19 12 13 14 15 8 9 10 11 4 5 6 7 0 1 2 3)))
      = k ((List.range 16).map (valM8 msg)) := by
  have hoff : Avx.cfg.msgOffsets = [4 * 0, 4 * 1, 4 * 2, 4 * 3, 4 * 4, 4 * 5, 4 * 6, 4 * 7, 4 * 8, 4 * 9, 4 * 10, 4 * 11, 4 * 12, 4 * 13, 4 * 14, 4 * 15] := by decide
  rw [hoff]
  have g : ∀ t, t < 16 → Sha256Avx.gather_src msg (4 * t) = .ok (gatherV8 msg t) := fun t ht => by
    rw [gather_ok8 msg _ (by omega)]; rfl
  have e : ∀ t, t < 16 → map256 bswap32 (gatherV8 msg t) = valM8 msg t := fun t ht => gatherV8_bswap msg t ht hm
  simp only [loadK, g 0 (by decide), g 1 (by decide), g 2 (by decide), g 3 (by decide), g 4 (by decide), g 5 (by decide), g 6 (by decide), g 7 (by decide), g 8 (by decide), g 9 (by decide), g 10 (by decide), g 11 (by decide), g 12 (by decide), g 13 (by decide), g 14 (by decide), g 15 (by decide), List.nil_append, List.cons_append, List.map_cons, List.map_nil,
    shuffle_bswap256, e 0 (by decide), e 1 (by decide), e 2 (by decide), e 3 (by decide), e 4 (by decide), e 5 (by decide), e 6 (by decide), e 7 (by decide), e 8 (by decide), e 9 (by decide), e 10 (by decide), e 11 (by decide), e 12 (by decide), e 13 (by decide), e 14 (by decide), e 15 (by decide)]
  rfl

/-- **`message_schedule_8ways`** of the translated source on a message holding a whole batch and ANY 64-entry `schedule` array -/
theorem message_schedule_src_spec8 (sched : List M256i) (msg : Bytes) (hs : sched.length = 64) (hm : 512 ≤ msg.length) :
    ∃ out, message_schedule_8ways_src sched msg = .ok out ∧ out.length = 64 ∧
      ∀ k kk, Impl256.K32[k]? = some kk → out[k]? = some (_mm256_add_epi32 (valM8 msg k) (_mm256_set1_epi32 kk)) := by
  obtain ⟨out, h1, h2, h3⟩ := schedK_spec stepOk_avx std_avx (valM8 msg) (hrec_avx msg)
    message_schedule_8ways_loop1_src loop0_avx loopS_avx sched hs
  refine ⟨out, ?_, h2, h3⟩
  rw [prog_avx, loads_avx msg hm]
  exact h1

/-- a generated `__m256i` as the model's eight lanes -/
def toL8 (v : M256i) : Lanes Avx.cfg.n :=
  (#v[v.lo.d0, v.lo.d1, v.lo.d2, v.lo.d3, v.hi.d0, v.hi.d1, v.hi.d2, v.hi.d3] : Vector UInt32 8)

theorem lane0_ok : LaneOk (fun x : M256i => x.lo.d0) compress_8ways_round_0_src compress_8ways_loop1_src compress_8ways_compress_once_0_src :=
  ⟨fun _ _ _ _ _ _ _ _ _ _ => by kernel_rfl, fun _ _ _ _ _ _ _ _ _ _ => rfl, fun _ _ _ _ _ _ _ _ _ _ _ => rfl, fun _ _ => rfl⟩
theorem lane1_ok : LaneOk (fun x : M256i => x.lo.d1) compress_8ways_round_1_src compress_8ways_loop2_src compress_8ways_compress_once_1_src :=
  ⟨fun _ _ _ _ _ _ _ _ _ _ => by kernel_rfl, fun _ _ _ _ _ _ _ _ _ _ => rfl, fun _ _ _ _ _ _ _ _ _ _ _ => rfl, fun _ _ => rfl⟩
theorem lane2_ok : LaneOk (fun x : M256i => x.lo.d2) compress_8ways_round_2_src compress_8ways_loop3_src compress_8ways_compress_once_2_src :=
  ⟨fun _ _ _ _ _ _ _ _ _ _ => by kernel_rfl, fun _ _ _ _ _ _ _ _ _ _ => rfl, fun _ _ _ _ _ _ _ _ _ _ _ => rfl, fun _ _ => rfl⟩
theorem lane3_ok : LaneOk (fun x : M256i => x.lo.d3) compress_8ways_round_3_src compress_8ways_loop4_src compress_8ways_compress_once_3_src :=
  ⟨fun _ _ _ _ _ _ _ _ _ _ => by kernel_rfl, fun _ _ _ _ _ _ _ _ _ _ => rfl, fun _ _ _ _ _ _ _ _ _ _ _ => rfl, fun _ _ => rfl⟩
theorem lane4_ok : LaneOk (fun x : M256i => x.hi.d0) compress_8ways_round_4_src compress_8ways_loop5_src compress_8ways_compress_once_4_src :=
  ⟨fun _ _ _ _ _ _ _ _ _ _ => by kernel_rfl, fun _ _ _ _ _ _ _ _ _ _ => rfl, fun _ _ _ _ _ _ _ _ _ _ _ => rfl, fun _ _ => rfl⟩
theorem lane5_ok : LaneOk (fun x : M256i => x.hi.d1) compress_8ways_round_5_src compress_8ways_loop6_src compress_8ways_compress_once_5_src :=
  ⟨fun _ _ _ _ _ _ _ _ _ _ => by kernel_rfl, fun _ _ _ _ _ _ _ _ _ _ => rfl, fun _ _ _ _ _ _ _ _ _ _ _ => rfl, fun _ _ => rfl⟩
theorem lane6_ok : LaneOk (fun x : M256i => x.hi.d2) compress_8ways_round_6_src compress_8ways_loop7_src compress_8ways_compress_once_6_src :=
  ⟨fun _ _ _ _ _ _ _ _ _ _ => by kernel_rfl, fun _ _ _ _ _ _ _ _ _ _ => rfl, fun _ _ _ _ _ _ _ _ _ _ _ => rfl, fun _ _ => rfl⟩
theorem lane7_ok : LaneOk (fun x : M256i => x.hi.d3) compress_8ways_round_7_src compress_8ways_loop8_src compress_8ways_compress_once_7_src :=
  ⟨fun _ _ _ _ _ _ _ _ _ _ => by kernel_rfl, fun _ _ _ _ _ _ _ _ _ _ => rfl, fun _ _ _ _ _ _ _ _ _ _ _ => rfl, fun _ _ => rfl⟩

/-- **`compress_8ways`** of the translated source on a 64-entry schedule -/
theorem compress_src_spec8 (state : W8 UInt32) (sched : List M256i) (hl : sched.length = 64) :
    ∃ r, compress_nways (sched.map toL8) state Avx.cfg.compressLanes = some r ∧ compress_8ways_src state sched = .ok r := by
  obtain ⟨r0, m0, s0⟩ := once_sim lane0_ok toL8 0 (fun _ => rfl) state sched hl
  obtain ⟨r1, m1, s1⟩ := once_sim lane1_ok toL8 1 (fun _ => rfl) r0 sched hl
  obtain ⟨r2, m2, s2⟩ := once_sim lane2_ok toL8 2 (fun _ => rfl) r1 sched hl
  obtain ⟨r3, m3, s3⟩ := once_sim lane3_ok toL8 3 (fun _ => rfl) r2 sched hl
  obtain ⟨r4, m4, s4⟩ := once_sim lane4_ok toL8 4 (fun _ => rfl) r3 sched hl
  obtain ⟨r5, m5, s5⟩ := once_sim lane5_ok toL8 5 (fun _ => rfl) r4 sched hl
  obtain ⟨r6, m6, s6⟩ := once_sim lane6_ok toL8 6 (fun _ => rfl) r5 sched hl
  obtain ⟨r7, m7, s7⟩ := once_sim lane7_ok toL8 7 (fun _ => rfl) r6 sched hl
  refine ⟨r7, ?_, ?_⟩
  · have : Avx.cfg.compressLanes = [0, 1, 2, 3, 4, 5, 6, 7] := by decide
    rw [this]
    simp only [compress_nways, m0, m1, m2, m3, m4, m5, m6, m7]
  · unfold compress_8ways_src
    rw [s0]; dsimp only
    rw [s1]; dsimp only
    rw [s2]; dsimp only
    rw [s3]; dsimp only
    rw [s4]; dsimp only
    rw [s5]; dsimp only
    rw [s6]; dsimp only
    rw [s7]

/-- the translated schedule, lane view = the model's schedule -/
theorem message_schedule_src_eq_model8 (sched : List M256i) (msg : Bytes) (hs : sched.length = 64) (hm : 512 ≤ msg.length) :
    ∃ out, message_schedule_8ways_src sched msg = .ok out ∧ out.length = 64 ∧
      message_schedule Avx.cfg msg = some (out.map toL8) := by
  obtain ⟨out, h1, h2, h3⟩ := message_schedule_src_spec8 sched msg hs hm
  obtain ⟨sch, g1, g2, g3⟩ := message_schedule_eq good_avx msg (by simpa [Avx.cfg] using hm)
  refine ⟨out, h1, h2, ?_⟩
  rw [g1]
  congr 1
  apply List.ext_getElem?
  intro k
  by_cases hk : k < 64
  · obtain ⟨kk, hkk⟩ := K32_some hk
    have e1 : (out.map toL8)[k]? = some (toL8 (_mm256_add_epi32 (valM8 msg k) (_mm256_set1_epi32 kk))) := by
      rw [List.getElem?_map, h3 k kk hkk]; rfl
    rw [g3 k kk hkk, e1]
    apply congrArg some
    apply Vector.ext
    intro j hj
    have hj8 : j < 8 := hj
    match j, hj8 with
    | 0, _ => rfl
    | 1, _ => rfl
    | 2, _ => rfl
    | 3, _ => rfl
    | 4, _ => rfl
    | 5, _ => rfl
    | 6, _ => rfl
    | 7, _ => rfl
  · have e1 : (out.map toL8)[k]? = none := List.getElem?_eq_none (by simp; omega)
    rw [List.getElem?_eq_none (by omega), e1]

/-- the batch loop of the translated `avx::digest_block` = the model's `batch_loop` -/
theorem batch_sim8 : ∀ (fuel : Nat) (state : W8 UInt32) (block : Bytes) (sched : List M256i), sched.length = 64 →
    (digest_block_loop1_src fuel (state, block, sched)).toOption.map (fun st => (st.1, st.2.1))
      = batch_loop Avx.cfg fuel state block := by
  intro fuel
  have hb : Avx.cfg.batchBytes = 512 := by decide
  induction fuel with
  | zero =>
    intro state block sched _
    show (if block.length ≥ 512 then (Except.error "DIVERGE" : Except String _) else .ok (state, block, sched)).toOption.map _ = _
    unfold batch_loop
    rw [hb]
    by_cases h : block.length ≥ 512
    · rw [if_pos h, if_pos h]; rfl
    · rw [if_neg h, if_neg h]; rfl
  | succ fuel ih =>
    intro state block sched hs
    show (if block.length ≥ 512 then _ else (Except.ok (state, block, sched) : Except String _)).toOption.map _ = _
    unfold batch_loop
    rw [hb]
    by_cases h : block.length ≥ 512
    · rw [if_pos h, if_pos h]
      obtain ⟨out, h1, h2, h3⟩ := message_schedule_src_eq_model8 sched block hs h
      obtain ⟨r, c1, c2⟩ := compress_src_spec8 state out h2
      rw [h1, h3]; dsimp only
      rw [c2, c1]; dsimp only
      rw [slice_tail block 512 h]; dsimp only
      exact ih r (block.drop 512) out h2
    · rw [if_neg h, if_neg h]; rfl

/-- **`avx::digest_block`** of the translated source = the model, every state, every input length -/
theorem digest_block_src_eq_model8 (state : W8 UInt32) (block : Bytes) :
    (Sha256Avx.digest_block_src state block).toOption = Avx.digest_block state block := by
  have hsim := batch_sim8 block.length state block (Glue.fill 64 (_mm256_set1_epi32 (0 : UInt32))) (by simp [Glue.fill])
  unfold Avx.digest_block
  rw [← hsim]
  unfold Sha256Avx.digest_block_src
  dsimp only
  cases hl : digest_block_loop1_src block.length (state, block, Glue.fill 64 (_mm256_set1_epi32 (0 : UInt32))) with
  | error e => rfl
  | ok st =>
    obtain ⟨state1, block1, sched1⟩ := st
    dsimp only [Except.toOption, Option.map]
    rw [← Sse41I.digest_block_src_eq_model]
    cases Sha256Sse41.digest_block_src state1 block1 <;> rfl

end Cx.Proofs.GlueSimdSha.AvxI
