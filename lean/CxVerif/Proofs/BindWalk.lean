/-
  Proofs.BindWalk — a head-directed tactic for the kernel-tie theorems of the Option-monad limb kernels
  (Props/C17/KernelTieB32.lean).  Both sides of such a tie are straight-line programs in the `Option` monad:
      generated:  x₁.bind fun a₁ => x₂.bind fun a₂ => … => some r           (one bind per checked Rust operation)
      model:      the same operations, grouped into helpers (`carryR`, `mac`, `qstep`, …) that end in `pure`
  After the helpers are unfolded and the binds re-associated (`simp only [helpers, Option.bind_assoc]`), the model
  side differs from the generated side only by redexes `(some v).bind K`.  `simp only [Option.bind_some]` removes
  them but re-simplifies the whole continuation after every step (measured: exponential in the number of redexes,
  > 5 min for `Fe::to_bytes`).  `bind_walk` instead walks both sides from the head, syntactically:
      rhs = (some v).bind K          ↦  rhs := K v          (definitional, no search)
      lhs = x.bind F, rhs = y.bind G ↦  `x = y` by `rfl` on the small operand terms, continue with `F a = G a`
  and leaves the final `some r = some r'` goal (closed by `rfl` by the caller).  Every step is linear in the term.
-/
import Lean
namespace Cx.Proofs.BindWalk
open Lean Elab Tactic Meta

theorem bcongr {α β : Type} (x y : Option α) (f g : α → Option β) (hx : x = y) (h : ∀ a, f a = g a) :
    x.bind f = y.bind g := by
  subst hx
  cases x with
  | none => rfl
  | some a => exact h a

theorem bsomeR {α β : Type} (L : Option β) (v : α) (K : α → Option β) (h : L = K v) : L = (some v).bind K := h
theorem bsomeL {α β : Type} (R : Option β) (v : α) (K : α → Option β) (h : K v = R) : (some v).bind K = R := h

/-- remove `(some v).bind K` redexes at the head of both sides of the goal, each by an explicit lemma application (the
    kernel is never asked to discover the reduction by unfolding), after exposing the heads by beta / iota / projections -/
partial def normHeads : TacticM Unit := withMainContext do
  let g ← getMainGoal
  let t ← instantiateMVars (← g.getType)
  let some (_, lhs, rhs) := t.eq? | throwError "bind_walk: goal is not an equation"
  let lhs' ← whnfCore lhs
  let rhs' ← whnfCore rhs
  let g ← if lhs' == lhs && rhs' == rhs then pure g else g.replaceTargetDefEq (← mkEq lhs' rhs')
  replaceMainGoal [g]
  if rhs'.isAppOfArity ``Option.bind 4 then
    let x ← whnfCore (rhs'.getArg! 2)
    if x.isAppOfArity ``Option.some 2 then
      let v := x.getArg! 1
      let k := rhs'.getArg! 3
      let newGoal ← mkFreshExprSyntheticOpaqueMVar (← mkEq lhs' (k.beta #[v]))
      g.assign (← mkAppM ``Cx.Proofs.BindWalk.bsomeR #[lhs', v, k, newGoal])
      replaceMainGoal [newGoal.mvarId!]
      return ← normHeads
  if lhs'.isAppOfArity ``Option.bind 4 then
    let x ← whnfCore (lhs'.getArg! 2)
    if x.isAppOfArity ``Option.some 2 then
      let v := x.getArg! 1
      let k := lhs'.getArg! 3
      let newGoal ← mkFreshExprSyntheticOpaqueMVar (← mkEq (k.beta #[v]) rhs')
      g.assign (← mkAppM ``Cx.Proofs.BindWalk.bsomeL #[rhs', v, k, newGoal])
      replaceMainGoal [newGoal.mvarId!]
      return ← normHeads

/-- one step of the walk; fails when neither side has a bind at its head or the two head operations differ -/
def step : TacticM Unit := do
  normHeads
  withMainContext do
  let g ← getMainGoal
  let t ← instantiateMVars (← g.getType)
  let some (_, lhs', rhs') := t.eq? | throwError "bind_walk: goal is not an equation"
  unless lhs'.isAppOfArity ``Option.bind 4 && rhs'.isAppOfArity ``Option.bind 4 do
    throwError "bind_walk: no bind at the head of both sides"
  let x := lhs'.getArg! 2
  let y := rhs'.getArg! 2
  let f := lhs'.getArg! 3
  let k := rhs'.getArg! 3
  let α := lhs'.getArg! 0
  unless ← isDefEq x y do
    throwError "bind_walk: the head operations differ:{indentExpr x}\nvs{indentExpr y}"
  -- new goal: ∀ a, f a = k a
  let newTy ← withLocalDeclD `a α fun a => do
    mkForallFVars #[a] (← mkEq (f.beta #[a]) (k.beta #[a]))
  let newGoal ← mkFreshExprSyntheticOpaqueMVar newTy
  let pf ← mkAppM ``Cx.Proofs.BindWalk.bcongr #[x, y, f, k, ← mkEqRefl x, newGoal]
  g.assign pf
  let (_, g') ← newGoal.mvarId!.intro1
  replaceMainGoal [g']

/-- one lock-step move of the walk -/
elab "bind_step" : tactic => step

/-- expose the heads of what is left (e.g. a trailing `(some v).bind K` on the model side) -/
elab "bind_head" : tactic => normHeads

/-- walk the two bind chains in lock step as long as both have a bind at the head, then expose the remaining heads -/
macro "bind_walk" : tactic => `(tactic| (repeat bind_step; bind_head))

end Cx.Proofs.BindWalk
