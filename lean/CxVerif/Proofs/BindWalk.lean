/-
  Proofs.BindWalk — a head-directed tactic for the kernel-tie theorems of the Option-monad limb kernels
  (Props/C17/KernelTieB32.lean).  Both sides of such a tie are straight-line programs in the `Option` monad:
      generated:  x₁.bind fun a₁ => x₂.bind fun a₂ => … => some r           (one bind per checked Rust operation)
      model:      the same operations, grouped into helpers (`carryR`, `mac`, `qstep`, …) that end in `pure`
  Normalising the model side with `simp only [helpers, Option.bind_assoc, Option.bind_some]` re-simplifies the whole
  continuation after every rewrite (measured: exponential in the number of `(some v).bind K` redexes, > 5 min for
  `Fe::to_bytes`; step limit exceeded for `sc_reduce`).  `bind_walk [helpers]` instead walks both sides from the head,
  syntactically, one explicit lemma application per move (the kernel is never asked to discover a reduction):
      side = c args,  c ∈ helpers              ↦  unfold c                       (definitional, checked by delta)
      side = (a.bind b).bind c                 ↦  a.bind fun x => (b x).bind c   (`bassocR` / `bassocL`)
      side = (some v).bind K                   ↦  K v                            (`bsomeR` / `bsomeL`)
      lhs = x.bind F, rhs = y.bind G           ↦  `x = y` by `rfl` on the small operand terms, continue with `F a = G a`
  and closes the final `some r = some r'` goal by `rfl`.  Every move is linear in the term.
-/
import Lean
namespace Cx.Proofs.BindWalk
open Lean Elab Tactic Meta

theorem bcongr {α β : Type} (x y : Option α) (f g : α → Option β) (hx : x = y) (h : ∀ a, f a = g a) :
    x.bind f = y.bind g := by
  subst hx
  cases x with
  | none => rfl
  | some a => exact h a

theorem bsomeR {α β : Type} (L : Option β) (v : α) (K : α → Option β) (h : L = K v) : L = (some v).bind K := h
theorem bsomeL {α β : Type} (R : Option β) (v : α) (K : α → Option β) (h : K v = R) : (some v).bind K = R := h
theorem bassocR {α β γ : Type} (L : Option γ) (a : Option α) (b : α → Option β) (c : β → Option γ)
    (h : L = a.bind fun x => (b x).bind c) : L = (a.bind b).bind c := by
  rw [h]; cases a <;> rfl
theorem bassocL {α β γ : Type} (R : Option γ) (a : Option α) (b : α → Option β) (c : β → Option γ)
    (h : (a.bind fun x => (b x).bind c) = R) : (a.bind b).bind c = R := by
  rw [← h]; cases a <;> rfl

/-- `Bind.bind` / `Pure.pure` of the `Option` monad (what `do` notation elaborates to) as `Option.bind` / `some` -/
def optForm (e : Expr) : Expr :=
  if e.isAppOfArity ``Bind.bind 6 && (e.getArg! 0).isConstOf ``Option then
    mkApp4 (mkConst ``Option.bind [Level.zero, Level.zero]) (e.getArg! 2) (e.getArg! 3) (e.getArg! 4) (e.getArg! 5)
  else if e.isAppOfArity ``Pure.pure 4 && (e.getArg! 0).isConstOf ``Option then
    mkApp2 (mkConst ``Option.some [Level.zero]) (e.getArg! 2) (e.getArg! 3)
  else e

/-- ONE definitional move at the head of a side (so that the kernel re-checks it by a single unfolding, never by a search):
    beta / zeta / iota / projections at the root or at the head operand of a bind; `Bind.bind`/`Pure.pure` of the `Option`
    monad into `Option.bind`/`some` form; a helper constant of `unf` unfolded at the root or as the head operand. -/
def defMove (unf : Array Name) (e : Expr) : MetaM (Option Expr) := do
  let e1 ← whnfCore e
  if e1 != e then return some e1
  let e2 := optForm e
  if e2 != e then return some e2
  let fn := e.getAppFn
  if fn.isConst && unf.contains fn.constName! then
    if let some e' ← unfoldDefinition? e then return some e'
  if e.isAppOfArity ``Option.bind 4 then
    let x := e.getArg! 2
    let rebuild (x' : Expr) : Expr := mkApp4 e.getAppFn (e.getArg! 0) (e.getArg! 1) x' (e.getArg! 3)
    let x1 ← whnfCore x
    if x1 != x then return some (rebuild x1)
    let x2 := optForm x
    if x2 != x then return some (rebuild x2)
    let xfn := x.getAppFn
    if xfn.isConst && unf.contains xfn.constName! then
      if let some x' ← unfoldDefinition? x then return some (rebuild x')
  return none

/-- normalise the heads of both sides of the goal `lhs = rhs` -/
partial def normHeads (unf : Array Name) : TacticM Unit := withMainContext do
  let g ← getMainGoal
  let t ← instantiateMVars (← g.getType)
  let some (_, lhs', rhs') := t.eq? | throwError "bind_walk: goal is not an equation"
  if let some r ← defMove unf rhs' then
    replaceMainGoal [← g.replaceTargetDefEq (← mkEq lhs' r)]
    return ← normHeads unf
  if let some l ← defMove unf lhs' then
    replaceMainGoal [← g.replaceTargetDefEq (← mkEq l rhs')]
    return ← normHeads unf
  if rhs'.isAppOfArity ``Option.bind 4 then
    let x := rhs'.getArg! 2
    let k := rhs'.getArg! 3
    if x.isAppOfArity ``Option.some 2 then
      let v := x.getArg! 1
      let newGoal ← mkFreshExprSyntheticOpaqueMVar (← mkEq lhs' (k.beta #[v]))
      g.assign (← mkAppM ``Cx.Proofs.BindWalk.bsomeR #[lhs', v, k, newGoal])
      replaceMainGoal [newGoal.mvarId!]
      return ← normHeads unf
    if x.isAppOfArity ``Option.bind 4 then
      let a := x.getArg! 2
      let b := x.getArg! 3
      let inner ← withLocalDeclD `x (x.getArg! 0) fun xv => do
        mkLambdaFVars #[xv] (mkApp4 rhs'.getAppFn (rhs'.getArg! 0) (rhs'.getArg! 1) (b.beta #[xv]) k)
      let new := mkApp4 rhs'.getAppFn (x.getArg! 0) (rhs'.getArg! 1) a inner
      let newGoal ← mkFreshExprSyntheticOpaqueMVar (← mkEq lhs' new)
      g.assign (← mkAppM ``Cx.Proofs.BindWalk.bassocR #[lhs', a, b, k, newGoal])
      replaceMainGoal [newGoal.mvarId!]
      return ← normHeads unf
  if lhs'.isAppOfArity ``Option.bind 4 then
    let x := lhs'.getArg! 2
    let k := lhs'.getArg! 3
    if x.isAppOfArity ``Option.some 2 then
      let v := x.getArg! 1
      let newGoal ← mkFreshExprSyntheticOpaqueMVar (← mkEq (k.beta #[v]) rhs')
      g.assign (← mkAppM ``Cx.Proofs.BindWalk.bsomeL #[rhs', v, k, newGoal])
      replaceMainGoal [newGoal.mvarId!]
      return ← normHeads unf
    if x.isAppOfArity ``Option.bind 4 then
      let a := x.getArg! 2
      let b := x.getArg! 3
      let inner ← withLocalDeclD `x (x.getArg! 0) fun xv => do
        mkLambdaFVars #[xv] (mkApp4 lhs'.getAppFn (lhs'.getArg! 0) (lhs'.getArg! 1) (b.beta #[xv]) k)
      let new := mkApp4 lhs'.getAppFn (x.getArg! 0) (lhs'.getArg! 1) a inner
      let newGoal ← mkFreshExprSyntheticOpaqueMVar (← mkEq new rhs')
      g.assign (← mkAppM ``Cx.Proofs.BindWalk.bassocL #[rhs', a, b, k, newGoal])
      replaceMainGoal [newGoal.mvarId!]
      return ← normHeads unf

/-- one step of the walk; fails when neither side has a bind at its head or the two head operations differ -/
def step (unf : Array Name) : TacticM Unit := do
  normHeads unf
  withMainContext do
  let g ← getMainGoal
  let t ← instantiateMVars (← g.getType)
  let some (_, lhs', rhs') := t.eq? | throwError "bind_walk: goal is not an equation"
  unless lhs'.isAppOfArity ``Option.bind 4 && rhs'.isAppOfArity ``Option.bind 4 do
    throwError "bind_walk: no bind at the head of both sides"
  let x := lhs'.getArg! 2
  let y := rhs'.getArg! 2
  let f := lhs'.getArg! 3
  let k := rhs'.getArg! 3
  let α := lhs'.getArg! 0
  unless ← isDefEq x y do
    throwError "bind_walk: the head operations differ:{indentExpr x}\nvs{indentExpr y}"
  -- new goal: ∀ a, f a = k a
  let newTy ← withLocalDeclD `a α fun a => do
    mkForallFVars #[a] (← mkEq (f.beta #[a]) (k.beta #[a]))
  let newGoal ← mkFreshExprSyntheticOpaqueMVar newTy
  let pf ← mkAppM ``Cx.Proofs.BindWalk.bcongr #[x, y, f, k, ← mkEqRefl x, newGoal]
  g.assign pf
  let (_, g') ← newGoal.mvarId!.intro1
  replaceMainGoal [g']

def resolveNames (ids : Array (TSyntax `ident)) : TacticM (Array Name) :=
  ids.mapM fun i => do
    let n ← realizeGlobalConstNoOverloadWithInfo i
    pure n

/-- one lock-step move of the walk -/
elab "bind_step" "[" ids:ident,* "]" : tactic => do step (← resolveNames ids.getElems)

/-- expose the heads of what is left (e.g. a trailing `(some v).bind K` on the model side) -/
elab "bind_head" "[" ids:ident,* "]" : tactic => do normHeads (← resolveNames ids.getElems)

/-- `bind_walk [helper, …]`: walk the two bind chains in lock step as long as both have a bind at the head (unfolding
    the named helper definitions when they come to the head), expose the remaining heads and close the goal by `rfl`.
    After every 100 moves the rest of the proof is wrapped into an auxiliary lemma (`as_aux_lemma`), so that the nesting
    depth of any single proof term stays small (the kernel otherwise reports "deep recursion" on `sc_muladd`). -/
syntax "bind_walk" "[" ident,* "]" : tactic

elab_rules : tactic
  | `(tactic| bind_walk [$ids,*]) => do
    let unf ← resolveNames ids.getElems
    let mut n := 0
    let mut more := true
    while more && n < 100 do
      let ok ← try step unf; pure true catch _ => pure false
      if ok then n := n + 1 else more := false
    if more then
      evalTactic (← `(tactic| as_aux_lemma => bind_walk [$ids,*]))
    else
      normHeads unf
      evalTactic (← `(tactic| rfl))

end Cx.Proofs.BindWalk
