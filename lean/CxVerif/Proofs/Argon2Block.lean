/-
  Proofs.Argon2Block — the word-level part of Argon2: `add_and_mul` / `fBlaMka` on naturals, the code's `gb`/`p`
  (16 scalars) = the RFC's GB/P (4×4 word matrix), the two unrolled loops of `fill_block` = "P on every row, then
  on every column" of the 8×8 register matrix, `fill_block` = G with / without XOR.  Core Lean only.
-/
import CxVerif.Impl.Argon2
namespace Cx.Proofs.Argon2
open Cx Cx.Impl.Argon2 Cx.Spec.Argon2

/-! ### GB core -/

theorem and_mask (x : UInt64) : (x &&& 0xffffffff).toNat = x.toNat % 2 ^ 32 := by
  rw [UInt64.toNat_and]
  exact Nat.and_two_pow_sub_one_eq_mod x.toNat 32

/-- the plain `*` of `add_and_mul` cannot overflow u64 (both factors are below 2^32) -/
theorem add_and_mul_no_overflow (x y : UInt64) : (x &&& 0xffffffff).toNat * (y &&& 0xffffffff).toNat < 2 ^ 64 := by
  rw [and_mask, and_mask]
  have hx : x.toNat % 2 ^ 32 < 2 ^ 32 := Nat.mod_lt _ (by decide)
  have hy : y.toNat % 2 ^ 32 < 2 ^ 32 := Nat.mod_lt _ (by decide)
  calc _ < 2 ^ 32 * 2 ^ 32 := Nat.mul_lt_mul'' hx hy
    _ = 2 ^ 64 := by decide

/-- `add_and_mul(x, y) = x + y + 2·lo(x)·lo(y) mod 2^64` -/
theorem add_and_mul_toNat (x y : UInt64) :
    (add_and_mul x y).toNat = (x.toNat + y.toNat + 2 * (x.toNat % 2 ^ 32) * (y.toNat % 2 ^ 32)) % 2 ^ 64 := by
  unfold add_and_mul
  simp only [UInt64.toNat_add, UInt64.toNat_shiftLeft, UInt64.toNat_mul, and_mask]
  have h1 : (UInt64.toNat 1) % 64 = 1 := by decide
  rw [h1, Nat.shiftLeft_eq, Nat.mul_assoc 2]
  generalize (x.toNat % 2 ^ 32) * (y.toNat % 2 ^ 32) = pr
  omega

/-- the Spec's UInt64 formula read on naturals: RFC 9106 3.6 `(a + b + 2 * trunc(a) * trunc(b)) mod 2^64` -/
theorem fBlaMka_toNat (a b : UInt64) :
    (fBlaMka a b).toNat = (a.toNat + b.toNat + 2 * (a.toNat % 2 ^ 32) * (b.toNat % 2 ^ 32)) % 2 ^ 64 := by
  unfold fBlaMka trunc
  simp only [UInt64.toNat_add, UInt64.toNat_mul, UInt64.toNat_mod]
  have h1 : (UInt64.toNat 0x100000000) = 2 ^ 32 := by decide
  have h2 : (UInt64.toNat 2) = 2 := by decide
  rw [h1, h2]
  have hu : a.toNat % 2 ^ 32 < 2 ^ 32 := Nat.mod_lt _ (by decide)
  rw [Nat.mod_eq_of_lt (show 2 * (a.toNat % 2 ^ 32) < 2 ^ 64 by omega)]
  omega

theorem add_and_mul_eq_fBlaMka (a b : UInt64) : add_and_mul a b = fBlaMka a b :=
  UInt64.toNat_inj.mp (by rw [add_and_mul_toNat, fBlaMka_toNat])

theorem rot32 (x : UInt64) : rotate_right x 32 = rotr64 x 32 := by
  simp [rotate_right, rotr64, rotl64, UInt64.or_comm]
theorem rot24 (x : UInt64) : rotate_right x 24 = rotr64 x 24 := by
  simp [rotate_right, rotr64, rotl64, UInt64.or_comm]
theorem rot16 (x : UInt64) : rotate_right x 16 = rotr64 x 16 := by
  simp [rotate_right, rotr64, rotl64, UInt64.or_comm]
theorem rot63 (x : UInt64) : rotate_right x 63 = rotr64 x 63 := by
  simp [rotate_right, rotr64, rotl64, UInt64.or_comm]

/-! ### P -/

def ofVec (v : Vector UInt64 16) : V16 :=
  ⟨v[0], v[1], v[2], v[3], v[4], v[5], v[6], v[7], v[8], v[9], v[10], v[11], v[12], v[13], v[14], v[15]⟩
def toVec (v : V16) : Vector UInt64 16 :=
  #v[v.v0, v.v1, v.v2, v.v3, v.v4, v.v5, v.v6, v.v7, v.v8, v.v9, v.v10, v.v11, v.v12, v.v13, v.v14, v.v15]

theorem toVec_ofVec (v : Vector UInt64 16) : toVec (ofVec v) = v := by
  obtain ⟨⟨l⟩, h⟩ := v
  iterate 16 (rcases l with _ | ⟨_, l⟩; · simp at h)
  rcases l with _ | ⟨_, l⟩
  · rfl
  · simp at h

theorem GB_lit0 (v0 v1 v2 v3 v4 v5 v6 v7 v8 v9 v10 v11 v12 v13 v14 v15 : UInt64) :
    GB #v[v0, v1, v2, v3, v4, v5, v6, v7, v8, v9, v10, v11, v12, v13, v14, v15] 0 4 8 12 =
      #v[(gb v0 v4 v8 v12).a, v1, v2, v3, (gb v0 v4 v8 v12).b, v5, v6, v7, (gb v0 v4 v8 v12).c, v9, v10, v11, (gb v0 v4 v8 v12).d, v13, v14, v15] := by
  simp only [GB, gb, rot32, rot24, rot16, rot63, add_and_mul_eq_fBlaMka]
  rfl

theorem GB_lit1 (v0 v1 v2 v3 v4 v5 v6 v7 v8 v9 v10 v11 v12 v13 v14 v15 : UInt64) :
    GB #v[v0, v1, v2, v3, v4, v5, v6, v7, v8, v9, v10, v11, v12, v13, v14, v15] 1 5 9 13 =
      #v[v0, (gb v1 v5 v9 v13).a, v2, v3, v4, (gb v1 v5 v9 v13).b, v6, v7, v8, (gb v1 v5 v9 v13).c, v10, v11, v12, (gb v1 v5 v9 v13).d, v14, v15] := by
  simp only [GB, gb, rot32, rot24, rot16, rot63, add_and_mul_eq_fBlaMka]
  rfl

theorem GB_lit2 (v0 v1 v2 v3 v4 v5 v6 v7 v8 v9 v10 v11 v12 v13 v14 v15 : UInt64) :
    GB #v[v0, v1, v2, v3, v4, v5, v6, v7, v8, v9, v10, v11, v12, v13, v14, v15] 2 6 10 14 =
      #v[v0, v1, (gb v2 v6 v10 v14).a, v3, v4, v5, (gb v2 v6 v10 v14).b, v7, v8, v9, (gb v2 v6 v10 v14).c, v11, v12, v13, (gb v2 v6 v10 v14).d, v15] := by
  simp only [GB, gb, rot32, rot24, rot16, rot63, add_and_mul_eq_fBlaMka]
  rfl

theorem GB_lit3 (v0 v1 v2 v3 v4 v5 v6 v7 v8 v9 v10 v11 v12 v13 v14 v15 : UInt64) :
    GB #v[v0, v1, v2, v3, v4, v5, v6, v7, v8, v9, v10, v11, v12, v13, v14, v15] 3 7 11 15 =
      #v[v0, v1, v2, (gb v3 v7 v11 v15).a, v4, v5, v6, (gb v3 v7 v11 v15).b, v8, v9, v10, (gb v3 v7 v11 v15).c, v12, v13, v14, (gb v3 v7 v11 v15).d] := by
  simp only [GB, gb, rot32, rot24, rot16, rot63, add_and_mul_eq_fBlaMka]
  rfl

theorem GB_lit4 (v0 v1 v2 v3 v4 v5 v6 v7 v8 v9 v10 v11 v12 v13 v14 v15 : UInt64) :
    GB #v[v0, v1, v2, v3, v4, v5, v6, v7, v8, v9, v10, v11, v12, v13, v14, v15] 0 5 10 15 =
      #v[(gb v0 v5 v10 v15).a, v1, v2, v3, v4, (gb v0 v5 v10 v15).b, v6, v7, v8, v9, (gb v0 v5 v10 v15).c, v11, v12, v13, v14, (gb v0 v5 v10 v15).d] := by
  simp only [GB, gb, rot32, rot24, rot16, rot63, add_and_mul_eq_fBlaMka]
  rfl

theorem GB_lit5 (v0 v1 v2 v3 v4 v5 v6 v7 v8 v9 v10 v11 v12 v13 v14 v15 : UInt64) :
    GB #v[v0, v1, v2, v3, v4, v5, v6, v7, v8, v9, v10, v11, v12, v13, v14, v15] 1 6 11 12 =
      #v[v0, (gb v1 v6 v11 v12).a, v2, v3, v4, v5, (gb v1 v6 v11 v12).b, v7, v8, v9, v10, (gb v1 v6 v11 v12).c, (gb v1 v6 v11 v12).d, v13, v14, v15] := by
  simp only [GB, gb, rot32, rot24, rot16, rot63, add_and_mul_eq_fBlaMka]
  rfl

theorem GB_lit6 (v0 v1 v2 v3 v4 v5 v6 v7 v8 v9 v10 v11 v12 v13 v14 v15 : UInt64) :
    GB #v[v0, v1, v2, v3, v4, v5, v6, v7, v8, v9, v10, v11, v12, v13, v14, v15] 2 7 8 13 =
      #v[v0, v1, (gb v2 v7 v8 v13).a, v3, v4, v5, v6, (gb v2 v7 v8 v13).b, (gb v2 v7 v8 v13).c, v9, v10, v11, v12, (gb v2 v7 v8 v13).d, v14, v15] := by
  simp only [GB, gb, rot32, rot24, rot16, rot63, add_and_mul_eq_fBlaMka]
  rfl

theorem GB_lit7 (v0 v1 v2 v3 v4 v5 v6 v7 v8 v9 v10 v11 v12 v13 v14 v15 : UInt64) :
    GB #v[v0, v1, v2, v3, v4, v5, v6, v7, v8, v9, v10, v11, v12, v13, v14, v15] 3 4 9 14 =
      #v[v0, v1, v2, (gb v3 v4 v9 v14).a, (gb v3 v4 v9 v14).b, v5, v6, v7, v8, (gb v3 v4 v9 v14).c, v10, v11, v12, v13, (gb v3 v4 v9 v14).d, v15] := by
  simp only [GB, gb, rot32, rot24, rot16, rot63, add_and_mul_eq_fBlaMka]
  rfl

theorem P_lit (v0 v1 v2 v3 v4 v5 v6 v7 v8 v9 v10 v11 v12 v13 v14 v15 : UInt64) :
    P #v[v0, v1, v2, v3, v4, v5, v6, v7, v8, v9, v10, v11, v12, v13, v14, v15] =
      toVec (p ⟨v0, v1, v2, v3, v4, v5, v6, v7, v8, v9, v10, v11, v12, v13, v14, v15⟩) := by
  simp only [P, GB_lit0, GB_lit1, GB_lit2, GB_lit3, GB_lit4, GB_lit5, GB_lit6, GB_lit7]
  rfl

/-- the code's `p` on 16 scalars is the RFC's P on the 4×4 word matrix -/
theorem P_eq (v : Vector UInt64 16) : P v = toVec (p (ofVec v)) := by
  conv => lhs; rw [← toVec_ofVec v]
  exact P_lit ..

/-! ### rows and columns -/

theorem finRange16 : List.finRange 16 = [0, 1, 2, 3, 4, 5, 6, 7, 8, 9, 10, 11, 12, 13, 14, 15] := by decide

def gather16 (R : Block) (idx : Fin 16 → Fin 128) : V16 :=
  ⟨R[idx 0], R[idx 1], R[idx 2], R[idx 3], R[idx 4], R[idx 5], R[idx 6], R[idx 7],
   R[idx 8], R[idx 9], R[idx 10], R[idx 11], R[idx 12], R[idx 13], R[idx 14], R[idx 15]⟩

def scatter16 (R : Block) (idx : Fin 16 → Fin 128) (w : V16) : Block :=
  (((((((((((((((R.set (idx 0) w.v0).set (idx 1) w.v1).set (idx 2) w.v2).set (idx 3) w.v3).set (idx 4) w.v4).set (idx 5) w.v5).set
    (idx 6) w.v6).set (idx 7) w.v7).set (idx 8) w.v8).set (idx 9) w.v9).set (idx 10) w.v10).set (idx 11) w.v11).set
    (idx 12) w.v12).set (idx 13) w.v13).set (idx 14) w.v14).set (idx 15) w.v15

theorem applyP_eq (R : Block) (reg : Fin 8 → Fin 64) :
    applyP R reg = scatter16 R (wordIdx reg) (p (gather16 R (wordIdx reg))) := by
  unfold applyP
  rw [P_eq, finRange16]
  have h : ofVec (Vector.ofFn fun k => R[wordIdx reg k]) = gather16 R (wordIdx reg) := by
    simp only [ofVec, gather16, Vector.getElem_ofFn]
    rfl
  rw [h]
  generalize p (gather16 R (wordIdx reg)) = w
  simp only [List.foldl_cons, List.foldl_nil, toVec, scatter16]
  rfl

/-- word positions of row `i` of the register matrix: `16 i + k` (the code's `block_r[16 * i + k]`) -/
theorem wordIdx_row (i : Fin 8) (k : Fin 16) : (wordIdx (rowReg i) k).val = 16 * i.val + k.val := by
  simp only [wordIdx, wordOf, rowReg]; omega

/-- word positions of column `i`: `2 i + 16 ⌊k/2⌋ + k mod 2` (the code's `block_r[2 * i + {0,1,16,17,…,112,113}]`) -/
theorem wordIdx_col (i : Fin 8) (k : Fin 16) :
    (wordIdx (colReg i) k).val = 2 * i.val + (16 * (k.val / 2) + k.val % 2) := by
  simp only [wordIdx, wordOf, colReg]; omega

theorem row_eq (R : Block) (i : Fin 8) : fill_block_row R i = applyP R (rowReg i) := by
  rw [applyP_eq]
  unfold fill_block_row
  have h : gather16 R (wordIdx (rowReg i)) = ⟨R[16 * i.val], R[16 * i.val + 1], R[16 * i.val + 2], R[16 * i.val + 3], R[16 * i.val + 4], R[16 * i.val + 5], R[16 * i.val + 6], R[16 * i.val + 7], R[16 * i.val + 8], R[16 * i.val + 9], R[16 * i.val + 10], R[16 * i.val + 11], R[16 * i.val + 12], R[16 * i.val + 13], R[16 * i.val + 14], R[16 * i.val + 15]⟩ := by
    simp only [gather16, Fin.getElem_fin, wordIdx_row]
    rfl
  rw [h]
  generalize p _ = w
  simp only [scatter16, wordIdx_row]
  rfl

theorem col_eq (R : Block) (i : Fin 8) : fill_block_col R i = applyP R (colReg i) := by
  rw [applyP_eq]
  unfold fill_block_col
  have h : gather16 R (wordIdx (colReg i)) = ⟨R[2 * i.val], R[2 * i.val + 1], R[2 * i.val + 16], R[2 * i.val + 17], R[2 * i.val + 32], R[2 * i.val + 33], R[2 * i.val + 48], R[2 * i.val + 49], R[2 * i.val + 64], R[2 * i.val + 65], R[2 * i.val + 80], R[2 * i.val + 81], R[2 * i.val + 96], R[2 * i.val + 97], R[2 * i.val + 112], R[2 * i.val + 113]⟩ := by
    simp only [gather16, Fin.getElem_fin, wordIdx_col]
    rfl
  rw [h]
  generalize p _ = w
  simp only [scatter16, wordIdx_col]
  rfl

/-! ### fill_block = G -/

theorem xorBlock_comm (a b : Block) : xorBlock a b = xorBlock b a := by
  ext i hi
  simp [xorBlock, UInt64.xor_comm]

theorem xorBlock_assoc (a b c : Block) : xorBlock (xorBlock a b) c = xorBlock a (xorBlock b c) := by
  ext i hi
  simp [xorBlock, UInt64.xor_assoc]

theorem bitxor_eq (a b : Block) : Block.bitxor_assign a b = xorBlock a b := rfl

theorem rows_cols_eq (R : Block) :
    (List.finRange 8).foldl fill_block_col ((List.finRange 8).foldl fill_block_row R) =
      (List.finRange 8).foldl (fun B i => applyP B (colReg i)) ((List.finRange 8).foldl (fun B i => applyP B (rowReg i)) R) := by
  have h1 : fill_block_row = fun B i => applyP B (rowReg i) := by funext B i; exact row_eq B i
  have h2 : fill_block_col = fun B i => applyP B (colReg i) := by funext B i; exact col_eq B i
  rw [h1, h2]

/-- `fill_block(prev, ref, next, false)` = `G(prev, ref)` -/
theorem fill_block_eq_G (prev ref next : Block) : fill_block prev ref next false = G prev ref := by
  unfold fill_block G
  simp only [bitxor_eq, Bool.false_eq_true, if_false]
  rw [rows_cols_eq, xorBlock_comm ref prev, xorBlock_comm]

/-- `fill_block(prev, ref, next, true)` = `G(prev, ref) xor next` -/
theorem fill_block_xor_eq_G (prev ref next : Block) : fill_block prev ref next true = xorBlock (G prev ref) next := by
  unfold fill_block G
  simp only [bitxor_eq, if_true]
  rw [rows_cols_eq, xorBlock_comm ref prev, xorBlock_assoc, xorBlock_comm next, ← xorBlock_assoc, xorBlock_comm (xorBlock prev ref)]

end Cx.Proofs.Argon2
