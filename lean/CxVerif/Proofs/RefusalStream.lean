/-
  Proofs.RefusalStream — C20 refusal matrix, stream ciphers (src/chacha20.rs, src/salsa20.rs, src/drg/chacha.rs):
  the constructors refuse exactly the arguments outside the documented domain, `process` refuses exactly an output
  buffer of another length; `seek` / `process_mut` have no refusal.

  Documented domains (quoted):
    chacha20.rs  ChaCha::new          "* The key must be 16 or 32 bytes  * The nonce must be 12 bytes", `nonce: &[u8; 12]`
                 struct doc           "only the value of 8, 12 and 20 are supported. any other values triggers a runtime assertion."
                 ChaChaOriginal::new  "* The key must be 16 or 32 bytes  * The nonce must be 8 bytes", `nonce: &[u8; 8]`
                 XChaCha::new         "Key must be 32 bytes and the nonce 24 bytes." `key: &[u8; 32], nonce: &[u8; 24]`
                 process              "the output need to be the same size as the input otherwise this function will panic."
    salsa20.rs   Salsa::new           "* The key must be 16 or 32 bytes  * The nonce must be 8 bytes", `nonce: &[u8; 8]`
                 XSalsa::new          "Key must be 32 bytes and the nonce 24 bytes."
    drg/chacha.rs Drg                 "only the value 8, 12 and 20 are valid", `seed: &[u8; 32]`
  A length fixed by an array type cannot be passed at all (the model answers "bad-args" there: not a run-time
  behaviour); every other violation is the run-time `assert!` = "PANIC".
-/
import CxVerif.Proofs.StreamEngine
import CxVerif.Proofs.StreamSalsa
import CxVerif.Impl.Drg
namespace Cx.Proofs.Refusal
open Cx Cx.Impl Cx.Impl.StreamCtx Cx.Proofs.Stream Cx.Proofs.ChaCha
set_option linter.unusedSimpArgs false
set_option linter.unusedVariables false

/-! ### the documented domains -/

/-- "only the value of 8, 12 and 20 are supported" -/
def ValidRounds (R : Nat) : Prop := R = 8 ∨ R = 12 ∨ R = 20
/-- "The key must be 16 or 32 bytes" -/
def ValidKey1632 (key : Bytes) : Prop := key.length = 16 ∨ key.length = 32

/-- `ChaCha::<R>::new(key: &[u8], nonce: &[u8; 12])` -/
def ValidChaChaNew (R : Nat) (key nonce : Bytes) : Prop := ValidKey1632 key ∧ nonce.length = 12 ∧ ValidRounds R
/-- `ChaChaOriginal::<R>::new(key: &[u8], nonce: &[u8; 8])`, `Salsa::<R>::new(key: &[u8], nonce: &[u8; 8])` -/
def ValidNew8 (R : Nat) (key nonce : Bytes) : Prop := ValidKey1632 key ∧ nonce.length = 8 ∧ ValidRounds R
/-- `XChaCha::<R>::new(key: &[u8; 32], nonce: &[u8; 24])`, `XSalsa::<R>::new(…)` -/
def ValidNewX (R : Nat) (key nonce : Bytes) : Prop := key.length = 32 ∧ nonce.length = 24 ∧ ValidRounds R
/-- `Drg::<R>::new(seed: &[u8; 32])` -/
def ValidDrgNew (R : Nat) (seed : Bytes) : Prop := seed.length = 32 ∧ ValidRounds R

instance (R : Nat) : Decidable (ValidRounds R) := by unfold ValidRounds; infer_instance
instance (k : Bytes) : Decidable (ValidKey1632 k) := by unfold ValidKey1632; infer_instance
instance (R : Nat) (k n : Bytes) : Decidable (ValidChaChaNew R k n) := by unfold ValidChaChaNew; infer_instance
instance (R : Nat) (k n : Bytes) : Decidable (ValidNew8 R k n) := by unfold ValidNew8; infer_instance
instance (R : Nat) (k n : Bytes) : Decidable (ValidNewX R k n) := by unfold ValidNewX; infer_instance
instance (R : Nat) (s : Bytes) : Decidable (ValidDrgNew R s) := by unfold ValidDrgNew; infer_instance

theorem roundsOk_iff (R : Nat) : ChaCha.roundsOk R = true ↔ ValidRounds R := by
  simp [ChaCha.roundsOk, ValidRounds, Bool.or_eq_true, beq_iff_eq, or_assoc]
theorem salsa_roundsOk_iff (R : Nat) : Salsa.roundsOk R = true ↔ ValidRounds R := by
  simp [Salsa.roundsOk, ValidRounds, Bool.or_eq_true, beq_iff_eq, or_assoc]

/-- `x` is a refusal: the constructor / method returned no value -/
def Refused {α : Type} (x : Except String α) : Prop := ∃ e, x = .error e

theorem refused_ok {α : Type} (a : α) : ¬ Refused (Except.ok a : Except String α) := by
  rintro ⟨e, h⟩; cases h
theorem refused_error {α : Type} (e : String) : Refused (Except.error e : Except String α) := ⟨e, rfl⟩

variable {σ : Type} {E : ChaCha.Engine σ} {α : σ → W16}

/-! ### ChaCha (IETF) -/

theorem chacha_new_ok (S : EngineSim E α) (R : Nat) (key nonce : Bytes) (h : ValidChaChaNew R key nonce) :
    ∃ c, ChaCha.ChaCha.new E R key nonce = .ok c := by
  obtain ⟨s0, e, _⟩ := chacha_new S R key nonce h.1 h.2.1 h.2.2
  exact ⟨_, e⟩

theorem chacha_new_refused_iff (S : EngineSim E α) (R : Nat) (key nonce : Bytes) :
    Refused (ChaCha.ChaCha.new E R key nonce) ↔ ¬ ValidChaChaNew R key nonce := by
  constructor
  · rintro ⟨e, he⟩ hv
    obtain ⟨c, hc⟩ := chacha_new_ok S R key nonce hv
    rw [hc] at he; cases he
  · intro hv
    unfold ChaCha.ChaCha.new
    split
    · exact refused_error _
    · split
      · exact refused_error _
      · split
        · exact refused_error _
        · rename_i h1 h2 h3
          exfalso; apply hv
          exact ⟨Decidable.not_not.mp h2, by simpa using h1, (roundsOk_iff R).mp (by simpa using h3)⟩

/-- the nonce length being fixed by the type `&[u8; 12]`, every refusal a caller can provoke is the run-time panic -/
theorem chacha_new_panic_iff (S : EngineSim E α) (R : Nat) (key nonce : Bytes) (hn : nonce.length = 12) :
    ChaCha.ChaCha.new E R key nonce = .error "PANIC" ↔ ¬ (ValidKey1632 key ∧ ValidRounds R) := by
  constructor
  · intro he hv
    obtain ⟨c, hc⟩ := chacha_new_ok S R key nonce ⟨hv.1, hn, hv.2⟩
    rw [hc] at he; cases he
  · intro hv
    unfold ChaCha.ChaCha.new
    rw [if_neg (by simp [hn])]
    split
    · rfl
    · split
      · rfl
      · rename_i h2 h3
        exfalso; apply hv
        exact ⟨Decidable.not_not.mp h2, (roundsOk_iff R).mp (by simpa using h3)⟩

/-! ### ChaChaOriginal -/

theorem chachaorig_new_ok (S : EngineSim E α) (R : Nat) (key nonce : Bytes) (h : ValidNew8 R key nonce) :
    ∃ c, ChaCha.ChaChaOriginal.new E R key nonce = .ok c := by
  obtain ⟨s0, e, _⟩ := chachaorig_new S R key nonce h.1 h.2.1 h.2.2
  exact ⟨_, e⟩

theorem chachaorig_new_refused_iff (S : EngineSim E α) (R : Nat) (key nonce : Bytes) :
    Refused (ChaCha.ChaChaOriginal.new E R key nonce) ↔ ¬ ValidNew8 R key nonce := by
  constructor
  · rintro ⟨e, he⟩ hv
    obtain ⟨c, hc⟩ := chachaorig_new_ok S R key nonce hv
    rw [hc] at he; cases he
  · intro hv
    unfold ChaCha.ChaChaOriginal.new
    split
    · exact refused_error _
    · split
      · exact refused_error _
      · split
        · exact refused_error _
        · rename_i h1 h2 h3
          exfalso; apply hv
          exact ⟨Decidable.not_not.mp h2, by simpa using h1, (roundsOk_iff R).mp (by simpa using h3)⟩

theorem chachaorig_new_panic_iff (S : EngineSim E α) (R : Nat) (key nonce : Bytes) (hn : nonce.length = 8) :
    ChaCha.ChaChaOriginal.new E R key nonce = .error "PANIC" ↔ ¬ (ValidKey1632 key ∧ ValidRounds R) := by
  constructor
  · intro he hv
    obtain ⟨c, hc⟩ := chachaorig_new_ok S R key nonce ⟨hv.1, hn, hv.2⟩
    rw [hc] at he; cases he
  · intro hv
    unfold ChaCha.ChaChaOriginal.new
    rw [if_neg (by simp [hn])]
    split
    · rfl
    · split
      · rfl
      · rename_i h2 h3
        exfalso; apply hv
        exact ⟨Decidable.not_not.mp h2, (roundsOk_iff R).mp (by simpa using h3)⟩

/-! ### XChaCha -/

theorem xchacha_new_ok (S : EngineSim E α) (R : Nat) (key nonce : Bytes) (h : ValidNewX R key nonce) :
    ∃ c, ChaCha.XChaCha.new E R key nonce = .ok c := by
  obtain ⟨s0, e, _⟩ := xchacha_new S R key nonce h.1 h.2.1 h.2.2
  exact ⟨_, e⟩

theorem xchacha_new_refused_iff (S : EngineSim E α) (R : Nat) (key nonce : Bytes) :
    Refused (ChaCha.XChaCha.new E R key nonce) ↔ ¬ ValidNewX R key nonce := by
  constructor
  · rintro ⟨e, he⟩ hv
    obtain ⟨c, hc⟩ := xchacha_new_ok S R key nonce hv
    rw [hc] at he; cases he
  · intro hv
    by_cases h1 : key.length ≠ 32 ∨ nonce.length ≠ 24
    · unfold ChaCha.XChaCha.new; rw [if_pos h1]; exact refused_error _
    · by_cases h2 : ChaCha.roundsOk R = true
      · exfalso; apply hv
        have h1' : key.length = 32 ∧ nonce.length = 24 := by omega
        exact ⟨h1'.1, h1'.2, (roundsOk_iff R).mp h2⟩
      · unfold ChaCha.XChaCha.new; rw [if_neg h1, if_pos (by simpa using h2)]; exact refused_error _

/-- key and nonce lengths are fixed by the types: the only run-time refusal is the round count -/
theorem xchacha_new_panic_iff (S : EngineSim E α) (R : Nat) (key nonce : Bytes) (hk : key.length = 32)
    (hn : nonce.length = 24) : ChaCha.XChaCha.new E R key nonce = .error "PANIC" ↔ ¬ ValidRounds R := by
  constructor
  · intro he hv
    obtain ⟨c, hc⟩ := xchacha_new_ok S R key nonce ⟨hk, hn, hv⟩
    rw [hc] at he; cases he
  · intro hv
    have : ¬ ChaCha.roundsOk R = true := fun h => hv ((roundsOk_iff R).mp h)
    unfold ChaCha.XChaCha.new
    rw [if_neg (by omega), if_pos (by simpa using this)]

/-! ### Salsa / XSalsa -/

theorem salsa_new_ok (R : Nat) (key nonce : Bytes) (h : ValidNew8 R key nonce) :
    ∃ c, Salsa.Salsa.new R key nonce = .ok c := by
  obtain ⟨s0, e, _⟩ := Cx.Proofs.Salsa.salsa_new R key nonce h.1 h.2.1 h.2.2
  exact ⟨_, e⟩

theorem salsa_new_refused_iff (R : Nat) (key nonce : Bytes) :
    Refused (Salsa.Salsa.new R key nonce) ↔ ¬ ValidNew8 R key nonce := by
  constructor
  · rintro ⟨e, he⟩ hv
    obtain ⟨c, hc⟩ := salsa_new_ok R key nonce hv
    rw [hc] at he; cases he
  · intro hv
    unfold Salsa.Salsa.new
    split
    · exact refused_error _
    · split
      · exact refused_error _
      · split
        · exact refused_error _
        · rename_i h1 h2 h3
          exfalso; apply hv
          exact ⟨Decidable.not_not.mp h2, by simpa using h1, (salsa_roundsOk_iff R).mp (by simpa using h3)⟩

theorem salsa_new_panic_iff (R : Nat) (key nonce : Bytes) (hn : nonce.length = 8) :
    Salsa.Salsa.new R key nonce = .error "PANIC" ↔ ¬ (ValidKey1632 key ∧ ValidRounds R) := by
  constructor
  · intro he hv
    obtain ⟨c, hc⟩ := salsa_new_ok R key nonce ⟨hv.1, hn, hv.2⟩
    rw [hc] at he; cases he
  · intro hv
    unfold Salsa.Salsa.new
    rw [if_neg (by simp [hn])]
    split
    · rfl
    · split
      · rfl
      · rename_i h2 h3
        exfalso; apply hv
        exact ⟨Decidable.not_not.mp h2, (salsa_roundsOk_iff R).mp (by simpa using h3)⟩

theorem xsalsa_new_ok (R : Nat) (key nonce : Bytes) (h : ValidNewX R key nonce) :
    ∃ c, Salsa.XSalsa.new R key nonce = .ok c := by
  obtain ⟨s0, e, _⟩ := Cx.Proofs.Salsa.xsalsa_new R key nonce h.1 h.2.1 h.2.2
  exact ⟨_, e⟩

theorem xsalsa_new_refused_iff (R : Nat) (key nonce : Bytes) :
    Refused (Salsa.XSalsa.new R key nonce) ↔ ¬ ValidNewX R key nonce := by
  constructor
  · rintro ⟨e, he⟩ hv
    obtain ⟨c, hc⟩ := xsalsa_new_ok R key nonce hv
    rw [hc] at he; cases he
  · intro hv
    by_cases h1 : key.length ≠ 32 ∨ nonce.length ≠ 24
    · unfold Salsa.XSalsa.new; rw [if_pos h1]; exact refused_error _
    · by_cases h2 : Salsa.roundsOk R = true
      · exfalso; apply hv
        have h1' : key.length = 32 ∧ nonce.length = 24 := by omega
        exact ⟨h1'.1, h1'.2, (salsa_roundsOk_iff R).mp h2⟩
      · unfold Salsa.XSalsa.new; rw [if_neg h1, if_pos (by simpa using h2)]; exact refused_error _

theorem xsalsa_new_panic_iff (R : Nat) (key nonce : Bytes) (hk : key.length = 32) (hn : nonce.length = 24) :
    Salsa.XSalsa.new R key nonce = .error "PANIC" ↔ ¬ ValidRounds R := by
  constructor
  · intro he hv
    obtain ⟨c, hc⟩ := xsalsa_new_ok R key nonce ⟨hk, hn, hv⟩
    rw [hc] at he; cases he
  · intro hv
    have : ¬ Salsa.roundsOk R = true := fun h => hv ((salsa_roundsOk_iff R).mp h)
    unfold Salsa.XSalsa.new
    rw [if_neg (by omega), if_pos (by simpa using this)]

/-! ### Drg -/

theorem drg_new_ok (S : EngineSim E α) (R : Nat) (seed : Bytes) (h : ValidDrgNew R seed) :
    ∃ c, Drg.new E R seed = .ok c := by
  unfold Drg.new
  rw [if_neg (by simp [h.1])]
  exact chacha_new_ok S R seed (zeros 12) ⟨Or.inr h.1, by simp [zeros], h.2⟩

theorem drg_new_panic_iff (S : EngineSim E α) (R : Nat) (seed : Bytes) (hs : seed.length = 32) :
    Drg.new E R seed = .error "PANIC" ↔ ¬ ValidRounds R := by
  unfold Drg.new
  rw [if_neg (by simp [hs]), chacha_new_panic_iff S R seed (zeros 12) (by simp [zeros])]
  simp [ValidKey1632, hs]

/-! ### `process` / `process_mut` / `seek` on a reachable context -/

/-- `process(input, output)`: "the output need to be the same size as the input otherwise this function will panic";
    on every reachable context (`Abs`: the invariant every context built by `new` and moved by the methods satisfies,
    Props/C04) the call is refused iff the lengths differ — and then by the assertion, before anything is written -/
theorem process_panic_iff {g : BlockGen σ} {mk : Nat → σ} {KS : Nat → Bytes} (Rf : Refines g mk KS)
    (c : Ctx σ) (p : Nat) (h : Abs mk KS c p) (input : Bytes) (n : Nat) :
    process g c input n = .error "PANIC" ↔ input.length ≠ n := by
  constructor
  · intro he hn
    subst hn
    obtain ⟨c', hc, _⟩ := process_refines Rf c p input h
    rw [hc] at he; cases he
  · intro hn
    unfold process; rw [if_neg hn]

theorem process_ok {g : BlockGen σ} {mk : Nat → σ} {KS : Nat → Bytes} (Rf : Refines g mk KS)
    (c : Ctx σ) (p : Nat) (h : Abs mk KS c p) (input : Bytes) :
    ∃ c' out, process g c input input.length = .ok (c', out) ∧ Abs mk KS c' (p + input.length) := by
  obtain ⟨c', hc, ha⟩ := process_refines Rf c p input h
  exact ⟨c', _, hc, ha⟩

/-- `process_mut` has no invalid argument: it never refuses on a reachable context -/
theorem process_mut_ok {g : BlockGen σ} {mk : Nat → σ} {KS : Nat → Bytes} (Rf : Refines g mk KS)
    (c : Ctx σ) (p : Nat) (h : Abs mk KS c p) (data : Bytes) :
    ∃ c' out, process_mut g c data = .ok (c', out) ∧ Abs mk KS c' (p + data.length) := by
  obtain ⟨c', hc, ha⟩ := process_mut_refines Rf c p data h
  exact ⟨c', _, hc, ha⟩

/-- `seek(position: u32)`: every `u32` is a legal block number (the model is a total function, no `Except`);
    the context afterwards is again a reachable one, standing at byte `64 · position` -/
theorem seek_total {τ : Type} (mk : Nat → σ) (KS : Nat → Bytes) (setCounter : σ → τ → σ) (toBlock : τ → Nat)
    (hset : ∀ n t, setCounter (mk n) t = mk (toBlock t)) (c : Ctx σ) (p : Nat) (t : τ) (h : Abs mk KS c p) :
    Abs mk KS (seek setCounter c t) (64 * toBlock t) :=
  seek_abs mk KS setCounter toBlock hset c p t h

end Cx.Proofs.Refusal
