/-
  Proofs.Fe32Tables — the constants of fe32/mod.rs and the precomputed tables of fe32/precomp.rs (re-extracted:
  Extracted/B32.lean, Extracted/B32Tables.lean) against the 64-bit backend's constants / tables and the Spec.
  Kernel evaluation over the COMPLETE tables (all 256 + 8 entries × 3 field elements, `decide +kernel`): both sides
  are converted limbs → residue mod p and compared; the limb bounds of every 32-bit entry are part of the check.
  The Spec-side statement (entry = the stated multiple of B) then follows from the 64-bit table theorem
  `Proofs.Ge.GE_BASE_entry` / `BI_entry` (which evaluated the 264 scalar multiplications).
-/
import CxVerif.Proofs.Fe32Basic
import CxVerif.Proofs.GeTables
import CxVerif.Proofs.Fe64Pred
import CxVerif.Extracted.B32Tables
namespace Cx.Proofs.Fe32
open Cx Cx.Impl.Fe32
open Cx.Spec
open Cx.Spec.Field25519 (p)

/-- `struct GePrecomp { y_plus_x, y_minus_x, xy2d }` of the 32-bit backend -/
structure Pre32 where
  y_plus_x : Fe
  y_minus_x : Fe
  xy2d : Fe
  deriving DecidableEq, Repr

def Pre32.ofLimbs : List (List Int) → Pre32
  | [a, b, c] => ⟨Fe.ofList a, Fe.ofList b, Fe.ofList c⟩
  | _ => ⟨Fe.ofList [], Fe.ofList [], Fe.ofList []⟩

/-- `pub(crate) const GE_BASE: [[GePrecomp; 8]; 32]` of fe32/precomp.rs -/
def GE_BASE32 : List (List Pre32) := Extracted.B32Tables.GE_BASE.map (·.map Pre32.ofLimbs)
/-- `pub(crate) const BI: [GePrecomp; 8]` of fe32/precomp.rs -/
def BI32 : List Pre32 := Extracted.B32Tables.BI.map Pre32.ofLimbs

/-- what a 32-bit table entry denotes -/
def Pre32.vals (e : Pre32) : Nat × Nat × Nat := (eval e.y_plus_x, eval e.y_minus_x, eval e.xy2d)
/-- every limb of the entry inside the reduced range `W 1` (so it may feed `Mul` directly) -/
def Pre32.red (e : Pre32) : Bool := decide (W 1 e.y_plus_x) && decide (W 1 e.y_minus_x) && decide (W 1 e.xy2d)

/-- entry `[i][j]` of both GE_BASE tables exists, the 32-bit limbs are reduced, and both denote the same triple -/
def geBaseAgree : Bool :=
  GE_BASE32.length == 32 && Impl.Ge.GE_BASE.length == 32 &&
  (List.range 32).all fun i => (List.range 8).all fun j =>
    match GE_BASE32[i]?.bind (·[j]?), Impl.Ge.GE_BASE[i]?.bind (·[j]?) with
    | some a, some b => a.red && (a.vals == Proofs.Ge.precompVals b)
    | _, _ => false

def biAgree : Bool :=
  BI32.length == 8 &&
  (List.range 8).all fun k =>
    match BI32[k]?, Impl.Ge.BI[k]? with
    | some a, some b => a.red && (a.vals == Proofs.Ge.precompVals b)
    | _, _ => false

set_option maxRecDepth 1000000 in
theorem geBaseAgree_true : geBaseAgree = true := by decide +kernel
set_option maxRecDepth 1000000 in
theorem biAgree_true : biAgree = true := by decide +kernel

/-- TABLE EQUIVALENCE, GE_BASE: for all i < 32, j < 8 the 32-bit and the 64-bit entry exist and denote the same
    `(y+x, y−x, 2dxy)` modulo p; the 32-bit limbs are inside `W 1` -/
theorem GE_BASE_agree (i j : Nat) (hi : i < 32) (hj : j < 8) :
    ∃ a b, GE_BASE32[i]?.bind (·[j]?) = some a ∧ Impl.Ge.GE_BASE[i]?.bind (·[j]?) = some b ∧
      a.red = true ∧ a.vals = Proofs.Ge.precompVals b := by
  have h := geBaseAgree_true
  simp only [geBaseAgree, Bool.and_eq_true, List.all_eq_true, List.mem_range] at h
  have := h.2 i hi j hj
  cases ha : GE_BASE32[i]?.bind (·[j]?) with
  | none => rw [ha] at this; exact absurd this (by simp)
  | some a =>
    cases hb : Impl.Ge.GE_BASE[i]?.bind (·[j]?) with
    | none => rw [ha, hb] at this; exact absurd this (by simp)
    | some b =>
      rw [ha, hb] at this
      simp only [Bool.and_eq_true, beq_iff_eq] at this
      exact ⟨a, b, rfl, rfl, this.1, this.2⟩

theorem BI_agree (k : Nat) (hk : k < 8) :
    ∃ a b, BI32[k]? = some a ∧ Impl.Ge.BI[k]? = some b ∧ a.red = true ∧ a.vals = Proofs.Ge.precompVals b := by
  have h := biAgree_true
  simp only [biAgree, Bool.and_eq_true, List.all_eq_true, List.mem_range] at h
  have := h.2 k hk
  cases ha : BI32[k]? with
  | none => rw [ha] at this; exact absurd this (by simp)
  | some a =>
    cases hb : Impl.Ge.BI[k]? with
    | none => rw [ha, hb] at this; exact absurd this (by simp)
    | some b =>
      rw [ha, hb] at this
      simp only [Bool.and_eq_true, beq_iff_eq] at this
      exact ⟨a, b, rfl, rfl, this.1, this.2⟩

/-- hence: every 32-bit `GE_BASE[i][j]` is `(y+x, y−x, 2dxy)` of `[(j+1)·256^i]B` -/
theorem GE_BASE32_entry (i j : Nat) (hi : i < 32) (hj : j < 8) :
    ∃ a, GE_BASE32[i]?.bind (·[j]?) = some a ∧ a.red = true ∧
      a.vals = Edwards.precomp (Edwards.smul ((j + 1) * 256 ^ i) Edwards.B) := by
  obtain ⟨a, b, ha, hb, hr, hv⟩ := GE_BASE_agree i j hi hj
  obtain ⟨row, e, hrow, he, _, hval⟩ := Proofs.Ge.GE_BASE_entry i j hi hj
  rw [hrow] at hb
  simp only [Option.bind_some] at hb
  rw [he] at hb
  cases hb
  exact ⟨a, ha, hr, by rw [hv, hval]⟩

/-- every 32-bit `BI[k]` is `(y+x, y−x, 2dxy)` of `[2k+1]B` -/
theorem BI32_entry (k : Nat) (hk : k < 8) :
    ∃ a, BI32[k]? = some a ∧ a.red = true ∧ a.vals = Edwards.precomp (Edwards.smul (2 * k + 1) Edwards.B) := by
  obtain ⟨a, b, ha, hb, hr, hv⟩ := BI_agree k hk
  obtain ⟨e, he, _, hval⟩ := Proofs.Ge.BI_entry k hk
  rw [he] at hb
  cases hb
  exact ⟨a, ha, hr, by rw [hv, hval]⟩

/-! ### field constants -/

/-- the five constants of both backends denote the same residues (kernel-evaluated on the re-extracted limbs) -/
theorem consts_agree :
    eval Fe.ZERO = Proofs.Fe64.eval Impl.Fe64.Fe.ZERO ∧ eval Fe.ONE = Proofs.Fe64.eval Impl.Fe64.Fe.ONE ∧
    eval Fe.SQRTM1 = Proofs.Fe64.eval Impl.Fe64.Fe.SQRTM1 ∧ eval Fe.D = Proofs.Fe64.eval Impl.Fe64.Fe.D ∧
    eval Fe.D2 = Proofs.Fe64.eval Impl.Fe64.Fe.D2 := by decide +kernel

theorem consts_red : W 1 Fe.ZERO ∧ W 1 Fe.ONE ∧ W 1 Fe.SQRTM1 ∧ W 1 Fe.D ∧ W 1 Fe.D2 := by decide +kernel

theorem ZERO_spec : W 1 Fe.ZERO ∧ eval Fe.ZERO = 0 := ⟨consts_red.1, by rw [consts_agree.1, Proofs.Fe64.ZERO_spec.2]⟩
theorem ONE_spec : W 1 Fe.ONE ∧ eval Fe.ONE = 1 := ⟨consts_red.2.1, by rw [consts_agree.2.1, Proofs.Fe64.ONE_spec.2]⟩
theorem SQRTM1_spec : W 1 Fe.SQRTM1 ∧ eval Fe.SQRTM1 = Field25519.sqrtM1 :=
  ⟨consts_red.2.2.1, by rw [consts_agree.2.2.1, Proofs.Fe64.SQRTM1_spec.2]⟩
theorem D_spec : W 1 Fe.D ∧ eval Fe.D = Field25519.edwardsD :=
  ⟨consts_red.2.2.2.1, by rw [consts_agree.2.2.2.1, Proofs.Fe64.D_spec.2]⟩
theorem D2_spec : W 1 Fe.D2 ∧ eval Fe.D2 = Field25519.edwardsD2 :=
  ⟨consts_red.2.2.2.2, by rw [consts_agree.2.2.2.2, Proofs.Fe64.D2_spec.2]⟩

end Cx.Proofs.Fe32
