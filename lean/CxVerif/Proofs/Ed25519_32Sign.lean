/-
  Proofs.Ed25519_32Sign — key generation and signing of ed25519.rs on the 32-BIT backends (Impl/Ed25519_32.lean) equal
  RFC 8032 §5.1.5/§5.1.6 (Spec/Ed25519.lean).  Counterpart of Proofs/Ed25519Sign.lean; the backend-independent part of
  that file (SHA-512 composition, clamping, `extended_secret`, little-endian lemmas) is reused.  The scalar layer enters
  through the theorems of unit sc32 (`Scalar = [u8; 32]`: `from_bytes` is the identity, `reduce_from_wide_bytes` and
  `muladd` are proved for ALL inputs in Proofs/Scalar32Reduce.lean / Scalar32Muladd.lean, `nibbles` in
  Proofs/Scalar32Digits.lean) — no limb invariant is needed on this side.
-/
import CxVerif.Proofs.Ge32Comb
import CxVerif.Proofs.Ge32Bytes
import CxVerif.Proofs.Ed25519Sign
import CxVerif.Proofs.Scalar32Reduce
import CxVerif.Proofs.Scalar32Muladd
import CxVerif.Impl.Ed25519_32
namespace Cx.Proofs.Ed25519_32Sign
open Cx Cx.Spec Cx.Impl.Ge32 Cx.Impl.Ed25519_32 Cx.Proofs.EdSpec Cx.Proofs.Ge32Refine Cx.Proofs.Ge32Comb
  Cx.Proofs.Ed25519Sha
open Cx.Proofs.Fe32 (some_bind pure_eq_some)
open Cx.Impl.Scalar32 (Scalar)
open Cx.Impl.Ed25519 (sha512_1 sha512_2 sha512_3 clamp_scalar extended_secret keypair_private keypair_public
  extended_scalar_bytes)
open Cx.Proofs.GeComb (GroupLawFact)
open Cx.Proofs.Ed25519Sign (extended_secret_eq expandSeed_length expandSeed_take expandSeed_drop sha512_length
  clamp_length clamp_lt encode_length leNat_lt)
open Cx.Spec.Field25519 (p)
open Cx.Spec.ScalarL (L)

set_option maxRecDepth 10000

/-! ### the scalar layer (unit sc32) in the shapes used below -/

/-- the number a 32-bit-backend scalar denotes: its 32 bytes, little-endian -/
def sval (s : Scalar) : Nat := leNat s.toList

theorem toArr_some (n : Nat) (b : Bytes) (h : b.length = n) :
    ∃ v : Vector UInt8 n, Impl.Scalar32.toArr n b = some v ∧ v.toList = b := by
  unfold Impl.Scalar32.toArr
  rw [dif_pos h]
  exact ⟨_, rfl, by simp [Vector.toList]⟩

/-- `Scalar::from_bytes` keeps the bytes -/
theorem fromBytes_ok (b : Bytes) (hb : b.length = 32) :
    ∃ s, Impl.Scalar32.fromBytes b = some s ∧ s.toList = b ∧ sval s = leNat b := by
  obtain ⟨v, hv, hl⟩ := toArr_some 32 b hb
  refine ⟨v, ?_, hl, by unfold sval; rw [hl]⟩
  unfold Impl.Scalar32.fromBytes; rw [hv]; rfl

theorem L_lt : L < 256 ^ 32 := by decide +kernel

/-- `Scalar::reduce_from_wide_bytes`: no panic, value `le(h) mod L` -/
theorem reduceWide_ok (h : Bytes) (hh : h.length = 64) :
    ∃ s, reduceWide h = some s ∧ sval s = leNat h % L := by
  obtain ⟨v, hv, hl⟩ := toArr_some 64 h hh
  have hs := Proofs.Scalar32.reduce_from_wide_bytes_spec v
  unfold reduceWide Impl.Scalar32.reduceFromWideBytes
  rw [hv]
  simp -implicitDefEqProofs only [Option.map_some, Option.bind_some, id_eq]
  cases hr : Impl.Scalar32.reduce_from_wide_bytes v with
  | none => rw [hr, Option.map_none] at hs; cases hs
  | some s =>
    rw [hr] at hs
    simp only [Option.map_some, Option.some.injEq] at hs
    refine ⟨s, rfl, ?_⟩
    unfold sval
    unfold Impl.Scalar32.to_bytes at hs
    rw [hs, hl]
    unfold Spec.ScalarL.reduceWide Spec.ScalarL.encode Spec.ScalarL.decode
    rw [Proofs.Fe64.leNat_natToLE]
    exact Nat.mod_eq_of_lt (Nat.lt_trans (Nat.mod_lt _ (by decide +kernel)) L_lt)

/-- `scalar::muladd`: no panic, the bytes of `(a·b + c) mod L`, for ALL operands -/
theorem muladd_ok (a b c : Scalar) :
    ∃ o, Impl.Scalar32.muladd a b c = some o ∧
      Impl.Scalar32.to_bytes o = natToLE 32 ((sval a * sval b + sval c) % L) := by
  have hs := Proofs.Scalar32.muladd_spec a b c
  cases hr : Impl.Scalar32.muladd a b c with
  | none => rw [hr, Option.map_none] at hs; cases hs
  | some o =>
    rw [hr] at hs
    simp only [Option.map_some, Option.some.injEq] at hs
    exact ⟨o, rfl, hs⟩

section main
variable [hp : Fact (Nat.Prime p)] [hG : GroupLawFact]

/-- `scalarmult_base` then `to_bytes` = `encode([le(s)]B)` for `le(s) < 2^255` -/
theorem base_mul_scalar (s : Scalar) (hlt : sval s < 2 ^ 255) :
    ∃ g, Ge.scalarmult_base s = some g ∧ GeOk g (Edwards.smul (sval s) Edwards.B) ∧
      g.to_bytes = some (Edwards.encode (Edwards.smul (sval s) Edwards.B)) := by
  have hn := nibblesOf s hlt
  obtain ⟨g, eg, ok⟩ := scalarmult_base_ok s (sval s) hn
  have hc : OnCurve (Edwards.smul (sval s) Edwards.B) := smul_onCurve hG.out _ _ Proofs.Ge.B_spec.1
  obtain ⟨hx, hy, _⟩ := (onCurve_iff _).1 hc
  exact ⟨g, eg, ok, Proofs.Ge32Bytes.ge_to_bytes_ok g _ ok hx hy⟩

/-- `Scalar::from_bytes` then `scalarmult_base` then `to_bytes` = `encode([le(b)]B)` for `le(b) < 2^255` -/
theorem base_mul_bytes (b : Bytes) (hb : b.length = 32) (hlt : leNat b < 2 ^ 255) :
    ∃ s g, Impl.Scalar32.fromBytes b = some s ∧ sval s = leNat b ∧ Ge.scalarmult_base s = some g ∧
      g.to_bytes = some (Edwards.encode (Edwards.smul (leNat b) Edwards.B)) := by
  obtain ⟨s, e, _, v⟩ := fromBytes_ok b hb
  obtain ⟨g, eg, _, eb⟩ := base_mul_scalar s (by rw [v]; exact hlt)
  rw [v] at eb
  exact ⟨s, g, e, v, eg, eb⟩

/-- `extended_to_public` -/
theorem extended_to_public_eq (ext : Bytes) (hl : ext.length = 64) (hlt : leNat (ext.take 32) < 2 ^ 255) :
    extended_to_public ext = some (Spec.Ed25519.extendedToPublic ext) := by
  obtain ⟨s, g, e, _, eg, eb⟩ := base_mul_bytes (ext.take 32) (by simp [hl]) hlt
  simp only [extended_to_public, extended_scalar]
  rw [if_pos hl, e, some_bind, eg, some_bind]
  exact eb

/-- `keypair` = RFC 8032 §5.1.5 in the crate's layout `(seed ‖ A, A)` -/
theorem keypair_eq (seed : Bytes) (hs : seed.length = 32) : keypair seed = some (Spec.Ed25519.keypair seed) := by
  have hpub := extended_to_public_eq (Spec.Ed25519.expandSeed seed) (expandSeed_length seed)
    (by rw [expandSeed_take]; exact clamp_lt _ (by unfold Spec.Ed25519.H; simp [sha512_length]))
  unfold keypair
  rw [extended_secret_eq seed hs, some_bind, hpub, some_bind, pure_eq_some]
  have hpk : Spec.Ed25519.extendedToPublic (Spec.Ed25519.expandSeed seed) = Spec.Ed25519.publicKey seed := by
    unfold Spec.Ed25519.extendedToPublic Spec.Ed25519.publicKey Spec.Ed25519.secretScalar
    rw [expandSeed_take]
  rw [hpk]
  unfold Spec.Ed25519.keypair
  have ht : (seed ++ (Spec.Ed25519.expandSeed seed).drop 32).take 32 = seed := by
    rw [List.take_append_of_le_length (by omega), List.take_of_length_le (by omega)]
  rw [ht]

omit hp hG in
/-- `signature_nonce`: `r = H(prefix ‖ M) mod L` -/
theorem signature_nonce_eq (ext msg : Bytes) (hl : ext.length = 64) (hm : msg.length < 2 ^ 124) :
    ∃ s, signature_nonce ext msg = some s ∧ sval s = leNat (Spec.Ed25519.H (ext.drop 32 ++ msg)) % L := by
  unfold signature_nonce
  rw [if_pos hl, sha512_2_eq _ _ (by simp [hl]; omega), some_bind]
  exact reduceWide_ok _ (sha512_length _)

/-- the statements shared by `signature` and `signature_extended` = RFC 8032 §5.1.6 steps 3–6 -/
theorem signature_tail_eq (msg pk az pre : Bytes) (nonce : Scalar) (hm : msg.length < 2 ^ 124)
    (hpk : pk.length = 32) (haz : az.length = 64)
    (hval : sval nonce = leNat (Spec.Ed25519.H (pre ++ msg)) % L) :
    signature_tail msg pk az nonce = some (Spec.Ed25519.signWith (leNat (az.take 32)) pre pk msg) := by
  have hL : L < 2 ^ 255 := by decide +kernel
  have hLpos : 0 < L := by decide +kernel
  have hrL : sval nonce < L := by rw [hval]; exact Nat.mod_lt _ hLpos
  obtain ⟨g, eg, _, eb⟩ := base_mul_scalar nonce (by omega)
  unfold signature_tail
  rw [eg, some_bind, eb, some_bind]
  dsimp only
  rw [sha512_2_eq _ _ (by simp [encode_length, hpk]; omega), some_bind]
  obtain ⟨k, ek, kval⟩ := reduceWide_ok _ (sha512_length (Edwards.encode (Edwards.smul (sval nonce) Edwards.B) ++ pk ++ msg))
  rw [ek, some_bind]
  obtain ⟨a, ea, _, aval⟩ := fromBytes_ok (az.take 32) (by simp [haz])
  have hes : extended_scalar az = some a := by unfold extended_scalar; rw [if_pos haz]; exact ea
  rw [hes, some_bind]
  obtain ⟨o, eo, oval⟩ := muladd_ok k a nonce
  rw [eo, some_bind, pure_eq_some, oval, kval, aval]
  unfold Spec.Ed25519.signWith Spec.Ed25519.L
  dsimp only
  rw [← hval]
  unfold Spec.Ed25519.H
  rw [List.take_append_of_le_length (by rw [encode_length]), List.take_of_length_le (by rw [encode_length])]
  rw [Nat.add_comm (sval nonce)]

/-- `signature_extended(M, a ‖ prefix)` for `a < 2^255` -/
theorem signature_extended_eq (msg ext : Bytes) (hl : ext.length = 64) (hlt : leNat (ext.take 32) < 2 ^ 255)
    (hm : msg.length < 2 ^ 124) :
    signature_extended msg ext = some (Spec.Ed25519.signExtended ext msg) := by
  obtain ⟨n, en, nval⟩ := signature_nonce_eq ext msg hl hm
  unfold signature_extended
  rw [extended_to_public_eq ext hl hlt, some_bind, en, some_bind]
  rw [signature_tail_eq msg (Spec.Ed25519.extendedToPublic ext) ext (ext.drop 32) n hm
    (by unfold Spec.Ed25519.extendedToPublic; exact encode_length _) hl nval]
  rfl

/-- `signature(M, seed ‖ pk)`: the public half of the keypair is used as given -/
theorem signature_eq (msg seed pk : Bytes) (hs : seed.length = 32) (hpk : pk.length = 32)
    (hm : msg.length < 2 ^ 124) :
    signature msg (seed ++ pk) = some (Spec.Ed25519.signWith (Spec.Ed25519.secretScalar seed)
      (Spec.Ed25519.noncePrefix seed) pk msg) := by
  have hkl : (seed ++ pk).length = 64 := by simp [hs, hpk]
  obtain ⟨n, en, nval⟩ := signature_nonce_eq (Spec.Ed25519.expandSeed seed) msg (expandSeed_length seed) hm
  unfold signature keypair_private keypair_public
  rw [if_pos hkl, some_bind, if_pos hkl, some_bind]
  rw [List.take_append_of_le_length (by omega), List.take_of_length_le (by omega),
    List.drop_append_of_le_length (by omega), List.drop_of_length_le (by omega), List.nil_append,
    List.take_of_length_le (by omega)]
  rw [extended_secret_eq seed hs, some_bind, en, some_bind]
  rw [expandSeed_drop] at nval
  rw [signature_tail_eq msg pk _ (Spec.Ed25519.noncePrefix seed) n hm hpk (expandSeed_length seed) nval,
    expandSeed_take]
  rfl

end main

end Cx.Proofs.Ed25519_32Sign
