/-
  Proofs.KeccakTactic — `kernel_rfl`: closes `a = b` with the term `Eq.refl a` WITHOUT running the elaborator's
  definitional-equality check; the check is done by the Lean kernel when the theorem is added (exactly what
  `decide +kernel` does for `Decidable` goals, here for goals with free lane variables).  The elaborator's `rfl`
  times out on the 25-lane symbolic evaluation of a Keccak round (call-by-name `whnf` without sharing), the
  kernel needs ~1 s.  No axiom is involved: a wrong use is rejected by the kernel ("declaration type mismatch").
-/
import Lean.Elab.Tactic
namespace Cx.Proofs.Keccak
open Lean Elab Tactic Meta in
elab "kernel_rfl" : tactic => do
  let g ← getMainGoal
  let t ← instantiateMVars (← g.getType)
  let some (_, lhs, _) := t.eq? | throwError "kernel_rfl: the goal is not an equality"
  g.assign (← mkEqRefl lhs)
end Cx.Proofs.Keccak
