/-
  Proofs.GlueArgon2Segment — helper lemmas for the translator tie of src/kdf/argon2.rs (Props/C11/GlueTieArgon2.lean):
  `next_addresses` and `fill_segment` (prologue, the block loop with the address refresh) of Extracted/GlueArgon2.lean against
  Impl/Argon2.lean.  The source-level loop carries `position` (its `index` field is assigned in every iteration); the model
  passes the segment's position and sets `index` locally.  Core Lean only.
-/
import CxVerif.Proofs.GlueArgon2Params
namespace Cx.Proofs.GlueArgon2
open Cx Cx.Impl.Argon2 Cx.Extracted.GlueArgon2
open Cx.Spec.Argon2 (Block)

theorem next_addresses_src_eq (address_block input_block zero_block : Block) :
    next_addresses_src address_block input_block zero_block = next_addresses address_block input_block zero_block := by
  simp only [next_addresses_src, next_addresses, add64]
  generalize input_block[6] = x
  have hx := x.toNat_lt
  by_cases hm : x = 0xffffffffffffffff
  · subst hm; simp
  · have : x.toNat ≠ 18446744073709551615 := fun h => hm (UInt64.toNat_inj.mp h)
    have hlt : x.toNat + 1 < 2 ^ 64 := by omega
    have he : UInt64.ofNat (x.toNat + 1) = x + 1 := by
      rw [UInt64.ofNat_add, UInt64.ofNat_toNat]; rfl
    simp only [hlt, if_true, hm, if_false, he]

theorem beq_decide (a b : Nat) : (a == b) = decide (a = b) := by
  by_cases h : a = b
  · subst h; simp
  · simp [h]

theorem with_xor_eq (v p : Nat) : (!(decide (v = 16) || decide (p = 0))) = decide (¬ (v = 16 ∨ p = 0)) := by
  simp

syntax "opt_step " term : tactic
macro_rules
  | `(tactic| opt_step $t) => `(tactic| (generalize $t = o__; rcases o__ with _ | _; · rfl))

set_option hygiene false in
macro "seg_tail2" : tactic => `(tactic| (
  opt_step (index_alpha params _ _ _)
  try dsimp only
  opt_step (mul64 params.lane_length _)
  try dsimp only [Option.bind_some]
  opt_step (add64 _ _)
  try dsimp only
  opt_step (mem.blocks[co]?)
  try dsimp only
  try (opt_step (mem.blocks[po']?))
  try dsimp only
  opt_step (mem.blocks[(_ : Nat)]?)
  try dsimp only
  opt_step (mem.set_block_index co _)
  try dsimp only
  opt_step (add32 co 1)
  try dsimp only
  opt_step (add32 po' 1)
  rfl))

set_option hygiene false in
macro "seg_tail" : tactic => `(tactic| (
  by_cases hps : pos0.pass = 0 ∧ pos0.slice = 0
  · rw [if_pos hps]
    try dsimp only
    seg_tail2
  · rw [if_neg hps]
    opt_step (remU (pr >>> 32).toNat params.parallelism)
    try dsimp only
    seg_tail2))

theorem fill_segment_step (params : Params) (pos0 position : BlockPos) (dia : Bool) (zb : Block) (i : Nat) (rest : List Nat) (mem : Memory) (ib ab : Block) (co po : Nat)
   (h1 : position.pass = pos0.pass) (h2 : position.lane = pos0.lane) (h3 : position.slice = pos0.slice) :
   fill_segment_loop1_src params dia zb (i :: rest) position mem ib ab co po =
     match fill_segment_body params pos0 dia zb ⟨mem, ib, ab, co, po⟩ i with
     | none => none
     | some st => fill_segment_loop1_src params dia zb rest { position with index := i } st.memory st.input_block st.address_block st.curr_offset st.prev_offset := by
  simp only [fill_segment_loop1_src, fill_segment_body, fill_segment_body.rotate, fill_segment_body.pseudo_rand, fill_segment_body.ref_lane, fill_segment_body.new_block, Memory.stride_src, Memory.stride, next_addresses_src_eq, h1, h2, h3, Memory.block_index_src, Memory.block_index, Memory.block_index64_src, Memory.block_index64, mut_block_index_set_src_eq, beq_decide, with_xor_eq]
  opt_step (remU co mem.lane_length)
  rename_i t11
  dsimp only
  opt_step (if t11 = 1 then subU co 1 else some po)
  rename_i po'
  dsimp only
  cases dia with
  | false =>
    simp only [Bool.false_eq_true, if_false]
    opt_step (mem.blocks[po']?)
    rename_i b
    dsimp only
    generalize b[0] = pr
    seg_tail
  | true =>
    simp only [if_true]
    by_cases hi : i % 128 = 0
    · simp only [hi, if_true]
      opt_step (next_addresses ab ib zb)
      rename_i r
      obtain ⟨ab', ib'⟩ := r
      dsimp only
      rw [show ab'[0]? = some ab'[0] from by simp]
      dsimp only
      generalize ab'[0] = pr
      seg_tail
    · simp only [hi, if_false]
      rw [show ab[i % 128]? = some (ab[i % 128]'(Nat.mod_lt _ (by omega))) from by simp]
      dsimp only
      generalize ab[i % 128]'(Nat.mod_lt _ (by omega)) = pr
      seg_tail

theorem fill_segment_loop1_eq (params : Params) (pos0 : BlockPos) (dia : Bool) (zb : Block) : ∀ (is : List Nat) (position : BlockPos) (mem : Memory)
    (ib ab : Block) (co po : Nat), position.pass = pos0.pass → position.lane = pos0.lane → position.slice = pos0.slice →
    (fill_segment_loop1_src params dia zb is position mem ib ab co po).map (fun r => r.2.1)
      = (fill_segment_loop params pos0 dia zb is ⟨mem, ib, ab, co, po⟩).map (fun st => st.memory) := by
  intro is
  induction is with
  | nil => intro position mem ib ab co po _ _ _; rfl
  | cons i rest ih =>
    intro position mem ib ab co po h1 h2 h3
    rw [fill_segment_step params pos0 position dia zb i rest mem ib ab co po h1 h2 h3]
    simp only [fill_segment_loop]
    cases fill_segment_body params pos0 dia zb ⟨mem, ib, ab, co, po⟩ i with
    | none => rfl
    | some st => exact ih _ _ _ _ _ _ h1 h2 h3

theorem seg_finish (x : Option (BlockPos × Memory × Block × Block × Nat × Nat)) (y : Option SegState) :
    x.map (fun r => r.2.1) = y.map (fun st => st.memory) →
    (match x with
      | none => none
      | some (_, memory, _, _, _, _) => some memory) = y.bind fun st => some st.memory := by
  intro h
  cases x with
  | none => cases y with
    | none => rfl
    | some _ => cases h
  | some r => cases y with
    | none => cases h
    | some st =>
      obtain ⟨a, m, c⟩ := r
      simp only [Option.map_some, Option.some.injEq] at h
      simp [h]

theorem type_beq (t u : Type') : (t == u) = decide (t = u) := rfl

theorem dia_eq (params : Params) (position : BlockPos) :
    decide ((params.hash_type = Type'.Argon2i) ∨ (((params.hash_type = Type'.Argon2id) ∧ (position.pass = 0)) ∧ (position.slice < 2)))
      = data_independent_addressing params position := by
  simp only [data_independent_addressing, SYNC_POINTS, beq_decide, type_beq]
  cases params.hash_type <;> simp <;> rfl

syntax "bind_step " term : tactic
macro_rules
  | `(tactic| bind_step $t) => `(tactic| (generalize $t = o__; rcases o__ with _ | _; (· rfl); try dsimp only [Option.bind_some]))

set_option hygiene false in
macro "seg_suffix" : tactic => `(tactic| (
  bind_step (mul32 position.lane memory.lane_length)
  bind_step (mul32 position.slice params.segment_length)
  bind_step (add32 _ _)
  bind_step (add32 _ _)
  rename_i co
  bind_step (remU co memory.lane_length)
  rename_i t5
  by_cases h0 : t5 = 0
  · simp only [h0, if_true]
    bind_step (add32 co memory.lane_length)
    bind_step (subU _ 1)
    exact seg_finish _ _ (fill_segment_loop1_eq params position _ zb _ position memory _ _ _ _ rfl rfl rfl)
  · simp only [h0, if_false]
    bind_step (subU co 1)
    exact seg_finish _ _ (fill_segment_loop1_eq params position _ zb _ position memory _ _ _ _ rfl rfl rfl)))

theorem fill_segment_src_eq (params : Params) (position : BlockPos) (memory : Memory) :
    fill_segment_src params position memory = fill_segment params position memory := by
  simp only [fill_segment_src, fill_segment, dia_eq, Option.bind_eq_bind, Option.pure_def, Block.new_src, Block.new, next_addresses_src_eq, Memory.stride_src, Memory.stride]
  generalize data_independent_addressing params position = dia
  generalize (Vector.replicate 128 (0 : UInt64)) = zb
  generalize (if dia = true then _ else zb) = ib
  by_cases hps : position.pass = 0 ∧ position.slice = 0
  · rw [if_pos hps, if_pos hps]
    cases dia with
    | false =>
      simp only [Bool.false_eq_true, if_false]
      dsimp only [Option.bind_some]
      seg_suffix
    | true =>
      simp only [if_true]
      bind_step (next_addresses zb ib zb)
      seg_suffix
  · rw [if_neg hps, if_neg hps]
    dsimp only [Option.bind_some]
    seg_suffix

end Cx.Proofs.GlueArgon2
