/-
  Proofs.KdfScryptMF — the top level of src/scrypt.rs: `scrypt` (Impl.Kdf) = scrypt of RFC 7914 §6 (= MFcrypt with
  PBKDF2-HMAC-SHA256 and scryptROMix): PBKDF2 (c = 1) to p·128·r bytes, ROMix on every 128·r-byte chunk (the scratch
  buffers `v`, `t` reused from chunk to chunk), PBKDF2 (c = 1) again with the SAME `Hmac` object (which the first
  `pbkdf2` call leaves reset).  Uses the generic PBKDF2 theorem (Proofs.KdfPbkdf2) over the HMAC-SHA256 object.
-/
import CxVerif.Proofs.KdfScryptMix
import CxVerif.Proofs.KdfScrypt
import CxVerif.Proofs.KdfPbkdf2
import CxVerif.Proofs.MacInst
import CxVerif.Proofs.MacHmac
namespace Cx.Proofs.KdfScryptMF
open Cx Cx.Impl.Digest Cx.Impl.Hmac Cx.Impl.Kdf Cx.Proofs.MacObj Cx.Proofs.MacHmac Cx.Proofs.MacLegacy
open Cx.Proofs.KdfPbkdf2 Cx.Proofs.KdfScryptMix

/-! ### PBKDF2 once more, keeping the MAC object -/

section
variable {μ : Type} (M : MacModel μ) {L : Nat} {sizes : List Nat} {fk : Bytes → Option Fn} {ok : Fn → Bytes → Prop}
  {Rel : μ → Fn → Bytes → Prop} {Fin : μ → Fn → Prop}

theorem flatMap_F_length (f : Fn) (salt : Bytes) (c L : Nat) (hF : ∀ i, (Spec.Kdf.F f salt c i).length = L) (n : Nat) :
    ((List.range n).flatMap fun i => Spec.Kdf.F f salt c (i + 1)).length = n * L := by
  induction n with
  | zero => simp
  | succ n ih => rw [List.range_succ, List.flatMap_append, List.length_append, ih]; simp [hF, Nat.succ_mul]

theorem ceilDiv_mul_ge (a b : Nat) (hb : 0 < b) : a ≤ Spec.Kdf.ceilDiv a b * b := by
  unfold Spec.Kdf.ceilDiv
  have h1 := Nat.div_add_mod (a + b - 1) b
  have h2 := Nat.mod_lt (a + b - 1) hb
  rw [Nat.mul_comm] at h1
  generalize (a + b - 1) / b * b = q at h1 ⊢
  omega

/-- inside the length limit `pbkdf2` succeeds, returns the derived key of RFC 8018 (exactly dkLen bytes) and leaves
    the MAC object reset (ready for the next call, as `scrypt` uses it) -/
theorem pbkdf2_some (hM : Contract (macFam M) L sizes fk ok Rel Fin) (hL : 0 < L) (prf : Bytes → Bytes → Bytes)
    (P salt : Bytes) (hS : ∀ i, ok (prf P) (salt ++ natToBE 4 i)) (hU : ∀ u : Bytes, u.length = L → ok (prf P) u)
    (mac : μ) (hr : Rel mac (prf P) []) (c dkLen : Nat) (hc : 0 < c) (hlen : dkLen ≤ (2 ^ 32 - 1) * L) :
    ∃ mac' out, pbkdf2 M mac salt c dkLen = some (mac', out) ∧ Rel mac' (prf P) [] ∧
      Spec.Kdf.pbkdf2 prf L P salt c dkLen = some out ∧ out.length = dkLen := by
  have hob : M.output_bytes mac = L := hM.out_rel mac _ _ hr
  have hF : ∀ i, (Spec.Kdf.F (prf P) salt c i).length = L := by
    intro i
    obtain ⟨_, _, _, _, _, h⟩ := calculate_block_spec M hM (prf P) salt hS hU c i hc mac (zeros L) hr (by simp [zeros])
    exact h
  have hcnt := chunkLens_length L dkLen hL
  have hlt : Spec.Kdf.ceilDiv dkLen L < 2 ^ 32 := by
    unfold Spec.Kdf.ceilDiv
    rw [Nat.div_lt_iff_lt_mul hL]
    have : (2 ^ 32 - 1) * L + L = 2 ^ 32 * L := by rw [← Nat.succ_mul]
    omega
  obtain ⟨mac', e, hr'⟩ := pbkdf2_loop_spec M hM (prf P) salt hS hU c hc (chunkLens L dkLen) mac (zeros L) 0 [] hr
    (by simp [zeros]) (chunkLens_le L dkLen hL) (by rw [hcnt]; omega)
  refine ⟨mac', blocksFor (prf P) salt c 0 (chunkLens L dkLen), ?_, hr', ?_, ?_⟩
  · simp only [pbkdf2, hc, not_true_eq_false, if_false, hob, Nat.ne_of_gt hL, e, List.nil_append]
  · have h1 : ¬ c = 0 := by omega
    have h2 : ¬ dkLen > (2 ^ 32 - 1) * L := by omega
    simp only [Spec.Kdf.pbkdf2, h1, h2, if_false, blocksFor_chunkLens (prf P) salt c L hL hF]
  · rw [blocksFor_chunkLens (prf P) salt c L hL hF, List.length_take, flatMap_F_length _ _ _ _ hF]
    have := ceilDiv_mul_ge dkLen L hL
    omega

end

/-! ### the HMAC-SHA256 object of `scrypt` -/

open Cx.Props.C02.Sha2 Cx.Proofs.MacInst

theorem keyBlock_length (key : Bytes) : (Spec.Hmac.keyBlock Spec.Sha2.sha256 64 key).length = 64 := by
  simp only [Spec.Hmac.keyBlock]
  split
  · simp [zeros]; omega
  · simp [zeros, sha256_length]

theorem ikey_length (key : Bytes) : (ikey Spec.Sha2.sha256 64 key).length = 64 := by
  simp [ikey, Spec.Hmac.xorPad, keyBlock_length]
theorem okey_length (key : Bytes) : (okey Spec.Sha2.sha256 64 key).length = 64 := by
  simp [okey, Spec.Hmac.xorPad, keyBlock_length]

/-- HMAC-SHA256 results are inside SHA-256's domain whenever the message is shorter than 2^61 − 64 bytes -/
theorem okH_of_length (key m : Bytes) (f : Fn) (h : m.length + 64 < 2 ^ 61) :
    okH Spec.Sha2.sha256 64 key (fun _ x => ok256 x) f m := by
  constructor
  · show (ikey Spec.Sha2.sha256 64 key ++ m).length < 2 ^ 61
    rw [List.length_append, ikey_length]; omega
  · show (okey Spec.Sha2.sha256 64 key ++ Spec.Sha2.sha256 _).length < 2 ^ 61
    rw [List.length_append, okey_length, sha256_length]; omega

abbrev RelM (P : Bytes) := RelH Spec.Sha2.sha256 64 P (RelL Spec.Sha2.sha256 (fun (c : Impl.Sha2.Ctx256) m =>
  Cx.Proofs.Sha2Engine.Abs256 Impl.Sha2.Sha256.state c.engine m))

/-! ### the chunk loop of `scrypt` -/

/-- `for chunk in b.chunks_mut(r128) { scrypt_ro_mix(chunk, &mut v, &mut t, n) }`: ROMix on every chunk; the scratch
    buffers are reused (their contents do not matter, only their shapes, which every call preserves) -/
theorem scrypt_chunks_eq (r : Nat) (hr : 0 < r) (k : Nat) (hk : k ≤ 32) : ∀ (blocks : List Bytes) (v : List Bytes)
    (t acc : Bytes), (∀ c ∈ blocks, c.length = 128 * r) → v.length = 2 ^ k → (∀ c ∈ v, c.length = 128 * r) →
    t.length = 128 * r →
    scrypt_chunks (2 ^ k) blocks v t acc = some (acc ++ (blocks.map (Spec.Kdf.roMix r (2 ^ k))).flatten) := by
  intro blocks
  induction blocks with
  | nil => intro v t acc _ _ _ _; simp [scrypt_chunks]
  | cons b blocks ih =>
    intro v t acc hb hv hvl ht
    obtain ⟨t', e, ht'⟩ := scrypt_ro_mix_eq r hr k hk b v t (hb b (by simp)) hv hvl ht
    simp only [scrypt_chunks, e]
    rw [ih _ t' _ (fun c h => hb c (by simp [h])) (Spec.Kdf.iterates_length ..)
      (iterates_mem_length r _ b (hb b (by simp))) ht']
    simp [List.append_assoc]

/-! ### `ScryptParams::new` returns the triple it was given -/

theorem new_val (log_n r p : Nat) (x : ScryptParams) (h : ScryptParams.new log_n r p = some x) :
    x = { log_n := log_n, r := r, p := p } := by
  unfold ScryptParams.new checked_mul at h
  repeat' split at h
  all_goals first | (cases h; done) | skip
  all_goals (simp only at h; split at h)
  all_goals first | (cases h; done) | (cases h; rfl)

theorem new_eq (log_n r p : Nat) :
    ScryptParams.new log_n r p
      = if (ScryptParams.new log_n r p).isSome then some { log_n := log_n, r := r, p := p } else none := by
  cases h : ScryptParams.new log_n r p with
  | none => rfl
  | some x => simp [new_val log_n r p x h]

/-! ### scrypt -/

/-- **`scrypt` = RFC 7914 §6** for N = 2^log_n with log_n ≤ 32 and a scratch vector that fits the address space
    (128·r·N < 2^64); password and salt inside SHA-256's domain.  Both sides are `Option`s: the value for valid
    (N, r, p, dkLen), the refusal (panic) otherwise. -/
theorem scrypt_eq (P S : Bytes) (log_n r p dkLen : Nat) (hlog : log_n ≤ 32) (hmem : 128 * r * 2 ^ log_n < 2 ^ 64)
    (hP : P.length < 2 ^ 61) (hS : S.length + 68 < 2 ^ 61) :
    (ScryptParams.new log_n r p).bind (fun params => scrypt P S params dkLen)
      = Spec.Kdf.scrypt P S (2 ^ log_n) r p dkLen := by
  have hnew := Cx.Proofs.KdfScrypt.new_iff log_n r p
  have hval := Cx.Proofs.KdfScrypt.valid_iff log_n r p dkLen
  by_cases hacc : (ScryptParams.new log_n r p).isSome
  · -- accepted parameters
    obtain ⟨hr, hp, hl0, hl64, hr128, hnr, hpr, hl16, hrp⟩ := hnew.mp hacc
    rw [new_eq, if_pos hacc, Option.bind_some]
    have hrp' : p * (r * 128) ≤ (2 ^ 32 - 1) * 32 := by
      have : p * (r * 128) = 128 * (r * p) := by rw [Nat.mul_comm r 128, Nat.mul_left_comm, Nat.mul_comm p r]
      rw [this]; generalize r * p = x at hrp; omega
    have hvalid : Spec.Kdf.scryptValid (2 ^ log_n) r p dkLen = true ↔ (0 < dkLen ∧ dkLen ≤ (2 ^ 32 - 1) * 32) := by
      rw [hval]
      constructor
      · rintro ⟨_, _, _, _, _, a, b⟩; exact ⟨a, b⟩
      · rintro ⟨a, b⟩; exact ⟨hl0, hr, by omega, hp, hrp, a, b⟩
    by_cases hd0 : dkLen > 0
    · by_cases hd1 : dkLen / 32 ≤ 0xffffffff
      · -- the HMAC-SHA256 object
        have hD := legacy_contract sha256Ctx Spec.Sha2.sha256 _ sha256_ctx
        rw [show sizesOf sha256Ctx = [32, sha256Ctx.OUTPUT_BITS, 64] by decide,
          show outBytes sha256Ctx = 32 by decide] at hD
        obtain ⟨mac, emac, hrel⟩ := hmac_new (legacyDigest sha256Ctx) Spec.Sha2.sha256 64 P (RelL _ _) (FinL _ _) hD
          (by decide) (Legacy.new sha256Ctx) (legacy_new sha256Ctx _ _ sha256_ctx) (Or.inr hP)
        have hM := hmac_contract (legacyDigest sha256Ctx) Spec.Sha2.sha256 64 P (RelL _ _) (FinL _ _) hD
        have hU : ∀ u : Bytes, u.length = 32 →
            okH Spec.Sha2.sha256 64 P (fun _ x => ok256 x) (Spec.Hmac.hmac Spec.Sha2.sha256 64 P) u :=
          fun u hu => okH_of_length P u _ (by omega)
        -- first PBKDF2
        obtain ⟨mac1, b, e1, hrel1, es1, hbl⟩ := pbkdf2_some (hmacMac (legacyDigest sha256Ctx)) hM (by decide)
          (Spec.Hmac.hmac Spec.Sha2.sha256 64) P S
          (fun i => okH_of_length P _ _ (by rw [List.length_append, natToBE_length]; omega)) hU mac hrel 1
          (p * (r * 128)) (by decide) hrp'
        -- ROMix on the p chunks
        have hr128' : ¬ r * 128 = 0 := by omega
        have hq1 : 2 ^ log_n * (r * 128) / (r * 128) = 2 ^ log_n := Nat.mul_div_cancel _ (by omega)
        have hq2 : p * (r * 128) / (r * 128) = p := Nat.mul_div_cancel _ (by omega)
        have e128 : r * 128 = 128 * r := Nat.mul_comm ..
        have hblocks : ∀ c ∈ takeBlocks (r * 128) p b, c.length = 128 * r := by
          intro c hc
          rw [← e128]
          exact takeBlocks_mem_length (r * 128) p b (by rw [hbl, Nat.mul_comm]; exact Nat.le_refl _) c hc
        have ech := scrypt_chunks_eq r hr log_n hlog (takeBlocks (r * 128) p b)
          (List.replicate (2 ^ log_n) (zeros (r * 128))) (zeros (r * 128)) [] hblocks (by simp)
          (by intro c hc; rw [List.eq_of_mem_replicate hc]; simp [zeros, e128]) (by simp [zeros, e128])
        -- second PBKDF2, with the object the first one left
        have hsl : ((takeBlocks (r * 128) p b).map (Spec.Kdf.roMix r (2 ^ log_n))).flatten.length ≤ 2 ^ 38 := by
          have : ∀ (l : List Bytes), (∀ c ∈ l, c.length = 128 * r) →
              (l.map (Spec.Kdf.roMix r (2 ^ log_n))).flatten.length = l.length * (128 * r) := by
            intro l
            induction l with
            | nil => intro _; simp
            | cons a l ih =>
              intro h
              simp only [List.map_cons, List.flatten_cons, List.length_append, List.length_cons]
              rw [ih (fun c hc => h c (by simp [hc])), roMix_length r _ a (h a (by simp)),
                Nat.succ_mul l.length (128 * r), Nat.add_comm]
          rw [this _ hblocks, takeBlocks_length, ← e128]
          omega
        have e2 := pbkdf2_spec (hmacMac (legacyDigest sha256Ctx)) hM (by decide : 0 < 32)
          (Spec.Hmac.hmac Spec.Sha2.sha256 64) P
          ((takeBlocks (r * 128) p b).map (Spec.Kdf.roMix r (2 ^ log_n))).flatten
          (fun i => okH_of_length P _ _ (by rw [List.length_append, natToBE_length]; omega)) hU mac1 hrel1 1 dkLen
        have hd0' : ¬ ¬ dkLen > 0 := by omega
        have hd1' : ¬ ¬ dkLen / 32 ≤ 0xffffffff := by omega
        simp only [scrypt, hd0', hd1', if_false, sha256Digest, emac, e1, Nat.one_shiftLeft, hq1, hq2, hr128', ech,
          List.nil_append, e2]
        -- the Spec side
        by_cases hd2 : dkLen ≤ (2 ^ 32 - 1) * 32
        · have hv : Spec.Kdf.scryptValid (2 ^ log_n) r p dkLen = true := hvalid.mpr ⟨hd0, hd2⟩
          simp only [Spec.Kdf.scrypt, hv, if_true, ← e128, Spec.Kdf.hmacSha256, es1]
        · have hv : ¬ Spec.Kdf.scryptValid (2 ^ log_n) r p dkLen = true := fun h => hd2 (hvalid.mp h).2
          have h1 : dkLen > (2 ^ 32 - 1) * 32 := by omega
          simp [Spec.Kdf.scrypt, hv, Spec.Kdf.pbkdf2, h1]
      · have hv : ¬ Spec.Kdf.scryptValid (2 ^ log_n) r p dkLen = true := fun h => hd1 (by have := (hvalid.mp h).2; omega)
        simp [scrypt, hd0, hd1, Spec.Kdf.scrypt, hv]
    · have hv : ¬ Spec.Kdf.scryptValid (2 ^ log_n) r p dkLen = true := fun h => hd0 (hvalid.mp h).1
      simp [scrypt, hd0, Spec.Kdf.scrypt, hv]
  · -- refused parameters: the RFC refuses them too (given log_n ≤ 32 and the address-space guard)
    have hnone : ScryptParams.new log_n r p = none := by
      cases h : ScryptParams.new log_n r p with
      | none => rfl
      | some x => rw [h] at hacc; exact absurd rfl hacc
    have hv : ¬ Spec.Kdf.scryptValid (2 ^ log_n) r p dkLen = true := by
      intro h
      obtain ⟨h1, h2, h3, h4, h5, _, _⟩ := hval.mp h
      apply hacc
      rw [hnew]
      have e1 : r * 128 * 2 ^ log_n = 128 * r * 2 ^ log_n := by rw [Nat.mul_comm r 128]
      have hpos : 0 < 2 ^ log_n := Nat.two_pow_pos _
      have hle : r * 128 ≤ r * 128 * 2 ^ log_n := Nat.le_mul_of_pos_right _ hpos
      have hrle : r ≤ r * p := Nat.le_mul_of_pos_right _ h4
      have e2 : r * 128 * p = 128 * (r * p) := by rw [Nat.mul_comm r 128, Nat.mul_assoc]
      refine ⟨h2, h4, h1, by omega, by omega, by omega, ?_, by omega, h5⟩
      rw [e2]; generalize r * p = y at h5; omega
    rw [hnone]
    simp [Spec.Kdf.scrypt, hv]

end Cx.Proofs.KdfScryptMF
