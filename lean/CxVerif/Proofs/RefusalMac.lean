/-
  Proofs.RefusalMac — C20 refusal matrix, MAC and legacy digest OBJECTS (src/poly1305.rs, src/hmac.rs, src/digest.rs,
  the `digest!` wrappers of src/sha1.rs / sha2.rs / sha3.rs / ripemd160.rs, src/blake2b.rs / blake2s.rs).

  Asserted / documented domains (quoted):
    poly1305.rs  new(key: &[u8; 32])            the key length is a type
                 input                           `assert!(!self.finalized);`
                 raw_result(output)              `assert!(output.len() >= 16);`   (16 bytes are written, the rest is left)
                 result / second result          no refusal: the second result returns the same tag (C09)
    hmac.rs      input                           `assert!(!self.finished);`
                 raw_result(output)              no assert of its own: `self.digest.result(output)` refuses
    sha2.rs &c.  input / result                  `assert!(!self.computed, "context is already finalized, needs reset");`
                 result(slice)                   `slice.copy_from_slice(&self.ctx.finalize_reset())`  (equal lengths or panic)
    digest.rs    trait doc of `result`           "This method may be called multiple times."  "out - the vector to hold the
                                                 result. Must be large enough to contain output_bits()."
                 — the implementations are STRICTER than this trait documentation: see `digest_doc_*` below.
    blake2b.rs   new(outlen) / new_keyed         `assert!(key.len() <= 64)`; ContextDyn: `output_bytes > 0 && output_bytes <= MAX_OUTLEN`,
                                                 `key.len() <= MAX_KEYLEN`
                 reset_with_key(key)             `assert!(key.len() <= Engine::MAX_KEYLEN)`
                 update / finalize(slice)        `assert!(!self.computed, …)`, `assert!(out.len() == self.outlen)`
-/
import CxVerif.Proofs.Poly1305Object
import CxVerif.Proofs.MacHmac
import CxVerif.Proofs.MacLegacy
import CxVerif.Proofs.MacBlake2
namespace Cx.Proofs.Refusal
open Cx
set_option linter.unusedSimpArgs false
set_option linter.unusedVariables false

/-! ## Poly1305 -/
section poly
open Cx.Impl.Poly1305 Cx.Proofs.Poly1305

/-- the calls the code defines as valid on an object whose abstract state is "a result has been taken: `fin`" -/
def ValidPolyOp (fin : Bool) : Op → Prop
  | .input _ => fin = false
  | .rawResult n => 16 ≤ n
  | .result => True
  | .reset => True

instance (fin : Bool) (op : Op) : Decidable (ValidPolyOp fin op) := by
  cases op <;> unfold ValidPolyOp <;> infer_instance

theorem absStep_refuses_iff (key : Bytes) (a : Abs) (op : Op) :
    (∃ e, absStep key a op = .error e) ↔ ¬ ValidPolyOp a.fin op := by
  cases op with
  | input d =>
    cases hf : a.fin <;> simp [absStep, ValidPolyOp, hf]
  | result => simp [absStep, ValidPolyOp]
  | rawResult n =>
    by_cases hn : n < 16
    · simp [absStep, ValidPolyOp, hn]
    · simp [absStep, ValidPolyOp, hn]
  | reset => simp [absStep, ValidPolyOp]

/-- every call on a reachable Poly1305 object (`Sim`: `new key` and every successor, Props/C09) is refused iff it is
    outside `ValidPolyOp` -/
theorem poly1305_refused_iff (key : Bytes) (st : State) (a : Abs) (op : Op) (h : Sim key st a) :
    (∃ e, stepOp .repaired st op = .error e) ↔ ¬ ValidPolyOp a.fin op := by
  rw [← absStep_refuses_iff key a op]
  have s := step_sim key st a op h
  cases ha : absStep key a op with
  | error e =>
    rw [ha] at s
    exact ⟨fun _ => ⟨e, rfl⟩, fun _ => ⟨e, s⟩⟩
  | ok r =>
    rw [ha] at s
    obtain ⟨st', e, _⟩ := s
    constructor
    · rintro ⟨e', he'⟩; rw [e] at he'; cases he'
    · rintro ⟨e', he'⟩; cases he'

/-- … and the refusal is the failed `assert!` (not an index or arithmetic panic, nothing has been written) -/
theorem poly1305_refusal_is_assertion (key : Bytes) (st : State) (a : Abs) (op : Op) (h : Sim key st a)
    (hv : ¬ ValidPolyOp a.fin op) : stepOp .repaired st op = .error .assertion := by
  have s := step_sim key st a op h
  cases op with
  | input d =>
    have hf : a.fin = true := by simpa [ValidPolyOp] using hv
    simpa [absStep, hf] using s
  | result => exact absurd trivial hv
  | rawResult n =>
    have hn : n < 16 := by simpa [ValidPolyOp] using hv
    simpa [absStep, hn] using s
  | reset => exact absurd trivial hv

theorem poly1305_valid_ok (key : Bytes) (st : State) (a : Abs) (op : Op) (h : Sim key st a)
    (hv : ValidPolyOp a.fin op) : ∃ st' out, stepOp .repaired st op = .ok (st', out) := by
  cases hs : stepOp .repaired st op with
  | ok r => exact ⟨r.1, r.2, rfl⟩
  | error e => exact absurd hv ((poly1305_refused_iff key st a op h).mp ⟨e, hs⟩)

/-- the state after a result is the one in which `input` is refused -/
theorem poly1305_input_after_result (key : Bytes) (st : State) (a : Abs) (h : Sim key st a) (n : Nat) (hn : 16 ≤ n) :
    ∃ st' t, stepOp .repaired st (.rawResult n) = .ok (st', some t) ∧
      (∀ d, stepOp .repaired st' (.input d) = .error .assertion) ∧
      stepOp .repaired st' .result = .ok (st', some t) := by
  have s := step_sim key st a (.rawResult n) h
  have hn' : ¬ n < 16 := by omega
  simp only [absStep, hn', if_false] at s
  obtain ⟨st', e, hs'⟩ := s
  refine ⟨st', _, e, fun d => ?_, ?_⟩
  · exact poly1305_refusal_is_assertion key st' _ (.input d) hs' (by simp [ValidPolyOp])
  · have s2 := step_sim key st' _ .result hs'
    simp only [absStep] at s2
    obtain ⟨st'', e2, _⟩ := s2
    -- the second result leaves the state unchanged (already finalized): read it off the model
    have hfin : Finished key st' a.msg := by simpa [Sim] using hs'
    simp only [stepOp, result, raw_result_finished .repaired key st' a.msg 16 (Nat.le_refl _) hfin]

end poly

/-! ## objects that satisfy the abstract-object contract (legacy digests, HMAC, keyed BLAKE2) -/
section obj
open Cx.Impl.Digest Cx.Proofs.MacObj Cx.Spec.MacObj

/-- one call of the `Digest` / `Mac` interface -/
inductive Call where
  | input (b : Bytes)
  | result
  | rawResult (n : Nat)
  | reset
  | resetWithKey (k : Bytes)

/-- run one call; `none` = the code panics; the second component is the emitted value, if any -/
def runCall {σ : Type} (F : ObjFam σ) (s : σ) : Call → Option (σ × Option Bytes)
  | .input b => (F.input s b).map fun s' => (s', none)
  | .result => (F.result s).map fun r => (r.1, some r.2)
  | .rawResult n => (F.raw_result s n).map fun r => (r.1, some r.2)
  | .reset => (F.reset s).map fun s' => (s', none)
  | .resetWithKey k => (F.reset_with_key s k).map fun s' => (s', none)

/-- the calls the implementations accept on an object that reports `outLen` bytes and whose abstract state is
    `finished` (a result has been taken since the last reset); `keyOk` = the admissible keys of `reset_with_key`
    (`fun _ => False`: the type has no such method) -/
def ValidCall (outLen : Nat) (keyOk : Bytes → Prop) (finished : Bool) : Call → Prop
  | .input _ => finished = false
  | .result => finished = false
  | .rawResult n => finished = false ∧ n = outLen
  | .reset => True
  | .resetWithKey k => keyOk k

theorem option_map_eq_none {α β : Type} (o : Option α) (f : α → β) : o.map f = none ↔ o = none := by
  cases o <;> simp

/-- **the refusal matrix of every contract-satisfying object**: a call panics iff it is outside `ValidCall`
    (`hok`: the bytes absorbed so far are inside the domain of the underlying hash — the only other way to fail) -/
theorem obj_refused_iff {σ : Type} {F : ObjFam σ} {outLen : Nat} {sizes : List Nat} {fk : Bytes → Option Fn}
    {ok : Fn → Bytes → Prop} {Rel : σ → Fn → Bytes → Prop} {Fin : σ → Fn → Prop}
    (h : Contract F outLen sizes fk ok Rel Fin) (s : σ) (a : Abs) (hS : MacObj.Sim outLen Rel Fin s a)
    (hok : a.finished = false → ok a.f a.data) (c : Call) :
    runCall F s c = none ↔ ¬ ValidCall outLen (fun k => (fk k).isSome = true) a.finished c := by
  obtain ⟨_, hS'⟩ := hS
  cases hf : a.finished with
  | true =>
    rw [hf] at hS'; simp only [if_true] at hS'
    cases c with
    | input b => simp [runCall, ValidCall, h.fin_input s a.f b hS']
    | result => simp [runCall, ValidCall, h.fin_result s a.f hS']
    | rawResult n => simp [runCall, ValidCall, h.fin_raw s a.f n hS']
    | reset =>
      obtain ⟨s', e, _⟩ := h.reset_fin s a.f hS'
      simp [runCall, ValidCall, e]
    | resetWithKey k =>
      cases hk : fk k with
      | none => simp [runCall, ValidCall, hk, h.rekey_bad_fin s a.f k hS' hk]
      | some f' =>
        obtain ⟨s', e, _⟩ := h.rekey_fin s a.f k f' hS' hk
        simp [runCall, ValidCall, hk, e]
  | false =>
    rw [hf] at hS'; simp only [Bool.false_eq_true, if_false] at hS'
    have hok' := hok hf
    cases c with
    | input b =>
      obtain ⟨s', e, _⟩ := h.input s a.f a.data b hS'
      simp [runCall, ValidCall, e]
    | result =>
      obtain ⟨s', e, _⟩ := h.result s a.f a.data hS' hok'
      simp [runCall, ValidCall, e]
    | rawResult n =>
      by_cases hn : n = outLen
      · subst hn
        obtain ⟨s', e, _⟩ := h.raw_result s a.f a.data hS' hok'
        simp [runCall, ValidCall, e]
      · simp [runCall, ValidCall, h.raw_bad s a.f a.data n hS' hok' hn, hn]
    | reset =>
      obtain ⟨s', e, _⟩ := h.reset s a.f a.data hS'
      simp [runCall, ValidCall, e]
    | resetWithKey k =>
      cases hk : fk k with
      | none => simp [runCall, ValidCall, hk, h.rekey_bad s a.f a.data k hS' hk]
      | some f' =>
        obtain ⟨s', e, _⟩ := h.rekey s a.f a.data k f' hS' hk
        simp [runCall, ValidCall, hk, e]

theorem obj_valid_ok {σ : Type} {F : ObjFam σ} {outLen : Nat} {sizes : List Nat} {fk : Bytes → Option Fn}
    {ok : Fn → Bytes → Prop} {Rel : σ → Fn → Bytes → Prop} {Fin : σ → Fn → Prop}
    (h : Contract F outLen sizes fk ok Rel Fin) (s : σ) (a : Abs) (hS : MacObj.Sim outLen Rel Fin s a)
    (hok : a.finished = false → ok a.f a.data) (c : Call)
    (hv : ValidCall outLen (fun k => (fk k).isSome = true) a.finished c) : ∃ r, runCall F s c = some r := by
  cases hr : runCall F s c with
  | some r => exact ⟨r, rfl⟩
  | none => exact absurd hv ((obj_refused_iff h s a hS hok c).mp hr)

/-- a value is only ever returned by `result` / `raw_result`, and it is `f(bytes since the last reset)` of the full
    length `outLen`: never a truncated or padded one -/
theorem obj_value {σ : Type} {F : ObjFam σ} {outLen : Nat} {sizes : List Nat} {fk : Bytes → Option Fn}
    {ok : Fn → Bytes → Prop} {Rel : σ → Fn → Bytes → Prop} {Fin : σ → Fn → Prop}
    (h : Contract F outLen sizes fk ok Rel Fin) (s : σ) (a : Abs) (hS : MacObj.Sim outLen Rel Fin s a)
    (hok : a.finished = false → ok a.f a.data) (c : Call) (s' : σ) (v : Bytes)
    (hr : runCall F s c = some (s', some v)) : v = a.f a.data ∧ v.length = outLen ∧ a.finished = false := by
  obtain ⟨_, hS'⟩ := hS
  cases hf : a.finished with
  | true =>
    rw [hf] at hS'; simp only [if_true] at hS'
    cases c with
    | input b => simp [runCall, h.fin_input s a.f b hS'] at hr
    | result => simp [runCall, h.fin_result s a.f hS'] at hr
    | rawResult n => simp [runCall, h.fin_raw s a.f n hS'] at hr
    | reset => cases hx : F.reset s <;> simp [runCall, hx] at hr
    | resetWithKey k => cases hx : F.reset_with_key s k <;> simp [runCall, hx] at hr
  | false =>
    rw [hf] at hS'; simp only [Bool.false_eq_true, if_false] at hS'
    have hok' := hok hf
    have hl := h.len s a.f a.data hS' hok'
    cases c with
    | input b => cases hx : F.input s b <;> simp [runCall, hx] at hr
    | result =>
      obtain ⟨s1, e, _⟩ := h.result s a.f a.data hS' hok'
      simp only [runCall, e, Option.map_some, Option.some.injEq, Prod.mk.injEq] at hr
      exact ⟨hr.2.symm, hr.2 ▸ hl, rfl⟩
    | rawResult n =>
      by_cases hn : n = outLen
      · subst hn
        obtain ⟨s1, e, _⟩ := h.raw_result s a.f a.data hS' hok'
        simp only [runCall, e, Option.map_some, Option.some.injEq, Prod.mk.injEq] at hr
        exact ⟨hr.2.symm, hr.2 ▸ hl, rfl⟩
      · simp [runCall, h.raw_bad s a.f a.data n hS' hok' hn] at hr
    | reset => cases hx : F.reset s <;> simp [runCall, hx] at hr
    | resetWithKey k => cases hx : F.reset_with_key s k <;> simp [runCall, hx] at hr

/-- the abstract object after a call (`none` = refused) -/
def absCall (fk : Bytes → Option Fn) (a : Abs) : Call → Option Abs
  | .input b => Spec.MacObj.input a b
  | .result => (Spec.MacObj.result a).map (·.1)
  | .rawResult n => (Spec.MacObj.resultN a n).map (·.1)
  | .reset => some (Spec.MacObj.reset a)
  | .resetWithKey k => (fk k).map (Spec.MacObj.rekey a)

/-- the objects reachable from a constructed one are again related to an abstract object: the matrix above holds
    along EVERY history, not only for the first call -/
theorem obj_step_sim {σ : Type} {F : ObjFam σ} {outLen : Nat} {sizes : List Nat} {fk : Bytes → Option Fn}
    {ok : Fn → Bytes → Prop} {Rel : σ → Fn → Bytes → Prop} {Fin : σ → Fn → Prop}
    (h : Contract F outLen sizes fk ok Rel Fin) (s : σ) (a : Abs) (hS : MacObj.Sim outLen Rel Fin s a)
    (hok : a.finished = false → ok a.f a.data) (c : Call) (s' : σ) (out : Option Bytes)
    (hr : runCall F s c = some (s', out)) : ∃ a', absCall fk a c = some a' ∧ MacObj.Sim outLen Rel Fin s' a' := by
  obtain ⟨hL, hS'⟩ := hS
  cases hf : a.finished with
  | true =>
    rw [hf] at hS'; simp only [if_true] at hS'
    cases c with
    | input b => simp [runCall, h.fin_input s a.f b hS'] at hr
    | result => simp [runCall, h.fin_result s a.f hS'] at hr
    | rawResult n => simp [runCall, h.fin_raw s a.f n hS'] at hr
    | reset =>
      obtain ⟨s1, e, hR⟩ := h.reset_fin s a.f hS'
      simp only [runCall, e, Option.map_some, Option.some.injEq, Prod.mk.injEq] at hr
      exact ⟨_, rfl, hL, by rw [← hr.1]; simpa [Spec.MacObj.reset] using hR⟩
    | resetWithKey k =>
      cases hk : fk k with
      | none => simp [runCall, h.rekey_bad_fin s a.f k hS' hk] at hr
      | some f' =>
        obtain ⟨s1, e, hR⟩ := h.rekey_fin s a.f k f' hS' hk
        simp only [runCall, e, Option.map_some, Option.some.injEq, Prod.mk.injEq] at hr
        exact ⟨Spec.MacObj.rekey a f', by simp [absCall, hk], hL, by rw [← hr.1]; simpa [Spec.MacObj.rekey] using hR⟩
  | false =>
    rw [hf] at hS'; simp only [Bool.false_eq_true, if_false] at hS'
    have hok' := hok hf
    cases c with
    | input b =>
      obtain ⟨s1, e, hR⟩ := h.input s a.f a.data b hS'
      simp only [runCall, e, Option.map_some, Option.some.injEq, Prod.mk.injEq] at hr
      exact ⟨{ a with data := a.data ++ b }, by simp [absCall, Spec.MacObj.input, hf], hL,
        by rw [← hr.1]; simpa [hf] using hR⟩
    | result =>
      obtain ⟨s1, e, hR⟩ := h.result s a.f a.data hS' hok'
      simp only [runCall, e, Option.map_some, Option.some.injEq, Prod.mk.injEq] at hr
      exact ⟨{ a with finished := true }, by simp [absCall, Spec.MacObj.result, Spec.MacObj.resultN, hf], hL,
        by rw [← hr.1]; simpa using hR⟩
    | rawResult n =>
      by_cases hn : n = outLen
      · subst hn
        obtain ⟨s1, e, hR⟩ := h.raw_result s a.f a.data hS' hok'
        simp only [runCall, e, Option.map_some, Option.some.injEq, Prod.mk.injEq] at hr
        exact ⟨{ a with finished := true }, by simp [absCall, Spec.MacObj.resultN, hf, hL], hL,
          by rw [← hr.1]; simpa using hR⟩
      · simp [runCall, h.raw_bad s a.f a.data n hS' hok' hn] at hr
    | reset =>
      obtain ⟨s1, e, hR⟩ := h.reset s a.f a.data hS'
      simp only [runCall, e, Option.map_some, Option.some.injEq, Prod.mk.injEq] at hr
      exact ⟨_, rfl, hL, by rw [← hr.1]; simpa [Spec.MacObj.reset] using hR⟩
    | resetWithKey k =>
      cases hk : fk k with
      | none => simp [runCall, h.rekey_bad s a.f a.data k hS' hk] at hr
      | some f' =>
        obtain ⟨s1, e, hR⟩ := h.rekey s a.f a.data k f' hS' hk
        simp only [runCall, e, Option.map_some, Option.some.injEq, Prod.mk.injEq] at hr
        exact ⟨Spec.MacObj.rekey a f', by simp [absCall, hk], hL, by rw [← hr.1]; simpa [Spec.MacObj.rekey] using hR⟩

end obj

/-! ## instances -/
section inst
open Cx.Impl.Digest Cx.Impl.Hmac Cx.Proofs.MacObj Cx.Proofs.MacLegacy Cx.Proofs.MacHmac Cx.Spec.MacObj

/-- the legacy digest wrappers: `keyOk = False` (no `reset_with_key`) -/
theorem legacy_refused_iff {γ : Type} (M : CtxModel γ) (H : Fn) (R : γ → Bytes → Prop) (ok : Bytes → Prop)
    (hc : CtxContract M H R ok) (s : Legacy γ) (a : Abs) (hS : MacObj.Sim (outBytes M) (RelL H R) (FinL H R) s a)
    (hok : a.finished = false → ok a.data) (c : Call) :
    runCall (digestFam (legacyDigest M)) s c = none ↔ ¬ ValidCall (outBytes M) (fun _ => False) a.finished c := by
  have := obj_refused_iff (legacy_contract M H R hc) s a hS hok c
  simpa using this

/-- a fresh wrapper `X::new()` is such an object (and so is every successor: `Contract`) -/
theorem legacy_new_sim {γ : Type} (M : CtxModel γ) (H : Fn) (R : γ → Bytes → Prop) (ok : Bytes → Prop)
    (hc : CtxContract M H R ok) : MacObj.Sim (outBytes M) (RelL H R) (FinL H R) (Legacy.new M) (fresh H (outBytes M)) :=
  ⟨rfl, by simpa [fresh] using legacy_new M H R hc⟩

/-- HMAC over any contract-satisfying digest -/
theorem hmac_refused_iff {δ : Type} (D : DigestModel δ) (H : Fn) (B L bits : Nat) (key : Bytes) (okD : Fn → Bytes → Prop)
    (RelD : δ → Fn → Bytes → Prop) (FinD : δ → Fn → Prop)
    (hD : Contract (digestFam D) L [L, bits, B] (fun _ => none) okD RelD FinD)
    (s : Hmac δ) (a : Abs) (hS : MacObj.Sim L (RelH H B key RelD) (FinH H B key FinD) s a)
    (hok : a.finished = false → okH H B key okD a.f a.data) (c : Call) :
    runCall (macFam (hmacMac D)) s c = none ↔ ¬ ValidCall L (fun _ => False) a.finished c := by
  have := obj_refused_iff (hmac_contract D H B key RelD FinD hD) s a hS hok c
  simpa using this

end inst

/-! ## the legacy BLAKE2 objects `Blake2b` / `Blake2s` -/
section blake2
open Cx.Impl.Digest Cx.Proofs.MacObj Cx.Proofs.MacBlake2 Cx.Spec.MacObj Cx.Proofs.Blake2
open Cx.Spec.Blake2 (Word Params)
variable {W : Type} [Word W]

/-- keyed BLAKE2 objects: `reset_with_key(k)` is valid iff `k.len() ≤ MAX_KEYLEN` -/
theorem blake2_refused_iff (P : Params W) (g : Good P) (nn : Nat) (hn : 0 < nn ∧ nn ≤ P.maxOut)
    (s : Impl.Digest.Blake2 W) (a : Abs) (hS : MacObj.Sim nn (RelB P nn) (FinB P nn) s a) (c : Call) :
    runCall (famB .repaired P) s c = none ↔ ¬ ValidCall nn (fun k => k.length ≤ P.maxKey) a.finished c := by
  have := obj_refused_iff (blake2_contract P g nn hn) s a hS (fun _ => trivial) c
  have e : (fun k => (fkB P nn k).isSome = true) = (fun k : Bytes => k.length ≤ P.maxKey) := by
    funext k; unfold fkB; split <;> simp [*]
  rwa [e] at this

/-- `Blake2x::new_keyed(outlen, key)`: `assert!(key.len() <= keyAssert)` of the wrapper, then the asserts of
    `ContextDyn::new_keyed` -/
theorem blake2_new_keyed_none_iff (P : Params W) (g : Good P) (keyAssert nn : Nat) (key : Bytes) :
    Impl.Digest.Blake2.new_keyed P keyAssert nn key = none ↔
      ¬ (0 < nn ∧ nn ≤ P.maxOut ∧ key.length ≤ P.maxKey ∧ key.length ≤ keyAssert) := by
  constructor
  · intro h hv
    obtain ⟨o, e, _⟩ := new_keyed_rel P g nn ⟨hv.1, hv.2.1⟩ key hv.2.2.1 keyAssert hv.2.2.2
    rw [e] at h; cases h
  · intro hv
    unfold Impl.Digest.Blake2.new_keyed
    by_cases h1 : key.length ≤ keyAssert
    · rw [if_neg (by simpa using h1)]
      have : Impl.Blake2.ContextDyn.new_keyed P nn key = none := by
        unfold Impl.Blake2.ContextDyn.new_keyed Impl.Blake2.Ctx.new_keyed
        by_cases h2 : nn > 0 ∧ nn ≤ P.maxOut
        · have h3 : ¬ key.length ≤ P.maxKey := fun h3 => hv ⟨h2.1, h2.2, h3, h1⟩
          simp [h2, h3]
        · simp [h2]
      rw [this]
    · rw [if_pos (by simpa using h1)]

/-- `Blake2x::new(outlen)` -/
theorem blake2_new_none_iff (P : Params W) (g : Good P) (nn : Nat) :
    Impl.Digest.Blake2.new P nn = none ↔ ¬ (0 < nn ∧ nn ≤ P.maxOut) := by
  unfold Impl.Digest.Blake2.new Impl.Blake2.ContextDyn.new
  by_cases h : nn > 0 ∧ nn ≤ P.maxOut
  · have hk : ([] : Bytes).length ≤ P.maxKey := Nat.zero_le _
    have := new_keyed_eq P nn [] h hk
    simp [h, Impl.Blake2.ContextDyn.new_keyed, this]
  · simp [h]

end blake2

end Cx.Proofs.Refusal
