/-
  Proofs.AeadBytes — byte-string facts used by the AEAD proofs: the stream `encrypt` of Spec.Stream (length,
  append, involution, block 0 from a zero input), the `natToLE` codec (length, injectivity below 256^n), and the
  injectivity of the RFC 8439 §2.8 MAC-input encoding.  Pure list reasoning, no Mathlib.
-/
import CxVerif.Spec.Aead
namespace Cx.Proofs.Aead
open Cx Cx.Spec.Stream
set_option linter.unusedSimpArgs false
set_option linter.unusedVariables false

/-! ### xor -/

theorem xorBytes_length (a b : Bytes) : (xorBytes a b).length = min a.length b.length := by
  simp [xorBytes]

theorem xorBytes_append (a b k1 k2 : Bytes) (h : a.length = k1.length) :
    xorBytes (a ++ b) (k1 ++ k2) = xorBytes a k1 ++ xorBytes b k2 := by
  unfold xorBytes
  exact List.zipWith_append h

theorem xorBytes_invol : ∀ (d k : Bytes), d.length ≤ k.length → xorBytes (xorBytes d k) k = d := by
  intro d
  induction d with
  | nil => intro k _; simp [xorBytes]
  | cons x xs ih =>
    intro k hk
    cases k with
    | nil => simp at hk
    | cons y ys =>
      have := ih ys (by simpa using hk)
      simp only [xorBytes, List.zipWith_cons_cons] at this ⊢
      rw [this]
      congr 1
      rw [UInt8.xor_assoc, UInt8.xor_self, UInt8.xor_zero]

theorem xorBytes_zeros : ∀ (k : Bytes), xorBytes (zeros k.length) k = k := by
  intro k
  induction k with
  | nil => simp [xorBytes, zeros]
  | cons y ys ih =>
    simp only [xorBytes, zeros, List.length_cons, List.replicate_succ, List.zipWith_cons_cons] at ih ⊢
    rw [ih]; simp

/-! ### keystream / encrypt of Spec.Stream -/

theorem keystream_length (KS : Nat → Bytes) (p n : Nat) : (keystream KS p n).length = n := by
  simp [keystream]

theorem keystream_add (KS : Nat → Bytes) (p a b : Nat) :
    keystream KS p (a + b) = keystream KS p a ++ keystream KS (p + a) b := by
  unfold keystream
  rw [← List.map_append]
  congr 1
  rw [List.range'_append_1]

theorem encrypt_length (KS : Nat → Bytes) (p : Nat) (d : Bytes) : (encrypt KS p d).length = d.length := by
  simp [encrypt, xorBytes_length, keystream_length]

theorem encrypt_nil (KS : Nat → Bytes) (p : Nat) : encrypt KS p [] = [] := by
  simp [encrypt, xorBytes]

theorem encrypt_append (KS : Nat → Bytes) (p : Nat) (a b : Bytes) :
    encrypt KS p (a ++ b) = encrypt KS p a ++ encrypt KS (p + a.length) b := by
  unfold encrypt
  rw [List.length_append, keystream_add, xorBytes_append _ _ _ _ (by rw [keystream_length])]

theorem encrypt_invol (KS : Nat → Bytes) (p : Nat) (d : Bytes) : encrypt KS p (encrypt KS p d) = d := by
  unfold encrypt
  rw [xorBytes_length, keystream_length, Nat.min_self]
  exact xorBytes_invol d _ (by rw [keystream_length]; exact Nat.le_refl _)

/-- the first 64 keystream bytes are block 0 -/
theorem keystream_block0 (KS : Nat → Bytes) (h : (KS 0).length = 64) : keystream KS 0 64 = KS 0 := by
  apply List.ext_getElem
  · simp [keystream, h]
  · intro i h1 h2
    have hi : i < 64 := by simpa [keystream] using h1
    simp only [keystream, List.getElem_map, List.getElem_range', ksByte]
    have e1 : (0 + 1 * i) / 64 = 0 := by omega
    have e2 : (0 + 1 * i) % 64 = i := by omega
    rw [e1, e2]
    simp [List.getD_eq_getElem?_getD, h2]

/-- encrypting 64 zero bytes from position 0 yields block 0 -/
theorem encrypt_zeros_block0 (KS : Nat → Bytes) (h : (KS 0).length = 64) : encrypt KS 0 (zeros 64) = KS 0 := by
  unfold encrypt
  have hz : (zeros 64).length = 64 := by simp [zeros]
  rw [hz, keystream_block0 KS h]
  have := xorBytes_zeros (KS 0)
  rw [h] at this
  exact this

/-! ### cutting an output at the call boundaries -/

/-- cut `w` into consecutive pieces of the given lengths -/
def cutAt : List Nat → Bytes → List Bytes
  | [], _ => []
  | n :: ns, w => w.take n :: cutAt ns (w.drop n)

theorem cutAt_flatten : ∀ (ns : List Nat) (w : Bytes), ns.sum = w.length → (cutAt ns w).flatten = w := by
  intro ns
  induction ns with
  | nil => intro w h; simp at h; simp [cutAt, List.eq_nil_of_length_eq_zero h.symm]
  | cons n ns ih =>
    intro w h
    simp only [cutAt, List.flatten_cons]
    rw [ih (w.drop n) (by simp only [List.sum_cons] at h; rw [List.length_drop]; omega)]
    exact List.take_append_drop n w

/-! ### little-endian codec -/

theorem natToLE_length (n v : Nat) : (natToLE n v).length = n := by
  induction n generalizing v with
  | zero => rfl
  | succ n ih => simp [natToLE, ih]

theorem natToLE_inj : ∀ (n a b : Nat), a < 256 ^ n → b < 256 ^ n → natToLE n a = natToLE n b → a = b := by
  intro n
  induction n with
  | zero => intro a b ha hb _; simp at ha hb; omega
  | succ n ih =>
    intro a b ha hb h
    simp only [natToLE, List.cons.injEq] at h
    obtain ⟨h0, h1⟩ := h
    have e1 : a / 256 = b / 256 := ih _ _ (by rw [Nat.pow_succ] at ha; omega) (by rw [Nat.pow_succ] at hb; omega) h1
    have e0 : a % 256 = b % 256 := by
      have := congrArg UInt8.toNat h0
      simp only [UInt8.toNat_ofNat'] at this
      omega
    omega

/-! ### RFC 8439 §2.8 MAC input -/

open Cx.Spec.Aead

theorem le64_length (n : Nat) : (le64 n).length = 8 := natToLE_length 8 n

theorem pad16_length (x : Bytes) : (pad16 x).length = (16 - x.length % 16) % 16 := by simp [pad16, zeros]

/-- padded strings are multiples of 16 -/
theorem padded_length (x : Bytes) : (x ++ pad16 x).length % 16 = 0 := by
  rw [List.length_append, pad16_length]; omega

theorem pad16_of_length_eq (x y : Bytes) (h : x.length = y.length) : pad16 x = pad16 y := by
  simp [pad16, h]

theorem macData_length (aad ct : Bytes) :
    (macData aad ct).length = aad.length + (pad16 aad).length + ct.length + (pad16 ct).length + 16 := by
  simp only [macData, List.length_append, le64_length]

/-- the last 16 bytes of the MAC input are the two length words -/
theorem macData_split (aad ct : Bytes) :
    macData aad ct = (aad ++ pad16 aad ++ ct ++ pad16 ct) ++ (le64 aad.length ++ le64 ct.length) := by
  simp [macData, List.append_assoc]

/-- **injectivity of the MAC-input encoding** (lengths < 2^64, the RFC's domain): equal authenticated strings
    come from equal (aad, ciphertext) pairs. -/
theorem macData_injective (aad ct aad' ct' : Bytes)
    (ha : aad.length < 2 ^ 64) (hc : ct.length < 2 ^ 64) (ha' : aad'.length < 2 ^ 64) (hc' : ct'.length < 2 ^ 64)
    (h : macData aad ct = macData aad' ct') : aad = aad' ∧ ct = ct' := by
  have hlen := congrArg List.length h
  rw [macData_split, macData_split] at h
  -- equal total lengths and 16-byte trailers: split at the trailer
  have hbody : (aad ++ pad16 aad ++ ct ++ pad16 ct).length = (aad' ++ pad16 aad' ++ ct' ++ pad16 ct').length := by
    have := congrArg List.length h
    simp only [List.length_append, le64_length] at this ⊢
    omega
  obtain ⟨hb, ht⟩ := List.append_inj h hbody
  -- the trailer gives the two lengths
  obtain ⟨h1, h2⟩ := List.append_inj ht (by rw [le64_length, le64_length])
  have e64 : (256 : Nat) ^ 8 = 2 ^ 64 := by decide
  have la : aad.length = aad'.length := natToLE_inj 8 _ _ (by omega) (by omega) h1
  have lc : ct.length = ct'.length := natToLE_inj 8 _ _ (by omega) (by omega) h2
  -- with the lengths known the body splits uniquely
  simp only [List.append_assoc] at hb
  obtain ⟨ea, hb⟩ := List.append_inj hb la
  obtain ⟨_, hb⟩ := List.append_inj hb (by rw [pad16_length, pad16_length, la])
  obtain ⟨ec, _⟩ := List.append_inj hb lc
  exact ⟨ea, ec⟩

end Cx.Proofs.Aead
-- x
