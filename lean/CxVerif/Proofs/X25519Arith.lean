/-
  Proofs.X25519Arith — one ladder iteration of `curve25519`: the field arithmetic refines the
  RFC 7748 formulas (`BB + 121666·E = AA + 121665·E` since `E = AA − BB`).
-/
import CxVerif.Proofs.Fe64Chain
import CxVerif.Proofs.Fe64Pred
import CxVerif.Proofs.Fe64FromBytes
import CxVerif.Impl.X25519
import CxVerif.Spec.X25519
namespace Cx.Proofs.X25519
open Cx Cx.Spec Cx.Impl.Fe64 Cx.Impl.X25519 Cx.Proofs.Fe64
open Cx.Spec.Field25519 (p)

/-- the RFC 7748 formulas of one iteration on the (already swapped) registers -/
def specArith (x1 x2 z2 x3 z3 : Nat) : Nat × Nat × Nat × Nat :=
  let A := Field25519.add x2 z2
  let AA := Field25519.sq A
  let B := Field25519.sub x2 z2
  let BB := Field25519.sq B
  let E := Field25519.sub AA BB
  let C := Field25519.add x3 z3
  let D := Field25519.sub x3 z3
  let DA := Field25519.mul D A
  let CB := Field25519.mul C B
  (Field25519.mul AA BB, Field25519.mul E (Field25519.add AA (Field25519.mul X25519.a24 E)),
   Field25519.sq (Field25519.add DA CB), Field25519.mul x1 (Field25519.sq (Field25519.sub DA CB)))

/-- `BB + 121666·(AA − BB) = AA + 121665·(AA − BB)` in GF(p) -/
theorem a24_lemma (AA BB : Nat) :
    Field25519.add BB (Field25519.mul (Field25519.sub AA BB) 121666)
      = Field25519.add AA (Field25519.mul 121665 (Field25519.sub AA BB)) := by
  unfold Field25519.add Field25519.mul Field25519.sub
  simp only [p_eq]
  omega

/-- what the two variants of `z5` need: `&x1 * &t2` (x1 Tight, denotes `x1v`) or `t2.mul_small::<k>()` (`x1v = k`) -/
def Z5Ok (z5k : Z5) (x1v : Nat) : Prop :=
  match z5k with
  | .mulX1 x1 => Tight x1 ∧ eval x1 = x1v
  | .small k => k < 2^32 ∧ x1v = k

theorem A24P1_eq : A24P1 = 121666 := by decide
theorem A24P1_BASE_eq : A24P1_BASE = 121666 := by decide
theorem NINE_eq : NINE = 9 := by decide

theorem mul_comm' (a b : Nat) : Field25519.mul a b = Field25519.mul b a := by
  unfold Field25519.mul; rw [Nat.mul_comm]

/-- the arithmetic of one iteration: no overflow, carried outputs, RFC 7748 values -/
theorem ladderArith_spec (z5k : Z5) (x1v : Nat) (hz5 : Z5Ok z5k x1v) (x2 z2 x3 z3 : Fe)
    (hx2 : Tight x2) (hz2 : Tight z2) (hx3 : Tight x3) (hz3 : Tight z3) :
    ∃ x4 z4 x5 z5, ladderArith 121666 z5k x2 z2 x3 z3 = some (x4, z4, x5, z5) ∧
      Tight x4 ∧ Tight z4 ∧ Tight x5 ∧ Tight z5 ∧
      (eval x4, eval z4, eval x5, eval z5) = specArith x1v (eval x2) (eval z2) (eval x3) (eval z3) := by
  simp only [ladderArith]
  obtain ⟨d, e, td, vd⟩ := sub_spec x3 z3 hx3.loose hz3.subOk; rw [e, some_bind]
  obtain ⟨b, e, tb, vb⟩ := sub_spec x2 z2 hx2.loose hz2.subOk; rw [e, some_bind]
  obtain ⟨a, e, ta, va⟩ := add_spec x2 z2 hx2.loose hz2.loose; rw [e, some_bind]
  obtain ⟨c, e, tc, vc⟩ := add_spec x3 z3 hx3.loose hz3.loose; rw [e, some_bind]
  obtain ⟨da, e, tda, vda⟩ := mul_spec d a td.loose ta.loose; rw [e, some_bind]
  obtain ⟨cb, e, tcb, vcb⟩ := mul_spec c b tc.loose tb.loose; rw [e, some_bind]
  obtain ⟨bb, e, tbb, vbb⟩ := square_spec b tb.loose; rw [e, some_bind]
  obtain ⟨aa, e, taa, vaa⟩ := square_spec a ta.loose; rw [e, some_bind]
  obtain ⟨t0, e, tt0, vt0⟩ := add_spec da cb tda.loose tcb.loose; rw [e, some_bind]
  obtain ⟨t1, e, tt1, vt1⟩ := sub_spec da cb tda.loose tcb.subOk; rw [e, some_bind]
  obtain ⟨x4, e, tx4, vx4⟩ := mul_spec aa bb taa.loose tbb.loose; rw [e, some_bind]
  obtain ⟨ee, e, tee, vee⟩ := sub_spec aa bb taa.loose tbb.subOk; rw [e, some_bind]
  obtain ⟨t2, e, tt2, vt2⟩ := square_spec t1 tt1.loose; rw [e, some_bind]
  obtain ⟨t3, e, tt3, vt3⟩ := mul_small_spec ee 121666 tee.loose (by decide); rw [e, some_bind]
  obtain ⟨x5, e, tx5, vx5⟩ := square_spec t0 tt0.loose; rw [e, some_bind]
  obtain ⟨t4, e, tt4, vt4⟩ := add_spec bb t3 tbb.loose tt3.loose; rw [e, some_bind]
  have hz5' : ∃ z5, z5Of z5k t2 = some z5 ∧ Tight z5 ∧ eval z5 = Field25519.mul x1v (eval t2) := by
    unfold z5Of
    cases z5k with
    | mulX1 x1 =>
      obtain ⟨h1, h2⟩ := hz5
      obtain ⟨z5, e, tz5, vz5⟩ := mul_spec x1 t2 h1.loose tt2.loose
      exact ⟨z5, e, tz5, by rw [vz5, h2]⟩
    | small k =>
      obtain ⟨h1, h2⟩ := hz5
      obtain ⟨z5, e, tz5, vz5⟩ := mul_small_spec t2 k tt2.loose h1
      exact ⟨z5, e, tz5, by rw [vz5, h2, mul_comm']⟩
  obtain ⟨z5, e, tz5, vz5⟩ := hz5'; rw [e, some_bind]
  obtain ⟨z4, e, tz4, vz4⟩ := mul_spec ee t4 tee.loose tt4.loose; rw [e, some_bind]
  refine ⟨x4, z4, x5, z5, rfl, tx4, tz4, tx5, tz5, ?_⟩
  simp only [specArith, X25519.a24]
  rw [vx4, vz4, vx5, vz5, vt4, vt3, vt2, vee, vt1, vt0, vaa, vbb, vcb, vda, vc, va, vb, vd, a24_lemma]

end Cx.Proofs.X25519
