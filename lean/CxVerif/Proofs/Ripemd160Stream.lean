/-
  Proofs.Ripemd160Stream — the RIPEMD-160 context of ripemd160.rs refines "bytes since the last reset":
  instantiation of the generic Merkle–Damgård framework with N = 64, rem = 8, the length written as two
  little-endian 32-bit words `(pb << 3) as u32`, `(pb >> 29) as u32` (= the 64-bit LE bit length for
  len < 2^61), compression = `process_msg_block` (= the paper's compression by
  `Proofs.Ripemd160.process_block_eq_compress`).
-/
import CxVerif.Proofs.Ripemd160
import CxVerif.Proofs.Sha1Chunks
import CxVerif.Proofs.FixedBuffer
import CxVerif.Proofs.HashProg
namespace Cx.Proofs.Ripemd160Stream
open Cx Cx.Impl Cx.Impl.Ripemd160 Cx.Proofs.FB Cx.Proofs.Sha1Chunks
open Cx.Spec.Ripemd160 (Hash compressBytes H0 hashValue)

/-! ### the closures -/

/-- the closure of `standard_padding` and the final call -/
def blockFn (h : Hash) (d : Bytes) : Option Hash := process_msg_block d h
/-- the closure of `update_mut` -/
def blocksFn (h : Hash) (d : Bytes) : Option Hash := process_msg_blocks d h

theorem blockFn_spec : FuncOneBlock 64 blockFn compressBytes := by
  intro s d hd
  unfold blockFn process_msg_block compressBytes
  rw [if_pos hd, Cx.Proofs.Ripemd160.process_block_eq_compress]

theorem go_spec (bs : List Bytes) : ∀ (s : Hash), (∀ b ∈ bs, b.length = 64) →
    process_msg_blocks_go s bs = some (bs.foldl compressBytes s) := by
  induction bs with
  | nil => intro s _; rfl
  | cons b bs ih =>
    intro s h
    have := blockFn_spec s b (h b (by simp))
    unfold blockFn at this
    simp only [process_msg_blocks_go, this, List.foldl_cons]
    exact ih _ (fun x hx => h x (by simp [hx]))

theorem blocksFn_spec : FuncIsBlocks 64 blocksFn compressBytes := by
  intro s d hd
  unfold blocksFn process_msg_blocks
  rw [chunks_eq_fullBlocks (by decide) d hd]
  exact go_spec _ s (fullBlocks_all_len d)

/-! ### abstraction relation -/

def Abs (c : Context) (msg : Bytes) : Prop :=
  c.processed_bytes.toNat = msg.length % 2 ^ 64 ∧ WF 64 c.buffer ∧ c.buffer.data = blockTail 64 msg
  ∧ c.h = (fullBlocks 64 msg).foldl compressBytes H0

theorem abs_new : Abs Context.new [] := by
  refine ⟨rfl, new_WF (by decide), ?_, ?_⟩
  · simp [Context.new, new_data, blockTail]
  · simp [Context.new, Cx.Proofs.Ripemd160.H_eq, fullBlocks, takeBlocks]

theorem abs_reset (c : Context) (hl : c.buffer.buffer.length = 64) : Abs c.reset [] := by
  refine ⟨rfl, ⟨hl, by simp [Context.reset, FixedBuffer.reset]⟩, ?_, ?_⟩
  · simp [Context.reset, FixedBuffer.reset, FixedBuffer.data, blockTail]
  · simp [Context.reset, Cx.Proofs.Ripemd160.H_eq, fullBlocks, takeBlocks]

theorem abs_update (c : Context) (msg inp : Bytes) (h : Abs c msg) :
    ∃ c', c.update_mut inp = some c' ∧ Abs c' (msg ++ inp) := by
  obtain ⟨hp, hw, hd, hs⟩ := h
  obtain ⟨b', eq, hw', hd'⟩ := input_spec (by decide) c.buffer inp blocksFn compressBytes c.h hw blocksFn_spec
  unfold Context.update_mut
  unfold blocksFn at eq
  simp only [eq]
  refine ⟨_, rfl, ?_, hw', ?_, ?_⟩
  · simp only [UInt64.toNat_add, UInt64.toNat_ofNat', hp, List.length_append]
    omega
  · rw [hd', hd, ← blockTail_append (by decide)]
  · simp only [hs, hd]
    rw [fullBlocks_append (by decide) msg, List.foldl_append]

/-- `write_u32_le(.., (pb << 3) as u32)` and `write_u32_le(.., (pb >> 29) as u32)` -/
theorem len_lo_eq (pb : UInt64) : write_u32_le (pb <<< 3).toUInt32 = (len_le64_split pb.toNat).1 := by
  unfold write_u32_le u32le len_le64_split
  congr 1
  rw [UInt64.toNat_toUInt32, UInt64.toNat_shiftLeft]
  simp [Nat.shiftLeft_eq]
theorem len_hi_eq (pb : UInt64) : write_u32_le (pb >>> 29).toUInt32 = (len_le64_split pb.toNat).2 := by
  unfold write_u32_le u32le len_le64_split
  congr 1
  rw [UInt64.toNat_toUInt32, UInt64.toNat_shiftRight]
  simp [Nat.shiftRight_eq_div_pow]

theorem finalize_reset_eq (c : Context) :
    c.finalize_reset = (md_finish_with 64 8
        (next_write_twice 4 (len_le64_split c.processed_bytes.toNat).1 (len_le64_split c.processed_bytes.toNat).2)
        c.buffer blockFn c.h).map
      (fun p => ((⟨p.2, c.processed_bytes, p.1⟩ : Context).reset, p.2.toBytes)) := by
  unfold Context.finalize_reset md_finish_with next_write_twice
  rw [len_lo_eq, len_hi_eq]
  show (match c.buffer.standard_padding 64 8 blockFn c.h with | none => none | some (buffer, h) => _) = _
  cases h1 : c.buffer.standard_padding 64 8 blockFn c.h with
  | none => rfl
  | some p =>
    obtain ⟨b1, s1⟩ := p
    simp only []
    cases h2 : b1.next_write 4 (len_le64_split c.processed_bytes.toNat).1 with
    | none => rfl
    | some b2 =>
      simp only []
      cases h2' : b2.next_write 4 (len_le64_split c.processed_bytes.toNat).2 with
      | none => rfl
      | some b2' =>
        simp only []
        cases h3 : b2'.full_buffer 64 with
        | none => rfl
        | some q =>
          obtain ⟨b3, blk⟩ := q
          simp only []
          show (match process_msg_block blk s1 with | none => none | some h => _) = _
          cases h4 : process_msg_block blk s1 with
          | none => simp [blockFn, h4]
          | some s2 => simp [blockFn, h4, Cx.Spec.Ripemd160.Hash.toBytes, write_u32_le]

theorem abs_finalize_reset (c : Context) (msg : Bytes) (h : Abs c msg) (hlen : msg.length < 2 ^ 61) :
    ∃ c', c.finalize_reset = some (c', Cx.Spec.Ripemd160.ripemd160 msg) ∧ Abs c' [] := by
  obtain ⟨hp, hw, hd, hs⟩ := h
  have hsplit := len_le64_split_eq hlen
  rw [← hp] at hsplit
  obtain ⟨b', eq, hw', _⟩ := md_finish_with_spec (N := 64) (rem := 8) (by decide) (by decide) c.buffer
    (next_write_twice 4 (len_le64_split c.processed_bytes.toNat).1 (len_le64_split c.processed_bytes.toNat).2)
    ((len_le64_split c.processed_bytes.toNat).1 ++ (len_le64_split c.processed_bytes.toNat).2)
    (by simp [len_le64_split, natToLE_length])
    (next_write_twice_WritesLen 64 4 _ _ (natToLE_length _ _) (natToLE_length _ _))
    blockFn compressBytes c.h hw blockFn_spec
  rw [finalize_reset_eq, eq]
  have hX : (fullBlocks 64 (c.buffer.data ++ [(128 : UInt8)] ++ zeros (Cx.Spec.MD.padZeros 64 8 c.buffer.data.length) ++
      ((len_le64_split c.processed_bytes.toNat).1 ++ (len_le64_split c.processed_bytes.toNat).2))).foldl
        compressBytes c.h = hashValue msg := by
    unfold hashValue
    rw [hsplit, hs, hd, md_hash_split (by decide) 8 compressBytes H0 Cx.Spec.MD.le64 msg]
  rw [hX]
  exact ⟨(⟨hashValue msg, c.processed_bytes, b'⟩ : Context).reset, rfl, abs_reset _ hw'.1⟩

/-! ### the state machine -/

open Cx.Proofs.HashProg in
/-- **the RIPEMD-160 context refines "bytes since the last reset"** (all five methods) -/
theorem refines : Refines fam Cx.Spec.Ripemd160.ripemd160 Abs (fun m => m.length < 2 ^ 61) where
  new := abs_new
  update := fun c m b hR => abs_update c m b hR
  update_mut := fun c m b hR => abs_update c m b hR
  reset := fun c _ hR => abs_reset c hR.2.1.1
  finalize_reset := fun c m hR hok => abs_finalize_reset c m hR hok
  finalize := by
    intro c m hR hok
    obtain ⟨c', he, _⟩ := abs_finalize_reset c m hR hok
    simp [fam, Context.finalize, he]

/-- one-shot: `Ripemd160::new().update(msg).finalize()` -/
theorem oneShot_eq (msg : Bytes) (hlen : msg.length < 2 ^ 61) :
    Cx.Impl.Ripemd160.ripemd160 msg = some (Cx.Spec.Ripemd160.ripemd160 msg) := by
  obtain ⟨c1, h1, hA⟩ := abs_update Context.new [] msg abs_new
  simp only [List.nil_append] at hA
  obtain ⟨c2, h2, _⟩ := abs_finalize_reset c1 msg hA hlen
  simp [Cx.Impl.Ripemd160.ripemd160, Context.update, h1, Context.finalize, h2]

end Cx.Proofs.Ripemd160Stream
