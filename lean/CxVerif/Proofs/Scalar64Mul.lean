/-
  Proofs.Scalar64Mul — `mul`, `add`, `muladd` of Impl/Scalar64.lean compute the operation modulo L.
  `mul`: the 25 limb products are generalised to atoms, the nine columns are peeled like in the Barrett
  proof, `q1 = X >> 248`, `r1 = X mod 2^264` by `omega`, `X = x.val * y.val` by `ring`, then `barrett_spec`.
-/
import CxVerif.Proofs.Scalar64Barrett
import Mathlib.Tactic.Ring
namespace Cx.Proofs.Scalar64
open Cx Cx.Impl.Scalar64
set_option exponentiation.threshold 600

theorem mul_lt (a b m n : Nat) (ha : a < 2^m) (hb : b < 2^n) : a * b < 2^(m+n) := by
  rw [Nat.pow_add]; exact Nat.mul_lt_mul'' ha hb

/-- a column split at bit 24: `f = d >> 56`, `w` = bits 24..55, `z·2^32` = the low 24 bits moved up by 32 -/
theorem split_col24 (d : Nat) (hd : d < 2^120) :
    ∃ f w z, shr128 d 56 = f ∧ (shr64 (asU64 d) 24 &&& 0xffffffff) = w ∧ (shl64 (asU64 d) 32 &&& MASK56) = z * 2^32 ∧
      d = f * 2^56 + w * 2^24 + z ∧ w < 2^32 ∧ z < 2^24 ∧ f < 2^64 := by
  refine ⟨d / 2^56, (d / 2^24) % 2^32, d % 2^24, ?_, ?_, ?_, ?_⟩
  · unfold shr128; rw [Nat.shiftRight_eq_div_pow]; omega
  · unfold shr64 asU64; rw [show (0xffffffff : Nat) = 2^32 - 1 by decide, and_mask, Nat.shiftRight_eq_div_pow]; omega
  · unfold shl64 asU64; rw [MASK56_eq, and_mask, Nat.shiftLeft_eq]; omega
  · omega

theorem mul_cols (x0 x1 x2 x3 x4 y0 y1 y2 y3 y4 : Nat) :
    (x0 + x1 * 2^56 + x2 * 2^112 + x3 * 2^168 + x4 * 2^224) * (y0 + y1 * 2^56 + y2 * 2^112 + y3 * 2^168 + y4 * 2^224) =
      x0 * y0 + (x0 * y1 + x1 * y0) * 2^56 + (x0 * y2 + x2 * y0 + x1 * y1) * 2^112
      + (x0 * y3 + x3 * y0 + x1 * y2 + x2 * y1) * 2^168
      + (x0 * y4 + x4 * y0 + x3 * y1 + x1 * y3 + x2 * y2) * 2^224
      + (x4 * y1 + x1 * y4 + x2 * y3 + x3 * y2) * 2^280
      + (x4 * y2 + x2 * y4 + x3 * y3) * 2^336
      + (x4 * y3 + x3 * y4) * 2^392
      + (x4 * y4) * 2^448 := by
  ring

theorem mul_spec (x y : Scalar) (hx : Inv x) (hy : Inv y) :
    ∃ o, mul x y = some o ∧ o.val = (x.val * y.val) % Spec.ScalarL.L ∧ Inv o := by
  have hxy : x.val * y.val < 2^512 := by
    have := mul_lt _ _ 256 256 hx.val_lt hy.val_lt; exact this
  have hX := mul_cols x.l0 x.l1 x.l2 x.l3 x.l4 y.l0 y.l1 y.l2 y.l3 y.l4
  obtain ⟨hx0, hx1, hx2, hx3, hx4⟩ := hx
  obtain ⟨hy0, hy1, hy2, hy3, hy4⟩ := hy
  unfold mul
  simp only [mul128]
  rw [show x.val * y.val = _ from hX] at hxy ⊢
  clear hX
  have b00 := mul_lt x.l0 y.l0 56 56 hx0 hy0
  generalize hp00 : x.l0 * y.l0 = p00 at b00 hxy ⊢
  replace hp00 : Hide _ := hp00
  have b01 := mul_lt x.l0 y.l1 56 56 hx0 hy1
  generalize hp01 : x.l0 * y.l1 = p01 at b01 hxy ⊢
  replace hp01 : Hide _ := hp01
  have b02 := mul_lt x.l0 y.l2 56 56 hx0 hy2
  generalize hp02 : x.l0 * y.l2 = p02 at b02 hxy ⊢
  replace hp02 : Hide _ := hp02
  have b03 := mul_lt x.l0 y.l3 56 56 hx0 hy3
  generalize hp03 : x.l0 * y.l3 = p03 at b03 hxy ⊢
  replace hp03 : Hide _ := hp03
  have b04 := mul_lt x.l0 y.l4 56 32 hx0 hy4
  generalize hp04 : x.l0 * y.l4 = p04 at b04 hxy ⊢
  replace hp04 : Hide _ := hp04
  have b10 := mul_lt x.l1 y.l0 56 56 hx1 hy0
  generalize hp10 : x.l1 * y.l0 = p10 at b10 hxy ⊢
  replace hp10 : Hide _ := hp10
  have b11 := mul_lt x.l1 y.l1 56 56 hx1 hy1
  generalize hp11 : x.l1 * y.l1 = p11 at b11 hxy ⊢
  replace hp11 : Hide _ := hp11
  have b12 := mul_lt x.l1 y.l2 56 56 hx1 hy2
  generalize hp12 : x.l1 * y.l2 = p12 at b12 hxy ⊢
  replace hp12 : Hide _ := hp12
  have b13 := mul_lt x.l1 y.l3 56 56 hx1 hy3
  generalize hp13 : x.l1 * y.l3 = p13 at b13 hxy ⊢
  replace hp13 : Hide _ := hp13
  have b14 := mul_lt x.l1 y.l4 56 32 hx1 hy4
  generalize hp14 : x.l1 * y.l4 = p14 at b14 hxy ⊢
  replace hp14 : Hide _ := hp14
  have b20 := mul_lt x.l2 y.l0 56 56 hx2 hy0
  generalize hp20 : x.l2 * y.l0 = p20 at b20 hxy ⊢
  replace hp20 : Hide _ := hp20
  have b21 := mul_lt x.l2 y.l1 56 56 hx2 hy1
  generalize hp21 : x.l2 * y.l1 = p21 at b21 hxy ⊢
  replace hp21 : Hide _ := hp21
  have b22 := mul_lt x.l2 y.l2 56 56 hx2 hy2
  generalize hp22 : x.l2 * y.l2 = p22 at b22 hxy ⊢
  replace hp22 : Hide _ := hp22
  have b23 := mul_lt x.l2 y.l3 56 56 hx2 hy3
  generalize hp23 : x.l2 * y.l3 = p23 at b23 hxy ⊢
  replace hp23 : Hide _ := hp23
  have b24 := mul_lt x.l2 y.l4 56 32 hx2 hy4
  generalize hp24 : x.l2 * y.l4 = p24 at b24 hxy ⊢
  replace hp24 : Hide _ := hp24
  have b30 := mul_lt x.l3 y.l0 56 56 hx3 hy0
  generalize hp30 : x.l3 * y.l0 = p30 at b30 hxy ⊢
  replace hp30 : Hide _ := hp30
  have b31 := mul_lt x.l3 y.l1 56 56 hx3 hy1
  generalize hp31 : x.l3 * y.l1 = p31 at b31 hxy ⊢
  replace hp31 : Hide _ := hp31
  have b32 := mul_lt x.l3 y.l2 56 56 hx3 hy2
  generalize hp32 : x.l3 * y.l2 = p32 at b32 hxy ⊢
  replace hp32 : Hide _ := hp32
  have b33 := mul_lt x.l3 y.l3 56 56 hx3 hy3
  generalize hp33 : x.l3 * y.l3 = p33 at b33 hxy ⊢
  replace hp33 : Hide _ := hp33
  have b34 := mul_lt x.l3 y.l4 56 32 hx3 hy4
  generalize hp34 : x.l3 * y.l4 = p34 at b34 hxy ⊢
  replace hp34 : Hide _ := hp34
  have b40 := mul_lt x.l4 y.l0 32 56 hx4 hy0
  generalize hp40 : x.l4 * y.l0 = p40 at b40 hxy ⊢
  replace hp40 : Hide _ := hp40
  have b41 := mul_lt x.l4 y.l1 32 56 hx4 hy1
  generalize hp41 : x.l4 * y.l1 = p41 at b41 hxy ⊢
  replace hp41 : Hide _ := hp41
  have b42 := mul_lt x.l4 y.l2 32 56 hx4 hy2
  generalize hp42 : x.l4 * y.l2 = p42 at b42 hxy ⊢
  replace hp42 : Hide _ := hp42
  have b43 := mul_lt x.l4 y.l3 32 56 hx4 hy3
  generalize hp43 : x.l4 * y.l3 = p43 at b43 hxy ⊢
  replace hp43 : Hide _ := hp43
  have b44 := mul_lt x.l4 y.l4 32 32 hx4 hy4
  generalize hp44 : x.l4 * y.l4 = p44 at b44 hxy ⊢
  replace hp44 : Hide _ := hp44
  simp only [Nat.reduceAdd] at *
  -- columns
  obtain ⟨f0, r10, e1, e2, d0, hr10, hf0⟩ := low_col p00 (by omega)
  simp only [e1, e2]; clear e1 e2
  replace d0 : Hide _ := d0
  peel c1 hc1; rw [ck128_bind c1 (by omega)]
  obtain ⟨f1, r11, e1, e2, d1, hr11, hf1⟩ := low_col c1 (by omega)
  simp only [e1, e2]; clear e1 e2
  replace hc1 : Hide _ := hc1; replace d1 : Hide _ := d1
  peel c2 hc2; rw [ck128_bind c2 (by omega)]
  obtain ⟨f2, r12, e1, e2, d2, hr12, hf2⟩ := low_col c2 (by omega)
  simp only [e1, e2]; clear e1 e2
  replace hc2 : Hide _ := hc2; replace d2 : Hide _ := d2
  peel c3 hc3; rw [ck128_bind c3 (by omega)]
  obtain ⟨f3, r13, e1, e2, d3, hr13, hf3⟩ := low_col c3 (by omega)
  simp only [e1, e2]; clear e1 e2
  replace hc3 : Hide _ := hc3; replace d3 : Hide _ := d3
  peel c4 hc4; rw [ck128_bind c4 (by omega)]
  obtain ⟨f4, w4, z4, e1, e2, -, d4, hw4, hz4, hf4⟩ := split_col24 c4 (by omega)
  obtain ⟨h4, r14, e3, d4', hr14⟩ := low40 c4
  simp only [e1, e2, e3]; clear e1 e2 e3
  replace hc4 : Hide _ := hc4; replace d4 : Hide _ := d4; replace d4' : Hide _ := d4'
  peel c5 hc5; rw [ck128_bind c5 (by omega)]
  obtain ⟨f5, w5, z5, e1, e2, e3, d5, hw5, hz5, hf5⟩ := split_col24 c5 (by omega)
  simp only [e1, e2, e3]; clear e1 e2 e3
  replace hc5 : Hide _ := hc5; replace d5 : Hide _ := d5
  peel c6 hc6; rw [ck128_bind c6 (by omega)]
  obtain ⟨f6, w6, z6, e1, e2, e3, d6, hw6, hz6, hf6⟩ := split_col24 c6 (by omega)
  simp only [e1, e2, e3]; clear e1 e2 e3
  replace hc6 : Hide _ := hc6; replace d6 : Hide _ := d6
  peel c7 hc7; rw [ck128_bind c7 (by omega)]
  obtain ⟨f7, w7, z7, e1, e2, e3, d7, hw7, hz7, hf7⟩ := split_col24 c7 (by omega)
  simp only [e1, e2, e3]; clear e1 e2 e3
  replace hc7 : Hide _ := hc7; replace d7 : Hide _ := d7
  peel c8 hc8; rw [ck128_bind c8 (by omega)]
  obtain ⟨f8, w8, z8, e1, e2, e3, d8, hw8, hz8, hf8⟩ := split_col24 c8 (by omega)
  simp only [e1, e2, e3]; clear e1 e2 e3
  have hf8' : f8 < 2^10 := by omega
  replace hc8 : Hide _ := hc8; replace d8 : Hide _ := d8
  rw [shl64_small f8 32 (by omega)]
  rw [or_add w4 z5 32 hw4, or_add w5 z6 32 hw5, or_add w6 z7 32 hw6, or_add w7 z8 32 hw7, or_add w8 f8 32 hw8]
  have hq : (Scalar.mk (w4 + z5 * 2 ^ 32) (w5 + z6 * 2 ^ 32) (w6 + z7 * 2 ^ 32) (w7 + z8 * 2 ^ 32) (w8 + f8 * 2 ^ 32)).val
      = (p00 + (p01 + p10) * 2^56 + (p02 + p20 + p11) * 2^112 + (p03 + p30 + p12 + p21) * 2^168 + (p04 + p40 + p31 + p13 + p22) * 2^224 + (p41 + p14 + p23 + p32) * 2^280 + (p42 + p24 + p33) * 2^336 + (p43 + p34) * 2^392 + p44 * 2^448) / 2^248 := by
    simp only [Scalar.val]
    clear hxy
    have := d0.out; have := d1.out; have := d2.out; have := d3.out; have := d4.out; have := d4'.out; have := d5.out; have := d6.out; have := d7.out; have := d8.out
    have := hc1.out; have := hc2.out; have := hc3.out; have := hc4.out; have := hc5.out; have := hc6.out; have := hc7.out; have := hc8.out
    omega
  have hr : (Scalar.mk r10 r11 r12 r13 r14).val = (p00 + (p01 + p10) * 2^56 + (p02 + p20 + p11) * 2^112 + (p03 + p30 + p12 + p21) * 2^168 + (p04 + p40 + p31 + p13 + p22) * 2^224 + (p41 + p14 + p23 + p32) * 2^280 + (p42 + p24 + p33) * 2^336 + (p43 + p34) * 2^392 + p44 * 2^448) % 2^264 := by
    simp only [Scalar.val]
    clear hxy hq
    have := d0.out; have := d1.out; have := d2.out; have := d3.out; have := d4.out; have := d4'.out; have := d5.out; have := d6.out; have := d7.out; have := d8.out
    have := hc1.out; have := hc2.out; have := hc3.out; have := hc4.out; have := hc5.out; have := hc6.out; have := hc7.out; have := hc8.out
    omega
  exact barrett_spec _ _ _ hxy (by show _ + _ < _; omega) (by show _ + _ < _; omega) (by show _ + _ < _; omega)
    (by show _ + _ < _; omega) (by show _ + _ < _; omega) hr10 hr11 hr12 hr13 hr14 hq hr

theorem low_col64 (c : Nat) : ∃ m f, (c &&& MASK56) = m ∧ shr64 c 56 = f ∧ c = f * 2^56 + m ∧ m < 2^56 := by
  refine ⟨_, _, rfl, rfl, ?_⟩
  unfold shr64; rw [MASK56_eq, and_mask, Nat.shiftRight_eq_div_pow]; omega

/-- `add`: one conditional subtraction of L from the limb-wise sum (no overflow for limbs below 2^62) -/
theorem add_spec (x y : Scalar)
    (hx0 : x.l0 < 2^56) (hx1 : x.l1 < 2^56) (hx2 : x.l2 < 2^56) (hx3 : x.l3 < 2^56) (hx4 : x.l4 < 2^62)
    (hy0 : y.l0 < 2^56) (hy1 : y.l1 < 2^56) (hy2 : y.l2 < 2^56) (hy3 : y.l3 < 2^56) (hy4 : y.l4 < 2^62) :
    ∃ o, add x y = some o ∧
      o.val = (if x.val + y.val < Spec.ScalarL.L then x.val + y.val else x.val + y.val - Spec.ScalarL.L) ∧
      o.l0 < 2^56 ∧ o.l1 < 2^56 ∧ o.l2 < 2^56 ∧ o.l3 < 2^56 ∧ o.l4 ≤ x.l4 + y.l4 + 1 := by
  unfold add
  peel c0 hc0; rw [ck64_bind c0 (by omega)]
  obtain ⟨r0, f0, e1, e2, d0, hr0⟩ := low_col64 c0
  simp only [e1, e2]; clear e1 e2
  peel s1 hs1; rw [ck64_bind s1 (by omega)]
  peel c1 hc1; rw [ck64_bind c1 (by omega)]
  obtain ⟨r1, f1, e1, e2, d1, hr1⟩ := low_col64 c1
  simp only [e1, e2]; clear e1 e2
  peel s2 hs2; rw [ck64_bind s2 (by omega)]
  peel c2 hc2; rw [ck64_bind c2 (by omega)]
  obtain ⟨r2, f2, e1, e2, d2, hr2⟩ := low_col64 c2
  simp only [e1, e2]; clear e1 e2
  peel s3 hs3; rw [ck64_bind s3 (by omega)]
  peel c3 hc3; rw [ck64_bind c3 (by omega)]
  obtain ⟨r3, f3, e1, e2, d3, hr3⟩ := low_col64 c3
  simp only [e1, e2]; clear e1 e2
  peel s4 hs4; rw [ck64_bind s4 (by omega)]
  peel c4 hc4; rw [ck64_bind c4 (by omega)]
  obtain ⟨o, ho, v, a0, a1, a2, a3, a4⟩ := reduce256_spec ⟨r0, r1, r2, r3, c4⟩ hr0 hr1 hr2 hr3 (by show c4 < 2^63; omega)
  refine ⟨o, ho, ?_, a0, a1, a2, a3, ?_⟩
  · have e : (Scalar.mk r0 r1 r2 r3 c4).val = x.val + y.val := by
      simp only [Scalar.val]; omega
    rw [e] at v; exact v
  · simp only [] at a4; omega

theorem add_mod (x y : Scalar) (hx : Inv x) (hy : Inv y) (h : x.val + y.val < 2 * Spec.ScalarL.L) :
    ∃ o, add x y = some o ∧ o.val = (x.val + y.val) % Spec.ScalarL.L ∧ Inv o := by
  obtain ⟨hx0, hx1, hx2, hx3, hx4⟩ := hx
  obtain ⟨hy0, hy1, hy2, hy3, hy4⟩ := hy
  obtain ⟨o, ho, v, a0, a1, a2, a3, a4⟩ := add_spec x y hx0 hx1 hx2 hx3 (by omega) hy0 hy1 hy2 hy3 (by omega)
  have hv : o.val = (x.val + y.val) % Spec.ScalarL.L := by
    generalize x.val + y.val = s at *
    unfold Spec.ScalarL.L at *
    split at v <;> omega
  refine ⟨o, ho, hv, a0, a1, a2, a3, ?_⟩
  have : o.val < Spec.ScalarL.L := by rw [hv]; exact Nat.mod_lt _ (by decide)
  unfold Scalar.val Spec.ScalarL.L at this; omega

/-- `muladd a b c = (a*b + c) mod L` for every 256-bit `a`, `b` and reduced `c` -/
theorem muladd_spec (a b c : Scalar) (ha : Inv a) (hb : Inv b) (hc : Inv c) (hcL : c.val < Spec.ScalarL.L) :
    ∃ o, muladd a b c = some o ∧ o.val = (a.val * b.val + c.val) % Spec.ScalarL.L ∧ Inv o := by
  obtain ⟨m, hm, vm, im⟩ := mul_spec a b ha hb
  have hmL : m.val < Spec.ScalarL.L := by rw [vm]; exact Nat.mod_lt _ (by decide)
  obtain ⟨o, ho, vo, io⟩ := add_mod m c im hc (by omega)
  refine ⟨o, ?_, ?_, io⟩
  · unfold muladd; exact bind_some_of (a := mul a b) hm ho
  · rw [vo, vm, Nat.add_mod, Nat.mod_mod, ← Nat.add_mod]
end Cx.Proofs.Scalar64
