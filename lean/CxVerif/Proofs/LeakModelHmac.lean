/-
  Proofs.LeakModelHmac — (d) HMAC: a small relational logic `NI` for the panic-aware leakage monad (two runs have the
  same trace, panic together, and end in related values), the interface `DigestLeak` (what is assumed of the digest type
  parameter: erasure, and that its events, its panics and its public shadow depend on the public shadow and on
  LENGTHS only), erasure and non-interference of `expand_key`, `create_keys`, `Hmac::new`, `input`, `raw_result`,
  `result` and of the one-shot MAC.
-/
import CxVerif.Impl.LeakModelSym
import CxVerif.Proofs.LeakModel
set_option linter.unusedSimpArgs false
set_option linter.unusedVariables false
namespace Cx.Proofs.LeakModel
open Cx Cx.Impl Cx.Impl.LeakModel Cx.Impl.Digest Cx.Impl.Hmac

/-! ### relational logic -/

/-- the two runs have the same trace, panic together, and their results (if any) are related by `R` -/
structure NI {α : Type} (m m' : LO α) (R : α → α → Prop) : Prop where
  tr : m.tr = m'.tr
  both : m.val.isSome = m'.val.isSome
  rel : ∀ a a', m.val = some a → m'.val = some a' → R a a'

theorem NI.pure {α : Type} {R : α → α → Prop} (a a' : α) (h : R a a') : NI (pure a : LO α) (pure a') R :=
  ⟨by rw [LO.pure_tr, LO.pure_tr], by rw [LO.pure_val, LO.pure_val]; rfl,
   fun x x' hx hx' => by rw [LO.pure_val] at hx hx'; cases hx; cases hx'; exact h⟩

theorem NI.emit (e : Event) : NI (LO.emit e) (LO.emit e) (fun _ _ => True) :=
  ⟨rfl, rfl, fun _ _ _ _ => trivial⟩

theorem NI.lift {α : Type} {R : α → α → Prop} (x x' : Option α) (hs : x.isSome = x'.isSome)
    (hr : ∀ a a', x = some a → x' = some a' → R a a') : NI (LO.lift x) (LO.lift x') R :=
  ⟨by rw [LO.lift_tr, LO.lift_tr], by rw [LO.lift_val, LO.lift_val]; exact hs,
   fun a a' h h' => by rw [LO.lift_val] at h h'; exact hr a a' h h'⟩

theorem NI.ofLeakM {α : Type} {R : α → α → Prop} (m m' : LeakM α) (ht : m.tr = m'.tr) (hr : R m.val m'.val) :
    NI (LO.ofLeakM m) (LO.ofLeakM m') R :=
  ⟨by rw [LO.ofLeakM_tr, LO.ofLeakM_tr, ht], by rw [LO.ofLeakM_val, LO.ofLeakM_val]; rfl,
   fun a a' h h' => by rw [LO.ofLeakM_val] at h h'; cases h; cases h'; exact hr⟩

theorem NI.mono {α : Type} {R S : α → α → Prop} {m m' : LO α} (h : NI m m' R) (hrs : ∀ a a', R a a' → S a a') :
    NI m m' S := ⟨h.tr, h.both, fun a a' x x' => hrs a a' (h.rel a a' x x')⟩

theorem NI.bind {α β : Type} {R : α → α → Prop} {S : β → β → Prop} {m m' : LO α} {f f' : α → LO β}
    (h : NI m m' R) (hf : ∀ a a', R a a' → NI (f a) (f' a') S) : NI (m >>= f) (m' >>= f') S := by
  cases hm : m.val with
  | none =>
    have hm' : m'.val = none := by
      have := h.both; rw [hm] at this
      cases h' : m'.val with
      | none => rfl
      | some a => rw [h'] at this; cases this
    refine ⟨?_, ?_, ?_⟩
    · rw [LO.bind_tr_none m f hm, LO.bind_tr_none m' f' hm', h.tr]
    · rw [LO.bind_val, LO.bind_val, hm, hm']; rfl
    · intro b b' hb; rw [LO.bind_val, hm] at hb; cases hb
  | some a =>
    have ⟨a', hm'⟩ : ∃ a', m'.val = some a' := by
      have := h.both; rw [hm] at this
      cases h' : m'.val with
      | none => rw [h'] at this; cases this
      | some a' => exact ⟨a', rfl⟩
    have hfa := hf a a' (h.rel a a' hm hm')
    refine ⟨?_, ?_, ?_⟩
    · rw [LO.bind_tr_some m f a hm, LO.bind_tr_some m' f' a' hm', h.tr, hfa.tr]
    · rw [LO.bind_val_some m f a hm, LO.bind_val_some m' f' a' hm']; exact hfa.both
    · intro b b' hb hb'
      rw [LO.bind_val_some m f a hm] at hb
      rw [LO.bind_val_some m' f' a' hm'] at hb'
      exact hfa.rel b b' hb hb'

/-- a test on PUBLIC data takes the same branch in both runs -/
theorem NI.ite {α : Type} {R : α → α → Prop} {c c' : Prop} [Decidable c] [Decidable c'] (hc : c ↔ c')
    {t e t' e' : LO α} (ht : NI t t' R) (he : NI e e' R) : NI (if c then t else e) (if c' then t' else e') R := by
  by_cases h : c
  · rw [if_pos h, if_pos (hc.mp h)]; exact ht
  · rw [if_neg h, if_neg (fun h' => h (hc.mpr h'))]; exact he

/-! ### what is assumed of the digest type -/

variable {δ : Type}

/-- the instrumented digest `DL` computes the digest model `D`, and everything observable about it — events, panics,
    the public shadow `pub` of its state (buffer fill, length counters, flags, sizes) — is determined by the public
    shadow and by the LENGTHS of its arguments -/
structure DigestLeak (D : DigestModel δ) (DL : DigestL δ) where
  π : Type
  pub : δ → π
  input_val : ∀ d b, (DL.inputL d b).val = D.input d b
  result_val : ∀ d n, (DL.resultL d n).val = D.result d n
  reset_val : ∀ d, (DL.resetL d).val = D.reset d
  input_ni : ∀ d d' b b', pub d = pub d' → b.length = b'.length →
    NI (DL.inputL d b) (DL.inputL d' b') (fun e e' => pub e = pub e')
  result_ni : ∀ d d' n, pub d = pub d' →
    NI (DL.resultL d n) (DL.resultL d' n) (fun r r' => pub r.1 = pub r'.1 ∧ r.2.length = r'.2.length)
  reset_ni : ∀ d d', pub d = pub d' → NI (DL.resetL d) (DL.resetL d') (fun e e' => pub e = pub e')
  block_size_pub : ∀ d d', pub d = pub d' → D.block_size d = D.block_size d'
  output_bits_pub : ∀ d d', pub d = pub d' → D.output_bits d = D.output_bits d'

variable {D : DigestModel δ} {DL : DigestL δ}

theorem DigestLeak.output_bytes_pub (L : DigestLeak D DL) (d d' : δ) (h : L.pub d = L.pub d') :
    D.output_bytes d = D.output_bytes d' := by
  unfold DigestModel.output_bytes; rw [L.output_bits_pub d d' h]

/-! ### erasure -/

theorem derive_keyL_val (key : Bytes) (mask : UInt8) : (derive_keyL key mask).val = derive_key key mask := by
  have h := forL_pure (fun (acc : Bytes) (b : UInt8) => acc ++ [b ^^^ mask]) key []
  unfold derive_keyL derive_key
  rw [h.2, foldl_snoc (fun b : UInt8 => b ^^^ mask)]
  rfl

theorem derive_keyL_tr (key : Bytes) (mask : UInt8) : (derive_keyL key mask).tr = [Event.loopBound key.length] :=
  (forL_pure (fun (acc : Bytes) (b : UInt8) => acc ++ [b ^^^ mask]) key []).1

theorem derive_key_length (key : Bytes) (mask : UInt8) : (derive_key key mask).length = key.length := by
  simp [derive_key]

theorem expand_keyL_val (L : DigestLeak D DL) (d : δ) (key : Bytes) :
    (expand_keyL D DL d key).val = expand_key D d key := by
  unfold expand_keyL expand_key
  rw [LO.emit_bind_val, LO.emit_bind_val]
  by_cases h : key.length ≤ D.block_size d
  · rw [if_pos h, if_pos h, LO.emit_bind_val]; exact LO.pure_val _
  · rw [if_neg h, if_neg h, LO.bind_val, L.input_val]
    cases D.input d key with
    | none => rfl
    | some d1 =>
      simp only [Option.bind_some]
      rw [LO.emit_bind_val]
      by_cases h2 : ¬ D.output_bytes d ≤ D.block_size d
      · rw [if_pos h2, if_pos h2]; exact LO.lift_val _
      · rw [if_neg h2, if_neg h2, LO.bind_val, L.result_val]
        cases D.result d1 (D.output_bytes d) with
        | none => rfl
        | some r =>
          simp only [Option.bind_some]
          rw [LO.bind_val, L.reset_val]
          cases D.reset r.1 with
          | none => rfl
          | some d2 => exact LO.pure_val _

theorem create_keysL_val (L : DigestLeak D DL) (d : δ) (key : Bytes) :
    (create_keysL D DL d key).val = create_keys D d key := by
  unfold create_keysL create_keys
  rw [LO.bind_val, expand_keyL_val L]
  cases expand_key D d key with
  | none => rfl
  | some r =>
    simp only [Option.bind_some]
    rw [LO.emit_bind_val, LO.bind_val_some _ _ _ (LO.ofLeakM_val _), LO.bind_val_some _ _ _ (LO.ofLeakM_val _),
      derive_keyL_val, derive_keyL_val]
    exact LO.pure_val _

theorem Hmac.newL_val (L : DigestLeak D DL) (d : δ) (key : Bytes) : (Hmac.newL D DL d key).val = Hmac.new D d key := by
  unfold Hmac.newL Hmac.new
  rw [LO.bind_val, create_keysL_val L]
  cases create_keys D d key with
  | none => rfl
  | some r =>
    simp only [Option.bind_some]
    rw [LO.bind_val, L.input_val]
    cases D.input r.1 r.2.1 with
    | none => rfl
    | some d1 => exact LO.pure_val _

theorem Hmac.inputL_val (L : DigestLeak D DL) (h : Hmac δ) (data : Bytes) :
    (Hmac.inputL DL h data).val = Hmac.input D h data := by
  unfold Hmac.inputL Hmac.input
  rw [LO.emit_bind_val]
  by_cases hf : h.finished = true
  · rw [if_pos hf, if_pos hf]; exact LO.lift_val _
  · rw [if_neg hf, if_neg hf, LO.bind_val, L.input_val]
    cases D.input h.digest data with
    | none => rfl
    | some d1 => exact LO.pure_val _

theorem Hmac.raw_resultL_val (L : DigestLeak D DL) (h : Hmac δ) (n : Nat) :
    (Hmac.raw_resultL DL h n).val = Hmac.raw_result D h n := by
  unfold Hmac.raw_resultL Hmac.raw_result
  rw [LO.emit_bind_val, LO.bind_val]
  have step : (if (!h.finished) = true then do
        let r ← DL.resultL h.digest n
        let d ← DL.resetL r.1
        let d ← DL.inputL d h.o_key
        let d ← DL.inputL d r.2
        pure { h with digest := d, finished := true }
      else pure h : LO (Hmac δ)).val =
      (if (!h.finished) = true then
        match D.result h.digest n with
        | none => none
        | some (d, output) =>
          match D.reset d with
          | none => none
          | some d =>
            match D.input d h.o_key with
            | none => none
            | some d =>
              match D.input d output with
              | none => none
              | some d => some { h with digest := d, finished := true }
      else some h) := by
    by_cases hf : (!h.finished) = true
    · rw [if_pos hf, if_pos hf, LO.bind_val, L.result_val]
      cases D.result h.digest n with
      | none => rfl
      | some r =>
        obtain ⟨d0, out⟩ := r
        simp only [Option.bind_some]
        rw [LO.bind_val, L.reset_val]
        cases D.reset d0 with
        | none => rfl
        | some d1 =>
          simp only [Option.bind_some]
          rw [LO.bind_val, L.input_val]
          cases D.input d1 h.o_key with
          | none => rfl
          | some d2 =>
            simp only [Option.bind_some]
            rw [LO.bind_val, L.input_val]
            cases D.input d2 out with
            | none => rfl
            | some d3 => exact LO.pure_val _
    · rw [if_neg hf, if_neg hf]; exact LO.pure_val _
  rw [step]
  generalize (if (!h.finished) = true then _ else some h : Option (Hmac δ)) = s1
  cases s1 with
  | none => rfl
  | some h1 =>
    simp only [Option.bind_some]
    rw [LO.bind_val, L.result_val]
    cases D.result h1.digest n with
    | none => rfl
    | some r => exact LO.pure_val _

theorem Hmac.resultL_val (L : DigestLeak D DL) (h : Hmac δ) : (Hmac.resultL D DL h).val = Hmac.result D h := by
  unfold Hmac.resultL Hmac.result
  rw [LO.emit_bind_val]
  exact Hmac.raw_resultL_val L h _

/-- **erasure (d)**: the instrumented one-shot HMAC computes `Impl.Hmac.oneShot` -/
theorem hmacOneShotL_val (L : DigestLeak D DL) (d : δ) (key msg : Bytes) :
    (hmacOneShotL D DL d key msg).val = oneShot D d key msg := by
  unfold hmacOneShotL oneShot
  rw [LO.bind_val, Hmac.newL_val L]
  cases Hmac.new D d key with
  | none => rfl
  | some h =>
    simp only [Option.bind_some]
    rw [LO.bind_val, Hmac.inputL_val L]
    cases Hmac.input D h msg with
    | none => rfl
    | some h1 =>
      simp only [Option.bind_some]
      rw [LO.bind_val, Hmac.resultL_val L]
      cases Hmac.result D h1 with
      | none => rfl
      | some r => exact LO.pure_val _

/-! ### non-interference -/

theorem copy_prefix_length (dst src : Bytes) : (copy_prefix dst src).length = src.length + (dst.length - src.length) := by
  simp [copy_prefix]

theorem zeros_length' (n : Nat) : (zeros n).length = n := by simp [zeros]

/-- two HMAC objects are indistinguishable: same public shadow of the digest, same key-block sizes, same flag -/
def LowH (L : DigestLeak D DL) (h h' : Hmac δ) : Prop :=
  L.pub h.digest = L.pub h'.digest ∧ h.i_key.length = h'.i_key.length ∧ h.o_key.length = h'.o_key.length ∧
    h.finished = h'.finished

theorem expand_keyL_ni (L : DigestLeak D DL) (d d' : δ) (key key' : Bytes) (hd : L.pub d = L.pub d')
    (hk : key.length = key'.length) :
    NI (expand_keyL D DL d key) (expand_keyL D DL d' key')
      (fun r r' => L.pub r.1 = L.pub r'.1 ∧ r.2.length = r'.2.length) := by
  unfold expand_keyL
  rw [← L.block_size_pub d d' hd, ← L.output_bytes_pub d d' hd, ← hk]
  refine NI.bind (NI.emit _) (fun _ _ _ => NI.bind (NI.emit _) (fun _ _ _ => NI.ite Iff.rfl ?_ ?_))
  · refine NI.bind (NI.emit _) (fun _ _ _ => NI.pure _ _ ⟨hd, ?_⟩)
    simp only [copy_prefix_length, hk]
  · refine NI.bind (L.input_ni d d' key key' hd hk) (fun e e' he => NI.bind (NI.emit _) (fun _ _ _ =>
      NI.ite Iff.rfl (NI.lift none none rfl (fun a a' h => by cases h)) ?_))
    refine NI.bind (L.result_ni e e' _ he) (fun r r' hr => NI.bind (L.reset_ni r.1 r'.1 hr.1)
      (fun f f' hf => NI.pure _ _ ⟨hf, ?_⟩))
    simp only [copy_prefix_length, hr.2]

theorem create_keysL_ni (L : DigestLeak D DL) (d d' : δ) (key key' : Bytes) (hd : L.pub d = L.pub d')
    (hk : key.length = key'.length) :
    NI (create_keysL D DL d key) (create_keysL D DL d' key')
      (fun r r' => L.pub r.1 = L.pub r'.1 ∧ r.2.1.length = r'.2.1.length ∧ r.2.2.length = r'.2.2.length) := by
  unfold create_keysL
  refine NI.bind (expand_keyL_ni L d d' key key' hd hk) (fun r r' hr => ?_)
  rw [hr.2]
  refine NI.bind (NI.emit _) (fun _ _ _ => ?_)
  refine NI.bind (R := fun i i' => i.length = i'.length) (NI.ofLeakM _ _ ?_ ?_) (fun i i' hi => ?_)
  · rw [derive_keyL_tr, derive_keyL_tr, hr.2]
  · rw [derive_keyL_val, derive_keyL_val, derive_key_length, derive_key_length, hr.2]
  refine NI.bind (R := fun o o' => o.length = o'.length) (NI.ofLeakM _ _ ?_ ?_) (fun o o' ho => ?_)
  · rw [derive_keyL_tr, derive_keyL_tr, hr.2]
  · rw [derive_keyL_val, derive_keyL_val, derive_key_length, derive_key_length, hr.2]
  exact NI.pure _ _ ⟨hr.1, hi, ho⟩

theorem Hmac.newL_ni (L : DigestLeak D DL) (d d' : δ) (key key' : Bytes) (hd : L.pub d = L.pub d')
    (hk : key.length = key'.length) : NI (Hmac.newL D DL d key) (Hmac.newL D DL d' key') (LowH L) := by
  unfold Hmac.newL
  refine NI.bind (create_keysL_ni L d d' key key' hd hk) (fun r r' hr => ?_)
  refine NI.bind (L.input_ni r.1 r'.1 r.2.1 r'.2.1 hr.1 hr.2.1) (fun e e' he => ?_)
  exact NI.pure _ _ ⟨he, hr.2.1, hr.2.2, rfl⟩

theorem Hmac.inputL_ni (L : DigestLeak D DL) (h h' : Hmac δ) (data data' : Bytes) (hl : LowH L h h')
    (hd : data.length = data'.length) : NI (Hmac.inputL DL h data) (Hmac.inputL DL h' data') (LowH L) := by
  unfold Hmac.inputL
  obtain ⟨h1, h2, h3, h4⟩ := hl
  rw [← h4]
  refine NI.bind (NI.emit _) (fun _ _ _ => NI.ite Iff.rfl (NI.lift none none rfl (fun a a' h => by cases h)) ?_)
  refine NI.bind (L.input_ni _ _ data data' h1 hd) (fun e e' he => NI.pure _ _ ⟨he, h2, h3, rfl⟩)

theorem Hmac.raw_resultL_ni (L : DigestLeak D DL) (h h' : Hmac δ) (n : Nat) (hl : LowH L h h') :
    NI (Hmac.raw_resultL DL h n) (Hmac.raw_resultL DL h' n)
      (fun r r' => LowH L r.1 r'.1 ∧ r.2.length = r'.2.length) := by
  unfold Hmac.raw_resultL
  obtain ⟨h1, h2, h3, h4⟩ := hl
  rw [← h4]
  refine NI.bind (NI.emit _) (fun _ _ _ => ?_)
  refine NI.bind (R := LowH L) (NI.ite Iff.rfl ?_ (NI.pure _ _ ⟨h1, h2, h3, h4⟩)) (fun s s' hs => ?_)
  · refine NI.bind (L.result_ni _ _ n h1) (fun r r' hr => ?_)
    refine NI.bind (L.reset_ni _ _ hr.1) (fun e e' he => ?_)
    refine NI.bind (L.input_ni _ _ _ _ he h3) (fun e2 e2' he2 => ?_)
    refine NI.bind (L.input_ni _ _ _ _ he2 hr.2) (fun e3 e3' he3 => ?_)
    exact NI.pure _ _ ⟨he3, h2, h3, rfl⟩
  · refine NI.bind (L.result_ni _ _ n hs.1) (fun r r' hr => ?_)
    exact NI.pure _ _ ⟨⟨hr.1, hs.2.1, hs.2.2.1, hs.2.2.2⟩, hr.2⟩

theorem Hmac.resultL_ni (L : DigestLeak D DL) (h h' : Hmac δ) (hl : LowH L h h') :
    NI (Hmac.resultL D DL h) (Hmac.resultL D DL h')
      (fun r r' => LowH L r.1 r'.1 ∧ r.2.length = r'.2.length) := by
  unfold Hmac.resultL
  rw [← L.output_bytes_pub _ _ hl.1]
  exact NI.bind (NI.emit _) (fun _ _ _ => Hmac.raw_resultL_ni L h h' _ hl)

/-- **non-interference (d)**: the same digest object, keys of the same length, messages of the same length ⇒ the same
    trace (and the two computations panic together) -/
theorem hmacOneShotL_ni (L : DigestLeak D DL) (d d' : δ) (key key' msg msg' : Bytes) (hd : L.pub d = L.pub d')
    (hk : key.length = key'.length) (hm : msg.length = msg'.length) :
    NI (hmacOneShotL D DL d key msg) (hmacOneShotL D DL d' key' msg') (fun t t' => t.length = t'.length) := by
  unfold hmacOneShotL
  refine NI.bind (Hmac.newL_ni L d d' key key' hd hk) (fun h h' hh => ?_)
  refine NI.bind (Hmac.inputL_ni L h h' msg msg' hh hm) (fun h1 h1' hh1 => ?_)
  refine NI.bind (Hmac.resultL_ni L h1 h1' hh1) (fun r r' hr => NI.pure _ _ hr.2)

/-! ### (d) hash-engine buffering: `FixedBuffer::input` -/
section FixedBuf
variable {σ : Type}

theorem FixedBuffer.input_restL_val (N : Nat) (self : FixedBuffer) (inp : Bytes) (i : Nat)
    (funcL : σ → Bytes → LO σ) (func : σ → Bytes → Option σ) (hf : ∀ s b, (funcL s b).val = func s b) (st : σ) :
    (FixedBuffer.input_restL N self inp i funcL st).val = FixedBuffer.input_rest N self inp i func st := by
  unfold FixedBuffer.input_restL FixedBuffer.input_rest
  rw [LO.emit_bind_val]
  by_cases h0 : inp.length < i
  · rw [if_pos h0, if_pos h0]; exact LO.lift_val _
  · rw [if_neg h0, if_neg h0, LO.emit_bind_val, LO.bind_val]
    have hstep : (if inp.length - i ≥ N then do
          LO.emit (.index i)
          LO.emit (.length ((inp.length - i) / N * N))
          let blocks ← LO.lift (slice inp i (i + (inp.length - i) / N * N))
          let st' ← funcL st blocks
          pure (st', i + (inp.length - i) / N * N)
        else pure (st, i) : LO (σ × Nat)).val =
        (if inp.length - i ≥ N then
          match slice inp i (i + (inp.length - i) / N * N) with
          | none => none
          | some blocks =>
            match func st blocks with
            | none => none
            | some st' => some (st', i + (inp.length - i) / N * N)
        else some (st, i)) := by
      by_cases h1 : inp.length - i ≥ N
      · rw [if_pos h1, if_pos h1, LO.emit_bind_val, LO.emit_bind_val, LO.bind_val, LO.lift_val]
        cases slice inp i (i + (inp.length - i) / N * N) with
        | none => rfl
        | some blocks =>
          simp only [Option.bind_some]
          rw [LO.bind_val, hf]
          cases func st blocks with
          | none => rfl
          | some st' => exact LO.pure_val _
      · rw [if_neg h1, if_neg h1]; exact LO.pure_val _
    rw [hstep]
    simp only []
    generalize (if inp.length - i ≥ N then _ else some (st, i) : Option (σ × Nat)) = step
    cases step with
    | none => rfl
    | some p =>
      obtain ⟨st1, i1⟩ := p
      simp only [Option.bind_some]
      by_cases h2 : inp.length < i1
      · rw [if_pos h2, if_pos h2]; exact LO.lift_val _
      · rw [if_neg h2, if_neg h2, LO.emit_bind_val, LO.bind_val, LO.lift_val]
        cases slice inp i1 inp.length with
        | none => rfl
        | some rest =>
          simp only [Option.bind_some]
          rw [LO.bind_val, LO.lift_val]
          cases copy_from_slice self.buffer 0 (inp.length - i1) rest with
          | none => rfl
          | some buffer => exact LO.pure_val _

/-- erasure: the instrumented `FixedBuffer::input` computes `Impl.FixedBuffer.input` (the model the MD-engine
    theorems of C01 / C02 are about), for every instrumented callback that computes the plain callback -/
theorem FixedBuffer.inputL_val (N : Nat) (self : FixedBuffer) (inp : Bytes)
    (funcL : σ → Bytes → LO σ) (func : σ → Bytes → Option σ) (hf : ∀ s b, (funcL s b).val = func s b) (st : σ) :
    (FixedBuffer.inputL N self inp funcL st).val = FixedBuffer.input N self inp func st := by
  unfold FixedBuffer.inputL FixedBuffer.input
  rw [LO.emit_bind_val]
  by_cases h0 : (self.buffer_idx != 0) = true
  · rw [if_pos h0, if_pos h0]
    by_cases h1 : N < self.buffer_idx
    · rw [if_pos h1, if_pos h1]; exact LO.lift_val _
    · rw [if_neg h1, if_neg h1, LO.emit_bind_val]
      by_cases h2 : inp.length ≥ N - self.buffer_idx
      · simp only [h2, if_true]
        rw [LO.emit_bind_val, LO.bind_val, LO.lift_val]
        cases slice inp 0 (N - self.buffer_idx) with
        | none => rfl
        | some head =>
          simp only [Option.bind_some]
          rw [LO.bind_val, LO.lift_val]
          cases copy_from_slice self.buffer self.buffer_idx N head with
          | none => rfl
          | some buffer =>
            simp only [Option.bind_some]
            rw [LO.bind_val, hf]
            cases func st buffer with
            | none => rfl
            | some st' =>
              simp only [Option.bind_some]
              exact FixedBuffer.input_restL_val N _ inp _ funcL func hf st'
      · simp only [h2, if_false]
        rw [LO.emit_bind_val, LO.emit_bind_val, LO.bind_val, LO.lift_val]
        cases copy_from_slice self.buffer self.buffer_idx (self.buffer_idx + inp.length) inp with
        | none => rfl
        | some buffer => exact LO.pure_val _
  · rw [if_neg h0, if_neg h0]
    exact FixedBuffer.input_restL_val N self inp 0 funcL func hf st

/-- two buffers are indistinguishable: same array size, same fill -/
def LowB (b b' : FixedBuffer) : Prop := b.buffer.length = b'.buffer.length ∧ b.buffer_idx = b'.buffer_idx

theorem slice_ni (a a' : Bytes) (lo hi : Nat) (h : a.length = a'.length) :
    NI (LO.lift (slice a lo hi)) (LO.lift (slice a' lo hi)) (fun x x' => x.length = x'.length) := by
  refine NI.lift _ _ ?_ ?_
  · unfold slice; rw [h]; split <;> rfl
  · intro x x' hx hx'
    unfold slice at hx hx'
    rw [h] at hx
    split at hx
    · cases hx; rw [if_pos (by assumption)] at hx'; cases hx'
      simp only [List.length_take, List.length_drop, h]
    · cases hx

theorem copy_from_slice_ni (d d' : Bytes) (lo hi : Nat) (s s' : Bytes) (hd : d.length = d'.length)
    (hs : s.length = s'.length) :
    NI (LO.lift (copy_from_slice d lo hi s)) (LO.lift (copy_from_slice d' lo hi s'))
      (fun x x' => x.length = x'.length) := by
  refine NI.lift _ _ ?_ ?_
  · unfold copy_from_slice; rw [hd, hs]; split <;> rfl
  · intro x x' hx hx'
    unfold copy_from_slice at hx hx'
    rw [hd, hs] at hx
    split at hx
    · cases hx; rw [if_pos (by assumption)] at hx'; cases hx'
      simp only [List.length_append, List.length_take, List.length_drop, hd, hs]
    · cases hx

variable {R : σ → σ → Prop}

theorem FixedBuffer.input_restL_ni (N : Nat) (b b' : FixedBuffer) (inp inp' : Bytes) (i : Nat)
    (funcL : σ → Bytes → LO σ)
    (hf : ∀ s s' x x', R s s' → x.length = x'.length → NI (funcL s x) (funcL s' x') R)
    (st st' : σ) (hb : LowB b b') (hi : inp.length = inp'.length) (hst : R st st') :
    NI (FixedBuffer.input_restL N b inp i funcL st) (FixedBuffer.input_restL N b' inp' i funcL st')
      (fun r r' => LowB r.1 r'.1 ∧ R r.2 r'.2) := by
  unfold FixedBuffer.input_restL
  rw [← hi, ← hb.2]
  refine NI.bind (NI.emit _) (fun _ _ _ => NI.ite Iff.rfl (NI.lift none none rfl (fun a a' h => by cases h)) ?_)
  refine NI.bind (NI.emit _) (fun _ _ _ => ?_)
  refine NI.bind (R := fun p p' => R p.1 p'.1 ∧ p.2 = p'.2) (NI.ite Iff.rfl ?_ (NI.pure _ _ ⟨hst, rfl⟩))
    (fun p p' hp => ?_)
  · refine NI.bind (NI.emit _) (fun _ _ _ => NI.bind (NI.emit _) (fun _ _ _ => ?_))
    refine NI.bind (slice_ni inp inp' _ _ hi) (fun x x' hx => ?_)
    refine NI.bind (hf st st' x x' hst hx) (fun s s' hs => NI.pure _ _ ⟨hs, rfl⟩)
  · rw [← hp.2]
    refine NI.ite Iff.rfl (NI.lift none none rfl (fun a a' h => by cases h)) ?_
    refine NI.bind (NI.emit _) (fun _ _ _ => ?_)
    refine NI.bind (slice_ni inp inp' _ _ hi) (fun x x' hx => ?_)
    refine NI.bind (copy_from_slice_ni _ _ _ _ _ _ hb.1 hx) (fun y y' hy => ?_)
    exact NI.pure _ _ ⟨⟨hy, rfl⟩, hp.1⟩

/-- **non-interference of `FixedBuffer::input`**: same array size, same fill, inputs of the same LENGTH, and a
    callback whose leakage depends on the length of its argument only ⇒ same trace, same panics, same fill afterwards -/
theorem FixedBuffer.inputL_ni (N : Nat) (b b' : FixedBuffer) (inp inp' : Bytes)
    (funcL : σ → Bytes → LO σ)
    (hf : ∀ s s' x x', R s s' → x.length = x'.length → NI (funcL s x) (funcL s' x') R)
    (st st' : σ) (hb : LowB b b') (hi : inp.length = inp'.length) (hst : R st st') :
    NI (FixedBuffer.inputL N b inp funcL st) (FixedBuffer.inputL N b' inp' funcL st')
      (fun r r' => LowB r.1 r'.1 ∧ R r.2 r'.2) := by
  unfold FixedBuffer.inputL
  rw [← hi, ← hb.2]
  refine NI.bind (NI.emit _) (fun _ _ _ => NI.ite Iff.rfl ?_ (FixedBuffer.input_restL_ni N b b' inp inp' 0 funcL hf st st' hb hi hst))
  refine NI.ite Iff.rfl (NI.lift none none rfl (fun a a' h => by cases h)) ?_
  refine NI.bind (NI.emit _) (fun _ _ _ => NI.ite Iff.rfl ?_ ?_)
  · refine NI.bind (NI.emit _) (fun _ _ _ => ?_)
    refine NI.bind (slice_ni inp inp' _ _ hi) (fun x x' hx => ?_)
    refine NI.bind (copy_from_slice_ni _ _ _ _ _ _ hb.1 hx) (fun y y' hy => ?_)
    refine NI.bind (hf st st' y y' hst hy) (fun s s' hs => ?_)
    exact FixedBuffer.input_restL_ni N ⟨y, 0⟩ ⟨y', 0⟩ inp inp' _ funcL hf s s' ⟨hy, rfl⟩ hi hs
  · refine NI.bind (NI.emit _) (fun _ _ _ => NI.bind (NI.emit _) (fun _ _ _ => ?_))
    refine NI.bind (copy_from_slice_ni _ _ _ _ _ _ hb.1 hi) (fun y y' hy => NI.pure _ _ ⟨⟨hy, rfl⟩, hst⟩)

end FixedBuf

end Cx.Proofs.LeakModel
