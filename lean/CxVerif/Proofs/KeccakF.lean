/-
  Proofs.KeccakF — the compact Keccak-f of src/hashing/sha3.rs (Impl.Sha3.keccak_f: θ with M5, the ρπ walk with
  PIL/ROTC, χ with M5, ι with RC) equals FIPS 202 Keccak-p[1600,24] (Spec.Keccak: ι∘χ∘π∘ρ∘θ, 24 rounds), for EVERY
  state; and the extracted tables equal the formula-generated constants.
-/
import CxVerif.Spec.Keccak
import CxVerif.Impl.Sha3
import CxVerif.Proofs.KeccakTactic
namespace Cx.Proofs.Keccak
open Cx Cx.Spec.Keccak
open Cx.Impl.Sha3 (idx upd aidx aupd)

/-! ## lists of 25 lanes -/

theorem list25 {α : Type} (l : List α) (h : l.length = 25) :
    ∃ a0 a1 a2 a3 a4 a5 a6 a7 a8 a9 a10 a11 a12 a13 a14 a15 a16 a17 a18 a19 a20 a21 a22 a23 a24 : α, l = [a0,a1,a2,a3,a4,a5,a6,a7,a8,a9,a10,a11,a12,a13,a14,a15,a16,a17,a18,a19,a20,a21,a22,a23,a24] := by
  rcases l with _ | ⟨a0, l⟩
  · simp at h
  rcases l with _ | ⟨a1, l⟩
  · simp at h
  rcases l with _ | ⟨a2, l⟩
  · simp at h
  rcases l with _ | ⟨a3, l⟩
  · simp at h
  rcases l with _ | ⟨a4, l⟩
  · simp at h
  rcases l with _ | ⟨a5, l⟩
  · simp at h
  rcases l with _ | ⟨a6, l⟩
  · simp at h
  rcases l with _ | ⟨a7, l⟩
  · simp at h
  rcases l with _ | ⟨a8, l⟩
  · simp at h
  rcases l with _ | ⟨a9, l⟩
  · simp at h
  rcases l with _ | ⟨a10, l⟩
  · simp at h
  rcases l with _ | ⟨a11, l⟩
  · simp at h
  rcases l with _ | ⟨a12, l⟩
  · simp at h
  rcases l with _ | ⟨a13, l⟩
  · simp at h
  rcases l with _ | ⟨a14, l⟩
  · simp at h
  rcases l with _ | ⟨a15, l⟩
  · simp at h
  rcases l with _ | ⟨a16, l⟩
  · simp at h
  rcases l with _ | ⟨a17, l⟩
  · simp at h
  rcases l with _ | ⟨a18, l⟩
  · simp at h
  rcases l with _ | ⟨a19, l⟩
  · simp at h
  rcases l with _ | ⟨a20, l⟩
  · simp at h
  rcases l with _ | ⟨a21, l⟩
  · simp at h
  rcases l with _ | ⟨a22, l⟩
  · simp at h
  rcases l with _ | ⟨a23, l⟩
  · simp at h
  rcases l with _ | ⟨a24, l⟩
  · simp at h
  rcases l with _ | ⟨b, l⟩
  · exact ⟨a0,a1,a2,a3,a4,a5,a6,a7,a8,a9,a10,a11,a12,a13,a14,a15,a16,a17,a18,a19,a20,a21,a22,a23,a24, rfl⟩
  · simp at h

theorem vec25 (v : Vector UInt64 25) :
    ∃ a0 a1 a2 a3 a4 a5 a6 a7 a8 a9 a10 a11 a12 a13 a14 a15 a16 a17 a18 a19 a20 a21 a22 a23 a24 : UInt64, v = #v[a0,a1,a2,a3,a4,a5,a6,a7,a8,a9,a10,a11,a12,a13,a14,a15,a16,a17,a18,a19,a20,a21,a22,a23,a24] := by
  obtain ⟨⟨l⟩, hl⟩ := v
  obtain ⟨a0,a1,a2,a3,a4,a5,a6,a7,a8,a9,a10,a11,a12,a13,a14,a15,a16,a17,a18,a19,a20,a21,a22,a23,a24, rfl⟩ := list25 l (by simpa using hl)
  exact ⟨a0,a1,a2,a3,a4,a5,a6,a7,a8,a9,a10,a11,a12,a13,a14,a15,a16,a17,a18,a19,a20,a21,a22,a23,a24, rfl⟩

/-! ## table obligations (re-checked on every run against the extracted tables) -/

/-- the 24 round constants of the source are the LFSR-generated ones of FIPS 202 Algorithm 5/6 -/
theorem RC_table : Cx.Extracted.Sha3.RC.map UInt64.toNat = (List.range 24).map RCnat := by decide +kernel

theorem RC_idx : ∀ i, i < 24 → idx Cx.Extracted.Sha3.RC i = some (RC i) := by decide +kernel

/-- ROTC is the sequence (t+1)(t+2)/2 mod 64, t = 0..23 -/
theorem ROTC_table : Cx.Extracted.Sha3.ROTC = (List.range 24).map (fun t => ((t + 1) * (t + 2) / 2) % 64) := by decide

/-- PIL is the walk of ρ composed with π: the lane at walk position t+1 (= π applied to position t),
    as index 5y+x; i.e. the lane written in step t of the compact loop -/
theorem PIL_table : Cx.Extracted.Sha3.PIL = (List.range 24).map (fun t => (rhoWalk (t + 1)).1 + 5 * (rhoWalk (t + 1)).2) := by decide

/-- the walk visits every lane except (0,0) exactly once: PIL is a permutation of 1..24 -/
theorem PIL_perm : ∀ i, i < 25 → 1 ≤ i → Cx.Extracted.Sha3.PIL.count i = 1 := by decide

theorem M5_table : Cx.Extracted.Sha3.M5 = (List.range 10).map (· % 5) := by decide

theorem consts_table : Cx.Extracted.Sha3.B = 200 ∧ Cx.Extracted.Sha3.NROUNDS = 24 := by decide

/-- digest sizes / domain-separation lengths of the macro invocations (`[bits, DIGESTLEN, DSLEN]`) and the
    context type every one-shot function of hashing/mod.rs uses -/
theorem variants_table :
    Cx.Extracted.Sha3.SHA3_VARIANTS = [[224, 28, 2], [256, 32, 2], [384, 48, 2], [512, 64, 2]] ∧
    Cx.Extracted.Sha3.KECCAK_VARIANTS = [[224, 28, 0], [256, 32, 0], [384, 48, 0], [512, 64, 0]] ∧
    Cx.Extracted.Sha3.ONESHOTS = [[3, 224, 28, 3, 224], [3, 256, 32, 3, 256], [3, 384, 48, 3, 384], [3, 512, 64, 3, 512],
                                  [0, 224, 28, 0, 224], [0, 256, 32, 0, 256], [0, 384, 48, 0, 384], [0, 512, 64, 0, 512]] := by
  decide

/-! ## one round -/

/-- the compact round with the round constant as a value -/
def roundC (rcv : UInt64) (s : Array UInt64) : Option (Array UInt64) := do
  let s ← Impl.Sha3.chi (← Impl.Sha3.rho_pi (← Impl.Sha3.theta s))
  aupd s 0 ((← aidx s 0) ^^^ rcv)

section lanes
variable (a0 a1 a2 a3 a4 a5 a6 a7 a8 a9 a10 a11 a12 a13 a14 a15 a16 a17 a18 a19 a20 a21 a22 a23 a24 : UInt64)

set_option maxRecDepth 100000 in
theorem theta_eq :
    Impl.Sha3.theta #[a0,a1,a2,a3,a4,a5,a6,a7,a8,a9,a10,a11,a12,a13,a14,a15,a16,a17,a18,a19,a20,a21,a22,a23,a24] = some (freeze (theta (thaw #v[a0,a1,a2,a3,a4,a5,a6,a7,a8,a9,a10,a11,a12,a13,a14,a15,a16,a17,a18,a19,a20,a21,a22,a23,a24]))).toArray := by
  kernel_rfl

set_option maxRecDepth 100000 in
theorem rho_pi_eq :
    Impl.Sha3.rho_pi #[a0,a1,a2,a3,a4,a5,a6,a7,a8,a9,a10,a11,a12,a13,a14,a15,a16,a17,a18,a19,a20,a21,a22,a23,a24] = some (freeze (pi (rho (thaw #v[a0,a1,a2,a3,a4,a5,a6,a7,a8,a9,a10,a11,a12,a13,a14,a15,a16,a17,a18,a19,a20,a21,a22,a23,a24])))).toArray := by
  kernel_rfl

set_option maxRecDepth 100000 in
theorem chi_eq :
    Impl.Sha3.chi #[a0,a1,a2,a3,a4,a5,a6,a7,a8,a9,a10,a11,a12,a13,a14,a15,a16,a17,a18,a19,a20,a21,a22,a23,a24] = some (freeze (chi (thaw #v[a0,a1,a2,a3,a4,a5,a6,a7,a8,a9,a10,a11,a12,a13,a14,a15,a16,a17,a18,a19,a20,a21,a22,a23,a24]))).toArray := by
  kernel_rfl

set_option maxRecDepth 100000 in
theorem iota_eq (rcv : UInt64) :
    aupd #[a0,a1,a2,a3,a4,a5,a6,a7,a8,a9,a10,a11,a12,a13,a14,a15,a16,a17,a18,a19,a20,a21,a22,a23,a24] 0 (a0 ^^^ rcv) = some (freeze (iota rcv (thaw #v[a0,a1,a2,a3,a4,a5,a6,a7,a8,a9,a10,a11,a12,a13,a14,a15,a16,a17,a18,a19,a20,a21,a22,a23,a24]))).toArray := by
  kernel_rfl

set_option maxRecDepth 100000 in
theorem roundC_eq (rcv : UInt64) :
    roundC rcv #[a0,a1,a2,a3,a4,a5,a6,a7,a8,a9,a10,a11,a12,a13,a14,a15,a16,a17,a18,a19,a20,a21,a22,a23,a24] = some (RndC #v[a0,a1,a2,a3,a4,a5,a6,a7,a8,a9,a10,a11,a12,a13,a14,a15,a16,a17,a18,a19,a20,a21,a22,a23,a24] rcv).toArray := by
  kernel_rfl

end lanes

theorem roundC_eq_vec (rcv : UInt64) (v : State) : roundC rcv v.toArray = some (RndC v rcv).toArray := by
  obtain ⟨a0,a1,a2,a3,a4,a5,a6,a7,a8,a9,a10,a11,a12,a13,a14,a15,a16,a17,a18,a19,a20,a21,a22,a23,a24, rfl⟩ := vec25 v
  exact roundC_eq a0 a1 a2 a3 a4 a5 a6 a7 a8 a9 a10 a11 a12 a13 a14 a15 a16 a17 a18 a19 a20 a21 a22 a23 a24 rcv

/-- the round of the code, with its table lookup `RC[round]`, is Rnd(A, ir) of FIPS 202 -/
theorem round_eq (v : State) (ir : Nat) (h : ir < 24) : Impl.Sha3.round v.toArray ir = some (Rnd v ir).toArray := by
  have h1 := roundC_eq_vec (RC ir) v
  have h2 := RC_idx ir h
  unfold Impl.Sha3.round Impl.Sha3.iota
  unfold roundC at h1
  rw [h2]
  exact h1

/-! ## 24 rounds -/

theorem rounds_eq (l : List Nat) (hl : ∀ i ∈ l, i < 24) (v : State) :
    l.foldlM Impl.Sha3.round v.toArray = some ((l.map RC).foldl RndC v).toArray := by
  induction l generalizing v with
  | nil => rfl
  | cons i l ih =>
    rw [List.foldlM_cons, round_eq v i (hl i (by simp))]
    simp only [Option.bind_eq_bind, Option.bind_some, List.map_cons, List.foldl_cons]
    exact ih (fun j hj => hl j (by simp [hj])) (Rnd v i)

/-- Keccak-f on lanes: the compact implementation is Keccak-p[1600,24], and it never panics -/
theorem keccak_f_lanes_eq (v : State) : Impl.Sha3.keccak_f_lanes v.toArray = some (keccakP v).toArray := by
  unfold Impl.Sha3.keccak_f_lanes keccakP
  rw [show Cx.Extracted.Sha3.NROUNDS = 24 from rfl]
  exact rounds_eq (List.range 24) (fun i hi => by simpa using hi) v

/-! ## bytes -/

theorem range25 : List.range 25 = [0,1,2,3,4,5,6,7,8,9,10,11,12,13,14,15,16,17,18,19,20,21,22,23,24] := by decide

theorem leU64_take (bs : Bytes) : leU64 (bs.take 8) = leU64 bs := by
  simp [leU64, List.take_take]

theorem read_eq (st : Bytes) (h : st.length = 200) :
    Impl.Sha3.read_u64v_le 25 st = some (stateOfBytes st).toArray := by
  unfold Impl.Sha3.read_u64v_le
  rw [if_pos (by omega), range25]
  simp only [List.map_cons, List.map_nil, leU64_take]
  rfl

theorem u64le_length (w : UInt64) : (u64le w).length = 8 := by simp [u64le, natToLE]

theorem bytesOfState_length (v : State) : (bytesOfState v).length = 200 := by
  obtain ⟨a0,a1,a2,a3,a4,a5,a6,a7,a8,a9,a10,a11,a12,a13,a14,a15,a16,a17,a18,a19,a20,a21,a22,a23,a24, rfl⟩ := vec25 v
  simp [bytesOfState, u64le_length]

theorem keccakF_length (st : Bytes) : (keccakF st).length = 200 := bytesOfState_length _

/-- `keccak_f(&mut state)` of the code = Keccak-f[1600] of FIPS 202 on every 200-byte state; no panic -/
theorem keccak_f_eq (st : Bytes) (h : st.length = 200) : Impl.Sha3.keccak_f st = some (keccakF st) := by
  unfold Impl.Sha3.keccak_f
  rw [read_eq st h]
  simp only [Option.bind_eq_bind, Option.bind_some, keccak_f_lanes_eq]
  unfold Impl.Sha3.write_u64v_le
  rw [if_pos (by simp [h])]
  rfl

end Cx.Proofs.Keccak
