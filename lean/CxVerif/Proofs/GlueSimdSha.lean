/-
  Proofs.GlueSimdSha — helper lemmas of the SIMD glue tie for SHA-256 (Props/C16/GlueTieSimdSha.lean): the generated
  `message_schedule_Nways_src`, `compress_Nways_src`, `digest_block_src` of Extracted/GlueSimd.lean (namespaces Sha256Sse41,
  Sha256Avx) against the lane model Impl/SimdSha256.lean.

  The generated schedule is straight-line code (sixteen `gather`s, a `while` loop whose body is sixteen `SCHEDULE_ROUND_INC!`
  calls, sixteen tail rounds with explicit stores); the model is an INTERPRETER of the re-extracted macro-argument tables.
  Bridge, generic in the register type `V`:
    bodyK / tailK / loadK / schedK     the model's interpreter in continuation-passing style over the GENERATED step functions
                                       (`SCHEDULE_ROUND_INC_src`, `SCHEDULE_ROUND_src`, `gather_src`) — the generated code is
                                       definitionally this interpreter run on the extracted tables (`kernel_rfl` in the Props file)
    bodyK_sim / tailK_sim              whenever the model's interpreter succeeds, the CPS interpreter takes the same steps
    sched_spec                         hence (Proofs/SimdSha256Sched.lean, any register algebra) `schedule[k] = val k + K32[k]`
  Core Lean only.
-/
import CxVerif.Extracted.GlueSimd
import CxVerif.Impl.SimdSha256
import CxVerif.Proofs.SimdSha256Sched
import CxVerif.Proofs.SimdSha256Lanes
import CxVerif.Proofs.GlueSimd
import CxVerif.Proofs.KeccakTactic
import CxVerif.Proofs.SimdBits
import CxVerif.Proofs.GlueSha2Drv
namespace Cx.Proofs.GlueSimdSha
open Cx Cx.Intrinsics Cx.Impl Cx.Impl.Simd Cx.Impl.SimdSha256 Cx.Impl.Sha2 Cx.Spec.Sha2 Cx.Proofs.SimdSha256

/-! ## the interpreter in continuation-passing style over generated step functions -/

section generic
variable {V : Type}

/-- type of the generated `SCHEDULE_ROUND_INC_src` -/
abbrev IncF (V : Type) := List V → Nat → V → V → V → V → Except String (List V × Nat × V)
/-- type of the generated `SCHEDULE_ROUND_src` -/
abbrev RndF (V : Type) := List V → Nat → V → V → V → V → Except String (List V × V)
/-- the tuple of variables of the generated `while` loop: schedule, w0 … w15, i -/
abbrev St18 (V : Type) := List V × V × V × V × V × V × V × V × V × V × V × V × V × V × V × V × V × Nat

/-- the statements of the loop body over the generated `SCHEDULE_ROUND_INC_src`, then `k` -/
def bodyK {R : Type} (incF : IncF V) : Sched V → List (List Nat) → (Sched V → Except String R) → Except String R
  | s, [], k => k s
  | s, [r1, r2, r3, r4] :: rs, k =>
    match s.w[r1]?, s.w[r2]?, s.w[r3]?, s.w[r4]? with
    | some w1, some w2, some w3, some w4 =>
      match incF s.schedule s.i w1 w2 w3 w4 with
      | .error e => .error e
      | .ok r =>
        match r with
        | (sched', i', w3') => bodyK incF ⟨s.w.set r3 w3', sched', i'⟩ rs k
    | _, _, _, _ => .error "BAD"
  | _, _ :: _, _ => .error "BAD"

/-- the sixteen registers back into variables -/
def back {R : Type} (s : Sched V) (k : St18 V → Except String R) : Except String R :=
  match s.w with
  | [a0, a1, a2, a3, a4, a5, a6, a7, a8, a9, a10, a11, a12, a13, a14, a15] =>
    k (s.schedule, a0, a1, a2, a3, a4, a5, a6, a7, a8, a9, a10, a11, a12, a13, a14, a15, s.i)
  | _ => .error "BAD"

def toSched : St18 V → Sched V
  | (sched, a0, a1, a2, a3, a4, a5, a6, a7, a8, a9, a10, a11, a12, a13, a14, a15, i) =>
    ⟨[a0, a1, a2, a3, a4, a5, a6, a7, a8, a9, a10, a11, a12, a13, a14, a15], sched, i⟩

/-- `schedule[k] = add(w, set1(K[k]))` of the tail, as the generated code writes it -/
def storeK {R : Type} (A : RegAlg V) (K : List UInt32) (s : Sched V) (k wk : Nat) (cont : Sched V → Except String R) : Except String R :=
  match s.w[wk]? with
  | some w =>
    match Glue.index K k with
    | none => .error "PANIC"
    | some x =>
      match Glue.set_index s.schedule k (A.sh.add w (A.set1 x)) with
      | none => .error "PANIC"
      | some sched' => cont { s with schedule := sched' }
  | none => .error "BAD"

/-- the tail statements: round (with increment except the last), then the store -/
def tailK {R : Type} (A : RegAlg V) (K : List UInt32) (incF : IncF V) (rndF : RndF V) :
    Sched V → List (List Nat) → (Sched V → Except String R) → Except String R
  | s, [], k => k s
  | s, [r1, r2, r3, r4, kk, wk] :: rest, k =>
    match s.w[r1]?, s.w[r2]?, s.w[r3]?, s.w[r4]? with
    | some w1, some w2, some w3, some w4 =>
      if rest.isEmpty then
        match rndF s.schedule s.i w1 w2 w3 w4 with
        | .error e => .error e
        | .ok r =>
          match r with
          | (sched', w3') => storeK A K ⟨s.w.set r3 w3', sched', s.i⟩ kk wk fun s' => tailK A K incF rndF s' rest k
      else
        match incF s.schedule s.i w1 w2 w3 w4 with
        | .error e => .error e
        | .ok r =>
          match r with
          | (sched', i', w3') => storeK A K ⟨s.w.set r3 w3', sched', i'⟩ kk wk fun s' => tailK A K incF rndF s' rest k
    | _, _, _, _ => .error "BAD"
  | _, _ :: _, _ => .error "BAD"

/-- the sixteen `gather` calls -/
def loadK {R : Type} (gatherF : Bytes → Nat → Except String V) (msg : Bytes) : List Nat → List V → (List V → Except String R) → Except String R
  | [], acc, k => k acc
  | off :: offs, acc, k =>
    match gatherF msg off with
    | .error e => .error e
    | .ok r => loadK gatherF msg offs (acc ++ [r]) k

/-- after the loads: the `while` loop (the generated loop function `loopF`), then the tail -/
def schedK (A : RegAlg V) (K : List UInt32) (incF : IncF V) (rndF : RndF V)
    (loopF : Nat → St18 V → Except String (St18 V)) (bound : Nat) (tail : List (List Nat)) (sched : List V) (ws : List V) :
    Except String (List V) :=
  match ws with
  | [a0, a1, a2, a3, a4, a5, a6, a7, a8, a9, a10, a11, a12, a13, a14, a15] =>
    match loopF bound (sched, a0, a1, a2, a3, a4, a5, a6, a7, a8, a9, a10, a11, a12, a13, a14, a15, 0) with
    | .error e => .error e
    | .ok st =>
      match st with
      | (s1, b0, b1, b2, b3, b4, b5, b6, b7, b8, b9, b10, b11, b12, b13, b14, b15, i) =>
        tailK A K incF rndF ⟨[b0, b1, b2, b3, b4, b5, b6, b7, b8, b9, b10, b11, b12, b13, b14, b15], s1, i⟩ tail fun s => .ok s.schedule
  | _ => .error "BAD"

/-! ## simulation: where the model's interpreter succeeds, the CPS interpreter over the generated steps agrees -/

variable (A : RegAlg V) (C : Cfg) (σ0 σ1 : V → V) (K : List UInt32) (incF : IncF V) (rndF : RndF V)

/-- what the tie needs to know about the generated step functions (closed forms, proved by unfolding them) -/
structure StepOk : Prop where
  hK : K = Impl256.K32
  h0 : ∀ v, sigma0 A C v = some (σ0 v)
  h1 : ∀ v, sigma1 A C v = some (σ1 v)
  inc : ∀ (sched : List V) (i : Nat) (w1 w2 w3 w4 : V) (kk : UInt32), Impl256.K32[i]? = some kk → i < sched.length →
    incF sched i w1 w2 w3 w4
      = .ok (sched.set i (A.sh.add w3 (A.set1 kk)), i + 1, A.sh.add (A.sh.add w3 w4) (A.sh.add (σ0 w1) (σ1 w2)))
  rnd : ∀ (sched : List V) (i : Nat) (w1 w2 w3 w4 : V) (kk : UInt32), Impl256.K32[i]? = some kk → i < sched.length →
    rndF sched i w1 w2 w3 w4
      = .ok (sched.set i (A.sh.add w3 (A.set1 kk)), A.sh.add (A.sh.add w3 w4) (A.sh.add (σ0 w1) (σ1 w2)))

variable {A C σ0 σ1 K incF rndF}

/-- one model round that succeeds, read backwards -/
theorem round_inv (H : StepOk A C σ0 σ1 K incF rndF) (s s1 : Sched V) (r1 r2 r3 r4 : Nat)
    (h : SCHEDULE_ROUND A C s [r1, r2, r3, r4] = some s1) :
    ∃ w1 w2 w3 w4 kk, s.w[r1]? = some w1 ∧ s.w[r2]? = some w2 ∧ s.w[r3]? = some w3 ∧ s.w[r4]? = some w4 ∧
      Impl256.K32[s.i]? = some kk ∧ s.i < s.schedule.length ∧
      s1 = ⟨s.w.set r3 (A.sh.add (A.sh.add w3 w4) (A.sh.add (σ0 w1) (σ1 w2))), s.schedule.set s.i (A.sh.add w3 (A.set1 kk)), s.i⟩ := by
  unfold SCHEDULE_ROUND at h
  cases e1 : s.w[r1]? with
  | none => simp [e1] at h
  | some w1 =>
  cases e2 : s.w[r2]? with
  | none => simp [e1, e2] at h
  | some w2 =>
  cases e3 : s.w[r3]? with
  | none => simp [e1, e2, e3] at h
  | some w3 =>
  cases e4 : s.w[r4]? with
  | none => simp [e1, e2, e3, e4] at h
  | some w4 =>
  simp only [e1, e2, e3, e4, H.h0, H.h1, storeSchedule] at h
  cases ek : Impl256.K32[s.i]? with
  | none => simp [ek] at h
  | some kk =>
  simp only [ek] at h
  by_cases hl : s.i < s.schedule.length
  · rw [if_pos hl] at h
    simp only [Option.some.injEq] at h
    exact ⟨w1, w2, w3, w4, kk, rfl, rfl, rfl, rfl, rfl, hl, h.symm⟩
  · rw [if_neg hl] at h
    simp at h

/-- the loop body -/
theorem bodyK_sim {R : Type} (H : StepOk A C σ0 σ1 K incF rndF) :
    ∀ (table : List (List Nat)) (s s' : Sched V) (k : Sched V → Except String R),
      loopBody A C s table = some s' → bodyK incF s table k = k s' := by
  intro table
  induction table with
  | nil => intro s s' k h; simp only [loopBody, Option.some.injEq] at h; subst h; rfl
  | cons r rs ih =>
    intro s s' k h
    unfold loopBody at h
    cases e : SCHEDULE_ROUND_INC A C s r with
    | none => simp [e] at h
    | some s1 =>
      simp only [e] at h
      unfold SCHEDULE_ROUND_INC at e
      cases e' : SCHEDULE_ROUND A C s r with
      | none => simp [e'] at e
      | some s0 =>
        simp only [e', Option.some.injEq] at e
        -- `r` is a list of four registers
        match r, e' with
        | [r1, r2, r3, r4], e' =>
          obtain ⟨w1, w2, w3, w4, kk, h1, h2, h3, h4, hk, hl, hs0⟩ := round_inv H s s0 r1 r2 r3 r4 e'
          unfold bodyK
          simp only [h1, h2, h3, h4, H.inc _ _ _ _ _ _ kk hk hl]
          subst hs0
          subst e
          exact ih _ _ _ h
        | [], e' => simp [SCHEDULE_ROUND] at e'
        | [_], e' => simp [SCHEDULE_ROUND] at e'
        | [_, _], e' => simp [SCHEDULE_ROUND] at e'
        | [_, _, _], e' => simp [SCHEDULE_ROUND] at e'
        | _ :: _ :: _ :: _ :: _ :: _, e' => simp [SCHEDULE_ROUND] at e'

/-- a tail store -/
theorem storeK_sim {R : Type} (H : StepOk A C σ0 σ1 K incF rndF) (s s' : Sched V) (k wk : Nat) (cont : Sched V → Except String R)
    (h : storeSchedule A s k wk = some s') : storeK A K s k wk cont = cont s' := by
  unfold storeSchedule at h
  unfold storeK
  cases e1 : s.w[wk]? with
  | none => simp [e1] at h
  | some w =>
  cases e2 : Impl256.K32[k]? with
  | none => simp [e1, e2] at h
  | some kk =>
  simp only [e1, e2] at h
  by_cases hl : k < s.schedule.length
  · rw [if_pos hl, Option.some.injEq] at h
    subst h
    simp only [Glue.index, Glue.set_index, H.hK, e2, if_pos hl]
  · rw [if_neg hl] at h; simp at h

/-- the tail -/
theorem tailK_sim {R : Type} (H : StepOk A C σ0 σ1 K incF rndF) :
    ∀ (table : List (List Nat)) (s s' : Sched V) (k : Sched V → Except String R),
      tailLoop A C s table = some s' → tailK A K incF rndF s table k = k s' := by
  intro table
  induction table with
  | nil => intro s s' k h; simp only [tailLoop, Option.some.injEq] at h; subst h; rfl
  | cons r rest ih =>
    intro s s' k h
    match r, h with
    | [r1, r2, r3, r4, kk, wk], h =>
      unfold tailLoop at h
      unfold tailK
      by_cases hr : rest.isEmpty = true
      · simp only [hr, if_true] at h ⊢
        cases e' : SCHEDULE_ROUND A C s [r1, r2, r3, r4] with
        | none => simp [e'] at h
        | some s0 =>
          simp only [e'] at h
          obtain ⟨w1, w2, w3, w4, kv, h1, h2, h3, h4, hk, hl, hs0⟩ := round_inv H s s0 r1 r2 r3 r4 e'
          simp only [h1, h2, h3, h4, H.rnd _ _ _ _ _ _ kv hk hl]
          cases es : storeSchedule A s0 kk wk with
          | none => simp [es] at h
          | some s1 =>
            simp only [es] at h
            subst hs0
            rw [storeK_sim H _ s1 kk wk _ es]
            exact ih _ _ _ h
      · simp only [hr, if_false, Bool.false_eq_true] at h ⊢
        cases e : SCHEDULE_ROUND_INC A C s [r1, r2, r3, r4] with
        | none => simp [e] at h
        | some s1 =>
          simp only [e] at h
          unfold SCHEDULE_ROUND_INC at e
          cases e' : SCHEDULE_ROUND A C s [r1, r2, r3, r4] with
          | none => simp [e'] at e
          | some s0 =>
            simp only [e', Option.some.injEq] at e
            obtain ⟨w1, w2, w3, w4, kv, h1, h2, h3, h4, hk, hl, hs0⟩ := round_inv H s s0 r1 r2 r3 r4 e'
            simp only [h1, h2, h3, h4, H.inc _ _ _ _ _ _ kv hk hl]
            cases es : storeSchedule A s1 kk wk with
            | none => simp [es] at h
            | some s2 =>
              simp only [es] at h
              subst hs0
              subst e
              rw [storeK_sim H _ s2 kk wk _ es]
              exact ih _ _ _ h
    | [], h => simp [tailLoop] at h
    | [_], h => simp [tailLoop] at h
    | [_, _], h => simp [tailLoop] at h
    | [_, _, _], h => simp [tailLoop] at h
    | [_, _, _, _], h => simp [tailLoop] at h
    | [_, _, _, _, _], h => simp [tailLoop] at h
    | _ :: _ :: _ :: _ :: _ :: _ :: _ :: _, h => simp [tailLoop] at h

/-- a register list of length 16 goes back into the sixteen variables -/
theorem back_eq {R : Type} (s : Sched V) (hw : s.w.length = 16) (k : St18 V → Except String R) :
    ∃ st : St18 V, toSched st = s ∧ back s k = k st := by
  obtain ⟨w, sched, i⟩ := s
  match w, hw with
  | [a0, a1, a2, a3, a4, a5, a6, a7, a8, a9, a10, a11, a12, a13, a14, a15], _ =>
    exact ⟨(sched, a0, a1, a2, a3, a4, a5, a6, a7, a8, a9, a10, a11, a12, a13, a14, a15, i), rfl, rfl⟩

/-- **the generated schedule over any register algebra**: if the generated loop function unfolds to the CPS interpreter on the
    extracted tables (hypotheses `hl0`, `hlS`: `kernel_rfl` on the generated code), then `schedK` on registers `val 0 … val 15`
    and ANY initial 64-entry array returns `schedule[k] = add (val k) (set1 K32[k])` for every `k < 64` — no panic, no `DIVERGE` -/
theorem schedK_spec (H : StepOk A C σ0 σ1 K incF rndF) (hT : StdTables C) (val : Nat → V)
    (hrec : ∀ t, A.sh.add (A.sh.add (val t) (val (t + 9))) (A.sh.add (σ0 (val (t + 1))) (σ1 (val (t + 14)))) = val (t + 16))
    (loopF : Nat → St18 V → Except String (St18 V))
    (hl0 : ∀ st, loopF 0 st = if (toSched st).i < C.loopBound then .error "DIVERGE" else .ok st)
    (hlS : ∀ fuel st, loopF (fuel + 1) st
      = if (toSched st).i < C.loopBound then bodyK incF (toSched st) C.loopBody (fun s => back s (loopF fuel)) else .ok st)
    (sched : List V) (hs : sched.length = 64) :
    ∃ out, schedK A K incF rndF loopF C.loopBound C.tail sched ((List.range 16).map val) = .ok out ∧ out.length = 64 ∧
      ∀ k kk, Impl256.K32[k]? = some kk → out[k]? = some (A.sh.add (val k) (A.set1 kk)) := by
  obtain ⟨hB, hL, hTl⟩ := hT
  have hI0 : Inv A val 0 48 ⟨(List.range 16).map val, sched, 0⟩ := by
    constructor
    · simp
    · exact hs
    · intro r hr
      simp [hr, regIdx]
      congr 1; omega
    · intro k hk; omega
  have e0 : (List.range 16).map stdRegs = (List.range' 0 16).map stdRegs := by decide
  have e16 : (List.range 16).map stdRegs = (List.range' 16 16).map stdRegs := by decide
  obtain ⟨s1, hs1, hI1, hi1⟩ := loopBody_spec A C val σ0 σ1 H.h0 H.h1 hrec 48 16 0 _ hI0 rfl (by omega)
  obtain ⟨s2, hs2, hI2, hi2⟩ := loopBody_spec A C val σ0 σ1 H.h0 H.h1 hrec 48 16 16 s1 hI1 hi1 (by omega)
  rw [← e0] at hs1
  rw [← e16] at hs2
  have et : (List.range 16).map stdTail = (List.range' 0 16).map stdTail := by decide
  obtain ⟨s3, hs3, hI3⟩ := tailLoop_spec A C val σ0 σ1 H.h0 H.h1 hrec 16 0 s2 hI2 hi2 (by omega)
  rw [← et] at hs3
  refine ⟨s3.schedule, ?_, hI3.slen, ?_⟩
  · -- run the generated loop: two iterations, then the exit test
    have hrange : (List.range 16).map val = [val 0, val 1, val 2, val 3, val 4, val 5, val 6, val 7, val 8, val 9, val 10,
        val 11, val 12, val 13, val 14, val 15] := rfl
    have hloop : loopF C.loopBound (sched, val 0, val 1, val 2, val 3, val 4, val 5, val 6, val 7, val 8, val 9, val 10,
        val 11, val 12, val 13, val 14, val 15, 0) = back s2 .ok := by
      rw [hB]
      show loopF (31 + 1) _ = _
      rw [hlS, hB, hL]
      have t0 : (toSched (sched, val 0, val 1, val 2, val 3, val 4, val 5, val 6, val 7, val 8, val 9, val 10,
        val 11, val 12, val 13, val 14, val 15, 0)) = ⟨(List.range 16).map val, sched, 0⟩ := by rw [hrange]; rfl
      rw [t0, if_pos (show (0 : Nat) < 32 by decide), bodyK_sim H _ _ _ _ hs1]
      obtain ⟨st1, ht1, hb1⟩ := back_eq s1 hI1.wlen (loopF 30)
      obtain ⟨st1', ht1', hb1'⟩ := back_eq s1 hI1.wlen (loopF (30 + 1))
      rw [hb1', hlS, hB, hL, ht1', hi1, if_pos (show (0 + 16 : Nat) < 32 by decide), bodyK_sim H _ _ _ _ hs2]
      obtain ⟨st2, ht2, hb2⟩ := back_eq s2 hI2.wlen (loopF 29)
      obtain ⟨st2', ht2', hb2'⟩ := back_eq s2 hI2.wlen (loopF (29 + 1))
      obtain ⟨st2'', ht2'', hb2''⟩ := back_eq s2 hI2.wlen (Except.ok (ε := String))
      rw [hb2', hlS, hB, ht2', hi2, if_neg (show ¬ (0 + 16 + 16 : Nat) < 32 by decide), hb2'']
      congr 1
      -- both tuples are the variables of `s2`
      obtain ⟨w, sc, i⟩ := s2
      have hw : w.length = 16 := hI2.wlen
      match w, hw, st2', ht2', st2'', ht2'' with
      | [a0, a1, a2, a3, a4, a5, a6, a7, a8, a9, a10, a11, a12, a13, a14, a15], _,
        (sc', b0, b1, b2, b3, b4, b5, b6, b7, b8, b9, b10, b11, b12, b13, b14, b15, i'), h',
        (sc'', c0, c1, c2, c3, c4, c5, c6, c7, c8, c9, c10, c11, c12, c13, c14, c15, i''), h'' =>
        simp only [toSched, Sched.mk.injEq, List.cons.injEq, and_true] at h' h''
        obtain ⟨⟨e0, e1, e2, e3, e4, e5, e6, e7, e8, e9, e10, e11, e12, e13, e14, e15⟩, e16, e17⟩ := h'
        obtain ⟨⟨f0, f1, f2, f3, f4, f5, f6, f7, f8, f9, f10, f11, f12, f13, f14, f15⟩, f16, f17⟩ := h''
        subst_vars
        rfl
    unfold schedK
    rw [hrange]
    simp only [hloop]
    obtain ⟨w, sc, i⟩ := s2
    have hw : w.length = 16 := hI2.wlen
    match w, hw, hs3 with
    | [a0, a1, a2, a3, a4, a5, a6, a7, a8, a9, a10, a11, a12, a13, a14, a15], _, hs3 =>
      simp only [back]
      rw [hTl, tailK_sim H _ _ _ _ hs3]
  · intro k kk hk
    have := K32_lt hk
    exact hI3.sch k (by omega) kk hk

end generic
/-! ## the compression with the precomputed `K + W`: one lane `compress_once!(j)` -/
section compress
variable {V : Type}

abbrev RoundF (V : Type) := UInt32 → UInt32 → UInt32 → UInt32 → UInt32 → UInt32 → UInt32 → UInt32 → Nat → List V → Except String (UInt32 × UInt32)
abbrev St9 := UInt32 × UInt32 × UInt32 × UInt32 × UInt32 × UInt32 × UInt32 × UInt32 × Nat

/-- the body of `while i != 64 { round!(a, …, i + 0, j); …; round!(b, …, i + 7, j); i += 8 }` over a generated `round!` function -/
def body8K {R : Type} (roundF : RoundF V) (sched : List V) (a b c d e f g h : UInt32) (i : Nat) (k : St9 → Except String R) : Except String R :=
  match roundF a b c d e f g h (i + 0) sched with
  | .error err => .error err
  | .ok r =>
  match r with
  | (d, h) =>
  match roundF h a b c d e f g (i + 1) sched with
  | .error err => .error err
  | .ok r =>
  match r with
  | (c, g) =>
  match roundF g h a b c d e f (i + 2) sched with
  | .error err => .error err
  | .ok r =>
  match r with
  | (b, f) =>
  match roundF f g h a b c d e (i + 3) sched with
  | .error err => .error err
  | .ok r =>
  match r with
  | (a, e) =>
  match roundF e f g h a b c d (i + 4) sched with
  | .error err => .error err
  | .ok r =>
  match r with
  | (h, d) =>
  match roundF d e f g h a b c (i + 5) sched with
  | .error err => .error err
  | .ok r =>
  match r with
  | (g, c) =>
  match roundF c d e f g h a b (i + 6) sched with
  | .error err => .error err
  | .ok r =>
  match r with
  | (f, b) =>
  match roundF b c d e f g h a (i + 7) sched with
  | .error err => .error err
  | .ok r =>
  match r with
  | (e, a) =>
  k (a, b, c, d, e, f, g, h, i + 8)

/-- what the tie needs to know about the generated functions of one lane `compress_once!(j)` (each `rfl` on the generated code) -/
structure LaneOk (ext : V → UInt32) (roundF : RoundF V) (loopF : List V → Nat → St9 → Except String St9)
    (onceF : W8 UInt32 → List V → Except String (W8 UInt32)) : Prop where
  round : ∀ a b c d e f g h i sched, roundF a b c d e f g h i sched =
    match Glue.index sched i with
    | none => .error "UB"
    | some x => .ok (SimdSha256.round a b c d e f g h (ext x))
  loop0 : ∀ sched a b c d e f g h i, loopF sched 0 (a, b, c, d, e, f, g, h, i) =
    if i ≠ 64 then .error "DIVERGE" else .ok (a, b, c, d, e, f, g, h, i)
  loopS : ∀ sched fuel a b c d e f g h i, loopF sched (fuel + 1) (a, b, c, d, e, f, g, h, i) =
    if i ≠ 64 then body8K roundF sched a b c d e f g h i (loopF sched fuel) else .ok (a, b, c, d, e, f, g, h, i)
  once : ∀ state sched, onceF state sched =
    match loopF sched 8 (state.a, state.b, state.c, state.d, state.e, state.f, state.g, state.h, 0) with
    | .error err => .error err
    | .ok st =>
      match st with
      | (a, b, c, d, e, f, g, h, _) =>
        .ok ⟨state.a + a, state.b + b, state.c + c, state.d + d, state.e + e, state.f + f, state.g + g, state.h + h⟩

variable {ext : V → UInt32} {roundF : RoundF V} {loopF : List V → Nat → St9 → Except String St9}
  {onceF : W8 UInt32 → List V → Except String (W8 UInt32)}

theorem loop_sim (H : LaneOk ext roundF loopF onceF) (sched : List V) :
    ∀ (fuel i : Nat) (s : W8 UInt32), i + 8 * fuel = 64 → i + 8 * fuel ≤ sched.length →
      ∃ r, rounds_loop s ((sched.drop i).map ext |>.take (8 * fuel)) = some r ∧
        loopF sched fuel (s.a, s.b, s.c, s.d, s.e, s.f, s.g, s.h, i) = .ok (r.a, r.b, r.c, r.d, r.e, r.f, r.g, r.h, 64) := by
  intro fuel
  induction fuel with
  | zero =>
    intro i s hi _
    refine ⟨s, by simp [rounds_loop], ?_⟩
    rw [H.loop0, if_neg (by omega)]
    have : i = 64 := by omega
    subst this; rfl
  | succ fuel ih =>
    intro i s hi hl
    rw [H.loopS, if_pos (by omega)]
    have hlen : i + 8 ≤ sched.length := by omega
    -- the eight schedule entries of this iteration
    have hx : ∀ t, t < 8 → ∃ x, sched[i + t]? = some x := fun t ht => ⟨sched[i + t]'(by omega), List.getElem?_eq_getElem (by omega)⟩
    obtain ⟨x0, h0⟩ := hx 0 (by decide); obtain ⟨x1, h1⟩ := hx 1 (by decide); obtain ⟨x2, h2⟩ := hx 2 (by decide)
    obtain ⟨x3, h3⟩ := hx 3 (by decide); obtain ⟨x4, h4⟩ := hx 4 (by decide); obtain ⟨x5, h5⟩ := hx 5 (by decide)
    obtain ⟨x6, h6⟩ := hx 6 (by decide); obtain ⟨x7, h7⟩ := hx 7 (by decide)
    have hd : sched.drop i = x0 :: x1 :: x2 :: x3 :: x4 :: x5 :: x6 :: x7 :: sched.drop (i + 8) := by
      apply List.ext_getElem?
      intro n
      rw [List.getElem?_drop]
      match n with
      | 0 => simpa using h0
      | 1 => simpa using h1
      | 2 => simpa using h2
      | 3 => simpa using h3
      | 4 => simpa using h4
      | 5 => simpa using h5
      | 6 => simpa using h6
      | 7 => simpa using h7
      | n + 8 => simp [List.getElem?_drop]; congr 1; omega
    obtain ⟨r, hr, hlo⟩ := ih (i + 8) (rounds8 s (ext x0) (ext x1) (ext x2) (ext x3) (ext x4) (ext x5) (ext x6) (ext x7)) (by omega) (by omega)
    refine ⟨r, ?_, ?_⟩
    · rw [hd, show 8 * (fuel + 1) = 8 * fuel + 8 by omega]
      simp only [List.map_cons, List.take_succ_cons, rounds_loop]
      exact hr
    · unfold body8K
      simp only [H.round, Glue.index, h0, h1, h2, h3, h4, h5, h6, h7]
      exact hlo


/-- **one `compress_once!(j)`** of the translated source on a 64-entry schedule = the model's, no UB / panic / DIVERGE -/
theorem once_sim (H : LaneOk ext roundF loopF onceF) {n : Nat} (toL : V → Lanes n) (j : Nat)
    (hext : ∀ x, extract_epi32 (toL x) j = some (ext x)) (state : W8 UInt32) (sched : List V) (hl : sched.length = 64) :
    ∃ r, compress_once state (sched.map toL) j = some r ∧ onceF state sched = .ok r := by
  obtain ⟨r, hr, hlo⟩ := loop_sim H sched 8 0 state (by decide) (by omega)
  have htake : ((sched.drop 0).map ext).take (8 * 8) = sched.map ext := by
    rw [List.drop_zero, List.take_of_length_le (by simp [hl])]
  rw [htake] at hr
  have hm : (sched.map toL).mapM (fun v => extract_epi32 v j) = some (sched.map ext) :=
    mapM_some_map sched toL (fun v => extract_epi32 v j) ext (fun x _ => hext x)
  refine ⟨⟨state.a + r.a, state.b + r.b, state.c + r.c, state.d + r.d, state.e + r.e, state.f + r.f, state.g + r.g,
    state.h + r.h⟩, ?_, ?_⟩
  · unfold compress_once
    simp only [hm, List.length_map, hl, hr]
    rfl
  · rw [H.once, hlo]


end compress

/-! ## SSE4.1: `__m128i` = four lanes -/
namespace Sse41I
open Cx.Extracted.GlueSimd Cx.Proofs.Keccak Cx.Proofs.SimdBits

/-- the register algebra of `__m128i` lanes: the intrinsics themselves -/
def A4 : RegAlg M128i := ⟨⟨_mm_srli_epi32, _mm_slli_epi32, _mm_add_epi32, _mm_xor_si128, _mm_or_si128⟩, _mm_set1_epi32⟩

theorem xor128_assoc (a b c : M128i) : _mm_xor_si128 (_mm_xor_si128 a b) c = _mm_xor_si128 a (_mm_xor_si128 b c) := by
  simp [_mm_xor_si128, M128i.zipWith, UInt32.xor_assoc]

open Sha256Sse41 in
theorem sigma0_sse41 (v : M128i) : sigma0 A4 Sse41.cfg v = some (sigma0_src v) := by
  rw [good_sse41.sig0]
  unfold sigma0_src
  show some (_mm_xor_si128 (_mm_xor_si128 (_mm_xor_si128 (_mm_xor_si128 _ _) _) _) _) = _
  simp only [xor128_assoc]
  rfl

open Sha256Sse41 in
theorem sigma1_sse41 (v : M128i) : sigma1 A4 Sse41.cfg v = some (sigma1_src v) := by
  rw [good_sse41.sig1]
  unfold sigma1_src
  show some (_mm_xor_si128 (_mm_xor_si128 (_mm_xor_si128 (_mm_xor_si128 _ _) _) _) _) = _
  simp only [xor128_assoc]
  rfl

open Sha256Sse41 in
theorem K32_sse41 : Sha256Sse41.K32 = Impl256.K32 := by decide

open Sha256Sse41 in
theorem stepOk_sse41 : StepOk A4 Sse41.cfg sigma0_src sigma1_src Sha256Sse41.K32 SCHEDULE_ROUND_INC_src SCHEDULE_ROUND_src where
  hK := K32_sse41
  h0 := sigma0_sse41
  h1 := sigma1_sse41
  inc := by
    intro sched i w1 w2 w3 w4 kk hk hi
    simp only [SCHEDULE_ROUND_INC_src, SCHEDULE_ROUND_src, Glue.index, Glue.set_index, K32_sse41, hk, if_pos hi]
    rfl
  rnd := by
    intro sched i w1 w2 w3 w4 kk hk hi
    simp only [SCHEDULE_ROUND_src, Glue.index, Glue.set_index, K32_sse41, hk, if_pos hi]
    rfl

open Sha256Sse41 in
theorem loop0_sse41 (st : St18 M128i) : message_schedule_4ways_loop1_src 0 st
    = if (toSched st).i < Sse41.cfg.loopBound then .error "DIVERGE" else .ok st := by
  obtain ⟨sched, w0, w1, w2, w3, w4, w5, w6, w7, w8, w9, w10, w11, w12, w13, w14, w15, i⟩ := st
  rfl

open Sha256Sse41 in
theorem loopS_sse41 (fuel : Nat) (st : St18 M128i) : message_schedule_4ways_loop1_src (fuel + 1) st
    = if (toSched st).i < Sse41.cfg.loopBound then
        bodyK SCHEDULE_ROUND_INC_src (toSched st) Sse41.cfg.loopBody (fun s => back s (message_schedule_4ways_loop1_src fuel))
      else .ok st := by
  obtain ⟨sched, w0, w1, w2, w3, w4, w5, w6, w7, w8, w9, w10, w11, w12, w13, w14, w15, i⟩ := st
  kernel_rfl

open Sha256Sse41 in
theorem prog_sse41 (sched : List M128i) (msg : Bytes) : message_schedule_4ways_src sched msg
    = loadK gather_src msg Sse41.cfg.msgOffsets [] (fun ws =>
        schedK A4 Sha256Sse41.K32 SCHEDULE_ROUND_INC_src SCHEDULE_ROUND_src message_schedule_4ways_loop1_src Sse41.cfg.loopBound
          Sse41.cfg.tail sched (ws.map fun w => _mm_shuffle_epi8 w (_mm_set_epi8 12 13 14 15 8 9 10 11 4 5 6 7 0 1 2 3))) := by
  kernel_rfl

theorem shuffle_bswap128 (w : M128i) :
    _mm_shuffle_epi8 w (_mm_set_epi8 12 13 14 15 8 9 10 11 4 5 6 7 0 1 2 3) = w.map bswap32 := by
  obtain ⟨d0, d1, d2, d3⟩ := w
  rfl

open Sha256Sse41 in
theorem sigma0_lanes (v : M128i) : sigma0_src v = v.map smallSigma0_256 := by
  obtain ⟨d0, d1, d2, d3⟩ := v
  simp only [sigma0_src, _mm_xor_si128, _mm_srli_epi32, _mm_slli_epi32, M128i.map, M128i.zipWith, ← s0_eq, ← sigma0_shifts,
    UInt32.xor_assoc]
  rfl

open Sha256Sse41 in
theorem sigma1_lanes (v : M128i) : sigma1_src v = v.map smallSigma1_256 := by
  obtain ⟨d0, d1, d2, d3⟩ := v
  simp only [sigma1_src, _mm_xor_si128, _mm_srli_epi32, _mm_slli_epi32, M128i.map, M128i.zipWith, ← s1_eq, ← sigma1_shifts,
    UInt32.xor_assoc]
  rfl

theorem gather_ok (msg : Bytes) (off : Nat) (h : off + 196 ≤ msg.length) :
    Sha256Sse41.gather_src msg off = .ok ⟨ld32 msg off, ld32 msg (off + 64), ld32 msg (off + 128), ld32 msg (off + 192)⟩ := by
  unfold Sha256Sse41.gather_src read_i32
  rw [if_pos (by omega), if_pos (by omega), if_pos (by omega), if_pos (by omega)]
  rfl

/-- block `j` of the batch as its sixteen big-endian words -/
def blk (msg : Bytes) (j : Nat) : List UInt32 := wordsBE32 (blockAt msg j)

/-- register value `t` of the four-block batch: lane `j` = FIPS `W_t` of block `j` -/
def valM (msg : Bytes) (t : Nat) : M128i := ⟨Wf (blk msg 0) t, Wf (blk msg 1) t, Wf (blk msg 2) t, Wf (blk msg 3) t⟩

def gatherV (msg : Bytes) (t : Nat) : M128i := ⟨ld32 msg (4 * t), ld32 msg (4 * t + 64), ld32 msg (4 * t + 128), ld32 msg (4 * t + 192)⟩

theorem bswap_ld32 (msg : Bytes) (j t : Nat) (ht : t < 16) (hm : 64 * j + 64 ≤ msg.length) :
    bswap32 (ld32 msg (4 * t + 64 * j)) = Wf (blk msg j) t := by
  have hb : (blockAt msg j).length = 64 := blockAt_length hm
  rw [blk, Wf_lt _ ht, List.getD_eq_getElem?_getD, wordsBE32_getElem? _ hb t ht, Option.getD_some]
  show bswap32 (Cx.Impl.Simd.ofBytes32 ((msg.drop (4 * t + 64 * j)).take 4)) = _
  have := bswap32_read (msg.drop (4 * t + 64 * j)) (by simp; omega)
  rw [this]
  simp only [beU32, take4_blockAt msg j t ht]

theorem gatherV_bswap (msg : Bytes) (t : Nat) (ht : t < 16) (hm : 256 ≤ msg.length) :
    (gatherV msg t).map bswap32 = valM msg t := by
  simp only [gatherV, M128i.map, valM]
  have e0 := bswap_ld32 msg 0 t ht (by omega)
  have e1 := bswap_ld32 msg 1 t ht (by omega)
  have e2 := bswap_ld32 msg 2 t ht (by omega)
  have e3 := bswap_ld32 msg 3 t ht (by omega)
  simp only [Nat.mul_zero, Nat.add_zero, Nat.mul_one] at e0 e1 e2 e3
  rw [e0, e1, e2, e3]

theorem hrec_sse41 (msg : Bytes) (t : Nat) :
    A4.sh.add (A4.sh.add (valM msg t) (valM msg (t + 9)))
      (A4.sh.add (Sha256Sse41.sigma0_src (valM msg (t + 1))) (Sha256Sse41.sigma1_src (valM msg (t + 14)))) = valM msg (t + 16) := by
  rw [sigma0_lanes, sigma1_lanes]
  show _mm_add_epi32 (_mm_add_epi32 _ _) (_mm_add_epi32 _ _) = _
  simp only [valM, _mm_add_epi32, M128i.zipWith, M128i.map]
  rw [Wf_ge (blk msg 0), Wf_ge (blk msg 1), Wf_ge (blk msg 2), Wf_ge (blk msg 3)]
  congr 1 <;> ac_rfl

/-- the sixteen gathers + byte swaps on a message holding a whole batch -/
theorem loads_sse41 {R : Type} (msg : Bytes) (hm : 256 ≤ msg.length) (k : List M128i → Except String R) :
    loadK Sha256Sse41.gather_src msg Sse41.cfg.msgOffsets [] (fun ws =>
        k (ws.map fun w => _mm_shuffle_epi8 w (_mm_set_epi8 12 13 14 15 8 9 10 11 4 5 6 7 0 1 2 3)))
      = k ((List.range 16).map (valM msg)) := by
  have hoff : Sse41.cfg.msgOffsets = [4 * 0, 4 * 1, 4 * 2, 4 * 3, 4 * 4, 4 * 5, 4 * 6, 4 * 7, 4 * 8, 4 * 9, 4 * 10, 4 * 11, 4 * 12,
      4 * 13, 4 * 14, 4 * 15] := by decide
  rw [hoff]
  have g : ∀ t, t < 16 → Sha256Sse41.gather_src msg (4 * t) = .ok (gatherV msg t) := fun t ht => by
    rw [gather_ok msg _ (by omega)]; rfl
  have e : ∀ t, t < 16 → M128i.map bswap32 (gatherV msg t) = valM msg t := fun t ht => gatherV_bswap msg t ht hm
  simp only [loadK, g 0 (by decide), g 1 (by decide), g 2 (by decide), g 3 (by decide), g 4 (by decide), g 5 (by decide),
    g 6 (by decide), g 7 (by decide), g 8 (by decide), g 9 (by decide), g 10 (by decide), g 11 (by decide), g 12 (by decide),
    g 13 (by decide), g 14 (by decide), g 15 (by decide), List.nil_append, List.cons_append, List.map_cons, List.map_nil,
    shuffle_bswap128,
    e 0 (by decide), e 1 (by decide), e 2 (by decide), e 3 (by decide), e 4 (by decide), e 5 (by decide), e 6 (by decide),
    e 7 (by decide), e 8 (by decide), e 9 (by decide), e 10 (by decide), e 11 (by decide), e 12 (by decide), e 13 (by decide),
    e 14 (by decide), e 15 (by decide)]
  rfl

/-- **`message_schedule_4ways`** of the translated source on a message holding a whole batch and ANY 64-entry `schedule` array:
    no UB, no panic, and `schedule[k]` = lanes `W_k(block j) + K32[k]` -/
theorem message_schedule_src_spec (sched : List M128i) (msg : Bytes) (hs : sched.length = 64) (hm : 256 ≤ msg.length) :
    ∃ out, Sha256Sse41.message_schedule_4ways_src sched msg = .ok out ∧ out.length = 64 ∧
      ∀ k kk, Impl256.K32[k]? = some kk → out[k]? = some (_mm_add_epi32 (valM msg k) (_mm_set1_epi32 kk)) := by
  obtain ⟨out, h1, h2, h3⟩ := schedK_spec stepOk_sse41 std_sse41 (valM msg) (hrec_sse41 msg)
    Sha256Sse41.message_schedule_4ways_loop1_src loop0_sse41 loopS_sse41 sched hs
  refine ⟨out, ?_, h2, h3⟩
  rw [prog_sse41, loads_sse41 msg hm]
  exact h1

open Sha256Sse41

/-- a generated `__m128i` as the model's four lanes -/
def toL4 (v : M128i) : Lanes Sse41.cfg.n := (#v[v.d0, v.d1, v.d2, v.d3] : Vector UInt32 4)

theorem lane0_ok : LaneOk (fun x : M128i => x.d0) compress_4ways_round_0_src compress_4ways_loop1_src compress_4ways_compress_once_0_src :=
  ⟨fun _ _ _ _ _ _ _ _ _ _ => by kernel_rfl, fun _ _ _ _ _ _ _ _ _ _ => rfl, fun _ _ _ _ _ _ _ _ _ _ _ => rfl, fun _ _ => rfl⟩
theorem lane1_ok : LaneOk (fun x : M128i => x.d1) compress_4ways_round_1_src compress_4ways_loop2_src compress_4ways_compress_once_1_src :=
  ⟨fun _ _ _ _ _ _ _ _ _ _ => by kernel_rfl, fun _ _ _ _ _ _ _ _ _ _ => rfl, fun _ _ _ _ _ _ _ _ _ _ _ => rfl, fun _ _ => rfl⟩
theorem lane2_ok : LaneOk (fun x : M128i => x.d2) compress_4ways_round_2_src compress_4ways_loop3_src compress_4ways_compress_once_2_src :=
  ⟨fun _ _ _ _ _ _ _ _ _ _ => by kernel_rfl, fun _ _ _ _ _ _ _ _ _ _ => rfl, fun _ _ _ _ _ _ _ _ _ _ _ => rfl, fun _ _ => rfl⟩
theorem lane3_ok : LaneOk (fun x : M128i => x.d3) compress_4ways_round_3_src compress_4ways_loop4_src compress_4ways_compress_once_3_src :=
  ⟨fun _ _ _ _ _ _ _ _ _ _ => by kernel_rfl, fun _ _ _ _ _ _ _ _ _ _ => rfl, fun _ _ _ _ _ _ _ _ _ _ _ => rfl, fun _ _ => rfl⟩

/-- **`compress_4ways`** of the translated source on a 64-entry schedule -/
theorem compress_src_spec (state : W8 UInt32) (sched : List M128i) (hl : sched.length = 64) :
    ∃ r, compress_nways (sched.map toL4) state Sse41.cfg.compressLanes = some r ∧ compress_4ways_src state sched = .ok r := by
  obtain ⟨r0, m0, s0⟩ := once_sim lane0_ok toL4 0 (fun _ => rfl) state sched hl
  obtain ⟨r1, m1, s1⟩ := once_sim lane1_ok toL4 1 (fun _ => rfl) r0 sched hl
  obtain ⟨r2, m2, s2⟩ := once_sim lane2_ok toL4 2 (fun _ => rfl) r1 sched hl
  obtain ⟨r3, m3, s3⟩ := once_sim lane3_ok toL4 3 (fun _ => rfl) r2 sched hl
  refine ⟨r3, ?_, ?_⟩
  · have : Sse41.cfg.compressLanes = [0, 1, 2, 3] := by decide
    rw [this]
    simp only [compress_nways, m0, m1, m2, m3]
  · unfold compress_4ways_src
    rw [s0]; dsimp only
    rw [s1]; dsimp only
    rw [s2]; dsimp only
    rw [s3]

/-- the translated schedule, lane view = the model's schedule -/
theorem message_schedule_src_eq_model (sched : List M128i) (msg : Bytes) (hs : sched.length = 64) (hm : 256 ≤ msg.length) :
    ∃ out, message_schedule_4ways_src sched msg = .ok out ∧ out.length = 64 ∧
      message_schedule Sse41.cfg msg = some (out.map toL4) := by
  obtain ⟨out, h1, h2, h3⟩ := message_schedule_src_spec sched msg hs hm
  obtain ⟨sch, g1, g2, g3⟩ := message_schedule_eq good_sse41 msg (by simpa [Sse41.cfg] using hm)
  refine ⟨out, h1, h2, ?_⟩
  rw [g1]
  congr 1
  apply List.ext_getElem?
  intro k
  by_cases hk : k < 64
  · obtain ⟨kk, hkk⟩ := K32_some hk
    have e1 : (out.map toL4)[k]? = some (toL4 (_mm_add_epi32 (valM msg k) (_mm_set1_epi32 kk))) := by
      rw [List.getElem?_map, h3 k kk hkk]; rfl
    rw [g3 k kk hkk, e1]
    apply congrArg some
    apply Vector.ext
    intro j hj
    have hj4 : j < 4 := hj
    match j, hj4 with
    | 0, _ => rfl
    | 1, _ => rfl
    | 2, _ => rfl
    | 3, _ => rfl
  · have e1 : (out.map toL4)[k]? = none := List.getElem?_eq_none (by simp; omega)
    rw [List.getElem?_eq_none (by omega), e1]

theorem slice_tail (block : Bytes) (n : Nat) (h : n ≤ block.length) : Glue.slice block n block.length = some (block.drop n) := by
  unfold Glue.slice
  rw [if_pos ⟨h, Nat.le_refl _⟩]
  congr 1
  apply List.take_of_length_le
  simp

/-- the batch loop of the translated `digest_block` = the model's `batch_loop`, for every fuel, state, block and 64-entry array -/
theorem batch_sim : ∀ (fuel : Nat) (state : W8 UInt32) (block : Bytes) (sched : List M128i), sched.length = 64 →
    (digest_block_loop1_src fuel (state, block, sched)).toOption.map (fun st => (st.1, st.2.1))
      = batch_loop Sse41.cfg fuel state block := by
  intro fuel
  have hb : Sse41.cfg.batchBytes = 256 := by decide
  induction fuel with
  | zero =>
    intro state block sched _
    show (if block.length ≥ 256 then (Except.error "DIVERGE" : Except String _) else .ok (state, block, sched)).toOption.map _ = _
    unfold batch_loop
    rw [hb]
    by_cases h : block.length ≥ 256
    · rw [if_pos h, if_pos h]; rfl
    · rw [if_neg h, if_neg h]; rfl
  | succ fuel ih =>
    intro state block sched hs
    show (if block.length ≥ 256 then _ else (Except.ok (state, block, sched) : Except String _)).toOption.map _ = _
    unfold batch_loop
    rw [hb]
    by_cases h : block.length ≥ 256
    · rw [if_pos h, if_pos h]
      obtain ⟨out, h1, h2, h3⟩ := message_schedule_src_eq_model sched block hs h
      obtain ⟨r, c1, c2⟩ := compress_src_spec state out h2
      rw [h1, h3]; dsimp only
      rw [c2, c1]; dsimp only
      rw [slice_tail block 256 h]; dsimp only
      exact ih r (block.drop 256) out h2
    · rw [if_neg h, if_neg h]; rfl

/-- **`sse41::digest_block`** of the translated source = the model, every state, every input length -/
theorem digest_block_src_eq_model (state : W8 UInt32) (block : Bytes) :
    (digest_block_src state block).toOption = Sse41.digest_block state block := by
  have hsim := batch_sim block.length state block (Glue.fill 64 (_mm_set1_epi32 (0 : UInt32))) (by simp [Glue.fill])
  unfold Sse41.digest_block
  rw [← hsim]
  unfold digest_block_src
  dsimp only
  cases hl : digest_block_loop1_src block.length (state, block, Glue.fill 64 (_mm_set1_epi32 (0 : UInt32))) with
  | error e => rfl
  | ok st =>
    obtain ⟨state1, block1, sched1⟩ := st
    dsimp only [Except.toOption, Option.map]
    by_cases h0 : block1.length > 0
    · rw [if_pos h0, if_pos h0, Cx.Proofs.GlueSha2Drv.reference256_eq_model]   -- the GENERATED `reference::digest_block` = the model's
      cases Impl256.digest_block state1 block1 <;> rfl
    · rw [if_neg h0, if_neg h0]

end Sse41I

end Cx.Proofs.GlueSimdSha
