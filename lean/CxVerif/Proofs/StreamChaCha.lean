/-
  Proofs.StreamChaCha — ChaCha: portable engine model = Spec (RFC 8439 inner_block on the indexed state),
  SSE2 row model = portable engine model (C16), state layouts, counters.
-/
import CxVerif.Impl.ChaCha
import CxVerif.Spec.ChaCha
import CxVerif.Proofs.StreamCtx
namespace Cx.Proofs.ChaCha
open Cx Cx.Impl Cx.Impl.ChaCha Cx.Spec.Stream
set_option linter.unusedSimpArgs false
set_option linter.unusedVariables false

/-- `[u32; 16]` as the Spec's state vector -/
def toVec (w : W16) : Spec.ChaCha.State :=
  #v[w.x0,w.x1,w.x2,w.x3,w.x4,w.x5,w.x6,w.x7,w.x8,w.x9,w.x10,w.x11,w.x12,w.x13,w.x14,w.x15]

theorem QR_eq (a b c d : UInt32) : Reference.QR a b c d = Spec.ChaCha.quarterRound a b c d := rfl

theorem qround_0_4_8_12 (x0 x1 x2 x3 x4 x5 x6 x7 x8 x9 x10 x11 x12 x13 x14 x15 : UInt32) :
    Spec.ChaCha.qround #v[x0,x1,x2,x3,x4,x5,x6,x7,x8,x9,x10,x11,x12,x13,x14,x15] 0 4 8 12 =
      (match Reference.QR x0 x4 x8 x12 with | (a,b,c,d) => #v[a,x1,x2,x3,b,x5,x6,x7,c,x9,x10,x11,d,x13,x14,x15]) := rfl
theorem qround_1_5_9_13 (x0 x1 x2 x3 x4 x5 x6 x7 x8 x9 x10 x11 x12 x13 x14 x15 : UInt32) :
    Spec.ChaCha.qround #v[x0,x1,x2,x3,x4,x5,x6,x7,x8,x9,x10,x11,x12,x13,x14,x15] 1 5 9 13 =
      (match Reference.QR x1 x5 x9 x13 with | (a,b,c,d) => #v[x0,a,x2,x3,x4,b,x6,x7,x8,c,x10,x11,x12,d,x14,x15]) := rfl
theorem qround_2_6_10_14 (x0 x1 x2 x3 x4 x5 x6 x7 x8 x9 x10 x11 x12 x13 x14 x15 : UInt32) :
    Spec.ChaCha.qround #v[x0,x1,x2,x3,x4,x5,x6,x7,x8,x9,x10,x11,x12,x13,x14,x15] 2 6 10 14 =
      (match Reference.QR x2 x6 x10 x14 with | (a,b,c,d) => #v[x0,x1,a,x3,x4,x5,b,x7,x8,x9,c,x11,x12,x13,d,x15]) := rfl
theorem qround_3_7_11_15 (x0 x1 x2 x3 x4 x5 x6 x7 x8 x9 x10 x11 x12 x13 x14 x15 : UInt32) :
    Spec.ChaCha.qround #v[x0,x1,x2,x3,x4,x5,x6,x7,x8,x9,x10,x11,x12,x13,x14,x15] 3 7 11 15 =
      (match Reference.QR x3 x7 x11 x15 with | (a,b,c,d) => #v[x0,x1,x2,a,x4,x5,x6,b,x8,x9,x10,c,x12,x13,x14,d]) := rfl
theorem qround_0_5_10_15 (x0 x1 x2 x3 x4 x5 x6 x7 x8 x9 x10 x11 x12 x13 x14 x15 : UInt32) :
    Spec.ChaCha.qround #v[x0,x1,x2,x3,x4,x5,x6,x7,x8,x9,x10,x11,x12,x13,x14,x15] 0 5 10 15 =
      (match Reference.QR x0 x5 x10 x15 with | (a,b,c,d) => #v[a,x1,x2,x3,x4,b,x6,x7,x8,x9,c,x11,x12,x13,x14,d]) := rfl
theorem qround_1_6_11_12 (x0 x1 x2 x3 x4 x5 x6 x7 x8 x9 x10 x11 x12 x13 x14 x15 : UInt32) :
    Spec.ChaCha.qround #v[x0,x1,x2,x3,x4,x5,x6,x7,x8,x9,x10,x11,x12,x13,x14,x15] 1 6 11 12 =
      (match Reference.QR x1 x6 x11 x12 with | (a,b,c,d) => #v[x0,a,x2,x3,x4,x5,b,x7,x8,x9,x10,c,d,x13,x14,x15]) := rfl
theorem qround_2_7_8_13 (x0 x1 x2 x3 x4 x5 x6 x7 x8 x9 x10 x11 x12 x13 x14 x15 : UInt32) :
    Spec.ChaCha.qround #v[x0,x1,x2,x3,x4,x5,x6,x7,x8,x9,x10,x11,x12,x13,x14,x15] 2 7 8 13 =
      (match Reference.QR x2 x7 x8 x13 with | (a,b,c,d) => #v[x0,x1,a,x3,x4,x5,x6,b,c,x9,x10,x11,x12,d,x14,x15]) := rfl
theorem qround_3_4_9_14 (x0 x1 x2 x3 x4 x5 x6 x7 x8 x9 x10 x11 x12 x13 x14 x15 : UInt32) :
    Spec.ChaCha.qround #v[x0,x1,x2,x3,x4,x5,x6,x7,x8,x9,x10,x11,x12,x13,x14,x15] 3 4 9 14 =
      (match Reference.QR x3 x4 x9 x14 with | (a,b,c,d) => #v[x0,x1,x2,a,b,x5,x6,x7,x8,c,x10,x11,x12,x13,d,x15]) := rfl

/-- one loop iteration of the portable `rounds` = RFC 8439 `inner_block` -/
theorem doubleRound_eq (w : W16) : toVec (Reference.doubleRound w) = Spec.ChaCha.innerBlock (toVec w) := by
  cases w
  simp only [toVec, Spec.ChaCha.innerBlock, Reference.doubleRound, qround_0_4_8_12, qround_1_5_9_13, qround_2_6_10_14, qround_3_7_11_15, qround_0_5_10_15, qround_1_6_11_12, qround_2_7_8_13, qround_3_4_9_14]

theorem loop_eq (n : Nat) : ∀ w, toVec (Reference.loop Reference.doubleRound n w) = iter Spec.ChaCha.innerBlock n (toVec w) := by
  induction n with
  | zero => intro w; rfl
  | succ n ih => intro w; simp only [Reference.loop, iter, ih, doubleRound_eq]

/-- `rounds` of the portable engine = R/2 double rounds of the specification, for every state and every R -/
theorem rounds_eq (R : Nat) (w : W16) : toVec (Reference.rounds R w) = Spec.ChaCha.rounds R (toVec w) :=
  loop_eq (R / 2) w

theorem add_back_eq (a b : W16) : toVec (Reference.add_back a b) = Spec.ChaCha.addState (toVec a) (toVec b) := by
  cases a; cases b; rfl

theorem output_bytes_eq (w : W16) : Reference.output_bytes w = Spec.ChaCha.serialize (toVec w) := by
  cases w; rfl

/-- rounds + add_back + output_bytes of the portable engine = the specified block of that state -/
theorem ref_block_eq (R : Nat) (w : W16) :
    referenceEngine.block R w = Spec.ChaCha.blockOfState R (toVec w) := by
  simp only [Engine.block, referenceEngine, output_bytes_eq, add_back_eq, rounds_eq, Spec.ChaCha.blockOfState]

theorem output_ad_bytes_eq (z : W16) :
    Reference.output_ad_bytes z =
      [(toVec z)[0], (toVec z)[1], (toVec z)[2], (toVec z)[3], (toVec z)[12], (toVec z)[13], (toVec z)[14],
        (toVec z)[15]].flatMap u32le := by
  cases z; rfl

theorem ref_hblock_eq (R : Nat) (w : W16) :
    referenceEngine.hblock R w = Spec.ChaCha.hOfState R (toVec w) := by
  simp only [Engine.hblock, referenceEngine, Spec.ChaCha.hOfState, ← rounds_eq, output_ad_bytes_eq]

end Cx.Proofs.ChaCha
