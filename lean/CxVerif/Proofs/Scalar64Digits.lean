/-
  Proofs.Scalar64Digits — `bits` and `nibbles` of Impl/Scalar64.lean are the binary / radix-16 digits of the value.
-/
import CxVerif.Proofs.Scalar64Bytes
namespace Cx.Proofs.Scalar64
open Cx Cx.Impl.Scalar64
set_option exponentiation.threshold 600

theorem digit_extract (a n m p : Nat) (h : m + p ≤ n) : (a % 2^n / 2^m) % 2^p = (a / 2^m) % 2^p := by
  have e : (2:Nat)^n = 2^m * 2^(n - m) := by rw [← Nat.pow_add]; congr 1; omega
  rw [e, Nat.mod_mul_right_div_self]
  apply Nat.mod_mod_of_dvd
  exact Nat.pow_dvd_pow 2 (by omega)

theorem contract_get (s : Scalar) (h : Inv s) (k : Nat) (hk : k < 4) :
    (contract s)[k] = (s.val / 2^(64*k)) % 2^64 := by
  obtain ⟨h0, h1, h2, h3, h4⟩ := h
  have e0 := shl_or s.l0 s.l1 56 8 (by decide) h0
  have e1 := shl_or (shr64 s.l1 8) s.l2 48 16 (by decide) (by unfold shr64; rw [Nat.shiftRight_eq_div_pow]; omega)
  have e2 := shl_or (shr64 s.l2 16) s.l3 40 24 (by decide) (by unfold shr64; rw [Nat.shiftRight_eq_div_pow]; omega)
  have e3 := shl_or (shr64 s.l3 24) s.l4 32 32 (by decide) (by unfold shr64; rw [Nat.shiftRight_eq_div_pow]; omega)
  simp only [shr64, Nat.shiftRight_eq_div_pow] at e0 e1 e2 e3
  unfold contract Scalar.val
  simp only [shr64, Nat.shiftRight_eq_div_pow]
  match k, hk with
  | 0, _ => show (shl64 s.l1 56 ||| s.l0) = _; rw [e0]; omega
  | 1, _ => show (shl64 s.l2 48 ||| s.l1 / 2 ^ 8) = _; rw [e1]; omega
  | 2, _ => show (shl64 s.l3 40 ||| s.l2 / 2 ^ 16) = _; rw [e2]; omega
  | 3, _ => show (shl64 s.l4 32 ||| s.l3 / 2 ^ 24) = _; rw [e3]; omega

theorem nibbles_get (s : Scalar) (h : Inv s) (i : Nat) (hi : i < 64) :
    (nibbles s)[i] = ((s.val / 16^i % 16 : Nat) : Int) := by
  unfold nibbles
  simp only [Vector.getElem_ofFn]
  rw [contract_get s h (i / 16) (by omega)]
  congr 1
  unfold shr64
  rw [Nat.shiftRight_eq_div_pow, show (0b1111 : Nat) = 2^4 - 1 by decide, and_mask,
    digit_extract _ 64 _ 4 (by omega), Nat.div_div_eq_div_mul, ← Nat.pow_add,
    show (16:Nat) = 2^4 by decide, ← Nat.pow_mul]
  congr 3
  omega

theorem bits_get (s : Scalar) (h : Inv s) (i : Nat) (hi : i < 256) :
    (bits s)[i] = ((s.val / 2^i % 2 : Nat) : Int) := by
  unfold bits
  simp only [Vector.getElem_ofFn]
  have e6 : i >>> 6 = i / 64 := by rw [Nat.shiftRight_eq_div_pow]
  have e63 : i &&& 0x3f = i % 64 := by rw [show (0x3f : Nat) = 2^6 - 1 by decide, and_mask]
  simp only [e6, e63]
  rw [contract_get s h (i / 64) (by omega)]
  congr 1
  unfold shr64
  rw [Nat.shiftRight_eq_div_pow, Nat.and_comm, show (1 : Nat) = 2^1 - 1 by decide, and_mask,
    digit_extract _ 64 _ 1 (by omega), Nat.div_div_eq_div_mul, ← Nat.pow_add]
  congr 3
  omega

open Spec.ScalarL in
theorem digits_length (b : Nat) : ∀ n a, (digits b n a).length = n := by
  intro n; induction n with
  | zero => intro a; rfl
  | succ n ih => intro a; simp [digits, ih]

open Spec.ScalarL in
theorem digits_getElem (b : Nat) : ∀ n a i (h : i < (digits b n a).length), (digits b n a)[i] = a / b^i % b := by
  intro n; induction n with
  | zero => intro a i h; simp [digits] at h
  | succ n ih =>
    intro a i h
    cases i with
    | zero => simp [digits]
    | succ i =>
      simp only [digits, List.getElem_cons_succ]
      rw [ih, Nat.div_div_eq_div_mul, Nat.pow_succ, Nat.mul_comm]

open Spec.ScalarL in
theorem evalDigits_digits (b : Nat) : ∀ n a, evalDigits b ((digits b n a).map Int.ofNat) = ((a % b^n : Nat) : Int) := by
  intro n; induction n with
  | zero => intro a; simp [digits, evalDigits, Nat.mod_one]
  | succ n ih =>
    intro a
    simp only [digits, List.map_cons, evalDigits, ih]
    rw [Nat.pow_succ', Nat.mod_mul]
    simp

theorem nibbles_eq_radix16 (s : Scalar) (h : Inv s) :
    (nibbles s).toList = (Spec.ScalarL.radix16 s.val).map Int.ofNat := by
  apply List.ext_getElem
  · simp [Spec.ScalarL.radix16, digits_length]
  · intro i h1 h2
    have hi : i < 64 := by simpa using h1
    rw [Vector.getElem_toList, nibbles_get s h i hi, List.getElem_map]
    unfold Spec.ScalarL.radix16
    rw [digits_getElem]; rfl

theorem bits_eq_bitsLE (s : Scalar) (h : Inv s) :
    (bits s).toList = (Spec.ScalarL.bitsLE s.val).map Int.ofNat := by
  apply List.ext_getElem
  · simp [Spec.ScalarL.bitsLE, digits_length]
  · intro i h1 h2
    have hi : i < 256 := by simpa using h1
    rw [Vector.getElem_toList, bits_get s h i hi, List.getElem_map]
    unfold Spec.ScalarL.bitsLE
    rw [digits_getElem]; rfl
end Cx.Proofs.Scalar64
