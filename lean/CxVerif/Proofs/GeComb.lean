/-
  Proofs.GeComb — `Ge::scalarmult_base`: the signed radix-16 comb over the GE_BASE table computes `[a]B`.
  Part 1 is pure ℤ-module algebra in an arbitrary commutative group; part 2 is the loop refinement on the limb
  model (select → add_precomp → to_full) and needs the group-law hypothesis `EdwardsGroupLaw` (closure and
  associativity of the affine addition) to rearrange the sum — the final theorems are therefore `_partial`.
-/
import CxVerif.Proofs.GeSelect
import CxVerif.Proofs.GeRecode
import Mathlib.Tactic.Module
import Mathlib.Algebra.Module.Basic
namespace Cx.Proofs.GeComb
open Cx Cx.Spec
open Cx.Spec.ScalarL (evalDigits)

section algebra
variable {A : Type} [AddCommGroup A] (Bc : A)

/-- the group element selected for digit `e` in row `j`: `[e·256^j]B` -/
def selA (j : Nat) (e : Int) : A := e • ((256 ^ j : Nat) • Bc)

/-- the sum accumulated by one pass of the comb: every second digit (`off = 0`: even, else odd positions) -/
def partSum (off : Nat) : Nat → List Int → Nat → A
  | 0, _, _ => 0
  | n + 1, e0 :: e1 :: rest, j => selA Bc j (if off = 0 then e0 else e1) + partSum off n rest (j + 1)
  | _ + 1, _, _ => 0

theorem comb_algebra (n : Nat) : ∀ (l : List Int) (j : Nat), 2 * n ≤ l.length →
    (16 : Nat) • partSum Bc 1 n l j + partSum Bc 0 n l j = (evalDigits 16 (l.take (2 * n)) * 256 ^ j) • Bc := by
  induction n with
  | zero => intro l j _; simp [partSum, evalDigits]
  | succ n ih =>
    intro l j hl
    match l, hl with
    | e0 :: e1 :: rest, hl =>
      have hr : 2 * n ≤ rest.length := by simp at hl; omega
      have h := ih rest (j + 1) hr
      have ht : (e0 :: e1 :: rest).take (2 * (n + 1)) = e0 :: e1 :: rest.take (2 * n) := by
        rw [show 2 * (n + 1) = 2 * n + 1 + 1 by omega]; rfl
      rw [ht]
      simp only [partSum, evalDigits, selA, if_true, if_false, one_ne_zero]
      have h' : partSum Bc 0 n rest (j + 1) = (evalDigits 16 (rest.take (2 * n)) * 256 ^ (j + 1)) • Bc
          - (16 : Nat) • partSum Bc 1 n rest (j + 1) := by rw [← h]; abel
      rw [h']
      push_cast
      module

end algebra

/-! ### part 2: the loop on the limb model -/

open Cx.Impl.Fe64 Cx.Impl.Ge Cx.Proofs.EdField Cx.Proofs.EdSpec Cx.Proofs.GeRefine Cx.Proofs.GeSelect
open Cx.Proofs.Fe64 (eval Tight Loose SubOk Pub Bnd some_bind pure_eq_some)
open Cx.Spec.Field25519 (p)

set_option maxRecDepth 10000

/-- the group-law hypothesis as a class, so that the group structure on curve points is found by instance search -/
class GroupLawFact : Prop where
  out : EdwardsGroupLaw

noncomputable instance instCurveGroup [Fact (Nat.Prime p)] [h : GroupLawFact] : AddCommGroup CurvePoint :=
  curveGroup h.out

section loop
variable [hp : Fact (Nat.Prime p)] [hG : GroupLawFact]

theorem cval_add (P Q : CurvePoint) : (P + Q).1 = Edwards.add P.1 Q.1 := rfl
theorem cval_zero : (0 : CurvePoint).1 = Edwards.zero := rfl
theorem cval_neg (P : CurvePoint) : (-P).1 = Edwards.neg P.1 := rfl
theorem cval_nsmul (n : Nat) (P : CurvePoint) : (n • P).1 = Edwards.smul n P.1 :=
  (smul_eq_nsmul hG.out n P).symm

/-- the base point as a curve point -/
def Bc : CurvePoint := ⟨Edwards.B, Proofs.Ge.B_spec.1⟩

/-- a table entry that passed the kernel check represents its point -/
theorem precompOk_of_table (e : GePrecomp) (Q : Edwards.Point) (hb : Proofs.Ge.precompBnd e = true)
    (hv : Proofs.Ge.precompVals e = Edwards.precomp Q) : PrecompOk e Q := by
  simp only [Proofs.Ge.precompBnd, Proofs.Ge.fbnd, Bool.and_eq_true, decide_eq_true_eq] at hb
  obtain ⟨⟨ha, hb'⟩, hc⟩ := hb
  have t1 : Tight e.y_plus_x := Proofs.Fe64.bnd51_tight ⟨ha.1.1.1.1, ha.1.1.1.2, ha.1.1.2, ha.1.2, ha.2⟩
  have t2 : Tight e.y_minus_x := Proofs.Fe64.bnd51_tight ⟨hb'.1.1.1.1, hb'.1.1.1.2, hb'.1.1.2, hb'.1.2, hb'.2⟩
  have t3 : Tight e.xy2d := Proofs.Fe64.bnd51_tight ⟨hc.1.1.1.1, hc.1.1.1.2, hc.1.1.2, hc.1.2, hc.2⟩
  refine ⟨t1, t2, t3, ?_⟩
  simp only [Proofs.Ge.precompVals, Edwards.precomp, Prod.mk.injEq] at hv
  obtain ⟨v1, v2, v3⟩ := hv
  have e1 : ev e.y_plus_x = (Q.y : Fp) + (Q.x : Fp) := by
    unfold ev; rw [show eval e.y_plus_x = Proofs.Ge.fval e.y_plus_x from rfl, v1, cast_add]
  have e2 : ev e.y_minus_x = (Q.y : Fp) - (Q.x : Fp) := by
    unfold ev; rw [show eval e.y_minus_x = Proofs.Ge.fval e.y_minus_x from rfl, v2, cast_sub]
  have e3 : ev e.xy2d = 2 * dF * (Q.x : Fp) * (Q.y : Fp) := by
    unfold ev; rw [show eval e.xy2d = Proofs.Ge.fval e.xy2d from rfl, v3, cast_mul, cast_mul]
    unfold Field25519.edwardsD2 dF Edwards.d; rw [cast_mul]; push_cast; ring
  exact ⟨e1, e2, e3⟩

/-- row `j` of GE_BASE: eight entries representing `[(k+1)·256^j]B` -/
theorem row_ok (j : Nat) (hj : j < 32) :
    ∃ e0 e1 e2 e3 e4 e5 e6 e7, GE_BASE[j]? = some [e0, e1, e2, e3, e4, e5, e6, e7] ∧
      ∀ k (e : GePrecomp), [e0, e1, e2, e3, e4, e5, e6, e7][k]? = some e →
        PrecompOk e (Edwards.smul ((k + 1) * 256 ^ j) Edwards.B) := by
  obtain ⟨row, e, hrow, _, _, _⟩ := Proofs.Ge.GE_BASE_entry j 0 hj (by decide)
  have hlen : row.length = 8 := by
    have := Proofs.Ge.GE_BASE_rows8
    rw [List.all_eq_true] at this
    have := this row (List.mem_of_getElem? hrow)
    simpa using this
  match row, hlen with
  | [e0, e1, e2, e3, e4, e5, e6, e7], _ =>
    refine ⟨e0, e1, e2, e3, e4, e5, e6, e7, hrow, ?_⟩
    intro k e hk
    have hk8 : k < 8 := by
      by_contra h
      rw [List.getElem?_eq_none (by simp; omega)] at hk
      cases hk
    obtain ⟨row', e', hrow', he', hb, hv⟩ := Proofs.Ge.GE_BASE_entry j k hj hk8
    rw [hrow] at hrow'
    cases hrow'
    rw [hk] at he'
    cases he'
    exact precompOk_of_table e _ hb hv

/-- the Spec point selected for digit `e` in row `j` is `[e·256^j]B` of the group -/
theorem selPoint_eq (j : Nat) (e : Int) :
    (if e < 0 then Edwards.neg (pointOf (fun k => Edwards.smul ((k + 1) * 256 ^ j) Edwards.B) e.natAbs)
      else pointOf (fun k => Edwards.smul ((k + 1) * 256 ^ j) Edwards.B) e.natAbs) = (selA Bc j e).1 := by
  have key : ∀ m : Nat, pointOf (fun k => Edwards.smul ((k + 1) * 256 ^ j) Edwards.B) m
      = ((m : Int) • ((256 ^ j : Nat) • Bc) : CurvePoint).1 := by
    intro m
    unfold pointOf
    by_cases hm : m = 0
    · subst hm; simp only [if_true, Nat.cast_zero, zero_smul]; rfl
    · simp only [hm, if_false]
      rw [show m - 1 + 1 = m by omega, natCast_zsmul, ← mul_nsmul', cval_nsmul]; rfl
  unfold selA
  by_cases hneg : e < 0
  · simp only [hneg, if_true, key]
    rw [← cval_neg, ← neg_smul]
    congr 2; omega
  · simp only [hneg, if_false, key]
    congr 2; omega

/-- one pass of the comb: `n` iterations from row `j` add `partSum` -/
theorem combLoop_ok (es : List Int) (hes : ∀ e ∈ es, -8 ≤ e ∧ e ≤ 8) (off : Nat) (hoff : off = 0 ∨ off = 1) :
    ∀ (n j : Nat) (h : Ge) (H : CurvePoint), j + n ≤ 32 → 2 * (j + n) ≤ es.length → GeOk h H.1 →
      ∃ h', combLoop es off n j h = some h' ∧ GeOk h' (H + partSum Bc off n (es.drop (2 * j)) j).1 := by
  intro n
  induction n with
  | zero => intro j h H _ _ hh; exact ⟨h, rfl, by simpa [partSum] using hh⟩
  | succ n ih =>
    intro j h H hj hlen hh
    -- the two digits of row j
    obtain ⟨e0, he0⟩ : ∃ e0, es[2 * j]? = some e0 := ⟨es[2 * j], by rw [List.getElem?_eq_getElem]⟩
    obtain ⟨e1, he1⟩ : ∃ e1, es[2 * j + 1]? = some e1 := ⟨es[2 * j + 1], by rw [List.getElem?_eq_getElem]⟩
    have hdrop : es.drop (2 * j) = e0 :: e1 :: es.drop (2 * (j + 1)) := by
      apply List.ext_getElem?
      intro i
      rw [List.getElem?_drop]
      match i with
      | 0 => simpa using he0
      | 1 => simpa using he1
      | i + 2 => simp only [List.getElem?_cons_succ, List.getElem?_drop]; congr 1; omega
    let e := if off = 0 then e0 else e1
    have hget : es[j * 2 + off]? = some e := by
      rcases hoff with h0 | h1
      · subst h0; simp only [e, if_true]; rw [Nat.mul_comm]; exact he0
      · subst h1; simp only [e, one_ne_zero, if_false]; rw [Nat.mul_comm]; exact he1
    have heb : -8 ≤ e ∧ e ≤ 8 := hes e (List.mem_of_getElem? hget)
    obtain ⟨a0, a1, a2, a3, a4, a5, a6, a7, hrow, hents⟩ := row_ok j (by omega)
    obtain ⟨t, ht, htok⟩ := select_ok j e heb a0 a1 a2 a3 a4 a5 a6 a7 hrow
      (fun k => Edwards.smul ((k + 1) * 256 ^ j) Edwards.B)
      (hents 0 a0 rfl) (hents 1 a1 rfl) (hents 2 a2 rfl) (hents 3 a3 rfl) (hents 4 a4 rfl) (hents 5 a5 rfl)
      (hents 6 a6 rfl) (hents 7 a7 rfl)
    rw [selPoint_eq] at htok
    obtain ⟨r, hr, hrok⟩ := add_precomp_ok h t H.1 (selA Bc j e).1 hh htok H.2 (selA Bc j e).2
    obtain ⟨h1, hh1, hh1ok⟩ := to_full_ok r _ hrok
    rw [← cval_add] at hh1ok
    obtain ⟨h', hh', hok'⟩ := ih (j + 1) h1 (H + selA Bc j e) (by omega) (by omega) hh1ok
    refine ⟨h', ?_, ?_⟩
    · simp only [combLoop]
      rw [hget, some_bind, ht, some_bind, hr, some_bind, hh1, some_bind]
      exact hh'
    · rw [hdrop]
      simp only [partSum]
      rw [← add_assoc]
      exact hok'

theorem double_eq (P : CurvePoint) : Edwards.double P.1 = (P + P).1 := rfl

/-- what is assumed about `Scalar::nibbles` here (the scalar unit owns its proof): the 64 nibbles of `s` are in
    [0,15], the top one is ≤ 7, and they denote `a` in radix 16 — i.e. `a < 2^255` is the value of `s` -/
def NibblesOf (s : Impl.Scalar64.Scalar) (a : Nat) : Prop :=
  (∀ e ∈ (Impl.Scalar64.nibbles s).toList, 0 ≤ e ∧ e ≤ 15) ∧
  (∀ t, (Impl.Scalar64.nibbles s).toList[63]? = some t → t ≤ 7) ∧
  evalDigits 16 (Impl.Scalar64.nibbles s).toList = a

/-- `Ge::scalarmult_base(s)` represents `[a]B` (group law assumed), never panics, output limbs Tight -/
theorem scalarmult_base_ok (s : Impl.Scalar64.Scalar) (a : Nat) (hn : NibblesOf s a) :
    ∃ h, Ge.scalarmult_base s = some h ∧ GeOk h (Edwards.smul a Edwards.B) := by
  obtain ⟨hr, htop, hval⟩ := hn
  obtain ⟨es, hes, hlen, hrange, hev⟩ :=
    Proofs.GeRecode.recode_spec (Impl.Scalar64.nibbles s).toList (by simp) hr htop
  simp only [Ge.scalarmult_base]
  rw [hes, some_bind]
  obtain ⟨h1, e, ok1⟩ := combLoop_ok es hrange 1 (Or.inr rfl) 32 0 Ge.ZERO 0 (by omega) (by omega) ZERO_ok
  rw [e, some_bind]
  simp only [Nat.mul_zero, List.drop_zero, zero_add] at ok1
  generalize hS1 : partSum Bc 1 32 es 0 = S1 at ok1
  -- four doublings
  obtain ⟨r, e, okr⟩ := ge_double_p1p1_ok h1 _ ok1 S1.2
  obtain ⟨q2, e2, okq2⟩ := to_partial_ok r _ okr
  have hd1 : h1.double_partial = some q2 := by simp only [Ge.double_partial]; rw [e, some_bind]; exact e2
  rw [hd1, some_bind, double_eq] at *
  obtain ⟨r, e, okr⟩ := partial_double_p1p1_ok q2 _ okq2 (S1 + S1).2
  obtain ⟨q4, e2, okq4⟩ := to_partial_ok r _ okr
  have hd2 : q2.double = some q4 := by simp only [GePartial.double]; rw [e, some_bind]; exact e2
  rw [hd2, some_bind, double_eq] at *
  obtain ⟨r, e, okr⟩ := partial_double_p1p1_ok q4 _ okq4 (S1 + S1 + (S1 + S1)).2
  obtain ⟨q8, e2, okq8⟩ := to_partial_ok r _ okr
  have hd3 : q4.double = some q8 := by simp only [GePartial.double]; rw [e, some_bind]; exact e2
  rw [hd3, some_bind, double_eq] at *
  obtain ⟨r, e, okr⟩ := partial_double_p1p1_ok q8 _ okq8 (S1 + S1 + (S1 + S1) + (S1 + S1 + (S1 + S1))).2
  obtain ⟨g16, e2, okg16⟩ := to_full_ok r _ okr
  have hd4 : q8.double_full = some g16 := by simp only [GePartial.double_full]; rw [e, some_bind]; exact e2
  rw [hd4, some_bind]
  rw [double_eq] at okg16
  obtain ⟨h2, e, ok2⟩ := combLoop_ok es hrange 0 (Or.inl rfl) 32 0 g16 _ (by omega) (by omega) okg16
  refine ⟨h2, e, ?_⟩
  simp only [Nat.mul_zero, List.drop_zero] at ok2
  have halg := comb_algebra Bc 32 es 0 (by omega)
  rw [hS1] at halg
  have htake : es.take (2 * 32) = es := List.take_of_length_le (by omega)
  rw [htake, hev, hval, pow_zero, mul_one, natCast_zsmul] at halg
  have : S1 + S1 + (S1 + S1) + (S1 + S1 + (S1 + S1)) + (S1 + S1 + (S1 + S1) + (S1 + S1 + (S1 + S1)))
      + partSum Bc 0 32 es 0 = a • Bc := by
    rw [← halg]; module
  rw [this, cval_nsmul] at ok2
  exact ok2

end loop

end Cx.Proofs.GeComb
