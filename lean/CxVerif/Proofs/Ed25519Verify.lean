/-
  Proofs.Ed25519Verify — `ed25519::verify` decides exactly the Spec predicate (cofactorless equation, canonical S,
  decodable non-zero key): the decision logic of the function composed from the theorems/interfaces of its callees.

  Interfaces (explicit hypotheses):
    `DecodeFact`   `Ge::from_bytes` refines `Spec.Edwards.decode` (the §5.1.3 procedure as implemented)
    `DsmFact`      `double_scalarmult_vartime(a, A, b)` represents `[a]A + [b]B` for reduced `a`, canonical `b`
    `ScalarFacts`, `CanonicalFact`   unit scalar64 (`from_bytes_canonical` accepts exactly values < L)
    `GroupLawFact`, `[Fact (Nat.Prime p)]`
-/
import CxVerif.Proofs.Ed25519Sign
namespace Cx.Proofs.Ed25519Verify
open Cx Cx.Spec Cx.Impl.Ge Cx.Impl.Ed25519 Cx.Proofs.EdSpec Cx.Proofs.GeRefine Cx.Proofs.GeComb
  Cx.Proofs.Ed25519Sha Cx.Proofs.Ed25519Sign
open Cx.Proofs.Fe64 (some_bind pure_eq_some)
open Cx.Impl.Scalar64 (Scalar)
open Cx.Spec.Field25519 (p)
open Cx.Spec.ScalarL (L)

set_option maxRecDepth 10000

section facts
variable [hp : Fact (Nat.Prime p)]

/-- `Ge::from_bytes` against the Spec decoder (lenient §5.1.3): rejects exactly the non-points, otherwise
    returns a Tight representation of the decoded curve point -/
def DecodeFact : Prop :=
  ∀ s : Bytes, s.length = 32 →
    match Edwards.decode s with
    | none => Ge.from_bytes s = some none
    | some P => OnCurve P ∧ ∃ g, Ge.from_bytes s = some (some g) ∧ GeOk g P

/-- `double_scalarmult_vartime` against the Spec -/
def DsmFact : Prop :=
  ∀ (a b : Scalar) (g : Ge) (A : Edwards.Point), SInv a → SInv b → a.val < 2 ^ 255 → b.val < 2 ^ 255 → GeOk g A →
    OnCurve A → ∃ r, GePartial.double_scalarmult_vartime a g b = some r ∧
      PartialOk r (Edwards.add (Edwards.smul a.val A) (Edwards.smul b.val Edwards.B))

/-- `Scalar::from_bytes_canonical` accepts exactly the encodings of values below L -/
def CanonicalFact : Prop :=
  ∀ b : Bytes, b.length = 32 → ∃ s, Impl.Scalar64.fromBytes b = some s ∧ SInv s ∧ s.val = leNat b ∧
    Impl.Scalar64.fromBytesCanonical b = some (if leNat b < L then some s else none)

end facts

/-- the OR-fold of `verify` is zero exactly for the all-zero string -/
theorem or_fold_zero (l : Bytes) : (l.foldl (· ||| ·) (0 : UInt8) == 0) = decide (l = zeros l.length) := by
  have gen : ∀ (l : Bytes) (acc : UInt8), (l.foldl (· ||| ·) acc = 0) ↔ (acc = 0 ∧ l = zeros l.length) := by
    intro l
    induction l with
    | nil => intro acc; simp [zeros]
    | cons x xs ih =>
      intro acc
      simp only [List.foldl_cons, ih, UInt8.or_eq_zero_iff, List.length_cons, zeros, List.replicate_succ,
        List.cons.injEq]
      constructor
      · rintro ⟨⟨h1, h2⟩, h3⟩; exact ⟨h1, h2, h3⟩
      · rintro ⟨h1, h2, h3⟩; exact ⟨⟨h1, h2⟩, h3⟩
  have := gen l 0
  by_cases h : l = zeros l.length
  · have h0 : l.foldl (· ||| ·) (0 : UInt8) = 0 := this.2 ⟨rfl, h⟩
    have hd : decide (l = zeros l.length) = true := decide_eq_true h
    rw [hd, h0]; rfl
  · have h0 : ¬ (l.foldl (· ||| ·) (0 : UInt8) = 0) := fun hh => h (this.1 hh).2
    have hd : decide (l = zeros l.length) = false := decide_eq_false h
    rw [hd]; exact beq_eq_false_iff_ne.2 h0

section main
variable [hp : Fact (Nat.Prime p)] [hG : GroupLawFact]

/-- `[k](−A) + [S]B = [S]B − [k]A` in the group -/
theorem dsm_point_eq (k S : Nat) (A : Edwards.Point) (hA : OnCurve A) :
    Edwards.add (Edwards.smul k (Edwards.neg A)) (Edwards.smul S Edwards.B)
      = Edwards.sub (Edwards.smul S Edwards.B) (Edwards.smul k A) := by
  let Ac : CurvePoint := ⟨A, hA⟩
  have h1 : Edwards.smul k (Edwards.neg A) = (k • (-Ac)).1 := by rw [cval_nsmul]; rfl
  have h2 : Edwards.smul S Edwards.B = (S • Bc).1 := by rw [cval_nsmul]; rfl
  have h3 : Edwards.smul k A = (k • Ac).1 := by rw [cval_nsmul]
  unfold Edwards.sub
  rw [h1, h2, h3, ← cval_neg, ← cval_add, ← cval_add]
  congr 1
  rw [smul_neg, add_comm]

/-- `verify` computes the Spec predicate -/
theorem verify_eq (DF : DecodeFact) (MF : DsmFact) (SF : ScalarFacts) (CF : CanonicalFact)
    (msg pk sig : Bytes) (hpk : pk.length = 32) (hsig : sig.length = 64) (hm : msg.length < 2 ^ 124) :
    verify msg pk sig = some (Spec.Ed25519.verify msg pk sig) := by
  have hLt : L < 2 ^ 255 := by decide +kernel
  have hLpos : 0 < L := by decide +kernel
  unfold verify Spec.Ed25519.verify Spec.Ed25519.verifyWith
  rw [if_pos ⟨hpk, hsig⟩]
  have hdec := DF pk hpk
  cases hd : Edwards.decode pk with
  | none =>
    rw [hd] at hdec
    rw [hdec, some_bind]
    rfl
  | some A =>
    rw [hd] at hdec
    obtain ⟨hA, g, eg, gok⟩ := hdec
    rw [eg, some_bind]
    dsimp only
    obtain ⟨a, ea, aok⟩ := negate_ok g A gok
    rw [ea, some_bind]
    obtain ⟨S, eS, Sinv, Sval, ecan⟩ := CF (sig.drop 32) (by simp [hsig])
    rw [ecan, some_bind]
    by_cases hSL : leNat (sig.drop 32) < L
    · rw [if_pos hSL]
      dsimp only
      rw [or_fold_zero pk, hpk]
      by_cases hz : pk = zeros 32
      · simp [hz]
      · have hcond : sig.length = 64 ∧ leNat (sig.drop 32) < Spec.Ed25519.L ∧ pk ≠ zeros 32 := ⟨hsig, hSL, hz⟩
        rw [if_pos hcond]
        simp only [hz, decide_false, Bool.false_eq_true, if_false]
        rw [sha512_3_eq _ _ _ (by simp [hpk, hsig]; omega), some_bind]
        obtain ⟨k, ek, kinv, kval⟩ := SF.reduceWide _ (sha512_length (sig.take 32 ++ pk ++ msg))
        rw [ek, some_bind]
        have hkL : k.val < L := by rw [kval]; exact Nat.mod_lt _ hLpos
        obtain ⟨r, er, rok⟩ := MF k S a (Edwards.neg A) kinv Sinv (by omega) (by rw [Sval]; omega) aok
          (neg_onCurve A hA)
        rw [er, some_bind]
        rw [dsm_point_eq k.val S.val A hA] at rok
        have hc : OnCurve (Edwards.sub (Edwards.smul S.val Edwards.B) (Edwards.smul k.val A)) := by
          unfold Edwards.sub
          exact hG.out.closed _ _ (smul_onCurve hG.out _ _ Proofs.Ge.B_spec.1)
            (neg_onCurve _ (smul_onCurve hG.out _ _ hA))
        obtain ⟨hx, hy, _⟩ := (onCurve_iff _).1 hc
        rw [Proofs.GeBytes.partial_to_bytes_ok r _ rok hx hy, some_bind, pure_eq_some]
        rw [Cx.Props.C18.array_u8_ct_eq_spec _ _ (by rw [encode_length]; simp [hsig])]
        rw [Sval, kval]
        unfold Spec.Ed25519.H Spec.Ed25519.L
        rw [beq_eq_decide]
    · rw [if_neg hSL]
      have hcond : ¬ (sig.length = 64 ∧ leNat (sig.drop 32) < Spec.Ed25519.L ∧ pk ≠ zeros 32) :=
        fun h => hSL h.2.1
      rw [if_neg hcond]
      rfl

end main

end Cx.Proofs.Ed25519Verify
