/-
  Proofs.GlueMac — helper lemmas for the translator tie of the MAC glue (Props/C05/GlueTieMac.lean):
  the loops / join points that tools/ktx_glue_mac.py generates from src/poly1305.rs (Extracted/GlueMac.lean) against
  the corresponding pieces of the hand model Impl/Poly1305.lean (`copyInto`, `blocks`, `inputTail`, `padBuffer`,
  `finishTail`), frame lemmas of the model (`block` touches only `h`), the data-structure invariant
  `st.buffer.length = 16` (a typing fact of the Rust struct: `buffer: [u8; 16]`) and its preservation.
  Core Lean only.
-/
import CxVerif.Extracted.GlueMac
import CxVerif.Props.C05.KernelTie
namespace Cx.Proofs.GlueMac
open Cx Cx.Impl.Poly1305 Cx.Extracted.GlueMac

/-! ### `block` -/

theorem block_src_eq (st : State) (m : Bytes) : Poly1305.block_src st m = block st m := by
  unfold Poly1305.block_src Poly1305.blockKernel block
  simp only [Cx.Props.C05.block_src_eq_model]
  generalize (if st.finalized = true then 0 else 1 <<< 24) = hibit
  by_cases h1 : m.length < 16
  · simp only [if_pos h1]
  · simp only [if_neg h1]
    by_cases h2 : (blockArith st.r st.h (loadBlock m hibit)).Ok
    · simp only [if_pos h2]
    · simp only [if_neg h2]

/-- `block` changes only `h` -/
theorem block_frame {st st' : State} {m : Bytes} (h : block st m = .ok st') : ∃ h', st' = { st with h := h' } := by
  unfold block at h
  by_cases h1 : m.length < 16
  · simp [h1] at h
  · simp only [if_neg h1] at h
    generalize (if st.finalized = true then 0 else 1 <<< 24) = hibit at h
    by_cases h2 : (blockArith st.r st.h (loadBlock m hibit)).Ok
    · simp only [if_pos h2] at h
      injection h with h; exact ⟨_, h.symm⟩
    · simp only [if_neg h2] at h
      cases h

/-! ### `finish` -/

theorem finishKernel_eq (st : State) :
    Poly1305.finish_k1_src st = finishTail { st with finalized := true } := by
  unfold Poly1305.finish_k1_src Poly1305.finishKernel finishTail
  simp only [Cx.Props.C05.finish_src_eq_model]
  by_cases h2 : (finishArith st.h st.pad).Ok
  · simp only [if_pos h2]
  · simp only [if_neg h2]

/-- the zero-fill loop `for i in self.leftover+1..16 { self.buffer[i] = 0; }` -/
theorem finish_loop (cnt : Nat) : ∀ (i : Nat) (st : State), i + cnt = 16 → st.buffer.length = 16 →
    Poly1305.finish_loop1_src cnt i st = .ok { st with buffer := st.buffer.take i ++ zeros cnt } := by
  induction cnt with
  | zero =>
    intro i st hi hb
    have : st.buffer.take i = st.buffer := List.take_of_length_le (by omega)
    simp [Poly1305.finish_loop1_src, zeros, this]
  | succ n ih =>
    intro i st hi hb
    have hlt : i < 16 := by omega
    unfold Poly1305.finish_loop1_src
    simp only [if_pos hlt]
    rw [ih (i + 1) _ (by omega) (by simpa using hb)]
    have e : (st.buffer.set i 0).take (i + 1) ++ zeros n = st.buffer.take i ++ zeros (n + 1) := by
      have hl : i < st.buffer.length := by omega
      rw [List.take_set, List.take_succ_eq_append_getElem hl, List.set_append]
      simp [zeros, List.replicate_succ, List.length_take, Nat.min_eq_left (Nat.le_of_lt hl)]
    simp [e]

theorem padBuffer_eq (buf : Bytes) (l : Nat) (hl : l < buf.length) :
    (buf.set l 1).take (l + 1) ++ zeros (16 - (l + 1)) = padBuffer buf l := by
  unfold padBuffer
  rw [List.take_set, List.take_succ_eq_append_getElem hl, List.set_append]
  simp [List.length_take, Nat.min_eq_left (Nat.le_of_lt hl)]

theorem finish_src_eq (st : State) (hb : st.buffer.length = 16) :
    Poly1305.finish_src st = finish .repaired st := by
  unfold Poly1305.finish_src finish
  by_cases h0 : st.leftover > 0
  · simp only [if_pos h0]
    by_cases h1 : st.leftover < 16
    · simp only [if_pos h1]
      rw [finish_loop _ _ _ (by omega) (by simpa using hb)]
      simp only [block_src_eq, padBuffer_eq st.buffer st.leftover (by omega)]
      cases hblk : block { st with buffer := padBuffer st.buffer st.leftover, finalized := true }
          (padBuffer st.buffer st.leftover) with
      | error e => rfl
      | ok st' =>
        obtain ⟨h', rfl⟩ := block_frame hblk
        simp only [finishKernel_eq]
    · simp only [if_neg h1]
  · simp only [if_neg h0, finishKernel_eq]

/-! ### `input` -/

/-- the whole-block `while` loop = the model's `blocks` (the two redundant slice checks of the source never fire).  The generated
    loop FAILS (`.diverge`) when its fuel runs out, the model's `blocks` stops silently; they agree whenever the fuel bounds the
    iterations (`m.length ≤ fuel`: every iteration consumes 16 bytes) — the generated call passes `m.length + 1`: one unit pays for
    the last, false, test of the condition -/
theorem input_loop1_eq (fuel : Nat) : ∀ (st : State) (m : Bytes), m.length ≤ fuel →
    Poly1305.input_loop1_src (fuel + 1) st m = blocks fuel st m := by
  induction fuel with
  | zero =>
    intro st m hm
    have h : ¬ m.length ≥ 16 := by omega
    simp only [Poly1305.input_loop1_src, blocks, if_neg h]
  | succ n ih =>
    intro st m hm
    unfold Poly1305.input_loop1_src blocks
    by_cases h : m.length ≥ 16
    · simp only [if_pos h, block_src_eq]
      cases block st (m.take 16) with
      | error e => rfl
      | ok st' =>
        have hd : (m.drop 16).length ≤ n := by simp only [List.length_drop]; omega
        simp only [ih st' (m.drop 16) hd]
    · simp only [if_neg h]

/-- fuel exhaustion of the generated loop is a failure, never a value -/
theorem input_loop1_zero (st : State) (m : Bytes) : Poly1305.input_loop1_src 0 st m = .error .diverge := rfl

/-- fuel adequacy: with fuel `≥ m.length` the loop ends because its condition is false -/
theorem blocks_exit (fuel : Nat) : ∀ (st st' : State) (m m' : Bytes), m.length ≤ fuel →
    blocks fuel st m = .ok (st', m') → m'.length < 16 := by
  induction fuel with
  | zero =>
    intro st st' m m' hf h
    simp only [blocks] at h
    injection h with h; injection h with _ h2; subst h2; omega
  | succ n ih =>
    intro st st' m m' hf h
    unfold blocks at h
    by_cases hm : m.length ≥ 16
    · simp only [if_pos hm] at h
      cases hb : block st (m.take 16) with
      | error e => rw [hb] at h; cases h
      | ok s1 =>
        rw [hb] at h
        exact ih s1 st' (m.drop 16) m' (by simp; omega) h
    · simp only [if_neg hm] at h
      injection h with h; injection h with _ h2; subst h2; omega

/-- the hand models never produce `.diverge` (it exists only for exhausted fuel of generated loops) -/
theorem block_ne_diverge (st : State) (m : Bytes) : block st m ≠ .error .diverge := by
  unfold block
  by_cases h : m.length < 16
  · simp [h]
  · simp only [if_neg h]
    split <;> (split <;> simp)

theorem blocks_ne_diverge (fuel : Nat) : ∀ (st : State) (m : Bytes), blocks fuel st m ≠ .error .diverge := by
  induction fuel with
  | zero => intro st m; simp [blocks]
  | succ n ih =>
    intro st m
    unfold blocks
    by_cases hm : m.length ≥ 16
    · simp only [if_pos hm]
      cases hb : block st (m.take 16) with
      | error e =>
        intro h
        have : e = .diverge := by injection h
        exact block_ne_diverge st (m.take 16) (this ▸ hb)
      | ok s1 => exact ih s1 (m.drop 16)
    · simp [if_neg hm]

/-- `blocks` changes only `h` -/
theorem blocks_frame (fuel : Nat) : ∀ (st st' : State) (m m' : Bytes),
    blocks fuel st m = .ok (st', m') → ∃ h', st' = { st with h := h' } := by
  induction fuel with
  | zero =>
    intro st st' m m' h
    simp only [blocks] at h
    injection h with h; injection h with h1 _; subst h1; exact ⟨st.h, rfl⟩
  | succ n ih =>
    intro st st' m m' h
    unfold blocks at h
    by_cases hm : m.length ≥ 16
    · simp only [if_pos hm] at h
      cases hb : block st (m.take 16) with
      | error e => rw [hb] at h; cases h
      | ok s1 =>
        rw [hb] at h
        obtain ⟨h1, rfl⟩ := block_frame hb
        obtain ⟨h2, e2⟩ := ih _ st' _ m' h
        exact ⟨h2, e2⟩
    · simp only [if_neg hm] at h
      injection h with h; injection h with h1 _; subst h1; exact ⟨st.h, rfl⟩

/-- the join point after `if self.leftover > 0 { … }` = the model's `inputTail` -/
theorem input_k1_eq (st : State) (m : Bytes) (hb : st.buffer.length = 16) :
    Poly1305.input_k1_src st m = inputTail st m := by
  unfold Poly1305.input_k1_src inputTail
  rw [input_loop1_eq m.length st m (Nat.le_refl _)]
  cases hbl : blocks m.length st m with
  | error e => rfl
  | ok p =>
    obtain ⟨st', m'⟩ := p
    obtain ⟨h', rfl⟩ := blocks_frame _ _ _ _ _ hbl
    simp only [hb]

/-- the top-up loop `for i in 0..want { self.buffer[self.leftover + i] = m[i]; }` = the model's `copyInto` -/
theorem input_loop2_eq (m : Bytes) (cnt : Nat) : ∀ (i : Nat) (st : State), i + cnt ≤ m.length → st.buffer.length = 16 →
    Poly1305.input_loop2_src m cnt i st =
      match copyInto st.buffer (st.leftover + i) ((m.drop i).take cnt) with
      | none => .error .index
      | some buf => .ok { st with buffer := buf } := by
  induction cnt with
  | zero => intro i st _ _; simp [Poly1305.input_loop2_src, copyInto]
  | succ n ih =>
    intro i st hi hb
    have hlt : i < m.length := by omega
    unfold Poly1305.input_loop2_src
    have e1 : m[i]? = some m[i] := List.getElem?_eq_getElem hlt
    have e2 : (m.drop i).take (n + 1) = m[i] :: (m.drop (i + 1)).take n := by
      rw [List.drop_eq_getElem_cons hlt, List.take_succ_cons]
    rw [e1, e2]
    simp only [copyInto, hb]
    by_cases h16 : st.leftover + i < 16
    · simp only [if_pos h16]
      rw [ih (i + 1) _ (by omega) (by simpa using hb)]
      simp only [Nat.add_assoc]
    · simp only [if_neg h16]

theorem copyInto_length : ∀ (src buf : Bytes) (off : Nat) (res : Bytes), copyInto buf off src = some res →
    res.length = buf.length := by
  intro src
  induction src with
  | nil => intro buf off res h; simp only [copyInto] at h; injection h with h; subst h; rfl
  | cons x xs ih =>
    intro buf off res h
    simp only [copyInto] at h
    by_cases hlt : off < buf.length
    · simp only [if_pos hlt] at h
      simpa using ih _ _ _ h
    · simp only [if_neg hlt] at h; cases h

theorem input_src_eq (st : State) (data : Bytes) (hb : st.buffer.length = 16) :
    Poly1305.input_src st data = input st data := by
  unfold Poly1305.input_src input
  by_cases hf : st.finalized = true
  · simp only [hf, if_true]
  · simp only [if_neg hf]
    by_cases h0 : st.leftover > 0
    · simp only [if_pos h0]
      by_cases h16 : 16 < st.leftover
      · simp only [if_pos h16]
      · simp only [if_neg h16]
        have hw : min (16 - st.leftover) data.length ≤ data.length := Nat.min_le_right _ _
        rw [input_loop2_eq data _ 0 st (by omega) hb]
        simp only [Nat.add_zero, List.drop_zero]
        cases hc : copyInto st.buffer st.leftover (data.take (min (16 - st.leftover) data.length)) with
        | none => rfl
        | some buf =>
          have hbl : buf.length = 16 := by rw [copyInto_length _ _ _ _ hc, hb]
          simp only [if_pos hw]
          by_cases hl : st.leftover + min (16 - st.leftover) data.length < 16
          · simp only [if_pos hl]
          · simp only [if_neg hl, block_src_eq]
            cases hblk : block { st with buffer := buf, leftover := st.leftover + min (16 - st.leftover) data.length } buf with
            | error e => rfl
            | ok st' =>
              obtain ⟨h', rfl⟩ := block_frame hblk
              simp only []
              rw [input_k1_eq _ _ hbl]
    · simp only [if_neg h0]
      rw [input_k1_eq _ _ hb]

/-! ### `raw_result`, `result` -/

theorem natToLE_length (n v : Nat) : (natToLE n v).length = n := by
  induction n generalizing v with
  | zero => rfl
  | succ k ih => simp [natToLE, ih]

/-- a list of at least `n` elements splits into its first `n` and the rest -/
theorem split_at (n : Nat) (l : Bytes) (h : n ≤ l.length) : ∃ q r, l = q ++ r ∧ q.length = n :=
  ⟨l.take n, l.drop n, (List.take_append_drop n l).symm, by simp [Nat.min_eq_left h]⟩

/-- four `write_u32_le(&mut output[4k..4k+4], …)` overwrite exactly the first 16 bytes -/
theorem splice4 (a b c d out : Bytes) (ha : a.length = 4) (hbb : b.length = 4) (hc : c.length = 4)
    (ho : 16 ≤ out.length) :
    ((((a ++ out.drop 4).take 4 ++ b ++ (a ++ out.drop 4).drop 8).take 8 ++ c ++
        ((a ++ out.drop 4).take 4 ++ b ++ (a ++ out.drop 4).drop 8).drop 12).take 12 ++ d ++
      (((a ++ out.drop 4).take 4 ++ b ++ (a ++ out.drop 4).drop 8).take 8 ++ c ++
        ((a ++ out.drop 4).take 4 ++ b ++ (a ++ out.drop 4).drop 8).drop 12).drop 16) =
      a ++ b ++ c ++ d ++ out.drop 16 := by
  obtain ⟨q1, r1, rfl, h1⟩ := split_at 4 out (by omega)
  obtain ⟨q2, r2, rfl, h2⟩ := split_at 4 r1 (by simp at ho; omega)
  obtain ⟨q3, r3, rfl, h3⟩ := split_at 4 r2 (by simp at ho; omega)
  obtain ⟨q4, r, rfl, h4⟩ := split_at 4 r3 (by simp at ho; omega)
  have e0 : (q1 ++ (q2 ++ (q3 ++ (q4 ++ r)))).drop 4 = q2 ++ (q3 ++ (q4 ++ r)) := List.drop_left' h1
  have e16 : (q1 ++ (q2 ++ (q3 ++ (q4 ++ r)))).drop 16 = r := by
    have : q1 ++ (q2 ++ (q3 ++ (q4 ++ r))) = (q1 ++ q2 ++ q3 ++ q4) ++ r := by simp
    rw [this]; exact List.drop_left' (by simp [h1, h2, h3, h4])
  rw [e0, e16]
  have t1 : (a ++ (q2 ++ (q3 ++ (q4 ++ r)))).take 4 = a := List.take_left' ha
  have d1 : (a ++ (q2 ++ (q3 ++ (q4 ++ r)))).drop 8 = q3 ++ (q4 ++ r) := by
    have : a ++ (q2 ++ (q3 ++ (q4 ++ r))) = (a ++ q2) ++ (q3 ++ (q4 ++ r)) := by simp
    rw [this]; exact List.drop_left' (by simp [ha, h2])
  rw [t1, d1]
  have t2 : (a ++ b ++ (q3 ++ (q4 ++ r))).take 8 = a ++ b := List.take_left' (by simp [ha, hbb])
  have d2 : (a ++ b ++ (q3 ++ (q4 ++ r))).drop 12 = q4 ++ r := by
    have : a ++ b ++ (q3 ++ (q4 ++ r)) = (a ++ b ++ q3) ++ (q4 ++ r) := by simp
    rw [this]; exact List.drop_left' (by simp [ha, hbb, h3])
  rw [t2, d2]
  have t3 : (a ++ b ++ c ++ (q4 ++ r)).take 12 = a ++ b ++ c := List.take_left' (by simp [ha, hbb, hc])
  have d3 : (a ++ b ++ c ++ (q4 ++ r)).drop 16 = r := by
    have : a ++ b ++ c ++ (q4 ++ r) = (a ++ b ++ c ++ q4) ++ r := by simp
    rw [this]; exact List.drop_left' (by simp [ha, hbb, hc, h4])
  rw [t3, d3]

/-- the four stores of `raw_result`: the first 16 bytes of `output` become the tag, the rest is untouched -/
theorem raw_result_k1_eq (st : State) (out : Bytes) (ho : 16 ≤ out.length) :
    Poly1305.raw_result_k1_src st out = .ok (st, tagBytes st.h ++ out.drop 16) := by
  unfold Poly1305.raw_result_k1_src
  have l0 : (natToLE 4 st.h.l0).length = 4 := natToLE_length _ _
  have l1 : (natToLE 4 st.h.l1).length = 4 := natToLE_length _ _
  have l2 : (natToLE 4 st.h.l2).length = 4 := natToLE_length _ _
  have g1 : 4 ≤ out.length := by omega
  have g2 : 8 ≤ (natToLE 4 st.h.l0 ++ out.drop 4).length := by simp [l0]; omega
  simp only [if_pos g1, if_pos g2]
  have g3 : 12 ≤ ((natToLE 4 st.h.l0 ++ out.drop 4).take 4 ++ natToLE 4 st.h.l1 ++
      (natToLE 4 st.h.l0 ++ out.drop 4).drop 8).length := by simp [l0, l1]; omega
  simp only [if_pos g3]
  have g4 : 16 ≤ (((natToLE 4 st.h.l0 ++ out.drop 4).take 4 ++ natToLE 4 st.h.l1 ++
      (natToLE 4 st.h.l0 ++ out.drop 4).drop 8).take 8 ++ natToLE 4 st.h.l2 ++
      ((natToLE 4 st.h.l0 ++ out.drop 4).take 4 ++ natToLE 4 st.h.l1 ++
      (natToLE 4 st.h.l0 ++ out.drop 4).drop 8).drop 12).length := by simp [l0, l1, l2]; omega
  simp only [if_pos g4]
  rw [splice4 _ _ _ _ out l0 l1 l2 ho]
  rfl

/-- what the caller of `raw_result(&mut output)` sees: the model's answer (first 16 bytes) followed by the untouched
    rest of `output` -/
def withRest (out : Bytes) (r : Except Panic (State × Bytes)) : Except Panic (State × Bytes) :=
  match r with
  | .error e => .error e
  | .ok (st, tag) => .ok (st, tag ++ out.drop 16)

theorem raw_result_src_eq (st : State) (out : Bytes) (hb : st.buffer.length = 16) :
    Poly1305.raw_result_src st out = withRest out (raw_result .repaired st out.length) := by
  unfold Poly1305.raw_result_src raw_result withRest
  by_cases ho : out.length ≥ 16
  · have ho' : ¬ out.length < 16 := by omega
    simp only [if_pos ho, if_neg ho']
    by_cases hf : (!st.finalized) = true
    · simp only [if_pos hf, finish_src_eq st hb]
      cases finish .repaired st with
      | error e => rfl
      | ok st' => simp only [raw_result_k1_eq _ _ ho]
    · simp only [if_neg hf, raw_result_k1_eq _ _ ho]
  · have ho' : out.length < 16 := by omega
    simp only [if_neg ho, if_pos ho']

/-- `result()` wraps the 16 tag bytes into a `MacResult` -/
def asMacResult (r : Except Panic (State × Bytes)) : Except Panic (State × MacResult) :=
  match r with
  | .error e => .error e
  | .ok (st, tag) => .ok (st, ⟨tag⟩)

theorem result_src_eq (st : State) (hb : st.buffer.length = 16) :
    Poly1305.result_src st = asMacResult (result .repaired st) := by
  unfold Poly1305.result_src result asMacResult
  simp only [raw_result_src_eq _ _ hb]
  have hz : (zeros 16).length = 16 := by simp [zeros]
  rw [hz]
  unfold withRest
  cases raw_result .repaired st 16 with
  | error e => rfl
  | ok p =>
    obtain ⟨st', tag⟩ := p
    have : (zeros 16).drop 16 = [] := by simp [zeros]
    simp only [this, List.append_nil]
    rfl

/-! ### the invariant `buffer.length = 16` (Rust: `buffer: [u8; 16]`) is established by `new` and preserved -/

theorem new_wf (key : Bytes) : (new key).buffer.length = 16 := by simp [new, zeros]

theorem reset_wf (st : State) (hb : st.buffer.length = 16) : (reset st).buffer.length = 16 := hb

theorem block_wf {st st' : State} {m : Bytes} (hb : st.buffer.length = 16) (h : block st m = .ok st') :
    st'.buffer.length = 16 := by
  obtain ⟨h', rfl⟩ := block_frame h; exact hb

theorem inputTail_wf {st st' : State} {m : Bytes} (hb : st.buffer.length = 16) (h : inputTail st m = .ok st') :
    st'.buffer.length = 16 := by
  unfold inputTail at h
  cases hbl : blocks m.length st m with
  | error e => rw [hbl] at h; cases h
  | ok p =>
    obtain ⟨s1, m1⟩ := p
    rw [hbl] at h
    obtain ⟨h', rfl⟩ := blocks_frame _ _ _ _ _ hbl
    simp only at h
    by_cases hm : m1.length ≤ st.buffer.length
    · simp only [if_pos hm] at h
      injection h with h; subst h
      simp; omega
    · simp only [if_neg hm] at h; cases h

theorem input_wf {st st' : State} {data : Bytes} (hb : st.buffer.length = 16) (h : input st data = .ok st') :
    st'.buffer.length = 16 := by
  unfold input at h
  by_cases hf : st.finalized = true
  · simp only [hf, if_true] at h; cases h
  · simp only [if_neg hf] at h
    by_cases h0 : st.leftover > 0
    · simp only [if_pos h0] at h
      by_cases h16 : st.leftover > 16
      · simp only [if_pos h16] at h; cases h
      · simp only [if_neg h16] at h
        cases hc : copyInto st.buffer st.leftover (data.take (min (16 - st.leftover) data.length)) with
        | none => rw [hc] at h; cases h
        | some buf =>
          rw [hc] at h
          have hbl : buf.length = 16 := by rw [copyInto_length _ _ _ _ hc, hb]
          simp only at h
          by_cases hl : st.leftover + min (16 - st.leftover) data.length < 16
          · simp only [if_pos hl] at h
            injection h with h; subst h; exact hbl
          · simp only [if_neg hl] at h
            cases hblk : block { st with buffer := buf, leftover := st.leftover + min (16 - st.leftover) data.length } buf with
            | error e => rw [hblk] at h; cases h
            | ok s1 =>
              rw [hblk] at h
              obtain ⟨h', rfl⟩ := block_frame hblk
              exact inputTail_wf (st := { st with buffer := buf, leftover := 0, h := h' }) hbl h
    · simp only [if_neg h0] at h
      exact inputTail_wf hb h

theorem finish_wf {v : Variant} {st st' : State} (hb : st.buffer.length = 16) (h : finish v st = .ok st') :
    st'.buffer.length = 16 := by
  have ft : ∀ s s' : State, s.buffer.length = 16 → finishTail s = .ok s' → s'.buffer.length = 16 := by
    intro s s' hs hh
    unfold finishTail at hh
    by_cases hok : (finishArith s.h s.pad).Ok
    · simp only [if_pos hok] at hh; injection hh with hh; subst hh; exact hs
    · simp only [if_neg hok] at hh; cases hh
  unfold finish at h
  by_cases h0 : st.leftover > 0
  · simp only [if_pos h0] at h
    by_cases h1 : st.leftover < 16
    · simp only [if_pos h1] at h
      have hp : (padBuffer st.buffer st.leftover).length = 16 := by
        simp [padBuffer, zeros, List.length_take]; omega
      cases hblk : block { st with buffer := padBuffer st.buffer st.leftover, finalized := true }
          (padBuffer st.buffer st.leftover) with
      | error e => rw [hblk] at h; cases h
      | ok s1 =>
        rw [hblk] at h
        exact ft _ _ (block_wf (st := { st with buffer := padBuffer st.buffer st.leftover, finalized := true }) hp hblk) h
    · simp only [if_neg h1] at h; cases h
  · simp only [if_neg h0] at h
    cases v with
    | original => exact ft _ _ hb h
    | repaired => exact ft { st with finalized := true } _ hb h

theorem raw_result_wf {v : Variant} {st st' : State} {n : Nat} {tag : Bytes} (hb : st.buffer.length = 16)
    (h : raw_result v st n = .ok (st', tag)) : st'.buffer.length = 16 := by
  unfold raw_result at h
  by_cases hn : n < 16
  · simp only [if_pos hn] at h; cases h
  · simp only [if_neg hn] at h
    by_cases hf : (!st.finalized) = true
    · simp only [if_pos hf] at h
      cases hfin : finish v st with
      | error e => rw [hfin] at h; cases h
      | ok s1 =>
        rw [hfin] at h
        injection h with h; injection h with h1 _; subst h1
        exact finish_wf hb hfin
    · simp only [if_neg hf] at h
      injection h with h; injection h with h1 _; subst h1; exact hb

/-! ### the generated functions run as a user of the object would -/

/-- one GENERATED `input` per chunk -/
def inputsSrc : State → List Bytes → Except Panic State
  | st, [] => .ok st
  | st, c :: cs =>
    match Poly1305.input_src st c with
    | .error e => .error e
    | .ok st' => inputsSrc st' cs

/-- GENERATED `Poly1305::new(key)`, one `input` per chunk, `raw_result(&mut output)`; answers `output` -/
def macSrc (key : Bytes) (chunks : List Bytes) (output : Bytes) : Except Panic Bytes :=
  match inputsSrc (Poly1305.new_src key) chunks with
  | .error e => .error e
  | .ok st =>
    match Poly1305.raw_result_src st output with
    | .error e => .error e
    | .ok (_, out) => .ok out

theorem inputsSrc_eq (chunks : List Bytes) : ∀ (st : State), st.buffer.length = 16 →
    inputsSrc st chunks = inputs st chunks := by
  induction chunks with
  | nil => intro st _; rfl
  | cons c cs ih =>
    intro st hb
    unfold inputsSrc inputs
    rw [input_src_eq st c hb]
    cases hi : input st c with
    | error e => rfl
    | ok st' => exact ih st' (input_wf hb hi)

theorem inputs_wf (chunks : List Bytes) : ∀ (st st' : State), st.buffer.length = 16 →
    inputs st chunks = .ok st' → st'.buffer.length = 16 := by
  induction chunks with
  | nil => intro st st' hb h; simp only [inputs] at h; injection h with h; subst h; exact hb
  | cons c cs ih =>
    intro st st' hb h
    unfold inputs at h
    cases hi : input st c with
    | error e => rw [hi] at h; cases h
    | ok s1 => rw [hi] at h; exact ih s1 st' (input_wf hb hi) h

/-- `raw_result` looks at `output.len()` only through its assertion -/
theorem raw_result_len (v : Variant) (st : State) (n : Nat) (hn : 16 ≤ n) : raw_result v st n = raw_result v st 16 := by
  unfold raw_result
  have h1 : ¬ n < 16 := by omega
  have h2 : ¬ (16 : Nat) < 16 := by omega
  simp only [if_neg h1, if_neg h2]

theorem macSrc_eq (key : Bytes) (chunks : List Bytes) (output : Bytes) (ho : 16 ≤ output.length) :
    macSrc key chunks output =
      match Impl.Poly1305.mac .repaired key chunks with
      | .error e => .error e
      | .ok tag => .ok (tag ++ output.drop 16) := by
  unfold macSrc Impl.Poly1305.mac
  have hn : Poly1305.new_src key = new key := rfl
  rw [hn, inputsSrc_eq chunks (new key) (new_wf key)]
  cases hi : inputs (new key) chunks with
  | error e => rfl
  | ok st =>
    have hb : st.buffer.length = 16 := inputs_wf chunks _ _ (new_wf key) hi
    simp only [raw_result_src_eq st output hb, raw_result_len _ st _ ho]
    unfold withRest
    cases raw_result .repaired st 16 with
    | error e => rfl
    | ok p => obtain ⟨s, t⟩ := p; rfl

/-! ## src/mac.rs -/

theorem macResult_eq_src (a b : MacResult) : MacResult.eq_src a b = some (Impl.CT.macResultEq a.code b.code) := by
  unfold MacResult.eq_src MacResult.code_src Impl.CT.macResultEq Impl.CT.slice_u8_ct_eq
  by_cases h : a.code.length = b.code.length
  · simp only [if_pos h]
  · simp only [if_neg h]

/-! ## src/hmac.rs (generic in the digest dictionary `D`) -/

section hmac
open Cx.Impl.Digest Cx.Impl.Hmac
variable {δ : Type} (D : DigestModel δ)

/-- the typing fact behind `result(&mut self, out: &mut [u8])` in the `DigestModel` convention (the model takes the LENGTH
    of `out` and returns its new contents): a `&mut [u8]` keeps its length.  The digest model of Impl/Digest.lean
    satisfies it for the 16 macro-generated wrappers (`legacy_resultLen` below). -/
def ResultLen : Prop := ∀ (d d' : δ) (n : Nat) (out : Bytes), D.result d n = some (d', out) → out.length = n

theorem hmac_derive_key_eq (key : Bytes) (mask : UInt8) : Hmac.derive_key_src D key mask = derive_key key mask := rfl

theorem hmac_expand_key_eq (hD : ResultLen D) (digest : δ) (key : Bytes) :
    Hmac.expand_key_src D digest key = expand_key D digest key := by
  unfold Hmac.expand_key_src expand_key copy_prefix
  have hz : (zeros (D.block_size digest)).length = D.block_size digest := by simp [zeros]
  by_cases hk : key.length ≤ D.block_size digest
  · simp only [if_pos hk, hz]
  · simp only [if_neg hk, hz]
    cases D.input digest key with
    | none => rfl
    | some d1 =>
      simp only
      by_cases ho : D.output_bytes digest ≤ D.block_size digest
      · have hno : ¬ ¬ D.output_bytes digest ≤ D.block_size digest := fun h => h ho
        simp only [if_pos ho, if_neg hno]
        cases hr : D.result d1 (D.output_bytes digest) with
        | none => rfl
        | some p =>
          obtain ⟨d2, out⟩ := p
          simp only [hD _ _ _ _ hr]
          cases D.reset d2 with
          | none => rfl
          | some d3 => rfl
      · simp only [if_neg ho, if_pos ho]

theorem hmac_create_keys_eq (hD : ResultLen D) (digest : δ) (key : Bytes) :
    Hmac.create_keys_src D digest key = create_keys D digest key := by
  unfold Hmac.create_keys_src create_keys
  rw [hmac_expand_key_eq D hD]
  cases expand_key D digest key with
  | none => rfl
  | some p => rfl

theorem hmac_new_eq (hD : ResultLen D) (digest : δ) (key : Bytes) :
    Hmac.new_src D digest key = Hmac.new D digest key := by
  unfold Hmac.new_src Hmac.new
  rw [hmac_create_keys_eq D hD]
  cases create_keys D digest key with
  | none => rfl
  | some p => rfl

theorem hmac_input_eq (self : Hmac δ) (data : Bytes) : Hmac.input_src D self data = Hmac.input D self data := rfl

theorem hmac_reset_eq (self : Hmac δ) : Hmac.reset_src D self = Hmac.reset D self := by
  unfold Hmac.reset_src Hmac.reset
  cases D.reset self.digest with
  | none => rfl
  | some d => rfl

theorem hmac_output_bytes_eq (self : Hmac δ) : Hmac.output_bytes_src D self = Hmac.output_bytes D self := rfl

theorem hmac_raw_result_eq (hD : ResultLen D) (self : Hmac δ) (output : Bytes) :
    Hmac.raw_result_src D self output = Hmac.raw_result D self output.length := by
  unfold Hmac.raw_result_src Hmac.raw_result Hmac.raw_result_k1_src
  by_cases hf : (!self.finished) = true
  · simp only [if_pos hf]
    cases hr : D.result self.digest output.length with
    | none => rfl
    | some p =>
      obtain ⟨d1, out1⟩ := p
      simp only
      cases D.reset d1 with
      | none => rfl
      | some d2 =>
        simp only
        cases D.input d2 self.o_key with
        | none => rfl
        | some d3 =>
          simp only
          cases D.input d3 out1 with
          | none => rfl
          | some d4 =>
            simp only [hD _ _ _ _ hr]
            cases D.result d4 output.length with
            | none => rfl
            | some p => obtain ⟨a, b⟩ := p; rfl
  · simp only [if_neg hf]
    cases D.result self.digest output.length with
    | none => rfl
    | some p => obtain ⟨a, b⟩ := p; rfl

/-- `result()` wraps the code bytes into a `MacResult` -/
def asMacResultO {σ : Type} (r : Option (σ × Bytes)) : Option (σ × MacResult) :=
  match r with
  | none => none
  | some (s, code) => some (s, ⟨code⟩)

theorem hmac_result_eq (hD : ResultLen D) (self : Hmac δ) :
    Hmac.result_src D self = asMacResultO (Hmac.result D self) := by
  unfold Hmac.result_src Hmac.result asMacResultO
  simp only [hmac_raw_result_eq D hD]
  have hz : (zeros (D.output_bytes self.digest)).length = D.output_bytes self.digest := by simp [zeros]
  rw [hz]
  cases Hmac.raw_result D self (D.output_bytes self.digest) with
  | none => rfl
  | some p => rfl

/-- the macro-generated legacy digest wrappers satisfy `ResultLen` -/
theorem legacy_resultLen {γ : Type} (M : CtxModel γ) : ResultLen (legacyDigest M) := by
  intro d d' n out h
  simp only [legacyDigest, Legacy.result] at h
  by_cases hc : d.computed = true
  · simp only [hc, if_true] at h; cases h
  · simp only [if_neg hc] at h
    cases hfr : M.finalize_reset d.ctx with
    | none => rw [hfr] at h; cases h
    | some p =>
      obtain ⟨c, dg⟩ := p
      rw [hfr] at h
      simp only at h
      by_cases hn : n = dg.length
      · simp only [if_pos hn] at h
        injection h with h; injection h with _ h2; subst h2; exact hn.symm
      · simp only [if_neg hn] at h; cases h

end hmac

end Cx.Proofs.GlueMac
