/-
  Proofs.Scalar64Basic — helper lemmas for Impl/Scalar64.lean: the extracted constants, the checked-op
  peeling lemmas, the borrow-chain step (`lt` + wrapping_sub + conditional re-add), the constant-time
  select, `lt_order` and `reduce256`.  Core Lean only (omega / simp / decide).
-/
import CxVerif.Impl.Scalar64
import CxVerif.Spec.ScalarL
namespace Cx.Proofs.Scalar64
open Cx Cx.Impl.Scalar64

/-- the model's limb invariant of a public `Scalar`: four 56-bit limbs and a 32-bit top limb
    (what `from_bytes` produces; every value below 2^256 has exactly one such representation) -/
def Inv (s : Scalar) : Prop := s.l0 < 2^56 ∧ s.l1 < 2^56 ∧ s.l2 < 2^56 ∧ s.l3 < 2^56 ∧ s.l4 < 2^32
instance (s : Scalar) : Decidable (Inv s) := by unfold Inv; infer_instance

theorem Inv.val_lt {s : Scalar} (h : Inv s) : s.val < 2^256 := by
  unfold Inv at h; unfold Scalar.val; omega

theorem MASK16_eq : MASK16 = 2^16 - 1 := by decide
theorem MASK40_eq : MASK40 = 2^40 - 1 := by decide
theorem MASK56_eq : MASK56 = 2^56 - 1 := by decide
theorem MU_l0 : MU.l0 = 44162584779952923 := by decide
theorem MU_l1 : MU.l1 = 9390964836247533 := by decide
theorem MU_l2 : MU.l2 = 72057594036560134 := by decide
theorem MU_l3 : MU.l3 = 72057594037927935 := by decide
theorem MU_l4 : MU.l4 = 68719476735 := by decide
theorem M_l0 : M.l0 = 5175514460705773 := by decide
theorem M_l1 : M.l1 = 70332060721272408 := by decide
theorem M_l2 : M.l2 = 5342 := by decide
theorem M_l3 : M.l3 = 0 := by decide
theorem M_l4 : M.l4 = 268435456 := by decide
theorem M_val : M.val = Spec.ScalarL.L := by decide
set_option exponentiation.threshold 600 in
theorem MU_char : MU.val * Spec.ScalarL.L ≤ 2^512 ∧ 2^512 < (MU.val + 1) * Spec.ScalarL.L := by decide

theorem ck64_bind {α} (v : Nat) (h : v < 2^64) (f : Nat → Option α) : (ck64 v >>= f) = f v := by
  simp [ck64, h]
theorem ck128_bind {α} (v : Nat) (h : v < 2^128) (f : Nat → Option α) : (ck128 v >>= f) = f v := by
  simp [ck128, h]

theorem lt_eq (a b : Nat) (ha : a < 2^63) (hb : b < 2^63) : lt a b = if a < b then 1 else 0 := by
  unfold lt shr64 wsub64
  rw [Nat.shiftRight_eq_div_pow]
  split <;> omega

theorem lt_cases (a b : Nat) (ha : a < 2^63) (hb : b < 2^63) :
    (lt a b = 1 ∧ a < b) ∨ (lt a b = 0 ∧ b ≤ a) := by
  rw [lt_eq a b ha hb]; split <;> omega

theorem lt_order_spec (v : Scalar) (h0 : v.l0 < 2^56) (h1 : v.l1 < 2^56) (h2 : v.l2 < 2^56) (h3 : v.l3 < 2^56)
    (h4 : v.l4 < 2^56) : lt_order v = some (decide (v.val < Spec.ScalarL.L)) := by
  unfold lt_order
  simp only [M_l0, M_l1, M_l2, M_l3, M_l4]
  have c0 := lt_cases v.l0 5175514460705773 (by omega) (by omega)
  generalize lt v.l0 5175514460705773 = b0 at c0 ⊢
  rw [ck64_bind _ (by omega)]
  have c1 := lt_cases v.l1 (b0 + 70332060721272408) (by omega) (by omega)
  generalize lt v.l1 (b0 + 70332060721272408) = b1 at c1 ⊢
  rw [ck64_bind _ (by omega)]
  have c2 := lt_cases v.l2 (b1 + 5342) (by omega) (by omega)
  generalize lt v.l2 (b1 + 5342) = b2 at c2 ⊢
  rw [ck64_bind _ (by omega)]
  have c3 := lt_cases v.l3 (b2 + 0) (by omega) (by omega)
  generalize lt v.l3 (b2 + 0) = b3 at c3 ⊢
  rw [ck64_bind _ (by omega)]
  have c4 := lt_cases v.l4 (b3 + 268435456) (by omega) (by omega)
  generalize lt v.l4 (b3 + 268435456) = b4 at c4 ⊢
  simp only [pure, Option.some.injEq]
  rw [Bool.eq_iff_iff, beq_iff_eq, decide_eq_true_iff]
  unfold Scalar.val Spec.ScalarL.L
  omega

theorem sub_step (a pb w : Nat) (hw : w ≤ 62) (ha : a < 2^63) (hpb : pb ≤ 2^w) :
    ∃ b t, lt a pb = b ∧ wadd64 (wsub64 a pb) (shl64 b w) = t ∧
      ((b = 1 ∧ a < pb ∧ t + pb = a + 2^w) ∨ (b = 0 ∧ pb ≤ a ∧ t + pb = a)) := by
  have hW1 : 2^w ≤ 2^62 := Nat.pow_le_pow_right (by decide) hw
  have hW0 : 0 < 2^w := Nat.two_pow_pos w
  refine ⟨_, _, rfl, rfl, ?_⟩
  rcases lt_cases a pb ha (by omega) with ⟨e, c⟩ | ⟨e, c⟩
  · left; refine ⟨e, c, ?_⟩
    rw [e]; unfold wadd64 wsub64 shl64
    rw [Nat.shiftLeft_eq, Nat.one_mul]
    generalize 2^w = W at *
    omega
  · right; refine ⟨e, c, ?_⟩
    rw [e]; unfold wadd64 wsub64 shl64
    rw [Nat.shiftLeft_eq, Nat.zero_mul]
    omega

theorem ctsel (b r t : Nat) (hb : b ≤ 1) (hr : r < 2^64) (ht : t < 2^64) :
    r ^^^ (wsub64 b 1 &&& (r ^^^ t)) = if b = 1 then r else t := by
  have hb' : b = 0 ∨ b = 1 := by omega
  rcases hb' with rfl | rfl
  · have : wsub64 0 1 = 2^64 - 1 := by decide
    rw [this, Nat.and_comm, Nat.and_two_pow_sub_one_eq_mod, Nat.mod_eq_of_lt (Nat.xor_lt_two_pow hr ht),
      ← Nat.xor_assoc, Nat.xor_self, Nat.zero_xor]
    simp
  · have : wsub64 1 1 = 0 := by decide
    rw [this, Nat.zero_and, Nat.xor_zero]; simp

theorem reduce256_spec (r : Scalar) (h0 : r.l0 < 2^56) (h1 : r.l1 < 2^56) (h2 : r.l2 < 2^56) (h3 : r.l3 < 2^56)
    (h4 : r.l4 < 2^63) :
    ∃ o, reduce256 r = some o ∧ o.val = (if r.val < Spec.ScalarL.L then r.val else r.val - Spec.ScalarL.L) ∧
      o.l0 < 2^56 ∧ o.l1 < 2^56 ∧ o.l2 < 2^56 ∧ o.l3 < 2^56 ∧ o.l4 ≤ r.l4 := by
  unfold reduce256
  simp only [M_l0, M_l1, M_l2, M_l3, M_l4]
  obtain ⟨b0, t0, e1, e2, c0⟩ := sub_step r.l0 5175514460705773 56 (by omega) (by omega) (by omega)
  rw [e1, e2, ck64_bind _ (by omega)]
  obtain ⟨b1, t1, e1, e2, c1⟩ := sub_step r.l1 (b0 + 70332060721272408) 56 (by omega) (by omega) (by omega)
  rw [e1, e2, ck64_bind _ (by omega)]
  obtain ⟨b2, t2, e1, e2, c2⟩ := sub_step r.l2 (b1 + 5342) 56 (by omega) (by omega) (by omega)
  rw [e1, e2, ck64_bind _ (by omega)]
  obtain ⟨b3, t3, e1, e2, c3⟩ := sub_step r.l3 (b2 + 0) 56 (by omega) (by omega) (by omega)
  rw [e1, e2, ck64_bind _ (by omega)]
  obtain ⟨b4, t4, e1, e2, c4⟩ := sub_step r.l4 (b3 + 268435456) 32 (by omega) (by omega) (by omega)
  rw [e1, e2]
  rw [ctsel b4 r.l0 t0 (by omega) (by omega) (by omega), ctsel b4 r.l1 t1 (by omega) (by omega) (by omega),
    ctsel b4 r.l2 t2 (by omega) (by omega) (by omega), ctsel b4 r.l3 t3 (by omega) (by omega) (by omega),
    ctsel b4 r.l4 t4 (by omega) (by omega) (by omega)]
  refine ⟨_, rfl, ?_⟩
  unfold Scalar.val Spec.ScalarL.L
  simp only []
  rcases c4 with ⟨e, c4, d4⟩ | ⟨e, c4, d4⟩ <;> subst e <;> simp only [if_true, if_false, Nat.zero_ne_one] <;> split <;> omega
end Cx.Proofs.Scalar64
