/-
  Proofs.Ge32Dsm — `GePartial::double_scalarmult_vartime(a, A, b)` (ge.rs) on the 32-BIT backends represents
  `[a]A + [b]B`.  Counterpart of Proofs/GeDsm.lean: the digit-list lemmas, the window-digit index lemmas, the `topIndex`
  loop lemmas and the contract of the generic `Scalar::slide` loops (`Proofs.Scalar64.Slide.outer_spec`, stated on any
  `[i8; 256]`) are reused; new here are `slide` on `scalar32::Scalar::bits`, the table `BI` of fe32/precomp.rs, and the
  loop refinement on the 32-bit limb model inside the weight discipline of Proofs/Ge32Refine.lean (cached operands of
  weight 2/1, P1P1 results of weight ≤ 3, every `to_full`/`to_partial`/`to_cached` back to weight 1).
-/
import CxVerif.Proofs.Ge32Comb
import CxVerif.Proofs.GeDsm
namespace Cx.Proofs.Ge32Dsm
open Cx Cx.Spec Cx.Impl.Fe32 Cx.Impl.Ge32 Cx.Proofs.EdField Cx.Proofs.EdSpec Cx.Proofs.Ge32Refine Cx.Proofs.Ge32Comb
open Cx.Proofs.Fe32 (some_bind pure_eq_some)
open Cx.Impl.Scalar32 (Scalar)
open Cx.Impl.Scalar64 (ckI8)
open Cx.Impl.Ge (topIndex)
open Cx.Proofs.Scalar64.Slide (Dig)
open Cx.Spec.ScalarL (evalDigits)
open Cx.Spec.Field25519 (p)
open Cx.Proofs.GeComb (GroupLawFact instCurveGroup cval_add cval_zero cval_neg cval_nsmul Bc double_eq)
open Cx.Proofs.GeDsm (evalDigits_split evalDigits_zeros evalDigits_take_succ evalDigits_take_top dig_pos dig_neg
  topIndex_none topIndex_some sub_eq)

set_option maxRecDepth 10000

/-! ### `Scalar::slide` on the bits of a 32-bit-backend scalar -/

/-- the number a scalar denotes: its 32 bytes, little-endian -/
def sval (s : Scalar) : Nat := leNat s.toList

theorem bitsArr_toList (s : Scalar) : (bitsArr s).toList = Impl.Scalar32.bits s := by
  unfold bitsArr; simp [Vector.toList]

theorem bitsArr_get (s : Scalar) (j : Nat) (hj : j < 256) :
    (bitsArr s)[j] = ((sval s / 2 ^ j % 2 : Nat) : Int) := by
  have h1 : (bitsArr s)[j] = (bitsArr s).toList[j]'(by simpa using hj) := by rw [Vector.getElem_toList]
  rw [h1]
  have h2 : (bitsArr s).toList[j]? = some (((sval s / 2 ^ j % 2 : Nat) : Int)) := by
    rw [bitsArr_toList, Proofs.Scalar32.bits_spec]
    unfold Spec.ScalarL.bitsLE
    rw [List.getElem?_map, List.getElem?_eq_getElem (by rw [Proofs.Scalar64.digits_length]; exact hj),
      Proofs.Scalar64.digits_getElem]
    rfl
  rw [List.getElem?_eq_getElem (by simpa using hj)] at h2
  exact Option.some.inj h2

/-- **slide**: for every scalar with value below 2^255 the recoding does not overflow, denotes the value, and every
    digit is zero or odd with absolute value ≤ 15 -/
theorem slide_spec (s : Scalar) (ha : sval s < 2 ^ 255) :
    ∃ r, slide s = some r ∧ evalDigits 2 r.toList = (sval s : Int) ∧ ∀ d ∈ r.toList, Dig d := by
  have hlt : sval s < 2 ^ 256 := Nat.lt_trans ha (by decide)
  have hv : Proofs.Scalar64.Slide.T (bitsArr s) 0 = (sval s : Int) := by
    unfold Proofs.Scalar64.Slide.T
    rw [List.drop_zero, Proofs.Scalar64.Slide.ev_eq, bitsArr_toList, Proofs.Scalar32.bits_spec]
    unfold Spec.ScalarL.bitsLE
    rw [Proofs.Scalar64.evalDigits_digits]
    show (2 : Int) ^ 0 * ((sval s % 2 ^ 256 : Nat) : Int) = _
    rw [Nat.mod_eq_of_lt hlt]; simp
  have oinv : Proofs.Scalar64.Slide.OInv (sval s : Int) 0 (bitsArr s) := by
    refine ⟨?_, ?_, hv, ?_⟩
    · intro j hj hj0; omega
    · intro j hj _
      rw [bitsArr_get s j hj]
      have : sval s / 2 ^ j % 2 < 2 := Nat.mod_lt _ (by decide)
      rcases Nat.lt_or_ge (sval s / 2 ^ j % 2) 1 with h1 | h1
      · left; have : sval s / 2 ^ j % 2 = 0 := by omega
        rw [this]; rfl
      · right; have : sval s / 2 ^ j % 2 = 1 := by omega
        rw [this]; rfl
    · rw [hv]; exact_mod_cast (Nat.le_of_lt ha)
  obtain ⟨r, hr, hdone, hval⟩ := Proofs.Scalar64.Slide.outer_spec (sval s : Int) 256 0 (bitsArr s) rfl (by omega) oinv
  refine ⟨r, hr, ?_, ?_⟩
  · unfold Proofs.Scalar64.Slide.T at hval
    rw [List.drop_zero, Proofs.Scalar64.Slide.ev_eq] at hval
    simpa using hval
  · intro d hd
    obtain ⟨j, hj, rfl⟩ := List.getElem_of_mem hd
    rw [Vector.getElem_toList]
    exact hdone j (by simpa using hj) (by simpa using hj)

section loop
variable [hp : Fact (Nat.Prime p)] [hG : GroupLawFact]

/-- `ai[k]` is a cached representation of `[2k+1]A` -/
def TableA (ai : List GeCached) (Ac : CurvePoint) : Prop :=
  ∀ k, k < 8 → ∃ c, ai[k]? = some c ∧ CachedOk c (((2 * k + 1 : Nat) • Ac)).1

/-- `BI[k]` of fe32/precomp.rs is a precomputed representation of `[2k+1]B` (table theorem of Proofs/Fe32Tables.lean) -/
theorem BI_table (k : Nat) (hk : k < 8) : ∃ c, BI[k]? = some c ∧ PrecompOk c (((2 * k + 1 : Nat) • Bc)).1 := by
  obtain ⟨e, he, hok⟩ := Proofs.Ge32Comb.BI_entry k hk
  refine ⟨e, he, ?_⟩
  rw [cval_nsmul]
  exact hok

/-- the `aslide` part of one loop pass -/
theorem phaseA_ok (ai : List GeCached) (Ac : CurvePoint) (hT : TableA ai Ac) (t : GeP1P1) (R : CurvePoint)
    (ht : P1P1Ok t R.1) (d : Int) (hd : Dig d) :
    (0 < d → ∃ k c f t', k < 8 ∧ (Int.tdiv d 2).toNat = k ∧ ai[k]? = some c ∧ t.to_full = some f ∧
        f.add_cached c = some t' ∧ P1P1Ok t' (R + d • Ac).1) ∧
    (d < 0 → ∃ k c f t', k < 8 ∧ ckI8 (-d) = some (-d) ∧ (Int.tdiv (-d) 2).toNat = k ∧ ai[k]? = some c ∧
        t.to_full = some f ∧ f.sub_cached c = some t' ∧ P1P1Ok t' (R + d • Ac).1) := by
  obtain ⟨f, ef, fok⟩ := to_full_ok t _ ht
  constructor
  · intro h
    obtain ⟨k, hk, hidx, hdk⟩ := dig_pos d hd h
    obtain ⟨c, hc, cok⟩ := hT k hk
    obtain ⟨t', et', ok'⟩ := add_cached_ok f c _ _ fok cok R.2 (((2 * k + 1 : Nat) • Ac)).2
    refine ⟨k, c, f, t', hk, hidx, hc, ef, et', ?_⟩
    rw [← cval_add] at ok'
    rw [hdk, natCast_zsmul]; exact ok'
  · intro h
    obtain ⟨k, hk, hck, hidx, hdk⟩ := dig_neg d hd h
    obtain ⟨c, hc, cok⟩ := hT k hk
    obtain ⟨t', et', ok'⟩ := sub_cached_ok f c _ _ fok cok R.2 (((2 * k + 1 : Nat) • Ac)).2
    refine ⟨k, c, f, t', hk, hck, hidx, hc, ef, et', ?_⟩
    rw [sub_eq] at ok'
    rw [hdk, neg_smul, natCast_zsmul, ← sub_eq_add_neg]; exact ok'

/-- the `bslide` part of one loop pass -/
theorem phaseB_ok (t : GeP1P1) (R : CurvePoint) (ht : P1P1Ok t R.1) (d : Int) (hd : Dig d) :
    (0 < d → ∃ k c f t', k < 8 ∧ (Int.tdiv d 2).toNat = k ∧ BI[k]? = some c ∧ t.to_full = some f ∧
        f.add_precomp c = some t' ∧ P1P1Ok t' (R + d • Bc).1) ∧
    (d < 0 → ∃ k c f t', k < 8 ∧ ckI8 (-d) = some (-d) ∧ (Int.tdiv (-d) 2).toNat = k ∧ BI[k]? = some c ∧
        t.to_full = some f ∧ f.sub_precomp c = some t' ∧ P1P1Ok t' (R + d • Bc).1) := by
  obtain ⟨f, ef, fok⟩ := to_full_ok t _ ht
  constructor
  · intro h
    obtain ⟨k, hk, hidx, hdk⟩ := dig_pos d hd h
    obtain ⟨c, hc, cok⟩ := BI_table k hk
    obtain ⟨t', et', ok'⟩ := add_precomp_ok f c _ _ fok cok R.2 (((2 * k + 1 : Nat) • Bc)).2
    refine ⟨k, c, f, t', hk, hidx, hc, ef, et', ?_⟩
    rw [← cval_add] at ok'
    rw [hdk, natCast_zsmul]; exact ok'
  · intro h
    obtain ⟨k, hk, hck, hidx, hdk⟩ := dig_neg d hd h
    obtain ⟨c, hc, cok⟩ := BI_table k hk
    obtain ⟨t', et', ok'⟩ := sub_precomp_ok f c _ _ fok cok R.2 (((2 * k + 1 : Nat) • Bc)).2
    refine ⟨k, c, f, t', hk, hck, hidx, hc, ef, et', ?_⟩
    rw [sub_eq] at ok'
    rw [hdk, neg_smul, natCast_zsmul, ← sub_eq_add_neg]; exact ok'

/-- the tail of `dsmStep` (the `bslide` part and `to_partial`) -/
theorem tailB_ok (bl : List Int) (i : Nat) (db : Int) (hb : bl[i]? = some db) (hdb : Dig db)
    (t1 : GeP1P1) (R1 : CurvePoint) (ht : P1P1Ok t1 R1.1) :
    ∃ r', (do
        let bd ← bl[i]?
        if bd > 0 then do
          let c ← BI[(Int.tdiv bd 2).toNat]?
          let f ← t1.to_full
          let t ← f.add_precomp c
          t.to_partial
        else if bd < 0 then do
          let nd ← ckI8 (-bd)
          let c ← BI[(Int.tdiv nd 2).toNat]?
          let f ← t1.to_full
          let t ← f.sub_precomp c
          t.to_partial
        else do
          let t ← pure t1
          t.to_partial) = some r' ∧ PartialOk r' (R1 + db • Bc).1 := by
  obtain ⟨hpos, hneg⟩ := phaseB_ok t1 R1 ht db hdb
  rw [hb, some_bind]
  by_cases h1 : db > 0
  · obtain ⟨k, c, f, t', hk, hidx, hc, ef, et', ok'⟩ := hpos h1
    obtain ⟨r', er', rok⟩ := to_partial_ok t' _ ok'
    rw [if_pos h1, hidx, hc, some_bind, ef, some_bind, et', some_bind]
    exact ⟨r', er', rok⟩
  · rw [if_neg h1]
    by_cases h2 : db < 0
    · obtain ⟨k, c, f, t', hk, hck, hidx, hc, ef, et', ok'⟩ := hneg h2
      obtain ⟨r', er', rok⟩ := to_partial_ok t' _ ok'
      rw [if_pos h2, hck, some_bind, hidx, hc, some_bind, ef, some_bind, et', some_bind]
      exact ⟨r', er', rok⟩
    · have h0 : db = 0 := by omega
      obtain ⟨r', er', rok⟩ := to_partial_ok t1 _ ht
      rw [if_neg h2, pure_eq_some, some_bind]
      refine ⟨r', er', ?_⟩
      rw [h0, zero_smul, add_zero]; exact rok

/-- one pass of the second loop: `r ↦ 2r + a_i·A + b_i·B` -/
theorem dsmStep_ok (ai : List GeCached) (Ac : CurvePoint) (hT : TableA ai Ac) (al bl : List Int) (i : Nat)
    (da db : Int) (ha : al[i]? = some da) (hb : bl[i]? = some db) (hda : Dig da) (hdb : Dig db)
    (r : GePartial) (R : CurvePoint) (hr : PartialOk r R.1) :
    ∃ r', dsmStep ai al bl r i = some r' ∧ PartialOk r' (R + R + da • Ac + db • Bc).1 := by
  obtain ⟨t, et, tok⟩ := partial_double_p1p1_ok r _ hr R.2
  rw [double_eq] at tok
  obtain ⟨hpos, hneg⟩ := phaseA_ok ai Ac hT t (R + R) tok da hda
  simp only [dsmStep]
  rw [et, some_bind, ha, some_bind]
  by_cases h1 : da > 0
  · obtain ⟨k, c, f, t', hk, hidx, hc, ef, et', ok'⟩ := hpos h1
    rw [if_pos h1, hidx, hc, some_bind, ef, some_bind, et', some_bind]
    exact tailB_ok bl i db hb hdb t' _ ok'
  · rw [if_neg h1]
    by_cases h2 : da < 0
    · obtain ⟨k, c, f, t', hk, hck, hidx, hc, ef, et', ok'⟩ := hneg h2
      rw [if_pos h2, hck, some_bind, hidx, hc, some_bind, ef, some_bind, et', some_bind]
      exact tailB_ok bl i db hb hdb t' _ ok'
    · have h0 : da = 0 := by omega
      rw [if_neg h2, pure_eq_some, some_bind]
      have := tailB_ok bl i db hb hdb t (R + R) tok
      rw [h0, zero_smul, add_zero]
      exact this

/-- the second loop over the indices `n-1, …, 0` -/
theorem dsmLoop_ok (ai : List GeCached) (Ac : CurvePoint) (hT : TableA ai Ac) (al bl : List Int)
    (hal : ∀ j, j < 256 → ∃ d, al[j]? = some d ∧ Dig d) (hbl : ∀ j, j < 256 → ∃ d, bl[j]? = some d ∧ Dig d) :
    ∀ (n : Nat) (r : GePartial) (R : CurvePoint), n ≤ 256 → PartialOk r R.1 →
      ∃ r', dsmLoop ai al bl n r = some r' ∧
        PartialOk r' ((2 ^ n : Nat) • R + (evalDigits 2 (al.take n) • Ac + evalDigits 2 (bl.take n) • Bc)).1 := by
  intro n
  induction n with
  | zero =>
    intro r R _ hr
    refine ⟨r, rfl, ?_⟩
    simp only [List.take_zero, evalDigits, zero_smul, add_zero, pow_zero, one_smul]
    exact hr
  | succ n ih =>
    intro r R hn hr
    obtain ⟨da, ha, hda⟩ := hal n (by omega)
    obtain ⟨db, hb, hdb⟩ := hbl n (by omega)
    obtain ⟨r1, e1, ok1⟩ := dsmStep_ok ai Ac hT al bl n da db ha hb hda hdb r R hr
    obtain ⟨r', e', ok'⟩ := ih r1 _ (by omega) ok1
    refine ⟨r', ?_, ?_⟩
    · simp only [dsmLoop]
      rw [e1, some_bind]; exact e'
    · rw [evalDigits_take_succ al n da ha, evalDigits_take_succ bl n db hb]
      have : (2 ^ n : Nat) • (R + R + da • Ac + db • Bc) +
          (evalDigits 2 (al.take n) • Ac + evalDigits 2 (bl.take n) • Bc)
          = (2 ^ (n + 1) : Nat) • R + ((evalDigits 2 (al.take n) + 2 ^ n * da) • Ac +
            (evalDigits 2 (bl.take n) + 2 ^ n * db) • Bc) := by
        rw [pow_succ]
        simp only [← natCast_zsmul]
        push_cast
        module
      rw [← this]; exact ok'

/-- `a_{m+2} = (&a2 + &a_m).to_full().to_cached()` -/
theorem nextOdd_ok (a2 : Ge) (ak : GeCached) (Ac : CurvePoint) (m : Nat) (h2 : GeOk a2 ((2 : Nat) • Ac).1)
    (hk : CachedOk ak ((m : Nat) • Ac).1) :
    ∃ c, nextOdd a2 ak = some c ∧ CachedOk c ((m + 2 : Nat) • Ac).1 := by
  obtain ⟨s, es, sok⟩ := add_cached_ok a2 ak _ _ h2 hk ((2 : Nat) • Ac).2 ((m : Nat) • Ac).2
  obtain ⟨f, ef, fok⟩ := to_full_ok s _ sok
  obtain ⟨c, ec, cok⟩ := to_cached_ok f _ fok
  refine ⟨c, ?_, ?_⟩
  · simp only [nextOdd]
    rw [es, some_bind, ef, some_bind]; exact ec
  · rw [← cval_add, ← add_nsmul, Nat.add_comm] at cok
    exact cok

/-- **`double_scalarmult_vartime(a, A, b)` represents `[a]A + [b]B`** -/
theorem dsm_ok (a b : Scalar) (g : Ge) (A : Edwards.Point) (hav : sval a < 2 ^ 255)
    (hbv : sval b < 2 ^ 255) (hg : GeOk g A) (hA : OnCurve A) :
    ∃ r, GePartial.double_scalarmult_vartime a g b = some r ∧
      PartialOk r (Edwards.add (Edwards.smul (sval a) A) (Edwards.smul (sval b) Edwards.B)) := by
  let Ac : CurvePoint := ⟨A, hA⟩
  have hAc : Ac.1 = A := rfl
  obtain ⟨ra, era, hva, hda⟩ := slide_spec a hav
  obtain ⟨rb, erb, hvb, hdb⟩ := slide_spec b hbv
  -- the target point, in the group
  have htarget : Edwards.add (Edwards.smul (sval a) A) (Edwards.smul (sval b) Edwards.B)
      = (evalDigits 2 ra.toList • Ac + evalDigits 2 rb.toList • Bc).1 := by
    rw [hva, hvb, natCast_zsmul, natCast_zsmul, cval_add, cval_nsmul, cval_nsmul]; rfl
  rw [htarget]
  -- the table of odd multiples of A
  obtain ⟨a1, e1, ok1⟩ := to_cached_ok g A hg
  obtain ⟨d2, ed2, okd2⟩ := ge_double_p1p1_ok g A hg hA
  obtain ⟨a2, e2, ok2⟩ := to_full_ok d2 _ okd2
  have ok1' : CachedOk a1 ((1 : Nat) • Ac).1 := by rw [one_nsmul]; exact ok1
  have ok2' : GeOk a2 ((2 : Nat) • Ac).1 := by rw [two_nsmul]; exact ok2
  obtain ⟨a3, e3, ok3⟩ := nextOdd_ok a2 a1 Ac 1 ok2' ok1'
  obtain ⟨a5, e5, ok5⟩ := nextOdd_ok a2 a3 Ac 3 ok2' ok3
  obtain ⟨a7, e7, ok7⟩ := nextOdd_ok a2 a5 Ac 5 ok2' ok5
  obtain ⟨a9, e9, ok9⟩ := nextOdd_ok a2 a7 Ac 7 ok2' ok7
  obtain ⟨a11, e11, ok11⟩ := nextOdd_ok a2 a9 Ac 9 ok2' ok9
  obtain ⟨a13, e13, ok13⟩ := nextOdd_ok a2 a11 Ac 11 ok2' ok11
  obtain ⟨a15, e15, ok15⟩ := nextOdd_ok a2 a13 Ac 13 ok2' ok13
  have hT : TableA [a1, a3, a5, a7, a9, a11, a13, a15] Ac := by
    intro k hk
    match k, hk with
    | 0, _ => exact ⟨a1, rfl, ok1'⟩
    | 1, _ => exact ⟨a3, rfl, ok3⟩
    | 2, _ => exact ⟨a5, rfl, ok5⟩
    | 3, _ => exact ⟨a7, rfl, ok7⟩
    | 4, _ => exact ⟨a9, rfl, ok9⟩
    | 5, _ => exact ⟨a11, rfl, ok11⟩
    | 6, _ => exact ⟨a13, rfl, ok13⟩
    | 7, _ => exact ⟨a15, rfl, ok15⟩
    | k + 8, h => omega
  -- the digits
  have hdig : ∀ (rv : Vector Int 256), (∀ d ∈ rv.toList, Dig d) → ∀ j, j < 256 → ∃ d, rv.toList[j]? = some d ∧ Dig d := by
    intro rv hd j hj
    have hl : j < rv.toList.length := by simpa using hj
    exact ⟨rv.toList[j], List.getElem?_eq_getElem hl, hd _ (List.getElem_mem hl)⟩
  simp only [GePartial.double_scalarmult_vartime]
  rw [era, some_bind, erb, some_bind, e1, some_bind, ed2, some_bind, e2, some_bind, e3, some_bind, e5, some_bind,
    e7, some_bind, e9, some_bind, e11, some_bind, e13, some_bind, e15, some_bind]
  cases ht : topIndex ra.toList rb.toList 256 with
  | none =>
    refine ⟨GePartial.ZERO, rfl, ?_⟩
    have hz := topIndex_none _ _ 256 ht
    have za : evalDigits 2 ra.toList = 0 := by
      rw [← evalDigits_take_top ra.toList 0 (fun j _ hj => (hz j (by simpa using hj)).1)]; rfl
    have zb : evalDigits 2 rb.toList = 0 := by
      rw [← evalDigits_take_top rb.toList 0 (fun j _ hj => (hz j (by simpa using hj)).2)]; rfl
    rw [za, zb, zero_smul, zero_smul, add_zero, cval_zero]
    exact partial_ZERO_ok
  | some i =>
    obtain ⟨hi, hz⟩ := topIndex_some _ _ 256 i ht
    obtain ⟨r', er', ok'⟩ := dsmLoop_ok _ Ac hT ra.toList rb.toList (hdig ra hda) (hdig rb hdb) (i + 1)
      GePartial.ZERO 0 (by omega) (by rw [cval_zero]; exact partial_ZERO_ok)
    refine ⟨r', er', ?_⟩
    rw [evalDigits_take_top ra.toList (i + 1) (fun j h1 hj => (hz j (by omega) (by simpa using hj)).1),
      evalDigits_take_top rb.toList (i + 1) (fun j h1 hj => (hz j (by omega) (by simpa using hj)).2),
      smul_zero, zero_add] at ok'
    exact ok'

end loop

end Cx.Proofs.Ge32Dsm
