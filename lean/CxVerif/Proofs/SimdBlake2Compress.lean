/-
  Proofs.SimdBlake2Compress — `avx::compress_b`, `avx::compress_s`, `avx2::compress_b` (lane models) equal
  `reference::compress_b/s` (Impl.Blake2.reference_compress) for EVERY chaining value, counter words, block and
  last-block flag; includes the counter / flag vector construction (`_mm_loadu_si128(t)`, `_mm_set_epi64x(0, -1)`,
  `_mm_set_epi32(0, -1, t1, t0)`, `_mm256_set_epi64x(0, -1, t1, t0)`) and the final feed-forward.
-/
import CxVerif.Proofs.SimdBlake2
namespace Cx.Proofs.SimdBlake2
open Cx Cx.Impl.Simd Cx.Impl.SimdBlake2 Cx.Proofs.SimdBits
open Cx.Spec.Blake2 (Word Params msel G loadWords compressCore)
open Cx.Impl.Blake2 (sigmaRow LastBlock reference_compress compressRows)

theorem xor_allones64 (x : UInt64) : x ^^^ 0xFFFFFFFFFFFFFFFF = ~~~x := by
  have : (0xFFFFFFFFFFFFFFFF : UInt64) = -1 := by decide
  rw [this, UInt64.xor_neg_one]
theorem xor_allones32 (x : UInt32) : x ^^^ 0xFFFFFFFF = ~~~x := by
  have : (0xFFFFFFFF : UInt32) = -1 := by decide
  rw [this, UInt32.xor_neg_one]

/-- the last expression of `compressCore` -/
def finalXor {W : Type} [Word W] (h : Vector W 8) (v : Vector W 16) : Vector W 8 :=
  #v[Word.xor h[0] (Word.xor v[0] v[8]), Word.xor h[1] (Word.xor v[1] v[9]),
     Word.xor h[2] (Word.xor v[2] v[10]), Word.xor h[3] (Word.xor v[3] v[11]),
     Word.xor h[4] (Word.xor v[4] v[12]), Word.xor h[5] (Word.xor v[5] v[13]),
     Word.xor h[6] (Word.xor v[6] v[14]), Word.xor h[7] (Word.xor v[7] v[15])]

/-- the initial work vector of `compressCore` -/
def initV {W : Type} [Word W] (iv h : Vector W 8) (t0 t1 : W) (last : Bool) : Vector W 16 :=
  #v[h[0], h[1], h[2], h[3], h[4], h[5], h[6], h[7], iv[0], iv[1], iv[2], iv[3], Word.xor iv[4] t0, Word.xor iv[5] t1,
     (if last then Word.compl iv[6] else iv[6]), iv[7]]

theorem compressCore_eq {W : Type} [Word W] (iv : Vector W 8) (r1 r2 r3 r4 : Nat) (rows : List (List Nat))
    (h : Vector W 8) (blk : Bytes) (t0 t1 : W) (last : Bool) :
    compressCore iv r1 r2 r3 r4 rows h blk t0 t1 last =
      finalXor h (rows.foldl (Spec.Blake2.round r1 r2 r3 r4 (loadWords blk)) (initV iv h t0 t1 last)) := rfl

theorem b_rows : Extracted.Simd.B_AVX_ROUNDS.map sigmaRow = compressRows Impl.Blake2.b := by decide
theorem b_rounds_lt : ∀ r ∈ Extracted.Simd.B_AVX_ROUNDS, r < 10 := by decide

def avxbInit (h iv : Vector UInt64 8) (t f : V2x64) : AvxB.Rows :=
  ⟨⟨h[0], h[1]⟩, ⟨h[2], h[3]⟩, ⟨h[4], h[5]⟩, ⟨h[6], h[7]⟩, ⟨iv[0], iv[1]⟩, ⟨iv[2], iv[3]⟩,
   V2x64.xor ⟨iv[4], iv[5]⟩ t, V2x64.xor ⟨iv[6], iv[7]⟩ f⟩

def avxbOut (h : Vector UInt64 8) (v : Vector UInt64 16) : Vector UInt64 8 :=
  #v[h[0] ^^^ (v[8] ^^^ v[0]), h[1] ^^^ (v[9] ^^^ v[1]), h[2] ^^^ (v[10] ^^^ v[2]), h[3] ^^^ (v[11] ^^^ v[3]),
     h[4] ^^^ (v[12] ^^^ v[4]), h[5] ^^^ (v[13] ^^^ v[5]), h[6] ^^^ (v[14] ^^^ v[6]), h[7] ^^^ (v[15] ^^^ v[7])]

theorem avxbOut_eq (h : Vector UInt64 8) (v : Vector UInt64 16) : avxbOut h v = finalXor h v := by
  simp only [avxbOut, finalXor, wxor64, UInt64.xor_comm]

theorem compress_b_avx_unfold (h : Vector UInt64 8) (block : Bytes) (iv : Vector UInt64 8) (t f : V2x64) :
    AvxB.compress_b_avx h block iv t f =
      match AvxB.rounds avxbRot63 (AvxB.msgVecs (loadWords block)) (avxbInit h iv t f) Extracted.Simd.B_AVX_ROUNDS with
      | none => none
      | some s => some (avxbOut h (avxbV16 s)) := by
  unfold AvxB.compress_b_avx
  rw [avxb_rotate63]
  rfl

/-- **avx::compress_b = reference::compress_b**, every (h, t, block, last) -/
theorem avx_compress_b_eq (h : Vector UInt64 8) (t0 t1 : Nat) (buf : Bytes) (last : LastBlock) :
    avx_compress_b h t0 t1 buf last = some (reference_compress Impl.Blake2.b h t0 t1 buf last) := by
  unfold avx_compress_b
  rw [compress_b_avx_unfold]
  obtain ⟨s', hs, ev⟩ := avxb_rounds (loadWords buf) _ (avxbInit h Impl.Blake2.b.iv ⟨UInt64.ofNat t0, UInt64.ofNat t1⟩
    (if last = LastBlock.Yes then ⟨0xFFFFFFFFFFFFFFFF, 0⟩ else ⟨0, 0⟩)) b_rounds_lt
  rw [hs]
  simp only [Option.some.injEq]
  rw [avxbOut_eq, ev, b_rows]
  unfold reference_compress
  rw [compressCore_eq]
  congr 2
  cases last <;> simp [avxbInit, avxbV16, initV, V2x64.xor, xor_allones64, wxor64] <;>
    first | exact ⟨rfl, rfl, rfl⟩ | exact ⟨rfl, rfl⟩

/-! ### avx.rs BLAKE2s -/

theorem s_rows : Extracted.Simd.S_AVX_ROUNDS.map sigmaRow = compressRows Impl.Blake2.s := by decide
theorem s_rounds_lt : ∀ r ∈ Extracted.Simd.S_AVX_ROUNDS, r < 10 := by decide

def avxsInit (h iv : Vector UInt32 8) (t : V4x32) : AvxS.Rows :=
  ⟨⟨h[0], h[1], h[2], h[3]⟩, ⟨h[4], h[5], h[6], h[7]⟩, ⟨iv[0], iv[1], iv[2], iv[3]⟩,
   V4x32.xor ⟨iv[4], iv[5], iv[6], iv[7]⟩ t⟩

def avxsOut (h : Vector UInt32 8) (v : Vector UInt32 16) : Vector UInt32 8 :=
  #v[h[0] ^^^ (v[0] ^^^ v[8]), h[1] ^^^ (v[1] ^^^ v[9]), h[2] ^^^ (v[2] ^^^ v[10]), h[3] ^^^ (v[3] ^^^ v[11]),
     h[4] ^^^ (v[4] ^^^ v[12]), h[5] ^^^ (v[5] ^^^ v[13]), h[6] ^^^ (v[6] ^^^ v[14]), h[7] ^^^ (v[7] ^^^ v[15])]

theorem avxsOut_eq (h : Vector UInt32 8) (v : Vector UInt32 16) : avxsOut h v = finalXor h v := rfl

theorem compress_s_avx_unfold (h : Vector UInt32 8) (block : Bytes) (iv : Vector UInt32 8) (t : V4x32) :
    AvxS.compress_s_avx h block iv t =
      match AvxS.rounds avxsRots (AvxS.msgVecs (loadWords block)) (avxsInit h iv t) Extracted.Simd.S_AVX_ROUNDS with
      | none => none
      | some s => some (avxsOut h (avxsV16 s)) := by
  unfold AvxS.compress_s_avx
  rw [avxs_rotate7, avxs_rotate12]
  rfl

/-- **avx::compress_s = reference::compress_s**, every (h, t, block, last) -/
theorem avx_compress_s_eq (h : Vector UInt32 8) (t0 t1 : Nat) (buf : Bytes) (last : LastBlock) :
    avx_compress_s h t0 t1 buf last = some (reference_compress Impl.Blake2.s h t0 t1 buf last) := by
  unfold avx_compress_s
  rw [compress_s_avx_unfold]
  obtain ⟨s', hs, ev⟩ := avxs_rounds (loadWords buf) _ (avxsInit h Impl.Blake2.s.iv
    (if last = LastBlock.Yes then ⟨UInt32.ofNat t0, UInt32.ofNat t1, 0xFFFFFFFF, 0⟩ else ⟨UInt32.ofNat t0, UInt32.ofNat t1, 0, 0⟩))
    s_rounds_lt
  rw [hs]
  simp only [Option.some.injEq]
  rw [avxsOut_eq, ev, s_rows]
  unfold reference_compress
  rw [compressCore_eq]
  congr 2
  cases last <;> simp [avxsInit, avxsV16, initV, V4x32.xor, xor_allones32, wxor32] <;>
    first | exact ⟨rfl, rfl, rfl⟩ | exact ⟨rfl, rfl⟩

/-! ### avx2.rs BLAKE2b -/

theorem b2_rows : Extracted.Simd.B_AVX2_ROUNDS.map sigmaRow = compressRows Impl.Blake2.b := by decide
theorem b2_rounds_lt : ∀ r ∈ Extracted.Simd.B_AVX2_ROUNDS, r < 10 := by decide

def avx2Init (h iv : Vector UInt64 8) (ft : V4x64) : Avx2B.Rows :=
  ⟨⟨h[0], h[1], h[2], h[3]⟩, ⟨h[4], h[5], h[6], h[7]⟩, ⟨iv[0], iv[1], iv[2], iv[3]⟩,
   V4x64.xor ⟨iv[4], iv[5], iv[6], iv[7]⟩ ft⟩

def avx2Out (h : Vector UInt64 8) (v : Vector UInt64 16) : Vector UInt64 8 :=
  #v[(v[0] ^^^ v[8]) ^^^ h[0], (v[1] ^^^ v[9]) ^^^ h[1], (v[2] ^^^ v[10]) ^^^ h[2], (v[3] ^^^ v[11]) ^^^ h[3],
     (v[4] ^^^ v[12]) ^^^ h[4], (v[5] ^^^ v[13]) ^^^ h[5], (v[6] ^^^ v[14]) ^^^ h[6], (v[7] ^^^ v[15]) ^^^ h[7]]

theorem avx2Out_eq (h : Vector UInt64 8) (v : Vector UInt64 16) : avx2Out h v = finalXor h v := by
  simp only [avx2Out, finalXor, wxor64, UInt64.xor_comm]

theorem compress_b_avx2_unfold (h : Vector UInt64 8) (block : Bytes) (iv : Vector UInt64 8) (ft : V4x64) :
    Avx2B.compress_b_avx2 h block iv ft =
      match Avx2B.rounds avx2Rot63 (Avx2B.msgVecs (loadWords block)) (avx2Init h iv ft) Extracted.Simd.B_AVX2_ROUNDS with
      | none => none
      | some s => some (avx2Out h (avx2V16 s)) := by
  unfold Avx2B.compress_b_avx2
  rw [avx2_rot63]
  rfl

/-- **avx2::compress_b = reference::compress_b**, every (h, t, block, last) -/
theorem avx2_compress_b_eq (h : Vector UInt64 8) (t0 t1 : Nat) (buf : Bytes) (last : LastBlock) :
    avx2_compress_b h t0 t1 buf last = some (reference_compress Impl.Blake2.b h t0 t1 buf last) := by
  unfold avx2_compress_b
  rw [compress_b_avx2_unfold]
  obtain ⟨s', hs, ev⟩ := avx2_rounds (loadWords buf) _ (avx2Init h Impl.Blake2.b.iv
    (if last = LastBlock.Yes then ⟨UInt64.ofNat t0, UInt64.ofNat t1, 0xFFFFFFFFFFFFFFFF, 0⟩ else ⟨UInt64.ofNat t0, UInt64.ofNat t1, 0, 0⟩))
    b2_rounds_lt
  rw [hs]
  simp only [Option.some.injEq]
  rw [avx2Out_eq, ev, b2_rows]
  unfold reference_compress
  rw [compressCore_eq]
  congr 2
  cases last <;> simp [avx2Init, avx2V16, initV, V4x64.xor, xor_allones64, wxor64] <;>
    first | exact ⟨rfl, rfl, rfl⟩ | exact ⟨rfl, rfl⟩

end Cx.Proofs.SimdBlake2
