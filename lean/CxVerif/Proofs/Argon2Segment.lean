/-
  Proofs.Argon2Segment — data-independent addressing: the byte view of a block determines the block, the code's
  `input_block` words = the RFC's `Z || LE64(i) || ZERO(968)`, `next_addresses` = the RFC's address-block formula;
  one iteration of the `fill_segment` loop = the RFC's step for one block (under the loop invariant).  Core Lean only.
-/
import CxVerif.Proofs.Argon2Block
import CxVerif.Proofs.Argon2Index
namespace Cx.Proofs.Argon2
open Cx Cx.Spec.Argon2
open Cx.Impl.Argon2 (index_alpha subU add32 mul32 mul64 add64 remU divU SYNC_POINTS BlockPos)

/-! ### bytes <-> words -/

theorem leNat_natToLE : ∀ (n v : Nat), leNat (natToLE n v) = v % 256 ^ n
  | 0, v => by simp [natToLE, leNat, Nat.mod_one]
  | n + 1, v => by
    simp only [natToLE, leNat, leNat_natToLE n (v / 256)]
    have : (UInt8.ofNat (v % 256)).toNat = v % 256 := by simp
    rw [this, Nat.pow_succ, Nat.mul_comm (256 ^ n) 256, Nat.mod_mul]
    

theorem natToLE_length' (n v : Nat) : (natToLE n v).length = n := by
  induction n generalizing v with
  | zero => rfl
  | succ n ih => simp [natToLE, ih]

theorem leU64_u64le_append (x : UInt64) (rest : Bytes) : leU64 (u64le x ++ rest) = x := by
  unfold leU64 u64le
  rw [List.take_left' (natToLE_length' 8 _), leNat_natToLE]
  have : x.toNat % 256 ^ 8 = x.toNat := Nat.mod_eq_of_lt (by have := x.toNat_lt; omega)
  rw [this]; simp

theorem drop_flatMap_u64le : ∀ (l : List UInt64) (k : Nat), (l.flatMap u64le).drop (8 * k) = (l.drop k).flatMap u64le
  | l, 0 => by simp
  | [], k + 1 => by simp
  | x :: l, k + 1 => by
    have hl : (u64le x).length = 8 := natToLE_length' 8 _
    rw [List.flatMap_cons, show 8 * (k + 1) = (u64le x).length + 8 * k by omega, List.drop_append]
    simp only [Nat.add_sub_cancel_left, List.drop_succ_cons]
    rw [List.drop_eq_nil_of_le (by omega), List.nil_append, drop_flatMap_u64le l k]

/-- the byte view of a block determines the block -/
theorem blockOfBytes_bytesOfBlock (b : Block) : blockOfBytes (bytesOfBlock b) = b := by
  ext k hk
  unfold blockOfBytes bytesOfBlock
  rw [Vector.getElem_ofFn, drop_flatMap_u64le]
  have hk' : k < b.toList.length := by simpa using hk
  rw [List.drop_eq_getElem_cons hk', List.flatMap_cons, leU64_u64le_append]
  simp

/-! ### address blocks -/

theorem natToLE_mod : ∀ (n v : Nat), natToLE n (v % 256 ^ n) = natToLE n v
  | 0, v => rfl
  | n + 1, v => by
    simp only [natToLE]
    rw [Nat.pow_succ, Nat.mul_comm (256 ^ n) 256, Nat.mod_mul_right_mod, Nat.mod_mul_right_div_self, natToLE_mod n]

theorem u64le_ofNat (v : Nat) : u64le (UInt64.ofNat v) = LE64 v := by
  unfold u64le LE64
  rw [UInt64.toNat_ofNat']
  exact natToLE_mod 8 v

theorem flatMap_zero : ∀ n : Nat, (List.replicate n (0 : UInt64)).flatMap u64le = zeros (8 * n)
  | 0 => rfl
  | n + 1 => by
    rw [List.replicate_succ, List.flatMap_cons, flatMap_zero n]
    have : u64le 0 = zeros 8 := by decide
    rw [this]
    simp only [zeros, List.replicate_append_replicate]
    congr 1; omega

/-- the block whose first seven words are given and the rest zero -/
def inputWords (a0 a1 a2 a3 a4 a5 a6 : UInt64) : Block :=
  ((((((Impl.Argon2.Block.new.set 0 a0).set 1 a1).set 2 a2).set 3 a3).set 4 a4).set 5 a5).set 6 a6

theorem inputWords_bytes (a0 a1 a2 a3 a4 a5 a6 : UInt64) :
    bytesOfBlock (inputWords a0 a1 a2 a3 a4 a5 a6) =
      u64le a0 ++ u64le a1 ++ u64le a2 ++ u64le a3 ++ u64le a4 ++ u64le a5 ++ u64le a6 ++ zeros 968 := by
  have h : (inputWords a0 a1 a2 a3 a4 a5 a6).toList = a0 :: a1 :: a2 :: a3 :: a4 :: a5 :: a6 :: List.replicate 121 0 := rfl
  have hz : (List.replicate 121 (0 : UInt64)).flatMap u64le = zeros 968 := flatMap_zero 121
  unfold bytesOfBlock
  rw [h]
  simp only [List.flatMap_cons, hz, List.append_assoc]

theorem addrInput_eq (c : Params) (r l sl i : Nat) :
    addrInput c r l sl i = inputWords (UInt64.ofNat r) (UInt64.ofNat l) (UInt64.ofNat sl) (UInt64.ofNat (mPrime c))
      (UInt64.ofNat c.t) (UInt64.ofNat c.y.y) (UInt64.ofNat i) := by
  rw [← blockOfBytes_bytesOfBlock (inputWords _ _ _ _ _ _ _), inputWords_bytes]
  simp only [u64le_ofNat]
  rfl

theorem inputWords_zero (a0 a1 a2 a3 a4 a5 : UInt64) :
    inputWords a0 a1 a2 a3 a4 a5 0 = (((((Impl.Argon2.Block.new.set 0 a0).set 1 a1).set 2 a2).set 3 a3).set 4 a4).set 5 a5 := rfl

theorem inputWords_get6 (a0 a1 a2 a3 a4 a5 a6 : UInt64) : (inputWords a0 a1 a2 a3 a4 a5 a6)[6] = a6 := rfl
theorem inputWords_set6 (a0 a1 a2 a3 a4 a5 a6 x : UInt64) :
    (inputWords a0 a1 a2 a3 a4 a5 a6).set 6 x = inputWords a0 a1 a2 a3 a4 a5 x := rfl

/-- `next_addresses` computes the RFC's next 1024-byte address value
    `G(ZERO, G(ZERO, Z || LE64(n+1) || ZERO(968)))` and advances the counter word -/
theorem next_addresses_eq (c : Params) (r l sl n : Nat) (hn : n + 1 < 2 ^ 64) (address : Block) :
    Impl.Argon2.next_addresses address (addrInput c r l sl n) Impl.Argon2.Block.new =
      some (addrBlock c r l sl (n + 1), addrInput c r l sl (n + 1)) := by
  unfold Impl.Argon2.next_addresses
  rw [addrInput_eq, inputWords_get6, if_neg]
  · simp only [inputWords_set6, fill_block_eq_G]
    have : UInt64.ofNat n + 1 = UInt64.ofNat (n + 1) := by
      apply UInt64.toNat_inj.mp
      simp [UInt64.toNat_add, UInt64.toNat_ofNat']
    rw [this, ← addrInput_eq]
    rfl
  · intro h
    have := congrArg UInt64.toNat h
    rw [UInt64.toNat_ofNat', Nat.mod_eq_of_lt (by omega)] at this
    have h2 : (0xffffffffffffffff : UInt64).toNat = 2 ^ 64 - 1 := by decide
    omega

/-! ### one iteration and the whole loop of `fill_segment` -/

/-- loop invariant of `fill_segment` before the iteration for index `k` of segment (r, i, sl) -/
structure SegInv (c : Params) (r i sl k : Nat) (dia : Bool) (st : Impl.Argon2.SegState) (B : Memory) : Prop where
  mem : st.memory.blocks = B
  lane : st.memory.lane_length = q c
  size : B.size = c.p * q c
  curr : st.curr_offset = i * q c + (sl * segLen c + k)
  prev : sl * segLen c + k ≠ 1 → st.prev_offset = i * q c + (sl * segLen c + k + q c - 1) % q c
  addrA : dia = true → k % 128 ≠ 0 → st.address_block = addrBlock c r i sl (k / 128 + 1)
  addrI : dia = true → st.input_block = addrInput c r i sl (if k % 128 = 0 then k / 128 else k / 128 + 1)

theorem getElem?_getB (c : Params) (B : Memory) (i j : Nat) (h : i * q c + j < B.size) :
    B[i * q c + j]? = some (getB c B i j) := by
  unfold getB
  rw [Array.getElem?_eq_getElem h]
  simp [Array.getD, h]

theorem addrBlocks_getD (c : Params) (r l sl k : Nat) (hk : k < segLen c) :
    (addrBlocks c r l sl).getD (k / 128) zeroBlock = addrBlock c r l sl (k / 128 + 1) := by
  unfold addrBlocks
  have : k / 128 < (segLen c + 127) / 128 := by omega
  simp [Array.getD, this]

theorem shr32_toNat (x : UInt64) : (x >>> 32).toNat = x.toNat / 2 ^ 32 := by
  rw [UInt64.toNat_shiftRight, Nat.shiftRight_eq_div_pow]
  rfl

theorem lt_mul_of (i j p q : Nat) (hi : i < p) (hj : j < q) : i * q + j < p * q := by
  have : (i + 1) * q ≤ p * q := Nat.mul_le_mul_right q hi
  rw [Nat.add_mul] at this
  omega

/-- facts about one in-range position used by all the step lemmas -/
structure Pos (c : Params) (r i sl k : Nat) : Prop where
  hp : 1 ≤ c.p
  hm : 8 * c.p ≤ c.m
  hm2 : c.m < 2 ^ 32
  hi : i < c.p
  hsl : sl < 4
  hk : k < segLen c
  h0 : r = 0 ∧ sl = 0 → 2 ≤ k

theorem Pos.j_lt {c : Params} {r i sl k : Nat} (h : Pos c r i sl k) : sl * segLen c + k < q c := by
  rw [q_eq c h.hp]
  have := h.hsl; have := h.hk
  have : sl = 0 ∨ sl = 1 ∨ sl = 2 ∨ sl = 3 := by omega
  rcases this with h | h | h | h <;> subst h <;> omega

theorem Pos.bounds {c : Params} {r i sl k : Nat} (h : Pos c r i sl k) :
    c.p * q c < 2 ^ 32 ∧ i * q c + q c ≤ c.p * q c ∧ 8 ≤ q c := by
  have hmp : mPrime c = c.p * q c := (geometry c h.hp).2.2
  have hmle := mPrime_le c
  have hseg := segLen_ge c h.hp h.hm
  have hq := q_eq c h.hp
  have : (i + 1) * q c ≤ c.p * q c := Nat.mul_le_mul_right _ h.hi
  rw [Nat.add_mul] at this
  have := h.hm2
  refine ⟨by omega, by omega, by omega⟩

/-- 1.1: the offset of the previous block is `B[i][(j−1) mod q]` -/
theorem rotate_eq (c : Params) (r i sl k : Nat) (hpos : Pos c r i sl k) (dia : Bool) (st : Impl.Argon2.SegState)
    (B : Memory) (inv : SegInv c r i sl k dia st B) :
    Impl.Argon2.fill_segment_body.rotate st = some (i * q c + (sl * segLen c + k + q c - 1) % q c) := by
  obtain ⟨imem, ilane, isize, icurr, iprev, iaA, iaI⟩ := inv
  have hj := hpos.j_lt
  obtain ⟨hb1, hb2, hb3⟩ := hpos.bounds
  generalize sl * segLen c + k = j at *
  unfold Impl.Argon2.fill_segment_body.rotate
  simp only [Impl.Argon2.Memory.stride, ilane, icurr]
  have hmod : (i * q c + j) % q c = j := by
    rw [Nat.add_comm, Nat.add_mul_mod_self_right, Nat.mod_eq_of_lt hj]
  rw [remU_some (by omega), hmod]
  simp only []
  by_cases h1 : j = 1
  · subst h1
    rw [if_pos rfl, subU_some (by omega)]
    congr 1
    rw [show 1 + q c - 1 = q c by omega, Nat.mod_self]
    omega
  · rw [if_neg h1, iprev h1]


theorem Pos.prev_lt {c : Params} {r i sl k : Nat} (h : Pos c r i sl k) (j : Nat) :
    i * q c + (j + q c - 1) % q c < c.p * q c := by
  obtain ⟨hb1, hb2, hb3⟩ := h.bounds
  have : (j + q c - 1) % q c < q c := Nat.mod_lt _ (by omega)
  omega

/-- 1.2.1: the pseudo-random word is the RFC's X: word `k mod 128` of the `(⌊k/128⌋+1)`-th address block (which
    `next_addresses` has just produced when `k mod 128 = 0`), or word 0 of `B[i][j−1]` -/
theorem pseudo_rand_eq (c : Params) (r i sl k : Nat) (hpos : Pos c r i sl k) (dia : Bool) (st : Impl.Argon2.SegState)
    (B : Memory) (inv : SegInv c r i sl k dia st B) :
    Impl.Argon2.fill_segment_body.pseudo_rand dia Impl.Argon2.Block.new st
        (i * q c + (sl * segLen c + k + q c - 1) % q c) k =
      some (if dia then addrBlock c r i sl (k / 128 + 1) else st.address_block,
            if dia then addrInput c r i sl (k / 128 + 1) else st.input_block,
            if dia then (addrBlock c r i sl (k / 128 + 1))[k % 128]'(Nat.mod_lt _ (by omega))
            else (getB c B i ((sl * segLen c + k + q c - 1) % q c))[0]) := by
  obtain ⟨imem, ilane, isize, icurr, iprev, iaA, iaI⟩ := inv
  unfold Impl.Argon2.fill_segment_body.pseudo_rand
  cases dia with
  | true =>
    simp only [if_true]
    have hk32 : k < 2 ^ 32 := by
      have := hpos.hk; have := q_eq c hpos.hp; obtain ⟨hb1, hb2, hb3⟩ := hpos.bounds
      have : q c ≤ c.p * q c := Nat.le_mul_of_pos_left _ hpos.hp
      omega
    by_cases h128 : k % 128 = 0
    · rw [if_pos h128, iaI rfl, if_pos h128, next_addresses_eq c r i sl (k / 128) (by omega)]
    · rw [if_neg h128, iaA rfl h128, iaI rfl, if_neg h128]
  | false =>
    simp only [Bool.false_eq_true, if_false]
    unfold Impl.Argon2.Memory.block_index
    rw [imem, getElem?_getB c B i _ (by rw [isize]; exact hpos.prev_lt _)]

/-- 1.2.2: the reference lane is `J_2 mod p`, or the current lane in the first slice of the first pass -/
theorem ref_lane_eq (c : Params) (params : Impl.Argon2.Params) (hc : Corr params c) (r i sl idx : Nat) (hp : 1 ≤ c.p)
    (X : UInt64) :
    Impl.Argon2.fill_segment_body.ref_lane params ⟨r, i, sl, idx⟩ X = some (refLane c r sl i (splitX X).2) := by
  unfold Impl.Argon2.fill_segment_body.ref_lane refLane splitX
  simp only [hc.p]
  by_cases h : r = 0 ∧ sl = 0
  · rw [if_pos h, if_pos h]
  · rw [if_neg h, if_neg h, remU_some (by omega), shr32_toNat]

/-- steps 5, 6 of RFC 9106 3.2 for one block once the 8-byte value X = J_1 || J_2 is known -/
def fillBlockX (c : Params) (r sl i : Nat) (B : Memory) (k : Nat) (X : UInt64) : Memory :=
  let j := sl * segLen c + k
  let prev := getB c B i ((j + q c - 1) % q c)
  let l := refLane c r sl i (splitX X).2
  let z := refCol c r sl k (l == i) (splitX X).1
  let new := G prev (getB c B l z)
  if r = 0 ∨ c.v = 0x10 then setB c B i j new
  else setB c B i j (xorBlock new (getB c B i j))

theorem refCol_lt (c : Params) (hp : 1 ≤ c.p) (r sl k J1 : Nat) (same : Bool) (h : InRange (segLen c) r sl k same) :
    refCol c r sl k same J1 < q c := by
  have hq := q_eq c hp
  unfold refCol
  simp only []
  rw [List.getD_eq_getElem?_getD, refCol_window c hq r sl k J1 same h, hq]
  exact Nat.mod_lt _ (by have := h.seg2; omega)

theorem new_block_eq (c : Params) (params : Impl.Argon2.Params) (hc : Corr params c) (r i sl k idx : Nat)
    (hpos : Pos c r i sl k) (dia : Bool) (st : Impl.Argon2.SegState) (B : Memory) (inv : SegInv c r i sl k dia st B)
    (X : UInt64) :
    Impl.Argon2.fill_segment_body.new_block params ⟨r, i, sl, idx⟩ st
        (i * q c + (sl * segLen c + k + q c - 1) % q c) (refLane c r sl i (splitX X).2) X k =
      some { lane_length := q c, blocks := fillBlockX c r sl i B k X } := by
  obtain ⟨imem, ilane, isize, icurr, iprev, iaA, iaI⟩ := inv
  have hq := q_eq c hpos.hp
  have hj := hpos.j_lt
  obtain ⟨hb1, hb2, hb3⟩ := hpos.bounds
  have hl : refLane c r sl i (splitX X).2 < c.p := by
    unfold refLane; split
    · exact hpos.hi
    · exact Nat.mod_lt _ hpos.hp
  generalize hldef : refLane c r sl i (splitX X).2 = l at *
  have hJ1 : (X &&& 0xffffffff).toNat % 2 ^ 32 = (splitX X).1 := by
    rw [and_mask, Nat.mod_mod]; rfl
  have hJ1lt : (splitX X).1 < 2 ^ 32 := Nat.mod_lt _ (by decide)
  have hrange : InRange (segLen c) r sl k (l == i) := by
    refine ⟨segLen_ge c hpos.hp hpos.hm, by omega, hpos.hsl, hpos.hk, fun hh => ⟨?_, hpos.h0 hh⟩⟩
    rw [← hldef]; unfold refLane; rw [if_pos hh]; simp
  have hz := refCol_lt c hpos.hp r sl k (splitX X).1 (l == i) hrange
  unfold Impl.Argon2.fill_segment_body.new_block
  simp only [hJ1]
  rw [index_alpha_eq_refCol c params hq hc.seg hc.lane r i sl k (splitX X).1 (l == i) hrange hJ1lt]
  simp only [hc.lane]
  generalize hzdef : refCol c r sl k (l == i) (splitX X).1 = z at *
  have hlz : l * q c + z < c.p * q c := lt_mul_of l z c.p (q c) hl hz
  have hmul : q c * l < 2 ^ 64 := by rw [Nat.mul_comm]; omega
  rw [mul64_some hmul]
  simp only [Option.bind_some]
  rw [add64_some (by rw [Nat.mul_comm]; omega)]
  simp only [Impl.Argon2.Memory.block_index, Impl.Argon2.Memory.block_index64, imem, icurr]
  rw [getElem?_getB c B i _ (by rw [isize]; exact lt_mul_of i _ c.p (q c) hpos.hi hj)]
  simp only []
  rw [getElem?_getB c B i _ (by rw [isize]; exact hpos.prev_lt _)]
  simp only []
  rw [Nat.mul_comm (q c) l, getElem?_getB c B l z (by rw [isize]; exact hlz)]
  simp only [Impl.Argon2.Memory.set_block_index, imem, ilane]
  rw [if_pos (by rw [isize]; exact lt_mul_of i _ c.p (q c) hpos.hi hj)]
  congr 2
  unfold fillBlockX
  simp only [hldef, hzdef, hc.v]
  by_cases hx : r = 0 ∨ c.v = 0x10
  · rw [if_pos hx]
    have : (!(c.v == 16 || r == 0)) = false := by
      rcases hx with h | h <;> simp [h]
    rw [this, fill_block_eq_G]
    rfl
  · rw [if_neg hx]
    have : (!(c.v == 16 || r == 0)) = true := by
      have h1 : ¬ r = 0 := fun h => hx (Or.inl h)
      have h2 : ¬ c.v = 16 := fun h => hx (Or.inr h)
      simp [h1, h2]
    rw [this, fill_block_xor_eq_G]
    rfl

/-- the Spec's step for one block, with its own choice of X spelled out -/
theorem fillBlock_eq (c : Params) (r sl i k : Nat) (hpos : Pos c r i sl k) (B : Memory) :
    fillBlock c r sl i (if dataIndependent c.y r sl then addrBlocks c r i sl else #[]) B k =
      fillBlockX c r sl i B k
        (if dataIndependent c.y r sl then (addrBlock c r i sl (k / 128 + 1))[k % 128]'(Nat.mod_lt _ (by omega))
         else (getB c B i ((sl * segLen c + k + q c - 1) % q c))[0]) := by
  have hseg := segLen_ge c hpos.hp hpos.hm
  have hskip : ¬ (r = 0 ∧ sl * segLen c + k < 2) := by
    intro ⟨h1, h2⟩
    by_cases hs : sl = 0
    · have := hpos.h0 ⟨h1, hs⟩; subst hs; omega
    · have : 1 * segLen c ≤ sl * segLen c := Nat.mul_le_mul_right _ (by omega)
      omega
  unfold fillBlock fillBlockX
  simp only [if_neg hskip]
  cases hd : dataIndependent c.y r sl with
  | true => simp only [if_true, addrBlocks_getD c r i sl k hpos.hk]
  | false => simp only [Bool.false_eq_true, if_false]

/-- one iteration of the `fill_segment` loop = RFC 9106 3.2 steps 5/6 for block `B[i][sl·segLen + k]`, and the loop
    invariant (offsets, previous-block offset, address block and counter) is re-established for `k + 1` -/
theorem body_eq (c : Params) (params : Impl.Argon2.Params) (hc : Corr params c) (r i sl k idx : Nat)
    (hpos : Pos c r i sl k) (st : Impl.Argon2.SegState) (B : Memory)
    (inv : SegInv c r i sl k (dataIndependent c.y r sl) st B) :
    ∃ st', Impl.Argon2.fill_segment_body params ⟨r, i, sl, idx⟩ (dataIndependent c.y r sl) Impl.Argon2.Block.new st k =
        some st' ∧
      SegInv c r i sl (k + 1) (dataIndependent c.y r sl) st'
        (fillBlock c r sl i (if dataIndependent c.y r sl then addrBlocks c r i sl else #[]) B k) := by
  have hj := hpos.j_lt
  obtain ⟨hb1, hb2, hb3⟩ := hpos.bounds
  have hprev := hpos.prev_lt (sl * segLen c + k)
  have e2 : (sl * segLen c + (k + 1) + q c - 1) % q c = sl * segLen c + k := by
    rw [show sl * segLen c + (k + 1) + q c - 1 = sl * segLen c + k + q c by omega, Nat.add_mod_right,
      Nat.mod_eq_of_lt hj]
  have e3 : sl * segLen c + k ≠ 0 → (sl * segLen c + k + q c - 1) % q c = sl * segLen c + k - 1 := by
    intro h
    rw [show sl * segLen c + k + q c - 1 = (sl * segLen c + k - 1) + q c by omega, Nat.add_mod_right,
      Nat.mod_eq_of_lt (by omega)]
  unfold Impl.Argon2.fill_segment_body
  rw [rotate_eq c r i sl k hpos _ st B inv]
  simp only []
  rw [pseudo_rand_eq c r i sl k hpos _ st B inv]
  simp only []
  rw [ref_lane_eq c params hc r i sl idx hpos.hp]
  simp only []
  rw [new_block_eq c params hc r i sl k idx hpos _ st B inv]
  simp only []
  rw [fillBlock_eq c r sl i k hpos B]
  obtain ⟨imem, ilane, isize, icurr, iprev, iaA, iaI⟩ := inv
  rw [icurr, add32_some (by omega)]
  simp only []
  rw [add32_some (by omega)]
  refine ⟨_, rfl, ⟨rfl, rfl, ?_, ?_, ?_, ?_, ?_⟩⟩
  · unfold fillBlockX
    simp only []
    split <;> simp [setB, isize]
  · simp only []; omega
  · intro hne
    simp only []
    rw [e2, e3 (by omega)]
    omega
  · intro hd hne
    simp only [hd, if_true]
    congr 1
    omega
  · intro hd
    simp only [hd, if_true]
    congr 1
    split <;> omega

/-- the whole `for i in starting_index..segment_length` loop = the RFC's steps for the blocks `k .. segLen−1` of the
    segment, in order -/
theorem loop_eq (c : Params) (params : Impl.Argon2.Params) (hc : Corr params c) (r i sl idx : Nat)
    (hp : 1 ≤ c.p) (hm : 8 * c.p ≤ c.m) (hm2 : c.m < 2 ^ 32) (hi : i < c.p) (hsl : sl < 4) :
    ∀ (n k : Nat) (st : Impl.Argon2.SegState) (B : Memory), k + n = segLen c → (r = 0 ∧ sl = 0 → 2 ≤ k) →
      SegInv c r i sl k (dataIndependent c.y r sl) st B →
      ∃ st', Impl.Argon2.fill_segment_loop params ⟨r, i, sl, idx⟩ (dataIndependent c.y r sl) Impl.Argon2.Block.new
          (List.range' k n) st = some st' ∧
        SegInv c r i sl (segLen c) (dataIndependent c.y r sl) st'
          ((List.range' k n).foldl
            (fillBlock c r sl i (if dataIndependent c.y r sl then addrBlocks c r i sl else #[])) B)
  | 0, k, st, B, hkn, _, inv => by
    have : k = segLen c := by omega
    subst this
    exact ⟨st, rfl, inv⟩
  | n + 1, k, st, B, hkn, h0, inv => by
    have hpos : Pos c r i sl k := ⟨hp, hm, hm2, hi, hsl, by omega, h0⟩
    obtain ⟨st1, e1, inv1⟩ := body_eq c params hc r i sl k idx hpos st B inv
    obtain ⟨st2, e2, inv2⟩ := loop_eq c params hc r i sl idx hp hm hm2 hi hsl n (k + 1) st1 _ (by omega)
      (fun hh => by have := h0 hh; omega) inv1
    refine ⟨st2, ?_, ?_⟩
    · rw [List.range'_succ]
      unfold Impl.Argon2.fill_segment_loop
      rw [e1]
      exact e2
    · rw [List.range'_succ, List.foldl_cons]
      exact inv2

theorem dia_eq (params : Impl.Argon2.Params) (c : Params) (hc : Corr params c) (r i sl idx : Nat) :
    Impl.Argon2.data_independent_addressing params ⟨r, i, sl, idx⟩ = dataIndependent c.y r sl := by
  unfold Impl.Argon2.data_independent_addressing dataIndependent Impl.Argon2.SYNC_POINTS
  rw [hc.y]
  cases c.y
  · simp [tyOf]
  · simp [tyOf]
  · have hne : (Impl.Argon2.Type'.Argon2id == Impl.Argon2.Type'.Argon2i) = false := by decide
    have hsl : decide (sl < 2) = (sl == 0 || sl == 1) := by
      by_cases h1 : sl = 0
      · simp [h1]
      · by_cases h2 : sl = 1
        · simp [h2]
        · have : ¬ sl < 2 := by omega
          simp [h1, h2, this]
    have heq : (Impl.Argon2.Type'.Argon2id == Impl.Argon2.Type'.Argon2id) = true := by decide
    simp only [tyOf, hne, hsl, heq, Bool.false_or, Bool.true_and]


end Cx.Proofs.Argon2
