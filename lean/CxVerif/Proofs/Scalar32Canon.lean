/-
  Proofs.Scalar32Canon — the byte-wise constant-time comparison `check_s_lt_l` of scalar32.rs decides
  `le(s) ≥ le(l)` (it answers TRUE when `s` is NOT below `l`), for every pair of equal-length byte strings;
  hence `from_bytes_canonical` accepts exactly `le(s) < L`.
-/
import CxVerif.Impl.Scalar32
import CxVerif.Spec.ScalarL
namespace Cx.Proofs.Scalar32
open Cx Cx.Impl.Scalar32

/-- the loop state after the bytes `ps` (least significant pair first; the loop runs from the most significant) -/
def cmpState (ps : List (UInt8 × UInt8)) : Nat × Nat :=
  ps.foldr (fun p cn => checkStep cn p.1 p.2) (0, 1)

theorem zip_append_eq {α β} : ∀ (a a' : List α) (b b' : List β), a.length = b.length →
    (a ++ a').zip (b ++ b') = a.zip b ++ a'.zip b'
  | [], _, [], _, _ => rfl
  | [], _, y :: ys, _, h => by simp at h
  | x :: xs, _, [], _, h => by simp at h
  | x :: xs, a', y :: ys, b', h => by
    simp only [List.cons_append, List.zip_cons_cons, zip_append_eq xs a' ys b' (by simpa using h)]

theorem reverse_zip_eq {α β} : ∀ (a : List α) (b : List β), a.length = b.length →
    a.reverse.zip b.reverse = (a.zip b).reverse
  | [], [], _ => rfl
  | [], y :: ys, h => by simp at h
  | x :: xs, [], h => by simp at h
  | x :: xs, y :: ys, h => by
    have hl : xs.length = ys.length := by simpa using h
    simp only [List.reverse_cons, List.zip_cons_cons]
    rw [zip_append_eq _ _ _ _ (by simp [hl]), reverse_zip_eq xs ys hl]
    rfl

theorem check_with_eq (l : List UInt8) (s : Vector UInt8 32) (hl : l.length = 32) :
    check_with l s = ((cmpState (s.toList.zip l)).1 == 0) := by
  unfold check_with cmpState
  have hs : s.toList.length = l.length := by simp [hl]
  rw [reverse_zip_eq _ _ hs, List.foldl_reverse]

/-- one step from the "equal so far" state -/
theorem step_eq (a b : UInt8) :
    checkStep (0, 1) a b = if a.toNat < b.toNat then (1, 0) else if a = b then (0, 1) else (0, 0) := by
  have ha := a.toNat_lt
  have hb := b.toNat_lt
  unfold checkStep
  by_cases hlt : a.toNat < b.toNat
  · have h1 : ((((a.toNat : Int) - (b.toNat : Int)) / 256) % 256).toNat = 255 := by omega
    have hne : a ≠ b := by intro h; subst h; omega
    have hx : (a ^^^ b).toNat ≠ 0 := by
      intro h
      apply hne
      have : a ^^^ b = 0 := UInt8.toNat_inj.mp (by simpa using h)
      exact UInt8.xor_eq_zero_iff.mp this
    have hxl := (a ^^^ b).toNat_lt
    have h2 : (((((a ^^^ b).toNat : Int) - 1) / 256) % 256).toNat = 0 := by omega
    simp only [h1, h2, if_pos hlt]
    decide
  · by_cases heq : a = b
    · subst heq
      have h1 : ((((a.toNat : Int) - (a.toNat : Int)) / 256) % 256).toNat = 0 := by omega
      have hx : (a ^^^ a).toNat = 0 := by simp
      have h2 : (((((a ^^^ a).toNat : Int) - 1) / 256) % 256).toNat = 255 := by rw [hx]; decide
      simp only [h1, h2, if_neg hlt]
      decide
    · have h1 : ((((a.toNat : Int) - (b.toNat : Int)) / 256) % 256).toNat = 0 := by omega
      have hx : (a ^^^ b).toNat ≠ 0 := by
        intro h
        apply heq
        have : a ^^^ b = 0 := UInt8.toNat_inj.mp (by simpa using h)
        exact UInt8.xor_eq_zero_iff.mp this
      have hxl := (a ^^^ b).toNat_lt
      have h2 : (((((a ^^^ b).toNat : Int) - 1) / 256) % 256).toNat = 0 := by omega
      simp only [h1, h2, if_neg hlt, if_neg heq]
      decide

/-- a decided state is absorbing -/
theorem step_lt (a b : UInt8) : checkStep (1, 0) a b = (1, 0) := by
  unfold checkStep
  simp only [Nat.and_zero, Nat.zero_and, Nat.or_zero]
theorem step_gt (a b : UInt8) : checkStep (0, 0) a b = (0, 0) := by
  unfold checkStep
  simp only [Nat.and_zero, Nat.zero_and, Nat.or_zero]

/-- the loop state is the three-way comparison of the little-endian values -/
theorem cmpState_spec : ∀ (ps : List (UInt8 × UInt8)),
    cmpState ps = if leNat (ps.map (·.1)) < leNat (ps.map (·.2)) then (1, 0)
      else if leNat (ps.map (·.1)) = leNat (ps.map (·.2)) then (0, 1) else (0, 0) := by
  intro ps
  induction ps with
  | nil => simp [cmpState, leNat]
  | cons q rest ih =>
    obtain ⟨a, b⟩ := q
    have ha := a.toNat_lt
    have hb := b.toNat_lt
    have hstep : cmpState ((a, b) :: rest) = checkStep (cmpState rest) a b := rfl
    rw [hstep, ih]
    simp only [List.map_cons, leNat]
    generalize leNat (rest.map (·.1)) = S at *
    generalize leNat (rest.map (·.2)) = T at *
    by_cases h1 : S < T
    · have e1 : a.toNat + 256 * S < b.toNat + 256 * T := by omega
      simp only [if_pos h1, step_lt, if_pos e1]
    · by_cases h2 : S = T
      · subst h2
        simp only [if_neg h1, if_true, step_eq]
        by_cases h3 : a.toNat < b.toNat
        · have e1 : a.toNat + 256 * S < b.toNat + 256 * S := by omega
          simp only [if_pos h3, if_pos e1]
        · have e1 : ¬ a.toNat + 256 * S < b.toNat + 256 * S := by omega
          by_cases h4 : a = b
          · subst h4
            simp only [if_neg h3, if_neg e1, if_true]
          · have : a.toNat ≠ b.toNat := fun h => h4 (UInt8.toNat_inj.mp h)
            have e2 : ¬ a.toNat + 256 * S = b.toNat + 256 * S := by omega
            simp only [if_neg h3, if_neg h4, if_neg e1, if_neg e2]
      · have e1 : ¬ a.toNat + 256 * S < b.toNat + 256 * T := by omega
        have e2 : ¬ a.toNat + 256 * S = b.toNat + 256 * T := by omega
        simp only [if_neg h1, if_neg h2, step_gt, if_neg e1, if_neg e2]

theorem map_fst_zip {α β} : ∀ (a : List α) (b : List β), a.length = b.length → (a.zip b).map (·.1) = a
  | [], _, _ => rfl
  | x :: xs, [], h => by simp at h
  | x :: xs, y :: ys, h => by simp [map_fst_zip xs ys (by simpa using h)]
theorem map_snd_zip {α β} : ∀ (a : List α) (b : List β), a.length = b.length → (a.zip b).map (·.2) = b
  | [], [], _ => rfl
  | [], y :: ys, h => by simp at h
  | x :: xs, [], h => by simp at h
  | x :: xs, y :: ys, h => by simp [map_snd_zip xs ys (by simpa using h)]

/-- `check_with l s` is TRUE exactly when `le(s)` is NOT below `le(l)` -/
theorem check_with_spec (l : List UInt8) (s : Vector UInt8 32) (hl : l.length = 32) :
    check_with l s = decide (leNat l ≤ leNat s.toList) := by
  have hs : s.toList.length = l.length := by simp [hl]
  rw [check_with_eq l s hl, cmpState_spec, map_fst_zip _ _ hs, map_snd_zip _ _ hs]
  by_cases h1 : leNat s.toList < leNat l
  · rw [if_pos h1]; simp; omega
  · rw [if_neg h1]
    by_cases h2 : leNat s.toList = leNat l
    · rw [if_pos h2]; simp; omega
    · rw [if_neg h2]; simp; omega

theorem L_length : L.length = 32 := by decide
/-- the constant of `from_bytes_canonical` (re-extracted) is the group order, little-endian -/
theorem L_value : leNat L = Spec.ScalarL.L := by decide

/-- `check_s_lt_l s` ⇔ `L ≤ le(s)` -/
theorem check_s_lt_l_spec (s : Vector UInt8 32) : check_s_lt_l s = decide (Spec.ScalarL.L ≤ leNat s.toList) := by
  unfold check_s_lt_l
  rw [check_with_spec L s L_length, L_value]

/-- `from_bytes_canonical` accepts exactly the strings with `le(b) < L` and returns them unchanged -/
theorem from_bytes_canonical_spec (b : Vector UInt8 32) :
    from_bytes_canonical b = if Spec.ScalarL.decode b.toList < Spec.ScalarL.L then some (from_bytes b) else none := by
  unfold from_bytes_canonical Spec.ScalarL.decode
  rw [check_s_lt_l_spec]
  by_cases h : leNat b.toList < Spec.ScalarL.L
  · rw [if_pos h]; simp; omega
  · rw [if_neg h]; simp; omega

/-- the pre-fix constant (the bytes of L in big-endian order): the same loop then decides
    `le(s) < le(reverse L)` — a different number -/
theorem old_constant_spec (b : Vector UInt8 32) :
    from_bytes_canonical_old b = if leNat b.toList < leNat L.reverse then some (from_bytes b) else none := by
  unfold from_bytes_canonical_old L_bigendian
  rw [check_with_spec L.reverse b (by rw [List.length_reverse]; exact L_length)]
  by_cases h : leNat b.toList < leNat L.reverse
  · rw [if_pos h]; simp; omega
  · rw [if_neg h]; simp; omega

theorem old_constant_value :
    leNat L.reverse = 0xedd3f55c1a631258d69cf7a2def9de1400000000000000000000000000000010 := by decide

end Cx.Proofs.Scalar32
