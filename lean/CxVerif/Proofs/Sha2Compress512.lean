/-
  Proofs.Sha2Compress512 — the u64x2 pair-lane block function `digest_block_u64` of impl512/reference.rs equals the
  FIPS 180-4 §6.4.2 compression function (DESIGN C01 T+), for every block and every chaining value.

  Structure of the proof:
    ch64_eq, sigma0_eq, sigma1_eq …   `c ^ (a & (b ^ c)) = Ch`, `rotate_left(63) ^ rotate_left(56) ^ (x >> 7) = σ0` …
    digest_round_eq, rounds4_eq       one lane round = one FIPS round on (a,e),(b,f),(c,g),(d,h); `rounds4!` = four
    unrolled_eq_folded                the 40 unrolled `rounds4!`/`schedule!` lines (variables w0..w9 rotating) ARE the
                                      iteration `goL` over a sliding lane window (pure unfolding, by `rfl`)
    goL_eq_go                         lane iteration = FIPS rounds grouped by four with the schedule extended on the
                                      fly (`schedule_x2`/`sha512load` produce W_t, W_{t+1}) — induction
    fold_newWords_eq_go, schedule512_split   the FIPS "all 80 W_t first, then 80 rounds" = the grouped iteration
    kWords_take / kWords_drop         the extracted pair table `K64X2`, read in round order, is K^{512} (kernel)
    digest_block_u64_eq               the theorem
  Core Lean only.
-/
import CxVerif.Spec.Sha2
import CxVerif.Impl.Sha2
import CxVerif.Proofs.Sha2Tables
import CxVerif.Proofs.Sha2Compress
namespace Cx.Proofs.Sha2Compress512
open Cx Cx.Spec.Sha2 Cx.Impl Cx.Impl.Sha2 Cx.Impl.Sha2.Impl512

theorem ch64_eq (e f g : UInt64) : bool3ary_202 e f g = Ch64 e f g := by
  unfold Ch64 bool3ary_202
  apply UInt64.eq_of_toBitVec_eq
  simp only [UInt64.toBitVec_xor, UInt64.toBitVec_and, UInt64.toBitVec_not]
  ext i hi
  simp
  cases e.toBitVec[i] <;> cases f.toBitVec[i] <;> cases g.toBitVec[i] <;> rfl

theorem maj64_eq (a b c : UInt64) : bool3ary_232 a b c = Maj64 a b c := rfl
theorem big_sigma0_eq (x : UInt64) : big_sigma0 x = bigSigma0_512 x := rfl
theorem big_sigma1_eq (x : UInt64) : big_sigma1 x = bigSigma1_512 x := rfl

theorem rotl_rotr (x : UInt64) (n m : UInt64) (h1 : 64 - n = m) (h2 : 64 - m = n) :
    rotate_left x n = ROTR64 m x := by
  unfold rotate_left ROTR64
  rw [h1, h2, UInt64.or_comm]

theorem sigma0_eq (x : UInt64) : sigma0 x = smallSigma0_512 x := by
  unfold sigma0 smallSigma0_512 SHR64
  rw [rotl_rotr x 63 1 (by decide) (by decide), rotl_rotr x 56 8 (by decide) (by decide)]

theorem sigma1_eq (x : UInt64) : sigma1 x = smallSigma1_512 x := by
  unfold sigma1 smallSigma1_512 SHR64
  rw [rotl_rotr x 45 19 (by decide) (by decide), rotl_rotr x 3 61 (by decide) (by decide)]

def lanesOf (s : W8 UInt64) : Lanes := ⟨⟨s.a, s.e⟩, ⟨s.b, s.f⟩, ⟨s.c, s.g⟩, ⟨s.d, s.h⟩⟩
def unlanes (r : Lanes) : W8 UInt64 := ⟨r.ae._0, r.bf._0, r.cg._0, r.dh._0, r.ae._1, r.bf._1, r.cg._1, r.dh._1⟩

theorem unlanes_lanesOf (s : W8 UInt64) : unlanes (lanesOf s) = s := rfl

theorem digest_round_eq (a b c d e f g h k w : UInt64) :
    digest_round ⟨a, e⟩ ⟨b, f⟩ ⟨c, g⟩ ⟨d, h⟩ (k + w)
      = ⟨(round512 ⟨a, b, c, d, e, f, g, h⟩ (k, w)).a, (round512 ⟨a, b, c, d, e, f, g, h⟩ (k, w)).e⟩ := by
  simp only [digest_round, round512, big_sigma0_eq, big_sigma1_eq, ch64_eq, maj64_eq]
  congr 1 <;> ac_rfl

theorem rounds4_eq (s : W8 UInt64) (k0 k1 k2 k3 w0 w1 w2 w3 : UInt64) :
    rounds4 (lanesOf s) ((⟨k1, k0⟩ : u64x2) + ⟨w1, w0⟩) ((⟨k3, k2⟩ : u64x2) + ⟨w3, w2⟩)
      = lanesOf ([(k0, w0), (k1, w1), (k2, w2), (k3, w3)].foldl round512 s) := by
  obtain ⟨a, b, c, d, e, f, g, h⟩ := s
  have hadd : ∀ (x y : u64x2), x + y = ⟨x._0 + y._0, x._1 + y._1⟩ := fun _ _ => rfl
  simp only [rounds4, lanesOf, hadd, digest_round_eq, List.foldl]
  rfl



/-- the lane iteration the unrolled code performs after the first 16 rounds: window newest-first; each step makes two
    new schedule lanes and runs `rounds4` on them -/
def goL : Nat → List u64x2 → Lanes → List u64x2 → Lanes
  | 0, _, r, _ => r
  | n + 1, l1 :: l2 :: l3 :: l4 :: l5 :: l6 :: l7 :: l8 :: t, r, ka :: kb :: ks =>
    let y := schedule l8 l7 l4 l3 l1
    let z := schedule l7 l6 l3 l2 y
    goL n (z :: y :: l1 :: l2 :: l3 :: l4 :: l5 :: l6 :: l7 :: l8 :: t) (rounds4 r (ka + y) (kb + z)) ks
  | _ + 1, _, r, _ => r

def klanes : List u64x2 :=
  [k 0, k 1, k 2, k 3, k 4, k 5, k 6, k 7, k 8, k 9, k 10, k 11, k 12, k 13, k 14, k 15, k 16, k 17, k 18, k 19,
   k 20, k 21, k 22, k 23, k 24, k 25, k 26, k 27, k 28, k 29, k 30, k 31, k 32, k 33, k 34, k 35, k 36, k 37, k 38, k 39]

/-- the first sixteen rounds on the block's own words -/
def prologue (state : W8 UInt64) (b0 b1 b2 b3 b4 b5 b6 b7 b8 b9 b10 b11 b12 b13 b14 b15 : UInt64) : Lanes :=
  let r := lanesOf state
  let r := rounds4 r (k 0 + ⟨b1, b0⟩) (k 1 + ⟨b3, b2⟩)
  let r := rounds4 r (k 2 + ⟨b5, b4⟩) (k 3 + ⟨b7, b6⟩)
  let r := rounds4 r (k 4 + ⟨b9, b8⟩) (k 5 + ⟨b11, b10⟩)
  rounds4 r (k 6 + ⟨b13, b12⟩) (k 7 + ⟨b15, b14⟩)

set_option maxRecDepth 100000 in
/-- the unrolled body IS the folded iteration (pure unfolding; no arithmetic) -/
theorem unrolled_eq_folded (state : W8 UInt64) (b0 b1 b2 b3 b4 b5 b6 b7 b8 b9 b10 b11 b12 b13 b14 b15 : UInt64) :
    digest_block_u64 state [b0, b1, b2, b3, b4, b5, b6, b7, b8, b9, b10, b11, b12, b13, b14, b15]
      = some (W8.zipWith (· + ·) state (unlanes (goL 16
          [⟨b15, b14⟩, ⟨b13, b12⟩, ⟨b11, b10⟩, ⟨b9, b8⟩, ⟨b7, b6⟩, ⟨b5, b4⟩, ⟨b3, b2⟩, ⟨b1, b0⟩]
          (prologue state b0 b1 b2 b3 b4 b5 b6 b7 b8 b9 b10 b11 b12 b13 b14 b15) (klanes.drop 8)))) := by
  rfl



/-- the words of a lane window, newest first -/
def winWords : List u64x2 → List UInt64
  | [] => []
  | l :: t => l._0 :: l._1 :: winWords t

/-- the constants of a list of `K64X2` lanes in round order: `u64x2(K[2i+1], K[2i]) ↦ K[2i], K[2i+1]` -/
def kWords : List u64x2 → List UInt64
  | [] => []
  | l :: t => l._1 :: l._0 :: kWords t

/-- FIPS rounds 16.. grouped by four: extend the schedule by four words, run four rounds -/
def go : Nat → List UInt64 → W8 UInt64 → List UInt64 → W8 UInt64
  | 0, _, s, _ => s
  | n + 1, r, s, k0 :: k1 :: k2 :: k3 :: ks =>
    match extend512 4 r with
    | w3 :: w2 :: w1 :: w0 :: rest =>
      go n (w3 :: w2 :: w1 :: w0 :: rest) ([(k0, w0), (k1, w1), (k2, w2), (k3, w3)].foldl round512 s) ks
    | _ => s
  | _ + 1, _, s, _ => s

theorem exists8 {α : Type} (r : List α) (h : 8 ≤ r.length) :
    ∃ a0 a1 a2 a3 a4 a5 a6 a7 t, r = a0 :: a1 :: a2 :: a3 :: a4 :: a5 :: a6 :: a7 :: t := by
  rcases r with _ | ⟨a0, _ | ⟨a1, _ | ⟨a2, _ | ⟨a3, _ | ⟨a4, _ | ⟨a5, _ | ⟨a6, _ | ⟨a7, t⟩⟩⟩⟩⟩⟩⟩⟩
  all_goals first
    | exact ⟨a0, a1, a2, a3, a4, a5, a6, a7, t, rfl⟩
    | (simp at h; omega)
    | (simp at h)

/-- the lane iteration of the code = the grouped FIPS iteration -/
theorem goL_eq_go (n : Nat) : ∀ (w : List u64x2) (s : W8 UInt64) (kls : List u64x2),
    8 ≤ w.length → kls.length = 2 * n →
    goL n w (lanesOf s) kls = lanesOf (go n (winWords w) s (kWords kls)) := by
  induction n with
  | zero => intro w s kls _ _; rfl
  | succ n ih =>
    intro w s kls hw hk
    obtain ⟨l1, l2, l3, l4, l5, l6, l7, l8, t, rfl⟩ := exists8 w hw
    rcases kls with _ | ⟨ka, _ | ⟨kb, ks⟩⟩
    · simp at hk
    · simp at hk; omega
    obtain ⟨x0, x1⟩ := l1; obtain ⟨x2, x3⟩ := l2; obtain ⟨x4, x5⟩ := l3; obtain ⟨x6, x7⟩ := l4
    obtain ⟨x8, x9⟩ := l5; obtain ⟨x10, x11⟩ := l6; obtain ⟨x12, x13⟩ := l7; obtain ⟨x14, x15⟩ := l8
    obtain ⟨ka1, ka0⟩ := ka; obtain ⟨kb1, kb0⟩ := kb
    have hks : ks.length = 2 * n := by simp at hk; omega
    simp only [goL, go, winWords, kWords, extend512, schedule, schedule_x2, sha512load, sigma0_eq, sigma1_eq]
    rw [rounds4_eq, ih _ _ ks (by simp) hks]
    simp only [winWords]



open Cx.Proofs.Sha2Compress (exists16 extend512_length)

theorem extend512_succ (n : Nat) (r : List UInt64) (h : 16 ≤ r.length) :
    ∃ w, extend512 (n + 1) r = extend512 n (w :: r) := by
  obtain ⟨a0, a1, a2, a3, a4, a5, a6, a7, a8, a9, a10, a11, a12, a13, a14, a15, t, rfl⟩ := exists16 r h
  exact ⟨_, by rw [extend512]⟩

theorem extend512_add (a b : Nat) : ∀ r : List UInt64, 16 ≤ r.length →
    extend512 (a + b) r = extend512 b (extend512 a r) := by
  induction a with
  | zero => intro r _; simp [extend512]
  | succ a ih =>
    intro r h
    obtain ⟨a0, a1, a2, a3, a4, a5, a6, a7, a8, a9, a10, a11, a12, a13, a14, a15, t, rfl⟩ := exists16 r h
    rw [show a + 1 + b = (a + b) + 1 by omega, extend512, extend512, ih _ (by simp)]

theorem extend512_drop (n : Nat) : ∀ r : List UInt64, 16 ≤ r.length → (extend512 n r).drop n = r := by
  induction n with
  | zero => intro r _; simp [extend512]
  | succ n ih =>
    intro r h
    obtain ⟨a0, a1, a2, a3, a4, a5, a6, a7, a8, a9, a10, a11, a12, a13, a14, a15, t, rfl⟩ := exists16 r h
    rw [extend512]
    have := ih (_ :: _) (by simp : 16 ≤ ((smallSigma1_512 a1 + a6 + smallSigma0_512 a14 + a15) ::
      a0 :: a1 :: a2 :: a3 :: a4 :: a5 :: a6 :: a7 :: a8 :: a9 :: a10 :: a11 :: a12 :: a13 :: a14 :: a15 :: t).length)
    rw [← List.drop_drop, this]
    rfl

/-- the words appended by `n` schedule steps, in round order -/
def newWords (n : Nat) (r : List UInt64) : List UInt64 := ((extend512 n r).take n).reverse

theorem extend512_split (n : Nat) (r : List UInt64) (h : 16 ≤ r.length) :
    extend512 n r = (newWords n r).reverse ++ r := by
  have := List.take_append_drop n (extend512 n r)
  rw [extend512_drop n r h] at this
  simp [newWords, this]

theorem newWords_length (n : Nat) (r : List UInt64) (h : 16 ≤ r.length) : (newWords n r).length = n := by
  simp [newWords, extend512_length n r h]

theorem newWords_four (n : Nat) (r : List UInt64) (h : 16 ≤ r.length) :
    newWords (4 + n) r = newWords 4 r ++ newWords n (extend512 4 r) := by
  have h4 : 16 ≤ (extend512 4 r).length := by rw [extend512_length 4 r h]; omega
  have e1 := extend512_split (4 + n) r h
  have e2 := extend512_add 4 n r h
  have e3 := extend512_split n (extend512 4 r) h4
  have e4 := extend512_split 4 r h
  have e5 : (newWords (4 + n) r).reverse ++ r
      = ((newWords n (extend512 4 r)).reverse ++ (newWords 4 r).reverse) ++ r := by
    rw [← e1, e2, List.append_assoc, ← e4]; exact e3
  have e6 := congrArg List.reverse (List.append_cancel_right e5)
  simpa [List.reverse_append] using e6

/-- rounds over freshly scheduled words, four at a time -/
theorem fold_newWords_eq_go (n : Nat) : ∀ (r : List UInt64) (s : W8 UInt64) (ks : List UInt64),
    16 ≤ r.length → ks.length = 4 * n →
    (ks.zip (newWords (4 * n) r)).foldl round512 s = go n r s ks := by
  induction n with
  | zero => intro r s ks _ hk; simp [go, newWords, List.length_eq_zero_iff.mp hk]
  | succ n ih =>
    intro r s ks hr hk
    rcases ks with _ | ⟨k0, _ | ⟨k1, _ | ⟨k2, _ | ⟨k3, ks⟩⟩⟩⟩
    all_goals try (first | (simp at hk; done) | (simp at hk; omega))
    have hks : ks.length = 4 * n := by simp at hk; omega
    obtain ⟨a0, a1, a2, a3, a4, a5, a6, a7, a8, a9, a10, a11, a12, a13, a14, a15, t, rfl⟩ := exists16 r hr
    rw [show 4 * (n + 1) = 4 + 4 * n by omega, newWords_four _ _ hr]
    simp only [go, extend512, newWords, List.take, List.reverse_cons, List.reverse_nil, List.nil_append,
      List.cons_append, List.zip_cons_cons, List.foldl_cons, List.foldl_nil]
    rw [← ih _ _ ks (by simp) hks]
    simp only [newWords]



/-- FIPS §6.4.2 on the sixteen words of a block (`compress512 H blk = compress512w H (wordsBE64 blk)` by definition) -/
def compress512w (H : W8 UInt64) (ws : List UInt64) : W8 UInt64 :=
  W8.zipWith (· + ·) H ((K512.zip (schedule512 ws)).foldl round512 H)

theorem compress512_eq_w (H : W8 UInt64) (blk : Bytes) : compress512 H blk = compress512w H (wordsBE64 blk) := rfl

/-- the pair table `K64X2` of the source, read in round order, is K^{512} (first 16 / remaining 64 constants) -/
theorem kWords_take : K512.take 16 = kWords (klanes.take 8) := by decide +kernel
theorem kWords_drop : K512.drop 16 = kWords (klanes.drop 8) := by decide +kernel

theorem rounds4_eq' (s : W8 UInt64) (ka kb : u64x2) (w0 w1 w2 w3 : UInt64) :
    rounds4 (lanesOf s) (ka + ⟨w1, w0⟩) (kb + ⟨w3, w2⟩)
      = lanesOf ([(ka._1, w0), (ka._0, w1), (kb._1, w2), (kb._0, w3)].foldl round512 s) :=
  rounds4_eq s ka._1 ka._0 kb._1 kb._0 w0 w1 w2 w3

theorem prologue_eq (s : W8 UInt64) (b0 b1 b2 b3 b4 b5 b6 b7 b8 b9 b10 b11 b12 b13 b14 b15 : UInt64) :
    prologue s b0 b1 b2 b3 b4 b5 b6 b7 b8 b9 b10 b11 b12 b13 b14 b15
      = lanesOf (((K512.take 16).zip [b0, b1, b2, b3, b4, b5, b6, b7, b8, b9, b10, b11, b12, b13, b14, b15]).foldl
          round512 s) := by
  rw [kWords_take]
  simp only [prologue, rounds4_eq', klanes, List.take, kWords, List.zip_cons_cons, List.zip_nil_right,
    List.foldl_cons, List.foldl_nil]

theorem schedule512_split (ws : List UInt64) (h : ws.length = 16) :
    schedule512 ws = ws ++ newWords 64 ws.reverse := by
  unfold schedule512
  rw [extend512_split 64 ws.reverse (by simp [h])]
  simp

set_option maxRecDepth 100000 in
/-- **SHA-512 compression (C01 T+)**: the u64x2 pair-lane block function of impl512/reference.rs — fully unrolled,
    sliding ten-lane schedule window, `K64X2` pair table, `rotate_left(63)`-style sigmas, `c ^ (a & (b ^ c))` —
    equals FIPS 180-4 §6.4.2 on every sixteen-word block and every chaining value, and does not panic. -/
theorem digest_block_u64_eq (s : W8 UInt64) (ws : List UInt64) (h : ws.length = 16) :
    digest_block_u64 s ws = some (compress512w s ws) := by
  obtain ⟨b0, b1, b2, b3, b4, b5, b6, b7, b8, b9, b10, b11, b12, b13, b14, b15, t, rfl⟩ := exists16 ws (by omega)
  have ht : t = [] := by simpa using h
  subst ht
  rw [unrolled_eq_folded, prologue_eq]
  rw [goL_eq_go 16 _ _ _ (by simp) (by decide)]
  rw [unlanes_lanesOf]
  unfold compress512w
  refine congrArg some (congrArg (W8.zipWith (· + ·) s) ?_)
  rw [schedule512_split _ h]
  have hK : K512 = K512.take 16 ++ K512.drop 16 := (List.take_append_drop 16 K512).symm
  have hKl : K512.length = 80 := Cx.Proofs.Sha2Tables.spec_table_sizes.2.1
  conv => rhs; rw [hK, List.zip_append (by simp [hKl]), List.foldl_append]
  rw [fold_newWords_eq_go 16 _ _ _ (by simp) (by simp [hKl]), ← kWords_drop]
  simp only [winWords, List.reverse_cons, List.reverse_nil, List.nil_append, List.cons_append]

end Cx.Proofs.Sha2Compress512
