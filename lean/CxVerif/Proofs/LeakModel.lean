/-
  Proofs.LeakModel — helper lemmas for Props/C19/LeakReal.lean: the algebra of the two leakage monads, generic
  loop lemmas, and the erasure / trace lemmas of (f) the comparisons and (c) Poly1305.
-/
import CxVerif.Impl.LeakModel
namespace Cx.Proofs.LeakModel
open Cx Cx.Impl.CT Cx.Impl.LeakModel

/-! ## LeakM -/

@[simp] theorem pure_val {α : Type} (a : α) : (pure a : LeakM α).val = a := rfl
@[simp] theorem pure_tr {α : Type} (a : α) : (pure a : LeakM α).tr = [] := rfl
@[simp] theorem bind_val {α β : Type} (m : LeakM α) (f : α → LeakM β) : (m >>= f).val = (f m.val).val := rfl
@[simp] theorem bind_tr {α β : Type} (m : LeakM α) (f : α → LeakM β) :
    (m >>= f).tr = m.tr ++ (f m.val).tr := rfl
@[simp] theorem emit_tr (e : Event) : (emit e).tr = [e] := rfl
@[simp] theorem emit_val (e : Event) : (emit e).val = () := rfl

theorem iterL_pure {σ α : Type} (f : σ → α → σ) (xs : List α) (s : σ) :
    (iterL (fun s x => (pure (f s x) : LeakM σ)) xs s).tr = [] ∧
    (iterL (fun s x => (pure (f s x) : LeakM σ)) xs s).val = xs.foldl f s := by
  induction xs generalizing s with
  | nil => exact ⟨rfl, rfl⟩
  | cons x xs ih =>
    have := ih (f s x)
    simp only [iterL, bind_tr, bind_val, pure_tr, pure_val, List.nil_append, List.foldl_cons]
    exact this

/-- a loop whose body emits nothing: the trace is the bound, the value is the fold -/
theorem forL_pure {σ α : Type} (f : σ → α → σ) (xs : List α) (s : σ) :
    (forL xs s (fun s x => (pure (f s x) : LeakM σ))).tr = [Event.loopBound xs.length] ∧
    (forL xs s (fun s x => (pure (f s x) : LeakM σ))).val = xs.foldl f s := by
  have h := iterL_pure f xs s
  simp only [forL, bind_tr, bind_val, emit_tr, h.1, h.2, List.append_nil, and_self]

/-! ## LO (the base lemmas `LO.pure_val … LO.bind_tr_some` are in Impl/LeakModel.lean) -/

/-- `Const m t`: IF the computation does not panic, its trace is `t` -/
structure Const {α : Type} (m : LO α) (t : Trace) : Prop where
  out : m.val.isSome → m.tr = t

theorem Const.pure {α : Type} (a : α) : Const (pure a : LO α) [] := ⟨fun _ => LO.pure_tr a⟩
theorem Const.lift {α : Type} (x : Option α) : Const (LO.lift x) [] := ⟨fun _ => LO.lift_tr x⟩
theorem Const.emit (e : Event) : Const (LO.emit e) [e] := ⟨fun _ => LO.emit_tr e⟩
theorem Const.ofLeakM {α : Type} (m : LeakM α) : Const (LO.ofLeakM m) m.tr := ⟨fun _ => LO.ofLeakM_tr m⟩
theorem Const.of_eq {α : Type} {m : LO α} {t t' : Trace} (h : Const m t) (e : t = t') : Const m t' := e ▸ h

/-- the trace of a sequence is the concatenation; the second trace may depend on the first VALUE (a declassified
    output), usually it does not -/
theorem Const.bind' {α β : Type} {m : LO α} {f : α → LO β} {t₁ : Trace} {t₂ : α → Trace}
    (h₁ : Const m t₁) (h₂ : ∀ a, m.val = some a → Const (f a) (t₂ a)) :
    ∀ a, m.val = some a → Const (m >>= f) (t₁ ++ t₂ a) := by
  intro a ha
  constructor
  intro hs
  rw [LO.bind_tr_some m f a ha, h₁.out (by rw [ha]; rfl)]
  have : (f a).val.isSome := by
    rw [LO.bind_val, ha] at hs; exact hs
  rw [(h₂ a ha).out this]

theorem Const.bind {α β : Type} {m : LO α} {f : α → LO β} {t₁ t₂ : Trace}
    (h₁ : Const m t₁) (h₂ : ∀ a, m.val = some a → Const (f a) t₂) : Const (m >>= f) (t₁ ++ t₂) := by
  constructor
  intro hs
  cases hm : m.val with
  | none => rw [LO.bind_val, hm] at hs; exact absurd hs (by simp)
  | some a => exact (Const.bind' h₁ h₂ a hm).out hs

/-- a panicking computation has every "constant" trace (vacuously) -/
theorem Const.of_none {α : Type} {m : LO α} (t : Trace) (h : m.val = none) : Const m t :=
  ⟨fun hs => by rw [h] at hs; exact absurd hs (by simp)⟩

/-- sequence whose second trace depends on the first value, re-expressed as one trace `T` -/
theorem Const.bindV {α β : Type} {m : LO α} {f : α → LO β} {t₁ : Trace} {t₂ : α → Trace} {T : Trace}
    (h₁ : Const m t₁) (h₂ : ∀ a, m.val = some a → Const (f a) (t₂ a)) (hT : ∀ a, m.val = some a → t₁ ++ t₂ a = T) :
    Const (m >>= f) T := by
  constructor
  intro hs
  cases hm : m.val with
  | none => rw [LO.bind_val, hm] at hs; exact absurd hs (by simp)
  | some a => rw [← hT a hm]; exact (Const.bind' h₁ h₂ a hm).out hs

theorem LO.emit_bind_val {β : Type} (e : Event) (f : Unit → LO β) : (LO.emit e >>= f).val = (f ()).val :=
  LO.bind_val_some _ _ () (LO.emit_val e)

/-- two runs that do not panic and have the same constant trace -/
theorem Const.eq_of {α β : Type} {m : LO α} {m' : LO β} {t : Trace} (h : Const m t) (h' : Const m' t)
    (hs : m.val.isSome) (hs' : m'.val.isSome) : m.tr = m'.tr := by rw [h.out hs, h'.out hs']

/-- erasure of a sequence, step by step (no rewriting under binders) -/
theorem LO.erase_bind {α β : Type} {m : LO α} {f : α → LO β} {x : Option α} {g : α → Option β}
    (hm : m.val = x) (hf : ∀ a, (f a).val = g a) : (m >>= f).val = x >>= g := by
  rw [LO.bind_val, hm]
  cases x with
  | none => rfl
  | some a => exact hf a

/-- proves `(do … : LO _).val = (do … : Option _)` for two `do` blocks of the same shape, the left one made of
    `LO.lift` / `LO.emit` / `pure` steps and calls whose erasure lemmas are listed -/
syntax "leak_erase" "[" term,* "]" : tactic
macro_rules
  | `(tactic| leak_erase [$ts,*]) => do
    let alts ← ts.getElems.mapM (fun t => `(tactic| apply $t))
    `(tactic| repeat (first | intro _ | exact LO.lift_val _ | exact LO.pure_val _ | rw [LO.emit_bind_val] | apply LO.erase_bind $[| $alts:tactic]*))

/-- proves `Const (do …) T` for a `do` block of `LO.lift` / `LO.emit` / `pure` steps and calls whose `Const` lemmas
    are listed: computes the concatenated trace, leaves the goal `computed = T` (usually `simp` / `rfl`) -/
syntax "leak_const" "[" term,* "]" : tactic
macro_rules
  | `(tactic| leak_const [$ts,*]) => do
    let alts ← ts.getElems.mapM (fun t => `(tactic| apply $t))
    `(tactic| (apply Const.of_eq; repeat (first | intro _ _ | apply Const.lift | apply Const.pure | apply Const.emit | apply Const.ofLeakM | apply Const.bind $[| $alts:tactic]*)))

/-! ## (f) comparisons -/

theorem array_u8_ct_eqL_val (a b : List UInt8) : (array_u8_ct_eqL a b).val = array_u8_ct_eq a b := by
  have h := forL_pure (fun (acc : UInt64) (p : UInt8 × UInt8) => acc ||| (p.1.toUInt64 ^^^ p.2.toUInt64)) (a.zip b) 0
  simp only [array_u8_ct_eqL, bind_val, pure_val, h.2]; rfl

theorem array_u8_ct_eqL_tr (a b : List UInt8) :
    (array_u8_ct_eqL a b).tr = [Event.loopBound (min a.length b.length)] := by
  have h := forL_pure (fun (acc : UInt64) (p : UInt8 × UInt8) => acc ||| (p.1.toUInt64 ^^^ p.2.toUInt64)) (a.zip b) 0
  simp only [array_u8_ct_eqL, bind_tr, pure_tr, h.1, List.append_nil, List.length_zip]

theorem slice_u8_ct_eqL_val (a b : List UInt8) : (slice_u8_ct_eqL a b).val = slice_u8_ct_eq a b := by
  unfold slice_u8_ct_eqL slice_u8_ct_eq
  by_cases h : a.length = b.length <;> simp [h, array_u8_ct_eqL_val]

theorem slice_u8_ct_eqL_tr (a b : List UInt8) :
    (slice_u8_ct_eqL a b).tr = Event.branch (decide (a.length = b.length)) ::
      (if a.length = b.length then [Event.loopBound (min a.length b.length)] else []) := by
  unfold slice_u8_ct_eqL
  by_cases h : a.length = b.length <;> simp [h, array_u8_ct_eqL_tr]

theorem macResultEqL_val (a b : List UInt8) : (macResultEqL a b).val = macResultEq a b := by
  unfold macResultEqL macResultEq
  by_cases h : a.length = b.length <;> simp [h, array_u8_ct_eqL_val]

theorem macResultEqL_tr (a b : List UInt8) :
    (macResultEqL a b).tr = Event.branch (decide (a.length = b.length)) ::
      (if a.length = b.length then [Event.loopBound (min a.length b.length)] else []) := by
  unfold macResultEqL
  by_cases h : a.length = b.length <;> simp [h, array_u8_ct_eqL_tr]

theorem tagEqL_val (a b : List UInt8) : (tagEqL a b).val = (array_u8_ct_eq a b).isTrue := by
  simp only [tagEqL, bind_val, pure_val, array_u8_ct_eqL_val]

theorem tagEqL_tr (a b : List UInt8) : (tagEqL a b).tr = [Event.loopBound (min a.length b.length)] := by
  simp only [tagEqL, bind_tr, pure_tr, array_u8_ct_eqL_tr, List.append_nil]

/-- accumulating with `t ++ [g p]` is `map` -/
theorem foldl_snoc {α β : Type} (g : α → β) (l : List α) (init : List β) :
    l.foldl (fun t p => t ++ [g p]) init = init ++ l.map g := by
  induction l generalizing init with
  | nil => simp
  | cons p ps ih => simp [ih]

theorem zipWith_eq_map_zip {α β γ : Type} (f : α → β → γ) (a : List α) (b : List β) :
    List.zipWith f a b = (a.zip b).map (fun p => f p.1 p.2) := by
  induction a generalizing b with
  | nil => simp
  | cons x xs ih => cases b <;> simp [ih]

theorem ct_array64_maybe_swap_withL_val (a b : List UInt64) (c : Choice) :
    (ct_array64_maybe_swap_withL a b c).val = ct_array64_maybe_swap_with a b c := by
  have t := forL_pure (fun (t : List UInt64) (p : UInt64 × UInt64) => t ++ [(p.1 ^^^ p.2) &&& maskOf c]) (a.zip b) []
  have x := fun (tmp : List UInt64) (l : List UInt64) =>
    forL_pure (fun (t : List UInt64) (p : UInt64 × UInt64) => t ++ [p.1 ^^^ p.2]) (l.zip tmp) []
  simp only [ct_array64_maybe_swap_withL, bind_val, pure_val, t.2, (x _ _).2, ct_array64_maybe_swap_with,
    foldl_snoc (fun (p : UInt64 × UInt64) => (p.1 ^^^ p.2) &&& maskOf c),
    foldl_snoc (fun (p : UInt64 × UInt64) => p.1 ^^^ p.2), List.nil_append, zipWith_eq_map_zip]

theorem ct_array64_maybe_swap_withL_tr (a b : List UInt64) (c : Choice) :
    (ct_array64_maybe_swap_withL a b c).tr =
      [Event.loopBound (min a.length b.length), Event.loopBound (min a.length (min a.length b.length)),
       Event.loopBound (min b.length (min a.length b.length))] := by
  have t := forL_pure (fun (t : List UInt64) (p : UInt64 × UInt64) => t ++ [(p.1 ^^^ p.2) &&& maskOf c]) (a.zip b) []
  have x := fun (tmp : List UInt64) (l : List UInt64) =>
    forL_pure (fun (t : List UInt64) (p : UInt64 × UInt64) => t ++ [p.1 ^^^ p.2]) (l.zip tmp) []
  simp only [ct_array64_maybe_swap_withL, bind_tr, pure_tr, t.1, t.2, (x _ _).1, (x _ _).2,
    foldl_snoc (fun (p : UInt64 × UInt64) => (p.1 ^^^ p.2) &&& maskOf c), List.nil_append,
    List.length_zip, List.length_map, List.append_nil, List.cons_append]

theorem ct_array64_maybe_setL_val (a b : List UInt64) (c : Choice) :
    (ct_array64_maybe_setL a b c).val = ct_array64_maybe_set a b c := by
  have t := forL_pure (fun (t : List UInt64) (p : UInt64 × UInt64) => t ++ [(p.1 ^^^ p.2) &&& maskOf c]) (a.zip b) []
  have x := fun (tmp : List UInt64) (l : List UInt64) =>
    forL_pure (fun (t : List UInt64) (p : UInt64 × UInt64) => t ++ [p.1 ^^^ p.2]) (l.zip tmp) []
  simp only [ct_array64_maybe_setL, bind_val, t.2, (x _ _).2, ct_array64_maybe_set,
    foldl_snoc (fun (p : UInt64 × UInt64) => (p.1 ^^^ p.2) &&& maskOf c),
    foldl_snoc (fun (p : UInt64 × UInt64) => p.1 ^^^ p.2), List.nil_append, zipWith_eq_map_zip]

theorem ct_array64_maybe_setL_tr (a b : List UInt64) (c : Choice) :
    (ct_array64_maybe_setL a b c).tr =
      [Event.loopBound (min a.length b.length), Event.loopBound (min a.length (min a.length b.length))] := by
  have t := forL_pure (fun (t : List UInt64) (p : UInt64 × UInt64) => t ++ [(p.1 ^^^ p.2) &&& maskOf c]) (a.zip b) []
  have x := fun (tmp : List UInt64) (l : List UInt64) =>
    forL_pure (fun (t : List UInt64) (p : UInt64 × UInt64) => t ++ [p.1 ^^^ p.2]) (l.zip tmp) []
  simp only [ct_array64_maybe_setL, bind_tr, t.1, t.2, (x _ _).1,
    foldl_snoc (fun (p : UInt64 × UInt64) => (p.1 ^^^ p.2) &&& maskOf c), List.nil_append,
    List.length_zip, List.length_map, List.cons_append]

end Cx.Proofs.LeakModel
