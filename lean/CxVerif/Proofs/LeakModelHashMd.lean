/-
  Proofs.LeakModelHashMd — (i) SHA-1 and RIPEMD-160: erasure and non-interference of the instrumented block functions
  and contexts; the `CtxLeak` instances and the `DigestLeak` instances of the legacy wrappers `Sha1` (src/sha1.rs) and
  `Ripemd160` (src/ripemd160.rs).  Public shadow of a context: size and fill of the 64-byte buffer.
-/
import CxVerif.Proofs.LeakModelHash
import CxVerif.Proofs.Sha1Stream
import CxVerif.Proofs.Ripemd160Stream
set_option linter.unusedSimpArgs false
set_option linter.unusedVariables false
namespace Cx.Proofs.LeakModel
open Cx Cx.Impl Cx.Impl.LeakModel Cx.Impl.Digest
open Cx.Proofs.FB (FuncIsBlocks FuncOneBlock)

/-! ### `slice.chunks(n)`: the chunk LENGTHS are a function of the length -/

theorem chunksAux_lengths_congr (n : Nat) : ∀ (fuel : Nat) (x x' : Bytes), x.length = x'.length →
    (chunksAux n fuel x).map List.length = (chunksAux n fuel x').map List.length := by
  intro fuel
  induction fuel with
  | zero => intro x x' _; rfl
  | succ f ih =>
    intro x x' h
    unfold chunksAux
    cases x with
    | nil =>
      cases x' with
      | nil => rfl
      | cons b bs => simp at h
    | cons a as =>
      cases x' with
      | nil => simp at h
      | cons b bs =>
        simp only [List.isEmpty_cons, Bool.false_eq_true, if_false, List.map_cons, List.length_take]
        rw [h, ih ((a :: as).drop n) ((b :: bs).drop n) (by simp only [List.length_drop, h])]

theorem chunks_lengths_congr (n : Nat) (x x' : Bytes) (h : x.length = x'.length) :
    (chunks n x).map List.length = (chunks n x').map List.length := by
  unfold chunks
  rw [h]
  exact chunksAux_lengths_congr n _ x x' h

theorem chunks_count_congr (n : Nat) (x x' : Bytes) (h : x.length = x'.length) :
    (chunks n x).length = (chunks n x').length := by
  have := congrArg List.length (chunks_lengths_congr n x x' h)
  simpa using this

/-! ### SHA-1 -/
section Sha1
open Cx.Impl.Sha1 Cx.Impl.LeakModel.Sha1L
open Cx.Spec.Sha1 (Hash)

theorem sha1_digest_block_isSome (s : Hash) (b : Bytes) : (digest_block s b).isSome = decide (b.length = 64) := by
  by_cases h : b.length = 64
  · rw [Cx.Proofs.Sha1Stream.digest_block_spec s b h]; simp [h]
  · unfold digest_block
    rw [if_neg (show ¬ b.length = BLOCK_BYTES from h)]; simp [h]

theorem Sha1L.digest_blockL_val (s : Hash) (b : Bytes) : (digest_blockL s b).val = digest_block s b := by
  unfold digest_blockL
  rw [LO.emit_bind_val]; exact LO.lift_val _

theorem Sha1L.digest_blocks_goL_val (bs : List Bytes) : ∀ s : Hash, (digest_blocks_goL s bs).val = digest_blocks_go s bs := by
  induction bs with
  | nil => intro s; exact LO.pure_val _
  | cons b bs ih =>
    intro s
    unfold digest_blocks_goL digest_blocks_go
    lo_bind (Sha1L.digest_blockL_val _ _)
    exact ih _

theorem Sha1L.digest_blocksL_val (s : Hash) (b : Bytes) : (digest_blocksL s b).val = digest_blocks s b := by
  unfold digest_blocksL digest_blocks
  rw [LO.emit_bind_val]
  exact Sha1L.digest_blocks_goL_val _ _

theorem Sha1L.digest_blockL_ni (s s' : Hash) (x x' : Bytes) (hx : x.length = x'.length) :
    NI (digest_blockL s x) (digest_blockL s' x') (fun _ _ => True) := by
  unfold digest_blockL
  rw [← hx]
  refine NI.bind (NI.emit _) (fun _ _ _ => NI.lift _ _ ?_ (fun _ _ _ _ => trivial))
  rw [sha1_digest_block_isSome, sha1_digest_block_isSome, hx]

theorem Sha1L.digest_blocks_goL_ni (bs : List Bytes) : ∀ (bs' : List Bytes) (s s' : Hash),
    bs.map List.length = bs'.map List.length →
    NI (digest_blocks_goL s bs) (digest_blocks_goL s' bs') (fun _ _ => True) := by
  induction bs with
  | nil =>
    intro bs' s s' h
    cases bs' with
    | nil => exact NI.pure _ _ trivial
    | cons b bs => simp at h
  | cons b bs ih =>
    intro bs' s s' h
    cases bs' with
    | nil => simp at h
    | cons b' bs' =>
      simp only [List.map_cons, List.cons.injEq] at h
      unfold digest_blocks_goL
      exact NI.bind (Sha1L.digest_blockL_ni s s' b b' h.1) (fun t t' _ => ih bs' t t' h.2)

theorem Sha1L.digest_blocksL_ni (s s' : Hash) (x x' : Bytes) (hx : x.length = x'.length) :
    NI (digest_blocksL s x) (digest_blocksL s' x') (fun _ _ => True) := by
  unfold digest_blocksL
  rw [chunks_count_congr BLOCK_BYTES x x' hx]
  exact NI.bind (NI.emit _) (fun _ _ _ => Sha1L.digest_blocks_goL_ni _ _ s s' (chunks_lengths_congr _ x x' hx))

theorem Sha1L.update_mutL_val (c : Context) (b : Bytes) : (Context.update_mutL c b).val = c.update_mut b := by
  unfold Context.update_mutL Context.update_mut
  lo_bind2 (FixedBuffer.inputL_val 64 _ _ digest_blocksL digest_blocks Sha1L.digest_blocksL_val _)
  exact LO.pure_val _

theorem Sha1L.mk_resultL_val (c : Context) : (Context.mk_resultL c).val = Context.mk_result c := by
  unfold Context.mk_resultL Context.mk_result
  lo_bind2 (FixedBuffer.standard_paddingL_val 64 _ 8 digest_blockL digest_block Sha1L.digest_blockL_val _)
  lo_bind (FixedBuffer.next_writeL_val _ _ _)
  lo_bind2 (FixedBuffer.full_bufferL_val _ _)
  lo_bind (Sha1L.digest_blockL_val _ _)
  exact LO.pure_val _

theorem Sha1L.finalize_resetL_val (c : Context) : (Context.finalize_resetL c).val = c.finalize_reset := by
  unfold Context.finalize_resetL Context.finalize_reset
  lo_bind2 (Sha1L.mk_resultL_val _)
  exact LO.pure_val _

/-- the public shadow of a SHA-1 context: buffer size and fill -/
def pubSha1 (c : Context) : Nat × Nat := (c.buffer.buffer.length, c.buffer.buffer_idx)

theorem pubSha1_iff (c c' : Context) : pubSha1 c = pubSha1 c' ↔ LowB c.buffer c'.buffer := by
  unfold pubSha1 LowB
  constructor
  · intro h; simp only [Prod.mk.injEq] at h; exact h
  · intro h; rw [h.1, h.2]

theorem u64be_length' (w : UInt64) : (u64be w).length = 8 := Cx.Proofs.FB.natToBE_length _ _

theorem sha1_out_length (h : Hash) :
    (Sha1.write_u32_be h.a ++ Sha1.write_u32_be h.b ++ Sha1.write_u32_be h.c ++ Sha1.write_u32_be h.d ++
      Sha1.write_u32_be h.e).length = 20 := by
  simp only [List.length_append, Sha1.write_u32_be, u32be, Cx.Proofs.FB.natToBE_length]

theorem Sha1L.update_mutL_ni (c c' : Context) (b b' : Bytes) (hc : pubSha1 c = pubSha1 c') (hb : b.length = b'.length) :
    NI (Context.update_mutL c b) (Context.update_mutL c' b') (fun e e' => pubSha1 e = pubSha1 e') := by
  unfold Context.update_mutL
  refine NI.bind (FixedBuffer.inputL_ni (R := fun _ _ => True) 64 _ _ b b' digest_blocksL
    (fun s s' x x' _ hx => Sha1L.digest_blocksL_ni s s' x x' hx) _ _ ((pubSha1_iff c c').mp hc) hb trivial)
    (fun r r' hr => NI.pure _ _ ((pubSha1_iff _ _).mpr hr.1))

theorem Sha1L.mk_resultL_ni (c c' : Context) (hc : pubSha1 c = pubSha1 c') :
    NI (Context.mk_resultL c) (Context.mk_resultL c')
      (fun r r' => pubSha1 r.1 = pubSha1 r'.1 ∧ r.2.length = r'.2.length) := by
  unfold Context.mk_resultL
  refine NI.bind (FixedBuffer.standard_paddingL_ni (R := fun _ _ => True) 64 _ _ 8 digest_blockL
    (fun s s' x x' _ hx => Sha1L.digest_blockL_ni s s' x x' hx) _ _ ((pubSha1_iff c c').mp hc) trivial)
    (fun r r' hr => ?_)
  refine NI.bind (FixedBuffer.next_writeL_ni _ _ 8 _ _ hr.1 (by rw [u64be_length', u64be_length'])) (fun b b' hb => ?_)
  refine NI.bind (FixedBuffer.full_bufferL_ni 64 b b' hb) (fun fb fb' hfb => ?_)
  refine NI.bind (Sha1L.digest_blockL_ni _ _ _ _ hfb.2) (fun s s' _ => NI.pure _ _ ⟨?_, ?_⟩)
  · exact (pubSha1_iff _ _).mpr hfb.1
  · rw [sha1_out_length, sha1_out_length]

theorem Sha1L.finalize_resetL_ni (c c' : Context) (hc : pubSha1 c = pubSha1 c') :
    NI (Context.finalize_resetL c) (Context.finalize_resetL c')
      (fun r r' => pubSha1 r.1 = pubSha1 r'.1 ∧ r.2.length = r'.2.length) := by
  unfold Context.finalize_resetL
  refine NI.bind (Sha1L.mk_resultL_ni c c' hc) (fun r r' hr => NI.pure _ _ ⟨?_, hr.2⟩)
  exact (pubSha1_iff _ _).mpr ⟨((pubSha1_iff _ _).mp hr.1).1, rfl⟩

/-- **`CtxLeak` for `hashing::sha1::Context`** -/
def sha1CtxLeak : CtxLeak sha1Ctx sha1CtxL where
  π := Nat × Nat
  pub := pubSha1
  update_val := Sha1L.update_mutL_val
  reset_val _ := LO.pure_val _
  finalize_val := Sha1L.finalize_resetL_val
  update_ni := Sha1L.update_mutL_ni
  reset_ni c c' hc := NI.pure _ _ ((pubSha1_iff _ _).mpr ⟨((pubSha1_iff c c').mp hc).1, rfl⟩)
  finalize_ni := Sha1L.finalize_resetL_ni

def sha1Leak : DigestLeak (legacyDigest sha1Ctx) (legacyDigestL sha1CtxL) := legacyLeak sha1CtxLeak

end Sha1

/-! ### RIPEMD-160 -/
section Ripemd160
open Cx.Impl.Ripemd160 Cx.Impl.LeakModel.Ripemd160L
open Cx.Spec.Ripemd160 (Hash)

theorem ripemd_block_isSome (s : Hash) (b : Bytes) : (process_msg_block b s).isSome = decide (b.length = 64) := by
  by_cases h : b.length = 64
  · have := Cx.Proofs.Ripemd160Stream.blockFn_spec s b h
    unfold Cx.Proofs.Ripemd160Stream.blockFn at this
    rw [this]; simp [h]
  · unfold process_msg_block
    rw [if_neg h]; simp [h]

theorem Ripemd160L.process_msg_blockL_val (s : Hash) (b : Bytes) :
    (process_msg_blockL s b).val = process_msg_block b s := by
  unfold process_msg_blockL
  rw [LO.emit_bind_val]; exact LO.lift_val _

theorem Ripemd160L.process_msg_blocks_goL_val (bs : List Bytes) :
    ∀ s : Hash, (process_msg_blocks_goL s bs).val = process_msg_blocks_go s bs := by
  induction bs with
  | nil => intro s; exact LO.pure_val _
  | cons b bs ih =>
    intro s
    unfold process_msg_blocks_goL process_msg_blocks_go
    lo_bind (Ripemd160L.process_msg_blockL_val _ _)
    exact ih _

theorem Ripemd160L.process_msg_blocksL_val (s : Hash) (b : Bytes) :
    (process_msg_blocksL s b).val = process_msg_blocks b s := by
  unfold process_msg_blocksL process_msg_blocks
  rw [LO.emit_bind_val]
  exact Ripemd160L.process_msg_blocks_goL_val _ _

theorem Ripemd160L.process_msg_blockL_ni (s s' : Hash) (x x' : Bytes) (hx : x.length = x'.length) :
    NI (process_msg_blockL s x) (process_msg_blockL s' x') (fun _ _ => True) := by
  unfold process_msg_blockL
  rw [← hx]
  refine NI.bind (NI.emit _) (fun _ _ _ => NI.lift _ _ ?_ (fun _ _ _ _ => trivial))
  rw [ripemd_block_isSome, ripemd_block_isSome, hx]

theorem Ripemd160L.process_msg_blocks_goL_ni (bs : List Bytes) : ∀ (bs' : List Bytes) (s s' : Hash),
    bs.map List.length = bs'.map List.length →
    NI (process_msg_blocks_goL s bs) (process_msg_blocks_goL s' bs') (fun _ _ => True) := by
  induction bs with
  | nil =>
    intro bs' s s' h
    cases bs' with
    | nil => exact NI.pure _ _ trivial
    | cons b bs => simp at h
  | cons b bs ih =>
    intro bs' s s' h
    cases bs' with
    | nil => simp at h
    | cons b' bs' =>
      simp only [List.map_cons, List.cons.injEq] at h
      unfold process_msg_blocks_goL
      exact NI.bind (Ripemd160L.process_msg_blockL_ni s s' b b' h.1) (fun t t' _ => ih bs' t t' h.2)

theorem Ripemd160L.process_msg_blocksL_ni (s s' : Hash) (x x' : Bytes) (hx : x.length = x'.length) :
    NI (process_msg_blocksL s x) (process_msg_blocksL s' x') (fun _ _ => True) := by
  unfold process_msg_blocksL
  rw [chunks_count_congr 64 x x' hx]
  exact NI.bind (NI.emit _) (fun _ _ _ =>
    Ripemd160L.process_msg_blocks_goL_ni _ _ s s' (chunks_lengths_congr _ x x' hx))

theorem Ripemd160L.update_mutL_val (c : Context) (b : Bytes) : (Context.update_mutL c b).val = c.update_mut b := by
  unfold Context.update_mutL Context.update_mut
  lo_bind2 (FixedBuffer.inputL_val 64 _ _ process_msg_blocksL (fun h d => process_msg_blocks d h)
    Ripemd160L.process_msg_blocksL_val _)
  exact LO.pure_val _

theorem Ripemd160L.finalize_resetL_val (c : Context) : (Context.finalize_resetL c).val = c.finalize_reset := by
  unfold Context.finalize_resetL Context.finalize_reset
  lo_bind2 (FixedBuffer.standard_paddingL_val 64 _ 8 process_msg_blockL (fun h d => process_msg_block d h)
    Ripemd160L.process_msg_blockL_val _)
  lo_bind (FixedBuffer.next_writeL_val _ _ _)
  lo_bind (FixedBuffer.next_writeL_val _ _ _)
  lo_bind2 (FixedBuffer.full_bufferL_val _ _)
  lo_bind (Ripemd160L.process_msg_blockL_val _ _)
  exact LO.pure_val _

/-- the public shadow of a RIPEMD-160 context: buffer size and fill -/
def pubRipemd (c : Context) : Nat × Nat := (c.buffer.buffer.length, c.buffer.buffer_idx)

theorem pubRipemd_iff (c c' : Context) : pubRipemd c = pubRipemd c' ↔ LowB c.buffer c'.buffer := by
  unfold pubRipemd LowB
  constructor
  · intro h; simp only [Prod.mk.injEq] at h; exact h
  · intro h; rw [h.1, h.2]

theorem ripemd_word_length (w : UInt32) : (Ripemd160.write_u32_le w).length = 4 := by
  unfold Ripemd160.write_u32_le u32le
  exact Cx.Proofs.FB.natToLE_length _ _

theorem ripemd_out_length (h : Hash) :
    (Ripemd160.write_u32_le h.a ++ Ripemd160.write_u32_le h.b ++ Ripemd160.write_u32_le h.c ++
      Ripemd160.write_u32_le h.d ++ Ripemd160.write_u32_le h.e).length = 20 := by
  simp only [List.length_append, ripemd_word_length]

theorem Ripemd160L.update_mutL_ni (c c' : Context) (b b' : Bytes) (hc : pubRipemd c = pubRipemd c')
    (hb : b.length = b'.length) :
    NI (Context.update_mutL c b) (Context.update_mutL c' b') (fun e e' => pubRipemd e = pubRipemd e') := by
  unfold Context.update_mutL
  refine NI.bind (FixedBuffer.inputL_ni (R := fun _ _ => True) 64 _ _ b b' process_msg_blocksL
    (fun s s' x x' _ hx => Ripemd160L.process_msg_blocksL_ni s s' x x' hx) _ _ ((pubRipemd_iff c c').mp hc) hb trivial)
    (fun r r' hr => NI.pure _ _ ((pubRipemd_iff _ _).mpr hr.1))

theorem Ripemd160L.finalize_resetL_ni (c c' : Context) (hc : pubRipemd c = pubRipemd c') :
    NI (Context.finalize_resetL c) (Context.finalize_resetL c')
      (fun r r' => pubRipemd r.1 = pubRipemd r'.1 ∧ r.2.length = r'.2.length) := by
  unfold Context.finalize_resetL
  refine NI.bind (FixedBuffer.standard_paddingL_ni (R := fun _ _ => True) 64 _ _ 8 process_msg_blockL
    (fun s s' x x' _ hx => Ripemd160L.process_msg_blockL_ni s s' x x' hx) _ _ ((pubRipemd_iff c c').mp hc) trivial)
    (fun r r' hr => ?_)
  refine NI.bind (FixedBuffer.next_writeL_ni _ _ 4 _ _ hr.1 (by rw [ripemd_word_length, ripemd_word_length]))
    (fun b b' hb => ?_)
  refine NI.bind (FixedBuffer.next_writeL_ni _ _ 4 _ _ hb (by rw [ripemd_word_length, ripemd_word_length]))
    (fun b2 b2' hb2 => ?_)
  refine NI.bind (FixedBuffer.full_bufferL_ni 64 b2 b2' hb2) (fun fb fb' hfb => ?_)
  refine NI.bind (Ripemd160L.process_msg_blockL_ni _ _ _ _ hfb.2) (fun s s' _ => NI.pure _ _ ⟨?_, ?_⟩)
  · exact (pubRipemd_iff _ _).mpr ⟨hfb.1.1, rfl⟩
  · rw [ripemd_out_length, ripemd_out_length]

/-- **`CtxLeak` for `hashing::ripemd160::Context`** -/
def ripemd160CtxLeak : CtxLeak ripemd160Ctx ripemd160CtxL where
  π := Nat × Nat
  pub := pubRipemd
  update_val := Ripemd160L.update_mutL_val
  reset_val _ := LO.pure_val _
  finalize_val := Ripemd160L.finalize_resetL_val
  update_ni := Ripemd160L.update_mutL_ni
  reset_ni c c' hc := NI.pure _ _ ((pubRipemd_iff _ _).mpr ⟨((pubRipemd_iff c c').mp hc).1, rfl⟩)
  finalize_ni := Ripemd160L.finalize_resetL_ni

def ripemd160Leak : DigestLeak (legacyDigest ripemd160Ctx) (legacyDigestL ripemd160CtxL) := legacyLeak ripemd160CtxLeak

end Ripemd160

end Cx.Proofs.LeakModel
