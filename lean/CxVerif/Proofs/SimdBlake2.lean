/-
  Proofs.SimdBlake2 — the row-vector BLAKE2 compressions of Impl.SimdBlake2 equal `Impl.Blake2.reference_compress`
  (unit `simd`, C16 (iii)).  Steps, for each of avx-b, avx-s, avx2-b:
    1. every rotation implementation (pshufb mask / dword shuffle / shift-xor / shift-or, masks and immediates
       EXTRACTED from the source) is the rotation by the RFC amount on every lane;
    2. the extracted gather programs `load0! … load9!` deliver exactly `m[SIGMA[r][·]]` in the lane order the round
       needs (`…_loads_eq_sigma`, by evaluation of the postfix programs on symbolic message words);
    3. `G1; G2` on rows = the reference `G` on the four columns, DIAGONALIZE/UNDIAGONALIZE = the lane rotations that turn
       diagonals into columns, hence `ROUND!` = `Spec.Blake2.round`;
    4. the counter / flag vector is `(t0, t1, f0, 0)` for all counter values; initial rows and the final xor.
-/
import CxVerif.Impl.SimdBlake2
import CxVerif.Proofs.SimdBits
import Mathlib.Tactic.IntervalCases
namespace Cx.Proofs.SimdBlake2
open Cx Cx.Impl.Simd Cx.Impl.SimdBlake2 Cx.Proofs.SimdBits
open Cx.Spec.Blake2 (Word Params msel G loadWords compressCore)
open Cx.Impl.Blake2 (sigmaRow LastBlock reference_compress compressRows)

/-! ## generic: the reference round as column step ∘ lane rotation -/

section generic
variable {W : Type}

/-- a mixing function applied to the four columns, message words `x` (first half) and `y` (second half) per column -/
def colStepWith (g : W → W → W → W → W → W → W × W × W × W) (v : Vector W 16) (x0 x1 x2 x3 y0 y1 y2 y3 : W) : Vector W 16 :=
  let g0 := g v[0] v[4] v[8] v[12] x0 y0
  let g1 := g v[1] v[5] v[9] v[13] x1 y1
  let g2 := g v[2] v[6] v[10] v[14] x2 y2
  let g3 := g v[3] v[7] v[11] v[15] x3 y3
  #v[g0.1, g1.1, g2.1, g3.1, g0.2.1, g1.2.1, g2.2.1, g3.2.1, g0.2.2.1, g1.2.2.1, g2.2.2.1, g3.2.2.1,
     g0.2.2.2, g1.2.2.2, g2.2.2.2, g3.2.2.2]

/-- DIAGONALIZE of avx.rs: row b left by 1, row c by 2, row d by 3 -/
def diagP (v : Vector W 16) : Vector W 16 :=
  #v[v[0], v[1], v[2], v[3], v[5], v[6], v[7], v[4], v[10], v[11], v[8], v[9], v[15], v[12], v[13], v[14]]
def undiagP (v : Vector W 16) : Vector W 16 :=
  #v[v[0], v[1], v[2], v[3], v[7], v[4], v[5], v[6], v[10], v[11], v[8], v[9], v[13], v[14], v[15], v[12]]

/-- DIAGONALIZE of avx2.rs: row a RIGHT by 1, row c left by 1, row d by 2 (row b stays) -/
def diag2P (v : Vector W 16) : Vector W 16 :=
  #v[v[3], v[0], v[1], v[2], v[4], v[5], v[6], v[7], v[9], v[10], v[11], v[8], v[14], v[15], v[12], v[13]]
def undiag2P (v : Vector W 16) : Vector W 16 :=
  #v[v[1], v[2], v[3], v[0], v[4], v[5], v[6], v[7], v[11], v[8], v[9], v[10], v[14], v[15], v[12], v[13]]

variable [Word W]

/-- the reference round = columns, rotate, columns (= the diagonals), rotate back -/
theorem spec_round_diag (r1 r2 r3 r4 : Nat) (m v : Vector W 16) (σ : List Nat) :
    Spec.Blake2.round r1 r2 r3 r4 m v σ =
      undiagP (colStepWith (G r1 r2 r3 r4)
        (diagP (colStepWith (G r1 r2 r3 r4) v (msel m σ 0) (msel m σ 2) (msel m σ 4) (msel m σ 6)
                  (msel m σ 1) (msel m σ 3) (msel m σ 5) (msel m σ 7)))
        (msel m σ 8) (msel m σ 10) (msel m σ 12) (msel m σ 14) (msel m σ 9) (msel m σ 11) (msel m σ 13) (msel m σ 15)) := rfl

/-- the same round with the avx2 rotation (a, c, d rotate; diagonal 7 lands in lane 0) -/
theorem spec_round_diag2 (r1 r2 r3 r4 : Nat) (m v : Vector W 16) (σ : List Nat) :
    Spec.Blake2.round r1 r2 r3 r4 m v σ =
      undiag2P (colStepWith (G r1 r2 r3 r4)
        (diag2P (colStepWith (G r1 r2 r3 r4) v (msel m σ 0) (msel m σ 2) (msel m σ 4) (msel m σ 6)
                  (msel m σ 1) (msel m σ 3) (msel m σ 5) (msel m σ 7)))
        (msel m σ 14) (msel m σ 8) (msel m σ 10) (msel m σ 12) (msel m σ 15) (msel m σ 9) (msel m σ 11) (msel m σ 13)) := rfl

end generic

/-! ## the mixing function as the row code computes it on one lane: `a + x + b` instead of `a + b + x` -/

theorem arc64 (a x b : UInt64) : a + x + b = a + b + x := by
  rw [UInt64.add_assoc, UInt64.add_comm x b, ← UInt64.add_assoc]
theorem arc32 (a x b : UInt32) : a + x + b = a + b + x := by
  rw [UInt32.add_assoc, UInt32.add_comm x b, ← UInt32.add_assoc]
theorem wadd64 (a b : UInt64) : Word.add a b = a + b := rfl
theorem wxor64 (a b : UInt64) : Word.xor a b = a ^^^ b := rfl
theorem wrotr64 (a : UInt64) (n : Nat) : Word.rotr a n = rotr64 a n := rfl
theorem wadd32 (a b : UInt32) : Word.add a b = a + b := rfl
theorem wxor32 (a b : UInt32) : Word.xor a b = a ^^^ b := rfl
theorem wrotr32 (a : UInt32) (n : Nat) : Word.rotr a n = rotr32 a n := rfl

/-- avx.rs order (`row1 + b + row2`) -/
def laneGb (a b c d x y : UInt64) : UInt64 × UInt64 × UInt64 × UInt64 :=
  let a := a + x + b
  let d := rotr64 (d ^^^ a) 32
  let c := c + d
  let b := rotr64 (b ^^^ c) 24
  let a := a + y + b
  let d := rotr64 (d ^^^ a) 16
  let c := c + d
  let b := rotr64 (b ^^^ c) 63
  (a, b, c, d)

theorem laneGb_eq : laneGb = G 32 24 16 63 := by
  funext a b c d x y
  simp only [laneGb, G, wadd64, wxor64, wrotr64]
  rw [arc64 a x b, arc64 _ y _]

def laneGs (a b c d x y : UInt32) : UInt32 × UInt32 × UInt32 × UInt32 :=
  let a := a + x + b
  let d := rotr32 (d ^^^ a) 16
  let c := c + d
  let b := rotr32 (b ^^^ c) 12
  let a := a + y + b
  let d := rotr32 (d ^^^ a) 8
  let c := c + d
  let b := rotr32 (b ^^^ c) 7
  (a, b, c, d)

theorem laneGs_eq : laneGs = G 16 12 8 7 := by
  funext a b c d x y
  simp only [laneGs, G, wadd32, wxor32, wrotr32]
  rw [arc32 a x b, arc32 _ y _]

/-! ## avx.rs BLAKE2b -/

theorem avxb_rotate16 (r : V2x64) : AvxB.rotate16_epi64 r = ⟨rotr64 r.l0 16, rotr64 r.l1 16⟩ := by
  show (⟨ofBytes64 [byte64 r.l0 2, byte64 r.l0 3, byte64 r.l0 4, byte64 r.l0 5, byte64 r.l0 6, byte64 r.l0 7, byte64 r.l0 0, byte64 r.l0 1],
         ofBytes64 [byte64 r.l1 2, byte64 r.l1 3, byte64 r.l1 4, byte64 r.l1 5, byte64 r.l1 6, byte64 r.l1 7, byte64 r.l1 0, byte64 r.l1 1]⟩ : V2x64) = _
  rw [bytes_rot16_64, bytes_rot16_64]

theorem avxb_rotate24 (r : V2x64) : AvxB.rotate24_epi64 r = ⟨rotr64 r.l0 24, rotr64 r.l1 24⟩ := by
  show (⟨ofBytes64 [byte64 r.l0 3, byte64 r.l0 4, byte64 r.l0 5, byte64 r.l0 6, byte64 r.l0 7, byte64 r.l0 0, byte64 r.l0 1, byte64 r.l0 2],
         ofBytes64 [byte64 r.l1 3, byte64 r.l1 4, byte64 r.l1 5, byte64 r.l1 6, byte64 r.l1 7, byte64 r.l1 0, byte64 r.l1 1, byte64 r.l1 2]⟩ : V2x64) = _
  rw [bytes_rot24_64, bytes_rot24_64]

theorem avxb_rotate32 (r : V2x64) : AvxB.rotate32_epi64 r = ⟨rotr64 r.l0 32, rotr64 r.l1 32⟩ := by
  show (⟨(r.l0 >>> 32) ||| ((r.l0 &&& 0xFFFFFFFF) <<< 32), (r.l1 >>> 32) ||| ((r.l1 &&& 0xFFFFFFFF) <<< 32)⟩ : V2x64) = _
  rw [dword_swap, dword_swap]

theorem avxb_rotate63 (r : V2x64) : AvxB.rotate63_epi64 r = some ⟨rotr64 r.l0 63, rotr64 r.l1 63⟩ := by
  show some (⟨(r.l0 >>> 63) ^^^ (r.l0 <<< 1), (r.l1 >>> 63) ^^^ (r.l1 <<< 1)⟩ : V2x64) = _
  rw [shr_xor_shl_63, shr_xor_shl_63]

/-- the total function `compress_b_avx` uses for `rotate63_epi64` -/
def avxbRot63 : V2x64 → V2x64 := fun r => (AvxB.rotate63_epi64 r).getD r
theorem avxbRot63_eq (r : V2x64) : avxbRot63 r = ⟨rotr64 r.l0 63, rotr64 r.l1 63⟩ := by
  simp [avxbRot63, avxb_rotate63]

/-- rows → the sixteen words `v[0..15]` of the reference -/
def avxbV16 (s : AvxB.Rows) : Vector UInt64 16 :=
  #v[s.row1l.l0, s.row1l.l1, s.row1h.l0, s.row1h.l1, s.row2l.l0, s.row2l.l1, s.row2h.l0, s.row2h.l1,
     s.row3l.l0, s.row3l.l1, s.row3h.l0, s.row3h.l1, s.row4l.l0, s.row4l.l1, s.row4h.l0, s.row4h.l1]

/-- what `loadR!` must deliver for the SIGMA row `σ` -/
def avxbExpected (w : Vector UInt64 16) (σ : List Nat) : List V2x64 :=
  [⟨msel w σ 0, msel w σ 2⟩, ⟨msel w σ 4, msel w σ 6⟩, ⟨msel w σ 1, msel w σ 3⟩, ⟨msel w σ 5, msel w σ 7⟩,
   ⟨msel w σ 8, msel w σ 10⟩, ⟨msel w σ 12, msel w σ 14⟩, ⟨msel w σ 9, msel w σ 11⟩, ⟨msel w σ 13, msel w σ 15⟩]

/-- TABLE: the ten extracted gather macros of `compress_b_avx` select `m[SIGMA[r][·]]`, every message -/
theorem avxb_loads_eq_sigma (w : Vector UInt64 16) (r : Nat) (h : r < 10) :
    AvxB.load (AvxB.msgVecs w) r = some (avxbExpected w (sigmaRow r)) := by
  interval_cases r <;> rfl

theorem avxb_colStep (s : AvxB.Rows) (b0 b1 b2 b3 : V2x64) :
    avxbV16 (AvxB.G2 avxbRot63 (AvxB.G1 s b0 b1) b2 b3) =
      colStepWith (G 32 24 16 63) (avxbV16 s) b0.l0 b0.l1 b1.l0 b1.l1 b2.l0 b2.l1 b3.l0 b3.l1 := by
  rw [← laneGb_eq]
  obtain ⟨⟨a0, a1⟩, ⟨a2, a3⟩, ⟨b0', b1'⟩, ⟨b2', b3'⟩, ⟨c0, c1⟩, ⟨c2, c3⟩, ⟨d0, d1⟩, ⟨d2, d3⟩⟩ := s
  simp only [AvxB.G1, AvxB.G2, AvxB.G, avxb_rotate32, avxb_rotate24, avxb_rotate16, avxbRot63_eq, V2x64.add, V2x64.xor, avxbV16]
  rfl

theorem avxb_diag (s : AvxB.Rows) : avxbV16 (AvxB.DIAGONALIZE s) = diagP (avxbV16 s) := by
  obtain ⟨⟨a0, a1⟩, ⟨a2, a3⟩, ⟨b0', b1'⟩, ⟨b2', b3'⟩, ⟨c0, c1⟩, ⟨c2, c3⟩, ⟨d0, d1⟩, ⟨d2, d3⟩⟩ := s; rfl
theorem avxb_undiag (s : AvxB.Rows) : avxbV16 (AvxB.UNDIAGONALIZE s) = undiagP (avxbV16 s) := by
  obtain ⟨⟨a0, a1⟩, ⟨a2, a3⟩, ⟨b0', b1'⟩, ⟨b2', b3'⟩, ⟨c0, c1⟩, ⟨c2, c3⟩, ⟨d0, d1⟩, ⟨d2, d3⟩⟩ := s; rfl

/-- `ROUND!` with the gathered words of row σ = the reference round -/
theorem avxb_ROUND (s : AvxB.Rows) (w : Vector UInt64 16) (σ : List Nat) :
    ∃ s', AvxB.ROUND avxbRot63 s (avxbExpected w σ) = some s' ∧
      avxbV16 s' = Spec.Blake2.round 32 24 16 63 w (avxbV16 s) σ := by
  refine ⟨_, rfl, ?_⟩
  rw [avxb_undiag, avxb_colStep, avxb_diag, avxb_colStep, spec_round_diag]

theorem avxb_rounds (w : Vector UInt64 16) : ∀ (rs : List Nat) (s : AvxB.Rows), (∀ r ∈ rs, r < 10) →
    ∃ s', AvxB.rounds avxbRot63 (AvxB.msgVecs w) s rs = some s' ∧
      avxbV16 s' = (rs.map sigmaRow).foldl (Spec.Blake2.round 32 24 16 63 w) (avxbV16 s)
  | [], s, _ => ⟨s, rfl, rfl⟩
  | r :: rs, s, h => by
    obtain ⟨s1, h1, e1⟩ := avxb_ROUND s w (sigmaRow r)
    obtain ⟨s2, h2, e2⟩ := avxb_rounds w rs s1 (fun x hx => h x (List.mem_cons_of_mem _ hx))
    refine ⟨s2, ?_, ?_⟩
    · simp only [AvxB.rounds, avxb_loads_eq_sigma w r (h r List.mem_cons_self), h1, h2]
    · simp only [List.map_cons, List.foldl_cons, e2, e1]

/-! ## avx.rs BLAKE2s -/

theorem avxs_rotate16 (r : V4x32) : AvxS.rotate16_epi32 r = ⟨rotr32 r.l0 16, rotr32 r.l1 16, rotr32 r.l2 16, rotr32 r.l3 16⟩ := by
  show (⟨ofBytes32 [byte32 r.l0 2, byte32 r.l0 3, byte32 r.l0 0, byte32 r.l0 1],
         ofBytes32 [byte32 r.l1 2, byte32 r.l1 3, byte32 r.l1 0, byte32 r.l1 1],
         ofBytes32 [byte32 r.l2 2, byte32 r.l2 3, byte32 r.l2 0, byte32 r.l2 1],
         ofBytes32 [byte32 r.l3 2, byte32 r.l3 3, byte32 r.l3 0, byte32 r.l3 1]⟩ : V4x32) = _
  simp only [bytes_rot16_32]

theorem avxs_rotate8 (r : V4x32) : AvxS.rotate8_epi32 r = ⟨rotr32 r.l0 8, rotr32 r.l1 8, rotr32 r.l2 8, rotr32 r.l3 8⟩ := by
  show (⟨ofBytes32 [byte32 r.l0 1, byte32 r.l0 2, byte32 r.l0 3, byte32 r.l0 0],
         ofBytes32 [byte32 r.l1 1, byte32 r.l1 2, byte32 r.l1 3, byte32 r.l1 0],
         ofBytes32 [byte32 r.l2 1, byte32 r.l2 2, byte32 r.l2 3, byte32 r.l2 0],
         ofBytes32 [byte32 r.l3 1, byte32 r.l3 2, byte32 r.l3 3, byte32 r.l3 0]⟩ : V4x32) = _
  simp only [bytes_rot8_32]

theorem avxs_rotate12 (r : V4x32) :
    AvxS.rotate12_epi32 r = some ⟨rotr32 r.l0 12, rotr32 r.l1 12, rotr32 r.l2 12, rotr32 r.l3 12⟩ := by
  show some (⟨(r.l0 >>> 12) ^^^ (r.l0 <<< 20), (r.l1 >>> 12) ^^^ (r.l1 <<< 20), (r.l2 >>> 12) ^^^ (r.l2 <<< 20),
              (r.l3 >>> 12) ^^^ (r.l3 <<< 20)⟩ : V4x32) = _
  simp only [shr_xor_shl_12]

theorem avxs_rotate7 (r : V4x32) :
    AvxS.rotate7_epi32 r = some ⟨rotr32 r.l0 7, rotr32 r.l1 7, rotr32 r.l2 7, rotr32 r.l3 7⟩ := by
  show some (⟨(r.l0 >>> 7) ^^^ (r.l0 <<< 25), (r.l1 >>> 7) ^^^ (r.l1 <<< 25), (r.l2 >>> 7) ^^^ (r.l2 <<< 25),
              (r.l3 >>> 7) ^^^ (r.l3 <<< 25)⟩ : V4x32) = _
  simp only [shr_xor_shl_7]

def avxsRots : AvxS.Rots := ⟨fun r => (AvxS.rotate7_epi32 r).getD r, fun r => (AvxS.rotate12_epi32 r).getD r⟩
theorem avxsRot7_eq (r : V4x32) : avxsRots.rot7 r = ⟨rotr32 r.l0 7, rotr32 r.l1 7, rotr32 r.l2 7, rotr32 r.l3 7⟩ := by
  simp [avxsRots, avxs_rotate7]
theorem avxsRot12_eq (r : V4x32) : avxsRots.rot12 r = ⟨rotr32 r.l0 12, rotr32 r.l1 12, rotr32 r.l2 12, rotr32 r.l3 12⟩ := by
  simp [avxsRots, avxs_rotate12]

def avxsV16 (s : AvxS.Rows) : Vector UInt32 16 :=
  #v[s.row1.l0, s.row1.l1, s.row1.l2, s.row1.l3, s.row2.l0, s.row2.l1, s.row2.l2, s.row2.l3,
     s.row3.l0, s.row3.l1, s.row3.l2, s.row3.l3, s.row4.l0, s.row4.l1, s.row4.l2, s.row4.l3]

def avxsExpected (w : Vector UInt32 16) (σ : List Nat) : List V4x32 :=
  [⟨msel w σ 0, msel w σ 2, msel w σ 4, msel w σ 6⟩, ⟨msel w σ 1, msel w σ 3, msel w σ 5, msel w σ 7⟩,
   ⟨msel w σ 8, msel w σ 10, msel w σ 12, msel w σ 14⟩, ⟨msel w σ 9, msel w σ 11, msel w σ 13, msel w σ 15⟩]

/-- TABLE: the ten extracted gather macros of `compress_s_avx` (blends, byte shifts, unpacks, shuffles) select
    `m[SIGMA[r][·]]`, every message -/
theorem avxs_loads_eq_sigma (w : Vector UInt32 16) (r : Nat) (h : r < 10) :
    AvxS.load (AvxS.msgVecs w) r = some (avxsExpected w (sigmaRow r)) := by
  interval_cases r <;> rfl

theorem avxs_colStep (s : AvxS.Rows) (b0 b1 : V4x32) :
    avxsV16 (AvxS.G2 avxsRots (AvxS.G1 avxsRots s b0) b1) =
      colStepWith (G 16 12 8 7) (avxsV16 s) b0.l0 b0.l1 b0.l2 b0.l3 b1.l0 b1.l1 b1.l2 b1.l3 := by
  rw [← laneGs_eq]
  obtain ⟨⟨a0, a1, a2, a3⟩, ⟨b0', b1', b2', b3'⟩, ⟨c0, c1, c2, c3⟩, ⟨d0, d1, d2, d3⟩⟩ := s
  simp only [AvxS.G1, AvxS.G2, AvxS.G, avxs_rotate16, avxs_rotate8, avxsRot7_eq, avxsRot12_eq, V4x32.add, V4x32.xor, avxsV16]
  rfl

/-- TABLE: the extracted `_MM_SHUFFLE` immediates of DIAGONALIZE! are the lane rotations by 1, 2, 3 -/
theorem avxs_diag (s : AvxS.Rows) : ∃ s', AvxS.DIAGONALIZE s = some s' ∧ avxsV16 s' = diagP (avxsV16 s) := by
  obtain ⟨⟨a0, a1, a2, a3⟩, ⟨b0', b1', b2', b3'⟩, ⟨c0, c1, c2, c3⟩, ⟨d0, d1, d2, d3⟩⟩ := s
  exact ⟨_, rfl, rfl⟩
theorem avxs_undiag (s : AvxS.Rows) : ∃ s', AvxS.UNDIAGONALIZE s = some s' ∧ avxsV16 s' = undiagP (avxsV16 s) := by
  obtain ⟨⟨a0, a1, a2, a3⟩, ⟨b0', b1', b2', b3'⟩, ⟨c0, c1, c2, c3⟩, ⟨d0, d1, d2, d3⟩⟩ := s
  exact ⟨_, rfl, rfl⟩

theorem avxs_ROUND (s : AvxS.Rows) (w : Vector UInt32 16) (σ : List Nat) :
    ∃ s', AvxS.ROUND avxsRots s (avxsExpected w σ) = some s' ∧
      avxsV16 s' = Spec.Blake2.round 16 12 8 7 w (avxsV16 s) σ := by
  obtain ⟨s1, h1, e1⟩ := avxs_diag (AvxS.G2 avxsRots (AvxS.G1 avxsRots s (⟨msel w σ 0, msel w σ 2, msel w σ 4, msel w σ 6⟩ : V4x32))
    ⟨msel w σ 1, msel w σ 3, msel w σ 5, msel w σ 7⟩)
  obtain ⟨s2, h2, e2⟩ := avxs_undiag (AvxS.G2 avxsRots (AvxS.G1 avxsRots s1 (⟨msel w σ 8, msel w σ 10, msel w σ 12, msel w σ 14⟩ : V4x32))
    ⟨msel w σ 9, msel w σ 11, msel w σ 13, msel w σ 15⟩)
  refine ⟨s2, ?_, ?_⟩
  · simp only [AvxS.ROUND, avxsExpected, h1, h2]
  · rw [e2, avxs_colStep, e1, avxs_colStep, spec_round_diag]

theorem avxs_rounds (w : Vector UInt32 16) : ∀ (rs : List Nat) (s : AvxS.Rows), (∀ r ∈ rs, r < 10) →
    ∃ s', AvxS.rounds avxsRots (AvxS.msgVecs w) s rs = some s' ∧
      avxsV16 s' = (rs.map sigmaRow).foldl (Spec.Blake2.round 16 12 8 7 w) (avxsV16 s)
  | [], s, _ => ⟨s, rfl, rfl⟩
  | r :: rs, s, h => by
    obtain ⟨s1, h1, e1⟩ := avxs_ROUND s w (sigmaRow r)
    obtain ⟨s2, h2, e2⟩ := avxs_rounds w rs s1 (fun x hx => h x (List.mem_cons_of_mem _ hx))
    refine ⟨s2, ?_, ?_⟩
    · simp only [AvxS.rounds, avxs_loads_eq_sigma w r (h r List.mem_cons_self), h1, h2]
    · simp only [List.map_cons, List.foldl_cons, e2, e1]

/-! ## avx2.rs BLAKE2b -/

theorem avx2_rot16 (v : V4x64) : Avx2B.rot16 v = ⟨rotr64 v.l0 16, rotr64 v.l1 16, rotr64 v.l2 16, rotr64 v.l3 16⟩ := by
  show (⟨ofBytes64 [byte64 v.l0 2, byte64 v.l0 3, byte64 v.l0 4, byte64 v.l0 5, byte64 v.l0 6, byte64 v.l0 7, byte64 v.l0 0, byte64 v.l0 1],
         ofBytes64 [byte64 v.l1 2, byte64 v.l1 3, byte64 v.l1 4, byte64 v.l1 5, byte64 v.l1 6, byte64 v.l1 7, byte64 v.l1 0, byte64 v.l1 1],
         ofBytes64 [byte64 v.l2 2, byte64 v.l2 3, byte64 v.l2 4, byte64 v.l2 5, byte64 v.l2 6, byte64 v.l2 7, byte64 v.l2 0, byte64 v.l2 1],
         ofBytes64 [byte64 v.l3 2, byte64 v.l3 3, byte64 v.l3 4, byte64 v.l3 5, byte64 v.l3 6, byte64 v.l3 7, byte64 v.l3 0, byte64 v.l3 1]⟩ : V4x64) = _
  simp only [bytes_rot16_64]

theorem avx2_rot24 (v : V4x64) : Avx2B.rot24 v = ⟨rotr64 v.l0 24, rotr64 v.l1 24, rotr64 v.l2 24, rotr64 v.l3 24⟩ := by
  show (⟨ofBytes64 [byte64 v.l0 3, byte64 v.l0 4, byte64 v.l0 5, byte64 v.l0 6, byte64 v.l0 7, byte64 v.l0 0, byte64 v.l0 1, byte64 v.l0 2],
         ofBytes64 [byte64 v.l1 3, byte64 v.l1 4, byte64 v.l1 5, byte64 v.l1 6, byte64 v.l1 7, byte64 v.l1 0, byte64 v.l1 1, byte64 v.l1 2],
         ofBytes64 [byte64 v.l2 3, byte64 v.l2 4, byte64 v.l2 5, byte64 v.l2 6, byte64 v.l2 7, byte64 v.l2 0, byte64 v.l2 1, byte64 v.l2 2],
         ofBytes64 [byte64 v.l3 3, byte64 v.l3 4, byte64 v.l3 5, byte64 v.l3 6, byte64 v.l3 7, byte64 v.l3 0, byte64 v.l3 1, byte64 v.l3 2]⟩ : V4x64) = _
  simp only [bytes_rot24_64]

theorem avx2_rot32 (v : V4x64) : Avx2B.rot32 v = ⟨rotr64 v.l0 32, rotr64 v.l1 32, rotr64 v.l2 32, rotr64 v.l3 32⟩ := by
  show (⟨(v.l0 >>> 32) ||| ((v.l0 &&& 0xFFFFFFFF) <<< 32), (v.l1 >>> 32) ||| ((v.l1 &&& 0xFFFFFFFF) <<< 32),
         (v.l2 >>> 32) ||| ((v.l2 &&& 0xFFFFFFFF) <<< 32), (v.l3 >>> 32) ||| ((v.l3 &&& 0xFFFFFFFF) <<< 32)⟩ : V4x64) = _
  simp only [dword_swap]

theorem avx2_rot63 (v : V4x64) :
    Avx2B.rot63 v = some ⟨rotr64 v.l0 63, rotr64 v.l1 63, rotr64 v.l2 63, rotr64 v.l3 63⟩ := by
  show some (⟨(v.l0 >>> 63) ||| (v.l0 + v.l0), (v.l1 >>> 63) ||| (v.l1 + v.l1), (v.l2 >>> 63) ||| (v.l2 + v.l2),
              (v.l3 >>> 63) ||| (v.l3 + v.l3)⟩ : V4x64) = _
  simp only [shr_or_add_63]

def avx2Rot63 : V4x64 → V4x64 := fun v => (Avx2B.rot63 v).getD v
theorem avx2Rot63_eq (v : V4x64) : avx2Rot63 v = ⟨rotr64 v.l0 63, rotr64 v.l1 63, rotr64 v.l2 63, rotr64 v.l3 63⟩ := by
  simp [avx2Rot63, avx2_rot63]

def avx2V16 (s : Avx2B.Rows) : Vector UInt64 16 :=
  #v[s.a.l0, s.a.l1, s.a.l2, s.a.l3, s.b.l0, s.b.l1, s.b.l2, s.b.l3,
     s.c.l0, s.c.l1, s.c.l2, s.c.l3, s.d.l0, s.d.l1, s.d.l2, s.d.l3]

/-- the diagonal step of avx2.rs needs the words of diagonals 7, 4, 5, 6 in lanes 0, 1, 2, 3 -/
def avx2Expected (w : Vector UInt64 16) (σ : List Nat) : List V4x64 :=
  [⟨msel w σ 0, msel w σ 2, msel w σ 4, msel w σ 6⟩, ⟨msel w σ 1, msel w σ 3, msel w σ 5, msel w σ 7⟩,
   ⟨msel w σ 14, msel w σ 8, msel w σ 10, msel w σ 12⟩, ⟨msel w σ 15, msel w σ 9, msel w σ 11, msel w σ 13⟩]

/-- TABLE: the ten extracted gather macros of `compress_b_avx2` select `m[SIGMA[r][·]]` in the lane order of the
    a-rotating diagonalisation, every message -/
theorem avx2_loads_eq_sigma (w : Vector UInt64 16) (r : Nat) (h : r < 10) :
    Avx2B.load (Avx2B.msgVecs w) r = some (avx2Expected w (sigmaRow r)) := by
  interval_cases r <;> rfl

/-- avx2.rs order: `a + m + b` -/
theorem avx2_colStep (s : Avx2B.Rows) (b0 b1 : V4x64) :
    avx2V16 (Avx2B.G2 avx2Rot63 (Avx2B.G1 s b0) b1) =
      colStepWith (G 32 24 16 63) (avx2V16 s) b0.l0 b0.l1 b0.l2 b0.l3 b1.l0 b1.l1 b1.l2 b1.l3 := by
  rw [← laneGb_eq]
  obtain ⟨⟨a0, a1, a2, a3⟩, ⟨b0', b1', b2', b3'⟩, ⟨c0, c1, c2, c3⟩, ⟨d0, d1, d2, d3⟩⟩ := s
  simp only [Avx2B.G1, Avx2B.G2, Avx2B.G, avx2_rot32, avx2_rot24, avx2_rot16, avx2Rot63_eq, V4x64.add, V4x64.xor, avx2V16]
  rfl

/-- TABLE: the extracted `_mm256_permute4x64_epi64` immediates rotate a right by 1, d by 2, c left by 1 -/
theorem avx2_diag (s : Avx2B.Rows) : ∃ s', Avx2B.DIAGONALIZE s = some s' ∧ avx2V16 s' = diag2P (avx2V16 s) := by
  obtain ⟨⟨a0, a1, a2, a3⟩, ⟨b0', b1', b2', b3'⟩, ⟨c0, c1, c2, c3⟩, ⟨d0, d1, d2, d3⟩⟩ := s
  exact ⟨_, rfl, rfl⟩
theorem avx2_undiag (s : Avx2B.Rows) : ∃ s', Avx2B.UNDIAGONALIZE s = some s' ∧ avx2V16 s' = undiag2P (avx2V16 s) := by
  obtain ⟨⟨a0, a1, a2, a3⟩, ⟨b0', b1', b2', b3'⟩, ⟨c0, c1, c2, c3⟩, ⟨d0, d1, d2, d3⟩⟩ := s
  exact ⟨_, rfl, rfl⟩

theorem avx2_ROUND (s : Avx2B.Rows) (w : Vector UInt64 16) (σ : List Nat) :
    ∃ s', Avx2B.ROUND avx2Rot63 s (avx2Expected w σ) = some s' ∧
      avx2V16 s' = Spec.Blake2.round 32 24 16 63 w (avx2V16 s) σ := by
  obtain ⟨s1, h1, e1⟩ := avx2_diag (Avx2B.G2 avx2Rot63 (Avx2B.G1 s (⟨msel w σ 0, msel w σ 2, msel w σ 4, msel w σ 6⟩ : V4x64))
    ⟨msel w σ 1, msel w σ 3, msel w σ 5, msel w σ 7⟩)
  obtain ⟨s2, h2, e2⟩ := avx2_undiag (Avx2B.G2 avx2Rot63 (Avx2B.G1 s1 (⟨msel w σ 14, msel w σ 8, msel w σ 10, msel w σ 12⟩ : V4x64))
    ⟨msel w σ 15, msel w σ 9, msel w σ 11, msel w σ 13⟩)
  refine ⟨s2, ?_, ?_⟩
  · simp only [Avx2B.ROUND, avx2Expected, h1, h2]
  · rw [e2, avx2_colStep, e1, avx2_colStep, spec_round_diag2]

theorem avx2_rounds (w : Vector UInt64 16) : ∀ (rs : List Nat) (s : Avx2B.Rows), (∀ r ∈ rs, r < 10) →
    ∃ s', Avx2B.rounds avx2Rot63 (Avx2B.msgVecs w) s rs = some s' ∧
      avx2V16 s' = (rs.map sigmaRow).foldl (Spec.Blake2.round 32 24 16 63 w) (avx2V16 s)
  | [], s, _ => ⟨s, rfl, rfl⟩
  | r :: rs, s, h => by
    obtain ⟨s1, h1, e1⟩ := avx2_ROUND s w (sigmaRow r)
    obtain ⟨s2, h2, e2⟩ := avx2_rounds w rs s1 (fun x hx => h x (List.mem_cons_of_mem _ hx))
    refine ⟨s2, ?_, ?_⟩
    · simp only [Avx2B.rounds, avx2_loads_eq_sigma w r (h r List.mem_cons_self), h1, h2]
    · simp only [List.map_cons, List.foldl_cons, e2, e1]

end Cx.Proofs.SimdBlake2
