/-
  Proofs.Ge32Refine — the limb-level group layer of the 32-BIT backend (Impl/Ge32.lean over Impl/Fe32.lean) refines the
  field-level formulas of Proofs/EdwardsAlgebra.lean, hence (Proofs/EdwardsSpec.lean) the affine law of
  Spec/Edwards.lean — the counterpart of Proofs/GeRefine.lean for `Fe = fe32::Fe`.

  The point of this file is the BOUND DISCIPLINE of the ref10 representation.  fe32's `Add`/`Sub`/`Neg` do not carry:
  the limb weight of the result is the sum of the operand weights (`W a f → W b g → W (a+b) (f±g)`); `Mul`, `square`,
  `square_and_double`, `invert` accept weight ≤ 3 and return weight 1; `to_bytes` and the predicates accept weight ≤ 6.
  For every formula of ge.rs it is shown that each value flowing into a multiplication is a sum/difference of at most
  three carried values, that every function returns `some` (NO i32/i64 overflow in an overflow-checked build) and that
  the output represents the Spec result:
      `GeOk`      x y z t           all of weight 1   (outputs of `Mul`; constants; `neg` of weight 1)
      `PartialOk` x y z             weight 1
      `P1P1Ok`    x y z t           weight ≤ 3        (x3 = aa − (yy+xx), t3 = b − (yy−xx), z3 = d ± c: three terms)
      `CachedOk`  y+x, y−x          weight 2;  z, t2d weight 1
      `PrecompOk` y+x, y−x, xy2d    weight 1          (table entries, `select`)
  Needs `Nat.Prime p` wherever a division occurs (instance argument, discharged in Props/C17/Group32.lean).
-/
import CxVerif.Proofs.EdwardsSpec
import CxVerif.Proofs.Fe32Chain
import CxVerif.Proofs.Fe32Pred
import CxVerif.Proofs.Fe32Arith
import CxVerif.Proofs.Fe32Tables
import CxVerif.Impl.Ge32

namespace Cx.Proofs.Fe32
open Cx.Impl.Fe32
/-- weight ≤ 3: admissible operand of `Mul` / `square` / `invert` -/
theorem W.w3 {a : Int} {f : Fe} (h : W a f) (ha : a ≤ 3 := by decide) : W 3 f := W.mono ha h
/-- weight ≤ 6: admissible operand of `to_bytes` / `is_nonzero` / `is_negative` -/
theorem W.w6 {a : Int} {f : Fe} (h : W a f) (ha : a ≤ 6 := by decide) : W 6 f := W.mono ha h
/-- weight ≤ 63: every limb is an `i32` (what the masked moves need) -/
theorem W.i32 {a : Int} {f : Fe} (h : W a f) (ha : a ≤ 63 := by decide) : I32 f := by
  unfold W at h; unfold I32; omega

/-- `Add` with the weights implicit and the side condition discharged by `decide` (value statement on `Nat`) -/
theorem add_specN (f g : Fe) {a b : Int} (hf : W a f) (hg : W b g) (hab : a + b ≤ 63 := by decide) :
    ∃ h, add f g = some h ∧ W (a + b) h ∧ eval h = Cx.Spec.Field25519.add (eval f) (eval g) := by
  obtain ⟨h, e, t, _, v⟩ := add_spec f g a b hf hg hab
  exact ⟨h, e, t, v⟩
/-- `Sub` likewise -/
theorem sub_specN (f g : Fe) {a b : Int} (hf : W a f) (hg : W b g) (hab : a + b ≤ 63 := by decide) :
    ∃ h, sub f g = some h ∧ W (a + b) h ∧ eval h = Cx.Spec.Field25519.sub (eval f) (eval g) := by
  obtain ⟨h, e, t, _, v⟩ := sub_spec f g a b hf hg hab
  exact ⟨h, e, t, v⟩
/-- `negate_mut` likewise -/
theorem negate_mut_specN (f : Fe) {a : Int} (hf : W a f) (ha : a ≤ 63 := by decide) :
    ∃ h, negate_mut f = some h ∧ W a h ∧ eval h = Cx.Spec.Field25519.neg (eval f) := by
  obtain ⟨h, e, t, _, v⟩ := negate_mut_spec f a hf ha
  exact ⟨h, e, t, v⟩
end Cx.Proofs.Fe32

namespace Cx.Proofs.Ge32Refine
open Cx Cx.Spec Cx.Impl.Fe32 Cx.Impl.Ge32 Cx.Proofs.EdField Cx.Proofs.EdSpec
open Cx.Proofs.Fe32 (eval W some_bind pure_eq_some)
open Cx.Spec.Edwards (Point)
open Cx.Spec.Field25519 (p)

set_option maxRecDepth 10000

/-- the field element a limb vector denotes -/
noncomputable def ev (f : Fe) : Fp := ((eval f : Nat) : Fp)

/-! ### the Fe32 operator specs, cast to the field -/

theorem add_ok (f g : Fe) {a b : Int} (hf : W a f) (hg : W b g) (hab : a + b ≤ 63 := by decide) :
    ∃ h, Impl.Fe32.add f g = some h ∧ W (a + b) h ∧ ev h = ev f + ev g := by
  obtain ⟨h, e, t, _, v⟩ := Proofs.Fe32.add_spec f g a b hf hg hab
  exact ⟨h, e, t, by unfold ev; rw [v, cast_add]⟩

theorem sub_ok (f g : Fe) {a b : Int} (hf : W a f) (hg : W b g) (hab : a + b ≤ 63 := by decide) :
    ∃ h, Impl.Fe32.sub f g = some h ∧ W (a + b) h ∧ ev h = ev f - ev g := by
  obtain ⟨h, e, t, _, v⟩ := Proofs.Fe32.sub_spec f g a b hf hg hab
  exact ⟨h, e, t, by unfold ev; rw [v, cast_sub]⟩

theorem neg_ok (g : Fe) {a : Int} (hg : W a g) (ha : a ≤ 63 := by decide) :
    ∃ h, Impl.Fe32.neg g = some h ∧ W a h ∧ ev h = - ev g := by
  obtain ⟨h, e, t, _, v⟩ := Proofs.Fe32.neg_spec g a hg ha
  exact ⟨h, e, t, by unfold ev; rw [v, cast_neg]⟩

theorem mul_ok (f g : Fe) (hf : W 3 f) (hg : W 3 g) :
    ∃ h, Impl.Fe32.mul f g = some h ∧ W 1 h ∧ ev h = ev f * ev g := by
  obtain ⟨h, e, t, v⟩ := Proofs.Fe32.mul_spec f g hf hg
  exact ⟨h, e, t, by unfold ev; rw [v, cast_mul]⟩

theorem square_ok (f : Fe) (hf : W 3 f) : ∃ h, Impl.Fe32.square f = some h ∧ W 1 h ∧ ev h = ev f * ev f := by
  obtain ⟨h, e, t, v⟩ := Proofs.Fe32.square_spec f hf
  exact ⟨h, e, t, by unfold ev; rw [v, cast_sq]⟩

theorem sqd_ok (f : Fe) (hf : W 3 f) :
    ∃ h, Impl.Fe32.square_and_double f = some h ∧ W 1 h ∧ ev h = 2 * (ev f * ev f) := by
  obtain ⟨h, e, t, v⟩ := Proofs.Fe32.square_and_double_spec f hf
  exact ⟨h, e, t, by unfold ev; rw [v, cast_mul, cast_sq]; norm_num⟩

theorem invert_ok [Fact (Nat.Prime p)] (f : Fe) (hf : W 3 f) :
    ∃ h, Impl.Fe32.invert f = some h ∧ W 1 h ∧ ev h = (ev f)⁻¹ := by
  obtain ⟨h, e, t, v⟩ := Proofs.Fe32.invert_spec f hf
  exact ⟨h, e, t, by unfold ev; rw [v, cast_inv]⟩

theorem ev_ONE : ev Fe.ONE = 1 := by unfold ev; rw [Proofs.Fe32.ONE_spec.2]; exact Nat.cast_one
theorem ev_ZERO : ev Fe.ZERO = 0 := by unfold ev; rw [Proofs.Fe32.ZERO_spec.2]; exact Nat.cast_zero
theorem ev_D2 : ev Fe.D2 = 2 * dF := by
  unfold ev dF; rw [Proofs.Fe32.D2_spec.2]; unfold Field25519.edwardsD2 Edwards.d; rw [cast_mul]; norm_num
theorem ev_D : ev Fe.D = dF := by unfold ev dF; rw [Proofs.Fe32.D_spec.2]; rfl
theorem tight_ONE : W 1 Fe.ONE := Proofs.Fe32.ONE_spec.1
theorem tight_ZERO : W 1 Fe.ZERO := Proofs.Fe32.ZERO_spec.1
theorem tight_D2 : W 1 Fe.D2 := Proofs.Fe32.D2_spec.1
theorem tight_D : W 1 Fe.D := Proofs.Fe32.D_spec.1

/-! ### representation predicates: limb weights, values represent a Spec point -/

section prime
variable [hp : Fact (Nat.Prime p)]

structure GeOk (g : Ge) (P : Point) : Prop where
  tx : W 1 g.x
  ty : W 1 g.y
  tz : W 1 g.z
  tt : W 1 g.t
  rep : EdAlg.RepExt (ev g.x) (ev g.y) (ev g.z) (ev g.t) (P.x : Fp) (P.y : Fp)

structure PartialOk (g : GePartial) (P : Point) : Prop where
  tx : W 1 g.x
  ty : W 1 g.y
  tz : W 1 g.z
  rep : EdAlg.RepProj (ev g.x) (ev g.y) (ev g.z) (P.x : Fp) (P.y : Fp)

structure P1P1Ok (g : GeP1P1) (P : Point) : Prop where
  tx : W 3 g.x
  ty : W 3 g.y
  tz : W 3 g.z
  tt : W 3 g.t
  rep : EdAlg.RepP1P1 (ev g.x) (ev g.y) (ev g.z) (ev g.t) (P.x : Fp) (P.y : Fp)

structure CachedOk (c : GeCached) (P : Point) : Prop where
  tp : W 2 c.y_plus_x
  tm : W 2 c.y_minus_x
  tz : W 1 c.z
  tt : W 1 c.t2d
  rep : EdAlg.RepCached dF (ev c.y_plus_x) (ev c.y_minus_x) (ev c.z) (ev c.t2d) (P.x : Fp) (P.y : Fp)

structure PrecompOk (c : GePrecomp) (P : Point) : Prop where
  tp : W 1 c.y_plus_x
  tm : W 1 c.y_minus_x
  tt : W 1 c.xy2d
  rep : EdAlg.RepPrecomp dF (ev c.y_plus_x) (ev c.y_minus_x) (ev c.xy2d) (P.x : Fp) (P.y : Fp)

theorem GeOk.toPartial {g : Ge} {P : Point} (h : GeOk g P) : PartialOk g.to_partial P :=
  ⟨h.tx, h.ty, h.tz, h.rep.toProj⟩

/-- `GeP1P1::to_full` (four products of weight-≤3 operands) -/
theorem to_full_ok (r : GeP1P1) (P : Point) (h : P1P1Ok r P) : ∃ g, r.to_full = some g ∧ GeOk g P := by
  obtain ⟨tx, ty, tz, tt, rep⟩ := h
  simp only [GeP1P1.to_full]
  obtain ⟨x, e, hx, vx⟩ := mul_ok r.x r.t tx tt; rw [e, some_bind]
  obtain ⟨y, e, hy, vy⟩ := mul_ok r.y r.z ty tz; rw [e, some_bind]
  obtain ⟨z, e, hz, vz⟩ := mul_ok r.z r.t tz tt; rw [e, some_bind]
  obtain ⟨t, e, ht, vt⟩ := mul_ok r.x r.y tx ty; rw [e, some_bind]
  refine ⟨_, rfl, hx, hy, hz, ht, ?_⟩
  simp only [vx, vy, vz, vt]
  exact EdAlg.p1p1_to_full rep

/-- `GeP1P1::to_partial` -/
theorem to_partial_ok (r : GeP1P1) (P : Point) (h : P1P1Ok r P) : ∃ g, r.to_partial = some g ∧ PartialOk g P := by
  obtain ⟨tx, ty, tz, tt, rep⟩ := h
  simp only [GeP1P1.to_partial]
  obtain ⟨x, e, hx, vx⟩ := mul_ok r.x r.t tx tt; rw [e, some_bind]
  obtain ⟨y, e, hy, vy⟩ := mul_ok r.y r.z ty tz; rw [e, some_bind]
  obtain ⟨z, e, hz, vz⟩ := mul_ok r.z r.t tz tt; rw [e, some_bind]
  refine ⟨_, rfl, hx, hy, hz, ?_⟩
  simp only [vx, vy, vz]
  exact EdAlg.p1p1_to_partial rep

/-- `Ge::to_cached`: `y+x`, `y−x` have weight 2 -/
theorem to_cached_ok (g : Ge) (P : Point) (h : GeOk g P) : ∃ c, g.to_cached = some c ∧ CachedOk c P := by
  obtain ⟨tx, ty, tz, tt, rep⟩ := h
  simp only [Ge.to_cached]
  obtain ⟨a, e, ha, va⟩ := add_ok g.y g.x ty tx; rw [e, some_bind]
  obtain ⟨b, e, hb, vb⟩ := sub_ok g.y g.x ty tx; rw [e, some_bind]
  obtain ⟨c, e, hc, vc⟩ := mul_ok g.t Fe.D2 tt.w3 tight_D2.w3; rw [e, some_bind]
  refine ⟨_, rfl, ha, hb, tz, hc, ?_⟩
  simp only [va, vb, vc, ev_D2]
  exact EdAlg.to_cached rep

/-- `impl Add<&GeCached> for &Ge` computes the affine sum of the represented curve points.
    Weights: (y1±x1) 2 · (y2±x2) 2 → a, b 1;  d = 2·zz 2;  x3, y3 = a ∓ b 2;  z3, t3 = d ± c 3 -/
theorem add_cached_ok (g : Ge) (c : GeCached) (P Q : Point) (hg : GeOk g P) (hc : CachedOk c Q)
    (hP : OnCurve P) (hQ : OnCurve Q) :
    ∃ r, g.add_cached c = some r ∧ P1P1Ok r (Edwards.add P Q) := by
  obtain ⟨tx, ty, tz, tt, rep⟩ := hg
  obtain ⟨cp, cm, cz, ct, crep⟩ := hc
  obtain ⟨dp, dm⟩ := denoms P Q hP hQ
  simp only [Ge.add_cached]
  obtain ⟨s1, e, hs1, v1⟩ := add_ok g.y g.x ty tx; rw [e, some_bind]
  obtain ⟨s2, e, hs2, v2⟩ := sub_ok g.y g.x ty tx; rw [e, some_bind]
  obtain ⟨a, e, ha, va⟩ := mul_ok s1 c.y_plus_x hs1.w3 cp.w3; rw [e, some_bind]
  obtain ⟨b, e, hb, vb⟩ := mul_ok s2 c.y_minus_x hs2.w3 cm.w3; rw [e, some_bind]
  obtain ⟨cc, e, hcc, vc⟩ := mul_ok c.t2d g.t ct.w3 tt.w3; rw [e, some_bind]
  obtain ⟨zz, e, hzz, vzz⟩ := mul_ok g.z c.z tz.w3 cz.w3; rw [e, some_bind]
  obtain ⟨d, e, hd, vd⟩ := add_ok zz zz hzz hzz; rw [e, some_bind]
  obtain ⟨x3, e, hx3, vx3⟩ := sub_ok a b ha hb; rw [e, some_bind]
  obtain ⟨y3, e, hy3, vy3⟩ := add_ok a b ha hb; rw [e, some_bind]
  obtain ⟨z3, e, hz3, vz3⟩ := add_ok d cc hd hcc; rw [e, some_bind]
  obtain ⟨t3, e, ht3, vt3⟩ := sub_ok d cc hd hcc; rw [e, some_bind]
  refine ⟨_, rfl, hx3.w3, hy3.w3, hz3.w3, ht3.w3, ?_⟩
  simp only [vx3, vy3, vz3, vt3, va, vb, vc, vd, vzz, v1, v2, cast_add_x, cast_add_y]
  exact EdAlg.add_cached two_ne_zero rep crep dp dm

theorem cast_neg_x (Q : Point) : ((Edwards.neg Q).x : Fp) = -(Q.x : Fp) := by
  unfold Edwards.neg; simp only [cast_neg]
theorem cast_neg_y (Q : Point) : ((Edwards.neg Q).y : Fp) = (Q.y : Fp) := by
  unfold Edwards.neg; simp only [edp, cast_mod]

/-- `impl Sub<&GeCached> for &Ge` computes `P − Q` -/
theorem sub_cached_ok (g : Ge) (c : GeCached) (P Q : Point) (hg : GeOk g P) (hc : CachedOk c Q)
    (hP : OnCurve P) (hQ : OnCurve Q) :
    ∃ r, g.sub_cached c = some r ∧ P1P1Ok r (Edwards.sub P Q) := by
  obtain ⟨tx, ty, tz, tt, rep⟩ := hg
  obtain ⟨cp, cm, cz, ct, crep⟩ := hc
  obtain ⟨dp, dm⟩ := denoms P (Edwards.neg Q) hP (neg_onCurve Q hQ)
  rw [cast_neg_x, cast_neg_y] at dp dm
  simp only [Ge.sub_cached]
  obtain ⟨s1, e, hs1, v1⟩ := add_ok g.y g.x ty tx; rw [e, some_bind]
  obtain ⟨s2, e, hs2, v2⟩ := sub_ok g.y g.x ty tx; rw [e, some_bind]
  obtain ⟨a, e, ha, va⟩ := mul_ok s1 c.y_minus_x hs1.w3 cm.w3; rw [e, some_bind]
  obtain ⟨b, e, hb, vb⟩ := mul_ok s2 c.y_plus_x hs2.w3 cp.w3; rw [e, some_bind]
  obtain ⟨cc, e, hcc, vc⟩ := mul_ok c.t2d g.t ct.w3 tt.w3; rw [e, some_bind]
  obtain ⟨zz, e, hzz, vzz⟩ := mul_ok g.z c.z tz.w3 cz.w3; rw [e, some_bind]
  obtain ⟨d, e, hd, vd⟩ := add_ok zz zz hzz hzz; rw [e, some_bind]
  obtain ⟨x3, e, hx3, vx3⟩ := sub_ok a b ha hb; rw [e, some_bind]
  obtain ⟨y3, e, hy3, vy3⟩ := add_ok a b ha hb; rw [e, some_bind]
  obtain ⟨z3, e, hz3, vz3⟩ := sub_ok d cc hd hcc; rw [e, some_bind]
  obtain ⟨t3, e, ht3, vt3⟩ := add_ok d cc hd hcc; rw [e, some_bind]
  refine ⟨_, rfl, hx3.w3, hy3.w3, hz3.w3, ht3.w3, ?_⟩
  unfold Edwards.sub
  simp only [vx3, vy3, vz3, vt3, va, vb, vc, vd, vzz, v1, v2, cast_add_x, cast_add_y, cast_neg_x, cast_neg_y]
  exact EdAlg.sub_cached two_ne_zero rep crep dp dm

/-- `impl Add<&GePrecomp> for &Ge` -/
theorem add_precomp_ok (g : Ge) (c : GePrecomp) (P Q : Point) (hg : GeOk g P) (hc : PrecompOk c Q)
    (hP : OnCurve P) (hQ : OnCurve Q) :
    ∃ r, g.add_precomp c = some r ∧ P1P1Ok r (Edwards.add P Q) := by
  obtain ⟨tx, ty, tz, tt, rep⟩ := hg
  obtain ⟨cp, cm, ct, crep⟩ := hc
  obtain ⟨dp, dm⟩ := denoms P Q hP hQ
  simp only [Ge.add_precomp]
  obtain ⟨s1, e, hs1, v1⟩ := add_ok g.y g.x ty tx; rw [e, some_bind]
  obtain ⟨s2, e, hs2, v2⟩ := sub_ok g.y g.x ty tx; rw [e, some_bind]
  obtain ⟨a, e, ha, va⟩ := mul_ok s1 c.y_plus_x hs1.w3 cp.w3; rw [e, some_bind]
  obtain ⟨b, e, hb, vb⟩ := mul_ok s2 c.y_minus_x hs2.w3 cm.w3; rw [e, some_bind]
  obtain ⟨cc, e, hcc, vc⟩ := mul_ok c.xy2d g.t ct.w3 tt.w3; rw [e, some_bind]
  obtain ⟨d, e, hd, vd⟩ := add_ok g.z g.z tz tz; rw [e, some_bind]
  obtain ⟨x3, e, hx3, vx3⟩ := sub_ok a b ha hb; rw [e, some_bind]
  obtain ⟨y3, e, hy3, vy3⟩ := add_ok a b ha hb; rw [e, some_bind]
  obtain ⟨z3, e, hz3, vz3⟩ := add_ok d cc hd hcc; rw [e, some_bind]
  obtain ⟨t3, e, ht3, vt3⟩ := sub_ok d cc hd hcc; rw [e, some_bind]
  refine ⟨_, rfl, hx3.w3, hy3.w3, hz3.w3, ht3.w3, ?_⟩
  simp only [vx3, vy3, vz3, vt3, va, vb, vc, vd, v1, v2, cast_add_x, cast_add_y]
  have := EdAlg.add_cached two_ne_zero rep (EdAlg.precomp_as_cached crep) dp dm
  simp only [mul_one] at this
  exact this

/-- `impl Sub<&GePrecomp> for &Ge` -/
theorem sub_precomp_ok (g : Ge) (c : GePrecomp) (P Q : Point) (hg : GeOk g P) (hc : PrecompOk c Q)
    (hP : OnCurve P) (hQ : OnCurve Q) :
    ∃ r, g.sub_precomp c = some r ∧ P1P1Ok r (Edwards.sub P Q) := by
  obtain ⟨tx, ty, tz, tt, rep⟩ := hg
  obtain ⟨cp, cm, ct, crep⟩ := hc
  obtain ⟨dp, dm⟩ := denoms P (Edwards.neg Q) hP (neg_onCurve Q hQ)
  rw [cast_neg_x, cast_neg_y] at dp dm
  simp only [Ge.sub_precomp]
  obtain ⟨s1, e, hs1, v1⟩ := add_ok g.y g.x ty tx; rw [e, some_bind]
  obtain ⟨s2, e, hs2, v2⟩ := sub_ok g.y g.x ty tx; rw [e, some_bind]
  obtain ⟨a, e, ha, va⟩ := mul_ok s1 c.y_minus_x hs1.w3 cm.w3; rw [e, some_bind]
  obtain ⟨b, e, hb, vb⟩ := mul_ok s2 c.y_plus_x hs2.w3 cp.w3; rw [e, some_bind]
  obtain ⟨cc, e, hcc, vc⟩ := mul_ok c.xy2d g.t ct.w3 tt.w3; rw [e, some_bind]
  obtain ⟨d, e, hd, vd⟩ := add_ok g.z g.z tz tz; rw [e, some_bind]
  obtain ⟨x3, e, hx3, vx3⟩ := sub_ok a b ha hb; rw [e, some_bind]
  obtain ⟨y3, e, hy3, vy3⟩ := add_ok a b ha hb; rw [e, some_bind]
  obtain ⟨z3, e, hz3, vz3⟩ := sub_ok d cc hd hcc; rw [e, some_bind]
  obtain ⟨t3, e, ht3, vt3⟩ := add_ok d cc hd hcc; rw [e, some_bind]
  refine ⟨_, rfl, hx3.w3, hy3.w3, hz3.w3, ht3.w3, ?_⟩
  unfold Edwards.sub
  simp only [vx3, vy3, vz3, vt3, va, vb, vc, vd, v1, v2, cast_add_x, cast_add_y, cast_neg_x, cast_neg_y]
  have := EdAlg.sub_cached two_ne_zero rep (EdAlg.precomp_as_cached crep) dp dm
  simp only [mul_one] at this
  exact this

/-- the doubling formulas shared by `Ge::double_p1p1` and `GePartial::double_p1p1`.
    Weights: xx, yy, b, aa 1;  a = x+y 2;  y3 = yy+xx, z3 = yy−xx 2;  x3 = aa − y3, t3 = b − z3 3 -/
theorem double_p1p1_xyz_ok (x y z : Fe) (P : Point) (tx : W 1 x) (ty : W 1 y) (tz : W 1 z)
    (rep : EdAlg.RepProj (ev x) (ev y) (ev z) (P.x : Fp) (P.y : Fp)) (hP : OnCurve P) :
    ∃ r, double_p1p1_xyz x y z = some r ∧ P1P1Ok r (Edwards.double P) := by
  obtain ⟨dp, dm⟩ := denoms P P hP hP
  simp only [double_p1p1_xyz]
  obtain ⟨xx, e, hxx, vxx⟩ := square_ok x tx.w3; rw [e, some_bind]
  obtain ⟨yy, e, hyy, vyy⟩ := square_ok y ty.w3; rw [e, some_bind]
  obtain ⟨b, e, hb, vb⟩ := sqd_ok z tz.w3; rw [e, some_bind]
  obtain ⟨a, e, ha, va⟩ := add_ok x y tx ty; rw [e, some_bind]
  obtain ⟨aa, e, haa, vaa⟩ := square_ok a ha.w3; rw [e, some_bind]
  obtain ⟨y3, e, hy3, vy3⟩ := add_ok yy xx hyy hxx; rw [e, some_bind]
  obtain ⟨z3, e, hz3, vz3⟩ := sub_ok yy xx hyy hxx; rw [e, some_bind]
  obtain ⟨x3, e, hx3, vx3⟩ := sub_ok aa y3 haa hy3; rw [e, some_bind]
  obtain ⟨t3, e, ht3, vt3⟩ := sub_ok b z3 hb hz3; rw [e, some_bind]
  refine ⟨_, rfl, hx3.w3, hy3.w3, hz3.w3, ht3.w3, ?_⟩
  unfold Edwards.double
  simp only [vx3, vy3, vz3, vt3, vaa, va, vb, vxx, vyy, cast_add_x, cast_add_y]
  exact EdAlg.double_p1p1 rep ((onCurve_iff P).1 hP).2.2 dp dm

theorem ge_double_p1p1_ok (g : Ge) (P : Point) (hg : GeOk g P) (hP : OnCurve P) :
    ∃ r, g.double_p1p1 = some r ∧ P1P1Ok r (Edwards.double P) :=
  double_p1p1_xyz_ok g.x g.y g.z P hg.tx hg.ty hg.tz hg.rep.toProj hP

theorem partial_double_p1p1_ok (g : GePartial) (P : Point) (hg : PartialOk g P) (hP : OnCurve P) :
    ∃ r, g.double_p1p1 = some r ∧ P1P1Ok r (Edwards.double P) :=
  double_p1p1_xyz_ok g.x g.y g.z P hg.tx hg.ty hg.tz hg.rep hP

/-- `Ge::negate` -/
theorem negate_ok (g : Ge) (P : Point) (hg : GeOk g P) : ∃ r, g.negate = some r ∧ GeOk r (Edwards.neg P) := by
  obtain ⟨tx, ty, tz, tt, rep⟩ := hg
  simp only [Ge.negate]
  obtain ⟨x, e, hx, vx⟩ := neg_ok g.x tx; rw [e, some_bind]
  obtain ⟨t, e, ht, vt⟩ := neg_ok g.t tt; rw [e, some_bind]
  refine ⟨_, rfl, hx, ty, tz, ht, ?_⟩
  simp only [vx, vt, cast_neg_x, cast_neg_y]
  exact EdAlg.negate rep

theorem ZERO_ok : GeOk Ge.ZERO Edwards.zero :=
  ⟨tight_ZERO, tight_ONE, tight_ONE, tight_ZERO, by
    show EdAlg.RepExt (ev Fe.ZERO) (ev Fe.ONE) (ev Fe.ONE) (ev Fe.ZERO) ((0 : Nat) : Fp) ((1 : Nat) : Fp)
    rw [ev_ZERO, ev_ONE]; push_cast; exact EdAlg.ext_zero⟩

theorem partial_ZERO_ok : PartialOk GePartial.ZERO Edwards.zero := ZERO_ok.toPartial

end prime

end Cx.Proofs.Ge32Refine
