/-
  Proofs.GlueSha2Drv — helper lemmas for the translator tie of the SHA-2 multi-block drivers (Props/C01/GlueTieSha2Drv.lean):
  the generated loops of `impl256::reference::digest_block` / `impl512::reference::digest_block` (Extracted/GlueSha2Drv.lean)
  against the hand models `Impl.Sha2.Impl256.digest_block_loop` / `Impl512.digest_block_loop`, for ANY pair of fuels that is
  adequate for the remaining input — so the main theorems also say that neither loop ever runs out of fuel — and this file's own
  copy of the `read_array_type!` readers against the models `read_u64v_be` / the little-endian words.  Core Lean only.
-/
import CxVerif.Extracted.GlueSha2Drv
import CxVerif.Proofs.GlueMd
import CxVerif.Proofs.KernelTieWords
namespace Cx.Proofs.GlueSha2Drv
open Cx Cx.Impl Cx.Impl.Sha2 Cx.Proofs.GlueMd Cx.Extracted.GlueSha2Drv

/-! ### the readers (same shape as Extracted/GlueMd.lean's: the generic `readLoop` of Proofs/GlueMd.lean) -/

theorem read_u64v_be_loop (input : Bytes) (SZ : Nat) : ∀ (cnt i : Nat) (dst : List UInt64) (x y : Nat),
    read_u64v_be_src_loop1 input SZ cnt i dst x y = readLoop beU64 input SZ cnt i dst x y := by
  intro cnt; induction cnt with
  | zero => intros; rfl
  | succ c ih =>
    intro i dst x y
    rw [read_u64v_be_src_loop1, readLoop]
    simp only [ih]
    cases Glue.slice input y (y + SZ) with
    | none => rfl
    | some t =>
      show (if (Glue.fill SZ (0 : UInt8)).length ≠ SZ then none else _) = (if (Glue.fill SZ (0 : UInt8)).length ≠ SZ then none else _)
      split
      · rfl
      · cases Glue.set_index dst x (beU64 t) <;> rfl

/-- `read_u64v_be` (this file's expansion of `read_array_type!`) = the model: the assert, then the big-endian words -/
theorem read_u64v_be_src_eq_model (dst : List UInt64) (input : Bytes) :
    read_u64v_be_src dst input = read_u64v_be dst.length input := by
  unfold read_u64v_be_src read_u64v_be
  by_cases h : dst.length * 8 = input.length
  · have h' : input.length = 8 * dst.length := by omega
    simp only [read_u64v_be_loop, Nat.sub_zero, readLoop_spec beU64 input 8 dst.length 0 dst 0 0 (by omega) (by omega), h, ne_eq,
      not_true_eq_false, ite_false, wordsBE64, chunks_eq_chunkList 8 (by decide) dst.length input h']
    simp
  · simp only [h, ne_eq, not_false_eq_true, ite_true]

theorem read_u64v_le_loop (input : Bytes) (SZ : Nat) : ∀ (cnt i : Nat) (dst : List UInt64) (x y : Nat),
    read_u64v_le_src_loop1 input SZ cnt i dst x y = readLoop leU64 input SZ cnt i dst x y := by
  intro cnt; induction cnt with
  | zero => intros; rfl
  | succ c ih =>
    intro i dst x y
    rw [read_u64v_le_src_loop1, readLoop]
    simp only [ih]
    cases Glue.slice input y (y + SZ) with
    | none => rfl
    | some t =>
      show (if (Glue.fill SZ (0 : UInt8)).length ≠ SZ then none else _) = (if (Glue.fill SZ (0 : UInt8)).length ≠ SZ then none else _)
      split
      · rfl
      · cases Glue.set_index dst x (leU64 t) <;> rfl

/-- `read_u64v_le` = the assert, then the little-endian words -/
theorem read_u64v_le_src_eq (dst : List UInt64) (input : Bytes) :
    read_u64v_le_src dst input = if dst.length * 8 ≠ input.length then none else some (wordsLE64 input) := by
  unfold read_u64v_le_src
  by_cases h : dst.length * 8 = input.length
  · have h' : input.length = 8 * dst.length := by omega
    simp only [read_u64v_le_loop, Nat.sub_zero, readLoop_spec leU64 input 8 dst.length 0 dst 0 0 (by omega) (by omega), h, ne_eq,
      not_true_eq_false, ite_false, wordsLE64, chunks_eq_chunkList 8 (by decide) dst.length input h']
    simp
  · simp only [h, ne_eq, not_false_eq_true, ite_true]

/-! ### slices -/

theorem slice_drop (b : Bytes) (i n : Nat) (hi : i ≤ b.length) :
    Glue.slice b i (i + n) = Cx.Impl.slice (b.drop i) 0 n := by
  unfold Glue.slice Cx.Impl.slice
  simp only [List.length_drop, Nat.le_add_right, true_and, Nat.zero_le, Nat.sub_zero, List.drop_zero, Nat.add_sub_cancel_left]
  by_cases h : i + n ≤ b.length
  · rw [if_pos h, if_pos (by omega)]
  · rw [if_neg h, if_neg (by omega)]

theorem slice_full {α : Type} (b : List α) : Glue.slice b 0 b.length = some b := by
  simp [Glue.slice]

theorem slice_tail (b : Bytes) (n : Nat) (h : n ≤ b.length) : Glue.slice b n b.length = some (b.drop n) := by
  simp only [Glue.slice, h, Nat.le_refl, and_self, if_true]
  rw [List.take_of_length_le (by rw [List.length_drop]; omega)]

theorem copy_full {α : Type} (d s : List α) (h : s.length = d.length) : Glue.copy_from_slice d 0 d.length s = some s := by
  simp [Glue.copy_from_slice, h]

/-! ### SHA-256: `while i < block.len() { digest_block_u32(state, &block[i..i + 64]); i += 64; }` -/

/-- the generated loop at offset `i` with fuel `fg` = the model loop on `block[i..]` with fuel `fm`, whenever both fuels cover the
    remaining `block.len() - i` bytes (64 bytes per unit; the model's test comes one step later) -/
theorem loop256 (block : Bytes) : ∀ (fm fg : Nat) (state : Spec.Sha2.W8 UInt32) (i : Nat),
    i ≤ block.length → block.length - i ≤ 64 * fg → block.length - i < 64 * fm →
    (Impl256.reference_digest_block_src_loop1 block fg state i).map Prod.fst
      = Impl.Sha2.Impl256.digest_block_loop fm state (block.drop i) := by
  intro fm
  induction fm with
  | zero => intro fg state i _ _ h; omega
  | succ m ih =>
    intro fg state i hi hg hm
    rw [Impl256.reference_digest_block_src_loop1.eq_def, Impl.Sha2.Impl256.digest_block_loop, List.length_drop]
    by_cases hlt : i < block.length
    · rw [if_pos hlt, if_neg (by omega)]
      cases fg with
      | zero => omega
      | succ g =>
        simp only []
        rw [slice_drop _ _ _ hi]
        cases hs : Cx.Impl.slice (block.drop i) 0 64 with
        | none => rfl
        | some t =>
          have hb : i + 64 ≤ block.length := by
            unfold Cx.Impl.slice at hs
            split at hs
            · rename_i h; rw [List.length_drop] at h; omega
            · cases hs
          simp only []
          cases Impl.Sha2.Impl256.digest_block_u32 state t with
          | none => rfl
          | some st2 =>
            simp only []
            rw [ih g st2 (i + 64) hb (by omega) (by omega), List.drop_drop]
    · have : i = block.length := by omega
      rw [if_neg hlt, if_pos (by omega)]; rfl

/-! ### SHA-512: `while !block.is_empty() { read_u64v_be(&mut block2[..], &block[0..128]); digest_block_u64(state, &block2);
    block = &block[128..]; }` -/

theorem loop512 : ∀ (fm fg : Nat) (block2 : List UInt64) (state : Spec.Sha2.W8 UInt64) (block : Bytes),
    block2.length = 16 → block.length ≤ 128 * fg → block.length < 128 * fm →
    (Impl512.reference_digest_block_src_loop1 fg block2 state block).map (fun r => r.2.1)
      = Impl.Sha2.Impl512.digest_block_loop fm state block := by
  intro fm
  induction fm with
  | zero => intro fg block2 state block _ _ h; omega
  | succ m ih =>
    intro fg block2 state block h2 hg hm
    rw [Impl512.reference_digest_block_src_loop1.eq_def, Impl.Sha2.Impl512.digest_block_loop]
    by_cases hz : block.length = 0
    · rw [if_neg (by simp [hz]), if_pos hz]; rfl
    · rw [if_pos (by simpa using hz), if_neg hz]
      cases fg with
      | zero => omega
      | succ g =>
        simp only []
        rw [slice_full, slice_eq]
        simp only []
        cases hs : Cx.Impl.slice block 0 128 with
        | none => rfl
        | some blk =>
          have hb : 128 ≤ block.length := by
            unfold Cx.Impl.slice at hs
            split at hs
            · rename_i h; omega
            · cases hs
          simp only []
          rw [read_u64v_be_src_eq_model, h2]
          cases hr : read_u64v_be 16 blk with
          | none => rfl
          | some w =>
            have hw : w.length = 16 := Cx.Proofs.KernelTieWords.read_u64v_be_length hr
            simp only []
            have hc := copy_full block2 w (by rw [hw, h2])
            rw [h2] at hc
            rw [hc]
            simp only []
            cases Impl.Sha2.Impl512.digest_block_u64 state w with
            | none => rfl
            | some st2 =>
              simp only []
              rw [slice_tail block 128 hb]
              simp only []
              exact ih g w st2 (block.drop 128) hw (by rw [List.length_drop]; omega) (by rw [List.length_drop]; omega)

/-! ### the drivers and the dispatchers that only reach them -/

/-- with ANY fuel that covers the input (one unit per 64 bytes suffices; the translator passes `block.len()`) the generated SHA-256 loop
    computes the model's `digest_block`: the generated `none` on fuel 0 is never reached -/
theorem loop256_any_fuel (state : Spec.Sha2.W8 UInt32) (block : Bytes) (fg : Nat) (hf : block.length ≤ 64 * fg) :
    (Impl256.reference_digest_block_src_loop1 block fg state 0).map Prod.fst = Impl.Sha2.Impl256.digest_block state block := by
  have h := loop256 block (block.length / 64 + 1) fg state 0 (Nat.zero_le _) (by omega) (by omega)
  rw [List.drop_zero] at h
  exact h

theorem reference256_eq_model (state : Spec.Sha2.W8 UInt32) (block : Bytes) :
    Impl256.reference_digest_block_src state block = Impl.Sha2.Impl256.digest_block state block := by
  rw [← loop256_any_fuel state block block.length (by omega)]
  unfold Impl256.reference_digest_block_src
  dsimp only
  cases Impl256.reference_digest_block_src_loop1 block block.length state 0 with
  | none => rfl
  | some r => rfl

theorem loop512_any_fuel (state : Spec.Sha2.W8 UInt64) (block : Bytes) (fg : Nat) (hf : block.length ≤ 128 * fg)
    (block2 : List UInt64) (h2 : block2.length = 16) :
    (Impl512.reference_digest_block_src_loop1 fg block2 state block).map (fun r => r.2.1)
      = Impl.Sha2.Impl512.digest_block state block :=
  loop512 (block.length / 128 + 1) fg block2 state block h2 hf (by omega)

theorem reference512_eq_model (state : Spec.Sha2.W8 UInt64) (block : Bytes) :
    Impl512.reference_digest_block_src state block = Impl.Sha2.Impl512.digest_block state block := by
  rw [← loop512_any_fuel state block block.length (by omega) (Glue.fill 16 (0 : UInt64)) (by simp [Glue.fill])]
  unfold Impl512.reference_digest_block_src
  dsimp only
  cases Impl512.reference_digest_block_src_loop1 block.length (Glue.fill 16 (0 : UInt64)) state block with
  | none => rfl
  | some r => rfl

theorem dispatch256_baseline_eq_model (state : Spec.Sha2.W8 UInt32) (block : Bytes) :
    Impl256.digest_block_baseline_src state block = Impl.Sha2.Impl256.digest_block state block :=
  reference256_eq_model state block

theorem dispatch512_baseline_eq_model (state : Spec.Sha2.W8 UInt64) (block : Bytes) :
    Impl512.digest_block_baseline_src state block = Impl.Sha2.Impl512.digest_block state block :=
  reference512_eq_model state block

end Cx.Proofs.GlueSha2Drv
