/-
  Proofs.HashLen — helper lemmas of unit `hashlen`: the refinement of the Merkle–Damgård contexts generalised from
  "counter starts at 0" to "counter starts at a block-aligned N" (the verification hook `verif_set_processed_bytes`).

    lenField64 / lenField128 / lenFieldSplit   the code's length bytes for a counter `x % 2^64` (`% 2^128`) are the
                                               encoding of the low 64 (128) bits of `8·x` — for EVERY x
    leNat_natToLE / beNat_natToBE              decoding an n-byte LE / BE encoding returns the value mod 256^n
    padZeros_add_aligned                       a block-aligned prefix does not change the number of zero bytes
    tail_split                                 step lemma: fold over the padded tail after the full blocks of `m`
    AbsN256 / AbsN512 / AbsNSha1 / AbsNRmd     abstraction relations "counter started at P, absorbed msg since"
    hlen256_eq / hlen512_eq / hlenSha1_eq / hlenRipemd160_eq     preset N; update m; finalize = Spec tail digest
    blockTail_aligned, tailHash_append         `tailHash` after the chain over a prefix = `MD.hash` of the whole
  The abstraction lemmas reuse `input_spec`, `md_finish_spec`, `md_finish_with_spec`, `md_hash_split`,
  `finish256_eq`, `finish512_eq`, `mk_result_eq`, `finalize_reset_eq` of the C01 proofs unchanged.  Core Lean only.
-/
import CxVerif.Proofs.FixedBuffer
import CxVerif.Proofs.Sha2Engine
import CxVerif.Proofs.Sha2Tables
import CxVerif.Proofs.Sha1Stream
import CxVerif.Proofs.Ripemd160Stream
import CxVerif.Impl.HashLen
namespace Cx.Proofs.HashLen
open Cx Cx.Impl Cx.Proofs.FB Cx.Spec.HashLen
open Cx.Spec.MD (padZeros)

/-! ### the length fields, for every counter value -/

/-- `(processed_bytes << 3).to_be_bytes()` with `processed_bytes = x mod 2^64`: the low 64 bits of `8·x` -/
theorem lenField64 (x : Nat) : len_be64 (x % 2 ^ 64) = Cx.Spec.MD.be64 ((8 * x) % 2 ^ (8 * 8)) := by
  unfold len_be64 Cx.Spec.MD.be64
  congr 1
  have : (2 : Nat) ^ (8 * 8) = 2 ^ 64 := rfl
  rw [this]; omega

theorem lenField128 (x : Nat) : len_be128 (x % 2 ^ 128) = Cx.Spec.MD.be128 ((8 * x) % 2 ^ (8 * 16)) := by
  unfold len_be128 Cx.Spec.MD.be128
  congr 1
  have : (2 : Nat) ^ (8 * 16) = 2 ^ 128 := rfl
  rw [this]; omega

/-- RIPEMD-160: `(pb << 3) as u32` then `(pb >> 29) as u32`, little-endian one after the other, with
    `pb = x mod 2^64`: the 64-bit little-endian encoding of the low 64 bits of `8·x` -/
theorem lenFieldSplit (x : Nat) :
    (len_le64_split (x % 2 ^ 64)).1 ++ (len_le64_split (x % 2 ^ 64)).2
      = Cx.Spec.MD.le64 ((8 * x) % 2 ^ (8 * 8)) := by
  have e : (2 : Nat) ^ (8 * 8) = 2 ^ 64 := rfl
  rw [e]
  unfold len_le64_split Cx.Spec.MD.le64
  simp only [natToLE, List.cons_append, List.nil_append]
  generalize hy : x % 2 ^ 64 = y
  repeat (first | rfl | (rw [List.cons.injEq]; refine ⟨congrArg UInt8.ofNat (by omega), ?_⟩))

/-! ### the length encodings lose nothing: decoding gives the value back -/

theorem leNat_natToLE (n v : Nat) : leNat (natToLE n v) = v % 256 ^ n := by
  induction n generalizing v with
  | zero => simp [natToLE, leNat, Nat.mod_one]
  | succ n ih =>
    simp only [natToLE, leNat, ih]
    have : (UInt8.ofNat (v % 256)).toNat = v % 256 := by simp
    rw [this, Nat.pow_succ, Nat.mul_comm (256 ^ n) 256, Nat.mod_mul]

theorem beNat_reverse (l : Bytes) : beNat l.reverse = leNat l := by
  unfold beNat
  rw [List.foldl_reverse]
  induction l with
  | nil => rfl
  | cons b bs ih => simp only [List.foldr_cons, leNat, ih]; omega

theorem beNat_natToBE (n v : Nat) : beNat (natToBE n v) = v % 256 ^ n := by
  unfold natToBE; rw [beNat_reverse, leNat_natToLE]

/-! ### padding after a block-aligned prefix -/

theorem padZeros_add_aligned {B L N len : Nat} (hN : N % B = 0) : padZeros B L (N + len) = padZeros B L len := by
  rw [← padZeros_mod (a := N + len), Nat.add_mod, hN, Nat.zero_add, Nat.mod_mod, padZeros_mod]

/-- the padding of the buffered tail, folded after the full blocks of `m`, is the fold over the blocks of
    `m ‖ 0x80 ‖ 0^z ‖ lenBytes` with `z` computed from the TOTAL length `N + |m|` (N block-aligned) -/
theorem tail_split {σ : Type} {B : Nat} (hB : 0 < B) (L : Nat) (compress : σ → Bytes → σ) (cv : σ)
    (lenBytes : Bytes) (N : Nat) (hN : N % B = 0) (m : Bytes) :
    (fullBlocks B (blockTail B m ++ [(0x80 : UInt8)] ++ zeros (padZeros B L (blockTail B m).length)
        ++ lenBytes)).foldl compress ((fullBlocks B m).foldl compress cv)
      = (fullBlocks B (m ++ [(0x80 : UInt8)] ++ zeros (padZeros B L (N + m.length)) ++ lenBytes)).foldl compress cv := by
  have h := md_hash_split hB L compress cv (fun _ => lenBytes) m
  rw [h, padZeros_add_aligned hN]
  rfl

theorem blockTail_aligned {B : Nat} (P : Bytes) (hP : P.length % B = 0) : blockTail B P = [] := by
  unfold blockTail
  have : P.length / B * B = P.length := by
    have := Nat.div_add_mod P.length B
    rw [hP, Nat.add_zero, Nat.mul_comm] at this; exact this
  rw [this, List.drop_length]

/-- **what `tailHash` means**: started from the chaining value reached after a block-aligned prefix `P`, it
    finishes the standard hash of `P ‖ m` — provided the total bit length fits the length field (the standard's
    domain), where the reduction `% 2^(8·L)` of the Spec is the identity -/
theorem tailHash_append {σ : Type} {B : Nat} (hB : 0 < B) (L : Nat) (lenEnc : Nat → Bytes)
    (compress : σ → Bytes → σ) (iv : σ) (P m : Bytes) (hP : P.length % B = 0)
    (hdom : 8 * (P.length + m.length) < 2 ^ (8 * L)) :
    tailHash B L lenEnc compress ((fullBlocks B P).foldl compress iv) P.length m
      = Cx.Spec.MD.hash B L lenEnc compress iv (P ++ m) := by
  unfold tailHash tailPad Cx.Spec.MD.hash Cx.Spec.MD.pad
  rw [Nat.mod_eq_of_lt hdom, List.length_append]
  have e : P ++ m ++ [(0x80 : UInt8)] ++ zeros (padZeros B L (P.length + m.length))
        ++ lenEnc (8 * (P.length + m.length))
      = P ++ (m ++ [(0x80 : UInt8)] ++ zeros (padZeros B L (P.length + m.length))
        ++ lenEnc (8 * (P.length + m.length))) := by simp [List.append_assoc]
  rw [e, fullBlocks_append hB P, List.foldl_append, blockTail_aligned P hP, List.nil_append]

/-! ### SHA-224/256 -/

open Cx.Spec.Sha2 Cx.Impl.Sha2 Cx.Proofs.Sha2Engine in
/-- engine `e` (chaining IV `iv`) had its counter preset to `P` and has absorbed exactly `msg` since -/
def AbsN256 (iv : W8 UInt32) (P : Nat) (e : Engine256) (msg : Bytes) : Prop :=
  e.processed_bytes = (P + msg.length) % 2 ^ 64 ∧ WF 64 e.buffer ∧ e.buffer.data = blockTail 64 msg
  ∧ e.state = ⟨(fullBlocks 64 msg).foldl compress256 iv⟩ ∧ e.finished = false

section sha256
open Cx.Spec.Sha2 Cx.Impl.Sha2 Cx.Proofs.Sha2Engine Cx.Impl.HashLen

theorem absN256_preset (A : Alg256) (N : Nat) :
    AbsN256 A.state N (Ctx256.verif_set_processed_bytes (Ctx256.new A) N).engine [] := by
  refine ⟨?_, new_WF (by decide), ?_, rfl, rfl⟩
  · simp only [Ctx256.verif_set_processed_bytes, List.length_nil]; omega
  · simp [Ctx256.verif_set_processed_bytes, Ctx256.new, Engine256.new, new_data, blockTail]

theorem absN256_input (iv : W8 UInt32) (P : Nat) (e : Engine256) (msg inp : Bytes) (h : AbsN256 iv P e msg) :
    ∃ e', e.input inp = some e' ∧ AbsN256 iv P e' (msg ++ inp) := by
  obtain ⟨hp, hw, hd, hs, hf⟩ := h
  obtain ⟨b', eq, hw', hd'⟩ := input_spec (by decide) e.buffer inp Eng256.Engine.blocks compressE256 e.state hw
    blocks256_isBlocks
  unfold Engine256.input
  simp only [hf, Bool.false_eq_true, if_false, eq]
  refine ⟨_, rfl, ?_, hw', ?_, ?_, rfl⟩
  · simp only [hp, List.length_append]; omega
  · rw [hd', hd, ← blockTail_append (by decide)]
  · simp only [hs, hd]
    rw [foldl_compressE256, fullBlocks_append (by decide) msg, List.foldl_append]

/-- `finish` after a block-aligned preset: the state becomes the Spec's tail chain value — for EVERY total (the
    model's counter wraps like the release build; the Spec takes the low 64 bits of the bit length) -/
theorem absN256_finish (iv : W8 UInt32) (P : Nat) (hP : P % 64 = 0) (e : Engine256) (msg : Bytes)
    (h : AbsN256 iv P e msg) :
    ∃ e', e.finish = some e' ∧ e'.state = ⟨tail256 iv P msg⟩ := by
  obtain ⟨hp, hw, hd, hs, hf⟩ := h
  obtain ⟨b', eq, _, _⟩ := md_finish_spec (N := 64) (rem := 8) (by decide) (by decide) e.buffer
    (len_be64 e.processed_bytes) (len_be64_length _) Eng256.Engine.blocks compressE256 e.state hw
    (blocks256_isBlocks.one (by decide))
  rw [finish256_eq e hf, eq]
  refine ⟨_, rfl, ?_⟩
  simp only [hs, hd, hp, lenField64]
  rw [foldl_compressE256, tail_split (by decide) 8 compress256 iv _ P hP msg]
  rfl

theorem hlen256_eq (A : Alg256) (trunc : Bytes → Bytes) (hout : OutOK256 A trunc) (N : Nat) (hN : N % 64 = 0)
    (m : Bytes) : hlen256 A N m = some (trunc (wordsToBytes32 (tail256 A.state N m))) := by
  obtain ⟨e1, he1, hA1⟩ := absN256_input A.state N _ [] m (absN256_preset A N)
  simp only [List.nil_append] at hA1
  obtain ⟨e2, he2, hs⟩ := absN256_finish A.state N hN e1 m hA1
  simp [hlen256, Ctx256.update, he1, Ctx256.finalize, he2, hs, hout _]

end sha256

/-! ### SHA-384/512/512-224/512-256 -/

open Cx.Spec.Sha2 Cx.Impl.Sha2 in
def AbsN512 (iv : W8 UInt64) (P : Nat) (e : Engine512) (msg : Bytes) : Prop :=
  e.processed_bytes = (P + msg.length) % 2 ^ 128 ∧ WF 128 e.buffer ∧ e.buffer.data = blockTail 128 msg
  ∧ e.state = ⟨(fullBlocks 128 msg).foldl compress512 iv⟩

section sha512
open Cx.Spec.Sha2 Cx.Impl.Sha2 Cx.Proofs.Sha2Engine Cx.Impl.HashLen

theorem absN512_preset (A : Alg512) (N : Nat) :
    AbsN512 A.state N (Ctx512.verif_set_processed_bytes (Ctx512.new A) N).engine [] := by
  refine ⟨?_, new_WF (by decide), ?_, rfl⟩
  · simp only [Ctx512.verif_set_processed_bytes, List.length_nil]; omega
  · simp [Ctx512.verif_set_processed_bytes, Ctx512.new, Engine512.new, new_data, blockTail]

theorem absN512_input (iv : W8 UInt64) (P : Nat) (e : Engine512) (msg inp : Bytes) (h : AbsN512 iv P e msg) :
    ∃ e', e.input inp = some e' ∧ AbsN512 iv P e' (msg ++ inp) := by
  obtain ⟨hp, hw, hd, hs⟩ := h
  obtain ⟨b', eq, hw', hd'⟩ := input_spec (by decide) e.buffer inp Eng512.Engine.blocks compressE512 e.state hw
    (blocks512_isBlocks compress512_ok)
  unfold Engine512.input
  simp only [eq]
  refine ⟨_, rfl, ?_, hw', ?_, ?_⟩
  · simp only [hp, List.length_append]; omega
  · rw [hd', hd, ← blockTail_append (by decide)]
  · simp only [hs, hd]
    rw [foldl_compressE512, fullBlocks_append (by decide) msg, List.foldl_append]

theorem absN512_finish (iv : W8 UInt64) (P : Nat) (hP : P % 128 = 0) (e : Engine512) (msg : Bytes)
    (h : AbsN512 iv P e msg) :
    ∃ e', e.finish = some e' ∧ e'.state = ⟨tail512 iv P msg⟩ := by
  obtain ⟨hp, hw, hd, hs⟩ := h
  obtain ⟨b', eq, _, _⟩ := md_finish_spec (N := 128) (rem := 16) (by decide) (by decide) e.buffer
    (len_be128 e.processed_bytes) (len_be128_length _) Eng512.Engine.blocks compressE512 e.state hw
    ((blocks512_isBlocks compress512_ok).one (by decide))
  rw [finish512_eq e, eq]
  refine ⟨_, rfl, ?_⟩
  simp only [hs, hd, hp, lenField128]
  rw [foldl_compressE512, tail_split (by decide) 16 compress512 iv _ P hP msg]
  rfl

theorem hlen512_eq (A : Alg512) (n : Nat) (hout : OutOK512 A n) (N : Nat) (hN : N % 128 = 0)
    (m : Bytes) : hlen512 A N m = some ((wordsToBytes64 (tail512 A.state N m)).take n) := by
  obtain ⟨e1, he1, hA1⟩ := absN512_input A.state N _ [] m (absN512_preset A N)
  simp only [List.nil_append] at hA1
  obtain ⟨e2, he2, hs⟩ := absN512_finish A.state N hN e1 m hA1
  simp [hlen512, Ctx512.update, he1, Ctx512.finalize, he2, hs, hout _]

end sha512

/-! ### SHA-1 -/

section sha1
open Cx.Impl.Sha1 Cx.Proofs.Sha1Stream Cx.Impl.HashLen
open Cx.Spec.Sha1 (Hash compressBytes H0)

def AbsNSha1 (P : Nat) (c : Context) (msg : Bytes) : Prop :=
  c.processed_bytes.toNat = (P + msg.length) % 2 ^ 64 ∧ WF 64 c.buffer ∧ c.buffer.data = blockTail 64 msg
  ∧ c.h = (fullBlocks 64 msg).foldl compressBytes H0

theorem absNSha1_preset (N : Nat) :
    AbsNSha1 N (Sha1Ctx.verif_set_processed_bytes Context.new (UInt64.ofNat N)) [] := by
  refine ⟨?_, new_WF (by decide), ?_, ?_⟩
  · simp [Sha1Ctx.verif_set_processed_bytes]
  · simp [Sha1Ctx.verif_set_processed_bytes, Context.new, new_data, blockTail]
  · simp [Sha1Ctx.verif_set_processed_bytes, Context.new, Cx.Proofs.Sha1.H_eq, fullBlocks, takeBlocks]

theorem absNSha1_update (P : Nat) (c : Context) (msg inp : Bytes) (h : AbsNSha1 P c msg) :
    ∃ c', c.update_mut inp = some c' ∧ AbsNSha1 P c' (msg ++ inp) := by
  obtain ⟨hp, hw, hd, hs⟩ := h
  obtain ⟨b', eq, hw', hd'⟩ := input_spec (by decide) c.buffer inp digest_blocks compressBytes c.h hw
    digest_blocks_spec
  unfold Context.update_mut
  simp only [eq]
  refine ⟨_, rfl, ?_, hw', ?_, ?_⟩
  · simp only [UInt64.toNat_add, UInt64.toNat_ofNat', hp, List.length_append]
    omega
  · rw [hd', hd, ← blockTail_append (by decide)]
  · simp only [hs, hd]
    rw [fullBlocks_append (by decide) msg, List.foldl_append]

theorem absNSha1_mk_result (P : Nat) (hP : P % 64 = 0) (c : Context) (msg : Bytes) (h : AbsNSha1 P c msg) :
    ∃ c', Context.mk_result c
      = some (c', (tailHash 64 8 Cx.Spec.MD.be64 compressBytes H0 P msg).toBytes) := by
  obtain ⟨hp, hw, hd, hs⟩ := h
  obtain ⟨b', eq, _, _⟩ := md_finish_spec (N := 64) (rem := 8) (by decide) (by decide) c.buffer
    (len_be64 c.processed_bytes.toNat) (len_be64_length _) digest_block compressBytes c.h hw digest_block_spec
  rw [mk_result_eq, eq]
  have hX : (fullBlocks 64 (c.buffer.data ++ [(128 : UInt8)] ++ zeros (Cx.Spec.MD.padZeros 64 8 c.buffer.data.length) ++
      len_be64 c.processed_bytes.toNat)).foldl compressBytes c.h
        = tailHash 64 8 Cx.Spec.MD.be64 compressBytes H0 P msg := by
    rw [hs, hd, hp, lenField64, tail_split (by decide) 8 compressBytes H0 _ P hP msg]
    rfl
  rw [hX]
  exact ⟨_, rfl⟩

theorem hlenSha1_eq (N : Nat) (hN : N % 64 = 0) (m : Bytes) :
    hlenSha1 (UInt64.ofNat N) m = some ((tailHash 64 8 Cx.Spec.MD.be64 compressBytes H0 N m).toBytes) := by
  obtain ⟨c1, h1, hA⟩ := absNSha1_update N _ [] m (absNSha1_preset N)
  simp only [List.nil_append] at hA
  obtain ⟨c2, h2⟩ := absNSha1_mk_result N hN c1 m hA
  simp [hlenSha1, Context.update, h1, Context.finalize, h2]

end sha1

/-! ### RIPEMD-160 -/

section ripemd160
open Cx.Impl.Ripemd160 Cx.Proofs.Ripemd160Stream Cx.Impl.HashLen
open Cx.Spec.Ripemd160 (Hash compressBytes H0)

def AbsNRmd (P : Nat) (c : Context) (msg : Bytes) : Prop :=
  c.processed_bytes.toNat = (P + msg.length) % 2 ^ 64 ∧ WF 64 c.buffer ∧ c.buffer.data = blockTail 64 msg
  ∧ c.h = (fullBlocks 64 msg).foldl compressBytes H0

theorem absNRmd_preset (N : Nat) :
    AbsNRmd N (RipemdCtx.verif_set_processed_bytes Context.new (UInt64.ofNat N)) [] := by
  refine ⟨?_, new_WF (by decide), ?_, ?_⟩
  · simp [RipemdCtx.verif_set_processed_bytes]
  · simp [RipemdCtx.verif_set_processed_bytes, Context.new, new_data, blockTail]
  · simp [RipemdCtx.verif_set_processed_bytes, Context.new, Cx.Proofs.Ripemd160.H_eq, fullBlocks, takeBlocks]

theorem absNRmd_update (P : Nat) (c : Context) (msg inp : Bytes) (h : AbsNRmd P c msg) :
    ∃ c', c.update_mut inp = some c' ∧ AbsNRmd P c' (msg ++ inp) := by
  obtain ⟨hp, hw, hd, hs⟩ := h
  obtain ⟨b', eq, hw', hd'⟩ := input_spec (by decide) c.buffer inp blocksFn compressBytes c.h hw blocksFn_spec
  unfold Context.update_mut
  unfold blocksFn at eq
  simp only [eq]
  refine ⟨_, rfl, ?_, hw', ?_, ?_⟩
  · simp only [UInt64.toNat_add, UInt64.toNat_ofNat', hp, List.length_append]
    omega
  · rw [hd', hd, ← blockTail_append (by decide)]
  · simp only [hs, hd]
    rw [fullBlocks_append (by decide) msg, List.foldl_append]

theorem absNRmd_finalize_reset (P : Nat) (hP : P % 64 = 0) (c : Context) (msg : Bytes) (h : AbsNRmd P c msg) :
    ∃ c', c.finalize_reset
      = some (c', (tailHash 64 8 Cx.Spec.MD.le64 compressBytes H0 P msg).toBytes) := by
  obtain ⟨hp, hw, hd, hs⟩ := h
  have hsplit := lenFieldSplit (P + msg.length)
  rw [← hp] at hsplit
  obtain ⟨b', eq, _, _⟩ := md_finish_with_spec (N := 64) (rem := 8) (by decide) (by decide) c.buffer
    (next_write_twice 4 (len_le64_split c.processed_bytes.toNat).1 (len_le64_split c.processed_bytes.toNat).2)
    ((len_le64_split c.processed_bytes.toNat).1 ++ (len_le64_split c.processed_bytes.toNat).2)
    (by simp [len_le64_split, natToLE_length])
    (next_write_twice_WritesLen 64 4 _ _ (natToLE_length _ _) (natToLE_length _ _))
    blockFn compressBytes c.h hw blockFn_spec
  rw [finalize_reset_eq, eq]
  have hX : (fullBlocks 64 (c.buffer.data ++ [(128 : UInt8)] ++ zeros (Cx.Spec.MD.padZeros 64 8 c.buffer.data.length) ++
      ((len_le64_split c.processed_bytes.toNat).1 ++ (len_le64_split c.processed_bytes.toNat).2))).foldl
        compressBytes c.h = tailHash 64 8 Cx.Spec.MD.le64 compressBytes H0 P msg := by
    rw [hsplit, hs, hd, tail_split (by decide) 8 compressBytes H0 _ P hP msg]
    rfl
  rw [hX]
  exact ⟨_, rfl⟩

theorem hlenRipemd160_eq (N : Nat) (hN : N % 64 = 0) (m : Bytes) :
    hlenRipemd160 (UInt64.ofNat N) m
      = some ((tailHash 64 8 Cx.Spec.MD.le64 compressBytes H0 N m).toBytes) := by
  obtain ⟨c1, h1, hA⟩ := absNRmd_update N _ [] m (absNRmd_preset N)
  simp only [List.nil_append] at hA
  obtain ⟨c2, h2⟩ := absNRmd_finalize_reset N hN c1 m hA
  simp [hlenRipemd160, Context.update, h1, Context.finalize, h2]

end ripemd160

end Cx.Proofs.HashLen
