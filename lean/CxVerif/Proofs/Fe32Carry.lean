/-
  Proofs.Fe32Carry — the two carry tails of fe32 (`carry_mul`: end of Mul / square / square_and_double;
  `carry_par`: end of from_bytes / mul_small): for i64 columns within ±3·2^60 no i64 operation overflows, the
  `as i32` casts lose nothing, the result is reduced (`W 1`) and denotes the same residue (2^255 ≡ 19).
-/
import CxVerif.Proofs.Fe32Basic
namespace Cx.Proofs.Fe32
open Cx Cx.Impl.Fe32
open Cx.Spec
open Cx.Spec.Field25519 (p)

/-- relational form of one rounded carry: some quotient `c` with a centred remainder -/
theorem carryR26_rel (h hn : Int) (hh : -2^62 ≤ h ∧ h ≤ 2^62) (hhn : -2^62 ≤ hn ∧ hn ≤ 2^62) :
    ∃ c, carryR 26 h hn = some (h - c * 2^26, hn + c) ∧ -2^25 ≤ h - c * 2^26 ∧ h - c * 2^26 < 2^25 :=
  ⟨(h + 2^25) / 2^26, carryR26 h hn hh hhn, by omega, by omega⟩

theorem carryR25_rel (h hn : Int) (hh : -2^62 ≤ h ∧ h ≤ 2^62) (hhn : -2^62 ≤ hn ∧ hn ≤ 2^62) :
    ∃ c, carryR 25 h hn = some (h - c * 2^25, hn + c) ∧ -2^24 ≤ h - c * 2^25 ∧ h - c * 2^25 < 2^24 :=
  ⟨(h + 2^24) / 2^25, carryR25 h hn hh hhn, by omega, by omega⟩

theorem carryR19_rel (h9 h0 : Int) (hh : -2^62 ≤ h9 ∧ h9 ≤ 2^62) (hh0 : -2^62 ≤ h0 ∧ h0 ≤ 2^62) :
    ∃ c, carryR19 h9 h0 = some (h9 - c * 2^25, h0 + c * 19) ∧ -2^24 ≤ h9 - c * 2^25 ∧ h9 - c * 2^25 < 2^24 :=
  ⟨(h9 + 2^24) / 2^25, carryR19_eq h9 h0 hh hh0, by omega, by omega⟩

/-- columns within ±3·2^60 (the columns of `Mul` for `W 3` operands reach 2^60.2, doubled in `square_and_double`) -/
def Col (h : Fe) : Prop :=
  (-(3 * 2^60) ≤ h.l0 ∧ h.l0 ≤ 3 * 2^60) ∧ (-(3 * 2^60) ≤ h.l1 ∧ h.l1 ≤ 3 * 2^60) ∧ (-(3 * 2^60) ≤ h.l2 ∧ h.l2 ≤ 3 * 2^60) ∧
  (-(3 * 2^60) ≤ h.l3 ∧ h.l3 ≤ 3 * 2^60) ∧ (-(3 * 2^60) ≤ h.l4 ∧ h.l4 ≤ 3 * 2^60) ∧ (-(3 * 2^60) ≤ h.l5 ∧ h.l5 ≤ 3 * 2^60) ∧
  (-(3 * 2^60) ≤ h.l6 ∧ h.l6 ≤ 3 * 2^60) ∧ (-(3 * 2^60) ≤ h.l7 ∧ h.l7 ≤ 3 * 2^60) ∧ (-(3 * 2^60) ≤ h.l8 ∧ h.l8 ≤ 3 * 2^60) ∧
  (-(3 * 2^60) ≤ h.l9 ∧ h.l9 ≤ 3 * 2^60)

theorem castFe_of_W1 {h : Fe} (hw : W 1 h) : castFe h = h := by
  unfold W at hw
  unfold castFe
  rw [wrap32_eq (by omega), wrap32_eq (by omega), wrap32_eq (by omega), wrap32_eq (by omega), wrap32_eq (by omega),
    wrap32_eq (by omega), wrap32_eq (by omega), wrap32_eq (by omega), wrap32_eq (by omega), wrap32_eq (by omega)]

/-- columns within ±2^45 (what `from_bytes` and `mul_small::<S0>` with `S0 ≤ 2^18` produce) -/
def ColS (h : Fe) : Prop :=
  (-2^45 ≤ h.l0 ∧ h.l0 ≤ 2^45) ∧ (-2^45 ≤ h.l1 ∧ h.l1 ≤ 2^45) ∧ (-2^45 ≤ h.l2 ∧ h.l2 ≤ 2^45) ∧
  (-2^45 ≤ h.l3 ∧ h.l3 ≤ 2^45) ∧ (-2^45 ≤ h.l4 ∧ h.l4 ≤ 2^45) ∧ (-2^45 ≤ h.l5 ∧ h.l5 ≤ 2^45) ∧
  (-2^45 ≤ h.l6 ∧ h.l6 ≤ 2^45) ∧ (-2^45 ≤ h.l7 ∧ h.l7 ≤ 2^45) ∧ (-2^45 ≤ h.l8 ∧ h.l8 ≤ 2^45) ∧
  (-2^45 ≤ h.l9 ∧ h.l9 ≤ 2^45)

theorem carry_par_spec (h : Fe) (hc : ColS h) :
    ∃ r, carry_par h = some r ∧ W 1 r ∧ val r % (p : Int) = val h % (p : Int) := by
  obtain ⟨h0, h1, h2, h3, h4, h5, h6, h7, h8, h9⟩ := h
  unfold ColS at hc
  simp only at hc
  unfold carry_par
  simp only
  obtain ⟨c9, e9, l9, u9⟩ := carryR19_rel h9 h0 (by omega) (by omega)
  rw [e9]; simp only [some_bind]
  obtain ⟨c1, e1, l1, u1⟩ := carryR25_rel h1 h2 (by omega) (by omega)
  rw [e1]; simp only [some_bind]
  obtain ⟨c3, e3, l3, u3⟩ := carryR25_rel h3 h4 (by omega) (by omega)
  rw [e3]; simp only [some_bind]
  obtain ⟨c5, e5, l5, u5⟩ := carryR25_rel h5 h6 (by omega) (by omega)
  rw [e5]; simp only [some_bind]
  obtain ⟨c7, e7, l7, u7⟩ := carryR25_rel h7 h8 (by omega) (by omega)
  rw [e7]; simp only [some_bind]
  obtain ⟨c0, e0, l0, u0⟩ := carryR26_rel (h0 + c9 * 19) (h1 - c1 * 2^25) (by omega) (by omega)
  rw [e0]; simp only [some_bind]
  obtain ⟨c2, e2, l2, u2⟩ := carryR26_rel (h2 + c1) (h3 - c3 * 2^25) (by omega) (by omega)
  rw [e2]; simp only [some_bind]
  obtain ⟨c4, e4, l4, u4⟩ := carryR26_rel (h4 + c3) (h5 - c5 * 2^25) (by omega) (by omega)
  rw [e4]; simp only [some_bind]
  obtain ⟨c6, e6, l6, u6⟩ := carryR26_rel (h6 + c5) (h7 - c7 * 2^25) (by omega) (by omega)
  rw [e6]; simp only [some_bind]
  obtain ⟨c8, e8, l8, u8⟩ := carryR26_rel (h8 + c7) (h9 - c9 * 2^25) (by omega) (by omega)
  rw [e8]; simp only [some_bind, pure_eq_some]
  have hw : W 1 ⟨h0 + c9 * 19 - c0 * 2^26, h1 - c1 * 2^25 + c0, h2 + c1 - c2 * 2^26, h3 - c3 * 2^25 + c2,
      h4 + c3 - c4 * 2^26, h5 - c5 * 2^25 + c4, h6 + c5 - c6 * 2^26, h7 - c7 * 2^25 + c6,
      h8 + c7 - c8 * 2^26, h9 - c9 * 2^25 + c8⟩ := by
    unfold W; simp only; omega
  refine ⟨_, by rw [castFe_of_W1 hw], hw, ?_⟩
  have : val ⟨h0 + c9 * 19 - c0 * 2^26, h1 - c1 * 2^25 + c0, h2 + c1 - c2 * 2^26, h3 - c3 * 2^25 + c2,
      h4 + c3 - c4 * 2^26, h5 - c5 * 2^25 + c4, h6 + c5 - c6 * 2^26, h7 - c7 * 2^25 + c6,
      h8 + c7 - c8 * 2^26, h9 - c9 * 2^25 + c8⟩ = val ⟨h0, h1, h2, h3, h4, h5, h6, h7, h8, h9⟩ + (p : Int) * (-c9) := by
    rw [p_eq]; unfold val; simp only; ring
  rw [this, Int.add_mul_emod_self_left]

theorem carry_mul_spec (h : Fe) (hc : Col h) :
    ∃ r, carry_mul h = some r ∧ W 1 r ∧ val r % (p : Int) = val h % (p : Int) := by
  obtain ⟨h0, h1, h2, h3, h4, h5, h6, h7, h8, h9⟩ := h
  unfold Col at hc
  simp only at hc
  unfold carry_mul
  simp only
  obtain ⟨c0, e0, l0, u0⟩ := carryR26_rel h0 h1 (by omega) (by omega)
  rw [e0]; simp only [some_bind]
  obtain ⟨c4, e4, l4, u4⟩ := carryR26_rel h4 h5 (by omega) (by omega)
  rw [e4]; simp only [some_bind]
  obtain ⟨c1, e1, l1, u1⟩ := carryR25_rel (h1 + c0) h2 (by omega) (by omega)
  rw [e1]; simp only [some_bind]
  obtain ⟨c5, e5, l5, u5⟩ := carryR25_rel (h5 + c4) h6 (by omega) (by omega)
  rw [e5]; simp only [some_bind]
  obtain ⟨c2, e2, l2, u2⟩ := carryR26_rel (h2 + c1) h3 (by omega) (by omega)
  rw [e2]; simp only [some_bind]
  obtain ⟨c6, e6, l6, u6⟩ := carryR26_rel (h6 + c5) h7 (by omega) (by omega)
  rw [e6]; simp only [some_bind]
  obtain ⟨c3, e3, l3, u3⟩ := carryR25_rel (h3 + c2) (h4 - c4 * 2^26) (by omega) (by omega)
  rw [e3]; simp only [some_bind]
  obtain ⟨c7, e7, l7, u7⟩ := carryR25_rel (h7 + c6) h8 (by omega) (by omega)
  rw [e7]; simp only [some_bind]
  obtain ⟨d4, f4, m4, v4⟩ := carryR26_rel (h4 - c4 * 2^26 + c3) (h5 + c4 - c5 * 2^25) (by omega) (by omega)
  rw [f4]; simp only [some_bind]
  obtain ⟨c8, e8, l8, u8⟩ := carryR26_rel (h8 + c7) h9 (by omega) (by omega)
  rw [e8]; simp only [some_bind]
  obtain ⟨c9, e9, l9, u9⟩ := carryR19_rel (h9 + c8) (h0 - c0 * 2^26) (by omega) (by omega)
  rw [e9]; simp only [some_bind]
  obtain ⟨d0, f0, m0, v0⟩ := carryR26_rel (h0 - c0 * 2^26 + c9 * 19) (h1 + c0 - c1 * 2^25) (by omega) (by omega)
  rw [f0]; simp only [some_bind, pure_eq_some]
  have hw : W 1 ⟨h0 - c0 * 2^26 + c9 * 19 - d0 * 2^26, h1 + c0 - c1 * 2^25 + d0, h2 + c1 - c2 * 2^26,
      h3 + c2 - c3 * 2^25, h4 - c4 * 2^26 + c3 - d4 * 2^26, h5 + c4 - c5 * 2^25 + d4, h6 + c5 - c6 * 2^26,
      h7 + c6 - c7 * 2^25, h8 + c7 - c8 * 2^26, h9 + c8 - c9 * 2^25⟩ := by
    unfold W; simp only; omega
  refine ⟨_, by rw [castFe_of_W1 hw], hw, ?_⟩
  have : val ⟨h0 - c0 * 2^26 + c9 * 19 - d0 * 2^26, h1 + c0 - c1 * 2^25 + d0, h2 + c1 - c2 * 2^26,
      h3 + c2 - c3 * 2^25, h4 - c4 * 2^26 + c3 - d4 * 2^26, h5 + c4 - c5 * 2^25 + d4, h6 + c5 - c6 * 2^26,
      h7 + c6 - c7 * 2^25, h8 + c7 - c8 * 2^26, h9 + c8 - c9 * 2^25⟩
      = val ⟨h0, h1, h2, h3, h4, h5, h6, h7, h8, h9⟩ + (p : Int) * (-c9) := by
    rw [p_eq]; unfold val; simp only; ring
  rw [this, Int.add_mul_emod_self_left]

end Cx.Proofs.Fe32
