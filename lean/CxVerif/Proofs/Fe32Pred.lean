/-
  Proofs.Fe32Pred — is_nonzero, is_negative, ct_eq / `==` (through the canonical encoding, after fix h),
  maybe_swap_with / maybe_set (C18 theorems on the u32 bit patterns) of fe32.
-/
import CxVerif.Proofs.Fe32Bytes
import CxVerif.Proofs.Fe64Pred
namespace Cx.Proofs.Fe32
open Cx Cx.Spec Cx.Impl.Fe32
open Cx.Spec.Field25519 (p)
open Cx.Proofs.Fe64 (natToLE_length natToLE_inj p_lt_256_32)

theorem is_nonzero_spec (f : Fe) (hf : W 6 f) : is_nonzero f = some (Field25519.isNonzero (eval f)) := by
  simp only [is_nonzero]
  rw [to_bytes_spec f hf, some_bind, pure_eq_some]
  congr 1
  rw [Cx.Props.C18.array_u8_ct_ne_spec _ _ (by rw [Field25519.encode, natToLE_length]; rfl)]
  unfold Field25519.isNonzero Field25519.encode
  rw [eval_mod]
  have hz : zeros 32 = natToLE 32 0 := by decide
  by_cases h : eval f = 0
  · rw [h, hz]; decide
  · have : natToLE 32 (eval f) ≠ zeros 32 := by
      rw [hz]; intro e
      exact h (natToLE_inj (Nat.lt_trans (eval_lt f) p_lt_256_32) (by decide) e)
    simp [this, h]

theorem is_negative_spec (f : Fe) (hf : W 6 f) : is_negative f = some (Field25519.isNegative (eval f)) := by
  simp only [is_negative]
  rw [to_bytes_spec f hf, some_bind]
  unfold Field25519.encode Field25519.isNegative
  rw [eval_mod]
  simp only [natToLE, pure_eq_some]
  congr 1
  have h1 : ((UInt8.ofNat (eval f % 256)) &&& 1).toNat = eval f % 2 := by
    rw [UInt8.toNat_and, UInt8.toNat_ofNat']
    have : (1 : UInt8).toNat = 1 := rfl
    rw [this, Nat.and_one_is_mod]
    omega
  rcases Nat.mod_two_eq_zero_or_one (eval f) with h | h
  · have : (UInt8.ofNat (eval f % 256)) &&& 1 = 0 := UInt8.toNat_inj.mp (by rw [h1, h]; rfl)
    rw [this, h]; rfl
  · have : (UInt8.ofNat (eval f % 256)) &&& 1 = 1 := UInt8.toNat_inj.mp (by rw [h1, h]; rfl)
    rw [this, h]; rfl

theorem ct_eq_spec (f g : Fe) (hf : W 6 f) (hg : W 6 g) :
    ∃ c, ct_eq f g = some c ∧ c.isTrue = decide (eval f = eval g) := by
  simp only [ct_eq]
  rw [to_bytes_spec f hf, some_bind, to_bytes_spec g hg, some_bind, pure_eq_some]
  refine ⟨_, rfl, ?_⟩
  rw [Cx.Props.C18.array_u8_ct_eq_spec _ _ (by simp [Field25519.encode, natToLE_length])]
  unfold Field25519.encode
  rw [eval_mod, eval_mod]
  by_cases h : eval f = eval g
  · rw [h]; simp
  · have : natToLE 32 (eval f) ≠ natToLE 32 (eval g) := fun e =>
      h (natToLE_inj (Nat.lt_trans (eval_lt f) p_lt_256_32) (Nat.lt_trans (eval_lt g) p_lt_256_32) e)
    rw [decide_eq_false this, decide_eq_false h]

/-- `==` on field elements is equality modulo p (after fix h: comparison of the canonical encodings) -/
theorem eq_spec (f g : Fe) (hf : W 6 f) (hg : W 6 g) : eq f g = some (decide (eval f = eval g)) := by
  obtain ⟨c, hc, hcv⟩ := ct_eq_spec f g hf hg
  simp only [eq]
  rw [hc, some_bind, pure_eq_some, hcv]

/-- the limb-wise `==` of the unfixed code is NOT value equality: two reduced representations of 2^25 -/
theorem original_eq_not_value_equality :
    ∃ f g, W 1 f ∧ W 1 g ∧ eval f = eval g ∧ eqOld f g = false ∧ eq f g = some true :=
  ⟨⟨2^25, 0, 0, 0, 0, 0, 0, 0, 0, 0⟩, ⟨-2^25, 1, 0, 0, 0, 0, 0, 0, 0, 0⟩, by decide, by decide, by decide,
    by decide, by decide +kernel⟩

/-! ## masked swap / set (C18) on limb vectors that are machine words -/

/-- all limbs are `i32` values -/
def I32 (f : Fe) : Prop :=
  (-2^31 ≤ f.l0 ∧ f.l0 < 2^31) ∧ (-2^31 ≤ f.l1 ∧ f.l1 < 2^31) ∧ (-2^31 ≤ f.l2 ∧ f.l2 < 2^31) ∧
  (-2^31 ≤ f.l3 ∧ f.l3 < 2^31) ∧ (-2^31 ≤ f.l4 ∧ f.l4 < 2^31) ∧ (-2^31 ≤ f.l5 ∧ f.l5 < 2^31) ∧
  (-2^31 ≤ f.l6 ∧ f.l6 < 2^31) ∧ (-2^31 ≤ f.l7 ∧ f.l7 < 2^31) ∧ (-2^31 ≤ f.l8 ∧ f.l8 < 2^31) ∧
  (-2^31 ≤ f.l9 ∧ f.l9 < 2^31)

theorem ofU32_toU32 (x : Int) (h : -2^31 ≤ x ∧ x < 2^31) : ofU32 (toU32 x) = x := by
  unfold ofU32 toU32 wrap32
  rw [UInt32.toNat_ofNat']
  omega

theorem ofWords_toWords (f : Fe) (hf : I32 f) : Fe.ofWords f.toWords = f := by
  obtain ⟨f0, f1, f2, f3, f4, f5, f6, f7, f8, f9⟩ := f
  unfold I32 at hf
  simp only at hf
  simp only [Fe.ofWords, Fe.toWords, Fe.toList, List.map_cons, List.map_nil, Fe.ofList]
  rw [ofU32_toU32 _ (by omega), ofU32_toU32 _ (by omega), ofU32_toU32 _ (by omega), ofU32_toU32 _ (by omega),
    ofU32_toU32 _ (by omega), ofU32_toU32 _ (by omega), ofU32_toU32 _ (by omega), ofU32_toU32 _ (by omega),
    ofU32_toU32 _ (by omega), ofU32_toU32 _ (by omega)]

theorem maybe_swap_with_spec (f g : Fe) (hf : I32 f) (hg : I32 g) (c : Bool) :
    maybe_swap_with f g (Cx.Props.C18.Choice.ofBool c) = if c then (g, f) else (f, g) := by
  unfold maybe_swap_with
  rw [Cx.Props.C18.ct_array32_maybe_swap_spec _ _ (by simp [Fe.toWords, Fe.toList])]
  cases c <;> simp only [if_true, if_false, Bool.false_eq_true, ofWords_toWords _ hf, ofWords_toWords _ hg]

theorem maybe_set_spec (f g : Fe) (hf : I32 f) (hg : I32 g) (c : Bool) :
    maybe_set f g (Cx.Props.C18.Choice.ofBool c) = if c then g else f := by
  unfold maybe_set
  rw [Cx.Props.C18.ct_array32_maybe_set_spec _ _ (by simp [Fe.toWords, Fe.toList])]
  cases c <;> simp only [if_true, if_false, Bool.false_eq_true, ofWords_toWords _ hf, ofWords_toWords _ hg]

end Cx.Proofs.Fe32
