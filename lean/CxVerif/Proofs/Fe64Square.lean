/-
  Proofs.Fe64Square — square, square_repeatdly, square_and_double of fe64.
-/
import CxVerif.Proofs.Fe64Arith
import CxVerif.Proofs.Field25519
namespace Cx.Proofs.Fe64
open Cx Cx.Spec Cx.Impl.Fe64
open Cx.Spec.Field25519 (p)

/-- `shl128(t, 13)` is `t >> 51` as long as no bit is shifted out of the 128-bit word -/
theorem shl128_13 {t : Nat} (h : t < 2^115) : shl128 t 13 = t / 2^51 := by
  unfold shl128
  rw [Nat.shiftLeft_eq, Nat.shiftRight_eq_div_pow]
  omega

/-- the statements of `square` after the five columns `t0..t4` are computed (same text as in
    `Impl.Fe64.square`; `square_cols` below ties the two by `rfl`) -/
def squareTail (t0 t1 t2 t3 t4 : Nat) : Option Fe := do
  let r0 := (t0 % 2^64) &&& MASK
  let r1 := (t1 % 2^64) &&& MASK
  let c := shl128 t0 13
  let r1 ← add64 r1 c
  let r2 := (t2 % 2^64) &&& MASK
  let c := shl128 t1 13
  let r2 ← add64 r2 c
  let r3 := (t3 % 2^64) &&& MASK
  let c := shl128 t2 13
  let r3 ← add64 r3 c
  let r4 := (t4 % 2^64) &&& MASK
  let c := shl128 t3 13
  let r4 ← add64 r4 c
  let c := shl128 t4 13
  let c19 ← mul64 c 19
  let r0 ← add64 r0 c19
  let c := r0 >>> 51
  let r0 := r0 &&& MASK
  let r1 ← add64 r1 c
  let c := r1 >>> 51
  let r1 := r1 &&& MASK
  let r2 ← add64 r2 c
  let c := r2 >>> 51
  let r2 := r2 &&& MASK
  let r3 ← add64 r3 c
  let c := r3 >>> 51
  let r3 := r3 &&& MASK
  let r4 ← add64 r4 c
  let c := r4 >>> 51
  let r4 := r4 &&& MASK
  let c19 ← mul64 c 19
  let r0 ← add64 r0 c19
  pure ⟨r0, r1, r2, r3, r4⟩

theorem squareTail_spec (t0 t1 t2 t3 t4 : Nat) (h0 : t0 < 77 * 2^108) (h1 : t1 < 77 * 2^108)
    (h2 : t2 < 77 * 2^108) (h3 : t3 < 77 * 2^108) (h4 : t4 < 5 * 2^108) :
    ∃ h k, squareTail t0 t1 t2 t3 t4 = some h ∧ Tight h ∧
      val h + p * k = t0 + 2^51 * t1 + 2^102 * t2 + 2^153 * t3 + 2^204 * t4 := by
  simp only [squareTail, land_MASK, shr51, mod64_mod51]
  rw [shl128_13 (show t0 < 2^115 by omega), shl128_13 (show t1 < 2^115 by omega),
    shl128_13 (show t2 < 2^115 by omega), shl128_13 (show t3 < 2^115 by omega),
    shl128_13 (show t4 < 2^115 by omega)]
  generalize hc4 : t4 / 2^51 = c4
  ck_steps
  generalize hr0 : t0 % 2^51 + c4 * 19 = r0
  generalize hr1 : t1 % 2^51 + t0 / 2^51 + r0 / 2^51 = r1
  generalize hr2 : t2 % 2^51 + t1 / 2^51 + r1 / 2^51 = r2
  generalize hr3 : t3 % 2^51 + t2 / 2^51 + r2 / 2^51 = r3
  generalize hr4 : t4 % 2^51 + t3 / 2^51 + r3 / 2^51 = r4
  generalize hk : r4 / 2^51 = k
  refine ⟨_, c4 + k, rfl, ?_, ?_⟩
  · simp only [Tight, Bnd]; omega
  · simp only [val, p_eq]; omega

theorem squareTail_elim {t0 t1 t2 t3 t4 : Nat} {P : Fe → Prop}
    (h0 : t0 < 77 * 2^108) (h1 : t1 < 77 * 2^108) (h2 : t2 < 77 * 2^108)
    (h3 : t3 < 77 * 2^108) (h4 : t4 < 5 * 2^108)
    (hP : ∀ h k, Tight h →
      val h + p * k = t0 + 2^51 * t1 + 2^102 * t2 + 2^153 * t3 + 2^204 * t4 → P h) :
    ∃ h, squareTail t0 t1 t2 t3 t4 = some h ∧ P h := by
  obtain ⟨h, k, hc, hb, hv⟩ := squareTail_spec t0 t1 t2 t3 t4 h0 h1 h2 h3 h4
  exact ⟨h, hc, hP h k hb hv⟩

theorem m38a (a b : Nat) : a * 19 * 2 * b = 38 * (a * b) := by ring
theorem m38b (a b : Nat) : a * 2 * 19 * b = 38 * (a * b) := by ring
theorem m19 (a : Nat) : a * (a * 19) = 19 * (a * a) := by ring
theorem m2 (a b : Nat) : a * 2 * b = 2 * (a * b) := by ring

theorem square_columns (f0 f1 f2 f3 f4 : Nat) :
    val ⟨f0, f1, f2, f3, f4⟩ * val ⟨f0, f1, f2, f3, f4⟩ =
      (f0 * f0 + 38 * (f4 * f1) + 38 * (f2 * f3) +
        2^51 * (2 * (f0 * f1) + 38 * (f4 * f2) + 19 * (f3 * f3)) +
        2^102 * (2 * (f0 * f2) + f1 * f1 + 38 * (f4 * f3)) +
        2^153 * (2 * (f0 * f3) + 2 * (f1 * f2) + 19 * (f4 * f4)) +
        2^204 * (2 * (f0 * f4) + 2 * (f1 * f3) + f2 * f2))
      + p * (2 * (f4 * f1) + 2 * (f2 * f3) + 2^51 * (2 * (f4 * f2) + f3 * f3)
        + 2^102 * (2 * (f4 * f3)) + 2^153 * (f4 * f4)) := by
  simp only [val, p_eq]; norm_num; ring

theorem square_spec (f : Fe) (hf : Loose f) :
    ∃ h, square f = some h ∧ Tight h ∧ eval h = Field25519.sq (eval f) := by
  obtain ⟨f0, f1, f2, f3, f4⟩ := f
  simp only [Loose, Bnd] at hf
  obtain ⟨hf0, hf1, hf2, hf3, hf4⟩ := hf
  have p00 := Nat.mul_lt_mul'' hf0 hf0
  have p41 := Nat.mul_lt_mul'' hf4 hf1
  have p23 := Nat.mul_lt_mul'' hf2 hf3
  have p01 := Nat.mul_lt_mul'' hf0 hf1
  have p42 := Nat.mul_lt_mul'' hf4 hf2
  have p33 := Nat.mul_lt_mul'' hf3 hf3
  have p02 := Nat.mul_lt_mul'' hf0 hf2
  have p11 := Nat.mul_lt_mul'' hf1 hf1
  have p43 := Nat.mul_lt_mul'' hf4 hf3
  have p03 := Nat.mul_lt_mul'' hf0 hf3
  have p12 := Nat.mul_lt_mul'' hf1 hf2
  have p44 := Nat.mul_lt_mul'' hf4 hf4
  have p04 := Nat.mul_lt_mul'' hf0 hf4
  have p13 := Nat.mul_lt_mul'' hf1 hf3
  have p22 := Nat.mul_lt_mul'' hf2 hf2
  simp only [square, mul128]
  rw [mul64_bind _ _ _ (by omega), mul64_bind _ _ _ (by omega), mul64_bind _ _ _ (by omega),
    mul64_bind _ _ _ (by omega), mul64_bind _ _ _ (by omega), mul64_bind _ _ _ (by omega)]
  simp only [m38a, m38b, m19]
  simp only [m2]
  rw [add128_bind _ _ _ (by omega), add128_bind _ _ _ (by omega), add128_bind _ _ _ (by omega),
    mul64_bind _ _ _ (by omega)]
  simp only [m19]
  ck_steps
  change ∃ h, squareTail _ _ _ _ _ = some h ∧ _
  apply squareTail_elim (by omega) (by omega) (by omega) (by omega) (by omega)
  intro h k hb hv
  refine ⟨hb, ?_⟩
  simp only [eval, sq_mod]
  unfold Field25519.sq
  rw [mod_p_of_add_mul hv, square_columns, Nat.add_mul_mod_self_left]

/-! ## square_repeatdly -/

theorem sq_pow (a e : Nat) : Field25519.sq (a ^ e % p) = a ^ (e * 2) % p := by
  unfold Field25519.sq
  rw [← Nat.mul_mod, ← Nat.pow_add]; congr 2; omega

/-- `n` squarings: `z ↦ z^(2^n)`; the result is carried (`Tight`) as soon as `n > 0`
    (`square_repeatdly(0)` returns its argument unchanged) -/
theorem square_repeatdly_spec (n : Nat) : ∀ (f : Fe), Loose f →
    ∃ h, square_repeatdly f n = some h ∧ (0 < n → Tight h) ∧ (n = 0 → h = f) ∧
      eval h = (eval f) ^ (2^n) % p := by
  induction n with
  | zero =>
    intro f _
    refine ⟨f, rfl, by omega, fun _ => rfl, ?_⟩
    simp [eval]
  | succ n ih =>
    intro f hf
    obtain ⟨g, hg, hgt, hgv⟩ := square_spec f hf
    obtain ⟨h, hh, hht, hh0, hhv⟩ := ih g hgt.loose
    refine ⟨h, ?_, ?_, by omega, ?_⟩
    · simp only [square_repeatdly, hg]; exact hh
    · intro _
      by_cases hn : n = 0
      · rw [hh0 hn]; exact hgt
      · exact hht (by omega)
    · rw [hhv, hgv]
      have : Field25519.sq (eval f) = (eval f) ^ 2 % p := by
        unfold Field25519.sq; rw [Nat.pow_two]
      rw [this, ← Nat.pow_mod, ← Nat.pow_mul, Nat.pow_succ, Nat.mul_comm]

theorem square_repeatdly_pos (n : Nat) (hn : 0 < n) (f : Fe) (hf : Loose f) :
    ∃ h, square_repeatdly f n = some h ∧ Tight h ∧ eval h = Field25519.pow (eval f) (2^n) := by
  obtain ⟨h, hh, ht, _, hv⟩ := square_repeatdly_spec n f hf
  exact ⟨h, hh, ht hn, by rw [hv, Cx.Proofs.Field25519.pow_eq]⟩

/-! ## square_and_double -/

theorem square_and_double_spec (f : Fe) (hf : Loose f) :
    ∃ h, square_and_double f = some h ∧ Pub h ∧
      eval h = Field25519.mul 2 (Field25519.sq (eval f)) := by
  obtain ⟨x, hx, hxt, hxv⟩ := square_spec f hf
  obtain ⟨x0, x1, x2, x3, x4⟩ := x
  simp only [Tight, Bnd] at hxt
  simp only [square_and_double, hx, some_bind]
  ck_steps
  refine ⟨_, rfl, ?_, ?_⟩
  · simp only [Pub, Bnd]; omega
  · rw [← hxv]
    simp only [eval]
    rw [← mul_mod, Nat.mod_mod, mul_mod]
    unfold Field25519.mul
    congr 1
    simp only [val]; ring

end Cx.Proofs.Fe64
