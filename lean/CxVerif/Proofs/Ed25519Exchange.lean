/-
  Proofs.Ed25519Exchange — `ed25519::exchange` = X25519 of the pruned hashed secret with the public key's
  Edwards y mapped to the Montgomery u = (1+y)/(1−y).  Unconditional (no primality, no group law): every step is
  a Fe64 operator spec, SHA-512 split independence and the C12 theorem `curve25519 = RFC 7748 X25519`.
-/
import CxVerif.Proofs.Ed25519Sign
import CxVerif.Proofs.Fe64FromBytes
import CxVerif.Props.C12.X25519
namespace Cx.Proofs.Ed25519Exchange
open Cx Cx.Spec Cx.Impl.Ed25519 Cx.Proofs.Ed25519Sign
open Cx.Proofs.Fe64 (eval Tight Loose some_bind pure_eq_some)

theorem edwards_to_montgomery_x_eq (y : Impl.Fe64.Fe) (hy : Tight y) :
    ∃ m, edwards_to_montgomery_x y = some m ∧ Tight m ∧ eval m = Spec.Ed25519.edwardsToMontgomeryU (eval y) := by
  have t1 := Proofs.Fe64.bnd51_tight Proofs.Fe64.ONE_spec.1
  unfold edwards_to_montgomery_x
  dsimp only
  obtain ⟨a, e, ta, va⟩ := Proofs.Fe64.add_spec Impl.Fe64.Fe.ONE y t1.loose hy.loose; rw [e, some_bind]
  obtain ⟨b, e, tb, vb⟩ := Proofs.Fe64.sub_spec Impl.Fe64.Fe.ONE y t1.loose hy.subOk; rw [e, some_bind]
  obtain ⟨c, e, tc, vc⟩ := Proofs.Fe64.invert_spec b tb.loose; rw [e, some_bind]
  obtain ⟨d, e, td, vd⟩ := Proofs.Fe64.mul_spec a c ta.loose tc.loose
  refine ⟨d, e, td, ?_⟩
  rw [vd, va, vc, vb, Proofs.Fe64.ONE_spec.2]
  rfl

/-- `exchange(pk, seed)` for 32-byte arguments -/
theorem exchange_eq (pk seed : Bytes) (hpk : pk.length = 32) (hs : seed.length = 32) :
    exchange pk seed = some (Spec.Ed25519.exchange pk seed) := by
  obtain ⟨m, em, tm, vm⟩ := edwards_to_montgomery_x_eq (Impl.Fe64.from_bytes pk hpk) (Proofs.Fe64.from_bytes_tight pk hpk)
  unfold exchange
  have hfb : Impl.Fe64.fromBytes pk = some (Impl.Fe64.from_bytes pk hpk) := by
    unfold Impl.Fe64.fromBytes; rw [dif_pos hpk]
  rw [hfb, some_bind, em, some_bind, extended_secret_eq seed hs, some_bind]
  have hn : extended_scalar_bytes (Spec.Ed25519.expandSeed seed) = some (Spec.Ed25519.clamp ((Spec.Ed25519.H seed).take 32)) := by
    unfold extended_scalar_bytes; rw [if_pos (expandSeed_length seed), expandSeed_take]
  rw [hn, some_bind, Proofs.Fe64.to_bytes_spec m tm.loose, some_bind]
  have hl : (Spec.Ed25519.clamp ((Spec.Ed25519.H seed).take 32)).length = 32 ∧
      (Field25519.encode (eval m)).length = 32 := by
    constructor
    · rw [clamp_length]; unfold Spec.Ed25519.H; simp [sha512_length]
    · exact Proofs.Fe64.natToLE_length _ _
  rw [dif_pos hl, Cx.Props.C12.curve25519_eq_x25519, vm, Proofs.Fe64.from_bytes_eval]
  rfl

end Cx.Proofs.Ed25519Exchange
