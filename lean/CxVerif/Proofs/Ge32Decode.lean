/-
  Proofs.Ge32Decode — `Ge::from_bytes` (point decompression, ge.rs) on the 32-bit backend refines `Spec.Edwards.decode`
  (RFC 8032 §5.1.3 as implemented: y reduced mod p, x = 0 tolerated with either sign bit).  Counterpart of
  Proofs/GeDecode.lean, whose backend-independent parts (sign bit, the equation form of `recoverX`, the field facts) are
  reused.  Weight discipline of the chain:  y = Fe::from_bytes(s) 1;  y² 1;  u = y²−1 2;  v = d·y²+1 2;  v², v³, v⁶, v⁷,
  u·v⁷, pow25523, x 1 (all products of operands of weight ≤ 2);  v·x² 1;  v·x² ∓ u 3 → `is_nonzero` (≤ 6);
  x·SQRTM1 1;  `is_negative` (≤ 6);  `negate_mut` 1;  `from_affine`: x·y 1.  No i32/i64 overflow anywhere.
-/
import CxVerif.Proofs.Ge32Refine
import CxVerif.Proofs.Fe32FromBytes
import CxVerif.Proofs.GeDecode
namespace Cx.Proofs.Ge32Decode
open Cx Cx.Spec Cx.Impl.Fe32 Cx.Impl.Ge32 Cx.Proofs.EdField Cx.Proofs.EdSpec Cx.Proofs.Ge32Refine
open Cx.Proofs.Fe32 (eval W some_bind pure_eq_some)
open Cx.Spec.Field25519 (p)
open Cx.Proofs.GeDecode (signbit_eq mul_rearr isNonzero_sub isNonzero_add fixS fixS_pos fixS_neg recoverX_eq decode_eq
  onCurve_of onCurve_neg)

set_option maxRecDepth 10000

local infixl:65 " +ₚ " => Field25519.add
local infixl:65 " -ₚ " => Field25519.sub
local infixl:70 " *ₚ " => Field25519.mul

/-- the sign fix-up at the end of `GeAffine::from_bytes` -/
def finishSign (y : Fe) (signbit : Bool) (x : Fe) : Option (Option GeAffine) := do
  let n ← is_negative x
  let x ← if n != signbit then negate_mut x else pure x
  pure (some ⟨x, y⟩)

/-- the body of `GeAffine::from_bytes` after `y = Fe::from_bytes(s)` and with the sign bit read -/
def decompress (y : Fe) (signbit : Bool) : Option (Option GeAffine) := do
  let y2 ← square y
  let u ← sub y2 Fe.ONE
  let yd ← mul y2 Fe.D
  let v ← add yd Fe.ONE
  let vv ← square v
  let v3 ← mul vv v
  let v3v3 ← square v3
  let v7 ← mul v3v3 v
  let uv7 ← mul v7 u
  let pw ← pow25523 uv7
  let pv ← mul pw v3
  let x ← mul pv u
  let xx ← square x
  let vxx ← mul xx v
  let check ← sub vxx u
  if (← is_nonzero check) then
    let check2 ← add vxx u
    if (← is_nonzero check2) then pure none
    else
      let x ← mul x Fe.SQRTM1
      finishSign y signbit x
  else finishSign y signbit x

/-- `GeAffine::from_bytes` is `decompress` of the decoded field element and bit 255 (by unfolding) -/
theorem from_bytes_eq (s : Bytes) (h : s.length = 32) :
    GeAffine.from_bytes s = (from_bytes s h).bind fun y => decompress y (leNat s / 2 ^ 255 % 2 == 1) := by
  rw [← signbit_eq s h]
  simp only [GeAffine.from_bytes, dif_pos h]
  rfl

/-- the sign fix-up selects the root `fixS` selects -/
theorem finish_ok (xfe yfe : Fe) (tx : W 1 xfe) (sign : Bool) :
    ∃ xfe', finishSign yfe sign xfe = some (some ⟨xfe', yfe⟩) ∧ W 1 xfe' ∧
      fixS sign (eval xfe) = some (eval xfe') ∧
      (eval xfe' = eval xfe ∨ eval xfe' = Field25519.neg (eval xfe)) := by
  unfold finishSign
  rw [Proofs.Fe32.is_negative_spec xfe tx.w6, some_bind]
  unfold Field25519.isNegative
  rw [Proofs.Fe32.eval_mod]
  by_cases hc : ((eval xfe % 2 == 1) != sign) = true
  · rw [if_pos hc, fixS_pos _ _ hc]
    obtain ⟨x', e, tx', vx'⟩ := Proofs.Fe32.negate_mut_specN xfe tx
    rw [e, some_bind]
    exact ⟨x', rfl, tx', by rw [vx'], Or.inr vx'⟩
  · rw [if_neg hc, fixS_neg _ _ hc]
    exact ⟨xfe, rfl, tx, rfl, Or.inl rfl⟩

variable [hp : Fact (Nat.Prime p)]

/-- what `decompress` has to deliver for the Spec result `r` -/
def Refines (yfe : Fe) (sign : Bool) (r : Option Nat) : Prop :=
  (r = none → decompress yfe sign = some none) ∧
  (∀ x, r = some x → x < p ∧ EdAlg.OnCurve dF (x : Fp) ((eval yfe : Nat) : Fp) ∧
    ∃ xfe, decompress yfe sign = some (some ⟨xfe, yfe⟩) ∧ W 1 xfe ∧ eval xfe = x)

/-- both roots of a curve abscissa give curve points; closing step shared by the two accepting branches -/
theorem refines_some (yfe : Fe) (sign : Bool) (x0 xf : Fe) (tf : W 1 xf)
    (hd : decompress yfe sign = some (some ⟨xf, yfe⟩))
    (hc : EdAlg.OnCurve dF ((eval x0 : Nat) : Fp) ((eval yfe : Nat) : Fp))
    (hor : eval xf = eval x0 ∨ eval xf = Field25519.neg (eval x0)) :
    Refines yfe sign (some (eval xf)) := by
  refine ⟨fun h => (by cases h), ?_⟩
  intro x hx
  have hx' : eval xf = x := Option.some.inj hx
  subst hx'
  refine ⟨Proofs.Fe32.eval_lt xf, ?_, xf, hd, tf, rfl⟩
  rcases hor with h | h
  · rw [h]; exact hc
  · rw [h, cast_neg]; exact onCurve_neg hc

theorem core (yfe : Fe) (ty : W 1 yfe) (sign : Bool) :
    Refines yfe sign (Edwards.recoverX (eval yfe) sign) := by
  obtain ⟨y2, e1, t2, v2⟩ := Proofs.Fe32.square_spec _ ty.w3
  obtain ⟨u, e2, tu, vu⟩ := Proofs.Fe32.sub_specN y2 Fe.ONE t2 tight_ONE
  obtain ⟨yd, e3, tyd, vyd⟩ := Proofs.Fe32.mul_spec y2 Fe.D t2.w3 tight_D.w3
  obtain ⟨v, e4, tv, vv⟩ := Proofs.Fe32.add_specN yd Fe.ONE tyd tight_ONE
  obtain ⟨vsq, e5, tvsq, vvsq⟩ := Proofs.Fe32.square_spec v tv.w3
  obtain ⟨v3, e6, tv3, vv3⟩ := Proofs.Fe32.mul_spec vsq v tvsq.w3 tv.w3
  obtain ⟨v3v3, e7, tv3v3, vv3v3⟩ := Proofs.Fe32.square_spec v3 tv3.w3
  obtain ⟨v7, e8, tv7, vv7⟩ := Proofs.Fe32.mul_spec v3v3 v tv3v3.w3 tv.w3
  obtain ⟨uv7, e9, tuv7, vuv7⟩ := Proofs.Fe32.mul_spec v7 u tv7.w3 tu.w3
  obtain ⟨pw, e10, tpw, vpw⟩ := Proofs.Fe32.pow25523_spec uv7 tuv7.w3
  obtain ⟨pv, e11, tpv, vpv⟩ := Proofs.Fe32.mul_spec pw v3 tpw.w3 tv3.w3
  obtain ⟨x, e12, tx, vx⟩ := Proofs.Fe32.mul_spec pv u tpv.w3 tu.w3
  obtain ⟨xx, e13, txx, vxx'⟩ := Proofs.Fe32.square_spec x tx.w3
  obtain ⟨vxx, e14, tvxx, vvxx⟩ := Proofs.Fe32.mul_spec xx v txx.w3 tv.w3
  obtain ⟨check, e15, tcheck, vcheck⟩ := Proofs.Fe32.sub_specN vxx u tvxx tu
  -- the common prefix of the code, up to the first test
  have hpre : decompress yfe sign =
      (if Field25519.isNonzero (eval check) = true then do
        let check2 ← add vxx u
        if (← is_nonzero check2) then pure none
        else
          let x ← mul x Fe.SQRTM1
          finishSign yfe sign x
      else finishSign yfe sign x) := by
    simp only [decompress]
    rw [e1, some_bind, e2, some_bind, e3, some_bind, e4, some_bind, e5, some_bind, e6, some_bind, e7, some_bind,
      e8, some_bind, e9, some_bind, e10, some_bind, e11, some_bind, e12, some_bind, e13, some_bind, e14, some_bind,
      e15, some_bind, Proofs.Fe32.is_nonzero_spec check tcheck.w6, some_bind]
  -- the Nat values, in the shape of the Spec
  have hy2 : eval y2 = eval yfe *ₚ eval yfe := by rw [v2]; rfl
  have hu : eval u = (eval yfe *ₚ eval yfe) -ₚ 1 := by rw [vu, hy2, Proofs.Fe32.ONE_spec.2]
  have hv : eval v = Edwards.d *ₚ (eval yfe *ₚ eval yfe) +ₚ 1 := by
    rw [vv, vyd, hy2, Proofs.Fe32.ONE_spec.2, Proofs.Fe32.D_spec.2, fmul_comm]; rfl
  have hv3 : eval v3 = (eval v *ₚ eval v) *ₚ eval v := by rw [vv3, vvsq]; rfl
  have hv7 : eval v7 = (eval v3 *ₚ eval v3) *ₚ eval v := by rw [vv7, vv3v3]; rfl
  have hx : eval x = (eval u *ₚ eval v3) *ₚ Field25519.pow25523 (eval u *ₚ eval v7) := by
    rw [vx, vpv, vpw, vuv7, mul_rearr, fmul_comm (eval v7)]
  have hvxx : eval vxx = eval v *ₚ (eval x *ₚ eval x) := by rw [vvxx, vxx', fmul_comm]; rfl
  rw [hv7, hv3] at hx
  rw [recoverX_eq (eval yfe) sign (eval u) (eval v) (eval x) (eval vxx) hu hv hx hvxx]
  -- field view
  have cu : ((eval u : Nat) : Fp) = (eval yfe : Fp) * (eval yfe : Fp) - 1 := by
    rw [hu, cast_sub, cast_mul, Nat.cast_one]
  have cv : ((eval v : Nat) : Fp) = dF * ((eval yfe : Fp) * (eval yfe : Fp)) + 1 := by
    rw [hv, cast_add, cast_mul, cast_mul, Nat.cast_one]; rfl
  have cvxx : ((eval vxx : Nat) : Fp) = (eval v : Fp) * ((eval x : Fp) * (eval x : Fp)) := by
    rw [hvxx, cast_mul, cast_mul]
  rw [vcheck, isNonzero_sub _ _ (Proofs.Fe32.eval_lt vxx)] at hpre
  by_cases h1 : eval vxx = eval u % p
  · rw [if_pos h1]
    obtain ⟨xf, ef, tf, hfix, hor⟩ := finish_ok x yfe tx sign
    rw [hfix]
    have hd : decompress yfe sign = some (some ⟨xf, yfe⟩) := by
      rw [hpre, ← ef]
      simp only [h1, decide_true, Bool.not_true, Bool.false_eq_true, if_false]
    refine refines_some yfe sign x xf tf hd ?_ hor
    apply onCurve_of
    rw [← cv, ← cvxx, ← cu, h1, cast_mod]
  · rw [if_neg h1]
    have hpre2 : decompress yfe sign = (do
        let check2 ← add vxx u
        if (← is_nonzero check2) then pure none
        else
          let x ← mul x Fe.SQRTM1
          finishSign yfe sign x) := by
      rw [hpre]
      simp only [h1, decide_false, Bool.not_false, if_true]
    obtain ⟨check2, e16, tcheck2, vcheck2⟩ := Proofs.Fe32.add_specN vxx u tvxx tu
    rw [e16, some_bind, Proofs.Fe32.is_nonzero_spec check2 tcheck2.w6, some_bind, vcheck2,
      isNonzero_add _ _ (Proofs.Fe32.eval_lt vxx)] at hpre2
    by_cases h2 : eval vxx = Field25519.neg (eval u)
    · rw [if_pos h2]
      obtain ⟨x1, e17, tx1, vx1⟩ := Proofs.Fe32.mul_spec x Fe.SQRTM1 tx.w3
        Proofs.Fe32.SQRTM1_spec.1.w3
      rw [Proofs.Fe32.SQRTM1_spec.2] at vx1
      obtain ⟨xf, ef, tf, hfix, hor⟩ := finish_ok x1 yfe tx1 sign
      rw [← vx1, hfix]
      have hd : decompress yfe sign = some (some ⟨xf, yfe⟩) := by
        rw [hpre2, ← ef]
        simp only [h2, decide_true, Bool.not_true, Bool.false_eq_true, if_false]
        rw [e17, some_bind]
      refine refines_some yfe sign x1 xf tf hd ?_ hor
      apply onCurve_of
      have h2' := congrArg (fun n : Nat => (n : Fp)) h2
      simp only [cast_neg] at h2'
      rw [cvxx] at h2'
      rw [vx1, cast_mul, ← cv]
      have hi := sqrtM1_sq
      linear_combination (-1 : Fp) * h2' + ((eval v : Fp) * ((eval x : Fp) * (eval x : Fp))) * hi + cu
    · rw [if_neg h2]
      refine ⟨fun _ => ?_, fun x hx => (by cases hx)⟩
      rw [hpre2]
      simp only [h2, decide_false, Bool.not_false, if_true]
      rfl

/-- **`Ge::from_bytes` of the 32-bit backend refines `Spec.Edwards.decode`**: it never panics, rejects exactly the strings
    the Spec rejects and otherwise returns a weight-1 extended representation of the decoded point, which lies on the
    curve -/
theorem from_bytes_refines_decode (s : Bytes) (h : s.length = 32) :
    match Edwards.decode s with
    | none => Ge.from_bytes s = some none
    | some P => OnCurve P ∧ ∃ g, Ge.from_bytes s = some (some g) ∧ GeOk g P := by
  obtain ⟨yfe, ey, ty, _, vy⟩ := Proofs.Fe32.from_bytes_spec s h
  have hc := core yfe ty (leNat s / 2 ^ 255 % 2 == 1)
  rw [vy] at hc
  obtain ⟨hnone, hsome⟩ := hc
  have hfb : GeAffine.from_bytes s = decompress yfe (leNat s / 2 ^ 255 % 2 == 1) := by
    rw [from_bytes_eq s h, ey]; rfl
  rw [← hfb] at hnone
  rw [decode_eq s h]
  cases hr : Edwards.recoverX (Field25519.decode s) (leNat s / 2 ^ 255 % 2 == 1) with
  | none =>
    show Ge.from_bytes s = some none
    unfold Ge.from_bytes
    rw [hnone hr]
  | some x =>
    show OnCurve ⟨x, Field25519.decode s⟩ ∧ ∃ g, Ge.from_bytes s = some (some g) ∧ GeOk g ⟨x, Field25519.decode s⟩
    obtain ⟨hx, hcv, xfe, hd, tx, vx⟩ := hsome x hr
    rw [← hfb] at hd
    rw [vy] at hcv
    refine ⟨(onCurve_iff _).2 ⟨hx, ?_, hcv⟩, ?_⟩
    · rw [← vy]; exact Proofs.Fe32.eval_lt _
    · obtain ⟨t, et, tt, vt⟩ := mul_ok xfe yfe tx.w3 ty.w3
      refine ⟨⟨xfe, yfe, Fe.ONE, t⟩, ?_, tx, ty, tight_ONE, tt, ?_⟩
      · unfold Ge.from_bytes
        rw [hd]
        simp only [Ge.from_affine]
        rw [et, some_bind]
        rfl
      · show EdAlg.RepExt (ev xfe) (ev yfe) (ev Fe.ONE) (ev t) ((x : Nat) : Fp)
          ((Field25519.decode s : Nat) : Fp)
        rw [vt, ev_ONE, ← vx, ← vy]
        exact EdAlg.from_affine _ _

/-- the accepting case, for a string whose Spec decoding is known -/
theorem from_bytes_of_decode (s : Bytes) (hs : s.length = 32) (P : Edwards.Point) (hd : Edwards.decode s = some P) :
    OnCurve P ∧ ∃ g, Ge.from_bytes s = some (some g) ∧ GeOk g P := by
  have hdf := from_bytes_refines_decode s hs
  rw [hd] at hdf
  exact hdf

/-- the rejecting case -/
theorem from_bytes_of_decode_none (s : Bytes) (hs : s.length = 32) (hd : Edwards.decode s = none) :
    Ge.from_bytes s = some none := by
  have hdf := from_bytes_refines_decode s hs
  rw [hd] at hdf
  exact hdf

end Cx.Proofs.Ge32Decode
