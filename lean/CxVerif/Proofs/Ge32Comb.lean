/-
  Proofs.Ge32Comb — `Ge::scalarmult_base` of the 32-bit backend: the signed radix-16 comb over the GE_BASE table of
  fe32/precomp.rs computes `[a]B`.  Counterpart of Proofs/GeComb.lean; the ℤ-module algebra of the comb (`selA`,
  `partSum`, `comb_algebra`), the group structure on curve points (`GroupLawFact`, `cval_*`, `Bc`), the recoding
  theorem (Proofs/GeRecode.lean: the recoding loop only sees `i8` digits) and `selPoint_eq` are REUSED from there; new
  here are the 32-bit table theorem in the shape the loop needs (`row_ok`: each row of `Impl.Ge32.GE_BASE` has eight
  entries of weight 1 representing `[(k+1)·256^j]B`, from Proofs/Fe32Tables.lean), the loop refinement on the 32-bit
  limb model (select → add_precomp → to_full, every step inside the weight discipline of Proofs/Ge32Refine.lean) and the
  nibble contract of `scalar32::Scalar::nibbles`.
-/
import CxVerif.Proofs.Ge32Select
import CxVerif.Proofs.GeComb
import CxVerif.Proofs.Scalar32Digits
import CxVerif.Proofs.Scalar64Digits
namespace Cx.Proofs.Ge32Comb
open Cx Cx.Spec
open Cx.Spec.ScalarL (evalDigits)
open Cx.Impl.Fe32 Cx.Impl.Ge32 Cx.Proofs.EdField Cx.Proofs.EdSpec Cx.Proofs.Ge32Refine Cx.Proofs.Ge32Select
open Cx.Proofs.Fe32 (eval W some_bind pure_eq_some)
open Cx.Spec.Field25519 (p)
open Cx.Impl.Ge (recode)
open Cx.Proofs.GeSelect (pointOf)
open Cx.Proofs.GeComb (selA partSum comb_algebra GroupLawFact instCurveGroup cval_add cval_zero cval_neg cval_nsmul Bc
  selPoint_eq double_eq)

set_option maxRecDepth 10000

/-! ### the tables of fe32/precomp.rs as `Impl.Ge32.GePrecomp` values -/

/-- forget the record type: `Impl.Ge32.GePrecomp` and `Proofs.Fe32.Pre32` are the same three limb vectors -/
def toPre (e : GePrecomp) : Proofs.Fe32.Pre32 := ⟨e.y_plus_x, e.y_minus_x, e.xy2d⟩

theorem toPre_ofLimbs (l : List (List Int)) : toPre (GePrecomp.ofLimbs l) = Proofs.Fe32.Pre32.ofLimbs l := by
  match l with
  | [] => rfl
  | [_] => rfl
  | [_, _] => rfl
  | [_, _, _] => rfl
  | _ :: _ :: _ :: _ :: _ => rfl

theorem GE_BASE32_eq : Proofs.Fe32.GE_BASE32 = GE_BASE.map (·.map toPre) := by
  unfold Proofs.Fe32.GE_BASE32 GE_BASE
  rw [List.map_map]
  apply List.map_congr_left
  intro r _
  simp only [Function.comp, List.map_map]
  apply List.map_congr_left
  intro l _
  exact (toPre_ofLimbs l).symm

theorem BI32_eq : Proofs.Fe32.BI32 = BI.map toPre := by
  unfold Proofs.Fe32.BI32 BI
  rw [List.map_map]
  apply List.map_congr_left
  intro l _
  exact (toPre_ofLimbs l).symm

set_option maxRecDepth 1000000 in
theorem GE_BASE_rows8 : (GE_BASE.all fun row => row.length == 8) = true := by decide +kernel

theorem list8 {α : Type} (l : List α) (h : l.length = 8) : ∃ a0 a1 a2 a3 a4 a5 a6 a7, l = [a0, a1, a2, a3, a4, a5, a6, a7] := by
  match l, h with
  | [a0, a1, a2, a3, a4, a5, a6, a7], _ => exact ⟨a0, a1, a2, a3, a4, a5, a6, a7, rfl⟩

section loop
variable [hp : Fact (Nat.Prime p)]

/-- a 32-bit table entry that passed the kernel check (`red`: weight 1; `vals` = the Spec's `(y+x, y−x, 2dxy)`)
    represents its point -/
theorem precompOk_of_table (e : GePrecomp) (Q : Edwards.Point) (hb : (toPre e).red = true)
    (hv : (toPre e).vals = Edwards.precomp Q) : PrecompOk e Q := by
  simp only [Proofs.Fe32.Pre32.red, toPre, Bool.and_eq_true] at hb
  obtain ⟨⟨t1, t2⟩, t3⟩ := hb
  refine ⟨of_decide_eq_true t1, of_decide_eq_true t2, of_decide_eq_true t3, ?_⟩
  simp only [Proofs.Fe32.Pre32.vals, toPre, Edwards.precomp, Prod.mk.injEq] at hv
  obtain ⟨v1, v2, v3⟩ := hv
  have e1 : ev e.y_plus_x = (Q.y : Fp) + (Q.x : Fp) := by unfold ev; rw [v1, cast_add]
  have e2 : ev e.y_minus_x = (Q.y : Fp) - (Q.x : Fp) := by unfold ev; rw [v2, cast_sub]
  have e3 : ev e.xy2d = 2 * dF * (Q.x : Fp) * (Q.y : Fp) := by
    unfold ev; rw [v3, cast_mul, cast_mul]
    unfold Field25519.edwardsD2 dF Edwards.d; rw [cast_mul]; push_cast; ring
  exact ⟨e1, e2, e3⟩

/-- entry `[i][j]` of the 32-bit GE_BASE -/
theorem GE_BASE_entry (i j : Nat) (hi : i < 32) (hj : j < 8) :
    ∃ row e, GE_BASE[i]? = some row ∧ row[j]? = some e ∧
      PrecompOk e (Edwards.smul ((j + 1) * 256 ^ i) Edwards.B) := by
  obtain ⟨a, ha, hr, hv⟩ := Proofs.Fe32.GE_BASE32_entry i j hi hj
  rw [GE_BASE32_eq, List.getElem?_map] at ha
  cases hrow : GE_BASE[i]? with
  | none => rw [hrow] at ha; simp at ha
  | some row =>
    rw [hrow] at ha
    simp only [Option.map_some, Option.bind_some, List.getElem?_map] at ha
    cases he : row[j]? with
    | none => rw [he] at ha; simp at ha
    | some e =>
      rw [he] at ha
      simp only [Option.map_some, Option.some.injEq] at ha
      subst ha
      exact ⟨row, e, rfl, he, precompOk_of_table e _ hr hv⟩

/-- row `j` of GE_BASE: eight entries representing `[(k+1)·256^j]B` -/
theorem row_ok (j : Nat) (hj : j < 32) :
    ∃ e0 e1 e2 e3 e4 e5 e6 e7, GE_BASE[j]? = some [e0, e1, e2, e3, e4, e5, e6, e7] ∧
      ∀ k (e : GePrecomp), [e0, e1, e2, e3, e4, e5, e6, e7][k]? = some e →
        PrecompOk e (Edwards.smul ((k + 1) * 256 ^ j) Edwards.B) := by
  obtain ⟨row, e, hrow, _, _⟩ := GE_BASE_entry j 0 hj (by decide)
  have hlen : row.length = 8 := by
    have := GE_BASE_rows8
    rw [List.all_eq_true] at this
    have := this row (List.mem_of_getElem? hrow)
    simpa using this
  obtain ⟨e0, e1, e2, e3, e4, e5, e6, e7, rfl⟩ := list8 row hlen
  refine ⟨e0, e1, e2, e3, e4, e5, e6, e7, hrow, ?_⟩
  intro k e hk
  have hk8 : k < 8 := by
    by_contra h
    rw [List.getElem?_eq_none (by simp; omega)] at hk
    cases hk
  obtain ⟨row', e', hrow', he', hok⟩ := GE_BASE_entry j k hj hk8
  rw [hrow] at hrow'
  cases hrow'
  rw [hk] at he'
  cases he'
  exact hok

/-- entry `[k]` of the 32-bit BI: `[2k+1]B` -/
theorem BI_entry (k : Nat) (hk : k < 8) :
    ∃ e, BI[k]? = some e ∧ PrecompOk e (Edwards.smul (2 * k + 1) Edwards.B) := by
  obtain ⟨a, ha, hr, hv⟩ := Proofs.Fe32.BI32_entry k hk
  rw [BI32_eq, List.getElem?_map] at ha
  cases he : BI[k]? with
  | none => rw [he] at ha; simp at ha
  | some e =>
    rw [he] at ha
    simp only [Option.map_some, Option.some.injEq] at ha
    subst ha
    exact ⟨e, rfl, precompOk_of_table e _ hr hv⟩

variable [hG : GroupLawFact]

/-- one pass of the comb: `n` iterations from row `j` add `partSum` -/
theorem combLoop_ok (es : List Int) (hes : ∀ e ∈ es, -8 ≤ e ∧ e ≤ 8) (off : Nat) (hoff : off = 0 ∨ off = 1) :
    ∀ (n j : Nat) (h : Ge) (H : CurvePoint), j + n ≤ 32 → 2 * (j + n) ≤ es.length → GeOk h H.1 →
      ∃ h', combLoop es off n j h = some h' ∧ GeOk h' (H + partSum Bc off n (es.drop (2 * j)) j).1 := by
  intro n
  induction n with
  | zero => intro j h H _ _ hh; exact ⟨h, rfl, by simpa [partSum] using hh⟩
  | succ n ih =>
    intro j h H hj hlen hh
    -- the two digits of row j
    obtain ⟨e0, he0⟩ : ∃ e0, es[2 * j]? = some e0 := ⟨es[2 * j], by rw [List.getElem?_eq_getElem]⟩
    obtain ⟨e1, he1⟩ : ∃ e1, es[2 * j + 1]? = some e1 := ⟨es[2 * j + 1], by rw [List.getElem?_eq_getElem]⟩
    have hdrop : es.drop (2 * j) = e0 :: e1 :: es.drop (2 * (j + 1)) := by
      apply List.ext_getElem?
      intro i
      rw [List.getElem?_drop]
      match i with
      | 0 => simpa using he0
      | 1 => simpa using he1
      | i + 2 => simp only [List.getElem?_cons_succ, List.getElem?_drop]; congr 1; omega
    let e := if off = 0 then e0 else e1
    have hget : es[j * 2 + off]? = some e := by
      rcases hoff with h0 | h1
      · subst h0; simp only [e, if_true]; rw [Nat.mul_comm]; exact he0
      · subst h1; simp only [e, one_ne_zero, if_false]; rw [Nat.mul_comm]; exact he1
    have heb : -8 ≤ e ∧ e ≤ 8 := hes e (List.mem_of_getElem? hget)
    obtain ⟨a0, a1, a2, a3, a4, a5, a6, a7, hrow, hents⟩ := row_ok j (by omega)
    obtain ⟨t, ht, htok⟩ := select_ok j e heb a0 a1 a2 a3 a4 a5 a6 a7 hrow
      (fun k => Edwards.smul ((k + 1) * 256 ^ j) Edwards.B)
      (hents 0 a0 rfl) (hents 1 a1 rfl) (hents 2 a2 rfl) (hents 3 a3 rfl) (hents 4 a4 rfl) (hents 5 a5 rfl)
      (hents 6 a6 rfl) (hents 7 a7 rfl)
    rw [selPoint_eq] at htok
    obtain ⟨r, hr, hrok⟩ := add_precomp_ok h t H.1 (selA Bc j e).1 hh htok H.2 (selA Bc j e).2
    obtain ⟨h1, hh1, hh1ok⟩ := to_full_ok r _ hrok
    rw [← cval_add] at hh1ok
    obtain ⟨h', hh', hok'⟩ := ih (j + 1) h1 (H + selA Bc j e) (by omega) (by omega) hh1ok
    refine ⟨h', ?_, ?_⟩
    · simp only [combLoop]
      rw [hget, some_bind, ht, some_bind, hr, some_bind, hh1, some_bind]
      exact hh'
    · rw [hdrop]
      simp only [partSum]
      rw [← add_assoc]
      exact hok'


/-! ### the nibbles of a 32-bit scalar -/

/-- the contract of `Scalar::nibbles` used by the comb: the 64 nibbles of `s` are in [0,15], the top one is ≤ 7, and
    they denote `a` in radix 16 — i.e. `a < 2^255` is the value of `s` -/
def NibblesOf (s : Impl.Scalar32.Scalar) (a : Nat) : Prop :=
  (∀ e ∈ Impl.Scalar32.nibbles s, 0 ≤ e ∧ e ≤ 15) ∧
  (∀ t, (Impl.Scalar32.nibbles s)[63]? = some t → t ≤ 7) ∧
  evalDigits 16 (Impl.Scalar32.nibbles s) = a

omit hp hG in
/-- … which is a theorem for every scalar below 2^255 (from `Proofs.Scalar32.nibbles_spec`) -/
theorem nibblesOf (s : Impl.Scalar32.Scalar) (ha : leNat s.toList < 2 ^ 255) : NibblesOf s (leNat s.toList) := by
  have hn := Proofs.Scalar32.nibbles_spec s
  unfold Spec.ScalarL.radix16 at hn
  unfold NibblesOf
  rw [hn]
  generalize leNat s.toList = v at ha ⊢
  refine ⟨?_, ?_, ?_⟩
  · intro e he
    obtain ⟨d, hd, rfl⟩ := List.mem_map.1 he
    obtain ⟨i, hi, rfl⟩ := List.getElem_of_mem hd
    rw [Proofs.Scalar64.digits_getElem]
    have : v / 16 ^ i % 16 < 16 := Nat.mod_lt _ (by decide)
    constructor
    · exact Int.natCast_nonneg _
    · show ((v / 16 ^ i % 16 : Nat) : Int) ≤ 15
      omega
  · intro t ht
    rw [List.getElem?_map] at ht
    have hl : 63 < (Spec.ScalarL.digits 16 64 v).length := by rw [Proofs.Scalar64.digits_length]; decide
    rw [List.getElem?_eq_getElem hl, Proofs.Scalar64.digits_getElem] at ht
    simp only [Option.map_some, Option.some.injEq] at ht
    rw [← ht]
    have h1 : v / 16 ^ 63 < 8 := by
      rw [Nat.div_lt_iff_lt_mul (by decide)]
      exact Nat.lt_of_lt_of_le ha (by decide)
    show ((v / 16 ^ 63 % 16 : Nat) : Int) ≤ 7
    omega
  · rw [Proofs.Scalar64.evalDigits_digits, Nat.mod_eq_of_lt (Nat.lt_of_lt_of_le ha (by decide))]

omit hp hG in
theorem nibbles_length (s : Impl.Scalar32.Scalar) : (Impl.Scalar32.nibbles s).length = 64 := by
  rw [Proofs.Scalar32.nibbles_spec]; unfold Spec.ScalarL.radix16
  rw [List.length_map, Proofs.Scalar64.digits_length]

/-- `Ge::scalarmult_base(s)` represents `[a]B` (group law assumed), never panics, output limbs of weight 1 -/
theorem scalarmult_base_ok (s : Impl.Scalar32.Scalar) (a : Nat) (hn : NibblesOf s a) :
    ∃ h, Ge.scalarmult_base s = some h ∧ GeOk h (Edwards.smul a Edwards.B) := by
  obtain ⟨hr, htop, hval⟩ := hn
  obtain ⟨es, hes, hlen, hrange, hev⟩ :=
    Proofs.GeRecode.recode_spec (Impl.Scalar32.nibbles s) (nibbles_length s) hr htop
  simp only [Ge.scalarmult_base]
  rw [hes, some_bind]
  obtain ⟨h1, e, ok1⟩ := combLoop_ok es hrange 1 (Or.inr rfl) 32 0 Ge.ZERO 0 (by omega) (by omega) ZERO_ok
  rw [e, some_bind]
  simp only [Nat.mul_zero, List.drop_zero, zero_add] at ok1
  generalize hS1 : partSum Bc 1 32 es 0 = S1 at ok1
  -- four doublings
  obtain ⟨r, e, okr⟩ := ge_double_p1p1_ok h1 _ ok1 S1.2
  obtain ⟨q2, e2, okq2⟩ := to_partial_ok r _ okr
  have hd1 : h1.double_partial = some q2 := by simp only [Ge.double_partial]; rw [e, some_bind]; exact e2
  rw [hd1, some_bind, double_eq] at *
  obtain ⟨r, e, okr⟩ := partial_double_p1p1_ok q2 _ okq2 (S1 + S1).2
  obtain ⟨q4, e2, okq4⟩ := to_partial_ok r _ okr
  have hd2 : q2.double = some q4 := by simp only [GePartial.double]; rw [e, some_bind]; exact e2
  rw [hd2, some_bind, double_eq] at *
  obtain ⟨r, e, okr⟩ := partial_double_p1p1_ok q4 _ okq4 (S1 + S1 + (S1 + S1)).2
  obtain ⟨q8, e2, okq8⟩ := to_partial_ok r _ okr
  have hd3 : q4.double = some q8 := by simp only [GePartial.double]; rw [e, some_bind]; exact e2
  rw [hd3, some_bind, double_eq] at *
  obtain ⟨r, e, okr⟩ := partial_double_p1p1_ok q8 _ okq8 (S1 + S1 + (S1 + S1) + (S1 + S1 + (S1 + S1))).2
  obtain ⟨g16, e2, okg16⟩ := to_full_ok r _ okr
  have hd4 : q8.double_full = some g16 := by simp only [GePartial.double_full]; rw [e, some_bind]; exact e2
  rw [hd4, some_bind]
  rw [double_eq] at okg16
  obtain ⟨h2, e, ok2⟩ := combLoop_ok es hrange 0 (Or.inl rfl) 32 0 g16 _ (by omega) (by omega) okg16
  refine ⟨h2, e, ?_⟩
  simp only [Nat.mul_zero, List.drop_zero] at ok2
  have halg := comb_algebra Bc 32 es 0 (by omega)
  rw [hS1] at halg
  have htake : es.take (2 * 32) = es := List.take_of_length_le (by omega)
  rw [htake, hev, hval, pow_zero, mul_one, natCast_zsmul] at halg
  have : S1 + S1 + (S1 + S1) + (S1 + S1 + (S1 + S1)) + (S1 + S1 + (S1 + S1) + (S1 + S1 + (S1 + S1)))
      + partSum Bc 0 32 es 0 = a • Bc := by
    rw [← halg]; module
  rw [this, cval_nsmul] at ok2
  exact ok2

end loop

end Cx.Proofs.Ge32Comb
