/-
  Proofs.Ed25519Honest — the Spec predicate of Ed25519 verification (RFC 8032 §5.1.7, Spec/Ed25519.lean) ACCEPTS every
  signature produced by the Spec signer (§5.1.6) under the matching public key, and determines S uniquely.

  Ingredients, all theorems of this development (nothing assumed):
    * the group of curve points (Proofs/EdwardsGroupLaw.lean), primality of p and of L (Proofs/Prime25519.lean);
    * `[L]B = O` (kernel evaluation, Props/C14/Ed25519.lean) — with L prime and B ≠ O the order of B is exactly L, hence
      `[n mod L]B = [n]B` and `[m]B = [n]B → m = n` for m, n < L;
    * the public key decodes to the point it encodes (Proofs/EdRoundTrip.lean);
    * no multiple of B is encoded by the all-zero string: 0^32 decodes to a point Z with [4]Z = O, Z ≠ O, and a
      multiple of B killed by 4 and by L is O.
  Then `[S]B − [k]([a]B) = [r]B` for `S = (r + k·a) mod L` is group algebra.
-/
import CxVerif.Proofs.EdRoundTrip
import CxVerif.Proofs.EdwardsGroupLaw
import CxVerif.Proofs.Prime25519
import CxVerif.Props.C14.Ed25519
import Mathlib.GroupTheory.OrderOfElement
namespace Cx.Proofs.Ed25519Honest
open Cx Cx.Spec Cx.Proofs.EdSpec Cx.Proofs.GeComb
open Cx.Proofs.EdGroup (edwardsGroupLaw)
open Cx.Spec.Edwards (Point smul add neg zero B encode decode)
open Cx.Spec.Field25519 (p)
open Cx.Spec.ScalarL (L)

set_option maxRecDepth 10000

/-- the group law, as the class the group instance on `CurvePoint` is keyed on (local: a theorem, not a hypothesis) -/
theorem groupLawFact : GroupLawFact := ⟨edwardsGroupLaw⟩
attribute [local instance] groupLawFact

/-! ### the order of the base point -/

theorem L_nsmul_Bc : L • Bc = 0 :=
  Subtype.ext (by rw [cval_nsmul]; exact Cx.Props.C14.L_times_B_is_zero)

theorem Bc_ne_zero : Bc ≠ 0 := by
  intro h
  have h1 : Edwards.Bx = 0 := congrArg (fun P : CurvePoint => P.1.x) h
  exact absurd h1 (by decide)

/-- **the base point has order exactly L** -/
theorem addOrderOf_Bc : addOrderOf Bc = L := addOrderOf_eq_prime L_nsmul_Bc Bc_ne_zero

theorem nsmul_mod_L (n : Nat) : (n % L) • Bc = n • Bc := by
  have := mod_addOrderOf_nsmul Bc n
  rwa [addOrderOf_Bc] at this

theorem nsmul_Bc_inj {m n : Nat} (hm : m < L) (hn : n < L) (h : m • Bc = n • Bc) : m = n := by
  have h1 := nsmul_eq_nsmul_iff_modEq.1 h
  rw [addOrderOf_Bc] at h1
  unfold Nat.ModEq at h1
  rwa [Nat.mod_eq_of_lt hm, Nat.mod_eq_of_lt hn] at h1

theorem smulB_val (n : Nat) : smul n B = (n • Bc).1 := by rw [cval_nsmul]; rfl

/-- scalars of the base point may be reduced modulo L -/
theorem smul_mod_L (n : Nat) : smul (n % L) B = smul n B := by
  rw [smulB_val, smulB_val, nsmul_mod_L]

/-- `[m]B = [n]B` for canonical scalars forces `m = n` -/
theorem smulB_inj {m n : Nat} (hm : m < L) (hn : n < L) (h : smul m B = smul n B) : m = n := by
  rw [smulB_val, smulB_val] at h
  exact nsmul_Bc_inj hm hn (Subtype.ext h)

theorem smulB_onCurve (n : Nat) : OnCurve (smul n B) := smul_onCurve edwardsGroupLaw _ _ Proofs.Ge.B_spec.1

/-- **the signing equation**: `[S]B − [k]([a]B) = [r]B` for `S = (r + k·a) mod L` -/
theorem sign_equation (r k a : Nat) :
    Edwards.sub (smul ((r + k * a) % L) B) (smul k (smul a B)) = smul r B := by
  have h2 : smul k (smul a B) = (k • (a • Bc)).1 := by rw [cval_nsmul, cval_nsmul]; rfl
  unfold Edwards.sub
  rw [smulB_val, h2, smulB_val r, ← cval_neg, ← cval_add]
  congr 1
  rw [nsmul_mod_L, add_nsmul, mul_nsmul']
  abel

/-! ### no multiple of B is encoded by the all-zero string -/

set_option maxRecDepth 100000 in
/-- the all-zero string decodes to a point of order 4 (kernel evaluation) -/
theorem zeros_decode_fact :
    (decode (zeros 32)).all (fun Z => smul 4 Z == zero && Z != zero) = true := by decide +kernel

theorem gcd_4_L : Nat.gcd 4 L = 1 := by decide

theorem encode_smulB_ne_zeros (a : Nat) : encode (smul a B) ≠ zeros 32 := by
  intro h
  have hd := EdRoundTrip.decode_encode _ (smulB_onCurve a)
  rw [h] at hd
  have hz := zeros_decode_fact
  rw [hd] at hz
  simp only [Option.all_some, Bool.and_eq_true, beq_iff_eq, bne_iff_ne] at hz
  obtain ⟨h4, hne⟩ := hz
  have g4 : 4 • (a • Bc) = 0 := Subtype.ext (by rw [cval_nsmul, cval_nsmul]; exact h4)
  have gL : L • (a • Bc) = 0 := by rw [← mul_nsmul', Nat.mul_comm, mul_nsmul', L_nsmul_Bc, smul_zero]
  have hdvd := Nat.dvd_gcd (addOrderOf_dvd_of_nsmul_eq_zero g4) (addOrderOf_dvd_of_nsmul_eq_zero gL)
  rw [gcd_4_L, Nat.dvd_one, AddMonoid.addOrderOf_eq_one_iff] at hdvd
  apply hne
  rw [smulB_val, hdvd]; rfl

/-! ### the Spec predicate, taken apart (for a GENERAL key string, so that no `match` on a concrete decoding is ever
    evaluated by the elaborator) -/

theorem verifyWith_intro (dec : Bytes → Option Point) (M A sig : Bytes) (P : Point) (hd : dec A = some P)
    (hlen : sig.length = 64) (hS : leNat (sig.drop 32) < Spec.Ed25519.L) (hz : A ≠ zeros 32)
    (heq : encode (Edwards.sub (smul (leNat (sig.drop 32)) B)
      (smul (leNat (Spec.Ed25519.H (sig.take 32 ++ A ++ M)) % Spec.Ed25519.L) P)) = sig.take 32) :
    Spec.Ed25519.verifyWith dec M A sig = true := by
  unfold Spec.Ed25519.verifyWith
  rw [hd]
  dsimp only
  rw [if_pos ⟨hlen, hS, hz⟩, heq]
  exact beq_self_eq_true _

theorem verifyWith_elim (dec : Bytes → Option Point) (M A sig : Bytes)
    (h : Spec.Ed25519.verifyWith dec M A sig = true) :
    ∃ P, dec A = some P ∧ sig.length = 64 ∧ leNat (sig.drop 32) < Spec.Ed25519.L ∧ A ≠ zeros 32 ∧
      encode (Edwards.sub (smul (leNat (sig.drop 32)) B)
        (smul (leNat (Spec.Ed25519.H (sig.take 32 ++ A ++ M)) % Spec.Ed25519.L) P)) = sig.take 32 := by
  unfold Spec.Ed25519.verifyWith at h
  cases hd : dec A with
  | none => rw [hd] at h; cases h
  | some P =>
    rw [hd] at h
    dsimp only at h
    by_cases hc : sig.length = 64 ∧ leNat (sig.drop 32) < Spec.Ed25519.L ∧ A ≠ zeros 32
    · rw [if_pos hc] at h
      exact ⟨P, rfl, hc.1, hc.2.1, hc.2.2, beq_iff_eq.1 h⟩
    · rw [if_neg hc] at h; cases h

/-- `signWith`, with its `let`s spelled out -/
theorem signWith_eq (a : Nat) (pre A M : Bytes) :
    Spec.Ed25519.signWith a pre A M =
      encode (smul (leNat (Spec.Ed25519.H (pre ++ M)) % Spec.Ed25519.L) B) ++
        natToLE 32 ((leNat (Spec.Ed25519.H (pre ++ M)) % Spec.Ed25519.L +
          leNat (Spec.Ed25519.H (encode (smul (leNat (Spec.Ed25519.H (pre ++ M)) % Spec.Ed25519.L) B) ++ A ++ M))
            % Spec.Ed25519.L * a) % Spec.Ed25519.L) := rfl

theorem L_lt : L < 256 ^ 32 := by decide

theorem signWith_length (a : Nat) (pre A M : Bytes) : (Spec.Ed25519.signWith a pre A M).length = 64 := by
  rw [signWith_eq, List.length_append, Ed25519Sign.encode_length, Proofs.Fe64.natToLE_length]

/-- **every signature made with the scalar `a` verifies under the key `encode([a]B)`** (any prefix, any message) -/
theorem verify_signWith (a : Nat) (pre M : Bytes) :
    Spec.Ed25519.verify M (encode (smul a B)) (Spec.Ed25519.signWith a pre (encode (smul a B)) M) = true := by
  have hLpos : 0 < L := by decide
  unfold Spec.Ed25519.verify
  apply verifyWith_intro decode M _ _ (smul a B) (EdRoundTrip.decode_encode _ (smulB_onCurve a))
    (signWith_length _ _ _ _)
  · -- S < L
    rw [signWith_eq, List.drop_left' (Ed25519Sign.encode_length _), Proofs.Fe64.leNat_natToLE]
    exact Nat.lt_of_le_of_lt (Nat.mod_le _ _) (Nat.mod_lt _ hLpos)
  · exact encode_smulB_ne_zeros a
  · rw [signWith_eq, List.drop_left' (Ed25519Sign.encode_length _), List.take_left' (Ed25519Sign.encode_length _),
      Proofs.Fe64.leNat_natToLE]
    unfold Spec.Ed25519.L
    rw [Nat.mod_eq_of_lt (Nat.lt_trans (Nat.mod_lt _ hLpos) L_lt), sign_equation]

/-- **honest signatures verify** (Spec level): `verify M (publicKey seed) (sign seed M)` for every seed and message -/
theorem verify_sign (seed M : Bytes) :
    Spec.Ed25519.verify M (Spec.Ed25519.publicKey seed) (Spec.Ed25519.sign seed M) = true :=
  verify_signWith (Spec.Ed25519.secretScalar seed) (Spec.Ed25519.noncePrefix seed) M

/-- likewise for signatures made from a 64-byte extended secret -/
theorem verify_signExtended (ext M : Bytes) :
    Spec.Ed25519.verify M (Spec.Ed25519.extendedToPublic ext) (Spec.Ed25519.signExtended ext M) = true :=
  verify_signWith (leNat (ext.take 32)) (ext.drop 32) M

/-! ### S is determined by (M, A, R) -/

theorem decode_length (s : Bytes) (P : Point) (h : decode s = some P) : s.length = 32 := by
  by_contra hl
  unfold Edwards.decode at h
  rw [if_neg hl] at h; cases h

/-- **two accepted signatures with the same R (same message, same key) have the same S** -/
theorem verify_S_unique (M A R S S' : Bytes) (hR : R.length = 32) (hS : S.length = 32) (hS' : S'.length = 32)
    (h : Spec.Ed25519.verify M A (R ++ S) = true) (h' : Spec.Ed25519.verify M A (R ++ S') = true) : S = S' := by
  obtain ⟨P, hd, _, hlt, _, heq⟩ := verifyWith_elim _ _ _ _ h
  obtain ⟨P', hd', _, hlt', _, heq'⟩ := verifyWith_elim _ _ _ _ h'
  rw [hd] at hd'
  have : P = P' := Option.some.inj hd'
  subst this
  have hP : OnCurve P := (EdRoundTrip.from_bytes_of_decode A (decode_length A P hd) P hd).1
  rw [List.drop_left' hR] at hlt hlt' heq heq'
  rw [List.take_left' hR] at heq heq'
  generalize leNat (Spec.Ed25519.H (R ++ A ++ M)) % Spec.Ed25519.L = k at heq heq'
  have hkP : OnCurve (smul k P) := smul_onCurve edwardsGroupLaw _ _ hP
  have hc : ∀ s, OnCurve (Edwards.sub (smul s B) (smul k P)) := fun s =>
    edwardsGroupLaw.closed _ _ (smulB_onCurve s) (neg_onCurve _ hkP)
  have hpt := EdRoundTrip.encode_injective_on_curve _ _ (hc _) (hc _) (heq.trans heq'.symm)
  -- in the group
  let Q : CurvePoint := ⟨smul k P, hkP⟩
  have e : ∀ s, Edwards.sub (smul s B) (smul k P) = (s • Bc + -Q).1 := by
    intro s; unfold Edwards.sub; rw [smulB_val, cval_add, cval_neg]
  rw [e, e] at hpt
  have hg : leNat S • Bc = leNat S' • Bc := add_right_cancel (Subtype.ext hpt)
  have hv : leNat S = leNat S' := nsmul_Bc_inj hlt hlt' hg
  have r1 := Proofs.Scalar64.natToLE_leNat S
  have r2 := Proofs.Scalar64.natToLE_leNat S'
  rw [hS] at r1; rw [hS'] at r2
  rw [← r1, ← r2, hv]

end Cx.Proofs.Ed25519Honest
