/-
  Proofs.Scalar32Digits — `Scalar::bits` and `Scalar::nibbles` of scalar32 (byte-array representation) are the 256
  binary / 64 radix-16 digits of the little-endian value, for every 32-byte scalar.
-/
import CxVerif.Impl.Scalar32
import CxVerif.Spec.ScalarL
namespace Cx.Proofs.Scalar32
open Cx Cx.Impl.Scalar32

theorem nib_lo (a : UInt8) : ((a >>> (0 : UInt8)) &&& (0b1111 : UInt8)).toNat = a.toNat % 16 := by
  rw [UInt8.toNat_and, UInt8.toNat_shiftRight]
  have : (0b1111 : UInt8).toNat = 2^4 - 1 := rfl
  rw [this, Nat.and_two_pow_sub_one_eq_mod]
  simp
theorem nib_hi (a : UInt8) : ((a >>> (4 : UInt8)) &&& (0b1111 : UInt8)).toNat = a.toNat / 16 % 16 := by
  rw [UInt8.toNat_and, UInt8.toNat_shiftRight]
  have : (0b1111 : UInt8).toNat = 2^4 - 1 := rfl
  rw [this, Nat.and_two_pow_sub_one_eq_mod]
  have h4 : (4 : UInt8).toNat % 8 = 4 := rfl
  rw [h4, Nat.shiftRight_eq_div_pow]

theorem nibbles_list : ∀ (l : List UInt8),
    l.flatMap (fun a => [((((a >>> (0 : UInt8)) &&& (0b1111 : UInt8)).toNat : Nat) : Int), ((((a >>> (4 : UInt8)) &&& (0b1111 : UInt8)).toNat : Nat) : Int)])
      = (Spec.ScalarL.digits 16 (2 * l.length) (leNat l)).map Int.ofNat := by
  intro l
  induction l with
  | nil => rfl
  | cons a t ih =>
    have ha := a.toNat_lt
    simp only [List.flatMap_cons, List.length_cons, leNat]
    rw [show 2 * (t.length + 1) = (2 * t.length + 1) + 1 by omega]
    simp only [Spec.ScalarL.digits, List.map_cons, List.cons_append, List.nil_append]
    rw [ih, nib_lo, nib_hi]
    have e1 : (a.toNat + 256 * leNat t) % 16 = a.toNat % 16 := by omega
    have e2 : (a.toNat + 256 * leNat t) / 16 % 16 = a.toNat / 16 % 16 := by omega
    have e3 : (a.toNat + 256 * leNat t) / 16 / 16 = leNat t := by omega
    rw [e1, e2, e3]
    rfl

theorem digits_eq_range (b : Nat) : ∀ (n v : Nat),
    Spec.ScalarL.digits b n v = (List.range n).map (fun i => v / b^i % b) := by
  intro n
  induction n with
  | zero => intro v; rfl
  | succ n ih =>
    intro v
    rw [Spec.ScalarL.digits, ih, List.range_succ_eq_map, List.map_cons, List.map_map]
    congr 1
    · simp
    · apply List.map_congr_left
      intro i _
      simp only [Function.comp, Nat.pow_succ, Nat.div_div_eq_div_mul]
      rw [Nat.mul_comm]

theorem bit_of_byte (a m i : Nat) (ha : a < 256) (hi : i < 8) : (a + 256 * m) / 2^i % 2 = a / 2^i % 2 := by
  have : i = 0 ∨ i = 1 ∨ i = 2 ∨ i = 3 ∨ i = 4 ∨ i = 5 ∨ i = 6 ∨ i = 7 := by omega
  rcases this with h | h | h | h | h | h | h | h <;> subst h <;> omega

theorem leNat_bit : ∀ (l : List UInt8) (i : Nat), i < 8 * l.length →
    leNat l / 2^i % 2 = (l.getD (i / 8) 0).toNat / 2^(i % 8) % 2 := by
  intro l
  induction l with
  | nil => intro i h; simp at h
  | cons a t ih =>
    intro i h
    have ha := a.toNat_lt
    simp only [leNat]
    by_cases h8 : i < 8
    · have e1 : i / 8 = 0 := by omega
      have e2 : i % 8 = i := by omega
      rw [e1, e2]
      simp only [List.getD_cons_zero]
      exact bit_of_byte _ _ _ ha h8
    · obtain ⟨j, rfl⟩ : ∃ j, i = 8 + j := ⟨i - 8, by omega⟩
      have e1 : (8 + j) / 8 = j / 8 + 1 := by omega
      have e2 : (8 + j) % 8 = j % 8 := by omega
      rw [e1, e2, List.getD_cons_succ, Nat.pow_add, ← Nat.div_div_eq_div_mul]
      have e3 : (a.toNat + 256 * leNat t) / 2^8 = leNat t := by omega
      rw [e3]
      exact ih j (by simp at h; omega)

theorem bit_u8 (x : UInt8) (k : Nat) (hk : k < 8) :
    ((1 : UInt8) &&& (x >>> UInt8.ofNat k)).toNat = x.toNat / 2^k % 2 := by
  rw [UInt8.toNat_and, UInt8.toNat_shiftRight, UInt8.toNat_ofNat']
  have h1 : (1 : UInt8).toNat = 1 := rfl
  have h2 : k % 2^8 % 8 = k := by omega
  rw [h1, h2, Nat.and_comm, Nat.and_one_is_mod, Nat.shiftRight_eq_div_pow]

theorem bits_spec (s : Scalar) : bits s = (Spec.ScalarL.bitsLE (leNat s.toList)).map Int.ofNat := by
  unfold bits Spec.ScalarL.bitsLE
  rw [digits_eq_range, List.map_map]
  apply List.map_congr_left
  intro i hi
  have hi' : i < 256 := List.mem_range.mp hi
  simp only [Function.comp]
  have hl : s.toList.length = 32 := by simp
  rw [leNat_bit s.toList i (by omega)]
  have e1 : i >>> 3 = i / 8 := by rw [Nat.shiftRight_eq_div_pow]
  have e2 : i &&& 7 = i % 8 := by
    have : (7 : Nat) = 2^3 - 1 := rfl
    rw [this, Nat.and_two_pow_sub_one_eq_mod]
  rw [e1, e2, bit_u8 _ _ (by omega)]
  simp

theorem nibbles_spec (s : Scalar) : nibbles s = (Spec.ScalarL.radix16 (leNat s.toList)).map Int.ofNat := by
  unfold nibbles Spec.ScalarL.radix16
  have := nibbles_list s.toList
  have hl : s.toList.length = 32 := by simp
  rw [hl] at this
  exact this

end Cx.Proofs.Scalar32
