/-
  Proofs.KeccakVectors — TESTS (not theorems): published digests evaluated on the Spec and on the Impl model with the
  Lean evaluator (`#guard`).  They validate the transcription of FIPS 202 in Spec/Keccak.lean against the world; in
  particular the pre-NIST Keccak variants, for which the sandbox has no library oracle (SHA-3 is also compared with
  Python's hashlib by the runner).  Sources: FIPS 202 example values / the Keccak team's known-answer tests /
  the tests inside src/hashing/sha3.rs and keccak.rs.
-/
import CxVerif.Spec.Keccak
import CxVerif.Impl.Sha3
namespace Cx.Proofs.KeccakVectors
open Cx Cx.Spec.Keccak

def abc : Bytes := [0x61, 0x62, 0x63]
def fox : Bytes := "The quick brown fox jumps over the lazy dog".toUTF8.toList

#guard Hex.encode (sha3_224 []) == "6b4e03423667dbb73b6e15454f0eb1abd4597f9a1b078e3f5b5a6bc7"
#guard Hex.encode (sha3_256 []) == "a7ffc6f8bf1ed76651c14756a061d662f580ff4de43b49fa82d80a4b80f8434a"
#guard Hex.encode (sha3_384 []) == "0c63a75b845e4f7d01107d852e4c2485c51a50aaaa94fc61995e71bbee983a2ac3713831264adb47fb6bd1e058d5f004"
#guard Hex.encode (sha3_512 []) == "a69f73cca23a9ac5c8b567dc185a756e97c982164fe25859e0d1dcc1475c80a615b2123af1f5f94c11e3e9402c3ac558f500199d95b6d3e301758586281dcd26"
#guard Hex.encode (sha3_224 abc) == "e642824c3f8cf24ad09234ee7d3c766fc9a3a5168d0c94ad73b46fdf"
#guard Hex.encode (sha3_256 abc) == "3a985da74fe225b2045c172d6bd390bd855f086e3e9d525b46bfe24511431532"
#guard Hex.encode (sha3_384 abc) == "ec01498288516fc926459f58e2c6ad8df9b473cb0fc08c2596da7cf0e49be4b298d88cea927ac7f539f1edf228376d25"
#guard Hex.encode (sha3_512 fox) == "01dedd5de4ef14642445ba5f5b97c15e47b9ad931326e4b0727cd94cefc44fff23f07bf543139939b49128caf436dc1bdee54fcb24023a08d9403f9b4bf0d450"
#guard Hex.encode (keccak224 []) == "f71837502ba8e10837bdd8d365adb85591895602fc552b48b7390abd"
#guard Hex.encode (keccak256 []) == "c5d2460186f7233c927e7db2dcc703c0e500b653ca82273b7bfad8045d85a470"
#guard Hex.encode (keccak384 []) == "2c23146a63a29acf99e73b88f8c24eaa7dc60aa771780ccc006afbfa8fe2479b2dd2b21362337441ac12b515911957ff"
#guard Hex.encode (keccak512 []) == "0eab42de4c3ceb9235fc91acffe746b29c29a8c366b7c60e4e67c466f36a4304c00fa9caf9d87976ba469bcbe06713b435f091ef2769fb160cdab33d3670680e"
#guard Hex.encode (keccak256 abc) == "4e03657aea45a94fc7d47ba826c8d667c0d1e6e33a64a036ec44f58fa12d6c45"
#guard Hex.encode (keccak512 fox) == "d135bb84d0439dbac432247ee573a23ea7d3c9deb2a968eb31d47c4fb45f1ef4422d6c531b5b9bd6f449ebcc449ea94d0a8f05f62130fda612da53c79659f609"
-- the Impl model on the same inputs (a test of the model's executable; the theorem is Props.C01)
#guard (Impl.Sha3.sha3_256 abc).map Hex.encode == some "3a985da74fe225b2045c172d6bd390bd855f086e3e9d525b46bfe24511431532"
#guard (Impl.Sha3.keccak256 []).map Hex.encode == some "c5d2460186f7233c927e7db2dcc703c0e500b653ca82273b7bfad8045d85a470"
-- the formula-generated constants: first/last round constant, two ρ offsets
#guard RCnat 0 == 1 && RCnat 1 == 0x8082 && RCnat 23 == 0x8000000080008008
#guard rhoOffset 0 0 == none && rhoOffset 1 0 == some 1 && rhoOffset 2 3 == some 15 && rhoOffset 4 4 == some 14

end Cx.Proofs.KeccakVectors
