/-
  Proofs.Ge32Select — `GePrecomp::select(pos, b)` of the 32-bit backend (constant-time table lookup with conditional
  negation over `[i32; 10]` limb arrays): for `pos < 32` and `−8 ≤ b ≤ 8` it returns the identity (b = 0), the table
  entry `GE_BASE[pos][|b|−1]` (b > 0) or its negation (b < 0).  Counterpart of Proofs/GeSelect.lean; the masked sets are
  the `u32`-word theorems of Props/C18 (through Proofs/Fe32Pred: every limb of weight ≤ 63 is an `i32`, so the
  `as u32` / `as i32` round trip of the masked move is the identity).
-/
import CxVerif.Proofs.Ge32Refine
import CxVerif.Proofs.GeSelect
namespace Cx.Proofs.Ge32Select
open Cx Cx.Spec Cx.Impl.Fe32 Cx.Impl.Ge32 Cx.Proofs.EdField Cx.Proofs.EdSpec Cx.Proofs.Ge32Refine
open Cx.Proofs.Fe32 (eval W I32 some_bind pure_eq_some)
open Cx.Props.C18 (Choice.ofBool)
open Cx.Impl.Ge (bnegativeOf babsOf)
open Cx.Proofs.GeSelect (ct_eq_ofBool ct_nonzero_ofBool ofNat_eq_iff pointOf babsOf_eq bnegativeOf_eq)

set_option maxRecDepth 10000

/-- all limbs of the three field elements fit a machine word (`i32`) -/
def PBnd (t : GePrecomp) : Prop := I32 t.y_plus_x ∧ I32 t.y_minus_x ∧ I32 t.xy2d

theorem tight_bnd64 {f : Fe} (h : W 1 f) : I32 f := h.i32

theorem precomp_maybe_set (t e : GePrecomp) (ht : PBnd t) (he : PBnd e) (c : Bool) :
    t.maybe_set e (Choice.ofBool c) = if c then e else t := by
  unfold GePrecomp.maybe_set
  rw [Proofs.Fe32.maybe_set_spec _ _ ht.1 he.1, Proofs.Fe32.maybe_set_spec _ _ ht.2.1 he.2.1,
    Proofs.Fe32.maybe_set_spec _ _ ht.2.2 he.2.2]
  cases c <;> rfl

theorem PBnd_ZERO : PBnd GePrecomp.ZERO :=
  ⟨tight_bnd64 tight_ONE, tight_bnd64 tight_ONE, tight_bnd64 tight_ZERO⟩

/-- one masked set of the lookup loop -/
theorem ms (t e : GePrecomp) (ht : PBnd t) (he : PBnd e) (m k : Nat) (hm : m < 256) (hk : k < 256) :
    t.maybe_set e (Impl.CT.u8_ct_eq (UInt8.ofNat m) (UInt8.ofNat k)) = (if m = k then e else t) ∧
    PBnd (if m = k then e else t) := by
  rw [ct_eq_ofBool, precomp_maybe_set t e ht he]
  by_cases h : m = k
  · simp [h, he]
  · have : ¬ (UInt8.ofNat m = UInt8.ofNat k) := fun hh => h ((ofNat_eq_iff hm hk).1 hh)
    simp [h, this, ht]

/-- the entry picked by magnitude `m` -/
def entryOf (e0 e1 e2 e3 e4 e5 e6 e7 : GePrecomp) (m : Nat) : GePrecomp :=
  match m with | 0 => GePrecomp.ZERO | 1 => e0 | 2 => e1 | 3 => e2 | 4 => e3 | 5 => e4 | 6 => e5 | 7 => e6 | _ => e7

/-- the eight masked sets of `select` for a magnitude `m ≤ 8`: entry `m−1`, or ZERO for `m = 0` -/
theorem select_steps (e0 e1 e2 e3 e4 e5 e6 e7 : GePrecomp)
    (h0 : PBnd e0) (h1 : PBnd e1) (h2 : PBnd e2) (h3 : PBnd e3) (h4 : PBnd e4) (h5 : PBnd e5) (h6 : PBnd e6)
    (h7 : PBnd e7) (m : Nat) (hm : m ≤ 8) :
    ((((((((GePrecomp.ZERO.maybe_set e0 (Impl.CT.u8_ct_eq (UInt8.ofNat m) (UInt8.ofNat (0 + 1)))).maybe_set e1
      (Impl.CT.u8_ct_eq (UInt8.ofNat m) (UInt8.ofNat (1 + 1)))).maybe_set e2
      (Impl.CT.u8_ct_eq (UInt8.ofNat m) (UInt8.ofNat (2 + 1)))).maybe_set e3
      (Impl.CT.u8_ct_eq (UInt8.ofNat m) (UInt8.ofNat (3 + 1)))).maybe_set e4
      (Impl.CT.u8_ct_eq (UInt8.ofNat m) (UInt8.ofNat (4 + 1)))).maybe_set e5
      (Impl.CT.u8_ct_eq (UInt8.ofNat m) (UInt8.ofNat (5 + 1)))).maybe_set e6
      (Impl.CT.u8_ct_eq (UInt8.ofNat m) (UInt8.ofNat (6 + 1)))).maybe_set e7
      (Impl.CT.u8_ct_eq (UInt8.ofNat m) (UInt8.ofNat (7 + 1))))
    = entryOf e0 e1 e2 e3 e4 e5 e6 e7 m := by
  have hm' : m < 256 := by omega
  obtain ⟨s1, b1⟩ := ms _ e0 PBnd_ZERO h0 m (0 + 1) hm' (by decide); rw [s1]
  obtain ⟨s2, b2⟩ := ms _ e1 b1 h1 m (1 + 1) hm' (by decide); rw [s2]
  obtain ⟨s3, b3⟩ := ms _ e2 b2 h2 m (2 + 1) hm' (by decide); rw [s3]
  obtain ⟨s4, b4⟩ := ms _ e3 b3 h3 m (3 + 1) hm' (by decide); rw [s4]
  obtain ⟨s5, b5⟩ := ms _ e4 b4 h4 m (4 + 1) hm' (by decide); rw [s5]
  obtain ⟨s6, b6⟩ := ms _ e5 b5 h5 m (5 + 1) hm' (by decide); rw [s6]
  obtain ⟨s7, b7⟩ := ms _ e6 b6 h6 m (6 + 1) hm' (by decide); rw [s7]
  obtain ⟨s8, _⟩ := ms _ e7 b7 h7 m (7 + 1) hm' (by decide); rw [s8]
  interval_cases m <;> simp [entryOf]

section prime
variable [hp : Fact (Nat.Prime Field25519.p)]

theorem _root_.Cx.Proofs.Ge32Refine.PrecompOk.pbnd {e : GePrecomp} {Q : Edwards.Point} (h : PrecompOk e Q) : PBnd e :=
  ⟨tight_bnd64 h.tp, tight_bnd64 h.tm, tight_bnd64 h.tt⟩

theorem precompZERO_ok : PrecompOk GePrecomp.ZERO Edwards.zero :=
  ⟨tight_ONE, tight_ONE, tight_ZERO, by
    show EdAlg.RepPrecomp dF (ev Fe.ONE) (ev Fe.ONE) (ev Fe.ZERO) ((0 : Nat) : Fp) ((1 : Nat) : Fp)
    rw [ev_ZERO, ev_ONE]; push_cast; exact EdAlg.precomp_zero dF⟩

theorem entry_ok (e0 e1 e2 e3 e4 e5 e6 e7 : GePrecomp) (Q : Nat → Edwards.Point)
    (h0 : PrecompOk e0 (Q 0)) (h1 : PrecompOk e1 (Q 1)) (h2 : PrecompOk e2 (Q 2)) (h3 : PrecompOk e3 (Q 3))
    (h4 : PrecompOk e4 (Q 4)) (h5 : PrecompOk e5 (Q 5)) (h6 : PrecompOk e6 (Q 6)) (h7 : PrecompOk e7 (Q 7))
    (m : Nat) (hm : m ≤ 8) : PrecompOk (entryOf e0 e1 e2 e3 e4 e5 e6 e7 m) (pointOf Q m) := by
  interval_cases m <;> simp only [entryOf, pointOf] <;> first | exact precompZERO_ok | assumption

/-- `GePrecomp::select`: identity, table entry or negated table entry -/
theorem select_ok (pos : Nat) (b : Int) (hb : -8 ≤ b ∧ b ≤ 8) (e0 e1 e2 e3 e4 e5 e6 e7 : GePrecomp)
    (hrow : GE_BASE[pos]? = some [e0, e1, e2, e3, e4, e5, e6, e7]) (Q : Nat → Edwards.Point)
    (h0 : PrecompOk e0 (Q 0)) (h1 : PrecompOk e1 (Q 1)) (h2 : PrecompOk e2 (Q 2)) (h3 : PrecompOk e3 (Q 3))
    (h4 : PrecompOk e4 (Q 4)) (h5 : PrecompOk e5 (Q 5)) (h6 : PrecompOk e6 (Q 6)) (h7 : PrecompOk e7 (Q 7)) :
    ∃ t, GePrecomp.select pos b = some t ∧
      PrecompOk t (if b < 0 then Edwards.neg (pointOf Q b.natAbs) else pointOf Q b.natAbs) := by
  have hm : b.natAbs ≤ 8 := by omega
  have hent := entry_ok e0 e1 e2 e3 e4 e5 e6 e7 Q h0 h1 h2 h3 h4 h5 h6 h7 b.natAbs hm
  have hsteps := select_steps e0 e1 e2 e3 e4 e5 e6 e7 h0.pbnd h1.pbnd h2.pbnd h3.pbnd h4.pbnd h5.pbnd h6.pbnd h7.pbnd
    b.natAbs hm
  simp only [GePrecomp.select]
  rw [if_neg (by omega)]
  -- explicit proofs for the `rfl` steps: the kernel must not re-derive the whole monadic reduction by unfolding
  simp -implicitDefEqProofs only [babsOf_eq b hb, bnegativeOf_eq b hb, hrow, Option.bind_eq_bind, Option.bind_some, Option.pure_def,
    List.getElem?_cons_zero, List.getElem?_cons_succ]
  rw [hsteps]
  change ∃ t, ((Impl.Fe32.neg (entryOf e0 e1 e2 e3 e4 e5 e6 e7 b.natAbs).xy2d).bind fun nxy => _) = some t ∧ _
  obtain ⟨n, e, hn, vn⟩ := neg_ok _ hent.tt
  rw [e, Option.bind_some, ct_nonzero_ofBool]
  have hminus : PrecompOk ⟨(entryOf e0 e1 e2 e3 e4 e5 e6 e7 b.natAbs).y_minus_x,
      (entryOf e0 e1 e2 e3 e4 e5 e6 e7 b.natAbs).y_plus_x, n⟩ (Edwards.neg (pointOf Q b.natAbs)) :=
    ⟨hent.tm, hent.tp, hn, by
      simp only [vn, cast_neg_x, cast_neg_y]
      exact EdAlg.precomp_neg hent.rep⟩
  rw [precomp_maybe_set _ _ hent.pbnd hminus.pbnd]
  by_cases hneg : b < 0
  · refine ⟨_, rfl, ?_⟩
    simp only [hneg, if_true]
    have : decide (UInt8.ofNat 1 ≠ 0) = true := by decide
    rw [this]; exact hminus
  · refine ⟨_, rfl, ?_⟩
    simp only [hneg, if_false]
    have : decide (UInt8.ofNat 0 ≠ 0) = false := by decide
    rw [this]; exact hent

end prime

end Cx.Proofs.Ge32Select
