/-
  Proofs.KdfScryptMix — `scrypt_block_mix`, `integerify`, `scrypt_ro_mix` of src/scrypt.rs (Impl.Kdf) against
  scryptBlockMix / Integerify / scryptROMix of RFC 7914 §4, §5 (Spec.Kdf).

  * `scrypt_block_mix_eq`: the chunk loop with its output interleaving (even blocks to the first half of `output`,
    odd blocks to the second half) = `Spec.Kdf.blockMix r`, by induction over PAIRS of 64-byte chunks with the buffer
    invariant `output = E ‖ G1 ‖ O ‖ G2` (E, O = the even/odd blocks written so far; G1, G2 = not yet written).
  * `integerify_eq`: the code reads 4 bytes little-endian and masks with N − 1; for N = 2^k, k ≤ 32 that is the
    little-endian integer of the whole last 64-byte block mod N.
  * `scrypt_ro_mix_eq`: both loops of ROMix.
  Core Lean only.
-/
import CxVerif.Proofs.KdfScryptSalsa
namespace Cx.Proofs.KdfScryptMix
open Cx Cx.Impl.Kdf Cx.Proofs.KdfScryptSalsa

/-! ### small buffer lemmas -/

theorem xorBytes_length (a b : Bytes) : (xorBytes a b).length = min a.length b.length := by
  simp [xorBytes]

/-- `xor(x, y, output)` with three buffers of the same length writes x ⊕ y over the whole of `output` -/
theorem xor_eq (x y out : Bytes) (n : Nat) (hx : x.length = n) (hy : y.length = n) (ho : out.length = n) :
    Impl.Kdf.xor x y out = xorBytes x y := by
  subst hx
  have h1 : (List.zipWith (fun a b : UInt8 => a ^^^ b) x y).length = x.length := by simp [hy]
  simp only [Impl.Kdf.xor, xorBytes, ho]
  rw [List.take_of_length_le (by omega), h1, List.drop_of_length_le (by omega), List.append_nil]

/-- `dst[pos..pos+src.len()].copy_from_slice(src)` inside the middle part `B` of `dst = A ‖ B ‖ C` -/
theorem write_at_mid (dst A B C src : Bytes) (pos : Nat) (hd : dst = A ++ B ++ C) (hp : pos = A.length)
    (hs : src.length ≤ B.length) : write_at dst pos src = some (A ++ src ++ B.drop src.length ++ C) := by
  subst hd hp
  have h1 : A.length + src.length ≤ (A ++ B ++ C).length := by simp; omega
  simp only [write_at, h1, if_true, Option.some.injEq]
  rw [List.append_assoc A B C, List.take_left, List.drop_append, List.drop_of_length_le (by omega)]
  simp only [List.nil_append, Nat.add_sub_cancel_left]
  rw [List.drop_append]
  by_cases h : src.length = B.length
  · simp [h]
  · rw [show src.length - B.length = 0 by omega]; simp

theorem takeBlocks_length (n : Nat) : ∀ (k : Nat) (d : Bytes), (takeBlocks n k d).length = k := by
  intro k
  induction k with
  | zero => intro d; rfl
  | succ k ih => intro d; simp [takeBlocks, ih]

theorem takeBlocks_mem_length (n : Nat) : ∀ (k : Nat) (d : Bytes), n * k ≤ d.length →
    ∀ c ∈ takeBlocks n k d, c.length = n := by
  intro k
  induction k with
  | zero => intro d _ c hc; simp [takeBlocks] at hc
  | succ k ih =>
    intro d hd c hc
    rw [Nat.mul_succ] at hd
    simp only [takeBlocks, List.mem_cons] at hc
    rcases hc with rfl | hc
    · simp; omega
    · exact ih (d.drop n) (by simp; omega) c hc

/-- the blocks of a string of exactly `k` blocks, concatenated, give the string back -/
theorem takeBlocks_flatten (n : Nat) : ∀ (k : Nat) (d : Bytes), d.length = n * k → (takeBlocks n k d).flatten = d := by
  intro k
  induction k with
  | zero => intro d hd; simp at hd; simp [takeBlocks, hd]
  | succ k ih =>
    intro d hd
    rw [Nat.mul_succ] at hd
    simp only [takeBlocks, List.flatten_cons]
    rw [ih (d.drop n) (by simp; omega), List.take_append_drop]

/-! ### scryptBlockMix -/

theorem blockMixYs_length : ∀ (bs : List Bytes) (X : Bytes), (Spec.Kdf.blockMixYs X bs).length = bs.length := by
  intro bs
  induction bs with
  | nil => intro X; rfl
  | cons b bs ih => intro X; simp [Spec.Kdf.blockMixYs, ih]

theorem blockMixYs_mem_length : ∀ (bs : List Bytes) (X : Bytes), ∀ y ∈ Spec.Kdf.blockMixYs X bs, y.length = 64 := by
  intro bs
  induction bs with
  | nil => intro X y hy; simp [Spec.Kdf.blockMixYs] at hy
  | cons b bs ih =>
    intro X y hy
    simp only [Spec.Kdf.blockMixYs, List.mem_cons] at hy
    rcases hy with rfl | hy
    · exact spec_salsa20_8_length _
    · exact ih _ y hy

theorem evens_odds_flatten_length : ∀ (Y : List Bytes), (∀ y ∈ Y, y.length = 64) →
    (Spec.Kdf.evens Y).flatten.length + (Spec.Kdf.odds Y).flatten.length = 64 * Y.length := by
  intro Y
  induction Y using Spec.Kdf.evens.induct with
  | case1 => intro _; rfl
  | case2 a => intro h; simp [Spec.Kdf.evens, Spec.Kdf.odds, h a (List.mem_singleton.mpr rfl)]
  | case3 a b t ih =>
    intro h
    have ha := h a (by simp)
    have hb := h b (by simp)
    have := ih (fun y hy => h y (by simp [hy]))
    simp only [Spec.Kdf.evens, Spec.Kdf.odds, List.flatten_cons, List.length_append, List.length_cons, ha, hb]
    omega

/-- scryptBlockMix maps (any string, read as 2r blocks) to 128·r octets -/
theorem blockMix_length (r : Nat) (B : Bytes) : (Spec.Kdf.blockMix r B).length = 128 * r := by
  simp only [Spec.Kdf.blockMix, List.length_append]
  rw [evens_odds_flatten_length _ (blockMixYs_mem_length _ _), blockMixYs_length, takeBlocks_length]
  omega

/-- the chunk loop, two chunks (one even, one odd block index) at a time; buffer invariant E ‖ G1 ‖ O ‖ G2 -/
theorem block_mix_loop_pairs (half : Nat) : ∀ (k : Nat) (chunks : List Bytes) (m : Nat) (x t E G1 O G2 : Bytes),
    chunks.length = 2 * k → (∀ c ∈ chunks, c.length = 64) → x.length = 64 → t.length = 64 →
    E.length = 64 * m → O.length = 64 * m → G1.length = 64 * k → G2.length = 64 * k → half = 64 * (m + k) →
    scrypt_block_mix_loop (2 * half) chunks (2 * m) x t (E ++ G1 ++ O ++ G2)
      = some (E ++ (Spec.Kdf.evens (Spec.Kdf.blockMixYs x chunks)).flatten
              ++ O ++ (Spec.Kdf.odds (Spec.Kdf.blockMixYs x chunks)).flatten) := by
  intro k
  induction k with
  | zero =>
    intro chunks m x t E G1 O G2 hc _ _ _ _ _ h1 h2 _
    have : chunks = [] := List.eq_nil_of_length_eq_zero (by omega)
    subst this
    have e1 : G1 = [] := List.eq_nil_of_length_eq_zero (by omega)
    have e2 : G2 = [] := List.eq_nil_of_length_eq_zero (by omega)
    subst e1 e2
    simp [scrypt_block_mix_loop, Spec.Kdf.blockMixYs, Spec.Kdf.evens, Spec.Kdf.odds]
  | succ k ih =>
    intro chunks m x t E G1 O G2 hc hcl hx ht hE hO hG1 hG2 hhalf
    match chunks, hc, hcl with
    | c0 :: c1 :: rest, hc, hcl =>
      have hc0 : c0.length = 64 := hcl c0 (by simp)
      have hc1 : c1.length = 64 := hcl c1 (by simp)
      have hrest : ∀ c ∈ rest, c.length = 64 := fun c h => hcl c (by simp [h])
      have hrl : rest.length = 2 * k := by simp only [List.length_cons] at hc; omega
      -- first chunk: even index 2m
      have ht1 : (xorBytes x c0).length = 64 := by rw [xorBytes_length, hx, hc0]; rfl
      have hY0 := spec_salsa20_8_length (xorBytes x c0)
      generalize hY0d : Spec.Kdf.salsa20_8 (xorBytes x c0) = Y0 at hY0
      have ht2 : (xorBytes Y0 c1).length = 64 := by rw [xorBytes_length, hY0, hc1]; rfl
      have hY1 := spec_salsa20_8_length (xorBytes Y0 c1)
      generalize hY1d : Spec.Kdf.salsa20_8 (xorBytes Y0 c1) = Y1 at hY1
      have w1 : write_at (E ++ G1 ++ O ++ G2) (2 * m / 2 * 64) Y0 = some (E ++ Y0 ++ G1.drop 64 ++ (O ++ G2)) := by
        have := write_at_mid (E ++ G1 ++ O ++ G2) E G1 (O ++ G2) Y0 (2 * m / 2 * 64) (by simp) (by omega) (by omega)
        rw [this, hY0]
      have w2 : write_at (E ++ Y0 ++ G1.drop 64 ++ (O ++ G2)) ((2 * m + 1) / 2 * 64 + 2 * half / 2) Y1
          = some ((E ++ Y0) ++ G1.drop 64 ++ (O ++ Y1) ++ G2.drop 64) := by
        have := write_at_mid (E ++ Y0 ++ G1.drop 64 ++ (O ++ G2)) (E ++ Y0 ++ G1.drop 64 ++ O) G2 [] Y1
          ((2 * m + 1) / 2 * 64 + 2 * half / 2) (by simp) (by simp; omega) (by omega)
        rw [this, hY1]; simp
      have step := ih rest (m + 1) Y1 (xorBytes Y0 c1) (E ++ Y0) (G1.drop 64) (O ++ Y1) (G2.drop 64) hrl hrest hY1 ht2
        (by simp; omega) (by simp; omega) (by simp; omega) (by simp; omega) (by omega)
      have e0 : (2 * m) % 2 = 0 := by omega
      have e1 : ¬ (2 * m + 1) % 2 = 0 := by omega
      simp only [scrypt_block_mix_loop, xor_eq x c0 t 64 hx hc0 ht, salsa20_8_eq _ ht1, hY0d, e0, if_true, w1,
        xor_eq Y0 c1 (xorBytes x c0) 64 hY0 hc1 ht1, salsa20_8_eq _ ht2, hY1d, e1, if_false, w2,
        show 2 * m + 1 + 1 = 2 * (m + 1) by omega, step, Spec.Kdf.blockMixYs, Spec.Kdf.evens, Spec.Kdf.odds,
        List.flatten_cons]
      simp only [List.append_assoc]

/-- **`scrypt_block_mix` = scryptBlockMix (RFC 7914 §4)** for every input of 2r 64-byte blocks (r > 0) and an output
    buffer of the same length: every byte of `output` is overwritten, even blocks first, then odd blocks. -/
theorem scrypt_block_mix_eq (r : Nat) (hr : 0 < r) (input output : Bytes) (hi : input.length = 128 * r)
    (ho : output.length = 128 * r) : scrypt_block_mix input output = some (Spec.Kdf.blockMix r input) := by
  have h1 : ¬ input.length < 64 := by omega
  have h2 : ¬ input.length % 64 > 0 := by omega
  have hq : input.length / 64 = 2 * r := by omega
  have hx : (input.drop (input.length - 64)).length = 64 := by simp; omega
  have hX : (input.drop (64 * (2 * r - 1))).take 64 = input.drop (input.length - 64) := by
    rw [show 64 * (2 * r - 1) = input.length - 64 by omega, List.take_of_length_le (by omega)]
  have := block_mix_loop_pairs (64 * r) r (takeBlocks 64 (2 * r) input) 0 (input.drop (input.length - 64)) (zeros 64)
    [] (output.take (64 * r)) [] (output.drop (64 * r)) (takeBlocks_length ..)
    (takeBlocks_mem_length 64 (2 * r) input (by omega)) hx (by simp [zeros]) rfl rfl (by simp; omega) (by simp; omega)
    (by omega)
  simp only [List.nil_append, List.append_nil, List.take_append_drop] at this
  simp only [scrypt_block_mix, h1, h2, if_false, hq, Spec.Kdf.blockMix, hX]
  generalize input.length - 64 = d at this ⊢
  rw [show input.length = 2 * (64 * r) by omega]
  exact this

/-- outside the domain: a non-multiple of 64 (or less than one block) panics -/
theorem scrypt_block_mix_refuses (input output : Bytes) (h : input.length < 64 ∨ input.length % 64 ≠ 0) :
    scrypt_block_mix input output = none := by
  simp only [scrypt_block_mix]
  by_cases h1 : input.length < 64
  · simp [h1]
  · have : input.length % 64 > 0 := by omega
    simp [h1, this]

/-! ### Integerify -/

theorem leNat_lt : ∀ (bs : Bytes), leNat bs < 256 ^ bs.length := by
  intro bs
  induction bs with
  | nil => simp [leNat]
  | cons b bs ih =>
    have := b.toNat_lt
    simp only [leNat, List.length_cons, Nat.pow_succ]
    omega

theorem leNat_split : ∀ (n : Nat) (bs : Bytes), leNat bs = leNat (bs.take n) + 256 ^ n * leNat (bs.drop n) := by
  intro n
  induction n with
  | zero => intro bs; simp [leNat]
  | succ n ih =>
    intro bs
    cases bs with
    | nil => simp [leNat]
    | cons b bs =>
      simp only [List.take_succ_cons, List.drop_succ_cons, leNat]
      rw [ih bs, Nat.pow_succ]
      generalize leNat (bs.take n) = A
      generalize leNat (bs.drop n) = C
      rw [Nat.mul_add, Nat.add_assoc, Nat.mul_assoc, Nat.mul_left_comm (256 ^ n) 256 C]

theorem leU32_toNat (bs : Bytes) : (leU32 bs).toNat = leNat (bs.take 4) := by
  have h := leNat_lt (bs.take 4)
  have h4 : (bs.take 4).length ≤ 4 := by simp; omega
  have : 256 ^ (bs.take 4).length ≤ 256 ^ 4 := Nat.pow_le_pow_right (by decide) h4
  simp only [leU32, UInt32.toNat_ofNat']
  exact Nat.mod_eq_of_lt (by omega)

/-- **`integerify`: the code reads the first 4 bytes of the last 64-byte block little-endian and masks with N − 1;
    for N = 2^k, k ≤ 32, this is Integerify(X) mod N of RFC 7914 (the whole block as a little-endian integer).**
    (For k > 32 it is NOT: the code never produces an index ≥ 2^32 — see `integerify_differs_above_32`.) -/
theorem integerify_eq (r : Nat) (hr : 0 < r) (x : Bytes) (hx : x.length = 128 * r) (n k : Nat) (hn : n = 2 ^ k)
    (hk : k ≤ 32) : integerify x n = some (Spec.Kdf.integerify r x % n) := by
  have hpos : 0 < 2 ^ k := Nat.two_pow_pos k
  have h1 : ¬ n = 0 := by omega
  have h2 : ¬ x.length < 64 := by omega
  simp only [integerify, h1, h2, if_false, Spec.Kdf.integerify, Option.some.injEq]
  rw [show 64 * (2 * r - 1) = x.length - 64 by omega, List.take_of_length_le (by simp; omega), leU32_toNat, hn,
    Nat.and_two_pow_sub_one_eq_mod, leNat_split 4 (x.drop (x.length - 64))]
  obtain ⟨d, hd⟩ : ∃ d, k + d = 32 := ⟨32 - k, by omega⟩
  rw [show (256 : Nat) ^ 4 = 2 ^ k * 2 ^ d by rw [← Nat.pow_add, hd], Nat.mul_assoc, Nat.add_mul_mod_self_left]

set_option maxRecDepth 100000 in
/-- beyond 2^32 the 4-byte read is not Integerify mod N: a block whose little-endian value is 2^32 -/
theorem integerify_differs_above_32 :
    let x : Bytes := zeros 64 ++ ([0, 0, 0, 0, 1] ++ zeros 59)
    integerify x (2 ^ 33) = some 0 ∧ Spec.Kdf.integerify 1 x % 2 ^ 33 = 2 ^ 32 := by decide

/-! ### scryptROMix -/

theorem iter_pred {α : Type} (P : α → Prop) (f : α → α) (hf : ∀ y, P (f y)) : ∀ (n : Nat) (x : α), P x →
    P (Spec.Stream.iter f n x) := by
  intro n
  induction n with
  | zero => intro x hx; exact hx
  | succ n ih => intro x _; exact ih _ (hf x)

theorem iterates_mem_length (r : Nat) : ∀ (n : Nat) (b : Bytes), b.length = 128 * r →
    ∀ c ∈ Spec.Kdf.iterates (Spec.Kdf.blockMix r) n b, c.length = 128 * r := by
  intro n
  induction n with
  | zero => intro b _ c hc; simp [Spec.Kdf.iterates] at hc
  | succ n ih =>
    intro b hb c hc
    simp only [Spec.Kdf.iterates, List.mem_cons] at hc
    rcases hc with rfl | hc
    · exact hb
    · exact ih _ (blockMix_length r b) c hc

theorem roMixStep_length (r : Nat) (V : List Bytes) (hV : V ≠ []) (X : Bytes) :
    (Spec.Kdf.roMixStep r V hV X).length = 128 * r := blockMix_length _ _

/-- scryptROMix maps 128·r octets to 128·r octets -/
theorem roMix_length (r N : Nat) (B : Bytes) (hB : B.length = 128 * r) : (Spec.Kdf.roMix r N B).length = 128 * r := by
  unfold Spec.Kdf.roMix
  split
  · exact hB
  · exact iter_pred (fun y : Bytes => y.length = 128 * r) _ (roMixStep_length r _ _) N _
      (iter_pred (fun y : Bytes => y.length = 128 * r) _ (blockMix_length r) N B hB)

/-- first loop: V[i] = X; X = scryptBlockMix(X), over the chunks of `v` -/
theorem ro_mix_fill_eq (r : Nat) (hr : 0 < r) : ∀ (v : List Bytes) (b : Bytes) (done : List Bytes),
    b.length = 128 * r → (∀ c ∈ v, c.length = 128 * r) →
    ro_mix_fill v b done = some (Spec.Stream.iter (Spec.Kdf.blockMix r) v.length b,
      (Spec.Kdf.iterates (Spec.Kdf.blockMix r) v.length b).reverse ++ done) := by
  intro v
  induction v with
  | nil => intro b done _ _; simp [ro_mix_fill, Spec.Stream.iter, Spec.Kdf.iterates]
  | cons c v ih =>
    intro b done hb hv
    have hc : c.length = 128 * r := hv c (by simp)
    have h1 : ¬ ¬ b.length ≤ c.length := by omega
    have hcp : Impl.Hmac.copy_prefix c b = b := by
      simp only [Impl.Hmac.copy_prefix]
      rw [List.drop_of_length_le (by omega), List.append_nil]
    simp only [ro_mix_fill, h1, if_false, hcp, scrypt_block_mix_eq r hr b b hb hb]
    rw [ih _ _ (blockMix_length r b) (fun c' h => hv c' (by simp [h]))]
    simp [Spec.Stream.iter, Spec.Kdf.iterates]

/-- second loop: j = Integerify(X) mod N; X = scryptBlockMix(X ⊕ V[j]) -/
theorem ro_mix_walk_eq (r : Nat) (hr : 0 < r) (V : List Bytes) (hV : V ≠ []) (kk : Nat) (hn : V.length = 2 ^ kk)
    (hkk : kk ≤ 32) (hVl : ∀ c ∈ V, c.length = 128 * r) : ∀ (k : Nat) (b t : Bytes),
    b.length = 128 * r → t.length = 128 * r →
    ∃ t', ro_mix_walk V V.length k b t = some (Spec.Stream.iter (Spec.Kdf.roMixStep r V hV) k b, t') ∧
      t'.length = 128 * r := by
  intro k
  induction k with
  | zero => intro b t _ ht; exact ⟨t, rfl, ht⟩
  | succ k ih =>
    intro b t hb ht
    have hj : Spec.Kdf.integerify r b % V.length < V.length := Nat.mod_lt _ (List.length_pos_iff.mpr hV)
    have hvj : (V[Spec.Kdf.integerify r b % V.length]'hj).length = 128 * r := hVl _ (List.getElem_mem _)
    have ht1 : (xorBytes b (V[Spec.Kdf.integerify r b % V.length]'hj)).length = 128 * r := by
      rw [xorBytes_length, hb, hvj]; exact Nat.min_self _
    obtain ⟨t', e, ht'⟩ := ih (Spec.Kdf.roMixStep r V hV b) (xorBytes b (V[Spec.Kdf.integerify r b % V.length]'hj))
      (roMixStep_length r V hV b) ht1
    refine ⟨t', ?_, ht'⟩
    simp only [ro_mix_walk, integerify_eq r hr b hb V.length kk hn hkk, List.getElem?_eq_getElem hj,
      xor_eq b _ t (128 * r) hb hvj ht, scrypt_block_mix_eq r hr _ b ht1 hb, Spec.Stream.iter]
    exact e

/-- **`scrypt_ro_mix` = scryptROMix (RFC 7914 §5)** for N = 2^k, k ≤ 32: `b` ← ROMix(b), the scratch vector `v`
    ends as V = [B, BlockMix B, …, BlockMix^{N−1} B], `t` keeps its length. -/
theorem scrypt_ro_mix_eq (r : Nat) (hr : 0 < r) (k : Nat) (hk : k ≤ 32) (b : Bytes) (v : List Bytes) (t : Bytes)
    (hb : b.length = 128 * r) (hv : v.length = 2 ^ k) (hvl : ∀ c ∈ v, c.length = 128 * r) (ht : t.length = 128 * r) :
    ∃ t', scrypt_ro_mix b v t (2 ^ k)
        = some (Spec.Kdf.roMix r (2 ^ k) b, Spec.Kdf.iterates (Spec.Kdf.blockMix r) (2 ^ k) b, t') ∧
      t'.length = 128 * r := by
  have hN : ¬ 2 ^ k = 0 := Nat.ne_of_gt (Nat.two_pow_pos k)
  have hVlen : (Spec.Kdf.iterates (Spec.Kdf.blockMix r) (2 ^ k) b).length = 2 ^ k := Spec.Kdf.iterates_length ..
  have hV : Spec.Kdf.iterates (Spec.Kdf.blockMix r) (2 ^ k) b ≠ [] := by
    intro h; rw [h] at hVlen; exact hN hVlen.symm
  obtain ⟨t', e, ht'⟩ := ro_mix_walk_eq r hr _ hV k hVlen hk (iterates_mem_length r _ b hb) (2 ^ k)
    (Spec.Stream.iter (Spec.Kdf.blockMix r) (2 ^ k) b) t
    (iter_pred (fun y : Bytes => y.length = 128 * r) _ (blockMix_length r) _ b hb) ht
  rw [hVlen] at e
  refine ⟨t', ?_, ht'⟩
  simp only [scrypt_ro_mix, ro_mix_fill_eq r hr v b [] hb hvl, hv, List.append_nil, List.reverse_reverse, e,
    Spec.Kdf.roMix, hN, dite_false]

end Cx.Proofs.KdfScryptMix
