/-
  Proofs.MacHmac — `Hmac<D>` (Impl.Hmac) over ANY digest type `D` that satisfies the digest-object contract
  (Proofs.MacObj.Contract for `digestFam D`: "result after inputs = H(concatenation), reset = fresh, refuses after a
  result") is itself an object satisfying the contract with the function  RFC 2104  HMAC_H,B(key, ·):
  for EVERY key length (≤ B: zero padded; > B: hashed first) — `hmac_new` — and every sequence of operations
  (`hmac_contract`, then `runHist_sim`).  Core Lean only.
-/
import CxVerif.Impl.Hmac
import CxVerif.Proofs.MacObj
namespace Cx.Proofs.MacHmac
open Cx Cx.Impl.Digest Cx.Impl.Hmac Cx.Proofs.MacObj

/-- the two masks extracted from `create_keys` are the pads of RFC 2104 -/
theorem IPAD_eq : IPAD = Spec.Hmac.ipad := by decide
theorem OPAD_eq : OPAD = Spec.Hmac.opad := by decide

theorem derive_key_eq (k : Bytes) (mask : UInt8) : derive_key k mask = Spec.Hmac.xorPad k mask := rfl

theorem copy_prefix_zeros (B : Nat) (src : Bytes) : copy_prefix (zeros B) src = src ++ zeros (B - src.length) := by
  simp [copy_prefix, zeros]

section
variable {δ : Type} (D : DigestModel δ) (H : Fn) (B : Nat) (key : Bytes)

/-- K' ⊕ ipad and K' ⊕ opad -/
def ikey : Bytes := Spec.Hmac.xorPad (Spec.Hmac.keyBlock H B key) Spec.Hmac.ipad
def okey : Bytes := Spec.Hmac.xorPad (Spec.Hmac.keyBlock H B key) Spec.Hmac.opad

/-- the domain guard of an HMAC result: the two hash computations are inside the domain of `H` -/
def okH (okD : Fn → Bytes → Prop) : Fn → Bytes → Prop :=
  fun _ m => okD H (ikey H B key ++ m) ∧ okD H (okey H B key ++ H (ikey H B key ++ m))

variable (RelD : δ → Fn → Bytes → Prop) (FinD : δ → Fn → Prop)

def RelH (s : Hmac δ) (f : Fn) (m : Bytes) : Prop :=
  f = Spec.Hmac.hmac H B key ∧ s.finished = false ∧ s.i_key = ikey H B key ∧ s.o_key = okey H B key ∧
    RelD s.digest H (ikey H B key ++ m)

def FinH (s : Hmac δ) (f : Fn) : Prop :=
  f = Spec.Hmac.hmac H B key ∧ s.finished = true ∧ s.i_key = ikey H B key ∧ s.o_key = okey H B key ∧
    FinD s.digest H

variable {L bits : Nat} {okD : Fn → Bytes → Prop}

theorem hmac_unfold (m : Bytes) :
    Spec.Hmac.hmac H B key m = H (okey H B key ++ H (ikey H B key ++ m)) := rfl

/-- the inner result, reset, outer key, inner digest: the digest then holds `okey ‖ H(ikey ‖ m)` -/
theorem outer_chain (hD : Contract (digestFam D) L [L, bits, B] (fun _ => none) okD RelD FinD)
    (d : δ) (m : Bytes) (hr : RelD d H (ikey H B key ++ m)) (hok : okH H B key okD (Spec.Hmac.hmac H B key) m) :
    ∃ d1 d2 d3 d4, D.result d L = some (d1, H (ikey H B key ++ m)) ∧ D.reset d1 = some d2 ∧
      D.input d2 (okey H B key) = some d3 ∧ D.input d3 (H (ikey H B key ++ m)) = some d4 ∧
      RelD d4 H (okey H B key ++ H (ikey H B key ++ m)) := by
  obtain ⟨d1, e1, hf1⟩ := hD.raw_result d H _ hr hok.1
  obtain ⟨d2, e2, hr2⟩ := hD.reset_fin d1 H hf1
  obtain ⟨d3, e3, hr3⟩ := hD.input d2 H [] (okey H B key) hr2
  obtain ⟨d4, e4, hr4⟩ := hD.input d3 H _ (H (ikey H B key ++ m)) hr3
  exact ⟨d1, d2, d3, d4, e1, e2, e3, e4, by simpa using hr4⟩

theorem raw_result_ok (hD : Contract (digestFam D) L [L, bits, B] (fun _ => none) okD RelD FinD)
    (s : Hmac δ) (f : Fn) (m : Bytes) (hs : RelH H B key RelD s f m) (hok : okH H B key okD f m) :
    ∃ s', Hmac.raw_result D s L = some (s', f m) ∧ FinH H B key FinD s' f := by
  obtain ⟨rfl, hfin, hi, ho, hr⟩ := hs
  obtain ⟨d1, d2, d3, d4, e1, e2, e3, e4, hr4⟩ := outer_chain D H B key RelD FinD hD s.digest m hr hok
  obtain ⟨d5, e5, hf5⟩ := hD.raw_result d4 H _ hr4 hok.2
  refine ⟨{ s with digest := d5, finished := true }, ?_, rfl, rfl, hi, ho, hf5⟩
  have e1' : D.result s.digest L = some (d1, H (ikey H B key ++ m)) := e1
  have e5' : D.result d4 L = some (d5, H (okey H B key ++ H (ikey H B key ++ m))) := e5
  simp [Hmac.raw_result, hfin, e1', e2, ho, e3, e4, e5', hmac_unfold]

theorem hmac_contract (hD : Contract (digestFam D) L [L, bits, B] (fun _ => none) okD RelD FinD) :
    Contract (macFam (hmacMac D)) L [L] (fun _ => none) (okH H B key okD) (RelH H B key RelD) (FinH H B key FinD) where
  input := by
    rintro s f m b ⟨rfl, hfin, hi, ho, hr⟩
    obtain ⟨d', e, hr'⟩ := hD.input s.digest H _ b hr
    have e' : D.input s.digest b = some d' := e
    refine ⟨{ s with digest := d' }, by simp [macFam, hmacMac, Hmac.input, hfin, e'], rfl, hfin, hi, ho, ?_⟩
    simpa [List.append_assoc] using hr'
  raw_result := by
    intro s f m hs hok
    exact raw_result_ok D H B key RelD FinD hD s f m hs hok
  raw_bad := by
    rintro s f m n ⟨rfl, hfin, hi, ho, hr⟩ hok hn
    have e : D.result s.digest n = none := hD.raw_bad s.digest H _ n hr hok.1 hn
    simp [macFam, hmacMac, Hmac.raw_result, hfin, e]
  result := by
    intro s f m hs hok
    have hob : D.output_bytes s.digest = L := hD.out_rel s.digest H _ hs.2.2.2.2
    obtain ⟨s', e, hf⟩ := raw_result_ok D H B key RelD FinD hD s f m hs hok
    exact ⟨s', by simpa [macFam, hmacMac, Hmac.result, hob] using e, hf⟩
  reset := by
    rintro s f m ⟨rfl, hfin, hi, ho, hr⟩
    obtain ⟨d1, e1, hr1⟩ := hD.reset s.digest H _ hr
    obtain ⟨d2, e2, hr2⟩ := hD.input d1 H [] (ikey H B key) hr1
    have e1' : D.reset s.digest = some d1 := e1
    have e2' : D.input d1 (ikey H B key) = some d2 := e2
    exact ⟨{ s with digest := d2, finished := false }, by simp [macFam, hmacMac, Hmac.reset, e1', hi, e2'],
      rfl, rfl, hi, ho, by simpa using hr2⟩
  reset_fin := by
    rintro s f ⟨rfl, hfin, hi, ho, hf⟩
    obtain ⟨d1, e1, hr1⟩ := hD.reset_fin s.digest H hf
    obtain ⟨d2, e2, hr2⟩ := hD.input d1 H [] (ikey H B key) hr1
    have e1' : D.reset s.digest = some d1 := e1
    have e2' : D.input d1 (ikey H B key) = some d2 := e2
    exact ⟨{ s with digest := d2, finished := false }, by simp [macFam, hmacMac, Hmac.reset, e1', hi, e2'],
      rfl, rfl, hi, ho, by simpa using hr2⟩
  rekey := by intro s f m k f' _ hk; cases hk
  rekey_fin := by intro s f k f' _ hk; cases hk
  rekey_bad := by intros; rfl
  rekey_bad_fin := by intros; rfl
  fin_input := by
    rintro s f b ⟨rfl, hfin, _⟩
    simp [macFam, hmacMac, Hmac.input, hfin]
  fin_result := by
    rintro s f ⟨rfl, hfin, _, _, hf⟩
    have e : ∀ n, D.result s.digest n = none := fun n => hD.fin_raw s.digest H n hf
    simp [macFam, hmacMac, Hmac.result, Hmac.raw_result, hfin, e]
  fin_raw := by
    rintro s f n ⟨rfl, hfin, _, _, hf⟩
    have e : D.result s.digest n = none := hD.fin_raw s.digest H n hf
    simp [macFam, hmacMac, Hmac.raw_result, hfin, e]
  out_rel := by
    rintro s f m ⟨rfl, _, _, _, hr⟩
    exact hD.out_rel s.digest H _ hr
  out_fin := by
    rintro s f ⟨rfl, _, _, _, hf⟩
    exact hD.out_fin s.digest H hf
  sizes_rel := by
    rintro s f m ⟨rfl, _, _, _, hr⟩
    have : D.output_bytes s.digest = L := hD.out_rel s.digest H _ hr
    simp [macFam, hmacMac, Hmac.output_bytes, this]
  sizes_fin := by
    rintro s f ⟨rfl, _, _, _, hf⟩
    have : D.output_bytes s.digest = L := hD.out_fin s.digest H hf
    simp [macFam, hmacMac, Hmac.output_bytes, this]
  len := by
    rintro s f m ⟨rfl, hfin, hi, ho, hr⟩ hok
    obtain ⟨d1, d2, d3, d4, _, _, _, _, hr4⟩ := outer_chain D H B key RelD FinD hD s.digest m hr hok
    exact hD.len d4 H _ hr4 hok.2

/-- `Hmac::new(digest, key)` on a fresh digest object, for EVERY key length: the object computes RFC 2104 HMAC with
    the key zero-padded to B bytes (key.len() ≤ B) or hashed first (key.len() > B; then `H key` must be inside the
    domain of `H`).  `L ≤ B` is RFC 2104's requirement on the hash (the code would panic otherwise). -/
theorem hmac_new (hD : Contract (digestFam D) L [L, bits, B] (fun _ => none) okD RelD FinD) (hLB : L ≤ B)
    (d0 : δ) (h0 : RelD d0 H []) (hk : key.length ≤ B ∨ okD H key) :
    ∃ h, Hmac.new D d0 key = some h ∧ RelH H B key RelD h (Spec.Hmac.hmac H B key) [] := by
  have hsz : [D.output_bytes d0, D.output_bits d0, D.block_size d0] = [L, bits, B] := hD.sizes_rel d0 H [] h0
  have hbs : D.block_size d0 = B := by simpa using congrArg (fun l => l.getD 2 0) hsz
  have hob : D.output_bytes d0 = L := hD.out_rel d0 H [] h0
  -- expand_key
  have hexp : ∃ d, expand_key D d0 key = some (d, Spec.Hmac.keyBlock H B key) ∧ RelD d H [] := by
    by_cases hle : key.length ≤ B
    · exact ⟨d0, by simp [expand_key, hbs, hle, copy_prefix_zeros, Spec.Hmac.keyBlock], h0⟩
    · have hokk : okD H key := hk.resolve_left hle
      obtain ⟨d1, e1, hr1⟩ := hD.input d0 H [] key h0
      have hr1' : RelD d1 H key := by simpa using hr1
      obtain ⟨d2, e2, hf2⟩ := hD.raw_result d1 H key hr1' hokk
      obtain ⟨d3, e3, hr3⟩ := hD.reset_fin d2 H hf2
      have hlen : (H key).length = L := hD.len d1 H key hr1' hokk
      have e1' : D.input d0 key = some d1 := e1
      have e2' : D.result d1 L = some (d2, H key) := e2
      have e3' : D.reset d2 = some d3 := e3
      refine ⟨d3, ?_, hr3⟩
      simp [expand_key, hbs, hle, hob, e1', hLB, e2', e3', copy_prefix_zeros, Spec.Hmac.keyBlock, hlen]
  obtain ⟨d, e, hr⟩ := hexp
  obtain ⟨d', e', hr'⟩ := hD.input d H [] (ikey H B key) hr
  have e'' : D.input d (ikey H B key) = some d' := e'
  refine ⟨{ digest := d', i_key := ikey H B key, o_key := okey H B key, finished := false }, ?_,
    rfl, rfl, rfl, rfl, by simpa using hr'⟩
  simp [Hmac.new, create_keys, e, derive_key_eq, IPAD_eq, OPAD_eq, ikey, okey] at e'' ⊢
  simp [e'']

/-- feeding the message in ANY split: after `input(c₁); …; input(cₙ)` the object holds `m ++ c₁ ++ … ++ cₙ` -/
theorem feed_chunks {σ : Type} {F : ObjFam σ} {outLen : Nat} {sizes : List Nat} {fk : Bytes → Option Fn}
    {ok : Fn → Bytes → Prop} {Rel : σ → Fn → Bytes → Prop} {Fin : σ → Fn → Prop}
    (h : Contract F outLen sizes fk ok Rel Fin) (f : Fn) :
    ∀ (chunks : List Bytes) (s : σ) (m : Bytes), Rel s f m →
      ∃ s', chunks.foldlM F.input s = some s' ∧ Rel s' f (m ++ chunks.flatten) := by
  intro chunks
  induction chunks with
  | nil => intro s m hr; exact ⟨s, rfl, by simpa using hr⟩
  | cons c cs ih =>
    intro s m hr
    obtain ⟨s1, e1, hr1⟩ := h.input s f m c hr
    obtain ⟨s', e', hr'⟩ := ih s1 (m ++ c) hr1
    exact ⟨s', by simp [List.foldlM, e1, e'], by simpa [List.append_assoc] using hr'⟩

/-- **RFC 2104 for every key and every chunking**, generic in the digest object: `Hmac::new(d0, key)`, then
    `input` of the chunks one by one, then `result()` returns `HMAC_H(key, concatenation of the chunks)`; the object
    reports `output_bytes() = L`. -/
theorem hmac_rfc2104 (hD : Contract (digestFam D) L [L, bits, B] (fun _ => none) okD RelD FinD) (hLB : L ≤ B)
    (d0 : δ) (h0 : RelD d0 H []) (chunks : List Bytes) (hk : key.length ≤ B ∨ okD H key)
    (hok : okH H B key okD (Spec.Hmac.hmac H B key) chunks.flatten) :
    ∃ h h' h'', Hmac.new D d0 key = some h ∧ chunks.foldlM (Hmac.input D) h = some h' ∧
      Hmac.result D h' = some (h'', Spec.Hmac.hmac H B key chunks.flatten) ∧
      (Spec.Hmac.hmac H B key chunks.flatten).length = L ∧
      Hmac.output_bytes D h = L ∧ Hmac.output_bytes D h' = L := by
  obtain ⟨h, e, hr⟩ := hmac_new D H B key RelD FinD hD hLB d0 h0 hk
  have hC := hmac_contract D H B key RelD FinD hD
  obtain ⟨h', e', hr'⟩ := feed_chunks hC (Spec.Hmac.hmac H B key) chunks h [] hr
  have hr'' : RelH H B key RelD h' (Spec.Hmac.hmac H B key) chunks.flatten := by simpa using hr'
  obtain ⟨h'', e'', _⟩ := hC.result h' _ _ hr'' hok
  exact ⟨h, h', h'', e, e', e'', hC.len h' _ _ hr'' hok, hC.out_rel h _ _ hr, hC.out_rel h' _ _ hr''⟩

end
end Cx.Proofs.MacHmac
