/-
  Proofs.LeakModelPoly — (c) Poly1305: erasure of the instrumented `block / finish / input / raw_result / mac`
  and their traces as explicit functions of the PUBLIC shadow of the state (`finalized`, `leftover`) and of the
  LENGTHS of the inputs.
-/
import CxVerif.Proofs.LeakModel
set_option linter.unusedSimpArgs false
set_option linter.unusedVariables false
namespace Cx.Proofs.LeakModel
open Cx Cx.Impl.LeakModel Cx.Impl.Poly1305

/-! ### erasure -/

theorem blockL_val (st : State) (m : Bytes) : (blockL st m).val = block st m := by
  unfold blockL block
  by_cases h : m.length < 16 <;> simp [h]

theorem finishTailL_val (st : State) : (finishTailL st).val = finishTail st := rfl

theorem finishL_val (v : Variant) (st : State) : (finishL v st).val = finish v st := by
  unfold finishL finish
  by_cases h0 : st.leftover > 0
  · by_cases h1 : st.leftover < 16
    · simp only [h0, h1, ↓reduceIte, bind_val, emit_val, blockL_val]
      cases block { st with buffer := padBuffer st.buffer st.leftover, finalized := true }
        (padBuffer st.buffer st.leftover) <;> rfl
    · simp [h0, h1]
  · cases v <;> simp [h0, finishTailL_val]

theorem copyIntoL_val (buf : Bytes) (off : Nat) (xs : Bytes) : (copyIntoL buf off xs).val = copyInto buf off xs := by
  induction xs generalizing buf off with
  | nil => rfl
  | cons x xs ih =>
    unfold copyIntoL copyInto
    by_cases h : off < buf.length <;> simp [h, ih]

theorem blocksL_val (fuel : Nat) (st : State) (m : Bytes) : (blocksL fuel st m).val = blocks fuel st m := by
  induction fuel generalizing st m with
  | zero => rfl
  | succ n ih =>
    unfold blocksL blocks
    by_cases h : m.length ≥ 16
    · simp only [h, ↓reduceIte, bind_val, blockL_val]
      cases block st (m.take 16) with
      | error e => rfl
      | ok st' => exact ih st' _
    · simp [h]

theorem inputTailL_val (st : State) (m : Bytes) : (inputTailL st m).val = inputTail st m := by
  unfold inputTailL inputTail
  simp only [bind_val, blocksL_val]
  cases blocks m.length st m with
  | error e => rfl
  | ok r =>
    obtain ⟨st', m'⟩ := r
    by_cases h : m'.length ≤ st'.buffer.length <;> simp [h]

theorem inputL_val (st : State) (data : Bytes) : (inputL st data).val = input st data := by
  unfold inputL input
  by_cases hf : st.finalized = true
  · simp [hf]
  · by_cases h0 : st.leftover > 0
    · by_cases h1 : st.leftover > 16
      · simp [hf, h0, h1]
      · simp only [hf, h0, h1, ↓reduceIte, bind_val, emit_val, copyIntoL_val, Bool.false_eq_true]
        cases copyInto st.buffer st.leftover (data.take (min (16 - st.leftover) data.length)) with
        | none => rfl
        | some buf =>
          by_cases h2 : st.leftover + min (16 - st.leftover) data.length < 16
          · simp [h2]
          · simp only [h2, ↓reduceIte, bind_val, blockL_val]
            cases block _ _ with
            | error e => rfl
            | ok st' => exact inputTailL_val _ _
    · simp [hf, h0, inputTailL_val]

theorem raw_resultL_val (v : Variant) (st : State) (n : Nat) : (raw_resultL v st n).val = raw_result v st n := by
  unfold raw_resultL raw_result
  by_cases h : n < 16
  · simp [h]
  · by_cases hf : st.finalized = true
    · simp [h, hf]
    · simp only [h, hf, ↓reduceIte, bind_val, finishL_val, Bool.not_eq_true', Bool.not_false]
      cases finish v st <;> simp

theorem inputsL_val (st : State) (cs : List Bytes) : (inputsL st cs).val = inputs st cs := by
  induction cs generalizing st with
  | nil => rfl
  | cons c cs ih =>
    unfold inputsL inputs
    simp only [bind_val, inputL_val]
    cases input st c with
    | error e => rfl
    | ok st' => exact ih st'

/-- **erasure (c)**: the instrumented one-shot MAC computes exactly `Impl.Poly1305.mac` -/
theorem macL_val (v : Variant) (key : Bytes) (chunks : List Bytes) : (macL v key chunks).val = mac v key chunks := by
  unfold macL mac
  simp only [bind_val, inputsL_val]
  cases inputs (new key) chunks with
  | error e => rfl
  | ok st =>
    simp only [bind_val, raw_resultL_val]
    cases raw_result v st 16 with
    | error e => rfl
    | ok r => rfl

/-! ### traces as functions of lengths -/

open Event in
/-- the trace of a `block` call that does not panic -/
def blockT (fin : Bool) : Trace := [branch false, branch fin]

/-- `block` touches only `h` -/
theorem block_ok_fields {st st' : State} {m : Bytes} (h : block st m = .ok st') :
    st'.finalized = st.finalized ∧ st'.leftover = st.leftover ∧ st'.buffer = st.buffer := by
  unfold block at h
  by_cases h1 : m.length < 16
  · simp [h1] at h
  · rw [if_neg h1] at h
    dsimp only at h
    split at h <;> split at h <;> first | (cases h; exact ⟨rfl, rfl, rfl⟩) | cases h

theorem blockL_tr {st st' : State} {m : Bytes} (h : block st m = .ok st') : (blockL st m).tr = blockT st.finalized := by
  have h1 : ¬ m.length < 16 := by
    intro h1; unfold block at h; simp [h1] at h
  unfold blockL blockT
  simp [h1]

open Event in
/-- shadow of the `while` loop: trace and the length of the rest -/
def blocksT (fin : Bool) : Nat → Nat → Trace × Nat
  | 0, len => ([], len)
  | fuel + 1, len =>
    if len ≥ 16 then (branch true :: (blockT fin ++ (blocksT fin fuel (len - 16)).1), (blocksT fin fuel (len - 16)).2)
    else ([branch false], len)

theorem blocksL_tr (fuel : Nat) (st st' : State) (m m' : Bytes) (h : blocks fuel st m = .ok (st', m')) :
    (blocksL fuel st m).tr = (blocksT st.finalized fuel m.length).1 ∧ m'.length = (blocksT st.finalized fuel m.length).2 ∧
      st'.finalized = st.finalized ∧ st'.leftover = st.leftover ∧ st'.buffer = st.buffer := by
  induction fuel generalizing st m with
  | zero =>
    unfold blocks at h; cases h
    exact ⟨rfl, rfl, rfl, rfl, rfl⟩
  | succ n ih =>
    unfold blocks at h
    unfold blocksL blocksT
    by_cases h1 : m.length ≥ 16
    · simp only [h1, ↓reduceIte] at h ⊢
      cases hb : block st (m.take 16) with
      | error e => rw [hb] at h; cases h
      | ok st1 =>
        rw [hb] at h
        obtain ⟨f1, f2, f3⟩ := block_ok_fields hb
        obtain ⟨i1, i2, i3, i4, i5⟩ := ih st1 (m.drop 16) h
        refine ⟨?_, ?_, ?_, ?_, ?_⟩
        · simp only [bind_tr, bind_val, emit_tr, blockL_val, hb, blockL_tr hb, i1, f1, List.length_drop,
            decide_true, List.cons_append, List.nil_append]
        · rw [i2, f1, List.length_drop]
        · rw [i3, f1]
        · rw [i4, f2]
        · rw [i5, f3]
    · simp only [h1, ↓reduceIte] at h ⊢
      cases h
      simp

open Event in
/-- shadow of `inputTail`: trace and the new `leftover` -/
def inputTailT (fin : Bool) (len : Nat) : Trace × Nat :=
  ((blocksT fin len len).1 ++ [length (blocksT fin len len).2], (blocksT fin len len).2)

theorem inputTailL_tr (st st' : State) (m : Bytes) (h : inputTail st m = .ok st') :
    (inputTailL st m).tr = (inputTailT st.finalized m.length).1 ∧ st'.leftover = (inputTailT st.finalized m.length).2 ∧
      st'.finalized = st.finalized := by
  unfold inputTail at h
  unfold inputTailL inputTailT
  cases hb : blocks m.length st m with
  | error e => rw [hb] at h; cases h
  | ok r =>
    obtain ⟨st1, m1⟩ := r
    rw [hb] at h
    obtain ⟨i1, i2, i3, i4, i5⟩ := blocksL_tr _ _ _ _ _ hb
    by_cases h1 : m1.length ≤ st1.buffer.length
    · simp only [h1, ↓reduceIte] at h
      cases h
      refine ⟨?_, i2, i3⟩
      simp only [bind_tr, bind_val, blocksL_val, hb, i1, emit_tr, h1, ↓reduceIte, pure_tr, List.append_nil]
      rw [i2]
    · simp [h1] at h

open Event in
theorem copyIntoL_tr (buf buf' : Bytes) (off : Nat) (xs : Bytes) (h : copyInto buf off xs = some buf') :
    (copyIntoL buf off xs).tr = (List.range xs.length).map (fun i => index (off + i)) := by
  induction xs generalizing buf off with
  | nil => rfl
  | cons x xs ih =>
    unfold copyInto at h
    unfold copyIntoL
    by_cases h1 : off < buf.length
    · simp only [h1, ↓reduceIte] at h
      simp only [bind_tr, emit_tr, h1, ↓reduceIte, ih _ _ h, List.length_cons, List.range_succ_eq_map, List.map_cons,
        List.map_map, List.cons_append, List.nil_append, Nat.add_zero]
      congr 1
      apply List.map_congr_left
      intro i _
      simp only [Function.comp, Nat.succ_eq_add_one]
      congr 1; omega
    · simp [h1] at h

open Event in
/-- shadow of `input` on a non-finalized object: trace and the new `leftover` -/
def inputT (leftover len : Nat) : Trace × Nat :=
  if leftover > 0 then
    let want := min (16 - leftover) len
    let pre : Trace := [branch false, branch true, loopBound want] ++ (List.range want).map (fun i => index (leftover + i))
    if leftover + want < 16 then (pre ++ [branch true], leftover + want)
    else (pre ++ [branch false] ++ blockT false ++ (inputTailT false (len - want)).1, (inputTailT false (len - want)).2)
  else ([branch false, branch false] ++ (inputTailT false len).1, (inputTailT false len).2)

theorem inputL_tr (st st' : State) (data : Bytes) (h : input st data = .ok st') :
    (inputL st data).tr = (inputT st.leftover data.length).1 ∧ st'.leftover = (inputT st.leftover data.length).2 ∧
      st.finalized = false ∧ st'.finalized = false := by
  obtain ⟨r, hh, pad, lo, buffer, fin⟩ := st
  cases fin with
  | true => simp [input] at h
  | false =>
  unfold input at h
  unfold inputL inputT
  simp only [Bool.false_eq_true, ↓reduceIte] at h
  by_cases h0 : lo > 0
  · by_cases h1 : lo > 16
    · simp [h0, h1] at h
    · simp only [h0, h1, ↓reduceIte] at h
      cases hc : copyInto buffer lo (data.take (min (16 - lo) data.length)) with
      | none => rw [hc] at h; cases h
      | some buf =>
        rw [hc] at h
        have hl : (data.take (min (16 - lo) data.length)).length = min (16 - lo) data.length := by
          rw [List.length_take]; omega
        have ct := copyIntoL_tr _ _ _ _ hc
        rw [hl] at ct
        by_cases h2 : lo + min (16 - lo) data.length < 16
        · simp only [h2, ↓reduceIte] at h
          cases h
          refine ⟨?_, ?_, rfl, rfl⟩
          · simp only [h0, h1, h2, bind_tr, bind_val, emit_tr, copyIntoL_val, hc, ct, ↓reduceIte,
              pure_tr, Bool.false_eq_true, decide_true, decide_false, List.append_nil, List.cons_append,
              List.nil_append, List.append_assoc]
          · simp only [h0, h2, ↓reduceIte]
        · simp only [h2, ↓reduceIte] at h
          cases hb : block ⟨r, hh, pad, lo + min (16 - lo) data.length, buf, false⟩ buf with
          | error e => rw [hb] at h; cases h
          | ok st1 =>
            rw [hb] at h
            obtain ⟨f1, f2, f3⟩ := block_ok_fields hb
            obtain ⟨i1, i2, i3⟩ := inputTailL_tr _ _ _ h
            have bt := blockL_tr hb
            have f1' : st1.finalized = false := f1
            refine ⟨?_, ?_, rfl, i3.trans f1'⟩
            · simp only [h0, h1, h2, bind_tr, bind_val, emit_tr, copyIntoL_val, hc, ct, ↓reduceIte,
                blockL_val, hb, bt, Bool.false_eq_true, decide_true, decide_false,
                List.cons_append, List.nil_append, List.append_assoc]
              rw [i1]
              simp only [f1', List.length_drop]
            · simp only [h0, h2, ↓reduceIte, i2, f1', List.length_drop]
  · simp only [h0, ↓reduceIte] at h
    obtain ⟨i1, i2, i3⟩ := inputTailL_tr _ _ _ h
    refine ⟨?_, ?_, rfl, i3⟩
    · simp only [h0, bind_tr, emit_tr, ↓reduceIte, i1, pure_tr, Bool.false_eq_true, decide_false,
        List.cons_append, List.nil_append]
    · simp only [h0, ↓reduceIte, i2]

/-- shadow of a list of `input` calls -/
def inputsT : Nat → List Nat → Trace × Nat
  | leftover, [] => ([], leftover)
  | leftover, n :: ns =>
    ((inputT leftover n).1 ++ (inputsT (inputT leftover n).2 ns).1, (inputsT (inputT leftover n).2 ns).2)

theorem inputsL_tr (st st' : State) (cs : List Bytes) (h : inputs st cs = .ok st') (hf : st.finalized = false) :
    (inputsL st cs).tr = (inputsT st.leftover (cs.map List.length)).1 ∧
      st'.leftover = (inputsT st.leftover (cs.map List.length)).2 ∧ st'.finalized = false := by
  induction cs generalizing st with
  | nil => unfold inputs at h; cases h; exact ⟨rfl, rfl, hf⟩
  | cons c cs ih =>
    unfold inputs at h
    unfold inputsL
    cases hi : input st c with
    | error e => rw [hi] at h; cases h
    | ok st1 =>
      rw [hi] at h
      obtain ⟨i1, i2, _, i4⟩ := inputL_tr _ _ _ hi
      obtain ⟨j1, j2, j3⟩ := ih st1 h i4
      refine ⟨?_, ?_, j3⟩
      · simp only [bind_tr, bind_val, inputL_val, hi, i1, j1, i2, List.map_cons, inputsT]
      · simp only [j2, i2, List.map_cons, inputsT]

open Event in
/-- shadow of `finish` on a non-finalized object -/
def finishT (leftover : Nat) : Trace :=
  if leftover > 0 then [branch true, index leftover, loopBound (16 - (leftover + 1))] ++ blockT true
  else [branch false]

theorem finishL_tr (v : Variant) (st st' : State) (h : finish v st = .ok st') : (finishL v st).tr = finishT st.leftover := by
  unfold finish at h
  unfold finishL finishT
  by_cases h0 : st.leftover > 0
  · by_cases h1 : st.leftover < 16
    · simp only [h0, h1, ↓reduceIte] at h
      cases hb : block { st with buffer := padBuffer st.buffer st.leftover, finalized := true }
          (padBuffer st.buffer st.leftover) with
      | error e => rw [hb] at h; cases h
      | ok st1 =>
        have bt := blockL_tr hb
        simp only [h0, h1, ↓reduceIte, bind_tr, bind_val, emit_tr, emit_val, blockL_val, hb, bt, finishTailL, pure_tr,
          decide_true, List.cons_append, List.nil_append, List.append_nil]
    · simp [h0, h1] at h
  · cases v <;> simp [h0, finishTailL]

open Event in
/-- shadow of `new; input…; raw_result(16 bytes)` -/
def macT (lens : List Nat) : Trace :=
  (inputsT 0 lens).1 ++ [length 16, branch true] ++ finishT (inputsT 0 lens).2

/-- **trace (c)**: a MAC computation that does not panic has the trace `macT` of the chunk LENGTHS -/
theorem macL_tr (v : Variant) (key : Bytes) (chunks : List Bytes) (tag : Bytes) (h : mac v key chunks = .ok tag) :
    (macL v key chunks).tr = macT (chunks.map List.length) := by
  unfold mac at h
  unfold macL macT
  cases hi : inputs (new key) chunks with
  | error e => rw [hi] at h; cases h
  | ok st =>
    rw [hi] at h
    obtain ⟨i1, i2, i3⟩ := inputsL_tr _ _ _ hi rfl
    have hl : (new key).leftover = 0 := rfl
    rw [hl] at i1 i2
    simp only [bind_tr, bind_val, inputsL_val, hi, i1]
    unfold raw_result at h
    unfold raw_resultL
    simp only [i3, show ¬ (16 < 16) from by omega, ↓reduceIte, Bool.not_false] at h ⊢
    cases hfin : finish v st with
    | error e => rw [hfin] at h; cases h
    | ok st2 =>
      have ft := finishL_tr v st st2 hfin
      simp only [bind_tr, bind_val, emit_tr, finishL_val, hfin, ft, i2, pure_tr, pure_val, List.append_nil,
        List.cons_append, List.nil_append, List.append_assoc]

end Cx.Proofs.LeakModel
