/-
  Proofs.Fe32Bytes — `to_bytes` of fe32 is the canonical encoding: for every limb vector of weight ≤ 6
  (|even| ≤ 6·2^25, |odd| ≤ 6·(2^24 + 2^20)) no i32 operation overflows, the estimate `q` IS ⌊val/p⌋ (the classic
  ref10 argument: nested floors collapse, the rounding term 2^24 makes the estimate exact — both by `omega`),
  the ten plain carries leave digits in [0, 2^26) / [0, 2^25) with value `val − p·q = val mod p`, and the 32
  shifted / OR-ed bytes are the little-endian bytes of that value.
-/
import CxVerif.Proofs.Fe32Basic
import CxVerif.Proofs.Scalar64Bytes
namespace Cx.Proofs.Fe32
open Cx Cx.Impl.Fe32
open Cx.Spec
open Cx.Spec.Field25519 (p)

/-! ### the estimate of the quotient -/

/-- nested floors collapse: the chain `q = (h_i + q) >> k_i` computes `⌊(val + q0) / 2^255⌋` -/
theorem qchain (h0 h1 h2 h3 h4 h5 h6 h7 h8 h9 q0 : Int) :
    ((((((((((h0 + q0) / 2^26 + h1) / 2^25 + h2) / 2^26 + h3) / 2^25 + h4) / 2^26 + h5) / 2^25 + h6) / 2^26 + h7) / 2^25
      + h8) / 2^26 + h9) / 2^25
    = (h0 + 2^26 * h1 + 2^51 * h2 + 2^77 * h3 + 2^102 * h4 + 2^128 * h5 + 2^153 * h6 + 2^179 * h7 + 2^204 * h8
        + 2^230 * h9 + q0) / 2^255 := by
  omega

/-- with `q0 = round(19·h9 / 2^25)` the estimate is exact: `q = ⌊V / p⌋` -/
theorem qest (V h9 low q0 q : Int) (hlow : V = 2^230 * h9 + low) (hl : -2^240 ≤ low ∧ low ≤ 2^240)
    (hh9 : -2^27 ≤ h9 ∧ h9 ≤ 2^27)
    (hq0 : q0 = (19 * h9 + 2^24) / 2^25) (hq : q = (V + q0) / 2^255) :
    (2^255 - 19) * q ≤ V ∧ V < (2^255 - 19) * q + (2^255 - 19) := by
  omega

/-! ### i32 steps -/

theorem qstep_eq (k : Nat) (h q : Int) (hh : -2^31 ≤ h + q ∧ h + q < 2^31) : qstep k h q = some ((h + q) / 2^k) := by
  unfold qstep; rw [add32_bind _ _ _ hh]; rfl

theorem carryF32_26_rel (h hn : Int) (hh : -2^31 ≤ h ∧ h < 2^31) (hhn : -2^30 ≤ hn ∧ hn ≤ 2^30) :
    ∃ c, carryF32 26 h hn = some (h - c * 2^26, hn + c) ∧ 0 ≤ h - c * 2^26 ∧ h - c * 2^26 < 2^26 := by
  refine ⟨h / 2^26, ?_, by omega, by omega⟩
  unfold carryF32
  simp only [shr]
  rw [add32_bind _ _ _ (by omega)]
  have hs : shl32 (h / 2^26) 26 = h / 2^26 * 2^26 := by unfold shl32; exact wrap32_eq (by omega)
  rw [hs, sub32_bind _ _ _ (by omega)]; rfl

theorem carryF32_25_rel (h hn : Int) (hh : -2^31 ≤ h ∧ h < 2^31) (hhn : -2^30 ≤ hn ∧ hn ≤ 2^30) :
    ∃ c, carryF32 25 h hn = some (h - c * 2^25, hn + c) ∧ 0 ≤ h - c * 2^25 ∧ h - c * 2^25 < 2^25 := by
  refine ⟨h / 2^25, ?_, by omega, by omega⟩
  unfold carryF32
  simp only [shr]
  rw [add32_bind _ _ _ (by omega)]
  have hs : shl32 (h / 2^25) 25 = h / 2^25 * 2^25 := by unfold shl32; exact wrap32_eq (by omega)
  rw [hs, sub32_bind _ _ _ (by omega)]; rfl

/-- fully carried, non-negative digits -/
def Digits (r : Fe) : Prop :=
  (0 ≤ r.l0 ∧ r.l0 < 2^26) ∧ (0 ≤ r.l1 ∧ r.l1 < 2^25) ∧ (0 ≤ r.l2 ∧ r.l2 < 2^26) ∧ (0 ≤ r.l3 ∧ r.l3 < 2^25) ∧
  (0 ≤ r.l4 ∧ r.l4 < 2^26) ∧ (0 ≤ r.l5 ∧ r.l5 < 2^25) ∧ (0 ≤ r.l6 ∧ r.l6 < 2^26) ∧ (0 ≤ r.l7 ∧ r.l7 < 2^25) ∧
  (0 ≤ r.l8 ∧ r.l8 < 2^26) ∧ (0 ≤ r.l9 ∧ r.l9 < 2^25)

/-- **to_bytes, arithmetic part**: digits of `val f mod p` -/
theorem to_bytes_limbs_spec (f : Fe) (hf : W 6 f) :
    ∃ r, to_bytes_limbs f = some r ∧ Digits r ∧ val r = val f % (p : Int) := by
  obtain ⟨h0, h1, h2, h3, h4, h5, h6, h7, h8, h9⟩ := f
  unfold W at hf
  simp only at hf
  -- the quotient
  have hq := qchain h0 h1 h2 h3 h4 h5 h6 h7 h8 h9 ((19 * h9 + 2^24) / 2^25)
  have he := qest (h0 + 2^26 * h1 + 2^51 * h2 + 2^77 * h3 + 2^102 * h4 + 2^128 * h5 + 2^153 * h6 + 2^179 * h7
      + 2^204 * h8 + 2^230 * h9) h9
    (h0 + 2^26 * h1 + 2^51 * h2 + 2^77 * h3 + 2^102 * h4 + 2^128 * h5 + 2^153 * h6 + 2^179 * h7 + 2^204 * h8)
    ((19 * h9 + 2^24) / 2^25) _ (by omega) (by omega) (by omega) rfl rfl
  rw [← hq] at he
  clear hq
  unfold to_bytes_limbs
  simp only
  rw [mul32_bind _ _ _ (by omega), add32_bind _ _ _ (by omega)]
  simp only [shr]
  rw [qstep_eq _ _ _ (by omega), some_bind, qstep_eq _ _ _ (by omega), some_bind, qstep_eq _ _ _ (by omega), some_bind,
    qstep_eq _ _ _ (by omega), some_bind, qstep_eq _ _ _ (by omega), some_bind, qstep_eq _ _ _ (by omega), some_bind,
    qstep_eq _ _ _ (by omega), some_bind, qstep_eq _ _ _ (by omega), some_bind, qstep_eq _ _ _ (by omega), some_bind,
    qstep_eq _ _ _ (by omega), some_bind]
  simp only [Int.add_comm h0, Int.add_comm h1, Int.add_comm h2, Int.add_comm h3, Int.add_comm h4,
    Int.add_comm h5, Int.add_comm h6, Int.add_comm h7, Int.add_comm h8, Int.add_comm h9] at he ⊢
  generalize hqq : ((((((((((((19 * h9 + 2^24) / 2^25 + h0) / 2^26 + h1) / 2^25 + h2) / 2^26 + h3) / 2^25 + h4) / 2^26 + h5) / 2^25 + h6) / 2^26 + h7) / 2^25
      + h8) / 2^26 + h9) / 2^25) = q at he ⊢
  have hqb : -8 ≤ q ∧ q ≤ 8 := by omega
  rw [mul32_bind _ _ _ (by omega), add32_bind _ _ _ (by omega)]
  obtain ⟨c0, e0, l0, u0⟩ := carryF32_26_rel (h0 + 19 * q) h1 (by omega) (by omega)
  rw [e0]; simp only [some_bind]
  obtain ⟨c1, e1, l1, u1⟩ := carryF32_25_rel (h1 + c0) h2 (by omega) (by omega)
  rw [e1]; simp only [some_bind]
  obtain ⟨c2, e2, l2, u2⟩ := carryF32_26_rel (h2 + c1) h3 (by omega) (by omega)
  rw [e2]; simp only [some_bind]
  obtain ⟨c3, e3, l3, u3⟩ := carryF32_25_rel (h3 + c2) h4 (by omega) (by omega)
  rw [e3]; simp only [some_bind]
  obtain ⟨c4, e4, l4, u4⟩ := carryF32_26_rel (h4 + c3) h5 (by omega) (by omega)
  rw [e4]; simp only [some_bind]
  obtain ⟨c5, e5, l5, u5⟩ := carryF32_25_rel (h5 + c4) h6 (by omega) (by omega)
  rw [e5]; simp only [some_bind]
  obtain ⟨c6, e6, l6, u6⟩ := carryF32_26_rel (h6 + c5) h7 (by omega) (by omega)
  rw [e6]; simp only [some_bind]
  obtain ⟨c7, e7, l7, u7⟩ := carryF32_25_rel (h7 + c6) h8 (by omega) (by omega)
  rw [e7]; simp only [some_bind]
  obtain ⟨c8, e8, l8, u8⟩ := carryF32_26_rel (h8 + c7) h9 (by omega) (by omega)
  rw [e8]; simp only [some_bind]
  have hs : shl32 ((h9 + c8) / 2^25) 25 = (h9 + c8) / 2^25 * 2^25 := by unfold shl32; exact wrap32_eq (by omega)
  rw [hs, sub32_bind _ _ _ (by omega)]
  simp only [pure_eq_some]
  refine ⟨_, rfl, ?_, ?_⟩
  · unfold Digits; simp only; omega
  · rw [p_eq]; unfold val; simp only; omega

/-! ### the 32 output bytes -/

theorem u8of_toNat (x : Int) : (u8of x).toNat = (x % 256).toNat := by
  unfold u8of
  rw [UInt8.toNat_ofNat']
  omega

theorem or_add_of_dvd (a b k : Nat) (ha : a < 2^k) (hb : b % 2^k = 0) : a ||| b = a + b := by
  have hb' : b = 2^k * (b / 2^k) := by rw [Nat.mul_div_cancel' (Nat.dvd_of_mod_eq_zero hb)]
  rw [hb', Nat.or_comm, ← Nat.two_pow_add_eq_or_of_lt ha, Nat.add_comm]

/-- `(x | y) as u8` where `x` has only bits below `k` and `y` only bits from `k` up: the sum of the low bytes -/
theorem u8or_toNat_add (x y : Int) (k : Nat) (hx : (x % 256).toNat < 2^k) (hy : (y % 256).toNat % 2^k = 0) :
    (u8or x y).toNat = (x % 256).toNat + (y % 256).toNat := by
  unfold u8or
  rw [UInt8.toNat_or, u8of_toNat, u8of_toNat]
  exact or_add_of_dvd _ _ k hx hy

theorem cons_eq {α} {a b : α} {l m : List α} (h1 : a = b) (h2 : l = m) : a :: l = b :: m := by rw [h1, h2]

/-- `natToLE 32 v` byte by byte -/
theorem natToLE32_explicit (v : Nat) : natToLE 32 v = [UInt8.ofNat (v / 2^0 % 256), UInt8.ofNat (v / 2^8 % 256), UInt8.ofNat (v / 2^16 % 256), UInt8.ofNat (v / 2^24 % 256), UInt8.ofNat (v / 2^32 % 256), UInt8.ofNat (v / 2^40 % 256), UInt8.ofNat (v / 2^48 % 256), UInt8.ofNat (v / 2^56 % 256), UInt8.ofNat (v / 2^64 % 256), UInt8.ofNat (v / 2^72 % 256), UInt8.ofNat (v / 2^80 % 256), UInt8.ofNat (v / 2^88 % 256), UInt8.ofNat (v / 2^96 % 256), UInt8.ofNat (v / 2^104 % 256), UInt8.ofNat (v / 2^112 % 256), UInt8.ofNat (v / 2^120 % 256), UInt8.ofNat (v / 2^128 % 256), UInt8.ofNat (v / 2^136 % 256), UInt8.ofNat (v / 2^144 % 256), UInt8.ofNat (v / 2^152 % 256), UInt8.ofNat (v / 2^160 % 256), UInt8.ofNat (v / 2^168 % 256), UInt8.ofNat (v / 2^176 % 256), UInt8.ofNat (v / 2^184 % 256), UInt8.ofNat (v / 2^192 % 256), UInt8.ofNat (v / 2^200 % 256), UInt8.ofNat (v / 2^208 % 256), UInt8.ofNat (v / 2^216 % 256), UInt8.ofNat (v / 2^224 % 256), UInt8.ofNat (v / 2^232 % 256), UInt8.ofNat (v / 2^240 % 256), UInt8.ofNat (v / 2^248 % 256)] := by
  simp only [natToLE, Nat.div_div_eq_div_mul, Nat.reduceMul, Nat.reducePow, Nat.div_one]

theorem pack_b0 (h0 h1 h2 h3 h4 h5 h6 h7 h8 h9 : Int) (hr : Digits ⟨h0, h1, h2, h3, h4, h5, h6, h7, h8, h9⟩) :
    u8of (shr h0 0) = UInt8.ofNat ((h0 + 2^26 * h1 + 2^51 * h2 + 2^77 * h3 + 2^102 * h4 + 2^128 * h5 + 2^153 * h6 + 2^179 * h7 + 2^204 * h8 + 2^230 * h9).toNat / 2^0 % 256) := by
  unfold Digits at hr; simp only at hr
  simp only [shr, shl32, wrap32]
  apply UInt8.toNat_inj.mp; rw [u8of_toNat, UInt8.toNat_ofNat']; omega

theorem pack_b1 (h0 h1 h2 h3 h4 h5 h6 h7 h8 h9 : Int) (hr : Digits ⟨h0, h1, h2, h3, h4, h5, h6, h7, h8, h9⟩) :
    u8of (shr h0 8) = UInt8.ofNat ((h0 + 2^26 * h1 + 2^51 * h2 + 2^77 * h3 + 2^102 * h4 + 2^128 * h5 + 2^153 * h6 + 2^179 * h7 + 2^204 * h8 + 2^230 * h9).toNat / 2^8 % 256) := by
  unfold Digits at hr; simp only at hr
  simp only [shr, shl32, wrap32]
  apply UInt8.toNat_inj.mp; rw [u8of_toNat, UInt8.toNat_ofNat']; omega

theorem pack_b2 (h0 h1 h2 h3 h4 h5 h6 h7 h8 h9 : Int) (hr : Digits ⟨h0, h1, h2, h3, h4, h5, h6, h7, h8, h9⟩) :
    u8of (shr h0 16) = UInt8.ofNat ((h0 + 2^26 * h1 + 2^51 * h2 + 2^77 * h3 + 2^102 * h4 + 2^128 * h5 + 2^153 * h6 + 2^179 * h7 + 2^204 * h8 + 2^230 * h9).toNat / 2^16 % 256) := by
  unfold Digits at hr; simp only at hr
  simp only [shr, shl32, wrap32]
  apply UInt8.toNat_inj.mp; rw [u8of_toNat, UInt8.toNat_ofNat']; omega

theorem pack_b3 (h0 h1 h2 h3 h4 h5 h6 h7 h8 h9 : Int) (hr : Digits ⟨h0, h1, h2, h3, h4, h5, h6, h7, h8, h9⟩) :
    u8or (shr h0 24) (shl32 h1 2) = UInt8.ofNat ((h0 + 2^26 * h1 + 2^51 * h2 + 2^77 * h3 + 2^102 * h4 + 2^128 * h5 + 2^153 * h6 + 2^179 * h7 + 2^204 * h8 + 2^230 * h9).toNat / 2^24 % 256) := by
  unfold Digits at hr; simp only at hr
  simp only [shr, shl32, wrap32]
  apply UInt8.toNat_inj.mp; rw [u8or_toNat_add _ _ 2 (by omega) (by omega), UInt8.toNat_ofNat']; omega

theorem pack_b4 (h0 h1 h2 h3 h4 h5 h6 h7 h8 h9 : Int) (hr : Digits ⟨h0, h1, h2, h3, h4, h5, h6, h7, h8, h9⟩) :
    u8of (shr h1 6) = UInt8.ofNat ((h0 + 2^26 * h1 + 2^51 * h2 + 2^77 * h3 + 2^102 * h4 + 2^128 * h5 + 2^153 * h6 + 2^179 * h7 + 2^204 * h8 + 2^230 * h9).toNat / 2^32 % 256) := by
  unfold Digits at hr; simp only at hr
  simp only [shr, shl32, wrap32]
  apply UInt8.toNat_inj.mp; rw [u8of_toNat, UInt8.toNat_ofNat']; omega

theorem pack_b5 (h0 h1 h2 h3 h4 h5 h6 h7 h8 h9 : Int) (hr : Digits ⟨h0, h1, h2, h3, h4, h5, h6, h7, h8, h9⟩) :
    u8of (shr h1 14) = UInt8.ofNat ((h0 + 2^26 * h1 + 2^51 * h2 + 2^77 * h3 + 2^102 * h4 + 2^128 * h5 + 2^153 * h6 + 2^179 * h7 + 2^204 * h8 + 2^230 * h9).toNat / 2^40 % 256) := by
  unfold Digits at hr; simp only at hr
  simp only [shr, shl32, wrap32]
  apply UInt8.toNat_inj.mp; rw [u8of_toNat, UInt8.toNat_ofNat']; omega

theorem pack_b6 (h0 h1 h2 h3 h4 h5 h6 h7 h8 h9 : Int) (hr : Digits ⟨h0, h1, h2, h3, h4, h5, h6, h7, h8, h9⟩) :
    u8or (shr h1 22) (shl32 h2 3) = UInt8.ofNat ((h0 + 2^26 * h1 + 2^51 * h2 + 2^77 * h3 + 2^102 * h4 + 2^128 * h5 + 2^153 * h6 + 2^179 * h7 + 2^204 * h8 + 2^230 * h9).toNat / 2^48 % 256) := by
  unfold Digits at hr; simp only at hr
  simp only [shr, shl32, wrap32]
  apply UInt8.toNat_inj.mp; rw [u8or_toNat_add _ _ 3 (by omega) (by omega), UInt8.toNat_ofNat']; omega

theorem pack_b7 (h0 h1 h2 h3 h4 h5 h6 h7 h8 h9 : Int) (hr : Digits ⟨h0, h1, h2, h3, h4, h5, h6, h7, h8, h9⟩) :
    u8of (shr h2 5) = UInt8.ofNat ((h0 + 2^26 * h1 + 2^51 * h2 + 2^77 * h3 + 2^102 * h4 + 2^128 * h5 + 2^153 * h6 + 2^179 * h7 + 2^204 * h8 + 2^230 * h9).toNat / 2^56 % 256) := by
  unfold Digits at hr; simp only at hr
  simp only [shr, shl32, wrap32]
  apply UInt8.toNat_inj.mp; rw [u8of_toNat, UInt8.toNat_ofNat']; omega

theorem pack_b8 (h0 h1 h2 h3 h4 h5 h6 h7 h8 h9 : Int) (hr : Digits ⟨h0, h1, h2, h3, h4, h5, h6, h7, h8, h9⟩) :
    u8of (shr h2 13) = UInt8.ofNat ((h0 + 2^26 * h1 + 2^51 * h2 + 2^77 * h3 + 2^102 * h4 + 2^128 * h5 + 2^153 * h6 + 2^179 * h7 + 2^204 * h8 + 2^230 * h9).toNat / 2^64 % 256) := by
  unfold Digits at hr; simp only at hr
  simp only [shr, shl32, wrap32]
  apply UInt8.toNat_inj.mp; rw [u8of_toNat, UInt8.toNat_ofNat']; omega

theorem pack_b9 (h0 h1 h2 h3 h4 h5 h6 h7 h8 h9 : Int) (hr : Digits ⟨h0, h1, h2, h3, h4, h5, h6, h7, h8, h9⟩) :
    u8or (shr h2 21) (shl32 h3 5) = UInt8.ofNat ((h0 + 2^26 * h1 + 2^51 * h2 + 2^77 * h3 + 2^102 * h4 + 2^128 * h5 + 2^153 * h6 + 2^179 * h7 + 2^204 * h8 + 2^230 * h9).toNat / 2^72 % 256) := by
  unfold Digits at hr; simp only at hr
  simp only [shr, shl32, wrap32]
  apply UInt8.toNat_inj.mp; rw [u8or_toNat_add _ _ 5 (by omega) (by omega), UInt8.toNat_ofNat']; omega

theorem pack_b10 (h0 h1 h2 h3 h4 h5 h6 h7 h8 h9 : Int) (hr : Digits ⟨h0, h1, h2, h3, h4, h5, h6, h7, h8, h9⟩) :
    u8of (shr h3 3) = UInt8.ofNat ((h0 + 2^26 * h1 + 2^51 * h2 + 2^77 * h3 + 2^102 * h4 + 2^128 * h5 + 2^153 * h6 + 2^179 * h7 + 2^204 * h8 + 2^230 * h9).toNat / 2^80 % 256) := by
  unfold Digits at hr; simp only at hr
  simp only [shr, shl32, wrap32]
  apply UInt8.toNat_inj.mp; rw [u8of_toNat, UInt8.toNat_ofNat']; omega

theorem pack_b11 (h0 h1 h2 h3 h4 h5 h6 h7 h8 h9 : Int) (hr : Digits ⟨h0, h1, h2, h3, h4, h5, h6, h7, h8, h9⟩) :
    u8of (shr h3 11) = UInt8.ofNat ((h0 + 2^26 * h1 + 2^51 * h2 + 2^77 * h3 + 2^102 * h4 + 2^128 * h5 + 2^153 * h6 + 2^179 * h7 + 2^204 * h8 + 2^230 * h9).toNat / 2^88 % 256) := by
  unfold Digits at hr; simp only at hr
  simp only [shr, shl32, wrap32]
  apply UInt8.toNat_inj.mp; rw [u8of_toNat, UInt8.toNat_ofNat']; omega

theorem pack_b12 (h0 h1 h2 h3 h4 h5 h6 h7 h8 h9 : Int) (hr : Digits ⟨h0, h1, h2, h3, h4, h5, h6, h7, h8, h9⟩) :
    u8or (shr h3 19) (shl32 h4 6) = UInt8.ofNat ((h0 + 2^26 * h1 + 2^51 * h2 + 2^77 * h3 + 2^102 * h4 + 2^128 * h5 + 2^153 * h6 + 2^179 * h7 + 2^204 * h8 + 2^230 * h9).toNat / 2^96 % 256) := by
  unfold Digits at hr; simp only at hr
  simp only [shr, shl32, wrap32]
  apply UInt8.toNat_inj.mp; rw [u8or_toNat_add _ _ 6 (by omega) (by omega), UInt8.toNat_ofNat']; omega

theorem pack_b13 (h0 h1 h2 h3 h4 h5 h6 h7 h8 h9 : Int) (hr : Digits ⟨h0, h1, h2, h3, h4, h5, h6, h7, h8, h9⟩) :
    u8of (shr h4 2) = UInt8.ofNat ((h0 + 2^26 * h1 + 2^51 * h2 + 2^77 * h3 + 2^102 * h4 + 2^128 * h5 + 2^153 * h6 + 2^179 * h7 + 2^204 * h8 + 2^230 * h9).toNat / 2^104 % 256) := by
  unfold Digits at hr; simp only at hr
  simp only [shr, shl32, wrap32]
  apply UInt8.toNat_inj.mp; rw [u8of_toNat, UInt8.toNat_ofNat']; omega

theorem pack_b14 (h0 h1 h2 h3 h4 h5 h6 h7 h8 h9 : Int) (hr : Digits ⟨h0, h1, h2, h3, h4, h5, h6, h7, h8, h9⟩) :
    u8of (shr h4 10) = UInt8.ofNat ((h0 + 2^26 * h1 + 2^51 * h2 + 2^77 * h3 + 2^102 * h4 + 2^128 * h5 + 2^153 * h6 + 2^179 * h7 + 2^204 * h8 + 2^230 * h9).toNat / 2^112 % 256) := by
  unfold Digits at hr; simp only at hr
  simp only [shr, shl32, wrap32]
  apply UInt8.toNat_inj.mp; rw [u8of_toNat, UInt8.toNat_ofNat']; omega

theorem pack_b15 (h0 h1 h2 h3 h4 h5 h6 h7 h8 h9 : Int) (hr : Digits ⟨h0, h1, h2, h3, h4, h5, h6, h7, h8, h9⟩) :
    u8of (shr h4 18) = UInt8.ofNat ((h0 + 2^26 * h1 + 2^51 * h2 + 2^77 * h3 + 2^102 * h4 + 2^128 * h5 + 2^153 * h6 + 2^179 * h7 + 2^204 * h8 + 2^230 * h9).toNat / 2^120 % 256) := by
  unfold Digits at hr; simp only at hr
  simp only [shr, shl32, wrap32]
  apply UInt8.toNat_inj.mp; rw [u8of_toNat, UInt8.toNat_ofNat']; omega

theorem pack_b16 (h0 h1 h2 h3 h4 h5 h6 h7 h8 h9 : Int) (hr : Digits ⟨h0, h1, h2, h3, h4, h5, h6, h7, h8, h9⟩) :
    u8of (shr h5 0) = UInt8.ofNat ((h0 + 2^26 * h1 + 2^51 * h2 + 2^77 * h3 + 2^102 * h4 + 2^128 * h5 + 2^153 * h6 + 2^179 * h7 + 2^204 * h8 + 2^230 * h9).toNat / 2^128 % 256) := by
  unfold Digits at hr; simp only at hr
  simp only [shr, shl32, wrap32]
  apply UInt8.toNat_inj.mp; rw [u8of_toNat, UInt8.toNat_ofNat']; omega

theorem pack_b17 (h0 h1 h2 h3 h4 h5 h6 h7 h8 h9 : Int) (hr : Digits ⟨h0, h1, h2, h3, h4, h5, h6, h7, h8, h9⟩) :
    u8of (shr h5 8) = UInt8.ofNat ((h0 + 2^26 * h1 + 2^51 * h2 + 2^77 * h3 + 2^102 * h4 + 2^128 * h5 + 2^153 * h6 + 2^179 * h7 + 2^204 * h8 + 2^230 * h9).toNat / 2^136 % 256) := by
  unfold Digits at hr; simp only at hr
  simp only [shr, shl32, wrap32]
  apply UInt8.toNat_inj.mp; rw [u8of_toNat, UInt8.toNat_ofNat']; omega

theorem pack_b18 (h0 h1 h2 h3 h4 h5 h6 h7 h8 h9 : Int) (hr : Digits ⟨h0, h1, h2, h3, h4, h5, h6, h7, h8, h9⟩) :
    u8of (shr h5 16) = UInt8.ofNat ((h0 + 2^26 * h1 + 2^51 * h2 + 2^77 * h3 + 2^102 * h4 + 2^128 * h5 + 2^153 * h6 + 2^179 * h7 + 2^204 * h8 + 2^230 * h9).toNat / 2^144 % 256) := by
  unfold Digits at hr; simp only at hr
  simp only [shr, shl32, wrap32]
  apply UInt8.toNat_inj.mp; rw [u8of_toNat, UInt8.toNat_ofNat']; omega

theorem pack_b19 (h0 h1 h2 h3 h4 h5 h6 h7 h8 h9 : Int) (hr : Digits ⟨h0, h1, h2, h3, h4, h5, h6, h7, h8, h9⟩) :
    u8or (shr h5 24) (shl32 h6 1) = UInt8.ofNat ((h0 + 2^26 * h1 + 2^51 * h2 + 2^77 * h3 + 2^102 * h4 + 2^128 * h5 + 2^153 * h6 + 2^179 * h7 + 2^204 * h8 + 2^230 * h9).toNat / 2^152 % 256) := by
  unfold Digits at hr; simp only at hr
  simp only [shr, shl32, wrap32]
  apply UInt8.toNat_inj.mp; rw [u8or_toNat_add _ _ 1 (by omega) (by omega), UInt8.toNat_ofNat']; omega

theorem pack_b20 (h0 h1 h2 h3 h4 h5 h6 h7 h8 h9 : Int) (hr : Digits ⟨h0, h1, h2, h3, h4, h5, h6, h7, h8, h9⟩) :
    u8of (shr h6 7) = UInt8.ofNat ((h0 + 2^26 * h1 + 2^51 * h2 + 2^77 * h3 + 2^102 * h4 + 2^128 * h5 + 2^153 * h6 + 2^179 * h7 + 2^204 * h8 + 2^230 * h9).toNat / 2^160 % 256) := by
  unfold Digits at hr; simp only at hr
  simp only [shr, shl32, wrap32]
  apply UInt8.toNat_inj.mp; rw [u8of_toNat, UInt8.toNat_ofNat']; omega

theorem pack_b21 (h0 h1 h2 h3 h4 h5 h6 h7 h8 h9 : Int) (hr : Digits ⟨h0, h1, h2, h3, h4, h5, h6, h7, h8, h9⟩) :
    u8of (shr h6 15) = UInt8.ofNat ((h0 + 2^26 * h1 + 2^51 * h2 + 2^77 * h3 + 2^102 * h4 + 2^128 * h5 + 2^153 * h6 + 2^179 * h7 + 2^204 * h8 + 2^230 * h9).toNat / 2^168 % 256) := by
  unfold Digits at hr; simp only at hr
  simp only [shr, shl32, wrap32]
  apply UInt8.toNat_inj.mp; rw [u8of_toNat, UInt8.toNat_ofNat']; omega

theorem pack_b22 (h0 h1 h2 h3 h4 h5 h6 h7 h8 h9 : Int) (hr : Digits ⟨h0, h1, h2, h3, h4, h5, h6, h7, h8, h9⟩) :
    u8or (shr h6 23) (shl32 h7 3) = UInt8.ofNat ((h0 + 2^26 * h1 + 2^51 * h2 + 2^77 * h3 + 2^102 * h4 + 2^128 * h5 + 2^153 * h6 + 2^179 * h7 + 2^204 * h8 + 2^230 * h9).toNat / 2^176 % 256) := by
  unfold Digits at hr; simp only at hr
  simp only [shr, shl32, wrap32]
  apply UInt8.toNat_inj.mp; rw [u8or_toNat_add _ _ 3 (by omega) (by omega), UInt8.toNat_ofNat']; omega

theorem pack_b23 (h0 h1 h2 h3 h4 h5 h6 h7 h8 h9 : Int) (hr : Digits ⟨h0, h1, h2, h3, h4, h5, h6, h7, h8, h9⟩) :
    u8of (shr h7 5) = UInt8.ofNat ((h0 + 2^26 * h1 + 2^51 * h2 + 2^77 * h3 + 2^102 * h4 + 2^128 * h5 + 2^153 * h6 + 2^179 * h7 + 2^204 * h8 + 2^230 * h9).toNat / 2^184 % 256) := by
  unfold Digits at hr; simp only at hr
  simp only [shr, shl32, wrap32]
  apply UInt8.toNat_inj.mp; rw [u8of_toNat, UInt8.toNat_ofNat']; omega

theorem pack_b24 (h0 h1 h2 h3 h4 h5 h6 h7 h8 h9 : Int) (hr : Digits ⟨h0, h1, h2, h3, h4, h5, h6, h7, h8, h9⟩) :
    u8of (shr h7 13) = UInt8.ofNat ((h0 + 2^26 * h1 + 2^51 * h2 + 2^77 * h3 + 2^102 * h4 + 2^128 * h5 + 2^153 * h6 + 2^179 * h7 + 2^204 * h8 + 2^230 * h9).toNat / 2^192 % 256) := by
  unfold Digits at hr; simp only at hr
  simp only [shr, shl32, wrap32]
  apply UInt8.toNat_inj.mp; rw [u8of_toNat, UInt8.toNat_ofNat']; omega

theorem pack_b25 (h0 h1 h2 h3 h4 h5 h6 h7 h8 h9 : Int) (hr : Digits ⟨h0, h1, h2, h3, h4, h5, h6, h7, h8, h9⟩) :
    u8or (shr h7 21) (shl32 h8 4) = UInt8.ofNat ((h0 + 2^26 * h1 + 2^51 * h2 + 2^77 * h3 + 2^102 * h4 + 2^128 * h5 + 2^153 * h6 + 2^179 * h7 + 2^204 * h8 + 2^230 * h9).toNat / 2^200 % 256) := by
  unfold Digits at hr; simp only at hr
  simp only [shr, shl32, wrap32]
  apply UInt8.toNat_inj.mp; rw [u8or_toNat_add _ _ 4 (by omega) (by omega), UInt8.toNat_ofNat']; omega

theorem pack_b26 (h0 h1 h2 h3 h4 h5 h6 h7 h8 h9 : Int) (hr : Digits ⟨h0, h1, h2, h3, h4, h5, h6, h7, h8, h9⟩) :
    u8of (shr h8 4) = UInt8.ofNat ((h0 + 2^26 * h1 + 2^51 * h2 + 2^77 * h3 + 2^102 * h4 + 2^128 * h5 + 2^153 * h6 + 2^179 * h7 + 2^204 * h8 + 2^230 * h9).toNat / 2^208 % 256) := by
  unfold Digits at hr; simp only at hr
  simp only [shr, shl32, wrap32]
  apply UInt8.toNat_inj.mp; rw [u8of_toNat, UInt8.toNat_ofNat']; omega

theorem pack_b27 (h0 h1 h2 h3 h4 h5 h6 h7 h8 h9 : Int) (hr : Digits ⟨h0, h1, h2, h3, h4, h5, h6, h7, h8, h9⟩) :
    u8of (shr h8 12) = UInt8.ofNat ((h0 + 2^26 * h1 + 2^51 * h2 + 2^77 * h3 + 2^102 * h4 + 2^128 * h5 + 2^153 * h6 + 2^179 * h7 + 2^204 * h8 + 2^230 * h9).toNat / 2^216 % 256) := by
  unfold Digits at hr; simp only at hr
  simp only [shr, shl32, wrap32]
  apply UInt8.toNat_inj.mp; rw [u8of_toNat, UInt8.toNat_ofNat']; omega

theorem pack_b28 (h0 h1 h2 h3 h4 h5 h6 h7 h8 h9 : Int) (hr : Digits ⟨h0, h1, h2, h3, h4, h5, h6, h7, h8, h9⟩) :
    u8or (shr h8 20) (shl32 h9 6) = UInt8.ofNat ((h0 + 2^26 * h1 + 2^51 * h2 + 2^77 * h3 + 2^102 * h4 + 2^128 * h5 + 2^153 * h6 + 2^179 * h7 + 2^204 * h8 + 2^230 * h9).toNat / 2^224 % 256) := by
  unfold Digits at hr; simp only at hr
  simp only [shr, shl32, wrap32]
  apply UInt8.toNat_inj.mp; rw [u8or_toNat_add _ _ 6 (by omega) (by omega), UInt8.toNat_ofNat']; omega

theorem pack_b29 (h0 h1 h2 h3 h4 h5 h6 h7 h8 h9 : Int) (hr : Digits ⟨h0, h1, h2, h3, h4, h5, h6, h7, h8, h9⟩) :
    u8of (shr h9 2) = UInt8.ofNat ((h0 + 2^26 * h1 + 2^51 * h2 + 2^77 * h3 + 2^102 * h4 + 2^128 * h5 + 2^153 * h6 + 2^179 * h7 + 2^204 * h8 + 2^230 * h9).toNat / 2^232 % 256) := by
  unfold Digits at hr; simp only at hr
  simp only [shr, shl32, wrap32]
  apply UInt8.toNat_inj.mp; rw [u8of_toNat, UInt8.toNat_ofNat']; omega

theorem pack_b30 (h0 h1 h2 h3 h4 h5 h6 h7 h8 h9 : Int) (hr : Digits ⟨h0, h1, h2, h3, h4, h5, h6, h7, h8, h9⟩) :
    u8of (shr h9 10) = UInt8.ofNat ((h0 + 2^26 * h1 + 2^51 * h2 + 2^77 * h3 + 2^102 * h4 + 2^128 * h5 + 2^153 * h6 + 2^179 * h7 + 2^204 * h8 + 2^230 * h9).toNat / 2^240 % 256) := by
  unfold Digits at hr; simp only at hr
  simp only [shr, shl32, wrap32]
  apply UInt8.toNat_inj.mp; rw [u8of_toNat, UInt8.toNat_ofNat']; omega

theorem pack_b31 (h0 h1 h2 h3 h4 h5 h6 h7 h8 h9 : Int) (hr : Digits ⟨h0, h1, h2, h3, h4, h5, h6, h7, h8, h9⟩) :
    u8of (shr h9 18) = UInt8.ofNat ((h0 + 2^26 * h1 + 2^51 * h2 + 2^77 * h3 + 2^102 * h4 + 2^128 * h5 + 2^153 * h6 + 2^179 * h7 + 2^204 * h8 + 2^230 * h9).toNat / 2^248 % 256) := by
  unfold Digits at hr; simp only at hr
  simp only [shr, shl32, wrap32]
  apply UInt8.toNat_inj.mp; rw [u8of_toNat, UInt8.toNat_ofNat']; omega

/-- digits ⟹ the bytes are the 32-byte little-endian encoding of the value (byte by byte, `omega`) -/
theorem pack_spec (r : Fe) (hr : Digits r) : pack r = natToLE 32 (val r).toNat := by
  obtain ⟨h0, h1, h2, h3, h4, h5, h6, h7, h8, h9⟩ := r
  rw [natToLE32_explicit]
  simp only [pack, val]
  exact cons_eq (pack_b0 h0 h1 h2 h3 h4 h5 h6 h7 h8 h9 hr) (cons_eq (pack_b1 h0 h1 h2 h3 h4 h5 h6 h7 h8 h9 hr) (cons_eq (pack_b2 h0 h1 h2 h3 h4 h5 h6 h7 h8 h9 hr) (cons_eq (pack_b3 h0 h1 h2 h3 h4 h5 h6 h7 h8 h9 hr) (cons_eq (pack_b4 h0 h1 h2 h3 h4 h5 h6 h7 h8 h9 hr) (cons_eq (pack_b5 h0 h1 h2 h3 h4 h5 h6 h7 h8 h9 hr) (cons_eq (pack_b6 h0 h1 h2 h3 h4 h5 h6 h7 h8 h9 hr) (cons_eq (pack_b7 h0 h1 h2 h3 h4 h5 h6 h7 h8 h9 hr) (cons_eq (pack_b8 h0 h1 h2 h3 h4 h5 h6 h7 h8 h9 hr) (cons_eq (pack_b9 h0 h1 h2 h3 h4 h5 h6 h7 h8 h9 hr) (cons_eq (pack_b10 h0 h1 h2 h3 h4 h5 h6 h7 h8 h9 hr) (cons_eq (pack_b11 h0 h1 h2 h3 h4 h5 h6 h7 h8 h9 hr) (cons_eq (pack_b12 h0 h1 h2 h3 h4 h5 h6 h7 h8 h9 hr) (cons_eq (pack_b13 h0 h1 h2 h3 h4 h5 h6 h7 h8 h9 hr) (cons_eq (pack_b14 h0 h1 h2 h3 h4 h5 h6 h7 h8 h9 hr) (cons_eq (pack_b15 h0 h1 h2 h3 h4 h5 h6 h7 h8 h9 hr) (cons_eq (pack_b16 h0 h1 h2 h3 h4 h5 h6 h7 h8 h9 hr) (cons_eq (pack_b17 h0 h1 h2 h3 h4 h5 h6 h7 h8 h9 hr) (cons_eq (pack_b18 h0 h1 h2 h3 h4 h5 h6 h7 h8 h9 hr) (cons_eq (pack_b19 h0 h1 h2 h3 h4 h5 h6 h7 h8 h9 hr) (cons_eq (pack_b20 h0 h1 h2 h3 h4 h5 h6 h7 h8 h9 hr) (cons_eq (pack_b21 h0 h1 h2 h3 h4 h5 h6 h7 h8 h9 hr) (cons_eq (pack_b22 h0 h1 h2 h3 h4 h5 h6 h7 h8 h9 hr) (cons_eq (pack_b23 h0 h1 h2 h3 h4 h5 h6 h7 h8 h9 hr) (cons_eq (pack_b24 h0 h1 h2 h3 h4 h5 h6 h7 h8 h9 hr) (cons_eq (pack_b25 h0 h1 h2 h3 h4 h5 h6 h7 h8 h9 hr) (cons_eq (pack_b26 h0 h1 h2 h3 h4 h5 h6 h7 h8 h9 hr) (cons_eq (pack_b27 h0 h1 h2 h3 h4 h5 h6 h7 h8 h9 hr) (cons_eq (pack_b28 h0 h1 h2 h3 h4 h5 h6 h7 h8 h9 hr) (cons_eq (pack_b29 h0 h1 h2 h3 h4 h5 h6 h7 h8 h9 hr) (cons_eq (pack_b30 h0 h1 h2 h3 h4 h5 h6 h7 h8 h9 hr) (cons_eq (pack_b31 h0 h1 h2 h3 h4 h5 h6 h7 h8 h9 hr) (rfl))))))))))))))))))))))))))))))))

/-- **to_bytes is canonical**: the 32 little-endian bytes of `val f mod p`, for every limb vector of weight ≤ 6 -/
theorem to_bytes_spec (f : Fe) (hf : W 6 f) : to_bytes f = some (Field25519.encode (eval f)) := by
  obtain ⟨r, er, hr, vr⟩ := to_bytes_limbs_spec f hf
  unfold to_bytes
  rw [er, some_bind, pure_eq_some, pack_spec r hr, vr]
  unfold Field25519.encode
  rw [Nat.mod_eq_of_lt (eval_lt f)]
  rfl

end Cx.Proofs.Fe32
