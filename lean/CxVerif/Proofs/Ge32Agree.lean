/-
  Proofs.Ge32Agree — byte-level programs over the group API of ge.rs (decode, operate, encode), written once per backend
  (namespaces `B32` over Impl/Ge32.lean and `B64` over Impl/Ge.lean, same text), each proved equal to ONE Spec function
  for ALL 32-byte inputs: hence the two backends agree byte for byte (Props/C17/Group32.lean `group_ops_backends_agree`).
  The proofs only compose the refinement theorems of the two developments (Proofs/Ge32*.lean, Proofs/Ge*.lean).
-/
import CxVerif.Proofs.Ed25519_32Verify
import CxVerif.Proofs.GeDecode
import CxVerif.Proofs.GeDsm
import CxVerif.Proofs.Ed25519Inst
namespace Cx.Proofs.Ge32Agree
open Cx Cx.Spec Cx.Proofs.EdSpec Cx.Proofs.EdField
open Cx.Spec.Field25519 (p)
open Cx.Proofs.GeComb (GroupLawFact)

set_option maxRecDepth 10000

/-! ## the Spec side of the programs -/

/-- P ± Q of two decoded points, encoded; `none` when a string is not a point -/
def binopSpec (sub : Bool) (s t : Bytes) : Option Bytes :=
  match Edwards.decode s, Edwards.decode t with
  | some P, some Q => some (Edwards.encode (if sub then Edwards.sub P Q else Edwards.add P Q))
  | _, _ => none

/-- 2P or −P of a decoded point, encoded -/
def unopSpec (neg : Bool) (s : Bytes) : Option Bytes :=
  match Edwards.decode s with
  | some P => some (Edwards.encode (if neg then Edwards.neg P else Edwards.double P))
  | none => none

/-- `[a]P + [b]B` for the decoded point `P`, encoded -/
def dsmSpec (a s b : Bytes) : Option Bytes :=
  (Edwards.decode s).map fun P => Edwards.encode (Edwards.add (Edwards.smul (leNat a) P) (Edwards.smul (leNat b) Edwards.B))

/-! ## 32-bit backend — byte-level programs over the group API -/
namespace B32
open Cx.Impl.Ge32 Cx.Proofs.Ge32Refine
open Cx.Proofs.Fe32 (some_bind pure_eq_some)

/-- decode two points, add / subtract them the way ge.rs offers it (`to_cached`, `Add/Sub<&GeCached>`, `to_full`),
    encode the result; inner `none` = one of the strings is not a point -/
def binop (sub : Bool) (s t : Bytes) : Option (Option Bytes) :=
  (Ge.from_bytes s).bind fun g? => (Ge.from_bytes t).bind fun h? =>
    match g?, h? with
    | some g, some h =>
      h.to_cached.bind fun c => (if sub then g.sub_cached c else g.add_cached c).bind fun r =>
        r.to_full.bind fun f => f.to_bytes.bind fun b => some (some b)
    | _, _ => some none

/-- decode a point, double (`Ge::double`) or negate (`Ge::negate`) it, encode the result -/
def unop (neg : Bool) (s : Bytes) : Option (Option Bytes) :=
  (Ge.from_bytes s).bind fun g? =>
    match g? with
    | some g => (if neg then g.negate else g.double).bind fun f => f.to_bytes.bind fun b => some (some b)
    | none => some none

/-- `Ge::from_bytes` then `Ge::to_bytes` -/
def recode (s : Bytes) : Option (Option Bytes) :=
  (Ge.from_bytes s).bind fun g? =>
    match g? with
    | some g => g.to_bytes.bind fun b => some (some b)
    | none => some none

/-- `Ge::scalarmult_base(&Scalar::from_bytes(a)).to_bytes()` -/
def smulBase (a : Bytes) : Option Bytes :=
  (Impl.Scalar32.fromBytes a).bind fun x => (Ge.scalarmult_base x).bind fun g => g.to_bytes

/-- `GePartial::double_scalarmult_vartime(&Scalar::from_bytes(a), Ge::from_bytes(s)?, &Scalar::from_bytes(b)).to_bytes()` -/
def dsm (a s b : Bytes) : Option (Option Bytes) :=
  (Ge.from_bytes s).bind fun g? =>
    match g? with
    | some g =>
      (Impl.Scalar32.fromBytes a).bind fun x => (Impl.Scalar32.fromBytes b).bind fun y =>
        (GePartial.double_scalarmult_vartime x g y).bind fun r => r.to_bytes.bind fun o => some (some o)
    | none => some none

section
variable [hp : Fact (Nat.Prime p)]

theorem binop_eq (sub : Bool) (s t : Bytes) (hs : s.length = 32) (ht : t.length = 32) :
    binop sub s t = some (binopSpec sub s t) := by
  have h1 := Proofs.Ge32Decode.from_bytes_refines_decode s hs
  have h2 := Proofs.Ge32Decode.from_bytes_refines_decode t ht
  unfold binop binopSpec
  cases hd1 : Edwards.decode s with
  | none =>
    rw [hd1] at h1
    rw [h1, Option.bind_some]
    cases hd2 : Edwards.decode t with
    | none => rw [hd2] at h2; rw [h2, Option.bind_some]
    | some Q => rw [hd2] at h2; obtain ⟨_, h, eh, _⟩ := h2; rw [eh, Option.bind_some]
  | some P =>
    rw [hd1] at h1
    obtain ⟨hP, g, eg, gok⟩ := h1
    rw [eg, Option.bind_some]
    cases hd2 : Edwards.decode t with
    | none => rw [hd2] at h2; rw [h2, Option.bind_some]
    | some Q =>
      rw [hd2] at h2
      obtain ⟨hQ, h, eh, hok⟩ := h2
      rw [eh, Option.bind_some]
      dsimp only
      obtain ⟨c, ec, cok⟩ := to_cached_ok h Q hok
      rw [ec, Option.bind_some]
      cases sub with
      | false =>
        obtain ⟨r, er, rok⟩ := add_cached_ok g c P Q gok cok hP hQ
        obtain ⟨f, ef, fok⟩ := to_full_ok r _ rok
        simp only [Bool.false_eq_true, if_false]
        rw [er, Option.bind_some, ef, Option.bind_some,
          Proofs.Ge32Bytes.ge_to_bytes_ok f _ fok (add_x_lt P Q) (add_y_lt P Q), Option.bind_some]
      | true =>
        obtain ⟨r, er, rok⟩ := sub_cached_ok g c P Q gok cok hP hQ
        obtain ⟨f, ef, fok⟩ := to_full_ok r _ rok
        simp only [if_true]
        rw [er, Option.bind_some, ef, Option.bind_some,
          Proofs.Ge32Bytes.ge_to_bytes_ok f _ fok (add_x_lt P _) (add_y_lt P _), Option.bind_some]

theorem unop_eq (neg : Bool) (s : Bytes) (hs : s.length = 32) : unop neg s = some (unopSpec neg s) := by
  have h1 := Proofs.Ge32Decode.from_bytes_refines_decode s hs
  unfold unop unopSpec
  cases hd1 : Edwards.decode s with
  | none => rw [hd1] at h1; rw [h1, Option.bind_some]
  | some P =>
    rw [hd1] at h1
    obtain ⟨hP, g, eg, gok⟩ := h1
    rw [eg, Option.bind_some]
    dsimp only
    cases neg with
    | false =>
      obtain ⟨r, er, rok⟩ := ge_double_p1p1_ok g P gok hP
      obtain ⟨f, ef, fok⟩ := to_full_ok r _ rok
      have ed : g.double = some f := by simp only [Ge.double]; rw [er, some_bind]; exact ef
      simp only [Bool.false_eq_true, if_false]
      rw [ed, Option.bind_some, Proofs.Ge32Bytes.ge_to_bytes_ok f _ fok (add_x_lt P P) (add_y_lt P P), Option.bind_some]
    | true =>
      obtain ⟨f, ef, fok⟩ := negate_ok g P gok
      simp only [if_true]
      rw [ef, Option.bind_some,
        Proofs.Ge32Bytes.ge_to_bytes_ok f _ fok (neg_lt _) (Nat.mod_lt _ Cx.Proofs.EdField.p_pos), Option.bind_some]

theorem recode_eq (s : Bytes) (hs : s.length = 32) : recode s = some ((Edwards.decode s).map Edwards.encode) := by
  have h1 := Proofs.Ge32Decode.from_bytes_refines_decode s hs
  unfold recode
  cases hd1 : Edwards.decode s with
  | none => rw [hd1] at h1; rw [h1, Option.bind_some]; rfl
  | some P =>
    rw [hd1] at h1
    obtain ⟨hP, g, eg, gok⟩ := h1
    obtain ⟨hx, hy, _⟩ := (onCurve_iff P).1 hP
    rw [eg, Option.bind_some]
    dsimp only
    rw [Proofs.Ge32Bytes.ge_to_bytes_ok g P gok hx hy, Option.bind_some]
    rfl

variable [hG : GroupLawFact]

theorem smulBase_eq (a : Bytes) (ha : a.length = 32) (hlt : leNat a < 2 ^ 255) :
    smulBase a = some (Edwards.encode (Edwards.smul (leNat a) Edwards.B)) := by
  obtain ⟨x, g, ex, _, eg, eb⟩ := Proofs.Ed25519_32Sign.base_mul_bytes a ha hlt
  unfold smulBase
  rw [ex, Option.bind_some, eg, Option.bind_some]
  exact eb

theorem dsm_eq (a s b : Bytes) (ha : a.length = 32) (hs : s.length = 32) (hb : b.length = 32)
    (hav : leNat a < 2 ^ 255) (hbv : leNat b < 2 ^ 255) : dsm a s b = some (dsmSpec a s b) := by
  have h1 := Proofs.Ge32Decode.from_bytes_refines_decode s hs
  unfold dsm dsmSpec
  cases hd1 : Edwards.decode s with
  | none => rw [hd1] at h1; rw [h1, Option.bind_some]; rfl
  | some P =>
    rw [hd1] at h1
    obtain ⟨hP, g, eg, gok⟩ := h1
    rw [eg, Option.bind_some]
    dsimp only
    obtain ⟨x, ex, _, xv⟩ := Proofs.Ed25519_32Sign.fromBytes_ok a ha
    obtain ⟨y, ey, _, yv⟩ := Proofs.Ed25519_32Sign.fromBytes_ok b hb
    rw [ex, Option.bind_some, ey, Option.bind_some]
    obtain ⟨r, er, rok⟩ := Proofs.Ge32Dsm.dsm_ok x y g P (by show Proofs.Ed25519_32Sign.sval x < _; rw [xv]; exact hav)
      (by show Proofs.Ed25519_32Sign.sval y < _; rw [yv]; exact hbv) gok hP
    change PartialOk r (Edwards.add (Edwards.smul (Proofs.Ed25519_32Sign.sval x) P)
      (Edwards.smul (Proofs.Ed25519_32Sign.sval y) Edwards.B)) at rok
    rw [xv, yv] at rok
    rw [er, Option.bind_some, Proofs.Ge32Bytes.partial_to_bytes_ok r _ rok (add_x_lt _ _) (add_y_lt _ _), Option.bind_some]
    rfl

end
end B32

/-! ## 64-bit backend — byte-level programs over the group API -/
namespace B64
open Cx.Impl.Ge Cx.Proofs.GeRefine
open Cx.Proofs.Fe64 (some_bind pure_eq_some)

/-- decode two points, add / subtract them the way ge.rs offers it (`to_cached`, `Add/Sub<&GeCached>`, `to_full`),
    encode the result; inner `none` = one of the strings is not a point -/
def binop (sub : Bool) (s t : Bytes) : Option (Option Bytes) :=
  (Ge.from_bytes s).bind fun g? => (Ge.from_bytes t).bind fun h? =>
    match g?, h? with
    | some g, some h =>
      h.to_cached.bind fun c => (if sub then g.sub_cached c else g.add_cached c).bind fun r =>
        r.to_full.bind fun f => f.to_bytes.bind fun b => some (some b)
    | _, _ => some none

/-- decode a point, double (`Ge::double`) or negate (`Ge::negate`) it, encode the result -/
def unop (neg : Bool) (s : Bytes) : Option (Option Bytes) :=
  (Ge.from_bytes s).bind fun g? =>
    match g? with
    | some g => (if neg then g.negate else g.double).bind fun f => f.to_bytes.bind fun b => some (some b)
    | none => some none

/-- `Ge::from_bytes` then `Ge::to_bytes` -/
def recode (s : Bytes) : Option (Option Bytes) :=
  (Ge.from_bytes s).bind fun g? =>
    match g? with
    | some g => g.to_bytes.bind fun b => some (some b)
    | none => some none

/-- `Ge::scalarmult_base(&Scalar::from_bytes(a)).to_bytes()` -/
def smulBase (a : Bytes) : Option Bytes :=
  (Impl.Scalar64.fromBytes a).bind fun x => (Ge.scalarmult_base x).bind fun g => g.to_bytes

/-- `GePartial::double_scalarmult_vartime(&Scalar::from_bytes(a), Ge::from_bytes(s)?, &Scalar::from_bytes(b)).to_bytes()` -/
def dsm (a s b : Bytes) : Option (Option Bytes) :=
  (Ge.from_bytes s).bind fun g? =>
    match g? with
    | some g =>
      (Impl.Scalar64.fromBytes a).bind fun x => (Impl.Scalar64.fromBytes b).bind fun y =>
        (GePartial.double_scalarmult_vartime x g y).bind fun r => r.to_bytes.bind fun o => some (some o)
    | none => some none

section
variable [hp : Fact (Nat.Prime p)]

theorem binop_eq (sub : Bool) (s t : Bytes) (hs : s.length = 32) (ht : t.length = 32) :
    binop sub s t = some (binopSpec sub s t) := by
  have h1 := Proofs.GeDecode.decodeFact s hs
  have h2 := Proofs.GeDecode.decodeFact t ht
  unfold binop binopSpec
  cases hd1 : Edwards.decode s with
  | none =>
    rw [hd1] at h1
    rw [h1, Option.bind_some]
    cases hd2 : Edwards.decode t with
    | none => rw [hd2] at h2; rw [h2, Option.bind_some]
    | some Q => rw [hd2] at h2; obtain ⟨_, h, eh, _⟩ := h2; rw [eh, Option.bind_some]
  | some P =>
    rw [hd1] at h1
    obtain ⟨hP, g, eg, gok⟩ := h1
    rw [eg, Option.bind_some]
    cases hd2 : Edwards.decode t with
    | none => rw [hd2] at h2; rw [h2, Option.bind_some]
    | some Q =>
      rw [hd2] at h2
      obtain ⟨hQ, h, eh, hok⟩ := h2
      rw [eh, Option.bind_some]
      dsimp only
      obtain ⟨c, ec, cok⟩ := to_cached_ok h Q hok
      rw [ec, Option.bind_some]
      cases sub with
      | false =>
        obtain ⟨r, er, rok⟩ := add_cached_ok g c P Q gok cok hP hQ
        obtain ⟨f, ef, fok⟩ := to_full_ok r _ rok
        simp only [Bool.false_eq_true, if_false]
        rw [er, Option.bind_some, ef, Option.bind_some,
          Proofs.GeBytes.ge_to_bytes_ok f _ fok (add_x_lt P Q) (add_y_lt P Q), Option.bind_some]
      | true =>
        obtain ⟨r, er, rok⟩ := sub_cached_ok g c P Q gok cok hP hQ
        obtain ⟨f, ef, fok⟩ := to_full_ok r _ rok
        simp only [if_true]
        rw [er, Option.bind_some, ef, Option.bind_some,
          Proofs.GeBytes.ge_to_bytes_ok f _ fok (add_x_lt P _) (add_y_lt P _), Option.bind_some]

theorem unop_eq (neg : Bool) (s : Bytes) (hs : s.length = 32) : unop neg s = some (unopSpec neg s) := by
  have h1 := Proofs.GeDecode.decodeFact s hs
  unfold unop unopSpec
  cases hd1 : Edwards.decode s with
  | none => rw [hd1] at h1; rw [h1, Option.bind_some]
  | some P =>
    rw [hd1] at h1
    obtain ⟨hP, g, eg, gok⟩ := h1
    rw [eg, Option.bind_some]
    dsimp only
    cases neg with
    | false =>
      obtain ⟨r, er, rok⟩ := ge_double_p1p1_ok g P gok hP
      obtain ⟨f, ef, fok⟩ := to_full_ok r _ rok
      have ed : g.double = some f := by simp only [Ge.double]; rw [er, some_bind]; exact ef
      simp only [Bool.false_eq_true, if_false]
      rw [ed, Option.bind_some, Proofs.GeBytes.ge_to_bytes_ok f _ fok (add_x_lt P P) (add_y_lt P P), Option.bind_some]
    | true =>
      obtain ⟨f, ef, fok⟩ := negate_ok g P gok
      simp only [if_true]
      rw [ef, Option.bind_some,
        Proofs.GeBytes.ge_to_bytes_ok f _ fok (neg_lt _) (Nat.mod_lt _ Cx.Proofs.EdField.p_pos), Option.bind_some]

theorem recode_eq (s : Bytes) (hs : s.length = 32) : recode s = some ((Edwards.decode s).map Edwards.encode) := by
  have h1 := Proofs.GeDecode.decodeFact s hs
  unfold recode
  cases hd1 : Edwards.decode s with
  | none => rw [hd1] at h1; rw [h1, Option.bind_some]; rfl
  | some P =>
    rw [hd1] at h1
    obtain ⟨hP, g, eg, gok⟩ := h1
    obtain ⟨hx, hy, _⟩ := (onCurve_iff P).1 hP
    rw [eg, Option.bind_some]
    dsimp only
    rw [Proofs.GeBytes.ge_to_bytes_ok g P gok hx hy, Option.bind_some]
    rfl

variable [hG : GroupLawFact]

theorem smulBase_eq (a : Bytes) (ha : a.length = 32) (hlt : leNat a < 2 ^ 255) :
    smulBase a = some (Edwards.encode (Edwards.smul (leNat a) Edwards.B)) := by
  obtain ⟨x, g, ex, _, _, eg, eb⟩ := Proofs.Ed25519Sign.base_mul_bytes Proofs.Ed25519Inst.scalarFacts a ha hlt
  unfold smulBase
  rw [ex, Option.bind_some, eg, Option.bind_some]
  exact eb

theorem dsm_eq (a s b : Bytes) (ha : a.length = 32) (hs : s.length = 32) (hb : b.length = 32)
    (hav : leNat a < 2 ^ 255) (hbv : leNat b < 2 ^ 255) : dsm a s b = some (dsmSpec a s b) := by
  have h1 := Proofs.GeDecode.decodeFact s hs
  unfold dsm dsmSpec
  cases hd1 : Edwards.decode s with
  | none => rw [hd1] at h1; rw [h1, Option.bind_some]; rfl
  | some P =>
    rw [hd1] at h1
    obtain ⟨hP, g, eg, gok⟩ := h1
    rw [eg, Option.bind_some]
    dsimp only
    obtain ⟨x, ex, xi, xv⟩ := Proofs.Ed25519Inst.scalarFacts.fromBytes a ha
    obtain ⟨y, ey, yi, yv⟩ := Proofs.Ed25519Inst.scalarFacts.fromBytes b hb
    rw [ex, Option.bind_some, ey, Option.bind_some]
    obtain ⟨r, er, rok⟩ := Proofs.GeDsm.dsm_ok x y g P xi yi (by rw [xv]; exact hav) (by rw [yv]; exact hbv) gok hP
    rw [xv, yv] at rok
    rw [er, Option.bind_some, Proofs.GeBytes.partial_to_bytes_ok r _ rok (add_x_lt _ _) (add_y_lt _ _), Option.bind_some]
    rfl

end
end B64

end Cx.Proofs.Ge32Agree
