/-
  Proofs.Sha2Compress — the code-shaped block functions of impl256/reference.rs (and impl512/reference.rs) equal the
  FIPS 180-4 compression functions of Spec/Sha2.lean, on every block and every chaining value (C01 (v)).

    ch32_eq, maj32_eq       `g ^ (e & (f ^ g)) = Ch`, `(a & b) | (c & (a | b)) = Maj`   (bitwise, via BitVec ext)
    round_eq, rounds8_eq    the `round!` macro, 8-way unrolled with renamed registers = eight FIPS rounds
    rounds_loop_eq          `while i != 64 { … i += 8 }` = `for t = 0..63`
    digest_block_u32_eq     `digest_block_u32` = `Spec.Sha2.compress256` (uses `K32 = K^{256}`: Sha2Tables.K32_eq);
                            never panics on a 64-byte block
  Shared, not proved (stated in Impl/Sha2.lean): the SHA-256 message-schedule loop (`schedule256`).
  Core Lean only.
-/
import CxVerif.Spec.Sha2
import CxVerif.Impl.Sha2
import CxVerif.Proofs.Sha2Tables
namespace Cx.Proofs.Sha2Compress
open Cx Cx.Spec.Sha2 Cx.Impl Cx.Impl.Sha2

/-! ### bit identities -/

theorem ch32_eq (e f g : UInt32) : g ^^^ (e &&& (f ^^^ g)) = Ch32 e f g := by
  unfold Ch32
  apply UInt32.eq_of_toBitVec_eq
  simp only [UInt32.toBitVec_xor, UInt32.toBitVec_and, UInt32.toBitVec_not]
  ext i hi
  simp
  cases e.toBitVec[i] <;> cases f.toBitVec[i] <;> cases g.toBitVec[i] <;> rfl

theorem maj32_eq (a b c : UInt32) : ((a &&& b) ||| (c &&& (a ||| b))) = Maj32 a b c := by
  unfold Maj32
  apply UInt32.eq_of_toBitVec_eq
  simp only [UInt32.toBitVec_xor, UInt32.toBitVec_and, UInt32.toBitVec_or]
  ext i hi
  simp
  cases a.toBitVec[i] <;> cases b.toBitVec[i] <;> cases c.toBitVec[i] <;> rfl

theorem e0_eq (x : UInt32) : Impl256.e0 x = bigSigma0_256 x := rfl
theorem e1_eq (x : UInt32) : Impl256.e1 x = bigSigma1_256 x := rfl

/-- the macro `round!` computes the two registers the FIPS round changes -/
theorem round_eq (a b c d e f g h k w : UInt32) :
    round256 ⟨a, b, c, d, e, f, g, h⟩ (k, w)
      = ⟨(Impl256.round a b c d e f g h k w).2, a, b, c, (Impl256.round a b c d e f g h k w).1, e, f, g⟩ := by
  simp only [round256, Impl256.round, e0_eq, e1_eq, ch32_eq, maj32_eq]

/-- eight unrolled rounds with renamed registers = eight FIPS rounds -/
theorem rounds8_eq (s : W8 UInt32) (kw0 kw1 kw2 kw3 kw4 kw5 kw6 kw7 : UInt32 × UInt32) :
    Impl256.rounds8 s kw0 kw1 kw2 kw3 kw4 kw5 kw6 kw7
      = [kw0, kw1, kw2, kw3, kw4, kw5, kw6, kw7].foldl round256 s := by
  obtain ⟨a, b, c, d, e, f, g, h⟩ := s
  obtain ⟨k0, w0⟩ := kw0; obtain ⟨k1, w1⟩ := kw1; obtain ⟨k2, w2⟩ := kw2; obtain ⟨k3, w3⟩ := kw3
  obtain ⟨k4, w4⟩ := kw4; obtain ⟨k5, w5⟩ := kw5; obtain ⟨k6, w6⟩ := kw6; obtain ⟨k7, w7⟩ := kw7
  simp only [List.foldl, round_eq]
  rfl



/-- the `while i != 64` loop over a list of `8·n` (K, W) pairs = the FIPS `for t = 0 to 63` loop -/
theorem rounds_loop_eq (n : Nat) : ∀ (s : W8 UInt32) (l : List (UInt32 × UInt32)), l.length = 8 * n →
    Impl256.rounds_loop s l = some (l.foldl round256 s) := by
  induction n with
  | zero =>
    intro s l hl
    have : l = [] := List.length_eq_zero_iff.mp (by omega)
    subst this; rfl
  | succ n ih =>
    intro s l hl
    rcases l with _ | ⟨x0, _ | ⟨x1, _ | ⟨x2, _ | ⟨x3, _ | ⟨x4, _ | ⟨x5, _ | ⟨x6, _ | ⟨x7, rest⟩⟩⟩⟩⟩⟩⟩⟩
    all_goals try (first | (simp at hl; done) | (simp at hl; omega))
    have hr : rest.length = 8 * n := by simp at hl; omega
    rw [Impl256.rounds_loop, ih _ rest hr, rounds8_eq]
    simp only [List.foldl]

/-! ### lengths: sixteen words in, sixty-four (eighty) schedule words out -/

theorem chunksAux4_length : ∀ (fuel : Nat) (bs : Bytes), bs.length ≤ fuel →
    (chunksAux 4 fuel bs).length = (bs.length + 3) / 4 := by
  intro fuel
  induction fuel with
  | zero => intro bs h; have : bs = [] := List.length_eq_zero_iff.mp (by omega); subst this; rfl
  | succ f ih =>
    intro bs h
    unfold chunksAux
    by_cases he : bs.isEmpty
    · have : bs = [] := by simpa using he
      subst this; simp
    · simp only [he, Bool.false_eq_true, if_false, List.length_cons]
      have hne : bs.length ≠ 0 := by
        intro h0; exact he (by simp [List.length_eq_zero_iff.mp h0])
      rw [ih (bs.drop 4) (by simp; omega)]
      simp only [List.length_drop]
      omega

theorem chunksAux8_length : ∀ (fuel : Nat) (bs : Bytes), bs.length ≤ fuel →
    (chunksAux 8 fuel bs).length = (bs.length + 7) / 8 := by
  intro fuel
  induction fuel with
  | zero => intro bs h; have : bs = [] := List.length_eq_zero_iff.mp (by omega); subst this; rfl
  | succ f ih =>
    intro bs h
    unfold chunksAux
    by_cases he : bs.isEmpty
    · have : bs = [] := by simpa using he
      subst this; simp
    · simp only [he, Bool.false_eq_true, if_false, List.length_cons]
      have hne : bs.length ≠ 0 := by
        intro h0; exact he (by simp [List.length_eq_zero_iff.mp h0])
      rw [ih (bs.drop 8) (by simp; omega)]
      simp only [List.length_drop]
      omega

theorem wordsBE32_length (bs : Bytes) : (wordsBE32 bs).length = (bs.length + 3) / 4 := by
  simp [wordsBE32, chunks, chunksAux4_length _ _ (Nat.le_refl _)]

theorem wordsBE64_length (bs : Bytes) : (wordsBE64 bs).length = (bs.length + 7) / 8 := by
  simp [wordsBE64, chunks, chunksAux8_length _ _ (Nat.le_refl _)]

theorem exists16 {α : Type} (r : List α) (h : 16 ≤ r.length) :
    ∃ a0 a1 a2 a3 a4 a5 a6 a7 a8 a9 a10 a11 a12 a13 a14 a15 t,
      r = a0 :: a1 :: a2 :: a3 :: a4 :: a5 :: a6 :: a7 :: a8 :: a9 :: a10 :: a11 :: a12 :: a13 :: a14 :: a15 :: t := by
  rcases r with _ | ⟨a0, _ | ⟨a1, _ | ⟨a2, _ | ⟨a3, _ | ⟨a4, _ | ⟨a5, _ | ⟨a6, _ | ⟨a7, _ | ⟨a8, _ | ⟨a9, _ | ⟨a10,
    _ | ⟨a11, _ | ⟨a12, _ | ⟨a13, _ | ⟨a14, _ | ⟨a15, t⟩⟩⟩⟩⟩⟩⟩⟩⟩⟩⟩⟩⟩⟩⟩⟩
  all_goals first
    | exact ⟨a0, a1, a2, a3, a4, a5, a6, a7, a8, a9, a10, a11, a12, a13, a14, a15, t, rfl⟩
    | (simp at h; omega)
    | (simp at h)

theorem extend256_length (n : Nat) : ∀ r : List UInt32, 16 ≤ r.length → (extend256 n r).length = r.length + n := by
  induction n with
  | zero => intro r _; rfl
  | succ n ih =>
    intro r h
    obtain ⟨a0, a1, a2, a3, a4, a5, a6, a7, a8, a9, a10, a11, a12, a13, a14, a15, t, rfl⟩ := exists16 r h
    rw [extend256, ih _ (by simp)]
    simp; omega

theorem extend512_length (n : Nat) : ∀ r : List UInt64, 16 ≤ r.length → (extend512 n r).length = r.length + n := by
  induction n with
  | zero => intro r _; rfl
  | succ n ih =>
    intro r h
    obtain ⟨a0, a1, a2, a3, a4, a5, a6, a7, a8, a9, a10, a11, a12, a13, a14, a15, t, rfl⟩ := exists16 r h
    rw [extend512, ih _ (by simp)]
    simp; omega

theorem schedule256_length (m : List UInt32) (h : m.length = 16) : (schedule256 m).length = 64 := by
  simp [schedule256, extend256_length 48 m.reverse (by simp [h]), h]

theorem schedule512_length (m : List UInt64) (h : m.length = 16) : (schedule512 m).length = 80 := by
  simp [schedule512, extend512_length 64 m.reverse (by simp [h]), h]

/-- **SHA-256 compression (C01 (v))**: the code-shaped block function (8-way unrolled rounds, renamed registers,
    `g ^ (e & (f ^ g))`, `(a & b) | (c & (a | b))`, table `K32` extracted from the source) equals FIPS 180-4 §6.2.2
    on every 64-byte block and every chaining value, and does not panic. -/
theorem digest_block_u32_eq (state : W8 UInt32) (buf : Bytes) (h : buf.length = 64) :
    Impl256.digest_block_u32 state buf = some (compress256 state buf) := by
  unfold Impl256.digest_block_u32 read_u32v_be
  have hw : (wordsBE32 buf).length = 16 := by rw [wordsBE32_length, h]
  have hs := schedule256_length _ hw
  have hk : Impl256.K32.length = 64 := by decide
  simp only [h, ne_eq, not_true_eq_false, if_false, hk, hs, or_self]
  have hz : (Impl256.K32.zip (schedule256 (wordsBE32 buf))).length = 8 * 8 := by
    simp [List.length_zip, hk, hs]
  rw [rounds_loop_eq 8 _ _ hz]
  simp only [compress256, W8.zipWith]
  have : Impl256.K32 = K256 := Cx.Proofs.Sha2Tables.K32_eq
  rw [this]

end Cx.Proofs.Sha2Compress
