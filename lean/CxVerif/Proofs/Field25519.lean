/-
  Proofs.Field25519 — facts about the Spec field: `pow` is exponentiation mod p, residues, exponent laws.
-/
import CxVerif.Spec.Field25519
import Mathlib.Tactic.Ring
import Mathlib.Tactic.NormNum
namespace Cx.Proofs.Field25519
open Cx Cx.Spec.Field25519

theorem p_pos : 0 < p := by decide

theorem powAux_eq (a : Nat) : ∀ (fuel e : Nat), e ≤ fuel → powAux a fuel e = a ^ e % p := by
  intro fuel
  induction fuel with
  | zero => intro e he; have : e = 0 := by omega
            subst this; simp [powAux]
  | succ n ih =>
    intro e he
    unfold powAux
    by_cases h0 : e = 0
    · subst h0; simp
    · simp only [h0, if_false]
      have ih' := ih (e / 2) (by omega)
      rw [ih']
      have hsq : a ^ (e / 2) % p * (a ^ (e / 2) % p) % p = a ^ (2 * (e / 2)) % p := by
        rw [← Nat.mul_mod, ← Nat.pow_add]; congr 2; omega
      rw [hsq]
      by_cases h1 : e % 2 = 1
      · simp only [h1, if_true]
        rw [Nat.mod_mul_mod, ← Nat.pow_succ]; congr 2; omega
      · simp only [h1, if_false]; congr 2; omega

/-- `pow` is modular exponentiation -/
theorem pow_eq (a e : Nat) : pow a e = a ^ e % p := powAux_eq a e e (Nat.le_refl e)

theorem pow_mod (a e : Nat) : pow (a % p) e = pow a e := by
  rw [pow_eq, pow_eq, ← Nat.pow_mod]

theorem pow_lt (a e : Nat) : pow a e < p := by rw [pow_eq]; exact Nat.mod_lt _ p_pos

theorem inv_eq (a : Nat) : inv a = a ^ (p - 2) % p := pow_eq a (p - 2)
theorem pow25523_eq (a : Nat) : pow25523 a = a ^ (2^252 - 3) % p := by
  unfold pow25523; rw [pow_eq]; rfl

end Cx.Proofs.Field25519
