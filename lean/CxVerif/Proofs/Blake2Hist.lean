/-
  Proofs.Blake2Hist — operation histories of a BLAKE2 context (C02): the concrete state machine over
  `Impl.Blake2.Ctx` (current context + a stack of clones), the abstract one over (key, bytes since reset),
  the simulation between them, and "checked refines wrapping" (C20).
-/
import CxVerif.Proofs.Blake2
namespace Cx.Proofs.Blake2
open Cx Cx.Spec.Blake2
open Cx.Impl.Blake2 (Engine Ctx Profile LastBlock setSlice zeroFrom addAssign compressRows initH)

/-- the operations of the modern API on one context value; `clone` pushes a copy of the current context on a
    stack, `swap` exchanges the current context with the top of the stack (so both copies can be continued) -/
inductive Op
  | update (d : Bytes)
  | update_mut (d : Bytes)
  | reset
  | reset_with_key (k : Bytes)
  | finalize_reset
  | finalize_reset_with_key (k : Bytes)
  | finalize            -- `finalize` consumes: it is applied to a clone, the current context stays
  | clone
  | swap

section generic
variable {W : Type} [Word W]

abbrev CSt (W : Type) := Ctx W × List (Ctx W)
abbrev AVal := Bytes × Bytes          -- (key, bytes since last reset)
abbrev ASt := AVal × List AVal

/-- one operation on the code-shaped model (output length `nn` fixed at creation); `none` = panic -/
def stepC (P : Params W) (pr : Profile) (nn : Nat) (s : CSt W) : Op → Option (CSt W × Option Bytes)
  | .update d | .update_mut d =>
    match Ctx.update_mut P pr s.1 d with
    | none => none
    | some c => some ((c, s.2), none)
  | .reset => some ((Ctx.reset P s.1 nn, s.2), none)
  | .reset_with_key k =>
    match Ctx.reset_with_key P s.1 nn k with
    | none => none
    | some c => some ((c, s.2), none)
  | .finalize_reset =>
    match Ctx.finalize_reset_at P pr s.1 nn nn with
    | none => none
    | some (c, out) => some ((c, s.2), some out)
  | .finalize_reset_with_key k =>
    match Ctx.finalize_reset_with_key_at P pr s.1 nn k nn with
    | none => none
    | some (c, out) => some ((c, s.2), some out)
  | .finalize =>
    match Ctx.finalize_at P pr s.1 nn nn with
    | none => none
    | some out => some (s, some out)
  | .clone => some ((s.1, s.1 :: s.2), none)
  | .swap =>
    match s.2 with
    | [] => some (s, none)
    | t :: rest => some ((t, s.1 :: rest), none)

/-- the same operation on the abstract state; digests come from the Spec -/
def stepA (P : Params W) (nn : Nat) (a : ASt) : Op → Option (ASt × Option Bytes)
  | .update d | .update_mut d => some (((a.1.1, a.1.2 ++ d), a.2), none)
  | .reset => some ((([], []), a.2), none)
  | .reset_with_key k => if k.length ≤ P.maxKey then some (((k, []), a.2), none) else none
  | .finalize_reset => some ((([], []), a.2), some (blake2 P nn a.1.1 a.1.2))
  | .finalize_reset_with_key k =>
    if k.length ≤ P.maxKey then some (((k, []), a.2), some (blake2 P nn a.1.1 a.1.2)) else none
  | .finalize => some (a, some (blake2 P nn a.1.1 a.1.2))
  | .clone => some ((a.1, a.1 :: a.2), none)
  | .swap =>
    match a.2 with
    | [] => some (a, none)
    | t :: rest => some ((t, a.1 :: rest), none)

def addOut (outs : List Bytes) : Option Bytes → List Bytes
  | none => outs
  | some o => outs ++ [o]

/-- a whole history; the digests emitted, in order -/
def runC (P : Params W) (pr : Profile) (nn : Nat) : CSt W → List Op → List Bytes → Option (CSt W × List Bytes)
  | s, [], outs => some (s, outs)
  | s, op :: ops, outs =>
    match stepC P pr nn s op with
    | none => none
    | some (s', o) => runC P pr nn s' ops (addOut outs o)

def runA (P : Params W) (nn : Nat) : ASt → List Op → List Bytes → Option (ASt × List Bytes)
  | a, [], outs => some (a, outs)
  | a, op :: ops, outs =>
    match stepA P nn a op with
    | none => none
    | some (a', o) => runA P nn a' ops (addOut outs o)

/-- abstraction relation of one context -/
def RelA (P : Params W) (nn : Nat) (c : Ctx W) (a : AVal) : Prop :=
  a.1.length ≤ P.maxKey ∧ Rel P c (init P nn a.1.length) 0 (keyBlock P.bb a.1 ++ a.2)

def RelL (P : Params W) (nn : Nat) : List (Ctx W) → List AVal → Prop
  | [], [] => True
  | c :: cs, a :: as => RelA P nn c a ∧ RelL P nn cs as
  | _, _ => False

def RelSt (P : Params W) (nn : Nat) (s : CSt W) (a : ASt) : Prop := RelA P nn s.1 a.1 ∧ RelL P nn s.2 a.2

/-- outcome of a step / run on both sides: both panic, or both return with equal outputs and related states -/
def Agree (P : Params W) (nn : Nat) {β : Type} (x : Option (CSt W × β)) (y : Option (ASt × β)) : Prop :=
  match x, y with
  | none, none => True
  | some (s, o), some (a, o') => o = o' ∧ RelSt P nn s a
  | _, _ => False

theorem newState_relA (P : Params W) (g : Good P) (nn : Nat) (hn : nn ≤ P.maxOut) (k : Bytes) (hk : k.length ≤ P.maxKey) :
    RelA P nn (newState P nn k) (k, []) := by
  refine ⟨hk, ?_⟩
  simpa using newState_rel P g nn k hn hk

theorem stepC_sim (P : Params W) (g : Good P) (nn : Nat) (hn : 0 < nn ∧ nn ≤ P.maxOut) (s : CSt W) (a : ASt)
    (hr : RelSt P nn s a) (op : Op) :
    Agree P nn (stepC P .wrapping nn s op) (stepA P nn a op) := by
  obtain ⟨⟨hk, hrel⟩, hstack⟩ := hr
  have hkb : a.1.1.length ≤ P.bb := Nat.le_trans hk g.key_le
  have hupd : ∀ d, Agree P nn (stepC P .wrapping nn s (.update d)) (stepA P nn a (.update d)) := by
    intro d
    obtain ⟨c', h1, h2⟩ := Rel.update P g .wrapping s.1 _ 0 _ d hrel (fits_wrapping _ _)
    simp only [stepC, stepA, h1, Agree]
    refine ⟨trivial, ⟨hk, ?_⟩, hstack⟩
    simpa [List.append_assoc] using h2
  have hfin : Ctx.finalize_at P .wrapping s.1 nn nn = some (blake2 P nn a.1.1 a.1.2) := by
    rw [Rel.finalize_at P g .wrapping s.1 _ 0 _ nn hn.2 hrel (fits_wrapping _ _),
      blake2_eq_stream P g.bb_pos nn a.1.1 a.1.2 hkb]
    rfl
  obtain ⟨cf, hf1, hf2, hf3⟩ := Rel.internal_final P g .wrapping s.1 _ 0 _ hrel (fits_wrapping _ _)
  have hout : cf.buf.take nn = blake2 P nn a.1.1 a.1.2 := by
    rw [hf3 nn (Nat.le_trans hn.2 g.out_le), blake2_eq_stream P g.bb_pos nn a.1.1 a.1.2 hkb]
    rfl
  cases op with
  | update d => exact hupd d
  | update_mut d => exact hupd d
  | reset =>
    simp only [stepC, stepA, Agree, reset_eq P s.1 hrel.1 nn]
    exact ⟨trivial, newState_relA P g nn hn.2 [] (Nat.zero_le _), hstack⟩
  | reset_with_key k =>
    by_cases hkk : k.length ≤ P.maxKey
    · simp only [stepC, stepA, Agree, reset_with_key_eq P s.1 hrel.1 nn k hkk, if_pos hkk]
      exact ⟨trivial, newState_relA P g nn hn.2 k hkk, hstack⟩
    · simp only [stepC, stepA, Agree, reset_with_key_none P s.1 nn k hkk, if_neg hkk]
  | finalize_reset =>
    simp only [stepC, stepA, Agree, Ctx.finalize_reset_at, hf1, reset_eq P cf hf2 nn, hout]
    simp only [ne_eq, not_true_eq_false, ↓reduceIte]
    exact ⟨trivial, newState_relA P g nn hn.2 [] (Nat.zero_le _), hstack⟩
  | finalize_reset_with_key k =>
    by_cases hkk : k.length ≤ P.maxKey
    · simp only [stepC, stepA, Agree, Ctx.finalize_reset_with_key_at, hf1, reset_with_key_eq P cf hf2 nn k hkk, hout,
        if_pos hkk]
      simp only [ne_eq, not_true_eq_false, ↓reduceIte]
      exact ⟨trivial, newState_relA P g nn hn.2 k hkk, hstack⟩
    · simp only [stepC, stepA, Agree, Ctx.finalize_reset_with_key_at, hf1, reset_with_key_none P cf nn k hkk,
        if_neg hkk]
      simp only [ne_eq, not_true_eq_false, ↓reduceIte]
  | finalize =>
    simp only [stepC, stepA, Agree, hfin]
    exact ⟨trivial, ⟨hk, hrel⟩, hstack⟩
  | clone =>
    simp only [stepC, stepA, Agree]
    exact ⟨trivial, ⟨hk, hrel⟩, ⟨hk, hrel⟩, hstack⟩
  | swap =>
    obtain ⟨c, cs⟩ := s
    obtain ⟨av, as⟩ := a
    cases cs with
    | nil =>
      cases as with
      | nil => simp only [stepC, stepA, Agree]; exact ⟨trivial, ⟨hk, hrel⟩, hstack⟩
      | cons _ _ => exact absurd hstack (by simp [RelL])
    | cons t rest =>
      cases as with
      | nil => exact absurd hstack (by simp [RelL])
      | cons t' rest' =>
        simp only [stepC, stepA, Agree]
        exact ⟨trivial, hstack.1, ⟨hk, hrel⟩, hstack.2⟩

theorem runC_sim (P : Params W) (g : Good P) (nn : Nat) (hn : 0 < nn ∧ nn ≤ P.maxOut) (ops : List Op) :
    ∀ (s : CSt W) (a : ASt) (outs : List Bytes), RelSt P nn s a →
      Agree P nn (runC P .wrapping nn s ops outs) (runA P nn a ops outs) := by
  induction ops with
  | nil => intro s a outs hr; exact ⟨rfl, hr⟩
  | cons op ops ih =>
    intro s a outs hr
    have h := stepC_sim P g nn hn s a hr op
    simp only [runC, runA]
    revert h
    cases stepC P .wrapping nn s op with
    | none =>
      cases stepA P nn a op with
      | none => intro _; trivial
      | some y => intro h; exact absurd h (by simp [Agree])
    | some x =>
      cases stepA P nn a op with
      | none => intro h; exact absurd h (by simp [Agree])
      | some y =>
        intro h
        obtain ⟨s', o⟩ := x
        obtain ⟨a', o'⟩ := y
        obtain ⟨ho, hr'⟩ := h
        subst ho
        exact ih s' a' _ hr'

/-! ### checked refines wrapping: whenever the overflow-checked `+=` build returns, the wrapping build returns the same -/

omit [Word W] in
theorem addAssign_mono (w a b r : Nat) (h : addAssign w .checked a b = some r) : addAssign w .wrapping a b = some r := by
  unfold addAssign at *
  simp only [] at h ⊢
  split at h
  · rename_i hlt
    cases h
    rw [Nat.mod_eq_of_lt hlt]
  · cases h

theorem increment_counter_mono (e e' : Engine W) (inc : Nat) (h : e.increment_counter .checked inc = some e') :
    e.increment_counter .wrapping inc = some e' := by
  unfold Engine.increment_counter at *
  cases h0 : addAssign (Word.bits W) .checked e.t0 inc with
  | none => rw [h0] at h; cases h
  | some t0 =>
    rw [h0] at h
    rw [addAssign_mono _ _ _ _ h0]
    simp only [] at h ⊢
    cases h1 : addAssign (Word.bits W) .checked e.t1 (if t0 < inc then 1 else 0) with
    | none => rw [h1] at h; cases h
    | some t1 =>
      rw [h1] at h
      rw [addAssign_mono _ _ _ _ h1]
      exact h

theorem update_loop_mono (P : Params W) :
    ∀ (f : Nat) (e : Engine W) (d : Bytes) (r : Engine W × Bytes),
      Ctx.update_loop P .checked f e d = some r → Ctx.update_loop P .wrapping f e d = some r := by
  intro f
  induction f with
  | zero => intro e d r h; exact h
  | succ f ih =>
    intro e d r h
    simp only [Ctx.update_loop] at h ⊢
    split
    · rename_i hlt
      rw [if_pos hlt] at h
      cases h0 : e.increment_counter .checked P.bb with
      | none => rw [h0] at h; cases h
      | some e1 =>
        rw [h0] at h
        rw [increment_counter_mono e e1 _ h0]
        exact ih _ _ _ h
    · rename_i hlt
      rw [if_neg hlt] at h
      exact h

theorem update_mut_mono (P : Params W) (c c' : Ctx W) (d : Bytes) (h : Ctx.update_mut P .checked c d = some c') :
    Ctx.update_mut P .wrapping c d = some c' := by
  unfold Ctx.update_mut at *
  split
  · rename_i he; rw [if_pos he] at h; exact h
  · rename_i he
    rw [if_neg he] at h
    simp only [] at h ⊢
    split
    · rename_i hb
      rw [if_pos hb] at h
      cases h0 : c.eng.increment_counter .checked P.bb with
      | none => rw [h0] at h; cases h
      | some e1 =>
        rw [h0] at h
        rw [increment_counter_mono _ e1 _ h0]
        simp only [] at h ⊢
        cases h1 : Ctx.update_loop P .checked (d.drop (P.bb - c.buflen)).length
            (e1.compress P ((setSlice c.buf c.buflen (d.take (P.bb - c.buflen))).take P.bb) LastBlock.No)
            (d.drop (P.bb - c.buflen)) with
        | none => rw [h1] at h; cases h
        | some r =>
          rw [h1] at h
          rw [update_loop_mono P _ _ _ _ h1]
          exact h
    · rename_i hb
      rw [if_neg hb] at h
      exact h

theorem internal_final_mono (P : Params W) (c c' : Ctx W) (h : Ctx.internal_final P .checked c = some c') :
    Ctx.internal_final P .wrapping c = some c' := by
  unfold Ctx.internal_final at *
  cases h0 : c.eng.increment_counter .checked (c.buflen % 2 ^ Word.bits W) with
  | none => rw [h0] at h; cases h
  | some e1 =>
    rw [h0] at h
    rw [increment_counter_mono _ e1 _ h0]
    exact h

theorem stepC_mono (P : Params W) (nn : Nat) (s : CSt W) (op : Op) (r : CSt W × Option Bytes)
    (h : stepC P .checked nn s op = some r) : stepC P .wrapping nn s op = some r := by
  have hif : ∀ c', Ctx.internal_final P .checked s.1 = some c' → Ctx.internal_final P .wrapping s.1 = some c' :=
    fun c' => internal_final_mono P s.1 c'
  cases op with
  | update d | update_mut d =>
    simp only [stepC] at h ⊢
    cases h0 : Ctx.update_mut P .checked s.1 d with
    | none => rw [h0] at h; cases h
    | some c' => rw [h0] at h; rw [update_mut_mono P _ _ _ h0]; exact h
  | reset => exact h
  | reset_with_key k => exact h
  | clone => exact h
  | swap => exact h
  | finalize_reset =>
    simp only [stepC, Ctx.finalize_reset_at] at h ⊢
    cases h0 : Ctx.internal_final P .checked s.1 with
    | none => simp [h0] at h
    | some c' => rw [h0] at h; rw [hif c' h0]; exact h
  | finalize_reset_with_key k =>
    simp only [stepC, Ctx.finalize_reset_with_key_at] at h ⊢
    cases h0 : Ctx.internal_final P .checked s.1 with
    | none => simp [h0] at h
    | some c' => rw [h0] at h; rw [hif c' h0]; exact h
  | finalize =>
    simp only [stepC, Ctx.finalize_at] at h ⊢
    cases h0 : Ctx.internal_final P .checked s.1 with
    | none => simp [h0] at h
    | some c' => rw [h0] at h; rw [hif c' h0]; exact h

theorem runC_mono (P : Params W) (nn : Nat) (ops : List Op) :
    ∀ (s : CSt W) (outs : List Bytes) (r : CSt W × List Bytes),
      runC P .checked nn s ops outs = some r → runC P .wrapping nn s ops outs = some r := by
  induction ops with
  | nil => intro s outs r h; exact h
  | cons op ops ih =>
    intro s outs r h
    simp only [runC] at h ⊢
    cases h0 : stepC P .checked nn s op with
    | none => rw [h0] at h; cases h
    | some x =>
      rw [h0] at h
      rw [stepC_mono P nn s op x h0]
      exact ih _ _ _ h

end generic
end Cx.Proofs.Blake2
